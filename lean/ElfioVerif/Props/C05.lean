/-
C05 — load, edit, save, load preserves what the user did not touch.
-/
import ElfioVerif.Lemmas.Save
import ElfioVerif.Props.C03
namespace ElfioVerif.C05
open Gen C03

/-! ### 1. what `save` changes of the object -/

/-- `b` is section `a` after a `save()`: apart from the placement (`offset`; `addr`/`addrSet` for a
    section that had no address) and the residency of lazily loaded data, nothing changes — in
    particular not name, name offset, type, flags, size, link, info, alignment, entry size. -/
structure SecSaved (a b : SecBuf) : Prop where
  rest : b = { a with offset := b.offset, addr := b.addr, addrSet := b.addrSet, data := b.data,
                      dataSize := b.dataSize, isLoaded := b.isLoaded, canLoad := b.canLoad }
  /-- an address that was set (explicitly, or by loading) is kept -/
  addrKept : a.addrSet = true → b.addr = a.addr ∧ b.addrSet = true
  /-- a data buffer that exists is kept (every section of a created object that has data; every
      resident section of a loaded one) -/
  dataSome : a.data.isSome = true → b.data = a.data ∧ b.dataSize = a.dataSize
  /-- a resident section (or one that can no longer be loaded) keeps all of its data state -/
  dataKept : (a.isLoaded = true ∨ a.canLoad = false) →
    b.data = a.data ∧ b.dataSize = a.dataSize ∧ b.isLoaded = a.isLoaded ∧ b.canLoad = a.canLoad

theorem secSaved_of {a a0 m b : SecBuf} (h0 : ResFrame a a0) (h1 : SecFrame a0 m) (h2 : ResFrame m b) :
    SecSaved a b := by
  have e0 := h0.rest; have e1 := h1.rest; have e2 := h2.rest
  refine ⟨?_, fun h => ?_, fun h => ?_, fun h => ?_⟩
  · rw [e0] at e1
    rw [e1] at e2
    rw [e2]
  · have ha0 : a0.addrSet = true := by rw [e0]; exact h
    obtain ⟨p, q⟩ := h1.addrKept ha0
    have : a0.addr = a.addr := by rw [e0]
    rw [e2]; exact ⟨p.trans this, q⟩
  · obtain ⟨p0, q0⟩ := h0.dataSome h
    have hm : m.data.isSome = true := by rw [e1]; show a0.data.isSome = true; rw [p0]; exact h
    obtain ⟨p2, q2⟩ := h2.dataSome hm
    have pm : m.data = a0.data := by rw [e1]
    have qm : m.dataSize = a0.dataSize := by rw [e1]
    exact ⟨p2.trans (pm.trans p0), q2.trans (qm.trans q0)⟩
  · have ea : a0 = a := h0.resident h
    subst ea
    have hm : m.isLoaded = true ∨ m.canLoad = false := by rw [e1]; exact h
    have := h2.resident hm
    rw [this, e1]; exact ⟨rfl, rfl, rfl, rfl⟩

/-- the header fields of a section that `save` leaves alone, spelled out -/
theorem SecSaved.fields {a b : SecBuf} (h : SecSaved a b) :
    b.name = a.name ∧ b.nameOff = a.nameOff ∧ b.stype = a.stype ∧ b.flags = a.flags ∧ b.size = a.size ∧
    b.link = a.link ∧ b.info = a.info ∧ b.addrAlign = a.addrAlign ∧ b.entSize = a.entSize ∧
    b.index = a.index ∧ b.cls = a.cls := by
  rw [h.rest]; exact ⟨rfl, rfl, rfl, rfl, rfl, rfl, rfl, rfl, rfl, rfl, rfl⟩

theorem SegSaved.fields {c : Cls} {g g' : Seg} (h : SegSaved c g g') :
    g'.stype = g.stype ∧ g'.flags = g.flags ∧ g'.vaddr = g.vaddr ∧ g'.paddr = g.paddr ∧
    g'.secs = g.secs ∧ g'.index = g.index ∧ g.align.toNat ≤ g'.align.toNat ∧
    (c = .c64 → g.memsz.toNat ≤ g'.memsz.toNat) := by
  refine ⟨?_, ?_, ?_, ?_, ?_, ?_, h.frame.alignGrows, h.frame.memGrows⟩ <;> rw [h.frame.rest]

/-- **save_writes_fields** : a successful `save` keeps the number and order of sections and
    segments; of a section it changes only the placement (`SecSaved`), of a segment only `offset`,
    `filesz`, `memsz` (grows), `align` (grows), `offsetSet` (`SegSaved`); class, byte order and address
    translation of the object are untouched.  Frame theorem over `calc_segment_alignment`, the
    segment loop (`write_segment_data` by induction over the member lists), the loose sections and
    the residency pass (`save_frames`).  Hypothesis `SegIdxOk`: segments carry their position as
    index (the "put back by index" step of the model relies on it; true below 65536 segments). -/
theorem save_writes_fields {o : Obj} {os : OStream} {r : SaveRes} (h : save o os = .ok r) (hok : r.ok = true)
    (hidx : SegIdxOk o.segs) :
    FrameL SecSaved o.secs r.obj.secs ∧ FrameL (SegSaved o.cls) o.segs r.obj.segs ∧
    r.obj.cls = o.cls ∧ r.obj.enc = o.enc ∧ r.obj.trans = o.trans := by
  obtain ⟨⟨l0, l1, f0, f1, f2⟩, fs, e1, e2, e3⟩ := save_frames h hok hidx
  have f01 : FrameL (fun a m => ∃ a0, ResFrame a a0 ∧ SecFrame a0 m) o.secs l1 :=
    FrameL.comp (R := ResFrame) (S := Placed o.cls) (fun a a0 m h0 h1 => ⟨a0, h0, Placed.frame h1⟩) f0 f1
  exact ⟨FrameL.comp (S := ResFrame) (T := SecSaved)
    (fun a m b h1 h2 => by obtain ⟨a0, h0, h1'⟩ := h1; exact secSaved_of h0 h1' h2) f01 f2, fs, e1, e2, e3⟩

/-! ### 2. the memory image -/

/-- equidistance of member `s` in segment `g` (C04's `member_equidistant`): the section lies as far
    behind the segment's start in the file as in memory, i.e. the loader maps its first byte to its
    address -/
def Equidistant (g : Seg) (s : SecBuf) : Prop := g.vaddr + (s.offset - g.offset) = s.addr

/-- **the step that places a member establishes equidistance** (ELF64): whenever
    `write_segment_data` places a not-yet-generated member that either had no address or is
    file-occupying and non-empty, the section's new offset and address satisfy
    `vaddr_g + (offset_s − segment start) = addr_s`.  (A NOBITS or empty member *with* an explicit
    address is placed at the cursor regardless of its address — F14 — and is excluded.) -/
theorem wsdStep_equidistant {g : Seg} {ss : BitVec 64} {st st' : WsdSt} {idx : BitVec 16} {sec : SecBuf}
    (h : wsdStep .c64 g ss st idx = .ok (some st')) (hs : st.lay.secs[idx.toNat]? = some sec)
    (hgen : st.lay.gen[idx.toNat]? = some false) (hnn : wsd_is_null sec.stype = false)
    (hidx : sec.index ≠ 0)
    (hocc : sec.addrSet = false ∨ (sec.stype ≠ BitVec.ofNat 32 SHT_NOBITS ∧ sec.size ≠ 0)) :
    ∃ sec', st'.lay.secs[idx.toNat]? = some sec' ∧ g.vaddr + (sec'.offset - ss) = sec'.addr ∧
      sec'.addrSet = true := by
  unfold wsdStep at h
  rw [hs, hgen] at h
  simp only [hnn, Bool.false_eq_true, if_false] at h
  have hi : (sec.index != 0) = true := by simpa using hidx
  split at h
  · cases h
  · rename_i gap hgap
    simp only [pure, Except.pure, Except.ok.injEq, Option.some.injEq] at h
    subst h
    have hlt : idx.toNat < st.lay.secs.length := by
      rcases Nat.lt_or_ge idx.toNat st.lay.secs.length with h' | h'
      · exact h'
      · rw [List.getElem?_eq_none h'] at hs; cases hs
    refine ⟨_, List.getElem?_set_self hlt, ?_⟩
    cases has : sec.addrSet with
    | false =>
      simp only [Bool.not_false, if_true, setOffset, hi, truncA]
      refine ⟨?_, trivial⟩
      simp only [wsd_new_addr]
      bv_omega
    | true =>
      rcases hocc with h1 | ⟨h1, h2⟩
      · rw [has] at h1; cases h1
      · simp only [has, Bool.not_true, Bool.false_eq_true, if_false, setOffset, hi, if_true, truncA]
        refine ⟨?_, trivial⟩
        -- the address-driven gap
        have hb : wsd_addr_branch false true sec.stype sec.size = true := by
          have e1 : (BitVec.ofNat 32 SHT_NOBITS != sec.stype) = true := by
            simp only [bne_iff_ne, ne_eq]; exact fun e => h1 e.symm
          have e2 : (BitVec.ofNat 32 SHT_NULL != sec.stype) = true := by
            simp only [wsd_is_null, beq_eq_false_iff_ne, ne_eq] at hnn
            simp only [bne_iff_ne, ne_eq]; exact hnn
          have e3 : ((0 : BitVec 64) != sec.size) = true := by
            simp only [bne_iff_ne, ne_eq]; exact fun e => h2 e.symm
          simp only [wsd_addr_branch, e1, e2]
          simpa using e3
        rw [has, hb] at hgap
        simp only [if_true] at hgap
        split at hgap
        · cases hgap
        · simp only [Option.some.injEq] at hgap
          subst hgap
          simp only [wsd_cursor_gap, wsd_gap_addr, wsd_req_offset, wsd_cur_offset]
          bv_omega

open C03 in
/-- **image_bytes_at_same_vaddr** (corollary-by-hypothesis of C04's `member_equidistant`): let `b`,
    `g'` be section `i` and segment `j` of the saved object and assume they are equidistant.  Then in
    the *saved bytes*, read with the specification's decoder: (1) `p_vaddr + (sh_offset − p_offset) =
    sh_addr` — the loader maps the section's first file byte to the section's address; (2) that
    address is the one the object held before the save, if it had one (always, for a loaded object);
    (3) the section's data bytes are found at the file position the loader maps to `sh_addr`,
    i.e. at `p_offset + (sh_addr − p_vaddr)`: every byte of the memory image that came from this
    section is at the same virtual address as before. -/
theorem image_bytes_at_same_vaddr {o : Obj} {os : OStream} {r : SaveRes} (hs : save o os = .ok r)
    (hok : r.ok = true) (hg : os.Good) (htr : o.trans = []) (hidx : SegIdxOk o.segs) {h : Bytes}
    (hh : r.obj.hdr = some h) (hl : LayoutOk r.obj.cls r.obj.enc h r.obj.secs r.obj.segs)
    {i j : Nat} {a b : SecBuf} {g g' : Seg} (ha : o.secs[i]? = some a) (hb : r.obj.secs[i]? = some b)
    (hgj : o.segs[j]? = some g) (hg' : r.obj.segs[j]? = some g')
    (hfa : FieldsFit o.cls a) (hfg : SegFit o.cls g') (heq : Equidistant g' b) :
    let img := r.os.content
    let sb := (Hdr.e_shoff o.cls o.enc h).toNat + (Hdr.e_shentsize o.cls o.enc h).toNat * a.index
    let pb := (Hdr.e_phoff o.cls o.enc h).toNat + (Hdr.e_phentsize o.cls o.enc h).toNat * g.index
    let shAddr := BitVec.ofNat 64 (Spec.get (Spec.shdrL o.cls) o.enc img sb "sh_addr")
    let shOff := BitVec.ofNat 64 (Spec.get (Spec.shdrL o.cls) o.enc img sb "sh_offset")
    let pVaddr := BitVec.ofNat 64 (Spec.get (Spec.phdrL o.cls) o.enc img pb "p_vaddr")
    let pOff := BitVec.ofNat 64 (Spec.get (Spec.phdrL o.cls) o.enc img pb "p_offset")
    pVaddr + (shOff - pOff) = shAddr ∧
    pVaddr = g.vaddr ∧
    (a.addrSet = true → shAddr = a.addr) ∧
    (a.stype ≠ BitVec.ofNat 32 SHT_NOBITS → a.stype ≠ BitVec.ofNat 32 SHT_NULL → a.size ≠ 0 →
      a.data.isSome = true → slice img (pOff + (shAddr - pVaddr)).toNat a.view.length = a.view) := by
  obtain ⟨fsec, fseg, ec, ee, _⟩ := save_writes_fields hs hok hidx
  have sv := fsec.2 i a b ha hb
  have sg := fseg.2 j g g' hgj hg'
  have hbm : b ∈ r.obj.secs := List.mem_of_getElem? hb
  have hgm : g' ∈ r.obj.segs := List.mem_of_getElem? hg'
  obtain ⟨hrec, dat⟩ := save_decodes_section hs hok hg htr hh hl hbm
  have prec := save_decodes_segment hs hok hg htr hh hl hgm
  rw [ec, ee] at hrec prec
  have eidx : b.index = a.index := sv.fields.2.2.2.2.2.2.2.2.2.1
  have egidx : g'.index = g.index := sg.frame.index
  rw [eidx] at hrec
  rw [egidx] at prec
  -- the saved section's fields fit (placement fields are truncated by the setters)
  have fitb : FieldsFit o.cls b := by
    obtain ⟨⟨l0, l1, f0, f1, f2⟩, _⟩ := save_frames hs hok hidx
    have hi0 : i < l0.length := by
      rw [f0.1]
      rcases Nat.lt_or_ge i o.secs.length with hlt | hge
      · exact hlt
      · rw [List.getElem?_eq_none hge] at ha; cases ha
    have hi1 : i < l1.length := by rw [f1.1]; exact hi0
    exact resFrame_fit (f2.2 i l1[i] b (List.getElem?_eq_getElem hi1) hb)
      (placed_fit (f1.2 i l0[i] l1[i] (List.getElem?_eq_getElem hi0) (List.getElem?_eq_getElem hi1))
        (resFrame_fit (f0.2 i a l0[i] ha (List.getElem?_eq_getElem hi0)) hfa))
  obtain ⟨_, _, _, s3, s4, _, _, _, _, _⟩ := shdr_get_at hrec fitb
  obtain ⟨_, _, p2, p3, _, _, _, _⟩ := phdr_get_at prec hfg
  simp only
  rw [s3, s4, p2, p3, BitVec.ofNat_toNat, BitVec.ofNat_toNat, BitVec.ofNat_toNat, BitVec.ofNat_toNat,
    BitVec.setWidth_eq, BitVec.setWidth_eq, BitVec.setWidth_eq, BitVec.setWidth_eq]
  unfold Equidistant at heq
  refine ⟨heq, ?_, fun hset => (sv.addrKept hset).1, fun n1 n2 n3 n4 => ?_⟩
  · rw [sg.frame.rest]
  · have e : (g'.offset + (b.addr - g'.vaddr)) = b.offset := by rw [← heq]; bv_omega
    rw [e]
    have hst : b.stype = a.stype := sv.fields.2.2.1
    have hsz : b.size = a.size := sv.fields.2.2.2.2.1
    have hda : b.data = a.data := (sv.dataSome n4).1
    cases hd : a.data with
    | none => rw [hd] at n4; cases n4
    | some d =>
      have := dat (by rw [hst]; exact n1) (by rw [hst]; exact n2) (by rw [hsz]; exact n3) d (by rw [hda]; exact hd)
      simpa only [SecBuf.view, hd, Option.getD_some, hsz] using this

/-! ### 3. load after save -/

/-- `secs`, `segs` are what a loader reports for image `img` in class `c`, byte order `enc` — stated
    against the *specification's* decoder (that the model's `load` delivers exactly this on well-formed
    images is C02: `shdr_fields_eq_spec`, `phdr_fields_eq_spec`, `ehdr_fields_eq_spec`).  Section `i`
    is decoded from record `i` of the table at `e_shoff`; its data are the file bytes at its offset;
    every address counts as set (`set_address(get_address())` at the end of `section::load`). -/
structure Loaded (c : Cls) (enc : Enc) (secs : List SecBuf) (segs : List Seg) (img : Bytes) : Prop where
  nsec : secs.length = Spec.get (Spec.ehdrL c) enc img 0 "e_shnum"
  nseg : segs.length = Spec.get (Spec.ehdrL c) enc img 0 "e_phnum"
  sec : ∀ (i : Nat) b, secs[i]? = some b →
    let base := Spec.get (Spec.ehdrL c) enc img 0 "e_shoff" + Spec.get (Spec.ehdrL c) enc img 0 "e_shentsize" * i
    let l := Spec.shdrL c
    b.nameOff.toNat = Spec.get l enc img base "sh_name" ∧ b.stype.toNat = Spec.get l enc img base "sh_type" ∧
    b.flags.toNat = Spec.get l enc img base "sh_flags" ∧ b.addr.toNat = Spec.get l enc img base "sh_addr" ∧
    b.offset.toNat = Spec.get l enc img base "sh_offset" ∧ b.size.toNat = Spec.get l enc img base "sh_size" ∧
    b.link.toNat = Spec.get l enc img base "sh_link" ∧ b.info.toNat = Spec.get l enc img base "sh_info" ∧
    b.addrAlign.toNat = Spec.get l enc img base "sh_addralign" ∧
    b.entSize.toNat = Spec.get l enc img base "sh_entsize" ∧ b.addrSet = true ∧
    (b.stype ≠ BitVec.ofNat 32 SHT_NOBITS → b.stype ≠ BitVec.ofNat 32 SHT_NULL → b.size ≠ 0 →
      b.view = slice img b.offset.toNat b.size.toNat)
  seg : ∀ (j : Nat) g, segs[j]? = some g →
    let base := Spec.get (Spec.ehdrL c) enc img 0 "e_phoff" + Spec.get (Spec.ehdrL c) enc img 0 "e_phentsize" * j
    let l := Spec.phdrL c
    g.stype.toNat = Spec.get l enc img base "p_type" ∧ g.flags.toNat = Spec.get l enc img base "p_flags" ∧
    g.vaddr.toNat = Spec.get l enc img base "p_vaddr" ∧ g.paddr.toNat = Spec.get l enc img base "p_paddr" ∧
    g.memsz.toNat = Spec.get l enc img base "p_memsz" ∧ g.align.toNat = Spec.get l enc img base "p_align"

/-- sections carry their position as index (every created or loaded object below 65536 sections) -/
def SecIdxOk (secs : List SecBuf) : Prop := ∀ (k : Nat) b, secs[k]? = some b → b.index = k

/-- **loaded_resave_fields** : save an object and load the result (`o2`: any object that is `Loaded`
    from the saved bytes).  Then `o2` has as many sections and segments as `o` (mod 2^16), and — in the
    same order — every section has the same name offset, type, flags, size, link, info, alignment,
    entry size, the same address if `o`'s section had one (for a loaded `o` every section has), and
    the same data if it is file-occupying, non-empty and its data were in memory with a buffer of at
    least `size` bytes; every segment has the same type, flags, virtual and physical address, an
    alignment and (ELF64) a memory size of at least the old ones.  Hypotheses as `save_decode_fields`
    (incl. C04's `LayoutOk` on the saved object) plus index bookkeeping. -/
theorem loaded_resave_fields {o : Obj} {os : OStream} {r : SaveRes} (hs : save o os = .ok r) (hok : r.ok = true)
    (hg : os.Good) (htr : o.trans = []) (hidx : SegIdxOk o.segs) (hsidx : SecIdxOk o.secs) {h hd : Bytes}
    (hh : r.obj.hdr = some h) (hhd : o.hdr = some hd) (hlen : ehdrSize o.cls ≤ hd.length)
    (hl : LayoutOk r.obj.cls r.obj.enc h r.obj.secs r.obj.segs)
    (hfit : ∀ a ∈ o.secs, FieldsFit o.cls a) (hsegfit : ∀ g ∈ r.obj.segs, SegFit o.cls g)
    {secs2 : List SecBuf} {segs2 : List Seg} (hld : Loaded o.cls o.enc secs2 segs2 r.os.content) :
    secs2.length = o.secs.length % 65536 ∧ segs2.length = o.segs.length % 65536 ∧
    (∀ (i : Nat) a b2, o.secs[i]? = some a → secs2[i]? = some b2 →
      b2.nameOff = a.nameOff ∧ b2.stype = a.stype ∧ b2.flags = a.flags ∧ b2.size = a.size ∧ b2.link = a.link ∧
      b2.info = a.info ∧ b2.addrAlign = a.addrAlign ∧ b2.entSize = a.entSize ∧ b2.addrSet = true ∧
      (a.addrSet = true → b2.addr = a.addr) ∧
      (a.stype ≠ BitVec.ofNat 32 SHT_NOBITS → a.stype ≠ BitVec.ofNat 32 SHT_NULL → a.size ≠ 0 →
        (∃ d, a.data = some d ∧ a.size.toNat ≤ d.length) → b2.view = a.view)) ∧
    (∀ (j : Nat) g g2, o.segs[j]? = some g → segs2[j]? = some g2 →
      g2.stype = g.stype ∧ g2.flags = g.flags ∧ g2.vaddr = g.vaddr ∧ g2.paddr = g.paddr ∧
      g.align.toNat ≤ g2.align.toNat ∧ (o.cls = .c64 → g.memsz.toNat ≤ g2.memsz.toNat)) := by
  obtain ⟨_, _, _, _, _, _, _, _, _, _, esn, epn⟩ := save_decode_header hs hok hg htr hh hhd hlen hl
  obtain ⟨dsec, dseg⟩ := save_decode_fields hs hok hg htr hidx hh hl hfit hsegfit
  -- the table positions read from the image are the saved header's
  obtain ⟨hd', h', e1, e2, key⟩ := save_header_fields hs hok
  rw [hhd] at e1; cases e1
  rw [hh] at e2; cases e2
  have hlh : ehdrSize o.cls ≤ h.length := by rw [(key hlen).1]; exact hlen
  obtain ⟨_, _, _, _, a4, a5, _, _, a8, _, a10, _, _⟩ := C02.ehdr_fields_eq_spec o.cls o.enc h hlh
  have at0 := save_image_header hs hok hg htr hh hlh hl
  have vn : ∀ name ∈ ["e_shoff", "e_shentsize", "e_phoff", "e_phentsize"], ValidName (Spec.ehdrL o.cls) name := by
    cases o.cls <;> decide
  have eshoff := (at0 "e_shoff" (vn _ (by decide))).trans a5.symm
  have eshent := (at0 "e_shentsize" (vn _ (by decide))).trans a10.symm
  have ephoff := (at0 "e_phoff" (vn _ (by decide))).trans a4.symm
  have ephent := (at0 "e_phentsize" (vn _ (by decide))).trans a8.symm
  refine ⟨hld.nsec.trans esn, hld.nseg.trans epn, ?_, ?_⟩
  · intro i a b2 ha hb2
    obtain ⟨l0, l1, l2, l3, l4, l5, l6, l7, l8, l9, l10, l11⟩ := hld.sec i b2 hb2
    obtain ⟨d0, d1, d2, d3, d4, d5, d6, d7, d8, d9⟩ := dsec i a ha
    have ei : a.index = i := hsidx i a ha
    simp only [eshoff, eshent] at l0 l1 l2 l3 l4 l5 l6 l7 l8 l9
    simp only [ei] at d0 d1 d2 d3 d4 d5 d6 d7 d8 d9
    have est : b2.stype = a.stype := BitVec.eq_of_toNat_eq (l1.trans d1)
    have esz : b2.size = a.size := BitVec.eq_of_toNat_eq (l5.trans d3)
    refine ⟨BitVec.eq_of_toNat_eq (l0.trans d0), est, BitVec.eq_of_toNat_eq (l2.trans d2), esz,
      BitVec.eq_of_toNat_eq (l6.trans d4), BitVec.eq_of_toNat_eq (l7.trans d5),
      BitVec.eq_of_toNat_eq (l8.trans d6), BitVec.eq_of_toNat_eq (l9.trans d7), l10,
      fun hset => BitVec.eq_of_toNat_eq (l3.trans (d8 hset)), fun n1 n2 n3 n4 => ?_⟩
    obtain ⟨d, hdat, hdl⟩ := n4
    have v2 := l11 (by rw [est]; exact n1) (by rw [est]; exact n2) (by rw [esz]; exact n3)
    have v1 := d9 n1 n2 n3 (by rw [hdat]; rfl)
    have hvl : a.view.length = a.size.toNat := by
      simp only [SecBuf.view, hdat, Option.getD_some, List.length_take]; omega
    rw [v2, l4, esz, ← hvl]
    exact v1
  · intro j g g2 hgj hg2
    obtain ⟨l0, l1, l2, l3, l4, l5⟩ := hld.seg j g2 hg2
    obtain ⟨d0, d1, d2, d3, d4, d5⟩ := dseg j g hgj
    have ej : g.index = j := hidx j g hgj
    simp only [ephoff, ephent] at l0 l1 l2 l3 l4 l5
    simp only [ej] at d0 d1 d2 d3 d4 d5
    refine ⟨BitVec.eq_of_toNat_eq (l0.trans d0), BitVec.eq_of_toNat_eq (l1.trans d1),
      BitVec.eq_of_toNat_eq (l2.trans d2), BitVec.eq_of_toNat_eq (l3.trans d3), by rw [l5]; exact d4, ?_⟩
    intro hc
    rw [l4]; exact d5 hc

/-- names: a section's name is read from the name table (section `e_shstrndx`) at its name offset;
    table content and name offsets survive (`loaded_resave_fields`), so the names do — for every
    resolver that is a function of table bytes and offset (`C08.get_refines`: the accessor is). -/
theorem loaded_resave_names {st st2 a b2 : SecBuf} (hv : st2.view = st.view) (hn : b2.nameOff = a.nameOff) :
    Spec.strAt st2.view b2.nameOff.toNat = Spec.strAt st.view a.nameOff.toNat := by rw [hv, hn]

end ElfioVerif.C05
