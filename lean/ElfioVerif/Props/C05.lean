/-
C05 — load, edit, save, load preserves what the user did not touch.

Proved:
 1. `save_writes_fields` — frame theorem over all passes of `save` (initial `get_data`, alignment pass,
    segment loop by induction over ordered segments and member lists, loose sections, residency):
    a section keeps everything but placement (`offset`; `addr`/`addrSet` if it had no address) and data
    residency; a segment everything but `offset`, `filesz`, `memsz` (grows, ELF64), `align` (grows),
    `offsetSet`.  Hypothesis: segments carry their position as index.
 2. `wsdStep_equidistant` (ELF64: the placing step establishes `vaddr + (offset − start) = addr`) and
    `image_bytes_at_same_vaddr` — corollary-by-hypothesis of C04's `member_equidistant`: in the saved
    bytes, `p_vaddr + (sh_offset − p_offset) = sh_addr`, that address is the old one, and the section's
    data are at the file position the loader maps to it.
 3. `loaded_resave_fields` (+ `loaded_resave_names`) — relative to the abstract predicate `Loaded`
    (what a loader reports for an image, stated against the specification decoder; C02 proves the
    model's loader delivers it): save then load gives the same sections (name offset, type, flags,
    size, link, info, alignment, entry size, address if one was set, data) and segments (type, flags,
    addresses; alignment and ELF64 memory size ≥).  Uses C03's `save_decode_fields` and `LayoutOk`.
 4. `edit_frame` (+ `edit_frame_add_section`) — two objects that agree on header, segments and all
    (resident) member sections are laid out identically as far as segments and members go; so adding a
    section or appending to a non-member leaves every member's offset/address and every segment's
    offset/sizes unchanged.  (Locality lemmas `wsdStep_agree … saveFold_agree` in Lemmas/Save.)
Not proved: equality (rather than ≥) of a reloaded segment's memory size — it holds when the segment's
memory size already covered its members (`RoundTrippable`), which is C04's `memsz_covers` territory;
that the model's `load` satisfies `Loaded` on writer output (C02 + C04).
-/
import ElfioVerif.Lemmas.Save
import ElfioVerif.Props.C03
namespace ElfioVerif.C05
open Gen C03
open Sv

/-! ### 1. what `save` changes of the object -/

/-- `b` is section `a` after a `save()`: apart from the placement (`offset`; `addr`/`addrSet` for a
    section that had no address) and the residency of lazily loaded data, nothing changes — in
    particular not name, name offset, type, flags, size, link, info, alignment, entry size. -/
structure SecSaved (a b : SecBuf) : Prop where
  rest : b = { a with offset := b.offset, addr := b.addr, addrSet := b.addrSet, data := b.data,
                      dataSize := b.dataSize, isLoaded := b.isLoaded, canLoad := b.canLoad }
  /-- an address that was set (explicitly, or by loading) is kept -/
  addrKept : a.addrSet = true → b.addr = a.addr ∧ b.addrSet = true
  /-- a data buffer that exists is kept (every section of a created object that has data; every
      resident section of a loaded one) -/
  dataSome : a.data.isSome = true → b.data = a.data ∧ b.dataSize = a.dataSize
  /-- a resident section (or one that can no longer be loaded) keeps all of its data state -/
  dataKept : (a.isLoaded = true ∨ a.canLoad = false) →
    b.data = a.data ∧ b.dataSize = a.dataSize ∧ b.isLoaded = a.isLoaded ∧ b.canLoad = a.canLoad

theorem secSaved_of {a a0 m b : SecBuf} (h0 : ResFrame a a0) (h1 : SecFrame a0 m) (h2 : ResFrame m b) :
    SecSaved a b := by
  have e0 := h0.rest; have e1 := h1.rest; have e2 := h2.rest
  refine ⟨?_, fun h => ?_, fun h => ?_, fun h => ?_⟩
  · rw [e0] at e1
    rw [e1] at e2
    rw [e2]
  · have ha0 : a0.addrSet = true := by rw [e0]; exact h
    obtain ⟨p, q⟩ := h1.addrKept ha0
    have : a0.addr = a.addr := by rw [e0]
    rw [e2]; exact ⟨p.trans this, q⟩
  · obtain ⟨p0, q0⟩ := h0.dataSome h
    have hm : m.data.isSome = true := by rw [e1]; show a0.data.isSome = true; rw [p0]; exact h
    obtain ⟨p2, q2⟩ := h2.dataSome hm
    have pm : m.data = a0.data := by rw [e1]
    have qm : m.dataSize = a0.dataSize := by rw [e1]
    exact ⟨p2.trans (pm.trans p0), q2.trans (qm.trans q0)⟩
  · have ea : a0 = a := h0.resident h
    subst ea
    have hm : m.isLoaded = true ∨ m.canLoad = false := by rw [e1]; exact h
    have := h2.resident hm
    rw [this, e1]; exact ⟨rfl, rfl, rfl, rfl⟩

/-- the header fields of a section that `save` leaves alone, spelled out -/
theorem SecSaved.fields {a b : SecBuf} (h : SecSaved a b) :
    b.name = a.name ∧ b.nameOff = a.nameOff ∧ b.stype = a.stype ∧ b.flags = a.flags ∧ b.size = a.size ∧
    b.link = a.link ∧ b.info = a.info ∧ b.addrAlign = a.addrAlign ∧ b.entSize = a.entSize ∧
    b.index = a.index ∧ b.cls = a.cls := by
  rw [h.rest]; exact ⟨rfl, rfl, rfl, rfl, rfl, rfl, rfl, rfl, rfl, rfl, rfl⟩

theorem SegSaved.fields {c : Cls} {g g' : Seg} (h : SegSaved c g g') :
    g'.stype = g.stype ∧ g'.flags = g.flags ∧ g'.vaddr = g.vaddr ∧ g'.paddr = g.paddr ∧
    g'.secs = g.secs ∧ g'.index = g.index ∧ g.align.toNat ≤ g'.align.toNat ∧
    (c = .c64 → g.memsz.toNat ≤ g'.memsz.toNat) := by
  refine ⟨?_, ?_, ?_, ?_, ?_, ?_, h.frame.alignGrows, h.frame.memGrows⟩ <;> rw [h.frame.rest]

/-- **save_writes_fields** : a successful `save` keeps the number and order of sections and
    segments; of a section it changes only the placement (`SecSaved`), of a segment only `offset`,
    `filesz`, `memsz` (grows), `align` (grows), `offsetSet` (`SegSaved`); class, byte order and address
    translation of the object are untouched.  Frame theorem over `calc_segment_alignment`, the
    segment loop (`write_segment_data` by induction over the member lists), the loose sections and
    the residency pass (`save_frames`).  Hypothesis `SegIdxOk`: segments carry their position as
    index (the "put back by index" step of the model relies on it; true below 65536 segments). -/
theorem save_writes_fields {o : Obj} {os : OStream} {r : SaveRes} (h : save o os = .ok r) (hok : r.ok = true)
    (hidx : SegIdxOk o.segs) :
    FrameL SecSaved o.secs r.obj.secs ∧ FrameL (SegSaved o.cls) o.segs r.obj.segs ∧
    r.obj.cls = o.cls ∧ r.obj.enc = o.enc ∧ r.obj.trans = o.trans := by
  obtain ⟨⟨l0, l1, f0, f1, f2⟩, fs, e1, e2, e3⟩ := save_frames h hok hidx
  have f01 : FrameL (fun a m => ∃ a0, ResFrame a a0 ∧ SecFrame a0 m) o.secs l1 :=
    FrameL.comp (R := ResFrame) (S := Placed o.cls) (fun a a0 m h0 h1 => ⟨a0, h0, Placed.frame h1⟩) f0 f1
  exact ⟨FrameL.comp (S := ResFrame) (T := SecSaved)
    (fun a m b h1 h2 => by obtain ⟨a0, h0, h1'⟩ := h1; exact secSaved_of h0 h1' h2) f01 f2, fs, e1, e2, e3⟩

/-! ### 2. the memory image -/

/-- equidistance of member `s` in segment `g` (C04's `member_equidistant`): the section lies as far
    behind the segment's start in the file as in memory, i.e. the loader maps its first byte to its
    address -/
def Equidistant (g : Seg) (s : SecBuf) : Prop := g.vaddr + (s.offset - g.offset) = s.addr

/-- **the step that places a member establishes equidistance** (ELF64): whenever
    `write_segment_data` places a not-yet-generated member that either had no address or is
    file-occupying and non-empty, the section's new offset and address satisfy
    `vaddr_g + (offset_s − segment start) = addr_s`.  (A NOBITS or empty member *with* an explicit
    address is placed at the cursor regardless of its address — F14 — and is excluded.) -/
theorem wsdStep_equidistant {g : Seg} {ss : BitVec 64} {st st' : WsdSt} {idx : BitVec 16} {sec : SecBuf}
    (h : wsdStep .c64 g ss st idx = .ok (some st')) (hs : st.lay.secs[idx.toNat]? = some sec)
    (hgen : st.lay.gen[idx.toNat]? = some false) (hnn : wsd_is_null sec.stype = false)
    (hidx : sec.index ≠ 0)
    (hocc : sec.addrSet = false ∨ (sec.stype ≠ BitVec.ofNat 32 SHT_NOBITS ∧ sec.size ≠ 0)) :
    ∃ sec', st'.lay.secs[idx.toNat]? = some sec' ∧ g.vaddr + (sec'.offset - ss) = sec'.addr ∧
      sec'.addrSet = true := by
  unfold wsdStep at h
  rw [hs, hgen] at h
  simp only [wsd_generated_skip_eq, wsd_generated_branch_eq, wsd_addr_missing_eq, wsd_occupies_eq,
    wsd_gap_default_eq, wsd_align_one_eq, hnn, Bool.false_eq_true, if_false] at h
  have hi : (sec.index != 0) = true := by simpa using hidx
  split at h
  · cases h
  · rename_i gap hgap
    simp only [pure, Except.pure, Except.ok.injEq, Option.some.injEq] at h
    subst h
    have hlt : idx.toNat < st.lay.secs.length := by
      rcases Nat.lt_or_ge idx.toNat st.lay.secs.length with h' | h'
      · exact h'
      · rw [List.getElem?_eq_none h'] at hs; cases hs
    refine ⟨_, List.getElem?_set_self hlt, ?_⟩
    cases has : sec.addrSet with
    | false =>
      simp only [Bool.not_false, if_true, setOffset_eq, hi, truncA]
      refine ⟨?_, trivial⟩
      simp only [wsd_new_addr]
      bv_omega
    | true =>
      rcases hocc with h1 | ⟨h1, h2⟩
      · rw [has] at h1; cases h1
      · simp only [has, Bool.not_true, Bool.false_eq_true, if_false, setOffset_eq, hi, if_true, truncA]
        refine ⟨?_, trivial⟩
        -- the address-driven gap
        have hb : wsd_addr_branch false true sec.stype sec.size = true := by
          have e1 : (BitVec.ofNat 32 SHT_NOBITS != sec.stype) = true := by
            simp only [bne_iff_ne, ne_eq]; exact fun e => h1 e.symm
          have e2 : (BitVec.ofNat 32 SHT_NULL != sec.stype) = true := by
            simp only [wsd_is_null, beq_eq_false_iff_ne, ne_eq] at hnn
            simp only [bne_iff_ne, ne_eq]; exact hnn
          have e3 : ((0 : BitVec 64) != sec.size) = true := by
            simp only [bne_iff_ne, ne_eq]; exact fun e => h2 e.symm
          simp only [wsd_addr_branch, e1, e2]
          simpa using e3
        rw [has, hb] at hgap
        simp only [if_true] at hgap
        split at hgap
        · cases hgap
        · simp only [Option.some.injEq] at hgap
          subst hgap
          simp only [wsd_cursor_gap, wsd_gap_addr, wsd_req_offset, wsd_cur_offset]
          bv_omega

open C03 in
/-- **image_bytes_at_same_vaddr** (corollary-by-hypothesis of C04's `member_equidistant`): let `b`,
    `g'` be section `i` and segment `j` of the saved object and assume they are equidistant.  Then in
    the *saved bytes*, read with the specification's decoder: (1) `p_vaddr + (sh_offset − p_offset) =
    sh_addr` — the loader maps the section's first file byte to the section's address; (2) that
    address is the one the object held before the save, if it had one (always, for a loaded object);
    (3) the section's data bytes are found at the file position the loader maps to `sh_addr`,
    i.e. at `p_offset + (sh_addr − p_vaddr)`: every byte of the memory image that came from this
    section is at the same virtual address as before. -/
theorem image_bytes_at_same_vaddr {o : Obj} {os : OStream} {r : SaveRes} (hs : save o os = .ok r)
    (hok : r.ok = true) (hg : os.Good) (htr : o.trans = []) (hidx : SegIdxOk o.segs) {h : Bytes}
    (hh : r.obj.hdr = some h) (hl : LayoutOk r.obj.cls r.obj.enc h r.obj.secs r.obj.segs)
    {i j : Nat} {a b : SecBuf} {g g' : Seg} (ha : o.secs[i]? = some a) (hb : r.obj.secs[i]? = some b)
    (hgj : o.segs[j]? = some g) (hg' : r.obj.segs[j]? = some g')
    (hfa : FieldsFit o.cls a) (hfg : SegFit o.cls g') (heq : Equidistant g' b) :
    let img := r.os.content
    let sb := (Hdr.e_shoff o.cls o.enc h).toNat + (Hdr.e_shentsize o.cls o.enc h).toNat * a.index
    let pb := (Hdr.e_phoff o.cls o.enc h).toNat + (Hdr.e_phentsize o.cls o.enc h).toNat * g.index
    let shAddr := BitVec.ofNat 64 (Spec.get (Spec.shdrL o.cls) o.enc img sb "sh_addr")
    let shOff := BitVec.ofNat 64 (Spec.get (Spec.shdrL o.cls) o.enc img sb "sh_offset")
    let pVaddr := BitVec.ofNat 64 (Spec.get (Spec.phdrL o.cls) o.enc img pb "p_vaddr")
    let pOff := BitVec.ofNat 64 (Spec.get (Spec.phdrL o.cls) o.enc img pb "p_offset")
    pVaddr + (shOff - pOff) = shAddr ∧
    pVaddr = g.vaddr ∧
    (a.addrSet = true → shAddr = a.addr) ∧
    (a.stype ≠ BitVec.ofNat 32 SHT_NOBITS → a.stype ≠ BitVec.ofNat 32 SHT_NULL → a.size ≠ 0 →
      a.data.isSome = true → slice img (pOff + (shAddr - pVaddr)).toNat a.view.length = a.view) := by
  obtain ⟨fsec, fseg, ec, ee, _⟩ := save_writes_fields hs hok hidx
  have sv := fsec.2 i a b ha hb
  have sg := fseg.2 j g g' hgj hg'
  have hbm : b ∈ r.obj.secs := List.mem_of_getElem? hb
  have hgm : g' ∈ r.obj.segs := List.mem_of_getElem? hg'
  obtain ⟨hrec, dat⟩ := save_decodes_section hs hok hg htr hh hl hbm
  have prec := save_decodes_segment hs hok hg htr hh hl hgm
  rw [ec, ee] at hrec prec
  have eidx : b.index = a.index := sv.fields.2.2.2.2.2.2.2.2.2.1
  have egidx : g'.index = g.index := sg.frame.index
  rw [eidx] at hrec
  rw [egidx] at prec
  -- the saved section's fields fit (placement fields are truncated by the setters)
  have fitb : FieldsFit o.cls b := by
    obtain ⟨⟨l0, l1, f0, f1, f2⟩, _⟩ := save_frames hs hok hidx
    have hi0 : i < l0.length := by
      rw [f0.1]
      rcases Nat.lt_or_ge i o.secs.length with hlt | hge
      · exact hlt
      · rw [List.getElem?_eq_none hge] at ha; cases ha
    have hi1 : i < l1.length := by rw [f1.1]; exact hi0
    exact resFrame_fit (f2.2 i l1[i] b (List.getElem?_eq_getElem hi1) hb)
      (placed_fit (f1.2 i l0[i] l1[i] (List.getElem?_eq_getElem hi0) (List.getElem?_eq_getElem hi1))
        (resFrame_fit (f0.2 i a l0[i] ha (List.getElem?_eq_getElem hi0)) hfa))
  obtain ⟨_, _, _, s3, s4, _, _, _, _, _⟩ := shdr_get_at hrec fitb
  obtain ⟨_, _, p2, p3, _, _, _, _⟩ := phdr_get_at prec hfg
  simp only
  rw [s3, s4, p2, p3, BitVec.ofNat_toNat, BitVec.ofNat_toNat, BitVec.ofNat_toNat, BitVec.ofNat_toNat,
    BitVec.setWidth_eq, BitVec.setWidth_eq, BitVec.setWidth_eq, BitVec.setWidth_eq]
  unfold Equidistant at heq
  refine ⟨heq, ?_, fun hset => (sv.addrKept hset).1, fun n1 n2 n3 n4 => ?_⟩
  · rw [sg.frame.rest]
  · have e : (g'.offset + (b.addr - g'.vaddr)) = b.offset := by rw [← heq]; bv_omega
    rw [e]
    have hst : b.stype = a.stype := sv.fields.2.2.1
    have hsz : b.size = a.size := sv.fields.2.2.2.2.1
    have hda : b.data = a.data := (sv.dataSome n4).1
    cases hd : a.data with
    | none => rw [hd] at n4; cases n4
    | some d =>
      have := dat (by rw [hst]; exact n1) (by rw [hst]; exact n2) (by rw [hsz]; exact n3) d (by rw [hda]; exact hd)
      simpa only [SecBuf.view, hd, Option.getD_some, hsz] using this

/-! ### 3. load after save -/

/-- `secs`, `segs` are what a loader reports for image `img` in class `c`, byte order `enc` — stated
    against the *specification's* decoder (that the model's `load` delivers exactly this on well-formed
    images is C02: `shdr_fields_eq_spec`, `phdr_fields_eq_spec`, `ehdr_fields_eq_spec`).  Section `i`
    is decoded from record `i` of the table at `e_shoff`; its data are the file bytes at its offset;
    every address counts as set (`set_address(get_address())` at the end of `section::load`). -/
structure Loaded (c : Cls) (enc : Enc) (secs : List SecBuf) (segs : List Seg) (img : Bytes) : Prop where
  nsec : secs.length = Spec.get (Spec.ehdrL c) enc img 0 "e_shnum"
  nseg : segs.length = Spec.get (Spec.ehdrL c) enc img 0 "e_phnum"
  sec : ∀ (i : Nat) b, secs[i]? = some b →
    let base := Spec.get (Spec.ehdrL c) enc img 0 "e_shoff" + Spec.get (Spec.ehdrL c) enc img 0 "e_shentsize" * i
    let l := Spec.shdrL c
    b.nameOff.toNat = Spec.get l enc img base "sh_name" ∧ b.stype.toNat = Spec.get l enc img base "sh_type" ∧
    b.flags.toNat = Spec.get l enc img base "sh_flags" ∧ b.addr.toNat = Spec.get l enc img base "sh_addr" ∧
    b.offset.toNat = Spec.get l enc img base "sh_offset" ∧ b.size.toNat = Spec.get l enc img base "sh_size" ∧
    b.link.toNat = Spec.get l enc img base "sh_link" ∧ b.info.toNat = Spec.get l enc img base "sh_info" ∧
    b.addrAlign.toNat = Spec.get l enc img base "sh_addralign" ∧
    b.entSize.toNat = Spec.get l enc img base "sh_entsize" ∧ b.addrSet = true ∧
    (b.stype ≠ BitVec.ofNat 32 SHT_NOBITS → b.stype ≠ BitVec.ofNat 32 SHT_NULL → b.size ≠ 0 →
      b.view = slice img b.offset.toNat b.size.toNat)
  seg : ∀ (j : Nat) g, segs[j]? = some g →
    let base := Spec.get (Spec.ehdrL c) enc img 0 "e_phoff" + Spec.get (Spec.ehdrL c) enc img 0 "e_phentsize" * j
    let l := Spec.phdrL c
    g.stype.toNat = Spec.get l enc img base "p_type" ∧ g.flags.toNat = Spec.get l enc img base "p_flags" ∧
    g.vaddr.toNat = Spec.get l enc img base "p_vaddr" ∧ g.paddr.toNat = Spec.get l enc img base "p_paddr" ∧
    g.memsz.toNat = Spec.get l enc img base "p_memsz" ∧ g.align.toNat = Spec.get l enc img base "p_align"

/-- sections carry their position as index (every created or loaded object below 65536 sections) -/
def SecIdxOk (secs : List SecBuf) : Prop := ∀ (k : Nat) b, secs[k]? = some b → b.index = k

/-- **loaded_resave_fields** : save an object and load the result (`o2`: any object that is `Loaded`
    from the saved bytes).  Then `o2` has as many sections and segments as `o` (mod 2^16), and — in the
    same order — every section has the same name offset, type, flags, size, link, info, alignment,
    entry size, the same address if `o`'s section had one (for a loaded `o` every section has), and
    the same data if it is file-occupying, non-empty and its data were in memory with a buffer of at
    least `size` bytes; every segment has the same type, flags, virtual and physical address, an
    alignment and (ELF64) a memory size of at least the old ones.  Hypotheses as `save_decode_fields`
    (incl. C04's `LayoutOk` on the saved object) plus index bookkeeping. -/
theorem loaded_resave_fields {o : Obj} {os : OStream} {r : SaveRes} (hs : save o os = .ok r) (hok : r.ok = true)
    (hg : os.Good) (htr : o.trans = []) (hidx : SegIdxOk o.segs) (hsidx : SecIdxOk o.secs) {h hd : Bytes}
    (hh : r.obj.hdr = some h) (hhd : o.hdr = some hd) (hlen : ehdrSize o.cls ≤ hd.length)
    (hl : LayoutOk r.obj.cls r.obj.enc h r.obj.secs r.obj.segs)
    (hfit : ∀ a ∈ o.secs, FieldsFit o.cls a) (hsegfit : ∀ g ∈ r.obj.segs, SegFit o.cls g)
    {secs2 : List SecBuf} {segs2 : List Seg} (hld : Loaded o.cls o.enc secs2 segs2 r.os.content) :
    secs2.length = o.secs.length % 65536 ∧ segs2.length = o.segs.length % 65536 ∧
    (∀ (i : Nat) a b2, o.secs[i]? = some a → secs2[i]? = some b2 →
      b2.nameOff = a.nameOff ∧ b2.stype = a.stype ∧ b2.flags = a.flags ∧ b2.size = a.size ∧ b2.link = a.link ∧
      b2.info = a.info ∧ b2.addrAlign = a.addrAlign ∧ b2.entSize = a.entSize ∧ b2.addrSet = true ∧
      (a.addrSet = true → b2.addr = a.addr) ∧
      (a.stype ≠ BitVec.ofNat 32 SHT_NOBITS → a.stype ≠ BitVec.ofNat 32 SHT_NULL → a.size ≠ 0 →
        (∃ d, a.data = some d ∧ a.size.toNat ≤ d.length) → b2.view = a.view)) ∧
    (∀ (j : Nat) g g2, o.segs[j]? = some g → segs2[j]? = some g2 →
      g2.stype = g.stype ∧ g2.flags = g.flags ∧ g2.vaddr = g.vaddr ∧ g2.paddr = g.paddr ∧
      g.align.toNat ≤ g2.align.toNat ∧ (o.cls = .c64 → g.memsz.toNat ≤ g2.memsz.toNat)) := by
  obtain ⟨_, _, _, _, _, _, _, _, _, _, esn, epn⟩ := save_decode_header hs hok hg htr hh hhd hlen hl
  obtain ⟨dsec, dseg⟩ := save_decode_fields hs hok hg htr hidx hh hl hfit hsegfit
  -- the table positions read from the image are the saved header's
  obtain ⟨hd', h', e1, e2, key⟩ := save_header_fields hs hok
  rw [hhd] at e1; cases e1
  rw [hh] at e2; cases e2
  have hlh : ehdrSize o.cls ≤ h.length := by rw [(key hlen).1]; exact hlen
  obtain ⟨_, _, _, _, a4, a5, _, _, a8, _, a10, _, _⟩ := C02.ehdr_fields_eq_spec o.cls o.enc h hlh
  have at0 := save_image_header hs hok hg htr hh hlh hl
  have vn : ∀ name ∈ ["e_shoff", "e_shentsize", "e_phoff", "e_phentsize"], ValidName (Spec.ehdrL o.cls) name := by
    cases o.cls <;> decide
  have eshoff := (at0 "e_shoff" (vn _ (by decide))).trans a5.symm
  have eshent := (at0 "e_shentsize" (vn _ (by decide))).trans a10.symm
  have ephoff := (at0 "e_phoff" (vn _ (by decide))).trans a4.symm
  have ephent := (at0 "e_phentsize" (vn _ (by decide))).trans a8.symm
  refine ⟨hld.nsec.trans esn, hld.nseg.trans epn, ?_, ?_⟩
  · intro i a b2 ha hb2
    obtain ⟨l0, l1, l2, l3, l4, l5, l6, l7, l8, l9, l10, l11⟩ := hld.sec i b2 hb2
    obtain ⟨d0, d1, d2, d3, d4, d5, d6, d7, d8, d9⟩ := dsec i a ha
    have ei : a.index = i := hsidx i a ha
    simp only [eshoff, eshent] at l0 l1 l2 l3 l4 l5 l6 l7 l8 l9
    simp only [ei] at d0 d1 d2 d3 d4 d5 d6 d7 d8 d9
    have est : b2.stype = a.stype := BitVec.eq_of_toNat_eq (l1.trans d1)
    have esz : b2.size = a.size := BitVec.eq_of_toNat_eq (l5.trans d3)
    refine ⟨BitVec.eq_of_toNat_eq (l0.trans d0), est, BitVec.eq_of_toNat_eq (l2.trans d2), esz,
      BitVec.eq_of_toNat_eq (l6.trans d4), BitVec.eq_of_toNat_eq (l7.trans d5),
      BitVec.eq_of_toNat_eq (l8.trans d6), BitVec.eq_of_toNat_eq (l9.trans d7), l10,
      fun hset => BitVec.eq_of_toNat_eq (l3.trans (d8 hset)), fun n1 n2 n3 n4 => ?_⟩
    obtain ⟨d, hdat, hdl⟩ := n4
    have v2 := l11 (by rw [est]; exact n1) (by rw [est]; exact n2) (by rw [esz]; exact n3)
    have v1 := d9 n1 n2 n3 (by rw [hdat]; rfl)
    have hvl : a.view.length = a.size.toNat := by
      simp only [SecBuf.view, hdat, Option.getD_some, List.length_take]; omega
    rw [v2, l4, esz, ← hvl]
    exact v1
  · intro j g g2 hgj hg2
    obtain ⟨l0, l1, l2, l3, l4, l5⟩ := hld.seg j g2 hg2
    obtain ⟨d0, d1, d2, d3, d4, d5⟩ := dseg j g hgj
    have ej : g.index = j := hidx j g hgj
    simp only [ephoff, ephent] at l0 l1 l2 l3 l4 l5
    simp only [ej] at d0 d1 d2 d3 d4 d5
    refine ⟨BitVec.eq_of_toNat_eq (l0.trans d0), BitVec.eq_of_toNat_eq (l1.trans d1),
      BitVec.eq_of_toNat_eq (l2.trans d2), BitVec.eq_of_toNat_eq (l3.trans d3), by rw [l5]; exact d4, ?_⟩
    intro hc
    rw [l4]; exact d5 hc

/-- names: a section's name is read from the name table (section `e_shstrndx`) at its name offset;
    table content and name offsets survive (`loaded_resave_fields`), so the names do — for every
    resolver that is a function of table bytes and offset (`C08.get_refines`: the accessor is). -/
theorem loaded_resave_names {st st2 a b2 : SecBuf} (hv : st2.view = st.view) (hn : b2.nameOff = a.nameOff) :
    Spec.strAt st2.view b2.nameOff.toNat = Spec.strAt st.view a.nameOff.toNat := by rw [hv, hn]

/-! ### 4. edits outside the segments -/

/-- the getters the layout reads from the prepared header do not depend on the number of sections -/
theorem saveHdr0_getters_congr {o o' : Obj} (hc : o'.cls = o.cls) (he : o'.enc = o.enc)
    (hg : o'.segs.length = o.segs.length) (hd : Bytes) (hl : ehdrSize o.cls ≤ hd.length) :
    Hdr.e_phoff o.cls o.enc (saveHdr0 o' hd) = Hdr.e_phoff o.cls o.enc (saveHdr0 o hd) ∧
    Hdr.e_phentsize o.cls o.enc (saveHdr0 o' hd) = Hdr.e_phentsize o.cls o.enc (saveHdr0 o hd) ∧
    Hdr.e_phnum o.cls o.enc (saveHdr0 o' hd) = Hdr.e_phnum o.cls o.enc (saveHdr0 o hd) ∧
    Hdr.e_ehsize o.cls o.enc (saveHdr0 o' hd) = Hdr.e_ehsize o.cls o.enc (saveHdr0 o hd) := by
  unfold saveHdr0
  simp only [hc, he, hg]
  generalize o.cls = c at *
  generalize o.enc = e at *
  generalize o.segs.length % 65536 = m
  generalize (if m > 0 then (Hdr.e_ehsize c e (Hdr.set_phnum c e hd m)).toNat else 0) = p
  have la : ehdrSize c ≤ (HField.phnum.set c e hd m).length := by rw [hdr_set_length _ _ _ _ _ hl]; exact hl
  have lb : ehdrSize c ≤ (HField.phoff.set c e (HField.phnum.set c e hd m) p).length := by
    rw [hdr_set_length _ _ _ _ _ la]; exact la
  have key : ∀ n : Nat,
      let k := HField.phoff.set c e (HField.phnum.set c e hd m) p
      let h0 := HField.shoff.set c e (HField.shnum.set c e k n) 0
      Hdr.e_phoff c e h0 = Hdr.e_phoff c e k ∧ Hdr.e_phentsize c e h0 = Hdr.e_phentsize c e k ∧
      Hdr.e_phnum c e h0 = Hdr.e_phnum c e k ∧ Hdr.e_ehsize c e h0 = Hdr.e_ehsize c e k := by
    intro n
    have lc : ehdrSize c ≤ (HField.shnum.set c e (HField.phoff.set c e (HField.phnum.set c e hd m) p) n).length := by
      rw [hdr_set_length _ _ _ _ _ lb]; exact lb
    obtain ⟨_, _, _, _, a4, _, _, a7, a8, a9, _, _, _⟩ := hdr_set_frame .shnum c e _ n lb
    obtain ⟨_, _, _, _, b4, _, _, b7, b8, b9, _, _, _⟩ := hdr_set_frame .shoff c e _ 0 lc
    exact ⟨(b4 (by decide)).trans (a4 (by decide)), (b8 (by decide)).trans (a8 (by decide)),
      (b9 (by decide)).trans (a9 (by decide)), (b7 (by decide)).trans (a7 (by decide))⟩
  have k1 := key (o'.secs.length % 65536)
  have k2 := key (o.secs.length % 65536)
  exact ⟨k1.1.trans k2.1.symm, k1.2.1.trans k2.2.1.symm, k1.2.2.1.trans k2.2.2.1.symm, k1.2.2.2.trans k2.2.2.2.symm⟩

theorem saveStep_congr {c : Cls} {e : Enc} {h0 h0' : Bytes}
    (h1 : Hdr.e_phoff c e h0' = Hdr.e_phoff c e h0) (h2 : Hdr.e_phentsize c e h0' = Hdr.e_phentsize c e h0)
    (h3 : Hdr.e_phnum c e h0' = Hdr.e_phnum c e h0) : saveStep c e h0' = saveStep c e h0 := by
  funext acc g
  unfold saveStep
  rw [h1, h2, h3]

/-- the indices that are members of some segment -/
def MemberIdx (segs : List Seg) (i : Nat) : Prop := ∃ g ∈ segs, ∃ k ∈ g.secs, k.toNat = i

theorem withoutSegment_member {segs : List Seg} {i : Nat} (h : MemberIdx segs i) : withoutSegment segs i = false := by
  obtain ⟨g, hg, k, hk, e⟩ := h
  rw [withoutSegment_eq]
  simp only [Bool.not_eq_false', List.any_eq_true]
  exact ⟨g, hg, k, hk, by simpa using e⟩

/-- what the sections of a saved object are, for a member of a segment: the layout's version -/
theorem saved_member_secs {o1 : Obj} {segs1 done : List Seg} {lay : Layout} {i : Nat} {x : SecBuf}
    (hm : MemberIdx (tailSegs segs1 done) i) (hx : lay.secs[i]? = some x) (hs : x.Settled) :
    (tailSecs o1 segs1 lay done)[i]? = some x := by
  unfold tailSecs tailLoose
  rw [layoutLoose_eq]
  simp only [List.reverse_nil, List.nil_append]
  have h1 : (looseSpec o1.cls (putBack segs1 done) lay.secs 0 lay.pos).1[i]? = some x := by
    rw [looseSpec_getElem?_member _ _ _ 0 _ i (by rw [Nat.zero_add]; exact withoutSegment_member hm)]
    exact hx
  have := residentForSave_getElem? o1.cls o1.trans _ { st := o1.stream } [] i x h1 hs
  simpa using this

/-- **edit_frame** : two objects that differ only *outside* the segments — same class, byte order,
    header buffer, segments, and the same (resident) section at every index that is a member of some
    segment; the other sections, their number, their data may differ: a section added with
    `sections.add` (which also extends the name table), data appended to a section that belongs to no
    segment — are laid out identically as far as the segments go: after `save`, the segments are
    equal (same offsets, file and memory sizes) and every member section is equal (same offset, same
    address).  The segment loop reads and writes member sections only (`saveFold_agree`), and members
    are laid out before loose sections. -/
theorem edit_frame {o o' : Obj} {os os' : OStream} {r r' : SaveRes} {hd : Bytes}
    (hs : save o os = .ok r) (hok : r.ok = true) (hs' : save o' os' = .ok r') (hok' : r'.ok = true)
    (hc : o'.cls = o.cls) (he : o'.enc = o.enc) (hh : o.hdr = some hd) (hh' : o'.hdr = some hd)
    (hl : ehdrSize o.cls ≤ hd.length) (hseg : o'.segs = o.segs) (hidx : SegIdxOk o.segs)
    (hsec : ∀ i, MemberIdx o.segs i → o'.secs[i]? = o.secs[i]?)
    (hset : ∀ i a, MemberIdx o.segs i → o.secs[i]? = some a → a.Settled)
    (hn : ∀ i, MemberIdx o.segs i → i < o.secs.length % 65536 ∧ i < o'.secs.length % 65536) :
    r'.obj.segs = r.obj.segs ∧ ∀ i, MemberIdx o.segs i → r'.obj.secs[i]? = r.obj.secs[i]? := by
  -- segments keep their member lists through a save
  obtain ⟨_, fsg, _, _, _⟩ := save_frames hs hok hidx
  obtain ⟨hd1, segs1, ordered, lay, done, e1, _, h1, h2, h3, rfl⟩ := save_ok_unfold hs hok
  obtain ⟨hd2, segs1', ordered', lay', done', e2, _, h1', h2', h3', rfl⟩ := save_ok_unfold hs' hok'
  rw [hh] at e1; cases e1
  rw [hh'] at e2; cases e2
  obtain ⟨_, eobj, _, _⟩ := saveTail_ok hok
  obtain ⟨_, eobj', _, _⟩ := saveTail_ok hok'
  rw [eobj] at fsg
  simp only at fsg
  -- A. the initial residency pass leaves resident members alone
  have hlen : ∀ i, MemberIdx o.segs i → i < o.secs.length ∧ i < o'.secs.length := fun i hi =>
    ⟨Nat.lt_of_lt_of_le (hn i hi).1 (Nat.mod_le _ _), Nat.lt_of_lt_of_le (hn i hi).2 (Nat.mod_le _ _)⟩
  have hpre : ∀ i, MemberIdx o.segs i → (preRes o).secs[i]? = o.secs[i]? := by
    intro i hi
    have hlt := (hlen i hi).1
    have ha : o.secs[i]? = some o.secs[i] := List.getElem?_eq_getElem hlt
    have := allResident_getElem? o.cls o.trans o.secs { st := o.stream } [] i _ ha (hset i _ hi ha)
    rw [ha]
    exact (by simpa using this : (allResident o.cls o.trans o.secs { st := o.stream } []).1[i]? = some o.secs[i])
  have hpre' : ∀ i, MemberIdx o.segs i → (preRes o').secs[i]? = o.secs[i]? := by
    intro i hi
    have hlt := (hlen i hi).2
    have ha : o'.secs[i]? = some o'.secs[i] := List.getElem?_eq_getElem hlt
    have hs0 : (o'.secs[i]).Settled := hset i _ hi (by rw [← hsec i hi]; exact ha)
    have := allResident_getElem? o'.cls o'.trans o'.secs { st := o'.stream } [] i _ ha hs0
    rw [← hsec i hi, ha]
    exact (by simpa using this : (allResident o'.cls o'.trans o'.secs { st := o'.stream } []).1[i]? = some o'.secs[i])
  -- B. segment alignments
  have esegs : (preRes o').segs = (preRes o).segs := hseg
  have hmem : ∀ g ∈ o.segs, ∀ idx ∈ g.secs, MemberIdx o.segs idx.toNat := fun g hg idx hi => ⟨g, hg, idx, hi, rfl⟩
  have eq1 : segs1 = segs1' := by
    rw [esegs] at h1'
    have : List.mapM (calcSegAlign (preRes o').secs) (preRes o).segs =
        List.mapM (calcSegAlign (preRes o).secs) (preRes o).segs :=
      mapM_congr' (fun g hg => calcSegAlign_congr (fun idx hi => by
        rw [hpre' _ (hmem g hg idx hi), hpre _ (hmem g hg idx hi)]))
    rw [this, h1] at h1'
    cases h1'; rfl
  subst eq1
  have eq2 : ordered = ordered' := by rw [h2] at h2'; cases h2'; rfl
  subst eq2
  -- C. the header getters the layout reads
  obtain ⟨g1, g2, g3, g4⟩ := saveHdr0_getters_congr hc he (by rw [hseg]) hd hl
  rw [← saveHdr0_preRes o hd, ← saveHdr0_preRes o' hd] at g1 g2 g3 g4
  have estep : saveStep o'.cls o'.enc (saveHdr0 (preRes o') hd) = saveStep o.cls o.enc (saveHdr0 (preRes o) hd) := by
    rw [hc, he]; exact saveStep_congr g1 g2 g3
  rw [estep] at h3'
  -- D. the two initial layouts agree on members
  have ag0 : AgreeOn (MemberIdx o.segs) (saveLay0 (preRes o) (saveHdr0 (preRes o) hd))
      (saveLay0 (preRes o') (saveHdr0 (preRes o') hd)) := by
    refine ⟨?_, fun i hi => ?_, fun i hi => ?_⟩
    · show savePos0 (preRes o) _ = savePos0 (preRes o') _
      unfold savePos0
      show save_cursor0 (Hdr.e_ehsize o.cls o.enc _) (Hdr.e_phentsize o.cls o.enc _) (Hdr.e_phnum o.cls o.enc _) =
        save_cursor0 (Hdr.e_ehsize o'.cls o'.enc _) (Hdr.e_phentsize o'.cls o'.enc _) (Hdr.e_phnum o'.cls o'.enc _)
      rw [hc, he, g2, g3, g4]
    · show (preRes o).secs[i]? = (preRes o').secs[i]?
      rw [hpre i hi, hpre' i hi]
    · show (List.replicate ((preRes o).secs.length % 65536) false)[i]? =
        (List.replicate ((preRes o').secs.length % 65536) false)[i]?
      rw [(preRes_frame o).1, (preRes_frame o').1, List.getElem?_replicate, List.getElem?_replicate,
        if_pos (hn i hi).1, if_pos (hn i hi).2]
  -- members of ordered segments are members
  have hsub := orderedSegments_sub h2
  have fa := mapM_ok_frame h1
  have hordmem : ∀ g ∈ ordered, ∀ idx ∈ g.secs, MemberIdx o.segs idx.toNat := by
    intro g hg idx hi
    obtain ⟨k, hk⟩ := List.getElem?_of_mem (hsub g hg)
    have hk' : k < (preRes o).segs.length := by
      rw [← fa.1]
      rcases Nat.lt_or_ge k segs1.length with h | h
      · exact h
      · rw [List.getElem?_eq_none h] at hk; cases hk
    have := fa.2 k _ g (List.getElem?_eq_getElem hk') hk
    have es := (calcSegAlign_frame (c := o.cls) this).1.secs
    exact ⟨_, List.getElem_mem hk', idx, by rw [← es]; exact hi, rfl⟩
  have hfold := saveFold_agree (c := o.cls) (e := o.enc) (h0 := saveHdr0 (preRes o) hd) ordered hordmem ag0 []
  rw [h3, h3'] at hfold
  obtain ⟨agl, edone⟩ := hfold
  simp only at agl edone
  subst edone
  -- E. segments
  rw [eobj, eobj']
  refine ⟨rfl, fun i hi => ?_⟩
  -- F. member sections
  simp only
  obtain ⟨ds, ed, run⟩ := saveFold_run ordered h3
  simp only [List.nil_append] at ed
  subst ed
  obtain ⟨fsec, _, _⟩ := run.frame
  have hlt := (hlen i hi).1
  have ha : o.secs[i]? = some o.secs[i] := List.getElem?_eq_getElem hlt
  have hlay0 : (saveLay0 (preRes o) (saveHdr0 (preRes o) hd)).secs[i]? = some o.secs[i] := by
    show (preRes o).secs[i]? = _
    rw [hpre i hi]; exact ha
  have hli : i < lay.secs.length := by
    rw [fsec.1]
    rcases Nat.lt_or_ge i (saveLay0 (preRes o) (saveHdr0 (preRes o) hd)).secs.length with h | h
    · exact h
    · rw [List.getElem?_eq_none h] at hlay0; cases hlay0
  have hx : lay.secs[i]? = some lay.secs[i] := List.getElem?_eq_getElem hli
  have hxs : (lay.secs[i]).Settled := Placed.settled (fsec.2 i _ _ hlay0 hx) (hset i _ hi ha)
  -- membership in the saved segments
  have hm' : MemberIdx (tailSegs segs1 done) i := by
    obtain ⟨g, hg, k, hk, e⟩ := hi
    obtain ⟨j, hj⟩ := List.getElem?_of_mem hg
    have hj' : j < (tailSegs segs1 done).length := by
      rw [fsg.1]
      rcases Nat.lt_or_ge j o.segs.length with h | h
      · exact h
      · rw [List.getElem?_eq_none h] at hj; cases hj
    have := fsg.2 j g _ hj (List.getElem?_eq_getElem hj')
    exact ⟨_, List.getElem_mem hj', k, by rw [this.frame.secs]; exact hk, e⟩
  rw [saved_member_secs hm' hx hxs]
  have hx' : lay'.secs[i]? = some lay.secs[i] := by rw [← agl.secs i hi]; exact hx
  exact saved_member_secs hm' hx' hxs

/-- **edit_frame, instantiated for `sections.add`** : adding a section to an object whose name table
    is not a segment member changes neither the segments nor any member section of the saved result. -/
theorem edit_frame_add_section {o o' : Obj} {name : Bytes} {os os' : OStream} {r r' : SaveRes} {hd : Bytes} {st : SecBuf}
    (hh : o.hdr = some hd) (hl : ehdrSize o.cls ≤ hd.length)
    (hst : o.secs[(Hdr.e_shstrndx o.cls o.enc hd).toNat]? = some st) (hI : st.Inv)
    (hb : (Spec.addStr st.content name).1.length < 4294967296)
    (hadd : sectionsAdd o name = .ok o')
    (hnm : ¬ MemberIdx o.segs (Hdr.e_shstrndx o.cls o.enc hd).toNat)
    (hcount : o.secs.length + 1 < 65536) (hmem : ∀ i, MemberIdx o.segs i → i < o.secs.length)
    (hset : ∀ i a, MemberIdx o.segs i → o.secs[i]? = some a → a.Settled) (hidx : SegIdxOk o.segs)
    (hs : save o os = .ok r) (hok : r.ok = true) (hs' : save o' os' = .ok r') (hok' : r'.ok = true) :
    r'.obj.segs = r.obj.segs ∧ ∀ i, MemberIdx o.segs i → r'.obj.secs[i]? = r.obj.secs[i]? := by
  obtain ⟨o2, st', nb, e, eo, elen, _, _, _, _, _, _, _, _, hother⟩ := sectionsAdd_name o name hd st hh hst hI hb
  rw [hadd] at e; cases e
  have hc : o'.cls = o.cls := by rw [eo]
  have he : o'.enc = o.enc := by rw [eo]
  have hh' : o'.hdr = some hd := by rw [eo]; exact hh
  have hseg : o'.segs = o.segs := by rw [eo]
  refine edit_frame hs hok hs' hok' hc he hh hh' hl hseg hidx (fun i hi => ?_) hset (fun i hi => ?_)
  · exact hother i (hmem i hi) (fun e => hnm (e ▸ hi))
  · have := hmem i hi
    rw [elen, Nat.mod_eq_of_lt (by omega), Nat.mod_eq_of_lt hcount]
    omega

end ElfioVerif.C05
