/-
C05 — load, edit, save, load preserves what the user did not touch.
-/
import ElfioVerif.Lemmas.Save
import ElfioVerif.Props.C03
namespace ElfioVerif.C05
open Gen

/-! ### 1. what `save` changes of the object -/

/-- `b` is section `a` after a `save()`: apart from the placement (`offset`; `addr`/`addrSet` for a
    section that had no address) and the residency of lazily loaded data, nothing changes — in
    particular not name, name offset, type, flags, size, link, info, alignment, entry size. -/
structure SecSaved (a b : SecBuf) : Prop where
  rest : b = { a with offset := b.offset, addr := b.addr, addrSet := b.addrSet, data := b.data,
                      dataSize := b.dataSize, isLoaded := b.isLoaded, canLoad := b.canLoad }
  /-- an address that was set (explicitly, or by loading) is kept -/
  addrKept : a.addrSet = true → b.addr = a.addr ∧ b.addrSet = true
  /-- a data buffer that exists is kept (every section of a created object that has data; every
      resident section of a loaded one) -/
  dataSome : a.data.isSome = true → b.data = a.data ∧ b.dataSize = a.dataSize
  /-- a resident section (or one that can no longer be loaded) keeps all of its data state -/
  dataKept : (a.isLoaded = true ∨ a.canLoad = false) →
    b.data = a.data ∧ b.dataSize = a.dataSize ∧ b.isLoaded = a.isLoaded ∧ b.canLoad = a.canLoad

theorem secSaved_of {a a0 m b : SecBuf} (h0 : ResFrame a a0) (h1 : SecFrame a0 m) (h2 : ResFrame m b) :
    SecSaved a b := by
  have e0 := h0.rest; have e1 := h1.rest; have e2 := h2.rest
  refine ⟨?_, fun h => ?_, fun h => ?_, fun h => ?_⟩
  · rw [e0] at e1
    rw [e1] at e2
    rw [e2]
  · have ha0 : a0.addrSet = true := by rw [e0]; exact h
    obtain ⟨p, q⟩ := h1.addrKept ha0
    have : a0.addr = a.addr := by rw [e0]
    rw [e2]; exact ⟨p.trans this, q⟩
  · obtain ⟨p0, q0⟩ := h0.dataSome h
    have hm : m.data.isSome = true := by rw [e1]; show a0.data.isSome = true; rw [p0]; exact h
    obtain ⟨p2, q2⟩ := h2.dataSome hm
    have pm : m.data = a0.data := by rw [e1]
    have qm : m.dataSize = a0.dataSize := by rw [e1]
    exact ⟨p2.trans (pm.trans p0), q2.trans (qm.trans q0)⟩
  · have ea : a0 = a := h0.resident h
    subst ea
    have hm : m.isLoaded = true ∨ m.canLoad = false := by rw [e1]; exact h
    have := h2.resident hm
    rw [this, e1]; exact ⟨rfl, rfl, rfl, rfl⟩

/-- the header fields of a section that `save` leaves alone, spelled out -/
theorem SecSaved.fields {a b : SecBuf} (h : SecSaved a b) :
    b.name = a.name ∧ b.nameOff = a.nameOff ∧ b.stype = a.stype ∧ b.flags = a.flags ∧ b.size = a.size ∧
    b.link = a.link ∧ b.info = a.info ∧ b.addrAlign = a.addrAlign ∧ b.entSize = a.entSize ∧
    b.index = a.index ∧ b.cls = a.cls := by
  rw [h.rest]; exact ⟨rfl, rfl, rfl, rfl, rfl, rfl, rfl, rfl, rfl, rfl, rfl⟩

theorem SegSaved.fields {c : Cls} {g g' : Seg} (h : SegSaved c g g') :
    g'.stype = g.stype ∧ g'.flags = g.flags ∧ g'.vaddr = g.vaddr ∧ g'.paddr = g.paddr ∧
    g'.secs = g.secs ∧ g'.index = g.index ∧ g.align.toNat ≤ g'.align.toNat ∧
    (c = .c64 → g.memsz.toNat ≤ g'.memsz.toNat) := by
  refine ⟨?_, ?_, ?_, ?_, ?_, ?_, h.frame.alignGrows, h.frame.memGrows⟩ <;> rw [h.frame.rest]

/-- **save_writes_fields** : a successful `save` keeps the number and order of sections and
    segments; of a section it changes only the placement (`SecSaved`), of a segment only `offset`,
    `filesz`, `memsz` (grows), `align` (grows), `offsetSet` (`SegSaved`); class, byte order and address
    translation of the object are untouched.  Frame theorem over `calc_segment_alignment`, the
    segment loop (`write_segment_data` by induction over the member lists), the loose sections and
    the residency pass (`save_frames`).  Hypothesis `SegIdxOk`: segments carry their position as
    index (the "put back by index" step of the model relies on it; true below 65536 segments). -/
theorem save_writes_fields {o : Obj} {os : OStream} {r : SaveRes} (h : save o os = .ok r) (hok : r.ok = true)
    (hidx : SegIdxOk o.segs) :
    FrameL SecSaved o.secs r.obj.secs ∧ FrameL (SegSaved o.cls) o.segs r.obj.segs ∧
    r.obj.cls = o.cls ∧ r.obj.enc = o.enc ∧ r.obj.trans = o.trans := by
  obtain ⟨⟨l0, l1, f0, f1, f2⟩, fs, e1, e2, e3⟩ := save_frames h hok hidx
  have f01 : FrameL (fun a m => ∃ a0, ResFrame a a0 ∧ SecFrame a0 m) o.secs l1 :=
    FrameL.comp (R := ResFrame) (S := Placed o.cls) (fun a a0 m h0 h1 => ⟨a0, h0, Placed.frame h1⟩) f0 f1
  exact ⟨FrameL.comp (S := ResFrame) (T := SecSaved)
    (fun a m b h1 h2 => by obtain ⟨a0, h0, h1'⟩ := h1; exact secSaved_of h0 h1' h2) f01 f2, fs, e1, e2, e3⟩

/-! ### 2. the memory image -/

/-- equidistance of member `s` in segment `g` (C04's `member_equidistant`): the section lies as far
    behind the segment's start in the file as in memory, i.e. the loader maps its first byte to its
    address -/
def Equidistant (g : Seg) (s : SecBuf) : Prop := g.vaddr + (s.offset - g.offset) = s.addr

/-- **the step that places a member establishes equidistance** (ELF64): whenever
    `write_segment_data` places a not-yet-generated member that either had no address or is
    file-occupying and non-empty, the section's new offset and address satisfy
    `vaddr_g + (offset_s − segment start) = addr_s`.  (A NOBITS or empty member *with* an explicit
    address is placed at the cursor regardless of its address — F14 — and is excluded.) -/
theorem wsdStep_equidistant {g : Seg} {ss : BitVec 64} {st st' : WsdSt} {idx : BitVec 16} {sec : SecBuf}
    (h : wsdStep .c64 g ss st idx = .ok (some st')) (hs : st.lay.secs[idx.toNat]? = some sec)
    (hgen : st.lay.gen[idx.toNat]? = some false) (hnn : wsd_is_null sec.stype = false)
    (hidx : sec.index ≠ 0)
    (hocc : sec.addrSet = false ∨ (sec.stype ≠ BitVec.ofNat 32 SHT_NOBITS ∧ sec.size ≠ 0)) :
    ∃ sec', st'.lay.secs[idx.toNat]? = some sec' ∧ g.vaddr + (sec'.offset - ss) = sec'.addr ∧
      sec'.addrSet = true := by
  unfold wsdStep at h
  rw [hs, hgen] at h
  simp only [hnn, Bool.false_eq_true, if_false] at h
  have hi : (sec.index != 0) = true := by simpa using hidx
  split at h
  · cases h
  · rename_i gap hgap
    simp only [pure, Except.pure, Except.ok.injEq, Option.some.injEq] at h
    subst h
    have hlt : idx.toNat < st.lay.secs.length := by
      rcases Nat.lt_or_ge idx.toNat st.lay.secs.length with h' | h'
      · exact h'
      · rw [List.getElem?_eq_none h'] at hs; cases hs
    refine ⟨_, List.getElem?_set_self hlt, ?_⟩
    cases has : sec.addrSet with
    | false =>
      simp only [Bool.not_false, if_true, setOffset, hi, truncA]
      refine ⟨?_, trivial⟩
      simp only [wsd_new_addr]
      bv_omega
    | true =>
      rcases hocc with h1 | ⟨h1, h2⟩
      · rw [has] at h1; cases h1
      · simp only [has, Bool.not_true, Bool.false_eq_true, if_false, setOffset, hi, if_true, truncA]
        refine ⟨?_, trivial⟩
        -- the address-driven gap
        have hb : wsd_addr_branch false true sec.stype sec.size = true := by
          have e1 : (BitVec.ofNat 32 SHT_NOBITS != sec.stype) = true := by
            simp only [bne_iff_ne, ne_eq]; exact fun e => h1 e.symm
          have e2 : (BitVec.ofNat 32 SHT_NULL != sec.stype) = true := by
            simp only [wsd_is_null, beq_eq_false_iff_ne, ne_eq] at hnn
            simp only [bne_iff_ne, ne_eq]; exact hnn
          have e3 : ((0 : BitVec 64) != sec.size) = true := by
            simp only [bne_iff_ne, ne_eq]; exact fun e => h2 e.symm
          simp only [wsd_addr_branch, e1, e2]
          simpa using e3
        rw [has, hb] at hgap
        simp only [if_true] at hgap
        split at hgap
        · cases hgap
        · simp only [Option.some.injEq] at hgap
          subst hgap
          simp only [wsd_cursor_gap, wsd_gap_addr, wsd_req_offset, wsd_cur_offset]
          bv_omega

open C03 in
/-- **image_bytes_at_same_vaddr** (corollary-by-hypothesis of C04's `member_equidistant`): let `b`,
    `g'` be section `i` and segment `j` of the saved object and assume they are equidistant.  Then in
    the *saved bytes*, read with the specification's decoder: (1) `p_vaddr + (sh_offset − p_offset) =
    sh_addr` — the loader maps the section's first file byte to the section's address; (2) that
    address is the one the object held before the save, if it had one (always, for a loaded object);
    (3) the section's data bytes are found at the file position the loader maps to `sh_addr`,
    i.e. at `p_offset + (sh_addr − p_vaddr)`: every byte of the memory image that came from this
    section is at the same virtual address as before. -/
theorem image_bytes_at_same_vaddr {o : Obj} {os : OStream} {r : SaveRes} (hs : save o os = .ok r)
    (hok : r.ok = true) (hg : os.Good) (htr : o.trans = []) (hidx : SegIdxOk o.segs) {h : Bytes}
    (hh : r.obj.hdr = some h) (hl : LayoutOk r.obj.cls r.obj.enc h r.obj.secs r.obj.segs)
    {i j : Nat} {a b : SecBuf} {g g' : Seg} (ha : o.secs[i]? = some a) (hb : r.obj.secs[i]? = some b)
    (hgj : o.segs[j]? = some g) (hg' : r.obj.segs[j]? = some g')
    (hfa : FieldsFit o.cls a) (hfg : SegFit o.cls g') (heq : Equidistant g' b) :
    let img := r.os.content
    let sb := (Hdr.e_shoff o.cls o.enc h).toNat + (Hdr.e_shentsize o.cls o.enc h).toNat * a.index
    let pb := (Hdr.e_phoff o.cls o.enc h).toNat + (Hdr.e_phentsize o.cls o.enc h).toNat * g.index
    let shAddr := BitVec.ofNat 64 (Spec.get (Spec.shdrL o.cls) o.enc img sb "sh_addr")
    let shOff := BitVec.ofNat 64 (Spec.get (Spec.shdrL o.cls) o.enc img sb "sh_offset")
    let pVaddr := BitVec.ofNat 64 (Spec.get (Spec.phdrL o.cls) o.enc img pb "p_vaddr")
    let pOff := BitVec.ofNat 64 (Spec.get (Spec.phdrL o.cls) o.enc img pb "p_offset")
    pVaddr + (shOff - pOff) = shAddr ∧
    pVaddr = g.vaddr ∧
    (a.addrSet = true → shAddr = a.addr) ∧
    (a.stype ≠ BitVec.ofNat 32 SHT_NOBITS → a.stype ≠ BitVec.ofNat 32 SHT_NULL → a.size ≠ 0 →
      a.data.isSome = true → slice img (pOff + (shAddr - pVaddr)).toNat a.view.length = a.view) := by
  obtain ⟨fsec, fseg, ec, ee, _⟩ := save_writes_fields hs hok hidx
  have sv := fsec.2 i a b ha hb
  have sg := fseg.2 j g g' hgj hg'
  have hbm : b ∈ r.obj.secs := List.mem_of_getElem? hb
  have hgm : g' ∈ r.obj.segs := List.mem_of_getElem? hg'
  obtain ⟨hrec, dat⟩ := save_decodes_section hs hok hg htr hh hl hbm
  have prec := save_decodes_segment hs hok hg htr hh hl hgm
  rw [ec, ee] at hrec prec
  have eidx : b.index = a.index := sv.fields.2.2.2.2.2.2.2.2.2.1
  have egidx : g'.index = g.index := sg.frame.index
  rw [eidx] at hrec
  rw [egidx] at prec
  -- the saved section's fields fit (placement fields are truncated by the setters)
  have fitb : FieldsFit o.cls b := by
    obtain ⟨⟨l0, l1, f0, f1, f2⟩, _⟩ := save_frames hs hok hidx
    have hi0 : i < l0.length := by
      rw [f0.1]
      rcases Nat.lt_or_ge i o.secs.length with hlt | hge
      · exact hlt
      · rw [List.getElem?_eq_none hge] at ha; cases ha
    have hi1 : i < l1.length := by rw [f1.1]; exact hi0
    exact resFrame_fit (f2.2 i l1[i] b (List.getElem?_eq_getElem hi1) hb)
      (placed_fit (f1.2 i l0[i] l1[i] (List.getElem?_eq_getElem hi0) (List.getElem?_eq_getElem hi1))
        (resFrame_fit (f0.2 i a l0[i] ha (List.getElem?_eq_getElem hi0)) hfa))
  obtain ⟨_, _, _, s3, s4, _, _, _, _, _⟩ := shdr_get_at hrec fitb
  obtain ⟨_, _, p2, p3, _, _, _, _⟩ := phdr_get_at prec hfg
  simp only
  rw [s3, s4, p2, p3, BitVec.ofNat_toNat, BitVec.ofNat_toNat, BitVec.ofNat_toNat, BitVec.ofNat_toNat,
    BitVec.setWidth_eq, BitVec.setWidth_eq, BitVec.setWidth_eq, BitVec.setWidth_eq]
  unfold Equidistant at heq
  refine ⟨heq, ?_, fun hset => (sv.addrKept hset).1, fun n1 n2 n3 n4 => ?_⟩
  · rw [sg.frame.rest]
  · have e : (g'.offset + (b.addr - g'.vaddr)) = b.offset := by rw [← heq]; bv_omega
    rw [e]
    have hst : b.stype = a.stype := sv.fields.2.2.1
    have hsz : b.size = a.size := sv.fields.2.2.2.2.1
    have hda : b.data = a.data := (sv.dataSome n4).1
    cases hd : a.data with
    | none => rw [hd] at n4; cases n4
    | some d =>
      have := dat (by rw [hst]; exact n1) (by rw [hst]; exact n2) (by rw [hsz]; exact n3) d (by rw [hda]; exact hd)
      simpa only [SecBuf.view, hd, Option.getD_some, hsz] using this

end ElfioVerif.C05
