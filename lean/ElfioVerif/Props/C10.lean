/-
C10 — arranging local symbols partitions the table and keeps relocations on target.

All statements are about the byte-level model `Arrange.arrange` (Model/Arrange.lean, built from
the generated expressions of Gen/SitesC10.lean), for *every* symbol section satisfying the
explicit hypotheses `Ready` (resident data, `entsize ≥ sizeof(T)`, fewer than 2^32 - 1 records),
in both ELF classes; tables of any length (induction over the loop, Lemmas/Arrange.lean) — the
byte level is connected by the refinement `Arrange.loop_refines` (Lemmas/ArrangeBytes.lean).

* `arrange_refines`   the model never faults and computes the abstract two-cursor partition
* `arrange_total`     (corollary) no fault, no fuel exhaustion
* `arrange_fuel`      at most n swaps (callback invocations) on a table of n records
* `arrange_perm`, `arrange_partition`, `arrange_ret`   the property proper, for tables with
                      ≥ 1 record whose record 0 is local (the null symbol)
* `arrange_relocs`    relocation tables updated by `swap_symbols` keep every entry on target
* `arrange_empty`     E1: on an empty table the code returns 1 and sets sh_info = 1.  The property
                      presupposes the null symbol ("stays first"), so this is recorded, not demanded.
-/
import ElfioVerif.Lemmas.ArrangeBytes
import ElfioVerif.Lemmas.RelocSwap
namespace ElfioVerif
open Gen Arrange

namespace C10

/-! ### vocabulary -/

/-- number of records `get_symbols_num()` reports -/
def symCount (s : SecBuf) : Nat := (symbolsNum s).toNat

/-- the table as a list of records: record `i` = the `sizeof(T)` bytes at `i * entsize` -/
def symTable (s : SecBuf) : List Bytes :=
  table (s.data.getD []) s.entSize.toNat (sitesOf s.cls).symSize (symCount s)

/-- ELF gABI: a symbol is local iff `ELF_ST_BIND(st_info) = st_info >> 4` is `STB_LOCAL = 0` -/
def isLocal (c : Cls) (r : Bytes) : Bool := isLocalRec (sitesOf c).infoOff r

/-- Explicit, decidable hypotheses on the symbol section. -/
structure Ready (s : SecBuf) : Prop where
  data : s.data.isSome = true
  stable : (!s.isLoaded && s.canLoad) = false
  es : (sitesOf s.cls).symSize ≤ s.entSize.toNat
  fits : s.size.toNat ≤ (s.data.getD []).length
  stream : s.size.toNat ≤ s.streamSize.toNat
  small : s.size.toNat / s.entSize.toNat < 4294967295

theorem Ready.wf {s : SecBuf} (h : Ready s) :
    SymWF (sitesOf s.cls) s (s.data.getD []) (s.size.toNat / s.entSize.toNat) := by
  have hd : s.data = some (s.data.getD []) := by
    cases hs : s.data with
    | none => have := h.data; simp [hs] at this
    | some d => rfl
  exact { hk := rfl, data := hd, stable := h.stable, es := h.es, fits := h.fits,
          stream := h.stream, n_def := rfl, small := h.small }

theorem Ready.count {s : SecBuf} (h : Ready s) : symCount s = s.size.toNat / s.entSize.toNat :=
  symbolsNum_toNat (sitesOf_ok s.cls) h.wf

/-- the callback of the model refines an abstract callback on `Nat` indices, for every call the
    loop can make on a table of `n` records (`first < second < n`) -/
def CbRefines {σb σa : Type} (n : Nat) (cbB : σb → BitVec 64 → BitVec 64 → M σb)
    (cbA : σa → Nat → Nat → σa) (R : σb → σa → Prop) : Prop :=
  ∀ stb sta (i j : BitVec 64), R stb sta → i.toNat < j.toNat → j.toNat < n →
    ∃ stb', cbB stb i j = .ok stb' ∧ R stb' (cbA sta i.toNat j.toNat)

/-! ### refinement and totality -/

/-- **arrange_refines**: on a ready section `arrange` succeeds and its result is the abstract
    algorithm's: the new table, the returned value, `sh_info`, the callback state; nothing but
    `data` and `info` of the section changes and the section stays ready. -/
theorem arrange_refines {σb σa : Type} (cbB : σb → BitVec 64 → BitVec 64 → M σb)
    (cbA : σa → Nat → Nat → σa) (R : σb → σa → Prop) (s : SecBuf) (hs : Ready s)
    (hcb : CbRefines (symCount s) cbB cbA R) (stb : σb) (sta : σa) (hR : R stb sta) :
    ∃ d' stb' ret l' sta' r,
      arrange cbB s stb = .ok ({ s with data := some d', info := BitVec.ofNat 32 r }, stb', ret) ∧
      Arr.absArrange (isLocal s.cls) cbA (symTable s) sta = some (l', sta', r) ∧
      symTable { s with data := some d', info := BitVec.ofNat 32 r } = l' ∧
      ret.toNat = r ∧ r < 4294967296 ∧ R stb' sta' ∧
      Ready { s with data := some d', info := BitVec.ofNat 32 r } := by
  have hk := sitesOf_ok s.cls
  have hwf := hs.wf
  have hn := hs.count
  have hsome := Arr.absArrange_isSome (isLocal s.cls) cbA (symTable s) sta
  obtain ⟨⟨l', sta', r⟩, habs⟩ := Option.isSome_iff_exists.mp hsome
  have habs' := habs
  unfold Arr.absArrange at habs'
  simp only [symTable, table_length] at habs'
  rw [hn] at habs' hcb
  have hf0 : (sitesOf s.cls).fnlInit.toNat = 1 := by rw [hk.fnlInit]; rfl
  have habs'' : Arr.absLoop (isLocal s.cls) cbA (s.size.toNat / s.entSize.toNat + 1)
      (table (s.data.getD []) s.entSize.toNat (sitesOf s.cls).symSize
        (s.size.toNat / s.entSize.toNat)) sta (sitesOf s.cls).fnlInit.toNat = some (l', sta', r) := by
    rw [hf0]; exact habs'
  obtain ⟨d', stb', f', e1, e2, e3, e4, e5⟩ :=
    loop_refines hk _ cbB cbA R hcb _ s _ stb sta _ hwf hR (by rw [hf0]; omega) l' sta' r habs''
  have hf' : (sitesOf s.cls).setInfo f' = BitVec.ofNat 32 r := by
    rw [hk.setInfo, ← e2]; simp
  have hrlt : r < 4294967296 := by rw [← e2]; exact f'.isLt
  refine ⟨d', stb', (sitesOf s.cls).ret f', l', sta', r, ?_, habs, ?_, ?_, hrlt, e4, ?_⟩
  · unfold arrange
    simp only [symbolsNum_toNat hk hwf]
    rw [e1, hf']
  · have hc : symCount { s with data := some d', info := BitVec.ofNat 32 r } = symCount s := rfl
    simp only [symTable, hc, hn]
    exact e3
  · rw [hk.ret, BitVec.toNat_setWidth, e2]
    exact Nat.mod_eq_of_lt (by omega)
  · exact { data := rfl, stable := hs.stable, es := hs.es,
            fits := by have := e5.fits; simpa using this
            stream := hs.stream, small := hs.small }

/-- **arrange_total**: `arrange` never faults — p1/p2 are dereferenced only when in range — and
    the fuel `n + 1` of the model never runs out. -/
theorem arrange_total {σb σa : Type} (cbB : σb → BitVec 64 → BitVec 64 → M σb)
    (cbA : σa → Nat → Nat → σa) (R : σb → σa → Prop) (s : SecBuf) (hs : Ready s)
    (hcb : CbRefines (symCount s) cbB cbA R) (stb : σb) (sta : σa) (hR : R stb sta) :
    ∃ res, arrange cbB s stb = .ok res := by
  obtain ⟨d', stb', ret, _, _, _, h, _⟩ := arrange_refines cbB cbA R s hs hcb stb sta hR
  exact ⟨_, h⟩

/-- **arrange_fuel**: the loop swaps (and calls the callback) at most `n` times on a table of
    `n` records: with a callback that counts its invocations the final count is ≤ n. -/
theorem arrange_fuel (s : SecBuf) (hs : Ready s) :
    ∃ s' calls ret, arrange (fun (c : Nat) _ _ => .ok (c + 1)) s 0 = .ok (s', calls, ret) ∧
      calls ≤ symCount s := by
  have hcb : CbRefines (symCount s) (fun (c : Nat) (_ _ : BitVec 64) => (.ok (c + 1) : M Nat))
      (fun c _ _ => c + 1) Eq := by
    intro stb sta i j h _ _; subst h; exact ⟨_, rfl, rfl⟩
  obtain ⟨d', calls, ret, l', c', r, h1, h2, _, _, _, h6, _⟩ :=
    arrange_refines _ _ Eq s hs hcb 0 0 rfl
  subst h6
  refine ⟨_, _, _, h1, ?_⟩
  have := Arr.absLoop_count _ _ _ _ _ _ _ _ h2
  simp only [symTable, table_length] at this
  omega

/-! ### the property -/

/-- the statement's domain: the table has the null symbol and it is local -/
structure HasNull (s : SecBuf) : Prop where
  nonempty : 0 < symCount s
  local0 : ∀ a, (symTable s)[0]? = some a → isLocal s.cls a = true

/-- **C10, symbol table part**: after arranging, the table is `Spec.Arranged`: same records
    (permutation), locals before non-locals, record 0 unmoved, and the returned value = `sh_info`
    = index of the first non-local record. -/
theorem arrange_arranged {σb σa : Type} (cbB : σb → BitVec 64 → BitVec 64 → M σb)
    (cbA : σa → Nat → Nat → σa) (R : σb → σa → Prop) (s : SecBuf) (hs : Ready s) (h0 : HasNull s)
    (hcb : CbRefines (symCount s) cbB cbA R) (stb : σb) (sta : σa) (hR : R stb sta)
    {s' : SecBuf} {stb' : σb} {ret : BitVec 64} (h : arrange cbB s stb = .ok (s', stb', ret)) :
    Spec.Arranged (isLocal s.cls) (symTable s) (symTable s') ret.toNat ∧
      s'.info.toNat = ret.toNat := by
  obtain ⟨d', stb'', ret', l', sta', r, h1, h2, h3, h4, h5, _, _⟩ :=
    arrange_refines cbB cbA R s hs hcb stb sta hR
  rw [h1] at h
  simp only [Except.ok.injEq, Prod.mk.injEq] at h
  obtain ⟨rfl, rfl, rfl⟩ := h
  have hne : symTable s ≠ [] := by
    intro he
    have : (symTable s).length = 0 := by rw [he]; rfl
    simp only [symTable, table_length] at this
    have := h0.nonempty; omega
  have := Arr.absArrange_arranged (isLocal s.cls) cbA (symTable s) sta h0.local0 hne h2
  rw [h3, h4]
  refine ⟨this, ?_⟩
  show (BitVec.ofNat 32 r).toNat = r
  simp only [BitVec.toNat_ofNat, Nat.reducePow]
  exact Nat.mod_eq_of_lt h5

/-- **arrange_perm**: the table holds exactly the same symbols as before -/
theorem arrange_perm {σb σa : Type} (cbB : σb → BitVec 64 → BitVec 64 → M σb)
    (cbA : σa → Nat → Nat → σa) (R : σb → σa → Prop) (s : SecBuf) (hs : Ready s) (h0 : HasNull s)
    (hcb : CbRefines (symCount s) cbB cbA R) (stb : σb) (sta : σa) (hR : R stb sta)
    {s' : SecBuf} {stb' : σb} {ret : BitVec 64} (h : arrange cbB s stb = .ok (s', stb', ret)) :
    (symTable s').Perm (symTable s) :=
  (arrange_arranged cbB cbA R s hs h0 hcb stb sta hR h).1.perm

/-- **arrange_partition**: there is `r` with every index below local, every index from `r` on
    non-local, and record 0 unmoved -/
theorem arrange_partition {σb σa : Type} (cbB : σb → BitVec 64 → BitVec 64 → M σb)
    (cbA : σa → Nat → Nat → σa) (R : σb → σa → Prop) (s : SecBuf) (hs : Ready s) (h0 : HasNull s)
    (hcb : CbRefines (symCount s) cbB cbA R) (stb : σb) (sta : σa) (hR : R stb sta)
    {s' : SecBuf} {stb' : σb} {ret : BitVec 64} (h : arrange cbB s stb = .ok (s', stb', ret)) :
    ∃ r : Nat, (∀ (i : Nat) a, i < r → (symTable s')[i]? = some a → isLocal s.cls a = true) ∧
         (∀ (i : Nat) a, r ≤ i → (symTable s')[i]? = some a → isLocal s.cls a = false) ∧
         (symTable s')[0]? = (symTable s)[0]? :=
  let A := (arrange_arranged cbB cbA R s hs h0 hcb stb sta hR h).1
  ⟨ret.toNat, A.locals, A.globals, A.null⟩

/-- **arrange_ret**: returned value = `sh_info` = index of the first non-local symbol -/
theorem arrange_ret {σb σa : Type} (cbB : σb → BitVec 64 → BitVec 64 → M σb)
    (cbA : σa → Nat → Nat → σa) (R : σb → σa → Prop) (s : SecBuf) (hs : Ready s) (h0 : HasNull s)
    (hcb : CbRefines (symCount s) cbB cbA R) (stb : σb) (sta : σa) (hR : R stb sta)
    {s' : SecBuf} {stb' : σb} {ret : BitVec 64} (h : arrange cbB s stb = .ok (s', stb', ret)) :
    ret.toNat = ((symTable s').takeWhile (isLocal s.cls)).length ∧ s'.info.toNat = ret.toNat :=
  let A := arrange_arranged cbB cbA R s hs h0 hcb stb sta hR h
  ⟨A.1.first, A.2⟩

/-- **arrange_empty** (E1): whenever `get_symbols_num()` is 0 — in particular on an empty
    section — the code leaves the data alone, returns 1 and sets `sh_info = 1`, although there
    is no symbol at all.  The property presupposes the null symbol. -/
theorem arrange_empty {σ : Type} (cb : σ → BitVec 64 → BitVec 64 → M σ) (s : SecBuf) (st : σ)
    (h : symCount s = 0) :
    arrange cb s st = .ok ({ s with info := 1#32 }, st, 1#64) := by
  have hk := sitesOf_ok s.cls
  have h' : (symbolsNum s).toNat = 0 := h
  unfold arrange
  simp only [h', loop, hk.forever, Bool.not_true, Bool.false_eq_true, if_false, scan1, scan2, hk.scan1Cond,
    hk.scan2Cond, hk.both, hk.fnlInit]
  simp only [Nat.not_lt_zero, decide_false, Bool.false_eq_true, if_false, Bool.and_self,
    hk.setInfo, hk.ret]
  rfl

/-! ### relocation tables -/

/-- the record type the accessor selects (`none`: neither SHT_REL nor SHT_RELA) -/
def relKind (r : SecBuf) : Option RelSites :=
  relDispatch rsw_get_is32 rsw_get_rel_a rsw_get_rela_a rsw_get_rel_b rsw_get_rela_b r

/-- `get_entries_num()` -/
def relCount (r : SecBuf) : Nat := (entriesNum r).toNat

/-- what `get_entry(j, offset, symbol, type, addend)` reports (see `relEntryAt_getEntry`) -/
def relEntryAt (e : Enc) (r : SecBuf) (j : Nat) : Option RelEntry :=
  (relKind r).map fun k => decodeRec e k (relRec k r (r.data.getD []) j)

/-- number of symbol indices an `r_info` field can hold: 24 bits in ELF32, 32 in ELF64 -/
def symLimit (c : Cls) : Nat :=
  match c with
  | .c32 => 16777216
  | .c64 => 4294967296

/-- Explicit hypotheses on a relocation section used with a symbol table of `n` symbols. -/
structure RelReady (n : Nat) (r : SecBuf) : Prop where
  kind : r.stype = BitVec.ofNat 32 SHT_REL ∨ r.stype = BitVec.ofNat 32 SHT_RELA
  data : r.data.isSome = true
  stable : (!r.isLoaded && r.canLoad) = false
  es : ∀ k, relKind r = some k → k.recSize ≤ r.entSize.toNat
  fits : r.size.toNat ≤ (r.data.getD []).length
  small : r.size.toNat / r.entSize.toNat < 4294967295
  limit : n ≤ symLimit r.cls

theorem relKind_cases (r : SecBuf)
    (hkind : r.stype = BitVec.ofNat 32 SHT_REL ∨ r.stype = BitVec.ofNat 32 SHT_RELA) :
    ∃ k, relKind r = some k ∧
      relDispatch rsw_set_is32 rsw_set_rel_a rsw_set_rela_a rsw_set_rel_b rsw_set_rela_b r = some k ∧
      RelSitesOK k (symLimit r.cls) := by
  have a1 : rsw_get_is32 (clsByte .c32) = true := by decide
  have a2 : rsw_get_is32 (clsByte .c64) = false := by decide
  have a3 : rsw_set_is32 (clsByte .c32) = true := by decide
  have a4 : rsw_set_is32 (clsByte .c64) = false := by decide
  have b1 : rsw_get_rel_a (BitVec.ofNat 32 SHT_REL) = true := by decide
  have b2 : rsw_get_rel_a (BitVec.ofNat 32 SHT_RELA) = false := by decide
  have b3 : rsw_get_rela_a (BitVec.ofNat 32 SHT_RELA) = true := by decide
  have b4 : rsw_get_rel_b (BitVec.ofNat 32 SHT_REL) = true := by decide
  have b5 : rsw_get_rel_b (BitVec.ofNat 32 SHT_RELA) = false := by decide
  have b6 : rsw_get_rela_b (BitVec.ofNat 32 SHT_RELA) = true := by decide
  have c1 : rsw_set_rel_a (BitVec.ofNat 32 SHT_REL) = true := by decide
  have c2 : rsw_set_rel_a (BitVec.ofNat 32 SHT_RELA) = false := by decide
  have c3 : rsw_set_rela_a (BitVec.ofNat 32 SHT_RELA) = true := by decide
  have c4 : rsw_set_rel_b (BitVec.ofNat 32 SHT_REL) = true := by decide
  have c5 : rsw_set_rel_b (BitVec.ofNat 32 SHT_RELA) = false := by decide
  have c6 : rsw_set_rela_b (BitVec.ofNat 32 SHT_RELA) = true := by decide
  cases hc : r.cls <;> rcases hkind with hk | hk
  · exact ⟨rel32, by simp [relKind, relDispatch, hc, hk, a1, b1],
      by simp [relDispatch, hc, hk, a3, c1], rel32_ok⟩
  · exact ⟨rela32, by simp [relKind, relDispatch, hc, hk, a1, b2, b3],
      by simp [relDispatch, hc, hk, a3, c2, c3], rela32_ok⟩
  · exact ⟨rel64, by simp [relKind, relDispatch, hc, hk, a2, b4],
      by simp [relDispatch, hc, hk, a4, c4], rel64_ok⟩
  · exact ⟨rela64, by simp [relKind, relDispatch, hc, hk, a2, b5, b6],
      by simp [relDispatch, hc, hk, a4, c5, c6], rela64_ok⟩

theorem RelReady.rel1 {n : Nat} {r : SecBuf} (e : Enc) (h : RelReady n r) :
    ∃ k, relKind r = some k ∧ RelSitesOK k (symLimit r.cls) ∧
      RelWF k r (r.data.getD []) (r.size.toNat / r.entSize.toNat) ∧
      Rel1 e n r (decodeAll e k r (r.data.getD []) (r.size.toNat / r.entSize.toNat)) := by
  obtain ⟨k, h1, h2, h3⟩ := relKind_cases r h.kind
  have hd : r.data = some (r.data.getD []) := by
    cases hs : r.data with
    | none => have := h.data; simp [hs] at this
    | some d => rfl
  have hwf : RelWF k r (r.data.getD []) (r.size.toNat / r.entSize.toNat) :=
    { getK := h1, setK := h2, data := hd, stable := h.stable, es := h.es k h1, fits := h.fits,
      m_def := rfl, small := h.small }
  exact ⟨k, h1, h3, hwf, k, _, _, _, h3, hwf, h.limit, rfl⟩

/-- `relEntryAt` is what the model's `get_entry` returns -/
theorem relEntryAt_getEntry {n : Nat} {r : SecBuf} (e : Enc) (h : RelReady n r) (j : Nat)
    (hj : j < relCount r) :
    ∃ v, relEntryAt e r j = some v ∧ getEntry e r (BitVec.ofNat 64 j) = .ok (r, some v) := by
  obtain ⟨k, h1, h3, hwf, _⟩ := h.rel1 e
  have hm : relCount r = r.size.toNat / r.entSize.toNat := entriesNum_toNat h3 hwf
  have hjn : (BitVec.ofNat 64 j).toNat = j := by
    simp only [BitVec.toNat_ofNat, Nat.reducePow]
    have := h.small
    exact Nat.mod_eq_of_lt (by omega)
  have := getEntry_eq e h3 hwf (BitVec.ofNat 64 j) (by rw [hjn]; omega)
  rw [hjn] at this
  exact ⟨_, by simp [relEntryAt, h1], this⟩

/-- the decoded entries of a table, by the record type its section type selects -/
def decodeAllOf (e : Enc) (r : SecBuf) : List AEntry :=
  match relKind r with
  | some k => decodeAll e k r (r.data.getD []) (r.size.toNat / r.entSize.toNat)
  | none => []

theorem relAll_of_ready (e : Enc) (n : Nat) :
    ∀ (rels : List SecBuf), (∀ r, r ∈ rels → RelReady n r) →
      RelAll e n rels (rels.map (decodeAllOf e))
  | [], _ => trivial
  | r :: rs, h => by
    obtain ⟨k, h1, _, _, h4⟩ := (h r (by simp)).rel1 e
    refine ⟨?_, relAll_of_ready e n rs (fun r' hr' => h r' (by simp [hr']))⟩
    simp only [decodeAllOf, h1]
    exact h4

theorem decodeAll_getElem? (e : Enc) (k : RelSites) (r : SecBuf) (d : Bytes) (m j : Nat) :
    (decodeAll e k r d m)[j]? =
      if j < m then some (AEntry.ofRel (decodeRec e k (relRec k r d j))) else none := by
  unfold decodeAll
  by_cases h : j < m
  · simp [h]
  · simp [h]

/-- **arrange_relocs**: forward the swap callback to any number of REL/RELA tables (whose
    `r_info` can hold the table's symbol indices): afterwards every table has the same number of
    entries, every entry keeps offset, type and addend, and the symbol it refers to — looked up
    in the arranged table — is, byte for byte, the record it referred to before. -/
theorem arrange_relocs (e : Enc) (s : SecBuf) (hs : Ready s) (rels : List SecBuf)
    (hr : ∀ r, r ∈ rels → RelReady (symCount s) r)
    {s' : SecBuf} {rels' : List SecBuf} {ret : BitVec 64}
    (h : arrange (relCallback e) s rels = .ok (s', rels', ret)) :
    rels'.length = rels.length ∧
    ∀ (t : Nat) r r', rels[t]? = some r → rels'[t]? = some r' →
      relCount r' = relCount r ∧
      ∀ j, j < relCount r → ∃ v v', relEntryAt e r j = some v ∧ relEntryAt e r' j = some v' ∧
        v'.offset = v.offset ∧ v'.rtype = v.rtype ∧ v'.addend = v.addend ∧
        (symTable s')[v'.symbol.toNat]? = (symTable s)[v.symbol.toNat]? := by
  have hcb : CbRefines (symCount s) (relCallback e)
      (fun st i j => aAction.act (Arr.transp i j) st) (RelAll e (symCount s)) :=
    fun stb sta i j hR hij hj => relCallback_refines e _ stb sta i j hR hij hj
  have hR0 := relAll_of_ready e (symCount s) rels hr
  obtain ⟨d', stb', ret', l', sta', r0, h1, h2, h3, _, _, h6, _⟩ :=
    arrange_refines (relCallback e) _ (RelAll e (symCount s)) s hs hcb rels _ hR0
  rw [h1] at h
  simp only [Except.ok.injEq, Prod.mk.injEq] at h
  obtain ⟨rfl, rfl, rfl⟩ := h
  obtain ⟨π, p1, p2⟩ := Arr.absLoop_tracks (isLocal s.cls) aAction _ _ _ _ _ _ _ h2
  subst p1
  rw [← h3] at p2
  obtain ⟨g1, g2⟩ := RelAll.get h6
  have hlen : stb'.length = rels.length := by rw [g1]; simp [aAction]
  refine ⟨hlen, ?_⟩
  intro t r r' hr1 hr2
  obtain ⟨t', q1, q2⟩ := g2 t r' hr2
  -- the abstract table of r' is the mapped abstract table of r
  have hq1 : t' = (decodeAllOf e r).map (fun a => { a with sym := π a.sym }) := by
    simp only [aAction, List.getElem?_map, hr1, Option.map_some, Option.some.injEq] at q1
    exact q1.symm
  -- both sides, concretely
  have hrr : RelReady (symCount s) r := hr r (List.mem_of_getElem? hr1)
  obtain ⟨k, k1, k3, kwf, _⟩ := hrr.rel1 e
  have hm : relCount r = r.size.toNat / r.entSize.toNat := entriesNum_toNat k3 kwf
  obtain ⟨k', lim', d1, m', j1, j2, _, j4⟩ := q2
  have hm' : relCount r' = m' := entriesNum_toNat j1 j2
  have hk' : relKind r' = some k' := j2.getK
  have hd' : r'.data.getD [] = d1 := by rw [j2.data]; rfl
  have hall : decodeAll e k' r' d1 m'
      = (decodeAll e k r (r.data.getD []) (r.size.toNat / r.entSize.toNat)).map
          (fun a => { a with sym := π a.sym }) := by
    rw [← j4, hq1]; simp only [decodeAllOf, k1]
  have hmm : m' = r.size.toNat / r.entSize.toNat := by
    have := congrArg List.length hall
    simpa [decodeAll] using this
  refine ⟨by rw [hm', hm, hmm], ?_⟩
  intro j hj
  rw [hm] at hj
  have hj2 := congrArg (fun l => l[j]?) hall
  simp only [List.getElem?_map, decodeAll_getElem?, hj, hmm, if_true, Option.map_some,
    Option.some.injEq] at hj2
  refine ⟨decodeRec e k (relRec k r (r.data.getD []) j), decodeRec e k' (relRec k' r' d1 j),
    by simp [relEntryAt, k1], by simp [relEntryAt, hk', hd'], ?_, ?_, ?_, ?_⟩
  · exact congrArg AEntry.offset hj2
  · exact congrArg AEntry.rtype hj2
  · exact congrArg AEntry.addend hj2
  · have hsym := congrArg AEntry.sym hj2
    simp only [AEntry.ofRel] at hsym
    rw [hsym]
    exact p2 _

/-! ### non-vacuity: a concrete ELF64 table (null, global, local) meets the hypotheses -/

/-- three `Elf64_Sym` records: the null symbol, a global (`st_info = 0x12`), a local (`0x02`) -/
def exSec : SecBuf :=
  { cls := .c64, stype := BitVec.ofNat 32 SHT_SYMTAB, size := 72, dataSize := 72, streamSize := 72,
    isLoaded := true, entSize := 24,
    data := some (List.replicate 24 0 ++
                  ([1, 0, 0, 0, 0x12, 0, 1, 0] ++ List.replicate 16 7) ++
                  ([5, 0, 0, 0, 0x02, 0, 1, 0] ++ List.replicate 16 9) ++ [0]) }

example : Ready exSec := by constructor <;> decide
example : HasNull exSec := by
  constructor
  · decide
  · intro a h
    have : (symTable exSec)[0]? = some (List.replicate 24 0) := by decide
    rw [this] at h; cases h; decide
example : CbRefines (symCount exSec) noCallback (fun (_ : Unit) _ _ => ()) (fun _ _ => True) := by
  intro stb sta i j _ _ _; exact ⟨(), rfl, trivial⟩
/-- and the run is not trivial: the global and the local record are exchanged, 2 is returned -/
example : (arrange noCallback exSec ()).toOption.map (fun r => (symTable r.1, r.2.2.toNat, r.1.info.toNat))
    = some ([List.replicate 24 0, [5, 0, 0, 0, 0x02, 0, 1, 0] ++ List.replicate 16 9,
             [1, 0, 0, 0, 0x12, 0, 1, 0] ++ List.replicate 16 7], 2, 2) := by decide

/-- an `Elf64_Rela` table with two entries referring to symbols 1 (the global) and 2 (the local) -/
def exRel : SecBuf :=
  { cls := .c64, stype := BitVec.ofNat 32 SHT_RELA, size := 48, dataSize := 48, streamSize := 48,
    isLoaded := true, entSize := 24,
    data := some ([16, 0, 0, 0, 0, 0, 0, 0,  2, 0, 0, 0, 1, 0, 0, 0] ++ List.replicate 8 255 ++
                  [32, 0, 0, 0, 0, 0, 0, 0,  7, 0, 0, 0, 2, 0, 0, 0,  5, 0, 0, 0, 0, 0, 0, 0] ++ [0]) }

example : RelReady (symCount exSec) exRel := by
  have hk : relKind exRel = some rela64 := rfl
  constructor
  · right; decide
  · decide
  · decide
  · intro k h; rw [hk] at h; cases h; decide
  · decide
  · decide
  · decide
/-- with the callback forwarded, the entries now name symbols 2 and 1: the same records -/
example : (arrange (relCallback .lsb) exSec [exRel]).toOption.map
      (fun r => r.2.1.map fun t => (List.range 2).map fun j =>
        match relEntryAt .lsb t j with
        | some v => [v.offset.toNat, v.symbol.toNat, v.rtype.toNat, v.addend.toNat]
        | none => [])
    = some [[[16, 2, 2, 18446744073709551615], [32, 1, 7, 5]]] := by decide

end C10
end ElfioVerif
