/-
C10 — arranging local symbols partitions the table and keeps relocations on target.

All statements are about the byte-level model `Arrange.arrange` (Model/Arrange.lean, built from
the generated expressions of Gen/SitesC10.lean), for *every* symbol section satisfying the
explicit hypotheses `Ready` (resident data, `entsize ≥ sizeof(T)`, fewer than 2^32 - 1 records),
in both ELF classes; tables of any length (induction over the loop, Lemmas/Arrange.lean) — the
byte level is connected by the refinement `Arrange.loop_refines` (Lemmas/ArrangeBytes.lean).

* `arrange_refines`   the model never faults and computes the abstract two-cursor partition
* `arrange_total`     (corollary) no fault, no fuel exhaustion
* `arrange_fuel`      at most n swaps (callback invocations) on a table of n records
* `arrange_perm`, `arrange_partition`, `arrange_ret`   the property proper, for tables with
                      ≥ 1 record whose record 0 is local (the null symbol)
* `arrange_relocs`    relocation tables updated by `swap_symbols` keep every entry on target
* `arrange_empty`     E1: on an empty table the code returns 1 and sets sh_info = 1.  The property
                      presupposes the null symbol ("stays first"), so this is recorded, not demanded.
-/
import ElfioVerif.Lemmas.ArrangeBytes
namespace ElfioVerif
open Gen Arrange

namespace C10

/-! ### vocabulary -/

/-- number of records `get_symbols_num()` reports -/
def symCount (s : SecBuf) : Nat := (symbolsNum s).toNat

/-- the table as a list of records: record `i` = the `sizeof(T)` bytes at `i * entsize` -/
def symTable (s : SecBuf) : List Bytes :=
  table (s.data.getD []) s.entSize.toNat (sitesOf s.cls).symSize (symCount s)

/-- ELF gABI: a symbol is local iff `ELF_ST_BIND(st_info) = st_info >> 4` is `STB_LOCAL = 0` -/
def isLocal (c : Cls) (r : Bytes) : Bool := isLocalRec (sitesOf c).infoOff r

/-- Explicit, decidable hypotheses on the symbol section. -/
structure Ready (s : SecBuf) : Prop where
  data : s.data.isSome = true
  stable : (!s.isLoaded && s.canLoad) = false
  es : (sitesOf s.cls).symSize ≤ s.entSize.toNat
  fits : s.size.toNat ≤ (s.data.getD []).length
  stream : s.size.toNat ≤ s.streamSize.toNat
  small : s.size.toNat / s.entSize.toNat < 4294967295

theorem Ready.wf {s : SecBuf} (h : Ready s) :
    SymWF (sitesOf s.cls) s (s.data.getD []) (s.size.toNat / s.entSize.toNat) := by
  have hd : s.data = some (s.data.getD []) := by
    cases hs : s.data with
    | none => have := h.data; simp [hs] at this
    | some d => rfl
  exact { hk := rfl, data := hd, stable := h.stable, es := h.es, fits := h.fits,
          stream := h.stream, n_def := rfl, small := h.small }

theorem Ready.count {s : SecBuf} (h : Ready s) : symCount s = s.size.toNat / s.entSize.toNat :=
  symbolsNum_toNat (sitesOf_ok s.cls) h.wf

/-- the callback of the model refines an abstract callback on `Nat` indices, for every call the
    loop can make on a table of `n` records (`first < second < n`) -/
def CbRefines {σb σa : Type} (n : Nat) (cbB : σb → BitVec 64 → BitVec 64 → M σb)
    (cbA : σa → Nat → Nat → σa) (R : σb → σa → Prop) : Prop :=
  ∀ stb sta (i j : BitVec 64), R stb sta → i.toNat < j.toNat → j.toNat < n →
    ∃ stb', cbB stb i j = .ok stb' ∧ R stb' (cbA sta i.toNat j.toNat)

/-! ### refinement and totality -/

/-- **arrange_refines**: on a ready section `arrange` succeeds and its result is the abstract
    algorithm's: the new table, the returned value, `sh_info`, the callback state; nothing but
    `data` and `info` of the section changes and the section stays ready. -/
theorem arrange_refines {σb σa : Type} (cbB : σb → BitVec 64 → BitVec 64 → M σb)
    (cbA : σa → Nat → Nat → σa) (R : σb → σa → Prop) (s : SecBuf) (hs : Ready s)
    (hcb : CbRefines (symCount s) cbB cbA R) (stb : σb) (sta : σa) (hR : R stb sta) :
    ∃ d' stb' ret l' sta' r,
      arrange cbB s stb = .ok ({ s with data := some d', info := BitVec.ofNat 32 r }, stb', ret) ∧
      Arr.absArrange (isLocal s.cls) cbA (symTable s) sta = some (l', sta', r) ∧
      symTable { s with data := some d', info := BitVec.ofNat 32 r } = l' ∧
      ret.toNat = r ∧ r < 4294967296 ∧ R stb' sta' ∧
      Ready { s with data := some d', info := BitVec.ofNat 32 r } := by
  have hk := sitesOf_ok s.cls
  have hwf := hs.wf
  have hn := hs.count
  have hsome := Arr.absArrange_isSome (isLocal s.cls) cbA (symTable s) sta
  obtain ⟨⟨l', sta', r⟩, habs⟩ := Option.isSome_iff_exists.mp hsome
  have habs' := habs
  unfold Arr.absArrange at habs'
  simp only [symTable, table_length] at habs'
  rw [hn] at habs' hcb
  have hf0 : (sitesOf s.cls).fnlInit.toNat = 1 := by rw [hk.fnlInit]; rfl
  have habs'' : Arr.absLoop (isLocal s.cls) cbA (s.size.toNat / s.entSize.toNat + 1)
      (table (s.data.getD []) s.entSize.toNat (sitesOf s.cls).symSize
        (s.size.toNat / s.entSize.toNat)) sta (sitesOf s.cls).fnlInit.toNat = some (l', sta', r) := by
    rw [hf0]; exact habs'
  obtain ⟨d', stb', f', e1, e2, e3, e4, e5⟩ :=
    loop_refines hk _ cbB cbA R hcb _ s _ stb sta _ hwf hR (by rw [hf0]; omega) l' sta' r habs''
  have hf' : (sitesOf s.cls).setInfo f' = BitVec.ofNat 32 r := by
    rw [hk.setInfo, ← e2]; simp
  have hrlt : r < 4294967296 := by rw [← e2]; exact f'.isLt
  refine ⟨d', stb', (sitesOf s.cls).ret f', l', sta', r, ?_, habs, ?_, ?_, hrlt, e4, ?_⟩
  · unfold arrange
    simp only [symbolsNum_toNat hk hwf]
    rw [e1, hf']
  · have hc : symCount { s with data := some d', info := BitVec.ofNat 32 r } = symCount s := rfl
    simp only [symTable, hc, hn]
    exact e3
  · rw [hk.ret, BitVec.toNat_setWidth, e2]
    exact Nat.mod_eq_of_lt (by omega)
  · exact { data := rfl, stable := hs.stable, es := hs.es,
            fits := by have := e5.fits; simpa using this
            stream := hs.stream, small := hs.small }

/-- **arrange_total**: `arrange` never faults — p1/p2 are dereferenced only when in range — and
    the fuel `n + 1` of the model never runs out. -/
theorem arrange_total {σb σa : Type} (cbB : σb → BitVec 64 → BitVec 64 → M σb)
    (cbA : σa → Nat → Nat → σa) (R : σb → σa → Prop) (s : SecBuf) (hs : Ready s)
    (hcb : CbRefines (symCount s) cbB cbA R) (stb : σb) (sta : σa) (hR : R stb sta) :
    ∃ res, arrange cbB s stb = .ok res := by
  obtain ⟨d', stb', ret, _, _, _, h, _⟩ := arrange_refines cbB cbA R s hs hcb stb sta hR
  exact ⟨_, h⟩

/-- **arrange_fuel**: the loop swaps (and calls the callback) at most `n` times on a table of
    `n` records: with a callback that counts its invocations the final count is ≤ n. -/
theorem arrange_fuel (s : SecBuf) (hs : Ready s) :
    ∃ s' calls ret, arrange (fun (c : Nat) _ _ => .ok (c + 1)) s 0 = .ok (s', calls, ret) ∧
      calls ≤ symCount s := by
  have hcb : CbRefines (symCount s) (fun (c : Nat) (_ _ : BitVec 64) => (.ok (c + 1) : M Nat))
      (fun c _ _ => c + 1) Eq := by
    intro stb sta i j h _ _; subst h; exact ⟨_, rfl, rfl⟩
  obtain ⟨d', calls, ret, l', c', r, h1, h2, _, _, _, h6, _⟩ :=
    arrange_refines _ _ Eq s hs hcb 0 0 rfl
  subst h6
  refine ⟨_, _, _, h1, ?_⟩
  have := Arr.absLoop_count _ _ _ _ _ _ _ _ h2
  simp only [symTable, table_length] at this
  omega

/-! ### the property -/

/-- the statement's domain: the table has the null symbol and it is local -/
structure HasNull (s : SecBuf) : Prop where
  nonempty : 0 < symCount s
  local0 : ∀ a, (symTable s)[0]? = some a → isLocal s.cls a = true

/-- **C10, symbol table part**: after arranging, the table is `Spec.Arranged`: same records
    (permutation), locals before non-locals, record 0 unmoved, and the returned value = `sh_info`
    = index of the first non-local record. -/
theorem arrange_arranged {σb σa : Type} (cbB : σb → BitVec 64 → BitVec 64 → M σb)
    (cbA : σa → Nat → Nat → σa) (R : σb → σa → Prop) (s : SecBuf) (hs : Ready s) (h0 : HasNull s)
    (hcb : CbRefines (symCount s) cbB cbA R) (stb : σb) (sta : σa) (hR : R stb sta)
    {s' : SecBuf} {stb' : σb} {ret : BitVec 64} (h : arrange cbB s stb = .ok (s', stb', ret)) :
    Spec.Arranged (isLocal s.cls) (symTable s) (symTable s') ret.toNat ∧
      s'.info.toNat = ret.toNat := by
  obtain ⟨d', stb'', ret', l', sta', r, h1, h2, h3, h4, h5, _, _⟩ :=
    arrange_refines cbB cbA R s hs hcb stb sta hR
  rw [h1] at h
  simp only [Except.ok.injEq, Prod.mk.injEq] at h
  obtain ⟨rfl, rfl, rfl⟩ := h
  have hne : symTable s ≠ [] := by
    intro he
    have : (symTable s).length = 0 := by rw [he]; rfl
    simp only [symTable, table_length] at this
    have := h0.nonempty; omega
  have := Arr.absArrange_arranged (isLocal s.cls) cbA (symTable s) sta h0.local0 hne h2
  rw [h3, h4]
  refine ⟨this, ?_⟩
  show (BitVec.ofNat 32 r).toNat = r
  simp only [BitVec.toNat_ofNat, Nat.reducePow]
  exact Nat.mod_eq_of_lt h5

/-- **arrange_perm**: the table holds exactly the same symbols as before -/
theorem arrange_perm {σb σa : Type} (cbB : σb → BitVec 64 → BitVec 64 → M σb)
    (cbA : σa → Nat → Nat → σa) (R : σb → σa → Prop) (s : SecBuf) (hs : Ready s) (h0 : HasNull s)
    (hcb : CbRefines (symCount s) cbB cbA R) (stb : σb) (sta : σa) (hR : R stb sta)
    {s' : SecBuf} {stb' : σb} {ret : BitVec 64} (h : arrange cbB s stb = .ok (s', stb', ret)) :
    (symTable s').Perm (symTable s) :=
  (arrange_arranged cbB cbA R s hs h0 hcb stb sta hR h).1.perm

/-- **arrange_partition**: there is `r` with every index below local, every index from `r` on
    non-local, and record 0 unmoved -/
theorem arrange_partition {σb σa : Type} (cbB : σb → BitVec 64 → BitVec 64 → M σb)
    (cbA : σa → Nat → Nat → σa) (R : σb → σa → Prop) (s : SecBuf) (hs : Ready s) (h0 : HasNull s)
    (hcb : CbRefines (symCount s) cbB cbA R) (stb : σb) (sta : σa) (hR : R stb sta)
    {s' : SecBuf} {stb' : σb} {ret : BitVec 64} (h : arrange cbB s stb = .ok (s', stb', ret)) :
    ∃ r : Nat, (∀ (i : Nat) a, i < r → (symTable s')[i]? = some a → isLocal s.cls a = true) ∧
         (∀ (i : Nat) a, r ≤ i → (symTable s')[i]? = some a → isLocal s.cls a = false) ∧
         (symTable s')[0]? = (symTable s)[0]? :=
  let A := (arrange_arranged cbB cbA R s hs h0 hcb stb sta hR h).1
  ⟨ret.toNat, A.locals, A.globals, A.null⟩

/-- **arrange_ret**: returned value = `sh_info` = index of the first non-local symbol -/
theorem arrange_ret {σb σa : Type} (cbB : σb → BitVec 64 → BitVec 64 → M σb)
    (cbA : σa → Nat → Nat → σa) (R : σb → σa → Prop) (s : SecBuf) (hs : Ready s) (h0 : HasNull s)
    (hcb : CbRefines (symCount s) cbB cbA R) (stb : σb) (sta : σa) (hR : R stb sta)
    {s' : SecBuf} {stb' : σb} {ret : BitVec 64} (h : arrange cbB s stb = .ok (s', stb', ret)) :
    ret.toNat = ((symTable s').takeWhile (isLocal s.cls)).length ∧ s'.info.toNat = ret.toNat :=
  let A := arrange_arranged cbB cbA R s hs h0 hcb stb sta hR h
  ⟨A.1.first, A.2⟩

/-- **arrange_empty** (E1): whenever `get_symbols_num()` is 0 — in particular on an empty
    section — the code leaves the data alone, returns 1 and sets `sh_info = 1`, although there
    is no symbol at all.  The property presupposes the null symbol. -/
theorem arrange_empty {σ : Type} (cb : σ → BitVec 64 → BitVec 64 → M σ) (s : SecBuf) (st : σ)
    (h : symCount s = 0) :
    arrange cb s st = .ok ({ s with info := 1#32 }, st, 1#64) := by
  have hk := sitesOf_ok s.cls
  have h' : (symbolsNum s).toNat = 0 := h
  unfold arrange
  simp only [h', loop, scan1, scan2, hk.scan1Cond, hk.scan2Cond, hk.both, hk.fnlInit]
  simp only [Nat.not_lt_zero, decide_false, Bool.false_eq_true, if_false, Bool.and_self,
    hk.setInfo, hk.ret]
  rfl

/-! ### non-vacuity: a concrete ELF64 table (null, global, local) meets the hypotheses -/

/-- three `Elf64_Sym` records: the null symbol, a global (`st_info = 0x12`), a local (`0x02`) -/
def exSec : SecBuf :=
  { cls := .c64, stype := BitVec.ofNat 32 SHT_SYMTAB, size := 72, dataSize := 72, streamSize := 72,
    isLoaded := true, entSize := 24,
    data := some (List.replicate 24 0 ++
                  ([1, 0, 0, 0, 0x12, 0, 1, 0] ++ List.replicate 16 7) ++
                  ([5, 0, 0, 0, 0x02, 0, 1, 0] ++ List.replicate 16 9) ++ [0]) }

example : Ready exSec := by constructor <;> decide
example : HasNull exSec := by
  constructor
  · decide
  · intro a h
    have : (symTable exSec)[0]? = some (List.replicate 24 0) := by decide
    rw [this] at h; cases h; decide
example : CbRefines (symCount exSec) noCallback (fun (_ : Unit) _ _ => ()) (fun _ _ => True) := by
  intro stb sta i j _ _ _; exact ⟨(), rfl, trivial⟩
/-- and the run is not trivial: the global and the local record are exchanged, 2 is returned -/
example : (arrange noCallback exSec ()).toOption.map (fun r => (symTable r.1, r.2.2.toNat, r.1.info.toNat))
    = some ([List.replicate 24 0, [5, 0, 0, 0, 0x02, 0, 1, 0] ++ List.replicate 16 9,
             [1, 0, 0, 0, 0x12, 0, 1, 0] ++ List.replicate 16 7], 2, 2) := by decide

end C10
end ElfioVerif
