/-
"The reader reports what the ELF specification says" for the TABLES of a loaded file (C02 ∘ C08 … C14).

`C02.load_eq_spec` says that `load` of a well-formed image yields sections whose header fields and data are
the file's; the accessor families say that on a section with their invariant the read-out is the gABI
decoding of the section CONTENT.  This file composes the two: the accessor models, run the way the
inspection interface runs them on a loaded object (`Inspect.secResident` = `sections[i]->get_data()` against
the real stream, then the family's own model on the settled section — Model/Inspect.lean, executed by the
driver of the shared `load` family), return the Spec-level decoding of the bytes of `img` in the section's
file range (`C02.secFileBytes img i` = `slice img sh_offset sh_size`), for ALL entry indices.

  §1  loaded_section_ready                 every section of the loaded object is ready for the accessors
  §2a strings_reports_spec (+ cstrAt_eq_strAt)      §2b symbols_reports_spec        §2c reloc_reports_spec
  §2d dynamic_reports_spec (count + entries)        §2e notes_reports_spec, segment_notes_reports_spec
  §2f array_reports_spec                            §2g versym_reports_spec (host byte order: finding F4)
  §2h tq_reports_spec                      relocation / array / versym through C18's `TQ.runQuery`
  §3  prefixLoaded_of_load, prefix_secResident, prefix_strings_sound, prefix_symbols_sound   (C17: truncated files)
Each theorem has explicit decidable hypotheses and an `example` on the 744-byte image `exImg`.

Everything is stated for an object in the state `LoadedFrom img o` (Lemmas/LoadedTables.lean): what `load` of
a well-formed image yields, eagerly or lazily, from either stream kind (`LoadedTables.of_load`), after ANY
number of earlier table queries — every theorem returns `LoadedFrom` for the object it leaves, so the
statements compose over query sequences.
-/
import ElfioVerif.Lemmas.LoadedTables
import ElfioVerif.Props.C09
import ElfioVerif.Props.C11
import ElfioVerif.Props.C12
import ElfioVerif.Props.C13
import ElfioVerif.Props.C14
import ElfioVerif.Props.C17
import ElfioVerif.Model.TableQuery
set_option linter.unusedSimpArgs false
set_option linter.unusedVariables false
namespace ElfioVerif.ComposeTables
open Gen C02 Inspect LoadedTables

/-! ### the example image

ELF32 / LSB, 744 bytes: `.strtab` (1), `.symtab` (2, link 1), `.rel.x` (3, link 2), `.rela.x` (4), `.dynamic`
(5, link 1), `.note` (6), `.init_array` (7), `.gnu.version` (8), `.shstrtab` (9); one PT_NOTE segment covering
`.note`.  Built by an independent Python script from the gABI field tables. -/

def exImg : Bytes :=
  [127, 69, 76, 70, 1, 1, 1, 0, 0, 0, 0, 0, 0, 0, 0, 0, 2, 0, 3, 0, 1, 0, 0, 0, 0, 0, 0, 0, 52, 0, 0, 0, 88, 1, 0, 0, 0, 0, 0, 0, 52, 0, 32, 0, 1, 0, 40, 0, 10, 0, 9, 0, 4, 0, 0, 0, 204, 0, 0, 0, 0, 0, 0, 0, 0, 0, 0, 0, 36, 0, 0, 0, 36, 0, 0, 0, 4, 0, 0, 0, 4, 0, 0, 0, 0, 102, 111, 111, 0, 98, 97, 114, 0, 0, 0, 0, 0, 0, 0, 0, 0, 0, 0, 0, 0, 0, 0, 0, 0, 0, 0, 0, 1, 0, 0, 0, 0, 16, 0, 0, 4, 0, 0, 0, 18, 0, 3, 0, 5, 0, 0, 0, 0, 32, 0, 0, 8, 0, 0, 0, 33, 2, 241, 255, 16, 0, 0, 0, 2, 1, 0, 0, 32, 0, 0, 0, 1, 2, 0, 0, 48, 0, 0, 0, 3, 1, 0, 0, 252, 255, 255, 255, 1, 0, 0, 0, 1, 0, 0, 0, 14, 0, 0, 0, 5, 0, 0, 0, 0, 0, 0, 0, 0, 0, 0, 0, 7, 0, 0, 0, 7, 0, 0, 0, 4, 0, 0, 0, 4, 0, 0, 0, 1, 0, 0, 0, 71, 78, 85, 0, 1, 2, 3, 4, 3, 0, 0, 0, 0, 0, 0, 0, 2, 0, 0, 0, 97, 98, 0, 0, 0, 16, 0, 0, 4, 16, 0, 0, 239, 190, 173, 222, 0, 0, 1, 0, 2, 128, 0, 0, 0, 46, 115, 116, 114, 116, 97, 98, 0, 46, 115, 121, 109, 116, 97, 98, 0, 46, 114, 101, 108, 46, 120, 0, 46, 114, 101, 108, 97, 46, 120, 0, 46, 100, 121, 110, 97, 109, 105, 99, 0, 46, 110, 111, 116, 101, 0, 46, 105, 110, 105, 116, 95, 97, 114, 114, 97, 121, 0, 46, 103, 110, 117, 46, 118, 101, 114, 115, 105, 111, 110, 0, 46, 115, 104, 115, 116, 114, 116, 97, 98, 0, 0, 0, 0, 0, 0, 0, 0, 0, 0, 0, 0, 0, 0, 0, 0, 0, 0, 0, 0, 0, 0, 0, 0, 0, 0, 0, 0, 0, 0, 0, 0, 0, 0, 0, 0, 0, 0, 0, 0, 0, 0, 0, 1, 0, 0, 0, 3, 0, 0, 0, 0, 0, 0, 0, 0, 0, 0, 0, 84, 0, 0, 0, 9, 0, 0, 0, 0, 0, 0, 0, 0, 0, 0, 0, 1, 0, 0, 0, 0, 0, 0, 0, 9, 0, 0, 0, 2, 0, 0, 0, 0, 0, 0, 0, 0, 0, 0, 0, 96, 0, 0, 0, 48, 0, 0, 0, 1, 0, 0, 0, 0, 0, 0, 0, 1, 0, 0, 0, 16, 0, 0, 0, 17, 0, 0, 0, 9, 0, 0, 0, 0, 0, 0, 0, 0, 0, 0, 0, 144, 0, 0, 0, 16, 0, 0, 0, 2, 0, 0, 0, 0, 0, 0, 0, 1, 0, 0, 0, 8, 0, 0, 0, 24, 0, 0, 0, 4, 0, 0, 0, 0, 0, 0, 0, 0, 0, 0, 0, 160, 0, 0, 0, 12, 0, 0, 0, 2, 0, 0, 0, 0, 0, 0, 0, 1, 0, 0, 0, 12, 0, 0, 0, 32, 0, 0, 0, 6, 0, 0, 0, 0, 0, 0, 0, 0, 0, 0, 0, 172, 0, 0, 0, 32, 0, 0, 0, 1, 0, 0, 0, 0, 0, 0, 0, 1, 0, 0, 0, 8, 0, 0, 0, 41, 0, 0, 0, 7, 0, 0, 0, 0, 0, 0, 0, 0, 0, 0, 0, 204, 0, 0, 0, 36, 0, 0, 0, 0, 0, 0, 0, 0, 0, 0, 0, 1, 0, 0, 0, 0, 0, 0, 0, 47, 0, 0, 0, 14, 0, 0, 0, 0, 0, 0, 0, 0, 0, 0, 0, 240, 0, 0, 0, 12, 0, 0, 0, 0, 0, 0, 0, 0, 0, 0, 0, 1, 0, 0, 0, 4, 0, 0, 0, 59, 0, 0, 0, 255, 255, 255, 111, 0, 0, 0, 0, 0, 0, 0, 0, 252, 0, 0, 0, 6, 0, 0, 0, 2, 0, 0, 0, 0, 0, 0, 0, 1, 0, 0, 0, 2, 0, 0, 0, 72, 0, 0, 0, 3, 0, 0, 0, 0, 0, 0, 0, 0, 0, 0, 0, 4, 1, 0, 0, 82, 0, 0, 0, 0, 0, 0, 0, 0, 0, 0, 0, 1, 0, 0, 0, 0, 0, 0, 0]

example : WellFormedImage exImg := by decide +kernel
theorem exImg_wf : WellFormedImage exImg := by decide +kernel
example : eh exImg "e_shnum" = 10 ∧ clsOf exImg = .c32 ∧ encOf exImg = .lsb := by decide +kernel

/-! ### 1. every section of the loaded object is ready for the accessors -/

/-- the object-level data request of the table-query model is the inspection interface's -/
theorem settle_eq (o : Obj) (i : Nat) : TQ.settle o i = secResident o i := rfl

/-- **loaded_section_ready** : `load` of a well-formed image (eager or lazy, string- or file-backed stream, no
    address translation) succeeds with everything `C02.LoadSpec` says, and for EVERY section index `i` of
    the image `sections[i]->get_data()` hands the accessors a section that is settled (the accessor models'
    own `get_data()` is the identity), has the image's class, shows the specification's header fields, exposes
    exactly `C02.secFileBytes img i` — the bytes the gABI assigns to section `i` —, has an allocation of
    `size + 1` bytes ending in the loader's NUL, satisfies C08's `Fits`, and, for file-occupying section types,
    C07's invariant `SecBuf.Inv` with `content = secFileBytes img i`; an index beyond `e_shnum` yields the null
    pointer.  The object left behind is again `LoadedFrom img`. -/
theorem loaded_section_ready (img : Bytes) (o0 : Obj) (k : StreamKind) (isLazy : Bool) (htr : o0.trans = [])
    (hwf : WellFormedImage img) :
    ∃ r : LoadRes, load o0 { data := img, kind := k } isLazy = .ok r ∧ LoadSpec img r ∧ LoadedFrom img r.obj ∧
      ∀ o, LoadedFrom img o → ∀ i,
        (eh img "e_shnum" ≤ i → secResident o i = none) ∧
        (i < eh img "e_shnum" → ∃ o1 b1, secResident o i = some (o1, b1) ∧ LoadedFrom img o1 ∧
          SecReady img i b1 ∧ b1.getData = b1 ∧ b1.view = secFileBytes img i ∧ C08.Fits b1 ∧
          (occupiesFile (sh img i "sh_type") = true → b1.Inv ∧ b1.content = secFileBytes img i)) := by
  obtain ⟨r, hr, hs, hL⟩ := of_load img o0 k isLazy htr hwf
  refine ⟨r, hr, hs, hL, ?_⟩
  intro o hL i
  refine ⟨secResident_none img o hL i, ?_⟩
  intro hi
  obtain ⟨o1, b1, h1, h2, h3, _⟩ := secResident_ready img hwf o hL i hi
  exact ⟨o1, b1, h1, h2, h3, h3.getData, h3.view, h3.fits, h3.inv⟩

example (k : StreamKind) (isLazy : Bool) :
    ∃ r : LoadRes, load {} { data := exImg, kind := k } isLazy = .ok r ∧ LoadedFrom exImg r.obj := by
  obtain ⟨r, h1, _, h3, _⟩ := loaded_section_ready exImg {} k isLazy rfl exImg_wf
  exact ⟨r, h1, h3⟩
example : secFileBytes exImg 1 = [0, 0x66, 0x6f, 0x6f, 0, 0x62, 0x61, 0x72, 0] := by decide +kernel

/-! ### 2a. string tables (C08) -/

theorem idxOf_takeWhile (l : Bytes) :
    (match l.idxOf? (0 : UInt8) with | some k => some (l.take k) | none => none) =
      if (l.takeWhile (· != 0)).length < l.length then some (l.takeWhile (· != 0)) else none := by
  induction l with
  | nil => rfl
  | cons a l ih =>
    by_cases ha : a = 0
    · subst ha; simp [List.idxOf?, List.findIdx?_cons]
    · have h1 : (a == 0) = false := by simpa using ha
      have h2 : (a != 0) = true := by simp [bne, h1]
      simp only [List.idxOf?, List.findIdx?_cons, h1, List.takeWhile_cons, h2, if_true, List.length_cons,
        Nat.add_lt_add_iff_right, Bool.false_eq_true, if_false] at ih ⊢
      cases hf : List.findIdx? (fun x => x == 0) l with
      | none => rw [hf] at ih; simp only [Option.map_none] at ih ⊢; split at ih <;> simp_all
      | some k =>
        rw [hf] at ih
        simp only [Option.map_some, List.take_succ_cons] at ih ⊢
        split at ih
        · rename_i hlt; rw [if_pos hlt]; simp only [Option.some.injEq] at ih ⊢; rw [ih]
        · cases ih

/-- the loader-side reference lookup (`Spec.cstrAt`, Spec/Records.lean) and C08's (`Spec.strAt`,
    Spec/StrTab.lean) are the same function -/
theorem cstrAt_eq_strAt (d : Bytes) (i : Nat) : Spec.cstrAt d i = Spec.strAt d i := by
  unfold Spec.cstrAt Spec.strAt Spec.cstr
  by_cases h : i ≥ d.length
  · rw [if_pos h, List.drop_eq_nil_of_le h]; rfl
  · rw [if_neg h]; exact idxOf_takeWhile _

/-- `get_string` of Model/Load.lean (what `inspect` runs) on a ready section -/
theorem getString_ready {img : Bytes} {i : Nat} {b : SecBuf} (h : SecReady img i b) (k : BitVec 32) :
    getString b k = .ok (Spec.strAt (secFileBytes img i) k.toNat) := by
  rw [LoadTie.getString_hand, ← cstrAt_eq_strAt, ← h.view]
  cases hd : b.data with
  | none => simp [SecBuf.view, hd, Spec.cstrAt, pure, Except.pure]
  | some d =>
    have hn := h.nul d hd
    have hl : b.view.length = b.size.toNat := by
      have := h.alloc d hd
      rw [hn] at this; simpa using this
    simp only []
    rw [hn, ← hl]
    exact cstrAt_eq_spec _ _ _

/-- **strings_reports_spec** : for EVERY section index `i` and EVERY 32-bit string index `k`,
    `string_section_accessor(sections[i]).get_string(k)` on the loaded object is the gABI lookup
    `Spec.strAt` in the bytes of `img` in the section's file range: the bytes from `k` up to the first NUL if
    `k` and that NUL lie inside the range, refused (null) otherwise — in particular for every `k ≥ sh_size`,
    for an unterminated tail, and for SHT_NULL / SHT_NOBITS sections (empty range).  Stated for the inspection
    interface's query and for C08's accessor model on the section handed out; `i ≥ e_shnum`: null section. -/
theorem strings_reports_spec (img : Bytes) (hwf : WellFormedImage img) (o : Obj) (hL : LoadedFrom img o)
    (i : Nat) (k : BitVec 32) :
    (eh img "e_shnum" ≤ i → inspect o (.str i k) = .ok (o, .null)) ∧
    (i < eh img "e_shnum" → ∃ o1 b1, secResident o i = some (o1, b1) ∧ LoadedFrom img o1 ∧
      inspect o (.str i k) = .ok (o1, .str (Spec.strAt (secFileBytes img i) k.toNat)) ∧
      StrSec.getString b1 k = .ok (b1, Spec.strAt (secFileBytes img i) k.toNat)) := by
  constructor
  · intro hi
    simp only [inspect, secResident_none img o hL i hi]; rfl
  · intro hi
    obtain ⟨o1, b1, h1, h2, h3, _⟩ := secResident_ready img hwf o hL i hi
    refine ⟨o1, b1, h1, h2, ?_, ?_⟩
    · simp only [inspect, h1, getString_ready h3 k]; rfl
    · unfold StrSec.getString
      rw [h3.getData, C08.getStringCore_eq _ _ h3.fits, h3.view]

example (k : StreamKind) (isLazy : Bool) :
    ∃ r : LoadRes, load {} { data := exImg, kind := k } isLazy = .ok r ∧
      ∀ idx : BitVec 32, ∃ o1, inspect r.obj (.str 1 idx) =
        .ok (o1, .str (Spec.strAt (secFileBytes exImg 1) idx.toNat)) := by
  obtain ⟨r, h1, _, h3⟩ := of_load exImg {} k isLazy rfl exImg_wf
  refine ⟨r, h1, fun idx => ?_⟩
  obtain ⟨o1, _, _, _, h, _⟩ := (strings_reports_spec exImg exImg_wf r.obj h3 1 idx).2 (by decide +kernel)
  exact ⟨o1, h⟩
example : Spec.strAt (secFileBytes exImg 1) 5 = some [0x62, 0x61, 0x72] ∧ Spec.strAt (secFileBytes exImg 1) 9 = none ∧
    Spec.strAt (secFileBytes exImg 1) 6 = some [0x61, 0x72] := by decide +kernel

/-! ### 2b. symbol tables (C09) -/

/-- the section index an accessor derives from `sh_link` : `(Elf_Half) sh_link` -/
def linkIdx (img : Bytes) (i : Nat) : Nat := sh img i "sh_link" % 65536

/-- the bytes of the section `sh_link` names (nothing when it names no section of the file) -/
def linkedBytes (img : Bytes) (i : Nat) : Bytes :=
  if linkIdx img i < eh img "e_shnum" then secFileBytes img (linkIdx img i) else []

/-- table-level well-formedness: if `sh_link` names a section of the file, that section occupies file
    space (e.g. is a string table) -/
def LinkOk (img : Bytes) (i : Nat) : Prop :=
  linkIdx img i < eh img "e_shnum" → occupiesFile (sh img (linkIdx img i) "sh_type") = true

instance (img : Bytes) (i : Nat) : Decidable (LinkOk img i) := by unfold LinkOk; infer_instance

theorem readsAs_ready {img : Bytes} {i : Nat} {b : SecBuf} (h : SecReady img i b)
    (hocc : occupiesFile (sh img i "sh_type") = true) : ReadsAs b (secFileBytes img i) := by
  obtain ⟨hi, hc⟩ := h.inv hocc
  have := readsAs_of_inv hi
  rw [hc] at this
  exact this

theorem ofNat_toNat64 (x : BitVec 64) (n : Nat) (h : x.toNat = n) : x = BitVec.ofNat 64 n := by
  apply BitVec.eq_of_toNat_eq
  have := x.isLt
  simp only [BitVec.toNat_ofNat, Nat.reducePow] at *
  omega

/-- `symbol_section_accessor( elf, sections[i] )` on a loaded object: a table the C09 readers can read
    (`SymTab.Wf`), standing for the file bytes of section `i` and of the section `sh_link` names -/
theorem symSetup_wf (img : Bytes) (hwf : WellFormedImage img) (o : Obj) (hL : LoadedFrom img o) (i : Nat)
    (hi : i < eh img "e_shnum") (hocc : occupiesFile (sh img i "sh_type") = true)
    (hent : sh img i "sh_entsize" = Spec.symSize (clsOf img)) (hlink : LinkOk img i) :
    ∃ o2 t, symSetup o i = some (o2, t) ∧ LoadedFrom img o2 ∧ t.cfg = ⟨clsOf img, encOf img⟩ ∧
      SymTab.Wf t (secFileBytes img i) (linkedBytes img i) := by
  obtain ⟨o1, b1, h1, hL1, hR1, hc1, he1, _⟩ := secResident_ready img hwf o hL i hi
  obtain ⟨h63, _, _, hin⟩ := wf_sec img hwf i hi false
  have hidx : symStrIdx b1 = linkIdx img i := by
    unfold symStrIdx linkIdx
    rw [← hR1.link]
    simp only [BitVec.toNat_setWidth, Nat.reducePow]
  have hent' : ∀ c, c = clsOf img → b1.entSize = BitVec.ofNat 64 (SymTab.symSizeOf c) := by
    intro c hc
    apply ofNat_toNat64
    rw [hR1.entSize, hent, hc, SymTab.symSizeOf_eq]
  have hstream : b1.size.toNat ≤ b1.streamSize.toNat := by
    rw [hR1.streamSize, hR1.size]
    have := hin hocc
    simp only [BitVec.toNat_ofNat, Nat.reducePow]
    omega
  by_cases hl : linkIdx img i < eh img "e_shnum"
  · obtain ⟨o2, s, h2, hL2, hR2, hc2, he2, _⟩ := secResident_ready img hwf o1 hL1 (linkIdx img i) hl
    refine ⟨o2, { cfg := ⟨o2.cls, o2.enc⟩, sym := b1, str := some s, hash := none }, ?_, hL2,
      by rw [hL2.cls, hL2.enc], ⟨hent' _ hL2.cls, hstream, readsAs_ready hR1 hocc, ?_⟩⟩
    · unfold symSetup
      simp only [h1, hidx, h2]
    · simp only [linkedBytes, hl, if_true]
      exact readsAs_ready hR2 (hlink hl)
  · refine ⟨o1, { cfg := ⟨o1.cls, o1.enc⟩, sym := b1, str := none, hash := none }, ?_, hL1,
      by rw [hL1.cls, hL1.enc], ⟨hent' _ hL1.cls, hstream, readsAs_ready hR1 hocc, ?_⟩⟩
    · unfold symSetup
      simp only [h1, hidx, secResident_none img o1 hL1 _ (Nat.le_of_not_lt hl)]
    · simp only [linkedBytes, hl, if_false]

/-- what the gABI says symbol `k` of the table in section `i` is: `get_symbol` succeeds iff record `k` lies
    wholly inside the section; the attributes are the decoded record (`Spec.decodeSym` via `SymTab.recAt`,
    `ELF_ST_BIND` / `ELF_ST_TYPE` of `st_info`), the name is the string at `st_name` in the linked table
    (left empty when there is none) -/
def specSymbol (img : Bytes) (i : Nat) (k : Nat) : SymOut :=
  if k < SymTab.countOf (clsOf img) (secFileBytes img i) then
    ⟨true, (SymTab.nameAt ⟨clsOf img, encOf img⟩ (secFileBytes img i) (linkedBytes img i) k).getD [],
      SymTab.attrsOfRec (SymTab.recAt ⟨clsOf img, encOf img⟩ (secFileBytes img i) k)⟩
  else ⟨false, [], {}⟩

/-- **symbols_reports_spec** : for a section `i` of the file that occupies file space, has the class's
    `sizeof(ElfN_Sym)` as entry size and whose `sh_link` names nothing or a file-occupying section,
    `symbol_section_accessor(elf, sections[i])` on the loaded object reports
    `get_symbols_num() = sh_size / sizeof(Sym)` and, for EVERY 64-bit index `k`, `get_symbol(k, …)` = the gABI
    decoding of record `k` of the section's file bytes with its name from the linked table's file bytes
    (`specSymbol`); `k` beyond the count is refused with the out-parameters untouched. -/
theorem symbols_reports_spec (img : Bytes) (hwf : WellFormedImage img) (o : Obj) (hL : LoadedFrom img o) (i : Nat)
    (hi : i < eh img "e_shnum") (hocc : occupiesFile (sh img i "sh_type") = true)
    (hent : sh img i "sh_entsize" = Spec.symSize (clsOf img)) (hlink : LinkOk img i) (k : BitVec 64) :
    ∃ o2, LoadedFrom img o2 ∧
      inspect o (.symNum i) = .ok (o2, .num (SymTab.countOf (clsOf img) (secFileBytes img i))) ∧
      inspect o (.sym i k) = .ok (o2, .sym (specSymbol img i k.toNat)) := by
  obtain ⟨o2, t, h1, hL2, hcfg, hW⟩ := symSetup_wf img hwf o hL i hi hocc hent hlink
  refine ⟨o2, hL2, ?_, ?_⟩
  · have hlen : SymTab.countOf (clsOf img) (secFileBytes img i) < 18446744073709551616 := by
      have h63 := (wf_sec img hwf i hi false).1
      have hle : SymTab.countOf (clsOf img) (secFileBytes img i) ≤ (secFileBytes img i).length := Nat.div_le_self _ _
      have : (secFileBytes img i).length ≤ img.length := by
        unfold secFileBytes; rw [if_pos hocc]
        simp only [slice, List.length_take, List.length_drop]; omega
      omega
    simp only [inspect, h1, SymTab.symbolsNum_eq hW, hcfg, BitVec.toNat_ofNat, Nat.reducePow]
    rw [Nat.mod_eq_of_lt hlen]; rfl
  · have hg := SymTab.getSymbol_decoded hW k [] {}
    rw [hcfg] at hg
    have hgs : getSym t k = .ok (specSymbol img i k.toNat) := by
      unfold getSym; rw [hg]; dsimp only; unfold specSymbol; split <;> rfl
    simp only [inspect, h1, hgs]; rfl

example (k : StreamKind) (isLazy : Bool) :
    ∃ r : LoadRes, load {} { data := exImg, kind := k } isLazy = .ok r ∧
      ∀ idx : BitVec 64, ∃ o1, inspect r.obj (.sym 2 idx) = .ok (o1, .sym (specSymbol exImg 2 idx.toNat)) := by
  obtain ⟨r, h1, _, h3⟩ := of_load exImg {} k isLazy rfl exImg_wf
  refine ⟨r, h1, fun idx => ?_⟩
  obtain ⟨o1, _, _, h⟩ := symbols_reports_spec exImg exImg_wf r.obj h3 2 (by decide +kernel) (by decide +kernel)
    (by decide +kernel) (by decide +kernel) idx
  exact ⟨o1, h⟩
example : (specSymbol exImg 2 1).ret = true ∧ (specSymbol exImg 2 1).name = [0x66, 0x6f, 0x6f] ∧
    (specSymbol exImg 2 1).attrs.value = 0x1000#64 ∧ (specSymbol exImg 2 1).attrs.size = 4#64 ∧
    (specSymbol exImg 2 1).attrs.bind = 1#8 ∧ (specSymbol exImg 2 1).attrs.typ = 2#8 ∧
    (specSymbol exImg 2 1).attrs.shndx = 3#16 ∧
    (specSymbol exImg 2 2).name = [0x62, 0x61, 0x72] ∧ (specSymbol exImg 2 3).ret = false := by decide +kernel

/-! ### 2c. relocation tables (C11) -/

/-- gABI section types of the two table kinds: SHT_REL = 9, SHT_RELA = 4 -/
def relShType : Spec.RelKind → Nat
  | .rel => 9
  | .rela => 4

theorem stype_of_toNat (t : BitVec 32) (n : Nat) (h : t.toNat = n) : t = BitVec.ofNat 32 n := by
  apply BitVec.eq_of_toNat_eq
  have := t.isLt
  simp only [BitVec.toNat_ofNat, Nat.reducePow] at *
  omega

/-- what the gABI says entry `k` of the relocation table in section `i` is (`none`: there is no such
    entry): the decoding of the `sizeof(Rel/Rela)` bytes at `k * sh_entsize` of the section's file bytes -/
def specReloc (img : Bytes) (i : Nat) (kind : Spec.RelKind) (k : Nat) : Option Spec.RelocEntry :=
  if k < sh img i "sh_size" / sh img i "sh_entsize" then
    some (Spec.decodeEntry ⟨clsOf img, encOf img⟩ kind
      (slice (secFileBytes img i) (k * sh img i "sh_entsize") (Spec.entSize (clsOf img) kind)))
  else none

/-- **reloc_reports_spec** (REL and RELA, both classes, both byte orders): for a section `i` of type
    SHT_REL / SHT_RELA whose entry size is at least the class's `sizeof(ElfN_Rel/Rela)`,
    `relocation_section_accessor(elf, sections[i]).get_entry(k, offset, symbol, type, addend)` on the loaded
    object returns, for EVERY 64-bit `k`: for `k < sh_size / sh_entsize` true with the gABI decoding of record `k`
    of the section's file bytes (r_offset, `ELFn_R_SYM` / `ELFn_R_TYPE` of r_info, r_addend as a signed value,
    0 for REL); for every other `k` false.  The section is not changed. -/
theorem reloc_reports_spec (img : Bytes) (hwf : WellFormedImage img) (o : Obj) (hL : LoadedFrom img o) (i : Nat)
    (hi : i < eh img "e_shnum") (kind : Spec.RelKind) (hty : sh img i "sh_type" = relShType kind)
    (hent : Spec.entSize (clsOf img) kind ≤ sh img i "sh_entsize") (k : BitVec 64) :
    ∃ o1 b1 r, secResident o i = some (o1, b1) ∧ LoadedFrom img o1 ∧
      Reloc.getEntry (encOf img) b1 k = .ok (b1, r) ∧
      r.map Reloc.Entry.toSpec = specReloc img i kind k.toNat := by
  obtain ⟨o1, b1, h1, hL1, hR1, _⟩ := secResident_ready img hwf o hL i hi
  have hocc : occupiesFile (sh img i "sh_type") = true := by rw [hty]; cases kind <;> decide
  obtain ⟨hinv, hcont⟩ := hR1.inv hocc
  have hRS : C11.RelocSec (clsOf img) kind b1 :=
    ⟨hinv, hR1.cls, by
      apply (stype_of_toNat _ _ (hR1.stype.trans hty)).trans
      cases kind <;> rfl, by rw [hR1.entSize]; exact hent⟩
  by_cases hk : k.toNat < sh img i "sh_size" / sh img i "sh_entsize"
  · obtain ⟨e, he, hs⟩ := C11.get_refines (clsOf img) kind (encOf img) b1 hRS k (by rw [hR1.size, hR1.entSize]; exact hk)
    rw [hR1.getData] at he
    refine ⟨o1, b1, some e, h1, hL1, he, ?_⟩
    simp only [Option.map_some, specReloc, hk, if_true, hs, hcont, hR1.entSize]
  · refine ⟨o1, b1, none, h1, hL1, C11.get_invalid (encOf img) b1 k (by rw [hR1.size, hR1.entSize]; omega), ?_⟩
    simp only [Option.map_none, specReloc, hk, if_false]

example (k : StreamKind) (isLazy : Bool) :
    ∃ r : LoadRes, load {} { data := exImg, kind := k } isLazy = .ok r ∧
      ∀ idx : BitVec 64, ∃ o1 b1 e, secResident r.obj 4 = some (o1, b1) ∧
        Reloc.getEntry (encOf exImg) b1 idx = .ok (b1, e) ∧
        e.map Reloc.Entry.toSpec = specReloc exImg 4 .rela idx.toNat := by
  obtain ⟨r, h1, _, h3⟩ := of_load exImg {} k isLazy rfl exImg_wf
  refine ⟨r, h1, fun idx => ?_⟩
  obtain ⟨o1, b1, e, g1, _, g2, g3⟩ := reloc_reports_spec exImg exImg_wf r.obj h3 4 (by decide +kernel) .rela
    (by decide +kernel) (by decide +kernel) idx
  exact ⟨o1, b1, e, g1, g2, g3⟩
example : specReloc exImg 3 .rel 1 = some ⟨0x20, 2, 1, 0⟩ ∧ specReloc exImg 3 .rel 2 = none ∧
    specReloc exImg 4 .rela 0 = some ⟨0x30, 1, 3, -4⟩ := by decide +kernel

/-! ### 2d. dynamic sections (C12) -/

/-- the linked string table as the specification sees it (`none`: `sh_link` names no section of the file) -/
def linkedTable (img : Bytes) (i : Nat) : Option Bytes :=
  if linkIdx img i < eh img "e_shnum" then some (secFileBytes img (linkIdx img i)) else none

/-- `dynamic_section_accessor( elf, sections[i] )` on a loaded object: a consistent accessor (C12's `Good`)
    standing for the file bytes of section `i` and of the string table `sh_link` names -/
theorem dynSetup_good (img : Bytes) (hwf : WellFormedImage img) (o : Obj) (hL : LoadedFrom img o) (i : Nat)
    (hi : i < eh img "e_shnum") (hocc : occupiesFile (sh img i "sh_type") = true)
    (hent : sh img i "sh_entsize" = Spec.dynSize (clsOf img)) (hlink : LinkOk img i) :
    ∃ o2 a, dynSetup o i = some (o2, a) ∧ LoadedFrom img o2 ∧ a.cfg = ⟨clsOf img, encOf img⟩ ∧
      C12.Good a (secFileBytes img i) (linkedTable img i) := by
  obtain ⟨o1, b1, h1, hL1, hR1, _⟩ := secResident_ready img hwf o hL i hi
  obtain ⟨hinv, hcont⟩ := hR1.inv hocc
  have hidx : dynStrIdx b1 = linkIdx img i := by
    unfold dynStrIdx linkIdx dyn_strtab_index
    rw [← hR1.link]
    simp only [BitVec.toNat_setWidth, Nat.reducePow]
  have hent' : b1.entSize = BitVec.ofNat 64 (Spec.dynSize (clsOf img)) :=
    ofNat_toNat64 _ _ (by rw [hR1.entSize, hent])
  by_cases hl : linkIdx img i < eh img "e_shnum"
  · obtain ⟨o2, s, h2, hL2, hR2, _⟩ := secResident_ready img hwf o1 hL1 (linkIdx img i) hl
    obtain ⟨sinv, scont⟩ := hR2.inv (hlink hl)
    refine ⟨o2, mkDyn o2 b1 (some s), ?_, hL2, by simp [mkDyn, hL2.cls, hL2.enc], ⟨⟨hinv, hcont, ?_, ?_, ?_⟩, Or.inl rfl⟩⟩
    · unfold dynSetup
      simp only [h1, hidx, h2]
    · simp [mkDyn, hR1.cls, hL2.cls]
    · simp only [mkDyn, hL2.cls]; exact hent'
    · simp only [mkDyn, linkedTable, hl, if_true, C12.StrOk]; exact ⟨sinv, scont⟩
  · refine ⟨o1, mkDyn o1 b1 none, ?_, hL1, by simp [mkDyn, hL1.cls, hL1.enc], ⟨⟨hinv, hcont, ?_, ?_, ?_⟩, Or.inl rfl⟩⟩
    · unfold dynSetup
      simp only [h1, hidx, secResident_none img o1 hL1 _ (Nat.le_of_not_lt hl)]
    · simp [mkDyn, hR1.cls, hL1.cls]
    · simp only [mkDyn, hL1.cls]; exact hent'
    · simp only [mkDyn, linkedTable, hl, if_false, C12.StrOk]

/-- the records of the dynamic section `i` as the gABI reads them from the file bytes -/
def specDynEntries (img : Bytes) (i : Nat) : List Spec.DynEntry :=
  Spec.entriesOf ⟨clsOf img, encOf img⟩ (secFileBytes img i)

/-- **dynamic_reports_spec** : for a section `i` that occupies file space, has the class's
    `sizeof(ElfN_Dyn)` as entry size and whose `sh_link` names nothing or a file-occupying section,
    `dynamic_section_accessor(elf, sections[i])` on the loaded object reports
    `get_entries_num() = min(sh_size / sizeof(Dyn), index of the first DT_NULL + 1)` of the records decoded from
    the section's file bytes, and, for EVERY 64-bit `k`, `get_entry(k, tag, value, str)` = the reference read-out
    `Spec.dynGet` of those records: entry `k` below the count (tag sign-extended from the class width, `d_un`,
    the string at `d_un` in the linked table's file bytes for string-valued tags), refused at and beyond it. -/
theorem dynamic_reports_spec (img : Bytes) (hwf : WellFormedImage img) (o : Obj) (hL : LoadedFrom img o) (i : Nat)
    (hi : i < eh img "e_shnum") (hocc : occupiesFile (sh img i "sh_type") = true)
    (hent : sh img i "sh_entsize" = Spec.dynSize (clsOf img)) (hlink : LinkOk img i) (k : BitVec 64) :
    ∃ o2 r, LoadedFrom img o2 ∧
      inspect o (.dynNum i) = .ok (o2, .num (Spec.dynCount (specDynEntries img i))) ∧
      Spec.dynCount (specDynEntries img i) =
        min ((secFileBytes img i).length / Spec.dynSize (clsOf img)) (Spec.firstNull (specDynEntries img i) + 1) ∧
      inspect o (.dyn i k) = .ok (o2, .dyn r) ∧
      C12.outOf r = Spec.dynGet (specDynEntries img i) (linkedTable img i) k.toNat := by
  obtain ⟨o2, a, h1, hL2, hcfg, hG⟩ := dynSetup_good img hwf o hL i hi hocc hent hlink
  obtain ⟨a1, n, hn, _, _, _, hnv⟩ := C12.entriesNum_ok a _ _ hG
  obtain ⟨a2, r, hg, _, _, hout⟩ := C12.getEntry_ok a _ _ hG k
  rw [hcfg] at hnv hout
  refine ⟨o2, r, hL2, ?_, ?_, ?_, hout⟩
  · simp only [inspect, h1, hn, hnv, specDynEntries]; rfl
  · unfold Spec.dynCount specDynEntries
    simp [Spec.entriesOf]
  · simp only [inspect, h1, hg]; rfl

example (k : StreamKind) (isLazy : Bool) :
    ∃ r : LoadRes, load {} { data := exImg, kind := k } isLazy = .ok r ∧
      ∀ idx : BitVec 64, ∃ o1 g, inspect r.obj (.dyn 5 idx) = .ok (o1, .dyn g) ∧
        C12.outOf g = Spec.dynGet (specDynEntries exImg 5) (linkedTable exImg 5) idx.toNat := by
  obtain ⟨r, h1, _, h3⟩ := of_load exImg {} k isLazy rfl exImg_wf
  refine ⟨r, h1, fun idx => ?_⟩
  obtain ⟨o1, g, _, _, _, g1, g2⟩ := dynamic_reports_spec exImg exImg_wf r.obj h3 5 (by decide +kernel)
    (by decide +kernel) (by decide +kernel) (by decide +kernel) idx
  exact ⟨o1, g, g1, g2⟩
/-- four records in the file, the third is DT_NULL: three are reported; DT_NEEDED resolves through `.strtab` -/
example : Spec.dynCount (specDynEntries exImg 5) = 3 ∧
    Spec.dynGet (specDynEntries exImg 5) (linkedTable exImg 5) 0 = .ok 1 1 [0x66, 0x6f, 0x6f] ∧
    Spec.dynGet (specDynEntries exImg 5) (linkedTable exImg 5) 3 = .invalid := by decide +kernel

/-! ### 2e. notes (C13): section accessor and PT_NOTE segment accessor -/

theorem noteStarts_length (e : Enc) (ns : List Spec.Note) : ∀ base, (Spec.noteStarts e base ns).length = ns.length := by
  induction ns with
  | nil => intro _; rfl
  | cons n ns ih => intro base; simp [Spec.noteStarts, ih]

/-- what `get_note(k)` must hand back when the source holds the notes `ns` -/
def specNote (ns : List Spec.Note) (k : Nat) : Option NoteOut :=
  if h : k < ns.length then some (C13.outOf ns[k]) else none

/-- the note accessor on a source whose visible bytes are the gABI encoding of the notes `ns` -/
theorem note_source_reports (e : Enc) (src : NoteSrc) (h : C13.SrcOk src) (hs : src.size.toNat ≤ 4294967293)
    (ns : List Spec.Note) (hf : ∀ n ∈ ns, n.Fits) (hv : C13.NoteSrc.view src = Spec.encodeNotes e ns) :
    ∃ pos, Note.process e src = .ok pos ∧ (Note.num pos).toNat = ns.length ∧
      ∀ k : BitVec 32, Note.get e src pos k = .ok (specNote ns k.toNat) := by
  obtain ⟨pos, hp, hm⟩ := C13.walker_positions e src h hs ns hf hv
  obtain ⟨g1, g2⟩ := C13.get_of_starts e src h hs ns hf hv pos hm
  refine ⟨pos, hp, g1, ?_⟩
  intro k
  have hpl : pos.length = ns.length := by
    have := congrArg List.length hm
    simpa [noteStarts_length] using this
  unfold specNote
  by_cases hk : k.toNat < ns.length
  · rw [dif_pos hk]
    have := g2 k.toNat hk
    rwa [BitVec.ofNat_toNat, BitVec.setWidth_eq] at this
  · rw [dif_neg hk]
    exact C13.get_note_absent e src pos k (by omega)

/-- **notes_reports_spec** (section accessor): for a section `i` of at most 2^32-3 bytes whose file bytes
    are the gABI encoding of a sequence of notes `ns` (each with 32-bit fields; `hbytes` is decidable for a given
    `ns`), `note_section_accessor(elf, sections[i])` on the loaded object reports `get_notes_num() = |ns|` and, for
    EVERY 32-bit `k`, `get_note(k, type, name, desc, descSize)` = type, name (without terminator) and descriptor
    (null pointer when empty) of the `k`-th note; every `k ≥ |ns|` is refused. -/
theorem notes_reports_spec (img : Bytes) (hwf : WellFormedImage img) (o : Obj) (hL : LoadedFrom img o) (i : Nat)
    (hi : i < eh img "e_shnum") (ns : List Spec.Note) (hf : ∀ n ∈ ns, n.Fits)
    (hbytes : secFileBytes img i = Spec.encodeNotes (encOf img) ns) (hsz : sh img i "sh_size" ≤ 4294967293)
    (k : BitVec 32) :
    ∃ o1, LoadedFrom img o1 ∧ inspect o (.noteNum i) = .ok (o1, .num ns.length) ∧
      inspect o (.note i k) = .ok (o1, .note (specNote ns k.toNat)) := by
  obtain ⟨o1, b1, h1, hL1, hR1, _, he1, _⟩ := secResident_ready img hwf o hL i hi
  have hok : C13.SrcOk b1.noteSrc := by
    intro a ha
    have := hR1.alloc a ha
    simp only [SecBuf.noteSrc] at *
    omega
  have hv : C13.NoteSrc.view b1.noteSrc = Spec.encodeNotes (encOf img) ns := by
    rw [← hbytes, ← hR1.view]; rfl
  obtain ⟨pos, hp, hn, hg⟩ := note_source_reports (encOf img) b1.noteSrc hok
    (by simp only [SecBuf.noteSrc]; rw [hR1.size]; exact hsz) ns hf hv
  have henc : o1.enc = encOf img := hL1.enc
  refine ⟨o1, hL1, ?_, ?_⟩
  · simp only [inspect, h1, henc, hp, hn]; rfl
  · simp only [inspect, h1, henc, hp, hg k]; rfl

/-- **segment_notes_reports_spec** (PT_NOTE segment accessor): the same for
    `note_segment_accessor(elf, segments[j])` and the bytes of `img` in the segment's file range
    (`C02.segFileBytes img j` = `slice img p_offset p_filesz`).  `SegsFrom img o` is the segment side of a loaded
    object (`LoadedTables.segs_of_load`); it is kept by segment data requests (returned here) and by section data
    requests (`SegsFrom.of_segs_eq`: they do not touch the segments) -/
theorem segment_notes_reports_spec (img : Bytes) (o : Obj) (hL : LoadedFrom img o) (hS : SegsFrom img o) (j : Nat)
    (hj : j < eh img "e_phnum") (ns : List Spec.Note) (hf : ∀ n ∈ ns, n.Fits)
    (hbytes : segFileBytes img j = Spec.encodeNotes (encOf img) ns) (hsz : ph img j "p_filesz" ≤ 4294967293)
    (k : BitVec 32) :
    ∃ o1, LoadedFrom img o1 ∧ SegsFrom img o1 ∧ inspect o (.segNoteNum j) = .ok (o1, .num ns.length) ∧
      inspect o (.segNote j k) = .ok (o1, .note (specNote ns k.toNat)) := by
  obtain ⟨o1, g1, h1, hL1, hS1, _, hfs, hd, hlen⟩ := segResident_ready img o hL hS j hj
  have hok : C13.SrcOk (segNoteSrc g1) := fun a ha => hlen a ha
  have hv : C13.NoteSrc.view (segNoteSrc g1) = Spec.encodeNotes (encOf img) ns := by
    rw [← hbytes, ← hd]; rfl
  obtain ⟨pos, hp, hn, hg⟩ := note_source_reports (encOf img) (segNoteSrc g1) hok
    (by simp only [segNoteSrc]; rw [hfs]; exact hsz) ns hf hv
  have henc : o1.enc = encOf img := hL1.enc
  refine ⟨o1, hL1, hS1, ?_, ?_⟩
  · simp only [inspect, h1, henc, hp, hn]; rfl
  · simp only [inspect, h1, henc, hp, hg k]; rfl

/-- the two notes of the example image: ("GNU", 01 02 03 04, type 1) and ("ab", no descriptor, type 2) -/
def exNotes : List Spec.Note := [⟨1, [0x47, 0x4e, 0x55], [1, 2, 3, 4]⟩, ⟨2, [0x61, 0x62], []⟩]

example (k : StreamKind) (isLazy : Bool) :
    ∃ r : LoadRes, load {} { data := exImg, kind := k } isLazy = .ok r ∧
      ∀ idx : BitVec 32, (∃ o1, inspect r.obj (.note 6 idx) = .ok (o1, .note (specNote exNotes idx.toNat))) ∧
        (∃ o1, inspect r.obj (.segNote 0 idx) = .ok (o1, .note (specNote exNotes idx.toNat))) := by
  obtain ⟨r, h1, h2, h3⟩ := of_load exImg {} k isLazy rfl exImg_wf
  have h4 := segs_of_load exImg {} k isLazy rfl r h1 h2
  refine ⟨r, h1, fun idx => ⟨?_, ?_⟩⟩
  · obtain ⟨o1, _, _, h⟩ := notes_reports_spec exImg exImg_wf r.obj h3 6 (by decide +kernel) exNotes (by decide)
      (by decide +kernel) (by decide +kernel) idx
    exact ⟨o1, h⟩
  · obtain ⟨o1, _, _, _, h⟩ := segment_notes_reports_spec exImg r.obj h3 h4 0 (by decide +kernel) exNotes (by decide)
      (by decide +kernel) (by decide +kernel) idx
    exact ⟨o1, h⟩
example : specNote exNotes 1 = some ⟨2#32, [0x61, 0x62], none, 0#32⟩ ∧ specNote exNotes 2 = none := by decide

/-! ### 2f. arrays (C14: `.init_array`, `.fini_array`, `.preinit_array`, …) -/

/-- the entries of a table of `w`-byte integers, decoded from its bytes in the declared byte order -/
def decodeArr (e : Enc) (w : Nat) (c : Bytes) : List Nat :=
  (List.range (c.length / w)).map fun k => decodeInt e (slice c (k * w) w)

theorem encodeArr_of_fn (e : Enc) (w : Nat) (hw : 0 < w) :
    ∀ (n : Nat) (c : Bytes), c.length = n * w →
      Spec.encodeArrTable e w ((List.range n).map fun k => decodeInt e (slice c (k * w) w)) = c := by
  intro n
  induction n with
  | zero =>
    intro c hc
    have : c = [] := List.eq_nil_of_length_eq_zero (by simpa using hc)
    subst this; rfl
  | succ n ih =>
    intro c hc
    have hl : w ≤ c.length := by rw [hc, Nat.succ_mul]; omega
    rw [List.range_succ_eq_map, List.map_cons, List.map_map, Spec.encodeArrTable]
    have h0 : slice c (0 * w) w = c.take w := by simp [slice]
    have htl : (c.take w).length = w := by simp; omega
    have e1 : encodeInt e w (decodeInt e (c.take w)) = c.take w := by
      have := encode_decodeInt e (c.take w); rwa [htl] at this
    have e2 : (List.range n).map ((fun k => decodeInt e (slice c (k * w) w)) ∘ Nat.succ) =
        (List.range n).map fun k => decodeInt e (slice (c.drop w) (k * w) w) := by
      apply List.map_congr_left
      intro k _
      simp only [Function.comp, slice, List.drop_drop]
      congr 3
      rw [Nat.succ_mul]; omega
    rw [h0, e1, e2, ih (c.drop w) (by simp [hc, Nat.succ_mul])]
    exact List.take_append_drop w c

theorem encode_decodeArr (e : Enc) (w : Nat) (hw : 0 < w) (c : Bytes) (h : c.length % w = 0) :
    Spec.encodeArrTable e w (decodeArr e w c) = c :=
  encodeArr_of_fn e w hw (c.length / w) c (by have := Nat.div_add_mod c.length w; rw [h] at this; rw [Nat.mul_comm]; omega)

theorem decodeInt_lt (e : Enc) (bs : Bytes) : decodeInt e bs < 2 ^ (8 * bs.length) := by
  cases e
  · exact leDecode_lt bs
  · have := leDecode_lt bs.reverse; simpa [decodeInt, beDecode] using this

theorem decodeArr_get (e : Enc) (w : Nat) (hw : 0 < w) (c : Bytes) (h : c.length % w = 0) (k : Nat) :
    (if hk : k < (decodeArr e w c).length then some ((decodeArr e w c)[k] % 2 ^ (8 * w)) else none) =
      Spec.tableEntry e w c k := by
  have hlen : (decodeArr e w c).length = c.length / w := by simp [decodeArr]
  unfold Spec.tableEntry
  have hiff : k < c.length / w ↔ (k + 1) * w ≤ c.length := by
    rw [Nat.lt_iff_add_one_le, Nat.le_div_iff_mul_le hw]
  by_cases hk : k < c.length / w
  · rw [dif_pos (by rw [hlen]; exact hk), if_pos (hiff.mp hk)]
    simp only [decodeArr, List.getElem_map, List.getElem_range]
    have hb := decodeInt_lt e (slice c (k * w) w)
    have hsl : (slice c (k * w) w).length = w := slice_length_of_le (by have := hiff.mp hk; rw [Nat.add_mul] at this; omega)
    rw [hsl] at hb
    rw [Nat.mod_eq_of_lt hb]
  · rw [dif_neg (by rw [hlen]; exact hk), if_neg (fun h => hk (hiff.mpr h))]

/-- **array_reports_spec** : for a file-occupying section `i` whose size is a whole number of `w`-byte
    entries (`w` = 4 or 8, the accessor's template parameter, independent of the ELF class),
    `array_section_accessor<w>(elf, sections[i]).get_entry(k, address)` on the loaded object is, for EVERY 64-bit
    `k`, the `k`-th `w`-byte integer of the section's file bytes in the file's byte order
    (`Spec.tableEntry`), and false for every `k` at or beyond `sh_size / w`. -/
theorem array_reports_spec (img : Bytes) (hwf : WellFormedImage img) (o : Obj) (hL : LoadedFrom img o) (i : Nat)
    (hi : i < eh img "e_shnum") (hocc : occupiesFile (sh img i "sh_type") = true) (w : Arr.W)
    (hwhole : sh img i "sh_size" % w.bytes = 0) (k : BitVec 64) :
    ∃ o1 b1, secResident o i = some (o1, b1) ∧ LoadedFrom img o1 ∧
      Arr.getEntry w (encOf img) b1 k =
        .ok ((Spec.tableEntry (encOf img) w.bytes (secFileBytes img i) k.toNat).map (BitVec.ofNat 64)) := by
  obtain ⟨o1, b1, h1, hL1, hR1, _⟩ := secResident_ready img hwf o hL i hi
  obtain ⟨hinv, hcont⟩ := hR1.inv hocc
  have hw : 0 < w.bytes := by cases w <;> decide
  have hlen := hR1.fileBytes_length hwf hi hocc
  have henc := encode_decodeArr (encOf img) w.bytes hw (secFileBytes img i) (by rw [hlen]; exact hwhole)
  have hg := C14.array_get w (encOf img) b1 hinv (decodeArr (encOf img) w.bytes (secFileBytes img i))
    (by rw [hcont, henc]) k
  refine ⟨o1, b1, h1, hL1, ?_⟩
  rw [hg, ← decodeArr_get (encOf img) w.bytes hw _ (by rw [hlen]; exact hwhole)]
  split <;> rfl

example (k : StreamKind) (isLazy : Bool) :
    ∃ r : LoadRes, load {} { data := exImg, kind := k } isLazy = .ok r ∧
      ∀ idx : BitVec 64, ∃ o1 b1, secResident r.obj 7 = some (o1, b1) ∧ Arr.getEntry .w4 (encOf exImg) b1 idx =
        .ok ((Spec.tableEntry (encOf exImg) 4 (secFileBytes exImg 7) idx.toNat).map (BitVec.ofNat 64)) := by
  obtain ⟨r, h1, _, h3⟩ := of_load exImg {} k isLazy rfl exImg_wf
  refine ⟨r, h1, fun idx => ?_⟩
  obtain ⟨o1, b1, g1, _, g2⟩ := array_reports_spec exImg exImg_wf r.obj h3 7 (by decide +kernel) (by decide +kernel)
    .w4 (by decide +kernel) idx
  exact ⟨o1, b1, g1, g2⟩
example : Spec.tableEntry (encOf exImg) 4 (secFileBytes exImg 7) 2 = some 0xdeadbeef ∧
    Spec.tableEntry (encOf exImg) 4 (secFileBytes exImg 7) 3 = none := by decide +kernel

/-! ### 2g. symbol-version indices (C14: `.gnu.version`) -/

/-- **versym_reports_spec** : for a file-occupying section `i` that is a whole number (< 2^32) of `Elf_Half`
    entries, `versym_section_accessor(sections[i]).get_entry(k, value)` on the loaded object is, for EVERY 32-bit
    `k`, the `k`-th half-word of the section's file bytes, and false at and beyond `sh_size / 2` — PROVIDED the
    file's byte order is the host's (`hhost`).  That hypothesis cannot be discharged from `WellFormedImage`: the
    accessor has no convertor (open finding F4, `C14.versym_read_witness`: a big-endian file is read
    byte-swapped on this host). -/
theorem versym_reports_spec (img : Bytes) (hwf : WellFormedImage img) (o : Obj) (hL : LoadedFrom img o) (i : Nat)
    (hi : i < eh img "e_shnum") (hocc : occupiesFile (sh img i "sh_type") = true)
    (hwhole : sh img i "sh_size" % 2 = 0) (h32 : sh img i "sh_size" / 2 < 4294967296)
    (hhost : encOf img = C14.hostEnc) (k : BitVec 32) :
    ∃ o1 b1, secResident o i = some (o1, b1) ∧ LoadedFrom img o1 ∧
      Versym.getEntry b1 (Versym.mk b1) k =
        .ok ((Spec.tableEntry (encOf img) 2 (secFileBytes img i) k.toNat).map (BitVec.ofNat 16)) := by
  obtain ⟨o1, b1, h1, hL1, hR1, _⟩ := secResident_ready img hwf o hL i hi
  obtain ⟨hinv, hcont⟩ := hR1.inv hocc
  have hlen := hR1.fileBytes_length hwf hi hocc
  have henc := encode_decodeArr (encOf img) 2 (by decide) (secFileBytes img i) (by rw [hlen]; exact hwhole)
  have hmk : (Versym.mk b1).toNat = (decodeArr (encOf img) 2 (secFileBytes img i)).length := by
    simp only [Versym.mk, vs_ctor_guard, if_true, vs_count, BitVec.toNat_setWidth, BitVec.toNat_udiv,
      BitVec.toNat_ofNat, Nat.reducePow, Nat.reduceMod, decodeArr, List.length_map, List.length_range, hlen,
      hR1.size]
    omega
  have hg := C14.versym_get b1 hinv (Versym.mk b1) (decodeArr (encOf img) 2 (secFileBytes img i))
    (by rw [hcont, ← hhost, henc]) hmk k
  refine ⟨o1, b1, h1, hL1, ?_⟩
  rw [hg, ← decodeArr_get (encOf img) 2 (by decide) _ (by rw [hlen]; exact hwhole)]
  split <;> rfl

example (k : StreamKind) (isLazy : Bool) :
    ∃ r : LoadRes, load {} { data := exImg, kind := k } isLazy = .ok r ∧
      ∀ idx : BitVec 32, ∃ o1 b1, secResident r.obj 8 = some (o1, b1) ∧ Versym.getEntry b1 (Versym.mk b1) idx =
        .ok ((Spec.tableEntry (encOf exImg) 2 (secFileBytes exImg 8) idx.toNat).map (BitVec.ofNat 16)) := by
  obtain ⟨r, h1, _, h3⟩ := of_load exImg {} k isLazy rfl exImg_wf
  refine ⟨r, h1, fun idx => ?_⟩
  obtain ⟨o1, b1, g1, _, g2⟩ := versym_reports_spec exImg exImg_wf r.obj h3 8 (by decide +kernel) (by decide +kernel)
    (by decide +kernel) (by decide +kernel) (by decide +kernel) idx
  exact ⟨o1, b1, g1, g2⟩
example : Spec.tableEntry (encOf exImg) 2 (secFileBytes exImg 8) 2 = some 0x8002 ∧
    Spec.tableEntry (encOf exImg) 2 (secFileBytes exImg 8) 3 = none := by decide +kernel

/-! ### 2h. the same read-outs through C18's query model `TQ.runQuery`

`TQ.runQuery` (Model/TableQuery.lean; what the `load` family's driver executes for relocation / array / versym
queries on a loaded file) wraps the accessor families' functions in the null-data guards of the C18 fixes.  On a
section that `secResident` hands out for a file-occupying type the guards are false, so the answers are those of
§2c, 2f, 2g. -/

open Reloc in
theorem tq_relGet_eq (c : Cls) (kind : Spec.RelKind) (enc : Enc) (b b' : SecBuf) (r : Option Reloc.Entry)
    (hR : C11.RelocSec c kind b) (hdata : (secData b).isNone = false) (k : BitVec 64)
    (h : Reloc.getEntry enc b k = .ok (b', r)) : TQ.relGet enc b k = .ok r := by
  by_cases hidx : k.toNat < b.size.toNat / b.entSize.toNat
  · rw [C11.getEntry_dispatch c kind enc b hR.cls hR.stype k hidx] at h
    have hn : reloc_get_idx_oob k (entriesNumV b) = false := by
      rw [get_idx_oob, entriesNumV_toNat]; simp; omega
    have hsm : (opsOf c kind).entsizeSmall b.entSize = false := by
      have := ((opsOk c kind).entsizeSmall b.entSize)
      cases hx : (opsOf c kind).entsizeSmall b.entSize
      · rfl
      · have := this.mp hx; rw [(opsOk c kind).size] at this; have := hR.entSize; omega
    have hgen : ∀ nodata : Bool → Bool, (∀ x, nodata x = x) →
        TQ.relGetGeneric (opsOf c kind) nodata enc b k = .ok r := by
      intro nodata hnd
      unfold TQ.relGetGeneric
      simp only [hsm, hnd, hdata, Bool.false_eq_true, if_false, h]; rfl
    unfold TQ.relGet
    simp only [entriesNum_ok, hn, Bool.false_eq_true, if_false, hR.cls, hR.stype]
    cases c <;> cases kind <;>
      simp only [is32_c32.1, is32_c64.1, shtOf, reloc_get_is_rel32, reloc_get_is_rela32, reloc_get_is_rel64,
        reloc_get_is_rela64, sht_rel_ne_rela, sht_rel_ne_rela.symm, beq_self_eq_true, if_true, Bool.false_eq_true,
        if_false, beq_eq_false_iff_ne.mpr sht_rel_ne_rela, beq_eq_false_iff_ne.mpr sht_rel_ne_rela.symm]
    · exact hgen _ (fun _ => rfl)
    · exact hgen _ (fun _ => rfl)
    · exact hgen _ (fun _ => rfl)
    · exact hgen _ (fun _ => rfl)
  · have hn : reloc_get_idx_oob k (entriesNumV b) = true := by
      rw [get_idx_oob, entriesNumV_toNat]; simpa using Nat.le_of_not_lt hidx
    rw [C11.get_invalid enc b k (Nat.le_of_not_lt hidx)] at h
    simp only [Except.ok.injEq, Prod.mk.injEq] at h
    unfold TQ.relGet
    simp only [entriesNum_ok, hn, if_true, ← h.2]; rfl

/-- **reloc / array / versym through `TQ.runQuery`** : the table queries of C18's model on the loaded object
    return the specification's values of §2c, 2f, 2g (same hypotheses) -/
theorem tq_reports_spec (img : Bytes) (hwf : WellFormedImage img) (o : Obj) (hL : LoadedFrom img o) (i : Nat)
    (hi : i < eh img "e_shnum") (hocc : occupiesFile (sh img i "sh_type") = true) :
    (∀ (kind : Spec.RelKind) (k : BitVec 64), sh img i "sh_type" = relShType kind →
      Spec.entSize (clsOf img) kind ≤ sh img i "sh_entsize" →
      ∃ o1 r, TQ.runQuery o (.relGet i k) = .ok (o1, .rel r) ∧ LoadedFrom img o1 ∧
        r.map Reloc.Entry.toSpec = specReloc img i kind k.toNat) ∧
    (∀ (w : Arr.W) (k : BitVec 64), sh img i "sh_size" % w.bytes = 0 →
      ∃ o1, TQ.runQuery o (.arrGet w i k) =
        .ok (o1, .addr ((Spec.tableEntry (encOf img) w.bytes (secFileBytes img i) k.toNat).map (BitVec.ofNat 64))) ∧
        LoadedFrom img o1) ∧
    (∀ k : BitVec 32, sh img i "sh_size" % 2 = 0 → sh img i "sh_size" / 2 < 4294967296 → encOf img = C14.hostEnc →
      ∃ o1, TQ.runQuery o (.versymGet i k) =
        .ok (o1, .half ((Spec.tableEntry (encOf img) 2 (secFileBytes img i) k.toNat).map (BitVec.ofNat 16))) ∧
        LoadedFrom img o1) := by
  -- the section every one of the three queries settles first
  obtain ⟨o1, b1, h1, hL1, hR1, _⟩ := secResident_ready img hwf o hL i hi
  have hs : TQ.settle o i = some (o1, b1) := h1
  have hdata : (secData b1).isNone = false := by
    unfold secData; rw [hR1.getData]
    have := (hR1.resident hocc).2
    cases hd : b1.data <;> simp_all
  refine ⟨?_, ?_, ?_⟩
  · intro kind k hty hent
    obtain ⟨o1', b1', r, g1, _, g2, g3⟩ := reloc_reports_spec img hwf o hL i hi kind hty hent k
    rw [h1] at g1
    simp only [Option.some.injEq, Prod.mk.injEq] at g1
    obtain ⟨rfl, rfl⟩ := g1
    obtain ⟨hinv, _⟩ := hR1.inv hocc
    have hRS : C11.RelocSec (clsOf img) kind b1 :=
      ⟨hinv, hR1.cls, by
        apply (stype_of_toNat _ _ (hR1.stype.trans hty)).trans
        cases kind <;> rfl, by rw [hR1.entSize]; exact hent⟩
    have := tq_relGet_eq (clsOf img) kind (encOf img) b1 b1 r hRS hdata k g2
    refine ⟨o1, r, ?_, hL1, g3⟩
    simp only [TQ.runQuery, hs, hL.enc, this, TQ.liftQ]; rfl
  · intro w k hwhole
    obtain ⟨o1', b1', g1, _, g2⟩ := array_reports_spec img hwf o hL i hi hocc w hwhole k
    rw [h1] at g1
    simp only [Option.some.injEq, Prod.mk.injEq] at g1
    obtain ⟨rfl, rfl⟩ := g1
    refine ⟨o1, ?_, hL1⟩
    have hq : TQ.arrGet w (encOf img) b1 k =
        .ok ((Spec.tableEntry (encOf img) w.bytes (secFileBytes img i) k.toNat).map (BitVec.ofNat 64)) := by
      unfold TQ.arrGet
      cases w
      · by_cases hg : arr32_get_guard k (Arr.entriesNum .w4 b1) = true
        · simp only [hg, if_true]
          rw [← g2]; simp only [Arr.getEntry, hg, if_true]
        · simp only [hg, Bool.false_eq_true, if_false, tq_arr32_nodata, hdata, g2]
      · by_cases hg : arr64_get_guard k (Arr.entriesNum .w8 b1) = true
        · simp only [hg, if_true]
          rw [← g2]; simp only [Arr.getEntry, hg, if_true]
        · simp only [hg, Bool.false_eq_true, if_false, tq_arr64_nodata, hdata, g2]
    simp only [TQ.runQuery, hs, hL.enc, hq, TQ.liftQ]; rfl
  · intro k hwhole h32 hhost
    obtain ⟨o1', b1', g1, _, g2⟩ := versym_reports_spec img hwf o hL i hi hocc hwhole h32 hhost k
    rw [h1] at g1
    simp only [Option.some.injEq, Prod.mk.injEq] at g1
    obtain ⟨rfl, rfl⟩ := g1
    refine ⟨o1, ?_, hL1⟩
    have hq : TQ.versymGet b1 (Versym.mk b1) k =
        .ok ((Spec.tableEntry (encOf img) 2 (secFileBytes img i) k.toNat).map (BitVec.ofNat 16)) := by
      unfold TQ.versymGet
      by_cases hg : vs_get_guard true k (Versym.entriesNum (Versym.mk b1)) = true
      · simp only [hg, if_true, tq_vs_nodata, hdata, Bool.false_eq_true, if_false, g2]
      · simp only [hg, Bool.false_eq_true, if_false]
        rw [← g2]; simp only [Versym.getEntry, hg, Bool.false_eq_true, if_false]
    simp only [TQ.runQuery, hs, hq, TQ.liftQ]; rfl

example (k : StreamKind) (isLazy : Bool) :
    ∃ r : LoadRes, load {} { data := exImg, kind := k } isLazy = .ok r ∧
      ∀ idx : BitVec 64, ∃ o1 e, TQ.runQuery r.obj (.relGet 3 idx) = .ok (o1, .rel e) ∧
        e.map Reloc.Entry.toSpec = specReloc exImg 3 .rel idx.toNat := by
  obtain ⟨r, h1, _, h3⟩ := of_load exImg {} k isLazy rfl exImg_wf
  refine ⟨r, h1, fun idx => ?_⟩
  obtain ⟨o1, e, g1, _, g2⟩ := (tq_reports_spec exImg exImg_wf r.obj h3 3 (by decide +kernel) (by decide +kernel)).1
    .rel idx (by decide +kernel) (by decide +kernel)
  exact ⟨o1, e, g1, g2⟩

/-! ### section queries do not touch the segments (so `SegsFrom` survives them) -/

theorem secResident_segs {o : Obj} {i : Nat} {o1 : Obj} {b1 : SecBuf} (h : secResident o i = some (o1, b1)) :
    o1.segs = o.segs := by
  unfold secResident at h
  split at h
  · cases h
  · simp only [Option.some.injEq, Prod.mk.injEq] at h; rw [← h.1]

theorem symSetup_segs {o : Obj} {i : Nat} {o1 : Obj} {t : SymTab} (h : symSetup o i = some (o1, t)) :
    o1.segs = o.segs := by
  unfold symSetup at h
  split at h
  · cases h
  · rename_i oa b ha
    split at h
    · simp only [Option.some.injEq, Prod.mk.injEq] at h; rw [← h.1]; exact secResident_segs ha
    · rename_i ob s hb
      simp only [Option.some.injEq, Prod.mk.injEq] at h; rw [← h.1, secResident_segs hb, secResident_segs ha]

theorem dynSetup_segs {o : Obj} {i : Nat} {o1 : Obj} {a : DynAcc} (h : dynSetup o i = some (o1, a)) :
    o1.segs = o.segs := by
  unfold dynSetup at h
  split at h
  · cases h
  · rename_i oa b ha
    split at h
    · simp only [Option.some.injEq, Prod.mk.injEq] at h; rw [← h.1]; exact secResident_segs ha
    · rename_i ob s hb
      simp only [Option.some.injEq, Prod.mk.injEq] at h; rw [← h.1, secResident_segs hb, secResident_segs ha]

/-- the string / note / dynamic / symbol queries on sections leave the segments alone: with
    `SegsFrom.of_segs_eq`, the segment side of the loaded object survives every theorem of §2a–2e -/
theorem section_query_keeps_segs (o o1 : Obj) (out : Out) (q : Query)
    (hq : (∃ i k, q = .str i k) ∨ (∃ i, q = .noteNum i) ∨ (∃ i k, q = .note i k) ∨ (∃ i, q = .dynNum i) ∨
      (∃ i k, q = .dyn i k) ∨ (∃ i, q = .symNum i) ∨ (∃ i k, q = .sym i k))
    (h : inspect o q = .ok (o1, out)) : o1.segs = o.segs := by
  rcases hq with ⟨i, k, rfl⟩ | ⟨i, rfl⟩ | ⟨i, k, rfl⟩ | ⟨i, rfl⟩ | ⟨i, k, rfl⟩ | ⟨i, rfl⟩ | ⟨i, k, rfl⟩ <;>
    simp only [inspect] at h <;> (repeat' split at h) <;>
    first
    | (simp only [pure, Except.pure, Except.ok.injEq, Prod.mk.injEq] at h
       rw [← h.1]
       first | rfl | (apply secResident_segs; assumption) | (apply symSetup_segs; assumption)
             | (apply dynSetup_segs; assumption))
    | (cases h <;> rfl)

/-! ### 3. truncated files (C17): table read-outs of a prefix that loads

`C17.prefix_sound_section` : section by section, the header of a successfully loaded prefix is all-zero or
the complete file's, its data absent or the same bytes.  Composed with §2: each table read-out on the prefix is
refused / empty or equal to what the complete file's load reports (= the specification's value, §2). -/

/-- section `i` of a loaded prefix: the zeroed header without data, or the specification's fields (and
    no data if the type occupies no file space) -/
def PSec (img : Bytes) (i : Nat) (b : SecBuf) : Prop :=
  C17.SecZero b ∨ (Fields img i b ∧ (occupiesFile (sh img i "sh_type") = false → b.data = none))

/-- an object loaded from the first `k` bytes of `img` (the load returned true), after any number of
    section data requests -/
structure PrefixLoaded (img : Bytes) (k : Nat) (o : Obj) : Prop where
  cls : o.cls = clsOf img
  enc : o.enc = encOf img
  trans : o.trans = []
  len : img.length < 9223372036854775808
  inv : C01.ObjInv o (img.take k)
  nsecs : o.secs.length = eh img "e_shnum"
  secs : ∀ i (hi : i < o.secs.length), PSec img i o.secs[i]

/-- what an accessor is handed for section `i` of a loaded prefix: no data, or the bytes the complete file
    assigns to the section -/
structure PReady (img : Bytes) (i : Nat) (b : SecBuf) : Prop where
  settled : Settled b
  fields : C17.SecZero b ∨ Fields img i b
  data : b.data = none ∨
    (Fields img i b ∧ occupiesFile (sh img i "sh_type") = true ∧ b.view = secFileBytes img i ∧
      (∀ d, b.data = some d → d = b.view ++ [0] ∧ d.length = b.size.toNat + 1) ∧
      b.size.toNat ≤ b.streamSize.toNat)

theorem fields_of_same {img : Bytes} {i : Nat} {b' b : SecBuf} (h : Fields img i b)
    (e1 : b'.nameOff = b.nameOff) (e2 : b'.stype = b.stype) (e3 : b'.flags = b.flags) (e4 : b'.addr = b.addr)
    (e5 : b'.offset = b.offset) (e6 : b'.size = b.size) (e7 : b'.link = b.link) (e8 : b'.info = b.info)
    (e9 : b'.addrAlign = b.addrAlign) (e10 : b'.entSize = b.entSize) : Fields img i b' :=
  ⟨by rw [e1]; exact h.nameOff, by rw [e2]; exact h.stype, by rw [e3]; exact h.flags, by rw [e4]; exact h.addr,
   by rw [e5]; exact h.offset, by rw [e6]; exact h.size, by rw [e7]; exact h.link, by rw [e8]; exact h.info,
   by rw [e9]; exact h.addrAlign, by rw [e10]; exact h.entSize⟩

/-- **a prefix of a well-formed image that loads** is `PrefixLoaded` (`C17.prefix_sound_section` against the
    complete load, whose sections show the specification's fields) -/
theorem prefixLoaded_of_load (img : Bytes) (hwf : WellFormedImage img) (o : Obj) (htr : o.trans = []) (k : Nat)
    (kind : StreamKind) (isLazy : Bool) (rp : LoadRes)
    (hp : load o { data := img.take k, kind := kind } isLazy = .ok rp) (hok : rp.ok = true) :
    PrefixLoaded img k rp.obj := by
  obtain ⟨rf, hf, hspec, hL⟩ := of_load img o kind isLazy htr hwf
  have hlen : img.length < 9223372036854775808 := hwf.2.2.2.2.1
  obtain ⟨f, hps⟩ := C17.prefix_sound o htr img k kind isLazy hlen rp rf hp hf hok
  obtain ⟨hl, hsec⟩ := C17.prefix_sound_section o htr img k kind isLazy hlen rp rf hp hf hok
  obtain ⟨_, _, _, _, ht⟩ := C01.load_inv o (img.take k) kind isLazy rp hp
  refine ⟨hps.cls.trans hL.cls, hps.enc.trans hL.enc, ht.trans htr, hlen, C01.load_objInv o _ kind isLazy rp hp,
    hl.trans hL.nsecs, ?_⟩
  intro i hi
  obtain ⟨bf, hbf, hz, hd, _⟩ := hsec i _ (List.getElem?_eq_getElem hi)
  have hi' : i < rf.obj.secs.length := by rw [← hl]; exact hi
  have hbf' : bf = rf.obj.secs[i] := by
    rw [List.getElem?_eq_getElem hi'] at hbf; exact (Option.some.inj hbf).symm
  obtain ⟨lz, res, hst⟩ := hL.secs i hi'
  obtain ⟨hF, hN⟩ := fields_of_SecSt img hwf i (by rw [← hL.nsecs]; exact hi') lz res _ _ hst
  rw [← hbf'] at hF hN
  rcases hz with hz | hs
  · exact Or.inl hz
  · refine Or.inr ⟨fields_of_same hF hs.nameOff hs.stype hs.flags hs.addr hs.offset hs.size hs.link hs.info
      hs.addrAlign hs.entSize, ?_⟩
    intro ho
    rcases hd with hd | hd
    · exact hd
    · rw [hd]; exact hN ho

/-- `sections[i]->get_data()` on a loaded prefix -/
theorem prefix_secResident (img : Bytes) (k : Nat) (o : Obj) (hP : PrefixLoaded img k o) (i : Nat)
    (hi : i < eh img "e_shnum") :
    ∃ o1 b1, secResident o i = some (o1, b1) ∧ PrefixLoaded img k o1 ∧ PReady img i b1 := by
  have hi' : i < o.secs.length := by rw [hP.nsecs]; exact hi
  have hs0 : StOk o.trans (img.take k) o.stream.kind { st := o.stream } :=
    ⟨hP.inv.sdata, rfl, fun a ha => by cases ha⟩
  have hb0 := hP.inv.secs o.secs[i] (List.getElem_mem hi')
  obtain ⟨h1, h2, h3⟩ := secGetData_spec o.cls o.trans _ o.secs[i] (img.take k) _ hs0 hb0
  have hset := secGetData_settled o.cls o.trans { st := o.stream } o.secs[i]
  -- the section after the request
  have hnb : isNullOrNobitsTy o.secs[i].stype = true →
      (secGetData o.cls o.trans { st := o.stream } o.secs[i]).2.data = o.secs[i].data :=
    secGetData_nobits_data _ _ _ _
  have hps : PSec img i (secGetData o.cls o.trans { st := o.stream } o.secs[i]).2 := by
    rcases hP.secs i hi' with hz | ⟨hF, hN⟩
    · left
      have hty : isNullOrNobitsTy o.secs[i].stype = true := by rw [hz.stype]; decide
      exact ⟨h3.stype.trans hz.stype, h3.size.trans hz.size, h3.offset.trans hz.offset,
        h3.nameOff.trans hz.nameOff, h3.flags.trans hz.flags, h3.addr.trans hz.addr, h3.link.trans hz.link,
        h3.info.trans hz.info, h3.addrAlign.trans hz.addrAlign, h3.entSize.trans hz.entSize,
        (hnb hty).trans hz.data⟩
    · right
      refine ⟨fields_of_same hF h3.nameOff h3.stype h3.flags h3.addr h3.offset h3.size h3.link h3.info
        h3.addrAlign h3.entSize, ?_⟩
      intro ho
      have hty : isNullOrNobitsTy o.secs[i].stype = true := by rw [isNullOrNobits_eq, hF.stype, ho]; rfl
      exact (hnb hty).trans (hN ho)
  unfold secResident
  rw [List.getElem?_eq_getElem hi']
  refine ⟨_, _, rfl, ⟨hP.cls, hP.enc, hP.trans, hP.len, ⟨h1.data, ?_, hP.inv.segs⟩, by simp [hP.nsecs], ?_⟩, hset, ?_, ?_⟩
  · intro b' hb'
    rcases List.mem_or_eq_of_mem_set hb' with hb' | rfl
    · exact hP.inv.secs b' hb'
    · exact h2
  · intro j hj
    simp only [List.length_set] at hj
    by_cases hij : i = j
    · subst hij; simp only [List.getElem_set_self]; exact hps
    · simp only [List.getElem_set_ne hij]; exact hP.secs j hj
  · rcases hps with hz | ⟨hF, _⟩
    · exact Or.inl hz
    · exact Or.inr hF
  · cases hd : (secGetData o.cls o.trans { st := o.stream } o.secs[i]).2.data with
    | none => exact Or.inl rfl
    | some d =>
      right
      rcases hps with hz | ⟨hF, hN⟩
      · rw [hz.data] at hd; cases hd
      · have hocc : occupiesFile (sh img i "sh_type") = true := by
          cases ho : occupiesFile (sh img i "sh_type")
          · rw [hN ho] at hd; cases hd
          · rfl
        have h2' : LoadedSec [] (secGetData o.cls o.trans { st := o.stream } o.secs[i]).2 (img.take k) := by
          rw [← hP.trans]; exact h2
        obtain ⟨e1, e2, e3⟩ := C17.LoadedSec.prefix_exact h2' hd
        have hv : (secGetData o.cls o.trans { st := o.stream } o.secs[i]).2.view = secFileBytes img i := by
          unfold SecBuf.view secFileBytes
          rw [hd, if_pos hocc, ← hF.offset, ← hF.size, e1]
          exact List.take_left' e2
        refine ⟨hF, hocc, hv, ?_, ?_⟩
        rotate_left
        · -- the section lies inside the prefix, whose length is the recorded stream size
          rcases h2'.ss with hss | ⟨_, _, hdn⟩
          · rw [hss]
            have hlk : (img.take k).length < 18446744073709551616 := by
              have := hP.len; simp only [List.length_take]; omega
            rw [toNat_ofNat_len hlk]
            by_cases hz : (secGetData o.cls o.trans { st := o.stream } o.secs[i]).2.size = 0
            · rw [hz]; simp
            · have := e3 hz
              rw [slice_length] at e2
              simp only [List.length_take]
              omega
          · rw [hdn] at hd; cases hd
        intro d' hd'
        cases hd'
        have hv' : (secGetData o.cls o.trans { st := o.stream } o.secs[i]).2.view =
            slice img (secGetData o.cls o.trans { st := o.stream } o.secs[i]).2.offset.toNat
              (secGetData o.cls o.trans { st := o.stream } o.secs[i]).2.size.toNat := by
          unfold SecBuf.view; rw [hd, e1]; exact List.take_left' e2
        rw [hv']
        exact ⟨e1, by rw [e1]; simp [e2]⟩

/-- **prefix_strings_sound** (C17 for string tables): on a prefix of a well-formed image that loads, every
    string lookup — any section index, any 32-bit string index — is refused (null) or returns exactly what the
    specification says the COMPLETE file holds there (`Spec.strAt` in the section's bytes of `img`, which is what
    the complete file's load reports: `strings_reports_spec`).  Never a wrong string. -/
theorem prefix_strings_sound (img : Bytes) (k : Nat) (o : Obj) (hP : PrefixLoaded img k o) (i : Nat)
    (idx : BitVec 32) :
    ∃ o1 out, inspect o (.str i idx) = .ok (o1, out) ∧ PrefixLoaded img k o1 ∧
      (out = .null ∨ out = .str none ∨ out = .str (Spec.strAt (secFileBytes img i) idx.toNat)) := by
  by_cases hi : i < eh img "e_shnum"
  · obtain ⟨o1, b1, h1, hP1, hR⟩ := prefix_secResident img k o hP i hi
    rcases hR.data with hd | ⟨_, _, hv, hn, _⟩
    · refine ⟨o1, .str none, ?_, hP1, Or.inr (Or.inl rfl)⟩
      simp only [inspect, h1, LoadTie.getString_hand, hd]; rfl
    · cases hd : b1.data with
      | none =>
        refine ⟨o1, .str none, ?_, hP1, Or.inr (Or.inl rfl)⟩
        simp only [inspect, h1, LoadTie.getString_hand, hd]; rfl
      | some d =>
        obtain ⟨e1, e2⟩ := hn d hd
        have hl : b1.view.length = b1.size.toNat := by rw [e1] at e2; simpa using e2
        refine ⟨o1, .str (Spec.strAt (secFileBytes img i) idx.toNat), ?_, hP1, Or.inr (Or.inr rfl)⟩
        have : getString b1 idx = .ok (Spec.strAt (secFileBytes img i) idx.toNat) := by
          rw [LoadTie.getString_hand, hd, ← cstrAt_eq_strAt, ← hv]
          simp only []
          rw [e1, ← hl]
          exact cstrAt_eq_spec _ _ _
        simp only [inspect, h1, this]; rfl
  · refine ⟨o, .null, ?_, hP, Or.inl rfl⟩
    have : secResident o i = none := by
      unfold secResident
      rw [List.getElem?_eq_none (by rw [hP.nsecs]; omega)]
    simp only [inspect, this]; rfl

/-- every prefix of the example image that loads: its string read-outs are null or the complete file's -/
example (k : Nat) (kind : StreamKind) (isLazy : Bool) (rp : LoadRes)
    (hp : load {} { data := exImg.take k, kind := kind } isLazy = .ok rp) (hok : rp.ok = true) (idx : BitVec 32) :
    ∃ o1 out, inspect rp.obj (.str 1 idx) = .ok (o1, out) ∧
      (out = .null ∨ out = .str none ∨ out = .str (Spec.strAt (secFileBytes exImg 1) idx.toNat)) := by
  obtain ⟨o1, out, h, _, h'⟩ := prefix_strings_sound exImg k rp.obj
    (prefixLoaded_of_load exImg exImg_wf {} rfl k kind isLazy rp hp hok) 1 idx
  exact ⟨o1, out, h, h'⟩

/-! #### symbols on a truncated file -/

theorem getSymbol_nodata (t : SymTab) (h : secData t.sym = none) (k : BitVec 64) (str : Bytes) (a : Attrs) :
    t.getSymbol k str a = .ok (false, str, a) := by
  rw [SymTie.getSymbol_unfold]
  simp only [h, SymTab.guardNum, Option.isNone_none, if_true, bind, Except.bind, pure, Except.pure,
    sym32_get_guard, sym64_get_guard, Bool.not_true, Bool.false_and, ite_self, Bool.false_eq_true, if_false]

theorem symGetString_nodata (s : SecBuf) (h : secData s = none) (idx : BitVec 32) :
    SymTab.getString (some s) idx = SymTab.getString none idx := by
  simp only [SymTab.getString, h, str_get_oob, Option.isNone_none, Bool.or_true, if_true]

/-- a linked string section without data answers like no string section at all -/
theorem getSymbol_str_nodata (t : SymTab) (s : SecBuf) (ht : t.str = some s) (h : secData s = none)
    (k : BitVec 64) (str : Bytes) (a : Attrs) :
    t.getSymbol k str a = ({ t with str := none } : SymTab).getSymbol k str a := by
  rw [SymTie.getSymbol_unfold, SymTie.getSymbol_unfold]
  simp only [ht, symGetString_nodata s h]
  rfl

theorem readsAs_pready {img : Bytes} {i : Nat} {b : SecBuf} (hs : Settled b) (hv : b.view = secFileBytes img i)
    (hn : ∀ d, b.data = some d → d = b.view ++ [0] ∧ d.length = b.size.toNat + 1) (d : Bytes) (hd : b.data = some d) :
    ReadsAs b (secFileBytes img i) := by
  obtain ⟨e1, e2⟩ := hn d hd
  have hl : b.view.length = b.size.toNat := by rw [e1] at e2; simpa using e2
  refine ⟨by rw [← hv, hl], ?_⟩
  unfold secData
  rw [getData_of_settled hs, hd]
  simp only []
  rw [← hv, e1]
  exact ⟨by simp, by simp⟩

/-- **prefix_symbols_sound** (C17 for symbol tables): on a prefix of a well-formed image that loads, for a
    symbol table `i` as in `symbols_reports_spec`, every `get_symbol(k, …)` is refused with the out-parameters
    untouched, or returns true/false exactly when the complete file's load does, with the complete file's
    attributes (value, size, binding, type, section index, other) and with the complete file's name or — when the
    linked string table's data is not in the prefix — the empty name.  `specSymbol img i k` is what the complete
    file reports (`symbols_reports_spec`) and what the gABI says. -/
theorem prefix_symbols_sound (img : Bytes) (hwf : WellFormedImage img) (k : Nat) (o : Obj) (hP : PrefixLoaded img k o)
    (i : Nat) (hi : i < eh img "e_shnum") (hent : sh img i "sh_entsize" = Spec.symSize (clsOf img))
    (idx : BitVec 64) :
    ∃ o1 out, inspect o (.sym i idx) = .ok (o1, .sym out) ∧ PrefixLoaded img k o1 ∧
      ((out.ret = false ∧ out.name = [] ∧ out.attrs = {}) ∨
       (out.ret = (specSymbol img i idx.toNat).ret ∧ out.attrs = (specSymbol img i idx.toNat).attrs ∧
         (out.name = [] ∨ out.name = (specSymbol img i idx.toNat).name))) := by
  obtain ⟨o1, b1, h1, hP1, hR1⟩ := prefix_secResident img k o hP i hi
  -- the accessor object
  have hsetup : ∃ o2 str, symSetup o i = some (o2, { cfg := ⟨clsOf img, encOf img⟩, sym := b1, str := str, hash := none }) ∧
      PrefixLoaded img k o2 ∧
      (str = none → b1.data ≠ none → linkedBytes img i = []) ∧
      (∀ s, str = some s → b1.data ≠ none → secData s = none ∨ ReadsAs s (linkedBytes img i)) := by
    unfold symSetup
    simp only [h1]
    by_cases hl : symStrIdx b1 < eh img "e_shnum"
    · obtain ⟨o2, s, h2, hP2, hR2⟩ := prefix_secResident img k o1 hP1 _ hl
      refine ⟨o2, some s, by simp only [h2, hP2.cls, hP2.enc], hP2, fun h => (by cases h), ?_⟩
      intro s' hs' hdn
      cases hs'
      have hF : Fields img i b1 := by
        rcases hR1.data with hd | ⟨hF, _⟩
        · exact absurd hd hdn
        · exact hF
      have hidx : symStrIdx b1 = linkIdx img i := by
        unfold symStrIdx linkIdx
        rw [← hF.link]
        simp only [BitVec.toNat_setWidth, Nat.reducePow]
      rcases hR2.data with hd | ⟨_, _, hv, hn, _⟩
      · left; unfold secData; rw [getData_of_settled hR2.settled, hd]
      · cases hd : s.data with
        | none => left; unfold secData; rw [getData_of_settled hR2.settled, hd]
        | some d =>
          right
          have := readsAs_pready hR2.settled hv hn d hd
          rw [hidx] at this hl
          simpa only [linkedBytes, hl, if_true] using this
    · have hnone : secResident o1 (symStrIdx b1) = none := by
        unfold secResident
        rw [List.getElem?_eq_none (by rw [hP1.nsecs]; omega)]
      refine ⟨o1, none, by simp only [hnone, hP1.cls, hP1.enc], hP1, ?_, fun s h => by cases h⟩
      intro _ hdn
      have hF : Fields img i b1 := by
        rcases hR1.data with hd | ⟨hF, _⟩
        · exact absurd hd hdn
        · exact hF
      have hidx : symStrIdx b1 = linkIdx img i := by
        unfold symStrIdx linkIdx
        rw [← hF.link]
        simp only [BitVec.toNat_setWidth, Nat.reducePow]
      rw [hidx] at hl
      simp only [linkedBytes, hl, if_false]
  obtain ⟨o2, str, hs, hP2, hstr0, hstr1⟩ := hsetup
  -- the read-out
  have hout : ∀ r : Bool × Bytes × Attrs,
      ({ cfg := ⟨clsOf img, encOf img⟩, sym := b1, str := str, hash := none } : SymTab).getSymbol idx [] {} = .ok r →
      inspect o (.sym i idx) = .ok (o2, .sym ⟨r.1, r.2.1, r.2.2⟩) := by
    intro r hr
    simp only [inspect, hs, getSym, hr]; rfl
  cases hd : b1.data with
  | none =>
    have hg := getSymbol_nodata { cfg := ⟨clsOf img, encOf img⟩, sym := b1, str := str, hash := none }
      (by unfold secData; rw [getData_of_settled hR1.settled]; exact hd) idx [] {}
    exact ⟨o2, _, hout _ hg, hP2, Or.inl ⟨rfl, rfl, rfl⟩⟩
  | some d =>
    have hdn : b1.data ≠ none := by rw [hd]; exact fun h => by cases h
    rcases hR1.data with hd' | ⟨hF, hocc, hv, hn, hss⟩
    · exact absurd hd' hdn
    · have hRA := readsAs_pready hR1.settled hv hn d hd
      have hent' : b1.entSize = BitVec.ofNat 64 (SymTab.symSizeOf (clsOf img)) :=
        ofNat_toNat64 _ _ (by rw [hF.entSize, hent, SymTab.symSizeOf_eq])
      -- with the linked table's bytes, or with none of them
      have hcases : (∃ strB, (strB = linkedBytes img i ∨ strB = []) ∧
          ∃ t' : SymTab, t'.cfg = ⟨clsOf img, encOf img⟩ ∧ SymTab.Wf t' (secFileBytes img i) strB ∧
            ({ cfg := ⟨clsOf img, encOf img⟩, sym := b1, str := str, hash := none } : SymTab).getSymbol idx [] {} =
              t'.getSymbol idx [] {}) := by
        cases hstr : str with
        | none =>
          exact ⟨linkedBytes img i, Or.inl rfl, _, rfl, ⟨hent', hss, hRA, by simp only [hstr0 hstr hdn]⟩, rfl⟩
        | some s =>
          rcases hstr1 s hstr hdn with hsn | hsr
          · refine ⟨[], Or.inr rfl, { cfg := ⟨clsOf img, encOf img⟩, sym := b1, str := none, hash := none }, rfl,
              ⟨hent', hss, hRA, rfl⟩, ?_⟩
            exact getSymbol_str_nodata _ s rfl hsn idx [] {}
          · exact ⟨linkedBytes img i, Or.inl rfl, _, rfl, ⟨hent', hss, hRA, hsr⟩, rfl⟩
      obtain ⟨strB, hB, t', hcfg, hW, heq⟩ := hcases
      have hg := SymTab.getSymbol_decoded hW idx [] {}
      rw [hcfg] at hg
      rw [← heq] at hg
      refine ⟨o2, _, hout _ hg, hP2, Or.inr ?_⟩
      unfold specSymbol
      by_cases hk : idx.toNat < SymTab.countOf (clsOf img) (secFileBytes img i)
      · rw [if_pos hk, if_pos hk]
        refine ⟨rfl, rfl, ?_⟩
        rcases hB with rfl | rfl
        · exact Or.inr rfl
        · left
          simp [SymTab.nameAt, Spec.symStrAt]
      · rw [if_neg hk, if_neg hk]
        exact ⟨rfl, rfl, Or.inl rfl⟩

example (k : Nat) (kind : StreamKind) (isLazy : Bool) (rp : LoadRes)
    (hp : load {} { data := exImg.take k, kind := kind } isLazy = .ok rp) (hok : rp.ok = true) (idx : BitVec 64) :
    ∃ o1 out, inspect rp.obj (.sym 2 idx) = .ok (o1, .sym out) ∧
      ((out.ret = false ∧ out.name = [] ∧ out.attrs = {}) ∨
       (out.ret = (specSymbol exImg 2 idx.toNat).ret ∧ out.attrs = (specSymbol exImg 2 idx.toNat).attrs ∧
         (out.name = [] ∨ out.name = (specSymbol exImg 2 idx.toNat).name))) := by
  obtain ⟨o1, out, h, _, h'⟩ := prefix_symbols_sound exImg exImg_wf k rp.obj
    (prefixLoaded_of_load exImg exImg_wf {} rfl k kind isLazy rp hp hok) 2 (by decide +kernel) (by decide +kernel) idx
  exact ⟨o1, out, h, h'⟩

end ElfioVerif.ComposeTables
