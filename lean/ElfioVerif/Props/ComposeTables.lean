/-
"The reader reports what the ELF specification says" for the TABLES of a loaded file (C02 ∘ C08 … C14).

`C02.load_eq_spec` says that `load` of a well-formed image yields sections whose header fields and data are
the file's; the accessor families say that on a section with their invariant the read-out is the gABI
decoding of the section CONTENT.  This file composes the two: the accessor models, run the way the
inspection interface runs them on a loaded object (`Inspect.secResident` = `sections[i]->get_data()` against
the real stream, then the family's own model on the settled section — Model/Inspect.lean, executed by the
driver of the shared `load` family), return the Spec-level decoding of the bytes of `img` in the section's
file range (`C02.secFileBytes img i` = `slice img sh_offset sh_size`), for ALL entry indices.

Everything is stated for an object in the state `LoadedFrom img o` (Lemmas/LoadedTables.lean): what `load` of
a well-formed image yields, eagerly or lazily, from either stream kind (`LoadedTables.of_load`), after ANY
number of earlier table queries — every theorem returns `LoadedFrom` for the object it leaves, so the
statements compose over query sequences.
-/
import ElfioVerif.Lemmas.LoadedTables
import ElfioVerif.Props.C09
import ElfioVerif.Props.C11
import ElfioVerif.Props.C12
import ElfioVerif.Props.C13
import ElfioVerif.Props.C14
import ElfioVerif.Props.C17
import ElfioVerif.Model.TableQuery
set_option linter.unusedSimpArgs false
set_option linter.unusedVariables false
namespace ElfioVerif.ComposeTables
open Gen C02 Inspect LoadedTables

/-! ### the example image

ELF32 / LSB, 744 bytes: `.strtab` (1), `.symtab` (2, link 1), `.rel.x` (3, link 2), `.rela.x` (4), `.dynamic`
(5, link 1), `.note` (6), `.init_array` (7), `.gnu.version` (8), `.shstrtab` (9); one PT_NOTE segment covering
`.note`.  Built by an independent Python script from the gABI field tables. -/

def exImg : Bytes :=
  [127, 69, 76, 70, 1, 1, 1, 0, 0, 0, 0, 0, 0, 0, 0, 0, 2, 0, 3, 0, 1, 0, 0, 0, 0, 0, 0, 0, 52, 0, 0, 0, 88, 1, 0, 0, 0, 0, 0, 0, 52, 0, 32, 0, 1, 0, 40, 0, 10, 0, 9, 0, 4, 0, 0, 0, 204, 0, 0, 0, 0, 0, 0, 0, 0, 0, 0, 0, 36, 0, 0, 0, 36, 0, 0, 0, 4, 0, 0, 0, 4, 0, 0, 0, 0, 102, 111, 111, 0, 98, 97, 114, 0, 0, 0, 0, 0, 0, 0, 0, 0, 0, 0, 0, 0, 0, 0, 0, 0, 0, 0, 0, 1, 0, 0, 0, 0, 16, 0, 0, 4, 0, 0, 0, 18, 0, 3, 0, 5, 0, 0, 0, 0, 32, 0, 0, 8, 0, 0, 0, 33, 2, 241, 255, 16, 0, 0, 0, 2, 1, 0, 0, 32, 0, 0, 0, 1, 2, 0, 0, 48, 0, 0, 0, 3, 1, 0, 0, 252, 255, 255, 255, 1, 0, 0, 0, 1, 0, 0, 0, 14, 0, 0, 0, 5, 0, 0, 0, 0, 0, 0, 0, 0, 0, 0, 0, 7, 0, 0, 0, 7, 0, 0, 0, 4, 0, 0, 0, 4, 0, 0, 0, 1, 0, 0, 0, 71, 78, 85, 0, 1, 2, 3, 4, 3, 0, 0, 0, 0, 0, 0, 0, 2, 0, 0, 0, 97, 98, 0, 0, 0, 16, 0, 0, 4, 16, 0, 0, 239, 190, 173, 222, 0, 0, 1, 0, 2, 128, 0, 0, 0, 46, 115, 116, 114, 116, 97, 98, 0, 46, 115, 121, 109, 116, 97, 98, 0, 46, 114, 101, 108, 46, 120, 0, 46, 114, 101, 108, 97, 46, 120, 0, 46, 100, 121, 110, 97, 109, 105, 99, 0, 46, 110, 111, 116, 101, 0, 46, 105, 110, 105, 116, 95, 97, 114, 114, 97, 121, 0, 46, 103, 110, 117, 46, 118, 101, 114, 115, 105, 111, 110, 0, 46, 115, 104, 115, 116, 114, 116, 97, 98, 0, 0, 0, 0, 0, 0, 0, 0, 0, 0, 0, 0, 0, 0, 0, 0, 0, 0, 0, 0, 0, 0, 0, 0, 0, 0, 0, 0, 0, 0, 0, 0, 0, 0, 0, 0, 0, 0, 0, 0, 0, 0, 0, 1, 0, 0, 0, 3, 0, 0, 0, 0, 0, 0, 0, 0, 0, 0, 0, 84, 0, 0, 0, 9, 0, 0, 0, 0, 0, 0, 0, 0, 0, 0, 0, 1, 0, 0, 0, 0, 0, 0, 0, 9, 0, 0, 0, 2, 0, 0, 0, 0, 0, 0, 0, 0, 0, 0, 0, 96, 0, 0, 0, 48, 0, 0, 0, 1, 0, 0, 0, 0, 0, 0, 0, 1, 0, 0, 0, 16, 0, 0, 0, 17, 0, 0, 0, 9, 0, 0, 0, 0, 0, 0, 0, 0, 0, 0, 0, 144, 0, 0, 0, 16, 0, 0, 0, 2, 0, 0, 0, 0, 0, 0, 0, 1, 0, 0, 0, 8, 0, 0, 0, 24, 0, 0, 0, 4, 0, 0, 0, 0, 0, 0, 0, 0, 0, 0, 0, 160, 0, 0, 0, 12, 0, 0, 0, 2, 0, 0, 0, 0, 0, 0, 0, 1, 0, 0, 0, 12, 0, 0, 0, 32, 0, 0, 0, 6, 0, 0, 0, 0, 0, 0, 0, 0, 0, 0, 0, 172, 0, 0, 0, 32, 0, 0, 0, 1, 0, 0, 0, 0, 0, 0, 0, 1, 0, 0, 0, 8, 0, 0, 0, 41, 0, 0, 0, 7, 0, 0, 0, 0, 0, 0, 0, 0, 0, 0, 0, 204, 0, 0, 0, 36, 0, 0, 0, 0, 0, 0, 0, 0, 0, 0, 0, 1, 0, 0, 0, 0, 0, 0, 0, 47, 0, 0, 0, 14, 0, 0, 0, 0, 0, 0, 0, 0, 0, 0, 0, 240, 0, 0, 0, 12, 0, 0, 0, 0, 0, 0, 0, 0, 0, 0, 0, 1, 0, 0, 0, 4, 0, 0, 0, 59, 0, 0, 0, 255, 255, 255, 111, 0, 0, 0, 0, 0, 0, 0, 0, 252, 0, 0, 0, 6, 0, 0, 0, 2, 0, 0, 0, 0, 0, 0, 0, 1, 0, 0, 0, 2, 0, 0, 0, 72, 0, 0, 0, 3, 0, 0, 0, 0, 0, 0, 0, 0, 0, 0, 0, 4, 1, 0, 0, 82, 0, 0, 0, 0, 0, 0, 0, 0, 0, 0, 0, 1, 0, 0, 0, 0, 0, 0, 0]

example : WellFormedImage exImg := by decide +kernel
theorem exImg_wf : WellFormedImage exImg := by decide +kernel
example : eh exImg "e_shnum" = 10 ∧ clsOf exImg = .c32 ∧ encOf exImg = .lsb := by decide +kernel

/-! ### 1. every section of the loaded object is ready for the accessors -/

/-- the object-level data request of the table-query model is the inspection interface's -/
theorem settle_eq (o : Obj) (i : Nat) : TQ.settle o i = secResident o i := rfl

/-- **loaded_section_ready** : `load` of a well-formed image (eager or lazy, string- or file-backed stream, no
    address translation) succeeds with everything `C02.LoadSpec` says, and for EVERY section index `i` of
    the image `sections[i]->get_data()` hands the accessors a section that is settled (the accessor models'
    own `get_data()` is the identity), has the image's class, shows the specification's header fields, exposes
    exactly `C02.secFileBytes img i` — the bytes the gABI assigns to section `i` —, has an allocation of
    `size + 1` bytes ending in the loader's NUL, satisfies C08's `Fits`, and, for file-occupying section types,
    C07's invariant `SecBuf.Inv` with `content = secFileBytes img i`; an index beyond `e_shnum` yields the null
    pointer.  The object left behind is again `LoadedFrom img`. -/
theorem loaded_section_ready (img : Bytes) (o0 : Obj) (k : StreamKind) (isLazy : Bool) (htr : o0.trans = [])
    (hwf : WellFormedImage img) :
    ∃ r : LoadRes, load o0 { data := img, kind := k } isLazy = .ok r ∧ LoadSpec img r ∧ LoadedFrom img r.obj ∧
      ∀ o, LoadedFrom img o → ∀ i,
        (eh img "e_shnum" ≤ i → secResident o i = none) ∧
        (i < eh img "e_shnum" → ∃ o1 b1, secResident o i = some (o1, b1) ∧ LoadedFrom img o1 ∧
          SecReady img i b1 ∧ b1.getData = b1 ∧ b1.view = secFileBytes img i ∧ C08.Fits b1 ∧
          (occupiesFile (sh img i "sh_type") = true → b1.Inv ∧ b1.content = secFileBytes img i)) := by
  obtain ⟨r, hr, hs, hL⟩ := of_load img o0 k isLazy htr hwf
  refine ⟨r, hr, hs, hL, ?_⟩
  intro o hL i
  refine ⟨secResident_none img o hL i, ?_⟩
  intro hi
  obtain ⟨o1, b1, h1, h2, h3, _⟩ := secResident_ready img hwf o hL i hi
  exact ⟨o1, b1, h1, h2, h3, h3.getData, h3.view, h3.fits, h3.inv⟩

example (k : StreamKind) (isLazy : Bool) :
    ∃ r : LoadRes, load {} { data := exImg, kind := k } isLazy = .ok r ∧ LoadedFrom exImg r.obj := by
  obtain ⟨r, h1, _, h3, _⟩ := loaded_section_ready exImg {} k isLazy rfl exImg_wf
  exact ⟨r, h1, h3⟩
example : secFileBytes exImg 1 = [0, 0x66, 0x6f, 0x6f, 0, 0x62, 0x61, 0x72, 0] := by decide +kernel

/-! ### 2a. string tables (C08) -/

theorem idxOf_takeWhile (l : Bytes) :
    (match l.idxOf? (0 : UInt8) with | some k => some (l.take k) | none => none) =
      if (l.takeWhile (· != 0)).length < l.length then some (l.takeWhile (· != 0)) else none := by
  induction l with
  | nil => rfl
  | cons a l ih =>
    by_cases ha : a = 0
    · subst ha; simp [List.idxOf?, List.findIdx?_cons]
    · have h1 : (a == 0) = false := by simpa using ha
      have h2 : (a != 0) = true := by simp [bne, h1]
      simp only [List.idxOf?, List.findIdx?_cons, h1, List.takeWhile_cons, h2, if_true, List.length_cons,
        Nat.add_lt_add_iff_right, Bool.false_eq_true, if_false] at ih ⊢
      cases hf : List.findIdx? (fun x => x == 0) l with
      | none => rw [hf] at ih; simp only [Option.map_none] at ih ⊢; split at ih <;> simp_all
      | some k =>
        rw [hf] at ih
        simp only [Option.map_some, List.take_succ_cons] at ih ⊢
        split at ih
        · rename_i hlt; rw [if_pos hlt]; simp only [Option.some.injEq] at ih ⊢; rw [ih]
        · cases ih

/-- the loader-side reference lookup (`Spec.cstrAt`, Spec/Records.lean) and C08's (`Spec.strAt`,
    Spec/StrTab.lean) are the same function -/
theorem cstrAt_eq_strAt (d : Bytes) (i : Nat) : Spec.cstrAt d i = Spec.strAt d i := by
  unfold Spec.cstrAt Spec.strAt Spec.cstr
  by_cases h : i ≥ d.length
  · rw [if_pos h, List.drop_eq_nil_of_le h]; rfl
  · rw [if_neg h]; exact idxOf_takeWhile _

/-- `get_string` of Model/Load.lean (what `inspect` runs) on a ready section -/
theorem getString_ready {img : Bytes} {i : Nat} {b : SecBuf} (h : SecReady img i b) (k : BitVec 32) :
    getString b k = .ok (Spec.strAt (secFileBytes img i) k.toNat) := by
  rw [LoadTie.getString_hand, ← cstrAt_eq_strAt, ← h.view]
  cases hd : b.data with
  | none => simp [SecBuf.view, hd, Spec.cstrAt, pure, Except.pure]
  | some d =>
    have hn := h.nul d hd
    have hl : b.view.length = b.size.toNat := by
      have := h.alloc d hd
      rw [hn] at this; simpa using this
    simp only []
    rw [hn, ← hl]
    exact cstrAt_eq_spec _ _ _

/-- **strings_reports_spec** : for EVERY section index `i` and EVERY 32-bit string index `k`,
    `string_section_accessor(sections[i]).get_string(k)` on the loaded object is the gABI lookup
    `Spec.strAt` in the bytes of `img` in the section's file range: the bytes from `k` up to the first NUL if
    `k` and that NUL lie inside the range, refused (null) otherwise — in particular for every `k ≥ sh_size`,
    for an unterminated tail, and for SHT_NULL / SHT_NOBITS sections (empty range).  Stated for the inspection
    interface's query and for C08's accessor model on the section handed out; `i ≥ e_shnum`: null section. -/
theorem strings_reports_spec (img : Bytes) (hwf : WellFormedImage img) (o : Obj) (hL : LoadedFrom img o)
    (i : Nat) (k : BitVec 32) :
    (eh img "e_shnum" ≤ i → inspect o (.str i k) = .ok (o, .null)) ∧
    (i < eh img "e_shnum" → ∃ o1 b1, secResident o i = some (o1, b1) ∧ LoadedFrom img o1 ∧
      inspect o (.str i k) = .ok (o1, .str (Spec.strAt (secFileBytes img i) k.toNat)) ∧
      StrSec.getString b1 k = .ok (b1, Spec.strAt (secFileBytes img i) k.toNat)) := by
  constructor
  · intro hi
    simp only [inspect, secResident_none img o hL i hi]; rfl
  · intro hi
    obtain ⟨o1, b1, h1, h2, h3, _⟩ := secResident_ready img hwf o hL i hi
    refine ⟨o1, b1, h1, h2, ?_, ?_⟩
    · simp only [inspect, h1, getString_ready h3 k]; rfl
    · unfold StrSec.getString
      rw [h3.getData, C08.getStringCore_eq _ _ h3.fits, h3.view]

example (k : StreamKind) (isLazy : Bool) :
    ∃ r : LoadRes, load {} { data := exImg, kind := k } isLazy = .ok r ∧
      ∀ idx : BitVec 32, ∃ o1, inspect r.obj (.str 1 idx) =
        .ok (o1, .str (Spec.strAt (secFileBytes exImg 1) idx.toNat)) := by
  obtain ⟨r, h1, _, h3⟩ := of_load exImg {} k isLazy rfl exImg_wf
  refine ⟨r, h1, fun idx => ?_⟩
  obtain ⟨o1, _, _, _, h, _⟩ := (strings_reports_spec exImg exImg_wf r.obj h3 1 idx).2 (by decide +kernel)
  exact ⟨o1, h⟩
example : Spec.strAt (secFileBytes exImg 1) 5 = some [0x62, 0x61, 0x72] ∧ Spec.strAt (secFileBytes exImg 1) 9 = none ∧
    Spec.strAt (secFileBytes exImg 1) 6 = some [0x61, 0x72] := by decide +kernel

end ElfioVerif.ComposeTables
