/-
C16 for a *buffered* output stream (`std::ofstream` over `std::filebuf`, the file-name overload
`elfio::save(const std::string&)`): a write the device rejects is reported late — the bytes sit in the
put area and the device failure only shows at the next overflow, seek or flush.  Model/BStream.lean is
the stream; here: the buffered run, once flushed, IS the unbuffered run of Model/OStream.lean with the
same device budget (`buffered_sim`, for every operation list, put-area size, write-through threshold and
device state), hence `save_fail_buffered` / `save_ok_buffered`, which reuse `save_fail`'s hypotheses and
the trace form of the write phase (`saveOps`, `saveWrite_eq_ops`) followed by the final `stream.flush()`
of `elfio::save`.  `buffered_delay_witness`: before that flush the buffered stream may still look good.

Proof idea: `OStream.write_append` (two consecutive device writes = one write of the concatenation, also
when the budget cuts it short) makes "the device after flushing the put area" (`BStream.settled`) commute
with every operation (`settled_write/seekp/seekEnd/adjust`).

Not modelled: a seek beyond the end of a *file* succeeds (both sides use the string-stream rule of
Model/OStream.lean; the writer zero-fills before it seeks), `open` failures, and a device that takes a
prefix of a request and accepts a later, shorter one at the same position (a byte budget cannot).
-/
import ElfioVerif.Props.C16
import ElfioVerif.Model.BStream
namespace ElfioVerif
open OStream

namespace OStream

theorem write_nil (s : OStream) : s.write [] = s := by
  cases hf : s.fail with
  | true => exact write_of_fail hf _
  | false =>
    have hr : room s [] = 0 := by unfold room; split <;> simp
    rw [write_eq hf, hr]
    obtain ⟨c, p, b, f⟩ := s
    simp only [List.take_zero, Nat.add_zero, List.length_nil, Nat.lt_irrefl, decide_false] at *
    subst hf
    congr 1
    split
    · unfold wr; simp
    · rename_i h
      simp only [List.append_nil]
      exact List.take_of_length_le (by omega)

theorem room_eq (s : OStream) (x : Bytes) :
    room s x = match s.budget with | none => x.length | some k => min x.length (k - s.pos) := rfl

theorem write_append (s : OStream) (a b : Bytes) : (s.write a).write b = s.write (a ++ b) := by
  cases hf : s.fail with
  | true => rw [write_of_fail hf, write_of_fail hf, write_of_fail hf]
  | false =>
    by_cases hra : room s a < a.length
    · have h1 : (s.write a).fail = true := by rw [write_eq hf]; simpa using hra
      rw [write_of_fail h1, write_eq hf, write_eq hf]
      have hr : room s (a ++ b) = room s a := by
        rw [room_eq] at hra ⊢; rw [room_eq]
        cases hb : s.budget with
        | none => rw [hb] at hra; simp only [] at hra; omega
        | some k => rw [hb] at hra; simp only [List.length_append] at hra ⊢; omega
      rw [hr, List.take_append_of_le_length (Nat.le_of_lt hra)]
      simp only [List.length_append]
      congr 1
      simp; omega
    · have hra' : room s a = a.length := Nat.le_antisymm (room_le s a) (Nat.le_of_not_lt hra)
      have h1 : (s.write a).fail = false := by rw [write_eq hf]; simpa using hra
      have hrb : room s (a ++ b) = a.length + room (s.write a) b := by
        rw [room_eq] at hra' ⊢; rw [room_eq, write_budget, write_pos hf, room_eq]
        cases hb : s.budget with
        | none => simp
        | some k => rw [hb] at hra'; simp only [List.length_append] at hra' ⊢; omega
      rw [write_eq h1, write_eq (s := s) (bs := a ++ b) hf, hrb]
      have hrble := room_le (s.write a) b
      generalize room (s.write a) b = rb at *
      rw [write_eq hf, hra']
      simp only [List.take_length, List.length_append]
      have ht : List.take (a.length + rb) (a ++ b) = a ++ List.take rb b := by
        rw [List.take_length_add_append]
      rw [ht]
      obtain ⟨c, p, bud, f⟩ := s
      simp only [] at *
      have htl : (List.take rb b).length = rb := by rw [List.length_take]; omega
      generalize List.take rb b = t at *
      congr 1
      · by_cases hA : p + a.length ≤ c.length
        · simp only [hA, ↓reduceIte]
          rw [wr_length _ _ _ hA]
          by_cases hB : p + a.length + rb ≤ c.length
          · rw [if_pos hB, if_pos (by omega)]
            apply List.ext_getElem?; intro i
            rw [wr_getElem? _ _ _ _ (by rw [wr_length _ _ _ hA]; omega), wr_getElem? _ _ _ _ hA,
              wr_getElem? _ _ _ _ (by simp only [List.length_append]; omega)]
            simp only [List.getElem?_append, List.length_append]
            ite_omega
          · rw [if_neg hB, if_neg (by omega)]
            apply List.ext_getElem?; intro i
            unfold wr
            simp only [List.getElem?_append, List.getElem?_take, List.getElem?_drop, List.length_append,
              List.length_take, List.length_drop]
            ite_omega
        · simp only [hA, ↓reduceIte]
          rw [if_neg (c := p + (a.length + rb) ≤ c.length) (by omega)]
          by_cases hB : p + a.length + rb ≤ (List.take p c ++ a).length
          · rw [if_pos hB]
            simp only [List.length_append, List.length_take] at hB
            have : t = [] := List.eq_nil_of_length_eq_zero (by omega)
            subst this
            unfold wr
            simp only [List.length_nil, Nat.add_zero, List.append_nil]
            rw [List.drop_of_length_le (by simp only [List.length_append, List.length_take]; omega)]
            rw [List.take_of_length_le (by simp only [List.length_append, List.length_take]; omega)]
            simp
          · rw [if_neg hB]
            rw [List.take_of_length_le (by simp only [List.length_append, List.length_take]; omega)]
            simp
      · omega
      · simp
end OStream

namespace BStream

/-- what the device would look like if the put area were flushed now -/
def settled (b : BStream) : OStream := b.dev.write b.pend

theorem flush_dev (b : BStream) : b.flush.dev = b.settled := by
  unfold flush sync settled
  cases hf : b.dev.fail with
  | true => simp only [↓reduceIte]; rw [write_of_fail hf]
  | false => simp

theorem flush_pend {b : BStream} (h : b.flush.fail = false) : b.flush.pend = [] := by
  unfold flush fail at *
  cases hf : b.dev.fail with
  | true => rw [hf] at h; simp only [↓reduceIte] at h; rw [hf] at h; cases h
  | false => simp [sync]

theorem settled_onDevice (d : OStream) (cap chunk : Nat) : (onDevice d cap chunk).settled = d :=
  write_nil d

/-! ### failure is sticky on the buffered stream as well -/

theorem write_of_fail {b : BStream} (h : b.fail = true) (bs : Bytes) : b.write bs = b := by
  unfold fail at h; simp [write, h]
theorem seekp_of_fail {b : BStream} (h : b.fail = true) (p : Int) : b.seekp p = b := by
  unfold fail at h; simp [seekp, h]
theorem seekEnd_of_fail {b : BStream} (h : b.fail = true) : b.seekEnd = b := by
  unfold fail at h; simp [seekEnd, h]
theorem flush_of_fail {b : BStream} (h : b.fail = true) : b.flush = b := by
  unfold fail at h; simp [flush, h]
theorem adjust_of_fail {b : BStream} (h : b.fail = true) (off : Int) : b.adjust off = b := by
  unfold adjust
  simp only [seekEnd_of_fail h]
  split
  · rw [write_of_fail h, seekp_of_fail h]
  · rw [seekp_of_fail h]

/-! ### every operation commutes with "settling" the put area -/

theorem settled_write (b : BStream) (bs : Bytes) : (b.write bs).settled = b.settled.write bs := by
  unfold write settled
  cases hf : b.dev.fail with
  | true =>
    simp only [↓reduceIte]
    rw [OStream.write_of_fail hf, OStream.write_of_fail hf]
  | false =>
    simp only [Bool.false_eq_true, ↓reduceIte]
    split
    · simp only []; rw [OStream.write_append]
    · simp only []; rw [OStream.write_nil, OStream.write_append]

theorem settled_seekp (b : BStream) (p : Int) : (b.seekp p).settled = b.settled.seekp p := by
  unfold seekp settled
  cases hf : b.dev.fail with
  | true =>
    simp only [↓reduceIte]
    rw [OStream.write_of_fail hf, OStream.seekp_of_fail hf]
  | false => simp only [Bool.false_eq_true, ↓reduceIte]; rw [OStream.write_nil]

theorem settled_seekEnd (b : BStream) : b.seekEnd.settled = b.settled.seekEnd := by
  unfold seekEnd settled
  cases hf : b.dev.fail with
  | true =>
    simp only [↓reduceIte]
    rw [OStream.write_of_fail hf, OStream.seekEnd_of_fail hf]
  | false => simp only [Bool.false_eq_true, ↓reduceIte]; rw [OStream.write_nil]

/-- after a seek the put area is empty or the stream has failed: `tellp` is the device's -/
theorem tellp_seekEnd (b : BStream) : b.seekEnd.tellp = b.settled.seekEnd.tellp := by
  rw [← settled_seekEnd]
  unfold seekEnd settled tellp OStream.tellp
  cases hf : b.dev.fail with
  | true => simp only [↓reduceIte, hf]; rw [OStream.write_of_fail hf, hf]; rfl
  | false =>
    simp only [Bool.false_eq_true, ↓reduceIte, List.length_nil, Nat.add_zero]
    rw [OStream.write_nil]

theorem settled_adjust (b : BStream) (off : Int) : (b.adjust off).settled = b.settled.adjust off := by
  rw [OStream.adjust_eq]
  unfold adjust
  simp only [tellp_seekEnd]
  split
  · rw [settled_seekp, settled_write, settled_seekEnd]
  · rw [settled_seekp, settled_seekEnd]

end BStream

theorem StreamOp.settled_runB (b : BStream) (op : StreamOp) : (op.runB b).settled = op.run b.settled := by
  cases op with
  | seekp p => exact BStream.settled_seekp b p
  | write bs => exact BStream.settled_write b bs
  | adjust off => exact BStream.settled_adjust b off

theorem runStreamOpsB_nil (b : BStream) : runStreamOpsB [] b = b := rfl
theorem runStreamOpsB_cons (op : StreamOp) (ops : List StreamOp) (b : BStream) :
    runStreamOpsB (op :: ops) b = runStreamOpsB ops (op.runB b) := rfl
theorem runStreamOpsB_append (x y : List StreamOp) (b : BStream) :
    runStreamOpsB (x ++ y) b = runStreamOpsB y (runStreamOpsB x b) := by
  unfold runStreamOpsB; rw [List.foldl_append]

/-- **Simulation** — a buffered run, settled, is the unbuffered run from the settled start: whatever the
    size of the put area, the write-through threshold, the device budget and the operations. -/
theorem settled_runStreamOpsB (ops : List StreamOp) (b : BStream) :
    (runStreamOpsB ops b).settled = runStreamOps ops b.settled := by
  induction ops generalizing b with
  | nil => rfl
  | cons op ops ih => rw [runStreamOpsB_cons, runStreamOps_cons, ih, StreamOp.settled_runB]

namespace C16

/-- What `save` leaves behind on a buffered stream: the operations of the write phase on a fresh buffered
    stream (put area of `cap` bytes, write-through threshold `chunk`) over an empty device with byte
    budget `budget`, then the `stream.flush()` that ends `elfio::save`.  `save` returns `!fail` of this. -/
def savedB (ops : List StreamOp) (budget : Option Nat) (cap chunk : Nat) : BStream :=
  (runStreamOpsB ops (BStream.onDevice { budget := budget } cap chunk)).flush

/-- **Buffered = unbuffered after the final flush**: for every list of operations, every device `d`
    (any content, position, budget), every put-area size and write-through threshold, flushing the
    buffered run leaves the device exactly as the unbuffered run leaves the stream — same bytes, same
    position, same failure flag. -/
theorem buffered_sim (ops : List StreamOp) (d : OStream) (cap chunk : Nat) :
    (runStreamOpsB ops (BStream.onDevice d cap chunk)).flush.dev = runStreamOps ops d := by
  rw [BStream.flush_dev, settled_runStreamOpsB, BStream.settled_onDevice]

/-- the two consequences C16 uses: the failure flag agrees, and so does the content -/
theorem buffered_sim_fail (ops : List StreamOp) (d : OStream) (cap chunk : Nat) :
    (runStreamOpsB ops (BStream.onDevice d cap chunk)).flush.fail = (runStreamOps ops d).fail ∧
    (runStreamOpsB ops (BStream.onDevice d cap chunk)).flush.dev.content = (runStreamOps ops d).content := by
  unfold BStream.fail; rw [buffered_sim]; exact ⟨rfl, rfl⟩

/-- delayed, never invented: a failure the buffered stream shows *before* the flush is one the unbuffered
    stream has as well (the converse fails: `buffered_delay_witness`) -/
theorem buffered_fail_early (ops : List StreamOp) (d : OStream) (cap chunk : Nat)
    (h : (runStreamOpsB ops (BStream.onDevice d cap chunk)).fail = true) : (runStreamOps ops d).fail = true := by
  rw [← buffered_sim ops d cap chunk, BStream.flush_of_fail h]; exact h

/-- a failure that has shown stays: no later operation, and no flush, changes the buffered stream -/
theorem fail_sticky_buffered (b : BStream) (h : b.fail = true) :
    (∀ bs, b.write bs = b) ∧ (∀ p, b.seekp p = b) ∧ b.seekEnd = b ∧ (∀ off, b.adjust off = b) ∧
    b.flush = b ∧ (∀ ops, runStreamOpsB ops b = b) := by
  refine ⟨BStream.write_of_fail h, BStream.seekp_of_fail h, BStream.seekEnd_of_fail h,
    BStream.adjust_of_fail h, BStream.flush_of_fail h, fun ops => ?_⟩
  induction ops with
  | nil => rfl
  | cons op ops ih =>
    rw [runStreamOpsB_cons]
    have : op.runB b = b := by
      cases op with
      | seekp p => exact BStream.seekp_of_fail h p
      | write bs => exact BStream.write_of_fail h bs
      | adjust off => exact BStream.adjust_of_fail h off
    rw [this, ih]

/-- trace form of `save_fail_buffered`: if the unbuffered, unlimited run of `ops` produces more than `k`
    bytes, the buffered run over a device that takes `k` bytes has failed after the final flush. -/
theorem ops_fail_buffered (ops : List StreamOp) (k cap chunk : Nat)
    (hk : k < (runStreamOps ops {}).content.length) : (savedB ops (some k) cap chunk).fail = true := by
  unfold savedB
  rw [(buffered_sim_fail ops _ cap chunk).1]
  exact runStreamOps_fail_of_short (b := { budget := some k }) (u := {}) rfl rfl (WF.empty _)
    (Or.inr ⟨rfl, rfl, rfl, rfl⟩) ops hk

/-- trace form of `save_ok_buffered` -/
theorem ops_ok_buffered (ops : List StreamOp) (budget : Option Nat) (cap chunk : Nat)
    (hk : ∀ k, budget = some k → (runStreamOps ops {}).content.length ≤ k) :
    (savedB ops budget cap chunk).fail = (runStreamOps ops {}).fail ∧
    (savedB ops budget cap chunk).dev.content = (runStreamOps ops {}).content := by
  unfold savedB
  rw [(buffered_sim_fail ops _ cap chunk).1, (buffered_sim_fail ops _ cap chunk).2]
  cases budget with
  | none => exact ⟨rfl, rfl⟩
  | some k =>
    have := runStreamOps_withBudget (u := {}) (k := k) rfl (WF.empty _) ops (hk k rfl)
    have h0 : withBudget ({} : OStream) k = { budget := some k } := rfl
    rw [h0] at this
    rw [this]
    exact ⟨rfl, rfl⟩

/-- **save reports failure, buffered stream** (`std::ofstream`, the file-name overload).  `ru` is the
    unbuffered, unlimited save of the object (the complete file, `L` bytes) and `k < L`.  Then `save`
    reached its write phase, whose operations are `saveOps o1 h secs segs` (`saveWrite_eq_ops`; they do
    not depend on the stream: `save_pair`), and these operations on a buffered stream over a device that
    takes `k` bytes, followed by the final `stream.flush()`, end with the failure flag set — whatever the
    size of the put area and the write-through threshold: `save` returns false.  No hypothesis on the object. -/
theorem save_fail_buffered (o : Obj) (k : Nat) (ru : SaveRes) (cap chunk : Nat)
    (hu : save o {} = .ok ru) (hk : k < ru.os.content.length) :
    ∃ o1 h secs segs pos, ru = saveWrite o1 h secs segs pos {} ∧
      (savedB (saveOps o1 h secs segs) (some k) cap chunk).fail = true := by
  rcases save_pair o {} {} rfl rfl with ⟨f, h1, _⟩ | ⟨o', h1, _⟩ | ⟨o1, h, secs, segs, pos, h1, _⟩
  · rw [hu] at h1; cases h1
  · rw [hu] at h1; cases h1; exact absurd hk (Nat.not_lt_zero _)
  · rw [hu] at h1; cases h1
    refine ⟨o1, h, secs, segs, pos, rfl, ?_⟩
    rw [saveWrite_eq_ops] at hk
    exact ops_fail_buffered _ k cap chunk hk

/-- the same for every way of writing `ru` as a write phase (no dependence on the choice of witnesses) -/
theorem save_fail_buffered_all (o1 : Obj) (h : Bytes) (secs : List SecBuf) (segs : List Seg) (pos : BitVec 64)
    (k cap chunk : Nat) (hk : k < (saveWrite o1 h secs segs pos {}).os.content.length) :
    (savedB (saveOps o1 h secs segs) (some k) cap chunk).fail = true := by
  rw [saveWrite_eq_ops] at hk
  exact ops_fail_buffered _ k cap chunk hk

/-- **the device accepts everything, buffered stream**: the unbuffered unlimited save returns true with the
    complete file `ru.os.content`, and the device is unlimited or takes at least that many bytes.  Then the
    write-phase operations on a buffered stream plus the final flush end without failure (`save` returns
    true), the put area is empty and the device holds the complete file. -/
theorem save_ok_buffered (o : Obj) (budget : Option Nat) (ru : SaveRes) (cap chunk : Nat)
    (hu : save o {} = .ok ru) (hok : ru.ok = true)
    (hk : ∀ k, budget = some k → ru.os.content.length ≤ k) :
    ∃ o1 h secs segs pos, ru = saveWrite o1 h secs segs pos {} ∧
      (savedB (saveOps o1 h secs segs) budget cap chunk).fail = false ∧
      (savedB (saveOps o1 h secs segs) budget cap chunk).pend = [] ∧
      (savedB (saveOps o1 h secs segs) budget cap chunk).dev.content = ru.os.content := by
  rcases save_pair o {} {} rfl rfl with ⟨f, h1, _⟩ | ⟨o', h1, _⟩ | ⟨o1, h, secs, segs, pos, h1, _⟩
  · rw [hu] at h1; cases h1
  · rw [hu] at h1; cases h1; cases hok
  · rw [hu] at h1; cases h1
    refine ⟨o1, h, secs, segs, pos, rfl, ?_⟩
    rw [saveWrite_eq_ops] at hk hok ⊢
    simp only [Bool.not_eq_eq_eq_not, Bool.not_true] at hok
    obtain ⟨hf, hc⟩ := ops_ok_buffered (saveOps o1 h secs segs) budget cap chunk hk
    have hf' : (savedB (saveOps o1 h secs segs) budget cap chunk).fail = false := by rw [hf]; exact hok
    exact ⟨hf', BStream.flush_pend hf', hc⟩

/-! ### delayed failure is real in the model -/

/-- a miniature write phase: header at 0, zero-fill to 8, a 4-byte table — 12 bytes in all -/
def miniOps : List StreamOp := [.seekp 0, .write [1, 2, 3, 4], .adjust 8, .write [9, 9, 9, 9]]

/-- **Delayed failure**: the device takes 10 of the 12 bytes.  The unbuffered stream fails at the last
    write.  The buffered stream (put area 16) has executed all operations and is still good — the device
    holds the 8 bytes the seeks inside `adjust_stream_size` pushed out, the last 4 sit in the put area
    although only 2 of them fit — and only the final `flush()` sets the failure flag.  A `save` that
    returned `stream.good()` without flushing would answer true here; with a put area of 0 bytes
    (`pubsetbuf(0,0)`) the failure shows at once. -/
theorem buffered_delay_witness :
    (runStreamOps miniOps { budget := some 10 }).fail = true ∧
    (runStreamOpsB miniOps (BStream.onDevice { budget := some 10 } 16 16)).fail = false ∧
    (runStreamOpsB miniOps (BStream.onDevice { budget := some 10 } 16 16)).dev.content = [1, 2, 3, 4, 0, 0, 0, 0] ∧
    (runStreamOpsB miniOps (BStream.onDevice { budget := some 10 } 16 16)).pend = [9, 9, 9, 9] ∧
    (savedB miniOps (some 10) 16 16).fail = true ∧
    (savedB miniOps (some 10) 16 16).dev.content = [1, 2, 3, 4, 0, 0, 0, 0, 9, 9] ∧
    (runStreamOpsB miniOps (BStream.onDevice { budget := some 10 } 0 16)).fail = true := by decide

/-- a seek reveals the pending failure as well (the put area is flushed first, the seek fails) -/
example : (runStreamOpsB [.write [1, 2, 3], .seekp 0] (BStream.onDevice { budget := some 2 } 16 16)).fail = true ∧
          (runStreamOpsB [.write [1, 2, 3]] (BStream.onDevice { budget := some 2 } 16 16)).fail = false := by decide

/-! ### non-vacuity -/

/-- hypotheses and conclusion of `ops_fail_buffered` / `ops_ok_buffered` on the miniature trace -/
example : 10 < (runStreamOps miniOps {}).content.length := by decide
example : (savedB miniOps (some 12) 16 16).fail = false ∧
          (savedB miniOps (some 12) 16 16).dev.content = [1, 2, 3, 4, 0, 0, 0, 0, 9, 9, 9, 9] ∧
          (savedB miniOps none 3 2).dev.content = (runStreamOps miniOps {}).content := by decide
/-- a request of at least `chunk` bytes goes to the device directly, a smaller one is buffered -/
example : (BStream.write (BStream.onDevice {} 16 4) [1, 2, 3, 4]).dev.content = [1, 2, 3, 4] ∧
          (BStream.write (BStream.onDevice {} 16 4) [1, 2, 3]).dev.content = [] ∧
          (BStream.write (BStream.onDevice {} 16 4) [1, 2, 3]).pend = [1, 2, 3] := by decide

set_option maxRecDepth 100000 in
/-- the hypotheses of `save_fail_buffered` hold for `witnessObj` (complete file: 144 bytes) and every
    `k ≤ 143`, those of `save_ok_buffered` for every `k ≥ 144` and for the unlimited device -/
example : ∃ ru, save witnessObj {} = .ok ru ∧ 143 < ru.os.content.length ∧ ru.ok = true ∧
    ru.os.content.length ≤ 144 := by
  have hs : summary (save witnessObj {}) = some (true, 144) := by decide
  cases h : save witnessObj {} with
  | error f => rw [h] at hs; cases hs
  | ok ru =>
    rw [h] at hs
    simp only [summary, Option.some.injEq, Prod.mk.injEq] at hs
    exact ⟨ru, rfl, by omega, hs.1, by omega⟩

end C16
end ElfioVerif
