/-
C05 ∘ C04 — `image_bytes_at_same_vaddr` with both layout hypotheses discharged.

`C05.image_bytes_at_same_vaddr` (Props/C05.lean) takes `LayoutOk` (disjointness of the writes) and
`Equidistant g' b` (C04's `member_equidistant`) as hypotheses.  Here both come from C04:
`LayoutOk` through `C03.layoutOk_of_save`, equidistance through `C04.save_segments` (flat segments)
and `C04.save_nested_equidistant` (segments nested in a flat one).  What remains: the success of
`save`, `C03.SaveDomain` (decidable facts about the input object) and the writer-domain conditions
of C04 at the turn of the segment in question (`layoutDomB`, a Bool function of the input).
-/
import ElfioVerif.Props.C03Compose
namespace ElfioVerif.C05
open ElfioVerif Gen Sv C03

/-- the saved counterparts of section `i` and segment `j` -/
theorem saved_pair {o : Obj} {os : OStream} {r : SaveRes} (hs : save o os = .ok r) (hok : r.ok = true)
    (hidx : SegIdxOk o.segs) {i j : Nat} {a : SecBuf} {g : Seg}
    (ha : o.secs[i]? = some a) (hgj : o.segs[j]? = some g) :
    ∃ b g', r.obj.secs[i]? = some b ∧ r.obj.segs[j]? = some g' ∧ SecSaved a b ∧ SegSaved o.cls g g' := by
  obtain ⟨fsec, fseg, -, -, -⟩ := save_writes_fields hs hok hidx
  have hi : i < r.obj.secs.length := by
    rw [fsec.1]
    rcases Nat.lt_or_ge i o.secs.length with h | h
    · exact h
    · rw [List.getElem?_eq_none h] at ha; cases ha
  have hj : j < r.obj.segs.length := by
    rw [fseg.1]
    rcases Nat.lt_or_ge j o.segs.length with h | h
    · exact h
    · rw [List.getElem?_eq_none h] at hgj; cases hgj
  exact ⟨r.obj.secs[i], r.obj.segs[j], List.getElem?_eq_getElem hi, List.getElem?_eq_getElem hj,
    fsec.2 i a _ ha (List.getElem?_eq_getElem hi), fseg.2 j g _ hgj (List.getElem?_eq_getElem hj)⟩

theorem occ_of_secSaved {a b : SecBuf} (h : SecSaved a b) : b.Occ ↔ a.Occ := by
  unfold SecBuf.Occ; rw [h.fields.2.2.1, h.fields.2.2.2.2.1]

theorem equidistant_of_sub {g : Seg} {s : SecBuf} (h : s.offset - g.offset = s.addr - g.vaddr) :
    Equidistant g s := by
  unfold Equidistant
  rw [h]; bv_omega

/-- **image_bytes_at_same_vaddr_of_save** (flat segment).  `a` is section `i`, `g` segment `j` of an
    object in `SaveDomain`; `g` is selected (`sel j`) in C04's writer-domain condition `layoutDomB`;
    `i` is a member of `g` and `a` occupies file space.  Then in the bytes a successful `save`
    produces, read with the specification's decoder: `p_vaddr + (sh_offset − p_offset) = sh_addr`;
    `p_vaddr` is the segment's address; `sh_addr` is the section's address if it had one; and the
    section's data are found at the file position the loader maps to `sh_addr`. -/
theorem image_bytes_at_same_vaddr_of_save {o : Obj} {os : OStream} {r : SaveRes} {hdr : Bytes}
    (hs : save o os = .ok r) (hok : r.ok = true) (hg : os.Good) (hd : SaveDomain o hdr)
    (sel : Nat → Bool) (hdom : layoutDomB false false sel (preSave o) hdr = true)
    {i j : Nat} {a : SecBuf} {g : Seg} (ha : o.secs[i]? = some a) (hgj : o.segs[j]? = some g)
    (hsel : sel j = true) (hmem : ∃ idx ∈ g.secs, idx.toNat = i) (hocc : a.Occ) :
    ∃ h, r.obj.hdr = some h ∧
    let img := r.os.content
    let sb := (Hdr.e_shoff o.cls o.enc h).toNat + (Hdr.e_shentsize o.cls o.enc h).toNat * a.index
    let pb := (Hdr.e_phoff o.cls o.enc h).toNat + (Hdr.e_phentsize o.cls o.enc h).toNat * g.index
    let shAddr := BitVec.ofNat 64 (Spec.get (Spec.shdrL o.cls) o.enc img sb "sh_addr")
    let shOff := BitVec.ofNat 64 (Spec.get (Spec.shdrL o.cls) o.enc img sb "sh_offset")
    let pVaddr := BitVec.ofNat 64 (Spec.get (Spec.phdrL o.cls) o.enc img pb "p_vaddr")
    let pOff := BitVec.ofNat 64 (Spec.get (Spec.phdrL o.cls) o.enc img pb "p_offset")
    pVaddr + (shOff - pOff) = shAddr ∧
    pVaddr = g.vaddr ∧
    (a.addrSet = true → shAddr = a.addr) ∧
    (a.stype ≠ BitVec.ofNat 32 SHT_NOBITS → a.stype ≠ BitVec.ofNat 32 SHT_NULL → a.size ≠ 0 →
      a.data.isSome = true → slice img (pOff + (shAddr - pVaddr)).toNat a.view.length = a.view) := by
  have hidx := hd.tables.segIdx
  have hnd := nodup_of_segIdx hidx
  obtain ⟨h, hh, -, hl⟩ := layoutOk_of_save hs hok hd.hdrEq hd.nsecs hd.sec0 hd.noWrap hd.tables hd.small
  obtain ⟨b, g', hb, hg', sv, sg⟩ := saved_pair hs hok hidx ha hgj
  have hsf := save_segFit hs hok hd.hdrEq hd.nsecs hd.sec0 hd.noWrap hnd hd.secFit hd.segFit g'
    (List.mem_of_getElem? hg')
  have hgi : g'.index = j := by rw [(SegSaved.fields sg).2.2.2.2.2.1]; exact hidx j g hgj
  obtain ⟨idx, hidm, hii⟩ := hmem
  obtain ⟨-, -, fe⟩ := C04.save_segments false false o os r hdr hs hok hd.hdrEq hd.nsecs hd.sec0 hd.noWrap hnd
    sel hdom g' (List.mem_of_getElem? hg') (by rw [hgi]; exact hsel)
  have e := (fe idx (by rw [(SegSaved.fields sg).2.2.2.2.1]; exact hidm) b (by rw [hii]; exact hb)).1
    ((occ_of_secSaved sv).2 hocc)
  exact ⟨h, hh, image_bytes_at_same_vaddr hs hok hg hd.noTrans hidx hh hl ha hb hgj hg'
    (hd.secFit a (List.mem_of_getElem? ha)) hsf (equidistant_of_sub e)⟩

/-- **image_bytes_at_same_vaddr_nested_of_save** (segment nested in a flat one).  `gn` (segment `jn`)
    is a segment whose first member had been generated when its turn came (`segNestedStartB`, selected
    by `selN`) and all of whose members are members of the flat segment `ge` (segment `je`, selected
    by `selE` in `layoutDomB`); its first member `af` occupies file space and carries the explicit
    address `gn.vaddr` (writer domain: "a nested segment starts at its first member's address").
    Then every file-occupying member `a` of `gn` satisfies the conclusion of
    `image_bytes_at_same_vaddr` with respect to `gn`. -/
theorem image_bytes_at_same_vaddr_nested_of_save {o : Obj} {os : OStream} {r : SaveRes} {hdr : Bytes}
    (hs : save o os = .ok r) (hok : r.ok = true) (hg : os.Good) (hd : SaveDomain o hdr)
    (selE selN : Nat → Bool) (hdom : layoutDomB false false selE (preSave o) hdr = true)
    (hnest : layoutSelB segNestedStartB selN (preSave o) hdr = true)
    {i je jn : Nat} {a af : SecBuf} {ge gn : Seg} {f : BitVec 16}
    (ha : o.secs[i]? = some a) (hge : o.segs[je]? = some ge) (hgn : o.segs[jn]? = some gn)
    (hselE : selE je = true) (hselN : selN jn = true) (hsub : ∀ idx ∈ gn.secs, idx ∈ ge.secs)
    (hhead : gn.secs.head? = some f) (haf : o.secs[f.toNat]? = some af) (hfocc : af.Occ)
    (hfset : af.addrSet = true) (hva : gn.vaddr = af.addr)
    (hmem : ∃ idx ∈ gn.secs, idx.toNat = i) (hocc : a.Occ) :
    ∃ h, r.obj.hdr = some h ∧
    let img := r.os.content
    let sb := (Hdr.e_shoff o.cls o.enc h).toNat + (Hdr.e_shentsize o.cls o.enc h).toNat * a.index
    let pb := (Hdr.e_phoff o.cls o.enc h).toNat + (Hdr.e_phentsize o.cls o.enc h).toNat * gn.index
    let shAddr := BitVec.ofNat 64 (Spec.get (Spec.shdrL o.cls) o.enc img sb "sh_addr")
    let shOff := BitVec.ofNat 64 (Spec.get (Spec.shdrL o.cls) o.enc img sb "sh_offset")
    let pVaddr := BitVec.ofNat 64 (Spec.get (Spec.phdrL o.cls) o.enc img pb "p_vaddr")
    let pOff := BitVec.ofNat 64 (Spec.get (Spec.phdrL o.cls) o.enc img pb "p_offset")
    pVaddr + (shOff - pOff) = shAddr ∧
    pVaddr = gn.vaddr ∧
    (a.addrSet = true → shAddr = a.addr) ∧
    (a.stype ≠ BitVec.ofNat 32 SHT_NOBITS → a.stype ≠ BitVec.ofNat 32 SHT_NULL → a.size ≠ 0 →
      a.data.isSome = true → slice img (pOff + (shAddr - pVaddr)).toNat a.view.length = a.view) := by
  have hidx := hd.tables.segIdx
  have hnd := nodup_of_segIdx hidx
  obtain ⟨h, hh, -, hl⟩ := layoutOk_of_save hs hok hd.hdrEq hd.nsecs hd.sec0 hd.noWrap hd.tables hd.small
  obtain ⟨b, gn', hb, hgn', sv, sgn⟩ := saved_pair hs hok hidx ha hgn
  obtain ⟨bf, ge', hbf, hge', svf, sge⟩ := saved_pair hs hok hidx haf hge
  have hsf := save_segFit hs hok hd.hdrEq hd.nsecs hd.sec0 hd.noWrap hnd hd.secFit hd.segFit gn'
    (List.mem_of_getElem? hgn')
  have hni : gn'.index = jn := by rw [(SegSaved.fields sgn).2.2.2.2.2.1]; exact hidx jn gn hgn
  have hei : ge'.index = je := by rw [(SegSaved.fields sge).2.2.2.2.2.1]; exact hidx je ge hge
  obtain ⟨f', sf, hh', hsf', -, key⟩ := C04.save_nested_equidistant o os r hdr hs hok hd.hdrEq hd.nsecs hd.sec0
    hd.noWrap hnd selE selN hdom hnest ge' gn' (List.mem_of_getElem? hge') (List.mem_of_getElem? hgn')
    (by rw [hei]; exact hselE) (by rw [hni]; exact hselN)
    (by rw [(SegSaved.fields sgn).2.2.2.2.1, (SegSaved.fields sge).2.2.2.2.1]; exact hsub)
  rw [(SegSaved.fields sgn).2.2.2.2.1, hhead] at hh'
  simp only [Option.some.injEq] at hh'
  subst hh'
  rw [hbf] at hsf'
  simp only [Option.some.injEq] at hsf'
  subst hsf'
  obtain ⟨idx, hidm, hii⟩ := hmem
  have e := key ((occ_of_secSaved svf).2 hfocc)
    (by rw [(SegSaved.fields sgn).2.2.1, (svf.addrKept hfset).1]; exact hva)
    idx (by rw [(SegSaved.fields sgn).2.2.2.2.1]; exact hidm) b (by rw [hii]; exact hb) ((occ_of_secSaved sv).2 hocc)
  exact ⟨h, hh, image_bytes_at_same_vaddr hs hok hg hd.noTrans hidx hh hl ha hb hgn hgn'
    (hd.secFit a (List.mem_of_getElem? ha)) hsf (equidistant_of_sub e)⟩

/-! ### non-vacuity: `C03.exBuiltObj` (made through the API) -/

/-- `.text` (section 2) in the PT_LOAD (segment 0) of `exBuiltObj`: the hypotheses of the flat theorem -/
example :
    layoutDomB false false (fun j => j == 0) (preSave exBuiltObj) exBuiltHdr = true ∧
    (match exBuiltObj.secs[2]?, exBuiltObj.segs[0]? with
     | some a, some g => g.secs.any (fun idx => idx.toNat == 2) && decide a.Occ
     | _, _ => false) = true := by
  refine ⟨by decide +kernel, by decide +kernel⟩

/-- `.note` (section 3) in the nested PT_NOTE (segment 1): the hypotheses of the nested theorem
    (all members of segment 1 are members of segment 0; the first member, section 3, occupies file
    space and carries the explicit address that is the PT_NOTE's `p_vaddr`) -/
example :
    layoutDomB false false (fun j => j == 0) (preSave exBuiltObj) exBuiltHdr = true ∧
    layoutSelB segNestedStartB (fun j => j == 1) (preSave exBuiltObj) exBuiltHdr = true ∧
    (match exBuiltObj.secs[3]?, exBuiltObj.segs[0]?, exBuiltObj.segs[1]? with
     | some a, some ge, some gn =>
       gn.secs.all (fun idx => ge.secs.contains idx) && gn.secs.head? == some 3#16 && decide a.Occ &&
         a.addrSet && gn.vaddr == a.addr
     | _, _, _ => false) = true := by
  refine ⟨by decide +kernel, by decide +kernel, by decide +kernel⟩

end ElfioVerif.C05
