import ElfioVerif.Model.Writer
namespace ElfioVerif.C04
end ElfioVerif.C04
