/-
C04 — saved files are structurally well-formed.

The layout part of `elfio::save` is three passes over one file cursor
(`layout_segments_and_their_sections` / `write_segment_data`, `layout_sections_without_segments`,
`layout_section_table`).  The theorems below are the monotone cursor argument, for any number of
sections and segments (induction over the member lists and the ordered segment list):

  * `layoutLoose_disjoint`, `layoutLoose_aligned`   pass 3
  * `wsd_monotone`                                   `write_segment_data`
  * `layout_disjoint`                                the three passes of a successful `save`
  * writer-domain rungs: see the second half of the file.

No-wrap hypotheses (`looseNW`, `wsdLoopNW`, `layoutNW` — Lemmas/Layout.lean) are Bool-valued
functions following the recursion of the pass: every cursor update `p ↦ p'` must satisfy
`p.toNat ≤ p'.toNat` (for one 64-bit addition `p' = p + d` this is `p.toNat + d.toNat < 2^64`,
`noWrap_iff`) and every offset stored in an ELF32 field must be `< 2^32`.
-/
import ElfioVerif.Lemmas.Layout
import ElfioVerif.Lemmas.LayoutNested
import ElfioVerif.Lemmas.ValidateL
namespace ElfioVerif.C04
open ElfioVerif Gen

/-- what the no-wrap functions demand of one cursor update -/
theorem noWrap_iff (p d : BitVec 64) :
    p.toNat ≤ (p + d).toNat ↔ p.toNat + d.toNat < 18446744073709551616 := bv_add_le_iff p d

/-! ### pass 3: `layout_sections_without_segments` -/

/-- Sections placed by `layout_sections_without_segments` (index ≠ 0): start at or after the
    incoming cursor; their file range (for types that occupy file space) ends at or before the
    outgoing cursor; of two placed sections the later one starts after the end of the earlier one;
    sections inside a segment are unchanged; the cursor never decreases. -/
theorem layoutLoose_disjoint (c : Cls) (segs : List Seg) (l : List SecBuf) (pos : BitVec 64)
    (hnw : looseNW c segs l 0 pos = true) :
    let r := layoutLoose c segs l 0 pos []
    r.1.length = l.length ∧ pos.toNat ≤ r.2.toNat ∧
    (∀ (k : Nat) (s : SecBuf), l[k]? = some s → withoutSegment segs k = false → r.1[k]? = some s) ∧
    (∀ (k : Nat) (s : SecBuf), l[k]? = some s → withoutSegment segs k = true →
      ∃ s', r.1[k]? = some s' ∧ SecBuf.Moved s s' ∧ s'.addr = s.addr ∧
        (s.index ≠ 0 → pos.toNat ≤ s'.offset.toNat ∧ s'.offset.toNat ≤ r.2.toNat ∧
          (lsws_occupies s.stype = true → s'.endN ≤ r.2.toNat))) ∧
    (∀ (k1 k2 : Nat) (a b a' b' : SecBuf), k1 < k2 → l[k1]? = some a → l[k2]? = some b →
      withoutSegment segs k1 = true → withoutSegment segs k2 = true →
      r.1[k1]? = some a' → r.1[k2]? = some b' → a.index ≠ 0 → b.index ≠ 0 →
      lsws_occupies a.stype = true → a'.endN ≤ b'.offset.toNat) := by
  intro r
  have hr : r = ((looseSpec c segs l 0 pos).1, (looseSpec c segs l 0 pos).2) := by
    show layoutLoose c segs l 0 pos [] = _
    rw [layoutLoose_eq_spec]; simp
  obtain ⟨f1, f2, f3, f4, f5⟩ := looseSpec_facts c segs l 0 pos hnw
  simp only [Nat.zero_add] at f3 f4 f5
  rw [hr]
  refine ⟨f1, f2, f3, ?_, ?_⟩
  · intro k s hk hw
    obtain ⟨s', h1, h2, h3, -, h5⟩ := f4 k s hk hw
    exact ⟨s', h1, h2, h3, fun hi => ⟨(h5 hi).1, (h5 hi).2.1, (h5 hi).2.2.2⟩⟩
  · intro k1 k2 a b a' b' hlt h1 h2 hw1 hw2 ha' hb' hia hib ho
    exact (f5 k1 k2 a b a' b' hlt h1 h2 hw1 hw2 ha' hb' hia hib).2 ho

/-- every section placed by `layout_sections_without_segments` starts at a multiple of its alignment -/
theorem layoutLoose_aligned (c : Cls) (segs : List Seg) (l : List SecBuf) (pos : BitVec 64)
    (hnw : looseNW c segs l 0 pos = true) (k : Nat) (s s' : SecBuf)
    (hk : l[k]? = some s) (hw : withoutSegment segs k = true) (hi : s.index ≠ 0)
    (hk' : (layoutLoose c segs l 0 pos []).1[k]? = some s') :
    s'.offset.toNat % (max s.addrAlign.toNat 1) = 0 := by
  rw [layoutLoose_eq_spec] at hk'
  simp only [List.reverse_nil, List.nil_append] at hk'
  obtain ⟨-, -, -, f4, -⟩ := looseSpec_facts c segs l 0 pos hnw
  simp only [Nat.zero_add] at f4
  obtain ⟨t, h1, -, -, -, h5⟩ := f4 k s hk hw
  rw [hk'] at h1; simp only [Option.some.injEq] at h1; subst h1
  exact (h5 hi).2.2.1

/-- non-vacuity: `.text`-like section (align 16, 5 bytes) and a string table (align 1) after a
    64-byte header: placed at 64 and 69 -/
example :
    let s1 : SecBuf := { SecBuf.fresh .c64 1 with size := 5, addrAlign := 16, index := 1 }
    let s2 : SecBuf := { SecBuf.fresh .c64 3 with size := 7, addrAlign := 1, index := 2 }
    looseNW .c64 [] [SecBuf.fresh .c64 0, s1, s2] 0 64 = true ∧
    ((layoutLoose .c64 [] [SecBuf.fresh .c64 0, s1, s2] 0 64 []).1.map (·.offset)) = [0, 64, 69] := by
  decide

/-! ### pass 2: `write_segment_data` -/

/-- `write_segment_data` (any member list, any state satisfying the invariant `LayInv`):
    the cursor never decreases; `gen` only gains `true`s; already generated members are not
    re-placed (their section is unchanged); every member generated in this call that occupies file
    space is placed between the cursor before and the cursor after; all sections keep every field
    but `addr`/`offset`; and the invariant (placed sections pairwise disjoint, inside
    `[lo, cursor)`) is maintained. -/
theorem wsd_monotone (c : Cls) (g : Seg) (segStart : BitVec 64) (l : List (BitVec 16)) (st st' : WsdSt)
    (lo : Nat) (hinv : LayInv lo st.lay) (hnw : wsdLoopNW c g segStart l st = true)
    (h : wsdLoop c g segStart l st = .ok (some st')) :
    st.lay.pos.toNat ≤ st'.lay.pos.toNat ∧
    (∀ (k : Nat), st.lay.gen[k]? = some true → st'.lay.gen[k]? = some true) ∧
    (∀ (k : Nat) (s : SecBuf), st.lay.gen[k]? = some true → st.lay.secs[k]? = some s → st'.lay.secs[k]? = some s) ∧
    (∀ (k : Nat) (s' : SecBuf), st.lay.gen[k]? ≠ some true → st'.lay.gen[k]? = some true →
      st'.lay.secs[k]? = some s' → s'.Occ →
      st.lay.pos.toNat ≤ s'.offset.toNat ∧ s'.endN ≤ st'.lay.pos.toNat) ∧
    (∀ (k : Nat) (s : SecBuf), st.lay.secs[k]? = some s → ∃ s', st'.lay.secs[k]? = some s' ∧ SecBuf.Moved s s') ∧
    LayInv lo st'.lay := by
  obtain ⟨hi, hs⟩ := wsdLoop_inv c g segStart l st st' lo hinv hnw h
  exact ⟨hs.mono, hs.genMono, fun k s hg => hs.frame k s hg, fun k s' hn hg => hs.fresh k s' hn hg, hs.moved, hi⟩

/-! ### the three passes of `save` -/

theorem save_cursor0_toNat (a b c : BitVec 16) :
    (save_cursor0 a b c).toNat = a.toNat + b.toNat * c.toNat := by
  have ha := a.isLt; have hb := b.isLt; have hc := c.isLt
  have hm : b.toNat * c.toNat < 65536 * 65536 := Nat.mul_lt_mul'' hb hc
  simp only [save_cursor0, BitVec.toNat_add, BitVec.toNat_mul, BitVec.toNat_setWidth, Nat.reducePow]
  simp only [Nat.reduceMul] at hm
  rw [Nat.mod_eq_of_lt (show a.toNat < 18446744073709551616 by omega),
      Nat.mod_eq_of_lt (show b.toNat < 18446744073709551616 by omega),
      Nat.mod_eq_of_lt (show c.toNat < 18446744073709551616 by omega),
      Nat.mod_eq_of_lt (show b.toNat * c.toNat < 18446744073709551616 by omega)]
  omega

/-- **Disjointness of everything `save` writes.**  For a successful `save` (any object, any number
    of sections and segments; no writer-domain hypothesis): with `eh = e_ehsize`,
    `pht = e_phentsize * e_phnum` and `shoff` the section header table offset,

      ELF header `[0, eh)`  <  program header table `[eh, eh + pht)`  ≤  every non-empty
      file-occupying section `[offset, offset+size)`  ≤  `shoff`,  `shoff % 16 = 0`,

    and any two such sections are disjoint.  Every section is placed — inside a segment it is
    generated by `write_segment_data` (`get_ordered_segments` returns a permutation,
    `orderedSegments_perm`), otherwise by `layout_sections_without_segments` (`placed_all`).
    Hypotheses: fewer than 2^16 sections; a section that occupies file space does not carry
    index 0 (`set_offset` is skipped for index 0; true when section 0 is the SHT_NULL section);
    no wrap-around (`layoutNW`).

    Segments whose offset was initialised to 0 (`lseg_offset0`) need no special treatment here:
    they change `seg_start_pos` and the initial sizes, but their members are still placed at the
    running cursor.  What they affect is the *segment* range (it starts at file offset 0 and
    contains the headers), which concerns `member_inside` below, not disjointness. -/
theorem layout_disjoint (o : Obj) (os : OStream) (r : SaveRes) (hdr : Bytes)
    (hs : save o os = .ok r) (hok : r.ok = true) (hh : o.hdr = some hdr)
    (hn : o.secs.length < 65536)
    (h0 : ∀ (i : Nat) (s : SecBuf), o.secs[i]? = some s → s.Occ → s.index ≠ 0)
    (hnw : layoutNW (preSave o) hdr = true) :
    let eh := (Hdr.e_ehsize o.cls o.enc (saveHdr0 o hdr)).toNat
    let pht := (Hdr.e_phentsize o.cls o.enc (saveHdr0 o hdr)).toNat * (Hdr.e_phnum o.cls o.enc (saveHdr0 o hdr)).toNat
    let shoff := r.obj.curPos.toNat
    (∀ (k : Nat) (s : SecBuf), r.obj.secs[k]? = some s → s.Occ →
      eh + pht ≤ s.offset.toNat ∧ s.endN ≤ shoff) ∧
    (∀ (k1 k2 : Nat) (a b : SecBuf), k1 ≠ k2 → r.obj.secs[k1]? = some a → r.obj.secs[k2]? = some b →
      a.Occ → b.Occ → a.endN ≤ b.offset.toNat ∨ b.endN ≤ a.offset.toNat) ∧
    eh + pht < shoff ∧ shoff % 16 = 0 := by
  obtain ⟨hdr', res, hh', hl, hsegs, hcur, hsecs⟩ := save_layout o os r hs hok
  rw [hh] at hh'; simp only [Option.some.injEq] at hh'; subst hh'
  have hn' : (preSave o).secs.length < 65536 := by rw [preSave_length]; exact hn
  have h0' := preSave_h0 o h0
  obtain ⟨hP, -, hlt, h16⟩ := layout_packed (preSave o) hdr res hl hnw hn' h0'
  have hP' : Packed res.pos0.toNat res.pos3.toNat r.obj.secs
      (fun k => res.lay2.Gen k ∨ withoutSegment res.segs k = true) := by
    apply hP.of_hdrOf
    rw [hsecs, residentForSave_hdr]; simp
  have hall := placed_all (preSave o) hdr res hl hnw hn' h0'
  obtain ⟨hhdr0, hpos0, -⟩ := layoutOf_parts (preSave o) hdr res hl
  have hp0 : res.pos0.toNat = (Hdr.e_ehsize o.cls o.enc res.hdr0).toNat +
      (Hdr.e_phentsize o.cls o.enc res.hdr0).toNat * (Hdr.e_phnum o.cls o.enc res.hdr0).toNat := by
    rw [hpos0, save_cursor0_toNat]; rfl
  rw [hhdr0, saveHdr0_preSave] at hp0
  simp only [hcur]
  refine ⟨?_, ?_, ?_, h16⟩
  · intro k s hk ho
    have := hP'.inR k s hk (hall k) ho
    omega
  · intro k1 k2 a b hne h1 h2 ha hb
    exact hP'.disj k1 k2 a b hne h1 h2 (hall k1) (hall k2) ha hb
  · have := hP'.le; omega

/-- **Alignment.**  After a successful `save`, every section that was given no explicit address
    (index ≠ 0, not SHT_NULL-typed) starts at a multiple of its alignment (`max(sh_addralign, 1)`),
    whether it was placed as a segment member (alignment gap of `write_segment_data`) or by
    `layout_sections_without_segments`. -/
theorem layout_aligned (o : Obj) (os : OStream) (r : SaveRes) (hdr : Bytes)
    (hs : save o os = .ok r) (hok : r.ok = true) (hh : o.hdr = some hdr)
    (hn : o.secs.length < 65536)
    (h0 : ∀ (i : Nat) (s : SecBuf), o.secs[i]? = some s → s.Occ → s.index ≠ 0)
    (hnw : layoutNW (preSave o) hdr = true)
    (k : Nat) (s0 s : SecBuf) (h0k : o.secs[k]? = some s0) (hk : r.obj.secs[k]? = some s)
    (ha : s0.addrSet = false) (hnn : s0.stype ≠ BitVec.ofNat 32 SHT_NULL) (hi : s0.index ≠ 0) :
    s.offset.toNat % (max s0.addrAlign.toNat 1) = 0 := by
  obtain ⟨hdr', res, hh', hl, -, -, hsecs⟩ := save_layout o os r hs hok
  rw [hh] at hh'; simp only [Option.some.injEq] at hh'; subst hh'
  have hn' : (preSave o).secs.length < 65536 := by rw [preSave_length]; exact hn
  have h0' := preSave_h0 o h0
  have he : r.obj.secs.map hdrOf = res.secs.map hdrOf := by
    rw [hsecs, residentForSave_hdr]; simp
  obtain ⟨s', hs', hhs⟩ := hdrOf_getElem? he k s hk
  -- the section at position `k` when the layout starts has the same header fields as `s0`
  obtain ⟨t0, ht0, hht⟩ : ∃ t0, (preSave o).secs[k]? = some t0 ∧ hdrOf t0 = hdrOf s0 := by
    have h1 : ((preSave o).secs.map hdrOf)[k]? = some (hdrOf s0) := by
      rw [preSave_hdr, List.getElem?_map, h0k]; rfl
    rw [List.getElem?_map] at h1
    cases hq : (preSave o).secs[k]? with
    | none => rw [hq] at h1; exact nomatch h1
    | some t0 => rw [hq] at h1; exact ⟨t0, rfl, by simpa using h1⟩
  simp only [hdrOf, Prod.mk.injEq] at hht
  obtain ⟨-, -, e3, e4, -, -, e7, e8⟩ := hht
  have := layout_aligned_res (preSave o) hdr res hl hnw hn' h0' k t0 s' ht0 hs'
    (by rw [e8]; exact ha) (by rw [e3]; exact hnn) (by rw [e4]; exact hi)
  simp only [hdrOf, Prod.mk.injEq] at hhs
  rw [← hhs.1, ← e7]; exact this

/-! ### writer domain: one segment of `layout_segments_and_their_sections`

`lay`, `g`: layout state and segment (after `calc_segment_alignment`) when the segment's turn comes;
`lay'`, `g'`: afterwards.  "Generated by this segment": `lay.gen[k] ≠ true`, `lay'.gen[k] = true`.
Hypotheses: the invariant `LayInv` (which the previous segments maintain, `wsd_monotone`), no wrap
(`segNW`) and the writer-domain side conditions `segDom cov ins` (Lemmas/Layout.lean):
every non-NULL member counts towards the memory size (SHF_ALLOC, not a TLS NOBITS section outside
PT_TLS), the memory size neither wraps nor exceeds the class's field, writer-assigned addresses
fit the field; `cov`: a not yet generated member with an explicit address is a non-empty
file-occupying section (`NobitsAtCursor`, excludes F14); `ins`: a not yet generated NOBITS member
needs no alignment gap (cf. F13). -/

/-- the segment's memory size covers its file size -/
theorem memsz_ge_filesz (c : Cls) (hdrPhoff : BitVec 64) (phentsize phnum : BitVec 16)
    (lay lay' : Layout) (g g' : Seg) (lo : Nat) (hinv : LayInv lo lay)
    (hnw : segNW c hdrPhoff phentsize phnum lay g = true)
    (hdom : segDom false false c hdrPhoff phentsize phnum lay g = true)
    (h : layoutSegment c hdrPhoff phentsize phnum lay g = .ok (some (lay', g'))) :
    g'.filesz.toNat ≤ g'.memsz.toNat :=
  (layoutSegment_dom false false c hdrPhoff phentsize phnum lay lay' g g' lo hinv hnw hdom h).1

/-- a file-occupying member generated by the segment is at the same distance from the segment start
    in the file as in memory (64-bit arithmetic, exact) -/
theorem member_equidistant (c : Cls) (hdrPhoff : BitVec 64) (phentsize phnum : BitVec 16)
    (lay lay' : Layout) (g g' : Seg) (lo : Nat) (hinv : LayInv lo lay)
    (hnw : segNW c hdrPhoff phentsize phnum lay g = true)
    (hdom : segDom false false c hdrPhoff phentsize phnum lay g = true)
    (h : layoutSegment c hdrPhoff phentsize phnum lay g = .ok (some (lay', g')))
    (k : Nat) (s' : SecBuf) (hng : lay.gen[k]? ≠ some true) (hg : lay'.gen[k]? = some true)
    (hs : lay'.secs[k]? = some s') (ho : s'.Occ) :
    s'.offset - g'.offset = s'.addr - g'.vaddr :=
  (layoutSegment_dom false false c hdrPhoff phentsize phnum lay lay' g g' lo hinv hnw hdom h).2.1 k s' hng hg hs ho

/-- a segment that starts a fresh run (not the PHDR / offset-0 special cases, first member not yet
    generated): `p_offset ≡ p_vaddr (mod p_align)`.  The 64-bit wrap in
    `adjustment = req_page_alignment − cur_page_alignment` is harmless: `(align + adjustment) % align`
    is the same residue (alignment ≤ 2^63, true for every power of two). -/
theorem segment_congruent (c : Cls) (hdrPhoff : BitVec 64) (phentsize phnum : BitVec 16)
    (lay lay' : Layout) (g g' : Seg) (lo : Nat) (hinv : LayInv lo lay)
    (hnw : segNW c hdrPhoff phentsize phnum lay g = true)
    (hdom : segDom false false c hdrPhoff phentsize phnum lay g = true)
    (h : layoutSegment c hdrPhoff phentsize phnum lay g = .ok (some (lay', g')))
    (hfresh : segFresh lay g) (hal : g.align.toNat ≤ 9223372036854775808) :
    g'.offset.toNat % (max g'.align.toNat 1) = g'.vaddr.toNat % (max g'.align.toNat 1) :=
  ((layoutSegment_dom false false c hdrPhoff phentsize phnum lay lay' g g' lo hinv hnw hdom h).2.2 hfresh).1 hal

/-- the memory size covers every (non-NULL) member generated by a segment that starts a fresh run —
    under the side condition `cov` (F14): no explicit address on a NOBITS or empty member -/
theorem memsz_covers (c : Cls) (hdrPhoff : BitVec 64) (phentsize phnum : BitVec 16)
    (lay lay' : Layout) (g g' : Seg) (lo : Nat) (hinv : LayInv lo lay)
    (hnw : segNW c hdrPhoff phentsize phnum lay g = true)
    (hdom : segDom true false c hdrPhoff phentsize phnum lay g = true)
    (h : layoutSegment c hdrPhoff phentsize phnum lay g = .ok (some (lay', g')))
    (hfresh : segFresh lay g)
    (k : Nat) (s' : SecBuf) (hng : lay.gen[k]? ≠ some true) (hg : lay'.gen[k]? = some true)
    (hs : lay'.secs[k]? = some s') (hnn : s'.stype ≠ BitVec.ofNat 32 SHT_NULL) :
    (s'.addr - g'.vaddr).toNat + s'.size.toNat ≤ g'.memsz.toNat :=
  ((layoutSegment_dom true false c hdrPhoff phentsize phnum lay lay' g g' lo hinv hnw hdom h).2.2 hfresh).2.1
    rfl k s' hng hg hs hnn

/-- a file-occupying member generated by a segment that starts a fresh run lies inside the
    segment's file range — under the side condition `ins`: no alignment gap before a NOBITS member -/
theorem member_inside (c : Cls) (hdrPhoff : BitVec 64) (phentsize phnum : BitVec 16)
    (lay lay' : Layout) (g g' : Seg) (lo : Nat) (hinv : LayInv lo lay)
    (hnw : segNW c hdrPhoff phentsize phnum lay g = true)
    (hdom : segDom false true c hdrPhoff phentsize phnum lay g = true)
    (h : layoutSegment c hdrPhoff phentsize phnum lay g = .ok (some (lay', g')))
    (hfresh : segFresh lay g)
    (k : Nat) (s' : SecBuf) (hng : lay.gen[k]? ≠ some true) (hg : lay'.gen[k]? = some true)
    (hs : lay'.secs[k]? = some s') (ho : s'.Occ) :
    g'.offset.toNat ≤ s'.offset.toNat ∧ s'.endN ≤ g'.offset.toNat + g'.filesz.toNat :=
  ((layoutSegment_dom false true c hdrPhoff phentsize phnum lay lay' g g' lo hinv hnw hdom h).2.2 hfresh).2.2
    rfl k s' hng hg hs ho

/-! ### writer domain, flat objects: the segments of the saved object

`layoutDomB cov ins sel` (Lemmas/Layout.lean) demands at the turn of every segment whose index is
selected by `sel` (all of them for a flat object; the enclosing, non-nested ones otherwise):
`segDom cov ins`; no member of the segment has been generated before its step (`segFlat`:
the member lists of the segments are disjoint and duplicate-free — no nested segments); a segment
with members is neither the PHDR nor the offset-0 special case.  Segment indices are distinct
(`save` puts the laid out segments back by index). -/

/-- the final sections and the sections of the layout agree on every header field the layout
    theorems talk about -/
theorem save_secs_hdr (o : Obj) (os : OStream) (r : SaveRes) (hdr : Bytes)
    (hs : save o os = .ok r) (hok : r.ok = true) (hh : o.hdr = some hdr) :
    ∃ res, layoutOf (preSave o) hdr = .ok (some res) ∧ r.obj.segs = res.segs ∧ r.obj.curPos = res.shoff ∧
      r.obj.secs.map hdrOf = res.secs.map hdrOf := by
  obtain ⟨hdr', res, hh', hl, hsegs, hcur, hsecs⟩ := save_layout o os r hs hok
  rw [hh] at hh'; simp only [Option.some.injEq] at hh'; subst hh'
  exact ⟨res, hl, hsegs, hcur, by rw [hsecs, residentForSave_hdr]; simp⟩

/-- **The segments of the saved object** (writer domain).  For every selected segment `g` of the
    object left by a successful `save` (`sel g.index`; in a flat object: every segment):
    * `p_memsz ≥ p_filesz`;
    * if it has members (and `p_align ≤ 2^63`): `p_offset ≡ p_vaddr (mod max(p_align,1))`;
    * every member `s` that occupies file space is at the same distance from the segment start in
      file and memory; with `ins`: it lies inside `[p_offset, p_offset + p_filesz)`;
      with `cov` (excludes F14): `p_memsz` covers every non-NULL member. -/
theorem save_segments (cov ins : Bool) (o : Obj) (os : OStream) (r : SaveRes) (hdr : Bytes)
    (hs : save o os = .ok r) (hok : r.ok = true) (hh : o.hdr = some hdr)
    (hn : o.secs.length < 65536)
    (h0 : ∀ (i : Nat) (s : SecBuf), o.secs[i]? = some s → s.Occ → s.index ≠ 0)
    (hnw : layoutNW (preSave o) hdr = true) (hnd : (o.segs.map (·.index)).Nodup)
    (sel : Nat → Bool) (hdom : layoutDomB cov ins sel (preSave o) hdr = true)
    (g : Seg) (hg : g ∈ r.obj.segs) (hsel : sel g.index = true) :
    g.filesz.toNat ≤ g.memsz.toNat ∧
    (g.secs ≠ [] → g.align.toNat ≤ 9223372036854775808 →
      g.offset.toNat % (max g.align.toNat 1) = g.vaddr.toNat % (max g.align.toNat 1)) ∧
    (∀ idx ∈ g.secs, ∀ (s : SecBuf), r.obj.secs[idx.toNat]? = some s →
      (s.Occ → s.offset - g.offset = s.addr - g.vaddr) ∧
      (ins = true → s.Occ → g.offset.toNat ≤ s.offset.toNat ∧ s.endN ≤ g.offset.toNat + g.filesz.toNat) ∧
      (cov = true → s.stype ≠ BitVec.ofNat 32 SHT_NULL →
        (s.addr - g.vaddr).toNat + s.size.toNat ≤ g.memsz.toNat)) := by
  obtain ⟨res, hl, hsegs, -, he⟩ := save_secs_hdr o os r hdr hs hok hh
  rw [hsegs] at hg
  have hn' : (preSave o).secs.length < 65536 := by rw [preSave_length]; exact hn
  have h0' := preSave_h0 o h0
  obtain ⟨f1, f2, f3, -⟩ := final_segments cov ins (preSave o) hdr res hl hnw hn' h0' hnd sel hdom g hg hsel
  refine ⟨f1, f2, ?_⟩
  intro idx hidx s hk
  obtain ⟨s', hs', hhs⟩ := hdrOf_getElem? he idx.toNat s hk
  obtain ⟨g1, g2, g3⟩ := f3 idx hidx s' hs'
  have hocc := occ_of_hdrOf hhs
  simp only [hdrOf, Prod.mk.injEq] at hhs
  obtain ⟨e1, e2, e3, -, e5, -, -⟩ := hhs
  unfold SecBuf.endN at *
  rw [← e1, ← e2, ← e3, ← e5]
  exact ⟨fun ho => g1 (hocc.1 ho), fun hi ho => g2 hi (hocc.1 ho), g3⟩

/-- writer-domain side conditions `segDom false false` at every turn (no flatness demanded) -/
def layoutDomAllB (o : Obj) (h : Bytes) : Bool :=
  match layoutOf o h with
  | .ok (some res) =>
    segsAllB (fun lay g => segDom false false o.cls (Hdr.e_phoff o.cls o.enc res.hdr0)
        (Hdr.e_phentsize o.cls o.enc res.hdr0) (Hdr.e_phnum o.cls o.enc res.hdr0) lay g)
      o.cls (Hdr.e_phoff o.cls o.enc res.hdr0) (Hdr.e_phentsize o.cls o.enc res.hdr0)
      (Hdr.e_phnum o.cls o.enc res.hdr0) res.ordered (lay0Of o res.pos0)
  | _ => true

/-- **`p_memsz ≥ p_filesz` for every segment of the saved object**, nested segments included
    (no flatness hypothesis: the running file size never exceeds the running memory size). -/
theorem save_memsz_ge_filesz (o : Obj) (os : OStream) (r : SaveRes) (hdr : Bytes)
    (hs : save o os = .ok r) (hok : r.ok = true) (hh : o.hdr = some hdr)
    (hn : o.secs.length < 65536)
    (h0 : ∀ (i : Nat) (s : SecBuf), o.secs[i]? = some s → s.Occ → s.index ≠ 0)
    (hnw : layoutNW (preSave o) hdr = true) (hnd : (o.segs.map (·.index)).Nodup)
    (hdom : layoutDomAllB (preSave o) hdr = true) (g : Seg) (hg : g ∈ r.obj.segs) :
    g.filesz.toNat ≤ g.memsz.toNat := by
  obtain ⟨res, hl, hsegs, -, -⟩ := save_secs_hdr o os r hdr hs hok hh
  rw [hsegs] at hg
  have hn' : (preSave o).secs.length < 65536 := by rw [preSave_length]; exact hn
  have h0' := preSave_h0 o h0
  obtain ⟨t, ht, rfl⟩ := final_segs_turn (preSave o) hdr res hl hnw hn' h0' hnd g hg
  obtain ⟨-, -, e3⟩ := layoutOf_trace (preSave o) hdr res hl hnw hn' h0'
  obtain ⟨f1, f2, f3, -, -, -⟩ := e3 t ht
  unfold layoutDomAllB at hdom
  rw [hl] at hdom
  have hsd := segsAllB_trace _ _ _ _ _ _ _ hdom t ht
  exact (layoutSegment_dom false false _ _ _ _ t.lay t.lay' t.g t.g' _ f3 f2 hsd f1).1

/-- **What `validate` needs** (C20): the object left by a successful `save` of a flat writer-domain
    object whose SHT_NULL-typed sections are empty and whose PT_LOAD segments (with file size > 0)
    are among the selected, non-nested ones satisfies `LayoutOk` — file ranges of all
    non-empty non-NOBITS sections are pairwise disjoint without wrap-around, and the PROGBITS
    section containing the first file byte of a PT_LOAD segment with file size > 0 is a member of
    that segment at the same distance in file and memory. -/
theorem save_layoutOk (o : Obj) (os : OStream) (r : SaveRes) (hdr : Bytes)
    (hs : save o os = .ok r) (hok : r.ok = true) (hh : o.hdr = some hdr)
    (hn : o.secs.length < 65536)
    (h0 : ∀ (i : Nat) (s : SecBuf), o.secs[i]? = some s → s.Occ → s.index ≠ 0)
    (hnull0 : ∀ s ∈ o.secs, s.stype = BitVec.ofNat 32 SHT_NULL → s.size = 0)
    (hnw : layoutNW (preSave o) hdr = true) (hnd : (o.segs.map (·.index)).Nodup)
    (sel : Nat → Bool) (hdom : layoutDomB false false sel (preSave o) hdr = true)
    (hsel : ∀ g ∈ r.obj.segs, g.stype = BitVec.ofNat 32 PT_LOAD → 0 < g.filesz.toNat → sel g.index = true) :
    LayoutOk r.obj := by
  obtain ⟨hin, hdisj, hlt, -⟩ := layout_disjoint o os r hdr hs hok hh hn h0 hnw
  have hn' : (preSave o).secs.length < 65536 := by rw [preSave_length]; exact hn
  have h0' := preSave_h0 o h0
  have hnull : ∀ s ∈ r.obj.secs, s.stype = BitVec.ofNat 32 SHT_NULL → s.size = 0 := by
    intro s hm he
    obtain ⟨res, hl, -, -, hmap⟩ := save_secs_hdr o os r hdr hs hok hh
    obtain ⟨k, hk⟩ := List.getElem?_of_mem hm
    obtain ⟨s', hs', hhs⟩ := hdrOf_getElem? hmap k s hk
    obtain ⟨s0, hs0, hm0⟩ := final_orig (preSave o) hdr res hl hnw hn' h0' k s' hs'
    obtain ⟨t0, ht0, hht⟩ := hdrOf_getElem? (preSave_hdr o) k s0 hs0
    simp only [hdrOf, Prod.mk.injEq] at hhs hht
    rw [← hhs.2.1, hm0.size, ← hht.2.1]
    apply hnull0 t0 (List.mem_of_getElem? ht0)
    rw [hht.2.2.1, ← hm0.stype, hhs.2.2.1]; exact he
  have hocc : ∀ s ∈ r.obj.secs, s.stype ≠ BitVec.ofNat 32 SHT_NOBITS → 0 < s.size.toNat → s.Occ := by
    intro s hm h1 h2
    refine ⟨h1, fun e => ?_, fun e => ?_⟩
    · rw [hnull s hm e] at h2; exact absurd h2 (by decide)
    · rw [e] at h2; exact absurd h2 (by decide)
  have hsh := r.obj.curPos.isLt
  refine ⟨?_, ?_, ?_⟩
  · intro s hm h1 h2
    obtain ⟨k, hk⟩ := List.getElem?_of_mem hm
    have := (hin k s hk (hocc s hm h1 h2)).2
    unfold SecBuf.endN at this; omega
  · intro i j a b hij hi hj hta htb hsa hsb _ _
    have ha := hocc a (List.mem_of_getElem? hi) hta hsa
    have hb := hocc b (List.mem_of_getElem? hj) htb hsb
    have := hdisj i j a b (by omega) hi hj ha hb
    unfold RangesIntersect SecBuf.endN at *
    omega
  · intro g hg hload hfs s hm hpb h1 h2
    obtain ⟨res, hl, hsegs, -, he⟩ := save_secs_hdr o os r hdr hs hok hh
    have hsg := hsel g hg hload hfs
    rw [hsegs] at hg
    obtain ⟨-, -, -, f4⟩ := final_segments false false (preSave o) hdr res hl hnw hn' h0' hnd sel hdom g hg hsg
    obtain ⟨k, hk⟩ := List.getElem?_of_mem hm
    obtain ⟨s', hs', hhs⟩ := hdrOf_getElem? he k s hk
    have hso : s.Occ := hocc s hm (by rw [hpb]; decide) (by omega)
    have hph : lseg_is_phdr g.stype (BitVec.ofNat 16 g.secs.length) = false := by
      rw [hload]; simp [lseg_is_phdr]; intro hc; exact absurd hc (by decide)
    have hocc' := occ_of_hdrOf hhs
    simp only [hdrOf, Prod.mk.injEq] at hhs
    obtain ⟨e1, e2, -, -, e5, -, -⟩ := hhs
    have := f4 hfs hph k s' hs' (hocc'.1 hso) (by rw [e1]; exact h1) (by unfold SecBuf.endN; rw [e1, e2]; exact h2)
    rw [e1, e5] at this
    bv_omega

/-! ### the ranges lie inside the file -/

/-- **Everything `save` laid out lies inside the saved stream.**  For a successful `save` of an
    object with at least one section whose header buffer has the full length `sizeof(Ehdr)` (as
    `create` and `load` allocate it) and whose section header table offset is below 2^63 (`streamoff` is signed) and fits the class's
    `e_shoff`: the stream content reaches the section header table offset — hence the end of the
    ELF header, of the program header table and of every non-empty file-occupying section
    (`layout_disjoint`) — and the end of every section header record.  (`adjust_stream_size`
    zero-fills up to the position it seeks to.) -/
theorem file_covers (o : Obj) (os : OStream) (r : SaveRes) (hdr : Bytes)
    (hs : save o os = .ok r) (hok : r.ok = true) (hh : o.hdr = some hdr)
    (hn : o.secs.length < 65536) (hne : o.secs ≠ [])
    (h0 : ∀ (i : Nat) (s : SecBuf), o.secs[i]? = some s → s.Occ → s.index ≠ 0)
    (hnw : layoutNW (preSave o) hdr = true)
    (hlen : ehdrSize o.cls ≤ hdr.length) (hfit : fitsB o.cls r.obj.curPos = true)
    (hsh : r.obj.curPos.toNat < 9223372036854775808) :
    r.obj.curPos.toNat ≤ r.os.content.length ∧
    (∀ (k : Nat) (s : SecBuf), r.obj.secs[k]? = some s → s.Occ → s.endN ≤ r.os.content.length) ∧
    (∃ hdrF, r.obj.hdr = some hdrF ∧ Hdr.e_shoff o.cls o.enc hdrF = r.obj.curPos ∧
      ∀ b ∈ r.obj.secs,
        r.obj.curPos.toNat + (Hdr.e_shentsize o.cls o.enc hdrF).toNat * b.index + (encodeShdr o.cls o.enc b).length ≤
          r.os.content.length) := by
  obtain ⟨hdr', hdrF, hh', hF, hFeq, hnf, hos, hfin⟩ := save_stream o os r hs hok
  rw [hh] at hh'; simp only [Option.some.injEq] at hh'; subst hh'
  -- the header reads back the table offset
  have hsho : Hdr.e_shoff o.cls o.enc hdrF = r.obj.curPos := by
    rw [hFeq]
    exact e_shoff_set_shoff _ _ _ _ (by rw [saveHdr0_length (preSave o) _ hlen]; exact hlen) hfit
  -- the stream after the header write is well formed
  have hw1 : ((os.seekp (trApply o.trans 0)).write hdrF).LayWF := by
    have h1 := OStream.lay_write_fail _ _ hnf
    obtain ⟨-, w, -, -, -⟩ := OStream.lay_seekp_facts _ _ h1
    exact (OStream.lay_write_facts _ _ w hnf).1
  rw [hsho] at hos
  rw [hos] at hfin
  have hmid := saveSegments_sticky _ _ _ _ _ _ hfin
  obtain ⟨-, w2, -, hsec⟩ := saveSections_facts _ _ _ _ _ _ hw1 hmid
  obtain ⟨-, hgrow⟩ := saveSegments_facts _ _ _ _ _ _ w2 hfin
  rw [← hos] at hgrow
  have hti : r.obj.curPos.toInt = (r.obj.curPos.toNat : Int) := by
    rw [BitVec.toInt_eq_toNat_cond]
    simp only [Nat.reducePow]
    split
    · rfl
    · omega
  -- at least one section header record is written at or after the table offset
  have hcov : ∀ b ∈ r.obj.secs,
      r.obj.curPos.toNat + (Hdr.e_shentsize o.cls o.enc hdrF).toNat * b.index + (encodeShdr o.cls o.enc b).length ≤
        r.os.content.length := by
    intro b hb
    obtain ⟨g1, g2, -⟩ := hsec b hb
    rw [hti] at g1 g2
    have : ((r.obj.curPos.toNat : Int) + Int.ofNat (Hdr.e_shentsize o.cls o.enc hdrF).toNat * Int.ofNat b.index).toNat =
        r.obj.curPos.toNat + (Hdr.e_shentsize o.cls o.enc hdrF).toNat * b.index := by
      have : (Int.ofNat (Hdr.e_shentsize o.cls o.enc hdrF).toNat * Int.ofNat b.index) =
          (((Hdr.e_shentsize o.cls o.enc hdrF).toNat * b.index : Nat) : Int) := by
        simp [Int.natCast_mul]
      rw [this]; omega
    rw [this] at g2
    omega
  obtain ⟨hin, -, -, -⟩ := layout_disjoint o os r hdr hs hok hh hn h0 hnw
  -- some section exists
  have hex : ∃ b, b ∈ r.obj.secs := by
    obtain ⟨res, hl, -, -, he⟩ := save_secs_hdr o os r hdr hs hok hh
    have hn' : (preSave o).secs.length < 65536 := by rw [preSave_length]; exact hn
    have hl1 := layout_length (preSave o) hdr res hl hnw hn' (preSave_h0 o h0)
    have hl2 : r.obj.secs.length = res.secs.length := by
      have := congrArg List.length he; simpa using this
    have : 0 < r.obj.secs.length := by
      rw [hl2, hl1, preSave_length]
      exact List.length_pos_iff.2 hne
    exact ⟨r.obj.secs[0], List.getElem_mem this⟩
  obtain ⟨b, hb⟩ := hex
  have hbase : r.obj.curPos.toNat ≤ r.os.content.length := by
    have := hcov b hb; omega
  refine ⟨hbase, ?_, hdrF, hF, hsho, hcov⟩
  intro k s hk ho
  have := (hin k s hk ho).2
  omega

/-! ### nested segments -/

/-- **Members of a nested segment are equidistant too.**  `n` is a segment whose first member had
    already been generated when its turn came (`segNestedStartB`, e.g. a PT_NOTE or PT_TLS inside a
    PT_LOAD): it starts at that member's offset.  If every member of `n` is also a member of a
    selected flat segment `e` (for which `save_segments` holds), the first member `sf` occupies file
    space and `n.vaddr` is `sf`'s address (writer domain: "a nested segment's vaddr is its first
    member's address"), then every file-occupying member of `n` is at the same distance from `n`'s
    start in file and memory. -/
theorem save_nested_equidistant (o : Obj) (os : OStream) (r : SaveRes) (hdr : Bytes)
    (hs : save o os = .ok r) (hok : r.ok = true) (hh : o.hdr = some hdr)
    (hn : o.secs.length < 65536)
    (h0 : ∀ (i : Nat) (s : SecBuf), o.secs[i]? = some s → s.Occ → s.index ≠ 0)
    (hnw : layoutNW (preSave o) hdr = true) (hnd : (o.segs.map (·.index)).Nodup)
    (selE selN : Nat → Bool) (hdom : layoutDomB false false selE (preSave o) hdr = true)
    (hnest : layoutSelB segNestedStartB selN (preSave o) hdr = true)
    (e n : Seg) (he : e ∈ r.obj.segs) (hsn : n ∈ r.obj.segs)
    (hselE : selE e.index = true) (hselN : selN n.index = true)
    (hsub : ∀ idx ∈ n.secs, idx ∈ e.secs) :
    ∃ f sf, n.secs.head? = some f ∧ r.obj.secs[f.toNat]? = some sf ∧ n.offset = sf.offset ∧
      (sf.Occ → n.vaddr = sf.addr →
        ∀ idx ∈ n.secs, ∀ (s : SecBuf), r.obj.secs[idx.toNat]? = some s → s.Occ →
          s.offset - n.offset = s.addr - n.vaddr) := by
  obtain ⟨res, hl, hsegs, -, hmap⟩ := save_secs_hdr o os r hdr hs hok hh
  have hn' : (preSave o).secs.length < 65536 := by rw [preSave_length]; exact hn
  have h0' := preSave_h0 o h0
  have hsn' := hsn
  rw [hsegs] at hsn'
  obtain ⟨f, sf', hhead, hsf', hoff⟩ := final_nested_start (preSave o) hdr res hl hnw hn' h0' hnd selN hnest n hsn' hselN
  -- the same position in the saved object
  obtain ⟨sf, hsf, hhsf⟩ : ∃ sf, r.obj.secs[f.toNat]? = some sf ∧ hdrOf sf = hdrOf sf' := by
    have h1 : (r.obj.secs.map hdrOf)[f.toNat]? = some (hdrOf sf') := by
      rw [hmap, List.getElem?_map, hsf']; rfl
    rw [List.getElem?_map] at h1
    cases hq : r.obj.secs[f.toNat]? with
    | none => rw [hq] at h1; exact nomatch h1
    | some t0 => rw [hq] at h1; exact ⟨t0, rfl, by simpa using h1⟩
  simp only [hdrOf, Prod.mk.injEq] at hhsf
  refine ⟨f, sf, hhead, hsf, by rw [hoff, hhsf.1], ?_⟩
  intro hfo hva idx hidx s hk ho
  have hfm : f ∈ n.secs := by
    cases hq : n.secs with
    | nil => rw [hq] at hhead; exact nomatch hhead
    | cons a b => rw [hq] at hhead; simp only [List.head?_cons, Option.some.injEq] at hhead; subst hhead; exact List.mem_cons_self
  obtain ⟨-, -, fe⟩ := save_segments false false o os r hdr hs hok hh hn h0 hnw hnd selE hdom e he hselE
  have e1 := (fe idx (hsub idx hidx) s hk).1 ho
  have e2 := (fe f (hsub f hfm) sf hsf).1 hfo
  have e3 : n.offset = sf.offset := by rw [hoff, hhsf.1]
  rw [e3, hva]
  bv_omega

/-- **Members of a nested segment lie inside it, and its memory size covers their file span.**
    `n` is a selected nested segment: at its turn (`layoutNestedB selN`) it starts at its already
    generated first member, all its members have been generated, each one (unless SHT_NULL-typed)
    starts at or after the running file end (`wsdStepNested`: the subtraction
    `(sec_offset − seg_start_pos) − segment_filesize` of `write_segment_data` does not wrap — members
    listed in file order), and `segDom false false` holds (members count towards the memory size,
    which neither wraps nor exceeds the class's field).  Then every member `s` of `n` in the saved
    object that is not SHT_NULL-typed has `p_offset ≤ sh_offset`; if it is not SHT_NOBITS,
    `sh_offset + sh_size ≤ p_offset + p_filesz`; and `(sh_offset − p_offset) + sh_size ≤ p_memsz`.
    No enclosing segment is mentioned: the arithmetic only uses the members' offsets. -/
theorem save_nested_members (o : Obj) (os : OStream) (r : SaveRes) (hdr : Bytes)
    (hs : save o os = .ok r) (hok : r.ok = true) (hh : o.hdr = some hdr)
    (hn : o.secs.length < 65536)
    (h0 : ∀ (i : Nat) (s : SecBuf), o.secs[i]? = some s → s.Occ → s.index ≠ 0)
    (hnw : layoutNW (preSave o) hdr = true) (hnd : (o.segs.map (·.index)).Nodup)
    (selN : Nat → Bool) (hnest : layoutNestedB selN (preSave o) hdr = true)
    (n : Seg) (hsn : n ∈ r.obj.segs) (hselN : selN n.index = true) :
    ∀ idx ∈ n.secs, ∀ (s : SecBuf), r.obj.secs[idx.toNat]? = some s → s.stype ≠ BitVec.ofNat 32 SHT_NULL →
      n.offset.toNat ≤ s.offset.toNat ∧
      (s.stype ≠ BitVec.ofNat 32 SHT_NOBITS → s.endN ≤ n.offset.toNat + n.filesz.toNat) ∧
      s.offset.toNat - n.offset.toNat + s.size.toNat ≤ n.memsz.toNat := by
  obtain ⟨res, hl, hsegs, -, he⟩ := save_secs_hdr o os r hdr hs hok hh
  rw [hsegs] at hsn
  have hn' : (preSave o).secs.length < 65536 := by rw [preSave_length]; exact hn
  have h0' := preSave_h0 o h0
  intro idx hidx s hk hnn
  obtain ⟨s', hs', hhs⟩ := hdrOf_getElem? he idx.toNat s hk
  simp only [hdrOf, Prod.mk.injEq] at hhs
  obtain ⟨e1, e2, e3, -, -, -, -⟩ := hhs
  have := final_nested_members (preSave o) hdr res hl hnw hn' h0' hnd selN hnest n hsn hselN idx hidx s' hs'
    (by rw [e3]; exact hnn)
  unfold SecBuf.endN at *
  rw [← e1, ← e2, ← e3]
  exact this

/-- **The nested segment, complete** (the statement `NestedSegmentStatement` asks for, under the
    hypotheses it needs).  `n` nested as in `save_nested_members`; every member of `n` is a member of
    the selected flat segment `e` (`layoutDomB false false selE`).  Then `n` starts at its first
    member `sf`, and if `sf` occupies file space and `n.vaddr = sf.addr` ("a nested segment starts at
    a member's address"):
    * every file-occupying member `s` of `n` is equidistant, lies inside `[p_offset, p_offset +
      p_filesz)`, and `p_memsz` covers it: `(sh_addr − p_vaddr) + sh_size ≤ p_memsz`;
    * if the enclosing alignment `A = max(e.p_align, 1)` is a power of two (`2^64 % A = 0`) and the
      nested alignment divides it (`A % max(n.p_align, 1) = 0`):
      `n.p_offset ≡ n.p_vaddr (mod max(n.p_align, 1))`. -/
theorem save_nested_segment (o : Obj) (os : OStream) (r : SaveRes) (hdr : Bytes)
    (hs : save o os = .ok r) (hok : r.ok = true) (hh : o.hdr = some hdr)
    (hn : o.secs.length < 65536)
    (h0 : ∀ (i : Nat) (s : SecBuf), o.secs[i]? = some s → s.Occ → s.index ≠ 0)
    (hnw : layoutNW (preSave o) hdr = true) (hnd : (o.segs.map (·.index)).Nodup)
    (selE selN : Nat → Bool) (hdom : layoutDomB false false selE (preSave o) hdr = true)
    (hnest : layoutNestedB selN (preSave o) hdr = true)
    (e n : Seg) (he : e ∈ r.obj.segs) (hsn : n ∈ r.obj.segs)
    (hselE : selE e.index = true) (hselN : selN n.index = true)
    (hsub : ∀ idx ∈ n.secs, idx ∈ e.secs) :
    ∃ f sf, n.secs.head? = some f ∧ r.obj.secs[f.toNat]? = some sf ∧ n.offset = sf.offset ∧
      (sf.Occ → n.vaddr = sf.addr →
        (∀ idx ∈ n.secs, ∀ (s : SecBuf), r.obj.secs[idx.toNat]? = some s → s.Occ →
          s.offset - n.offset = s.addr - n.vaddr ∧
          n.offset.toNat ≤ s.offset.toNat ∧ s.endN ≤ n.offset.toNat + n.filesz.toNat ∧
          (s.addr - n.vaddr).toNat + s.size.toNat ≤ n.memsz.toNat) ∧
        (18446744073709551616 % (max e.align.toNat 1) = 0 →
          (max e.align.toNat 1) % (max n.align.toNat 1) = 0 →
          n.offset.toNat % (max n.align.toNat 1) = n.vaddr.toNat % (max n.align.toNat 1))) := by
  obtain ⟨f, sf, hhead, hsf, hoff, hequi⟩ := save_nested_equidistant o os r hdr hs hok hh hn h0 hnw hnd selE selN
    hdom (layoutNestedB_start selN _ _ hnest) e n he hsn hselE hselN hsub
  have hmem := save_nested_members o os r hdr hs hok hh hn h0 hnw hnd selN hnest n hsn hselN
  refine ⟨f, sf, hhead, hsf, hoff, fun hfo hva => ⟨?_, ?_⟩⟩
  · intro idx hidx s hk ho
    have eq := hequi hfo hva idx hidx s hk ho
    obtain ⟨m1, m2, m3⟩ := hmem idx hidx s hk ho.2.1
    have m2' := m2 ho.1
    refine ⟨eq, m1, m2', ?_⟩
    have : (s.addr - n.vaddr).toNat = s.offset.toNat - n.offset.toNat := by
      rw [← eq]; bv_omega
    omega
  · intro hA hm
    have hfm : f ∈ n.secs := by
      cases hq : n.secs with
      | nil => rw [hq] at hhead; exact nomatch hhead
      | cons a b => rw [hq] at hhead; simp only [List.head?_cons, Option.some.injEq] at hhead; subst hhead; exact List.mem_cons_self
    have hfe : f ∈ e.secs := hsub f hfm
    have hne : e.secs ≠ [] := fun e0 => by rw [e0] at hfe; exact nomatch hfe
    obtain ⟨-, fc, fe⟩ := save_segments false false o os r hdr hs hok hh hn h0 hnw hnd selE hdom e he hselE
    have eqf := (fe f hfe sf hsf).1 hfo
    have hal : e.align.toNat ≤ 9223372036854775808 := by
      have := le_half_of_dvd _ hA (by have := e.align.isLt; omega)
      omega
    have hc := fc hne hal
    rw [hoff, hva]
    exact congr_of_equidistant sf.offset sf.addr e.offset e.vaddr _ _ hA hm eqf hc

/-- **What `validate` needs, nested PT_LOAD segments included.**  As `save_layoutOk`, but a PT_LOAD
    segment with file size > 0 may also be a *nested* one (`selN`, `segNestedStartB`: it starts at
    its already generated first member `sf`), provided `sf` occupies file space and carries the
    segment's address (`n.vaddr = sf.addr` — "a nested segment starts at a member's address"):
    the section containing the segment's first file byte is then `sf` itself (disjointness). -/
theorem save_layoutOk_nested (o : Obj) (os : OStream) (r : SaveRes) (hdr : Bytes)
    (hs : save o os = .ok r) (hok : r.ok = true) (hh : o.hdr = some hdr)
    (hn : o.secs.length < 65536)
    (h0 : ∀ (i : Nat) (s : SecBuf), o.secs[i]? = some s → s.Occ → s.index ≠ 0)
    (hnull0 : ∀ s ∈ o.secs, s.stype = BitVec.ofNat 32 SHT_NULL → s.size = 0)
    (hnw : layoutNW (preSave o) hdr = true) (hnd : (o.segs.map (·.index)).Nodup)
    (sel selN : Nat → Bool) (hdom : layoutDomB false false sel (preSave o) hdr = true)
    (hnest : layoutSelB segNestedStartB selN (preSave o) hdr = true)
    (hsel : ∀ g ∈ r.obj.segs, g.stype = BitVec.ofNat 32 PT_LOAD → 0 < g.filesz.toNat →
      sel g.index = true ∨
      (selN g.index = true ∧ ∀ f sf, g.secs.head? = some f → r.obj.secs[f.toNat]? = some sf →
        sf.Occ ∧ g.vaddr = sf.addr)) :
    LayoutOk r.obj := by
  obtain ⟨hin, hdisj, hlt, -⟩ := layout_disjoint o os r hdr hs hok hh hn h0 hnw
  have hn' : (preSave o).secs.length < 65536 := by rw [preSave_length]; exact hn
  have h0' := preSave_h0 o h0
  have hnull : ∀ s ∈ r.obj.secs, s.stype = BitVec.ofNat 32 SHT_NULL → s.size = 0 := by
    intro s hm he
    obtain ⟨res, hl, -, -, hmap⟩ := save_secs_hdr o os r hdr hs hok hh
    obtain ⟨k, hk⟩ := List.getElem?_of_mem hm
    obtain ⟨s', hs', hhs⟩ := hdrOf_getElem? hmap k s hk
    obtain ⟨s0, hs0, hm0⟩ := final_orig (preSave o) hdr res hl hnw hn' h0' k s' hs'
    obtain ⟨t0, ht0, hht⟩ := hdrOf_getElem? (preSave_hdr o) k s0 hs0
    simp only [hdrOf, Prod.mk.injEq] at hhs hht
    rw [← hhs.2.1, hm0.size, ← hht.2.1]
    apply hnull0 t0 (List.mem_of_getElem? ht0)
    rw [hht.2.2.1, ← hm0.stype, hhs.2.2.1]; exact he
  have hocc : ∀ s ∈ r.obj.secs, s.stype ≠ BitVec.ofNat 32 SHT_NOBITS → 0 < s.size.toNat → s.Occ := by
    intro s hm h1 h2
    refine ⟨h1, fun e => ?_, fun e => ?_⟩
    · rw [hnull s hm e] at h2; exact absurd h2 (by decide)
    · rw [e] at h2; exact absurd h2 (by decide)
  have hsh := r.obj.curPos.isLt
  refine ⟨?_, ?_, ?_⟩
  · intro s hm h1 h2
    obtain ⟨k, hk⟩ := List.getElem?_of_mem hm
    have := (hin k s hk (hocc s hm h1 h2)).2
    unfold SecBuf.endN at this; omega
  · intro i j a b hij hi hj hta htb hsa hsb _ _
    have ha := hocc a (List.mem_of_getElem? hi) hta hsa
    have hb := hocc b (List.mem_of_getElem? hj) htb hsb
    have := hdisj i j a b (by omega) hi hj ha hb
    unfold RangesIntersect SecBuf.endN at *
    omega
  · intro g hg hload hfs s hm hpb h1 h2
    obtain ⟨res, hl, hsegs, -, he⟩ := save_secs_hdr o os r hdr hs hok hh
    obtain ⟨k, hk⟩ := List.getElem?_of_mem hm
    have hso : s.Occ := hocc s hm (by rw [hpb]; decide) (by omega)
    rcases hsel g hg hload hfs with hsg | ⟨hsg, hfirst⟩
    · rw [hsegs] at hg
      obtain ⟨-, -, -, f4⟩ := final_segments false false (preSave o) hdr res hl hnw hn' h0' hnd sel hdom g hg hsg
      obtain ⟨s', hs', hhs⟩ := hdrOf_getElem? he k s hk
      have hph : lseg_is_phdr g.stype (BitVec.ofNat 16 g.secs.length) = false := by
        rw [hload]; simp [lseg_is_phdr]; intro hc; exact absurd hc (by decide)
      have hocc' := occ_of_hdrOf hhs
      simp only [hdrOf, Prod.mk.injEq] at hhs
      obtain ⟨e1, e2, -, -, e5, -, -⟩ := hhs
      have := f4 hfs hph k s' hs' (hocc'.1 hso) (by rw [e1]; exact h1) (by unfold SecBuf.endN; rw [e1, e2]; exact h2)
      rw [e1, e5] at this
      bv_omega
    · have hg' := hg
      rw [hsegs] at hg'
      obtain ⟨f, sf', hhead, hsf', hoff⟩ := final_nested_start (preSave o) hdr res hl hnw hn' h0' hnd selN hnest g hg' hsg
      obtain ⟨sf, hsf, hhsf⟩ : ∃ sf, r.obj.secs[f.toNat]? = some sf ∧ hdrOf sf = hdrOf sf' := by
        have h1' : (r.obj.secs.map hdrOf)[f.toNat]? = some (hdrOf sf') := by
          rw [he, List.getElem?_map, hsf']; rfl
        rw [List.getElem?_map] at h1'
        cases hq : r.obj.secs[f.toNat]? with
        | none => rw [hq] at h1'; exact nomatch h1'
        | some t0 => rw [hq] at h1'; exact ⟨t0, rfl, by simpa using h1'⟩
      simp only [hdrOf, Prod.mk.injEq] at hhsf
      obtain ⟨hfo, hva⟩ := hfirst f sf hhead hsf
      have eoff : g.offset = sf.offset := by rw [hoff, hhsf.1]
      by_cases hkf : k = f.toNat
      · subst hkf
        rw [hsf] at hk; simp only [Option.some.injEq] at hk; subst hk
        rw [eoff, hva]; bv_omega
      · have := hdisj k f.toNat s sf hkf hk hsf hso hfo
        have hsz : 0 < sf.size.toNat := by
          have := hfo.2.2
          rcases Nat.eq_zero_or_pos sf.size.toNat with h' | h'
          · exact absurd (BitVec.eq_of_toNat_eq (by rw [h']; rfl)) this
          · exact h'
        unfold SecBuf.endN at this
        rw [eoff] at h1 h2
        omega

/-! ### the statement first written down for nested segments, and why it needed one more hypothesis -/

/-- The statement as it was first written (kept visible).  It is **false** as it stands
    (`nestedSegmentStatement_false` below): nothing in its hypotheses says that the members of the
    nested segment are listed in file order, and with a descending member list the subtraction
    `(sec_offset − seg_start_pos) − segment_filesize` wraps.  With the order hypothesis
    (`layoutNestedB`, which contains `wsdStepNested`) it is `save_nested_members` /
    `save_nested_segment`; the congruence clause additionally needs "the nested alignment divides
    the enclosing one" (`nested_congruence_witness`). -/
def NestedSegmentStatement : Prop :=
  ∀ (o : Obj) (os : OStream) (r : SaveRes) (hdr : Bytes),
    save o os = .ok r → r.ok = true → o.hdr = some hdr → o.secs.length < 65536 →
    (∀ (i : Nat) (s : SecBuf), o.secs[i]? = some s → s.Occ → s.index ≠ 0) →
    layoutNW (preSave o) hdr = true → (o.segs.map (·.index)).Nodup →
    layoutDomAllB (preSave o) hdr = true →
    ∀ (selN : Nat → Bool), layoutSelB segNestedStartB selN (preSave o) hdr = true →
    ∀ n ∈ r.obj.segs, selN n.index = true →
      ∀ idx ∈ n.secs, ∀ (s : SecBuf), r.obj.secs[idx.toNat]? = some s → s.Occ →
        n.offset.toNat ≤ s.offset.toNat ∧ s.endN ≤ n.offset.toNat + n.filesz.toNat ∧
        (s.addr - n.vaddr).toNat + s.size.toNat ≤ n.memsz.toNat

/-! ### concrete objects: non-vacuity, and the F14 witness -/

def exHdr : Bytes := Hdr.create .c64 .lsb 1

/-- null section, `.shstrtab`, `.text` (24 bytes, align 16) and `.data` (explicit address) in one
    PT_LOAD, a loose symbol-table-like section -/
def exObj : Obj :=
  { cls := .c64, enc := .lsb, hdr := some exHdr,
    secs := [ { SecBuf.fresh .c64 0 with index := 0 },
              { SecBuf.fresh .c64 3 with index := 1, size := 17, addrAlign := 1 },
              { SecBuf.fresh .c64 1 with index := 2, size := 24, addrAlign := 16, flags := 6 },
              { SecBuf.fresh .c64 1 with index := 3, size := 10, addrAlign := 4, flags := 3,
                                         addr := 0x401040, addrSet := true },
              { SecBuf.fresh .c64 2 with index := 4, size := 48, addrAlign := 8 } ],
    segs := [ { stype := 1, vaddr := 0x401000, align := 0x1000, secs := [2, 3], index := 0 } ] }

/-- the layout succeeds and its result satisfies `p` -/
def layoutIs (o : Obj) (h : Bytes) (p : LayoutRes → Bool) : Bool :=
  match layoutOf o h with
  | .ok (some r) => p r
  | _ => false

/-- the state in which the (only) segment of `exObj` is laid out -/
def exLay0 : Layout := lay0Of exObj 120

/-- `exObj` meets the hypotheses of `layout_disjoint` -/
example : exObj.secs.length < 65536 ∧
    (∀ (i : Nat) (s : SecBuf), exObj.secs[i]? = some s → s.Occ → s.index ≠ 0) ∧
    layoutNW (preSave exObj) exHdr = true := by
  refine ⟨by decide, ?_, by decide⟩
  intro i s hs ho hi
  have : ∀ t ∈ exObj.secs, t.index = 0 → ¬ t.Occ := by decide
  exact this s (List.mem_of_getElem? hs) hi ho

/-- … and of the segment theorems, with all side conditions on; the segment starts a fresh run
    (`64`, `56`, `1`, `120` are `e_phoff`, `e_phentsize`, `e_phnum` and the initial cursor of `exObj`) -/
example :
    layoutIs exObj exHdr (fun r => r.pos0 == 120 && Hdr.e_phoff .c64 .lsb r.hdr0 == 64 &&
      Hdr.e_phentsize .c64 .lsb r.hdr0 == 56 && Hdr.e_phnum .c64 .lsb r.hdr0 == 1 &&
      r.segs0.map (·.align) == [0x1000]) = true ∧
    segNW .c64 64 56 1 exLay0 { stype := 1, vaddr := 0x401000, align := 0x1000, secs := [2, 3], index := 0 } = true ∧
    segDom true true .c64 64 56 1 exLay0 { stype := 1, vaddr := 0x401000, align := 0x1000, secs := [2, 3], index := 0 } = true ∧
    segFresh exLay0 { stype := 1, vaddr := 0x401000, align := 0x1000, secs := [2, 3], index := 0 } := by
  refine ⟨by decide, by decide, by decide, by decide, by decide, 2, rfl, by decide⟩

/-- `save exObj` succeeds, and the saved object meets the remaining hypotheses of `file_covers`
    (table offset below 2^63; full-length header) — and, as the theorem says, the stream reaches it -/
example : (match save exObj {} with
    | .ok r => r.ok && decide (r.obj.curPos.toNat < 9223372036854775808) && fitsB exObj.cls r.obj.curPos &&
        decide (ehdrSize exObj.cls ≤ exHdr.length) && decide (r.obj.curPos.toNat ≤ r.os.content.length)
    | _ => false) = true := by
  set_option maxRecDepth 100000 in decide

/-- a PT_LOAD over `.text` and `.note` (explicit addresses) and a nested PT_NOTE over `.note` -/
def exNested : Obj :=
  { cls := .c64, enc := .lsb, hdr := some exHdr,
    secs := [ { SecBuf.fresh .c64 0 with index := 0 },
              { SecBuf.fresh .c64 3 with index := 1, size := 17, addrAlign := 1 },
              { SecBuf.fresh .c64 1 with index := 2, size := 24, addrAlign := 16, flags := 6,
                                         addr := 0x401000, addrSet := true },
              { SecBuf.fresh .c64 7 with index := 3, size := 10, addrAlign := 4, flags := 2,
                                         addr := 0x401020, addrSet := true } ],
    segs := [ { stype := 1, vaddr := 0x401000, align := 0x1000, secs := [2, 3], index := 0 },
              { stype := 4, vaddr := 0x401020, align := 4, secs := [3], index := 1 } ] }

/-- `exNested` meets the hypotheses of `save_nested_equidistant` (enclosing segment 0, nested
    segment 1), of `save_memsz_ge_filesz`, and its nested PT_NOTE ends up at `.note`'s offset with
    `.note`'s address -/
example :
    layoutNW (preSave exNested) exHdr = true ∧ (exNested.segs.map (·.index)).Nodup ∧
    layoutDomB false false (fun i => i == 0) (preSave exNested) exHdr = true ∧
    layoutSelB segNestedStartB (fun i => i == 1) (preSave exNested) exHdr = true ∧
    layoutDomAllB (preSave exNested) exHdr = true ∧
    layoutIs (preSave exNested) exHdr (fun r =>
      r.segs.map (fun g => (g.offset, g.filesz, g.memsz)) == [(0x1000, 42, 42), (0x1020, 10, 10)] &&
      r.secs.map (·.offset) == [0, 0x102a, 0x1000, 0x1020]) = true := by
  refine ⟨by decide, by decide, by decide, by decide, by decide, by decide⟩

/-- F14: a PT_LOAD whose only member is a NOBITS section with the *explicit* address `vaddr + 0x24` -/
def f14Obj : Obj :=
  { cls := .c64, enc := .lsb, hdr := some exHdr,
    secs := [ { SecBuf.fresh .c64 0 with index := 0 },
              { SecBuf.fresh .c64 3 with index := 1, size := 11, addrAlign := 1 },
              { SecBuf.fresh .c64 8 with index := 2, size := 0x12, addrAlign := 1, flags := 3,
                                         addr := 0x400024, addrSet := true } ],
    segs := [ { stype := 1, vaddr := 0x400000, align := 0x1000, secs := [2], index := 0 } ] }

/-- does the memory size of every segment cover its SHF_ALLOC members? -/
def coversAll (res : LayoutRes) : Bool :=
  res.segs.all fun g => g.secs.all fun idx =>
    match res.secs[idx.toNat]? with
    | some s => (s.flags &&& 2 != 2) || decide ((s.addr - g.vaddr).toNat + s.size.toNat ≤ g.memsz.toNat)
    | none => true

/-- **F14, machine-checked**: `f14Obj` satisfies every hypothesis of `memsz_covers` except the side
    condition `cov` (`segDom false …` holds, `segDom true …` does not), its layout succeeds without
    wrap-around, and the resulting `p_memsz = 0x12` does not cover the member, which ends at
    `vaddr + 0x36`.  (The well laid out `exObj` is covered.) -/
theorem memsz_witness :
    layoutNW f14Obj exHdr = true ∧
    layoutIs f14Obj exHdr (fun r => !coversAll r) = true ∧
    layoutIs f14Obj exHdr (fun r => r.segs.map (·.memsz) == [0x12#64]) = true ∧
    segDom false true .c64 64 56 1 (lay0Of f14Obj 120)
      { stype := 1, vaddr := 0x400000, align := 0x1000, secs := [2], index := 0 } = true ∧
    segDom true true .c64 64 56 1 (lay0Of f14Obj 120)
      { stype := 1, vaddr := 0x400000, align := 0x1000, secs := [2], index := 0 } = false ∧
    layoutIs exObj exHdr coversAll = true := by
  decide

/-! ### nested segments: non-vacuity and the two witnesses -/

/-- `exNested` meets the hypotheses of `save_nested_members` / `save_nested_segment` (enclosing
    segment 0, nested segment 1; alignments 0x1000 and 4) -/
example :
    layoutNW (preSave exNested) exHdr = true ∧ (exNested.segs.map (·.index)).Nodup ∧
    layoutDomB false false (fun i => i == 0) (preSave exNested) exHdr = true ∧
    layoutNestedB (fun i => i == 1) (preSave exNested) exHdr = true ∧
    18446744073709551616 % (max (0x1000#64).toNat 1) = 0 ∧ (max (0x1000#64).toNat 1) % (max (4#64).toNat 1) = 0 := by
  refine ⟨by decide, by decide, by decide, by decide, by decide, by decide⟩

/-- a PT_LOAD over `.text` and `.note` (a hole of 40 bytes between them) and a PT_NOTE whose member
    list is `[.note, .text]` — *descending* file order (outside the writer's domain: "sections of a
    segment listed in address order") -/
def exNestedRev : Obj :=
  { cls := .c64, enc := .lsb, hdr := some exHdr,
    secs := [ { SecBuf.fresh .c64 0 with index := 0 },
              { SecBuf.fresh .c64 3 with index := 1, size := 17, addrAlign := 1 },
              { SecBuf.fresh .c64 1 with index := 2, size := 24, addrAlign := 16, flags := 6,
                                         addr := 0x401000, addrSet := true },
              { SecBuf.fresh .c64 7 with index := 3, size := 10, addrAlign := 4, flags := 2,
                                         addr := 0x401040, addrSet := true } ],
    segs := [ { stype := 1, vaddr := 0x401000, align := 0x1000, secs := [2, 3], index := 0 },
              { stype := 4, vaddr := 0x401040, align := 4, secs := [3, 2], index := 1 } ] }

/-- what `save exNestedRev` leaves: the PT_NOTE starts at `.note` (0x1040), *behind* its member
    `.text` (0x1000), and its sizes are the wrapped `2^64 − 40` -/
def exNestedRevBad (o : Obj) : Bool :=
  match o.segs[1]?, o.secs[2]? with
  | some n, some s =>
    n.index == 1 && n.secs.contains 2 && decide s.Occ && decide (s.offset.toNat < n.offset.toNat) &&
      n.filesz == 0xffffffffffffffd8#64
  | _, _ => false

/-- **`NestedSegmentStatement` is false** : `exNestedRev` satisfies every hypothesis of the statement
    (its `save` succeeds, no wrap-around of the cursor, `segDom false false` at every turn, the
    PT_NOTE starts at its generated first member), yet `.text`, a file-occupying member of the
    PT_NOTE, starts before the PT_NOTE's `p_offset`.  The missing hypothesis is the member order
    (`wsdStepNested`). -/
theorem nestedSegmentStatement_false : ¬ NestedSegmentStatement := by
  intro H
  have hrun : (match save exNestedRev {} with
      | .ok r => r.ok && exNestedRevBad r.obj
      | .error _ => false) = true := by decide +kernel
  cases hs : save exNestedRev {} with
  | error e => rw [hs] at hrun; cases hrun
  | ok r =>
    rw [hs] at hrun
    simp only [Bool.and_eq_true] at hrun
    obtain ⟨hok, hbad⟩ := hrun
    have h0 : ∀ (i : Nat) (s : SecBuf), exNestedRev.secs[i]? = some s → s.Occ → s.index ≠ 0 := by
      intro i s hs' ho hi
      have : ∀ t ∈ exNestedRev.secs, t.index = 0 → ¬ t.Occ := by decide
      exact this s (List.mem_of_getElem? hs') hi ho
    have key := H exNestedRev {} r exHdr hs hok rfl (by decide) h0 (by decide +kernel) (by decide)
      (by decide +kernel) (fun i => i == 1) (by decide +kernel)
    unfold exNestedRevBad at hbad
    cases hn : r.obj.segs[1]? with
    | none => rw [hn] at hbad; cases hbad
    | some n =>
      cases hsec : r.obj.secs[2]? with
      | none => rw [hn, hsec] at hbad; cases hbad
      | some s =>
        rw [hn, hsec] at hbad
        simp only [Bool.and_eq_true, beq_iff_eq, decide_eq_true_eq, List.contains_iff_mem] at hbad
        obtain ⟨⟨⟨⟨hi, hm⟩, ho⟩, hlt⟩, -⟩ := hbad
        have := (key n (List.mem_of_getElem? hn) (by rw [hi]; rfl) 2 hm s hsec ho).1
        omega

/-- a PT_LOAD (alignment 4) over `.text` and `.note`, both with explicit addresses, and a nested
    PT_NOTE with the *larger* alignment 8 over `.note` -/
def exNestedAlign : Obj :=
  { cls := .c64, enc := .lsb, hdr := some exHdr,
    secs := [ { SecBuf.fresh .c64 0 with index := 0 },
              { SecBuf.fresh .c64 3 with index := 1, size := 17, addrAlign := 1 },
              { SecBuf.fresh .c64 1 with index := 2, size := 8, addrAlign := 4, flags := 6,
                                         addr := 0x400004, addrSet := true },
              { SecBuf.fresh .c64 7 with index := 3, size := 12, addrAlign := 4, flags := 2,
                                         addr := 0x400010, addrSet := true } ],
    segs := [ { stype := 1, vaddr := 0x400004, align := 4, secs := [2, 3], index := 0 },
              { stype := 4, vaddr := 0x400010, align := 8, secs := [3], index := 1 } ] }

/-- **The divisibility hypothesis of the congruence clause is needed** : `exNestedAlign` meets every
    hypothesis of `save_nested_segment` (flat PT_LOAD, nested PT_NOTE in file order, starting at its
    first member's explicit address) and the PT_LOAD's alignment 4 is a power of two, but the
    PT_NOTE's alignment 8 does not divide it — and the saved PT_NOTE has `p_offset = 188`,
    `p_vaddr = 0x400010`: not congruent modulo 8 (the PT_LOAD: 176 ≡ 0x400004 modulo 4). -/
theorem nested_congruence_witness :
    layoutNW (preSave exNestedAlign) exHdr = true ∧
    layoutDomB false false (fun i => i == 0) (preSave exNestedAlign) exHdr = true ∧
    layoutNestedB (fun i => i == 1) (preSave exNestedAlign) exHdr = true ∧
    layoutIs (preSave exNestedAlign) exHdr (fun r =>
      r.segs.map (fun g => (g.offset, g.vaddr, g.align)) == [(176, 0x400004, 4), (188, 0x400010, 8)] &&
      r.secs.map (fun s => (s.offset, s.addr)) == [(0, 0), (200, 0), (176, 0x400004), (188, 0x400010)]) = true ∧
    18446744073709551616 % (max (4#64).toNat 1) = 0 ∧ (max (4#64).toNat 1) % (max (8#64).toNat 1) ≠ 0 ∧
    (188#64).toNat % 8 ≠ (0x400010#64).toNat % 8 := by
  refine ⟨by decide +kernel, by decide +kernel, by decide +kernel, by decide +kernel, by decide, by decide, by decide⟩

end ElfioVerif.C04
