/-
C06, any class — `save_twice` for ELF32 as well.

Props/C06.lean proves `save_twice` for ELF64 (`o.cls = .c64`), where the truncation `truncA` of the
address-sized fields is the identity.  This file repeats the ladder (`stepCore_resave` …
`segRun_resave`, `save_twice`) for an arbitrary class.  In ELF32 two more side conditions are needed
along the layout of the first save (both are vacuous in ELF64, `resaveOkC_of_c64`):
  * an address the writer assigns to a member fits the 32-bit field (`StepOkC`: otherwise the second
    save computes the address-driven gap from the truncated address);
  * every segment's start offset fits the 32-bit field (`SegOkC`: otherwise the stored `p_offset` is
    not the offset the segment was laid out at — and may read as 0, the offset-0 special case).
`resaveOkB` is a Bool-valued sufficient condition for the side conditions (for `decide` on concrete
objects).
-/
import ElfioVerif.Props.C06
namespace ElfioVerif.C06
open ElfioVerif Gen Sv

/-- **re-running the placing step on its own result** (any class): if `write_segment_data` placed a
    not-yet-generated member `sec` from cursor `pos`, producing `sec'`, then running the step again
    from the same cursor on `sec'` produces exactly the same outcome — the address-driven branch
    recomputes the gap the alignment-driven branch chose — or aborts (only if the offsets wrapped
    around 2^64), **provided** the member is not an address-less NOBITS/empty section behind a non-zero
    alignment gap.  In that excluded case the second run takes no gap at all: F13. -/
theorem stepCore_resave_cls {c : Cls} {g : Seg} {ss : BitVec 64} {sec sec' : SecBuf} {pos pos2 mem file mem' file' : BitVec 64}
    (h : stepCore c g ss sec false pos mem file = .placed sec' pos2 mem' file')
    (hng : ¬ GapBeforeAddresslessNobits sec pos)
    (hfit : sec.addrSet = false → ∀ gap, stepGap g ss sec false pos file = some gap →
      truncA c (wsd_new_addr g.vaddr (wsd_cursor_gap pos gap) ss) = wsd_new_addr g.vaddr (wsd_cursor_gap pos gap) ss) :
    stepCore c g ss sec' false pos mem file = .placed sec' pos2 mem' file' ∨
    stepCore c g ss sec' false pos mem file = .abort := by
  unfold stepCore at h
  by_cases hnn : wsd_is_null sec.stype = true
  · rw [if_pos hnn] at h; cases h
  · rw [if_neg hnn] at h
    have hnn' : wsd_is_null sec.stype = false := by simpa using hnn
    cases hgap : stepGap g ss sec false pos file with
    | none => rw [hgap] at h; cases h
    | some gap =>
      rw [hgap] at h
      simp only [Bool.false_eq_true, if_false] at h
      injection h with e1 e2 e3 e4
      -- the placed section
      rw [stepPlace_eq] at e1
      have hst : sec'.stype = sec.stype := by rw [← e1]
      have hsz : sec'.size = sec.size := by rw [← e1]
      have hfl : sec'.flags = sec.flags := by rw [← e1]
      have hset' : sec'.addrSet = true := by rw [← e1]
      have hidx' : sec'.index = sec.index := by rw [← e1]
      have hoff' : sec'.offset = if (sec.index != 0) = true then truncA c (wsd_cursor_gap pos gap) else sec.offset := by
        rw [← e1]
      have hidem : stepPlace c g ss sec' (wsd_cursor_gap pos gap) = sec' := by
        rw [stepPlace_eq]
        have h1 : (if sec'.addrSet = true then sec'.addr
            else truncA c (wsd_new_addr g.vaddr (wsd_cursor_gap pos gap) ss)) = sec'.addr := by
          rw [hset']; rfl
        have h2 : (if (sec'.index != 0) = true then truncA c (wsd_cursor_gap pos gap) else sec'.offset) =
            sec'.offset := by
          rw [hidx', hoff']; split <;> rfl
        rw [h1, h2]
        clear h1 h2 hoff' hidx' hfl hsz hst e1
        cases sec'
        simp only at hset'
        subst hset'
        rfl
      have hgap0 := hgap
      -- the second run's gap
      have key : stepGap g ss sec' false pos file = some gap ∨ stepGap g ss sec' false pos file = none := by
        unfold stepGap at hgap ⊢
        rw [occupies_iff sec hnn'] at hgap
        rw [occupies_iff sec' (by rw [hst]; exact hnn'), hset', hst, hsz]
        simp only [Bool.not_false, Bool.true_and] at hgap ⊢
        cases ha : sec.addrSet with
        | true =>
          rw [ha] at hgap
          have ead : sec'.addr = sec.addr := by rw [← e1]; simp only [ha, if_true]
          rw [ead]
          simp only [Bool.true_and] at hgap
          by_cases hocc : (decide (sec.stype ≠ BitVec.ofNat 32 SHT_NOBITS) && decide (sec.size ≠ 0)) = true
          · rw [if_pos hocc] at hgap ⊢
            exact Or.inl hgap
          · rw [if_neg hocc] at hgap ⊢
            simp only [wsd_align_branch, ha, Bool.not_false, Bool.not_true, Bool.and_false, Bool.false_eq_true,
              if_false, Bool.true_and] at hgap ⊢
            exact Or.inl hgap
        | false =>
          rw [ha] at hgap
          simp only [Bool.false_and, Bool.false_eq_true, if_false, wsd_align_branch, Bool.not_false, Bool.and_true,
            if_true, Option.some.injEq] at hgap
          by_cases hocc : (decide (sec.stype ≠ BitVec.ofNat 32 SHT_NOBITS) && decide (sec.size ≠ 0)) = true
          · rw [if_pos hocc]
            -- address-driven branch on the address the first run computed
            have ead : sec'.addr = wsd_new_addr g.vaddr (wsd_cursor_gap pos gap) ss := by
              rw [← e1]; simp only [ha, Bool.false_eq_true, if_false]
              exact hfit ha gap hgap0
            rw [ead]
            by_cases hlt : wsd_req_lt_cur (wsd_req_offset (wsd_new_addr g.vaddr (wsd_cursor_gap pos gap) ss) g.vaddr)
                (wsd_cur_offset pos ss) = true
            · rw [if_pos hlt]; exact Or.inr rfl
            · rw [if_neg hlt]
              left
              congr 1
              simp only [wsd_gap_addr, wsd_req_offset, wsd_new_addr, wsd_cursor_gap, wsd_cur_offset]
              bv_omega
          · rw [if_neg hocc]
            simp only [wsd_align_branch, Bool.not_false, Bool.not_true, Bool.and_false, Bool.false_eq_true, if_false]
            left
            -- no file space: the first gap must have been zero
            have hz : gap = 0 := by
              apply Classical.byContradiction
              intro hne
              apply hng
              refine ⟨ha, ?_, by rw [hgap]; exact hne⟩
              simp only [Bool.and_eq_true, decide_eq_true_eq, not_and, Decidable.not_not] at hocc
              by_cases h1 : sec.stype = BitVec.ofNat 32 SHT_NOBITS
              · exact Or.inl h1
              · exact Or.inr (hocc h1)
            rw [hz]
      unfold stepCore
      rw [hst, if_neg hnn]
      rcases key with k | k
      · left
        rw [k]
        simp only [Bool.false_eq_true, if_false, hst, hsz, hfl, hidem, e2, e3, e4]
      · right
        rw [k]

/-- no member meets the F13 trigger when it is placed, and an address assigned to it fits the class -/
def StepOkC (c : Cls) (g : Seg) (ss : BitVec 64) (st : WsdSt) (idx : BitVec 16) : Prop :=
  ∀ sec, st.lay.secs[idx.toNat]? = some sec → st.lay.gen[idx.toNat]? = some false →
    ¬ GapBeforeAddresslessNobits sec st.lay.pos ∧
    (sec.addrSet = false → ∀ gap, stepGap g ss sec false st.lay.pos st.file = some gap →
      truncA c (wsd_new_addr g.vaddr (wsd_cursor_gap st.lay.pos gap) ss) =
        wsd_new_addr g.vaddr (wsd_cursor_gap st.lay.pos gap) ss)

def LoopOkC (c : Cls) (g : Seg) (ss : BitVec 64) : List (BitVec 16) → WsdSt → Prop
  | [], _ => True
  | idx :: rest, st => StepOkC c g ss st idx ∧ ∀ st', wsdStep c g ss st idx = .ok (some st') → LoopOkC c g ss rest st'

/-- **one member, in step** -/
theorem wsdStep_resave_cls {c : Cls} {g g' : Seg} {ss : BitVec 64} {F : List SecBuf} {st1 st1' st2 st2' : WsdSt} {idx : BitVec 16}
    (hv : g'.vaddr = g.vaddr) (ht : g'.stype = g.stype)
    (h1 : wsdStep c g ss st1 idx = .ok (some st1')) (hF : Fut F st1') (hok : StepOkC c g ss st1 idx)
    (hl : Lock F st1 st2) (h2 : wsdStep c g' ss st2 idx = .ok (some st2')) : Lock F st1' st2' := by
  obtain ⟨sec1, gen1, hs1, hg1, ha1⟩ := wsdStep_ok h1
  obtain ⟨sec2, gen2, hs2, hg2, ha2⟩ := wsdStep_ok h2
  rw [hl.secs] at hs2
  rw [hl.gen, hg1] at hg2
  simp only [Option.some.injEq] at hg2
  subst hg2
  rw [hl.pos, hl.mem, hl.file, stepCore_congr_seg hv ht] at ha2
  obtain ⟨len1, _⟩ := applyOut_length ha1
  have hi : idx.toNat < st1.lay.secs.length := by
    rcases Nat.lt_or_ge idx.toNat st1.lay.secs.length with h | h
    · exact h
    · rw [List.getElem?_eq_none h] at hs1; cases hs1
  have hgi : idx.toNat < st1.lay.gen.length := by
    rcases Nat.lt_or_ge idx.toNat st1.lay.gen.length with h | h
    · exact h
    · rw [List.getElem?_eq_none h] at hg1; cases hg1
  cases gen1 with
  | true =>
    -- already generated: the section has its final form, the outcome is identical
    have hgen' := (wsdStep_stable h1 idx.toNat hg1)
    have : F[idx.toNat]? = st1.lay.secs[idx.toNat]? := by rw [hF.2 _ hgen'.2, hgen'.1]
    rw [this, hs1] at hs2
    simp only [Option.some.injEq] at hs2
    subst hs2
    cases ho : stepCore c g ss sec1 true st1.lay.pos st1.mem st1.file with
    | abort => rw [ho] at ha1; cases ha1
    | null =>
      rw [ho] at ha1 ha2; simp only [applyOut, Option.some.injEq] at ha1 ha2; subst ha1; subst ha2
      exact ⟨hl.secs, hl.pos, by simp only; rw [hl.gen], hl.mem, hl.file⟩
    | counted m f =>
      rw [ho] at ha1 ha2; simp only [applyOut, Option.some.injEq] at ha1 ha2; subst ha1; subst ha2
      exact ⟨hl.secs, hl.pos, hl.gen, rfl, rfl⟩
    | placed s p m f => exact absurd ho (stepCore_true_not_placed _ _ _ _ _ _ _ _ _ _ _)
  | false =>
    cases ho : stepCore c g ss sec1 false st1.lay.pos st1.mem st1.file with
    | abort => rw [ho] at ha1; cases ha1
    | counted m f => exact absurd ho (stepCore_false_not_counted _ _ _ _ _ _ _ _ _)
    | null =>
      rw [ho] at ha1; simp only [applyOut, Option.some.injEq] at ha1; subst ha1
      -- the section is final already
      have hgen' : (st1.lay.gen.set idx.toNat true)[idx.toNat]? = some true := List.getElem?_set_self hgi
      have : F[idx.toNat]? = some sec1 := by rw [hF.2 _ hgen']; exact hs1
      rw [this] at hs2
      simp only [Option.some.injEq] at hs2
      subst hs2
      rw [ho] at ha2; simp only [applyOut, Option.some.injEq] at ha2; subst ha2
      exact ⟨hl.secs, hl.pos, by simp only; rw [hl.gen], hl.mem, hl.file⟩
    | placed s p m f =>
      rw [ho] at ha1; simp only [applyOut, Option.some.injEq] at ha1; subst ha1
      have hgen' : (st1.lay.gen.set idx.toNat true)[idx.toNat]? = some true := List.getElem?_set_self hgi
      have hFi : F[idx.toNat]? = some s := by
        rw [hF.2 _ hgen']; exact List.getElem?_set_self hi
      rw [hFi] at hs2
      simp only [Option.some.injEq] at hs2
      subst hs2
      rcases stepCore_resave_cls ho (hok sec1 hs1 hg1).1 (hok sec1 hs1 hg1).2 with h' | h'
      · rw [h'] at ha2; simp only [applyOut, Option.some.injEq] at ha2; subst ha2
        refine ⟨?_, rfl, by simp only; rw [hl.gen], rfl, rfl⟩
        simp only
        rw [hl.secs]
        exact set_eq_self_of_getElem? hFi
      · rw [h'] at ha2; cases ha2
/-- **all members of a segment, in step** -/
theorem wsdLoop_resave_cls {c : Cls} {g g' : Seg} {ss : BitVec 64} {F : List SecBuf} (hv : g'.vaddr = g.vaddr)
    (ht : g'.stype = g.stype) (l : List (BitVec 16)) {st1 stE st2 st2E : WsdSt}
    (h1 : wsdLoop c g ss l st1 = .ok (some stE)) (hF : Fut F stE) (hok : LoopOkC c g ss l st1)
    (hl : Lock F st1 st2) (h2 : wsdLoop c g' ss l st2 = .ok (some st2E)) : Lock F stE st2E := by
  induction l generalizing st1 st2 with
  | nil =>
    simp only [wsdLoop, pure, Except.pure, Except.ok.injEq, Option.some.injEq] at h1 h2
    subst h1; subst h2; exact hl
  | cons idx rest ih =>
    simp only [wsdLoop, bind, Except.bind] at h1 h2
    cases e1 : wsdStep c g ss st1 idx with
    | error x => rw [e1] at h1; cases h1
    | ok r1 =>
      rw [e1] at h1
      cases r1 with
      | none => cases h1
      | some st1' =>
        cases e2 : wsdStep c g' ss st2 idx with
        | error x => rw [e2] at h2; cases h2
        | ok r2 =>
          rw [e2] at h2
          cases r2 with
          | none => cases h2
          | some st2' =>
            simp only at h1 h2
            have hF' : Fut F st1' := Fut.back rest h1 hF
            have hl' := wsdStep_resave_cls hv ht e1 hF' hok.1 hl e2
            exact ih h1 (hok.2 st1' e1) hl' h2

theorem segFinish_idem_cls (c : Cls) (g : Seg) (ss : BitVec 64) (st st' : WsdSt) (hm : st'.mem = st.mem)
    (hf : st'.file = st.file) : segFinish c (segFinish c g ss st) ss st' = segFinish c g ss st := by
  unfold segFinish
  simp only [hm, hf]
  by_cases h : lseg_memsz_lt g.memsz st.mem = true
  · simp only [h, if_true]
    split <;> rfl
  · simp only [h, if_false, Bool.false_eq_true]

/-- the side conditions of one segment: its start is not 0 (unless it was at offset 0 already) and
    fits the class's offset field, and every member satisfies `StepOkC` -/
def SegOkC (c : Cls) (phoff : BitVec 64) (pe pn : BitVec 16) (lay : Layout) (g : Seg) : Prop :=
  ∀ p, segStartOf phoff pe pn lay g = .ok p →
    (lseg_offset0 g.offsetSet g.offset = false → p.2.1 ≠ 0) ∧ truncA c p.2.1 = p.2.1 ∧
    LoopOkC c g p.2.1 g.secs { lay := p.1, mem := p.2.2.1, file := p.2.2.2 }

/-- **one segment, in step**: laying out the finished segment `d` again, on the final sections,
    from the same cursor, reproduces `d` and the same cursor -/
theorem layoutSegment_resave_cls {c : Cls} {F : List SecBuf} {phoff : BitVec 64} {pe pn : BitVec 16}
    {lay1 lay1E lay2 lay2E : Layout} {g d d2 : Seg}
    (h1 : layoutSegment c phoff pe pn lay1 g = .ok (some (lay1E, d))) (hF : FutL F lay1E)
    (hok : SegOkC c phoff pe pn lay1 g) (hl : LockL F lay1 lay2)
    (h2 : layoutSegment c phoff pe pn lay2 d = .ok (some (lay2E, d2))) :
    LockL F lay1E lay2E ∧ d2 = d := by
  obtain ⟨p1, stE, s1, w1, rfl, rfl⟩ := layoutSegment_ok h1
  obtain ⟨p2', st2E, s2, w2, rfl, rfl⟩ := layoutSegment_ok h2
  obtain ⟨f1, f2, f3, f4, f5, f6, _⟩ := segFinish_fields c g p1.2.1 stE
  obtain ⟨e1, e2⟩ := segStartOf_secs s1
  -- the entry layout: generated sections are final
  have hFst : Fut F { lay := p1.1, mem := p1.2.2.1, file := p1.2.2.2 } := Fut.back g.secs w1 hF
  have hF1 : FutL F lay1 := by
    obtain ⟨a, b⟩ := hFst
    simp only [e1, e2] at a b
    exact ⟨a, b⟩
  obtain ⟨hnz, hfit, hloop⟩ := hok p1 s1
  rw [hfit] at f6
  obtain ⟨p2, s2', ep, lk⟩ := segStartOf_resave hl hF1 s1 f1 f2 f3 f4 f5 f6 (fun _ h => hnz h)
  rw [s2'] at s2
  simp only [Except.ok.injEq] at s2
  subst s2
  have hss : p2.2.1 = p1.2.1 := by rw [ep]
  have hm : p2.2.2.1 = p1.2.2.1 := by rw [ep]
  have hf : p2.2.2.2 = p1.2.2.2 := by rw [ep]
  rw [f2, hss, hm, hf] at w2
  have hlock := wsdLoop_resave_cls (g := g) (g' := segFinish c g p1.2.1 stE) f4 f1 g.secs w1 hF hloop
    (st2 := { lay := p2.1, mem := p1.2.2.1, file := p1.2.2.2 }) ⟨lk.secs, lk.pos, lk.gen, rfl, rfl⟩ w2
  refine ⟨⟨hlock.secs, hlock.pos, hlock.gen⟩, ?_⟩
  rw [hss]
  exact segFinish_idem_cls c g p1.2.1 stE st2E hlock.mem hlock.file

/-- the side conditions along the whole segment loop -/
def RunOkC (c : Cls) (e : Enc) (h0 : Bytes) : Layout → List Seg → Prop
  | _, [] => True
  | lay, g :: rest =>
    SegOkC c (Hdr.e_phoff c e h0) (Hdr.e_phentsize c e h0) (Hdr.e_phnum c e h0) lay g ∧
    ∀ lay' d, layoutSegment c (Hdr.e_phoff c e h0) (Hdr.e_phentsize c e h0) (Hdr.e_phnum c e h0) lay g =
      .ok (some (lay', d)) → RunOkC c e h0 lay' rest

/-- **the whole segment loop, in step**: running it again over the finished segments, on the final
    sections, from the initial cursor, reproduces the finished segments and the final cursor -/
theorem segRun_resave_cls {c : Cls} {e : Enc} {h0 : Bytes} {F : List SecBuf} {lay1 lay1E lay2 lay2E : Layout}
    {ordered ds acc done2 : List Seg}
    (run : SegRun c e h0 lay1 ordered lay1E ds) (hF : FutL F lay1E) (hok : RunOkC c e h0 lay1 ordered)
    (hl : LockL F lay1 lay2)
    (h2 : ds.foldlM (saveStep c e h0) (some (lay2, acc)) = .ok (some (lay2E, done2))) :
    LockL F lay1E lay2E ∧ done2 = acc ++ ds := by
  induction run generalizing lay2 acc with
  | nil lay =>
    simp only [List.foldlM_nil, pure, Except.pure, Except.ok.injEq, Option.some.injEq, Prod.mk.injEq] at h2
    obtain ⟨rfl, rfl⟩ := h2
    exact ⟨hl, by simp⟩
  | @cons layA layB layC g d rest ds' h1 run' ih =>
    simp only [List.foldlM_cons, saveStep, bind, Except.bind] at h2
    cases e2 : layoutSegment c (Hdr.e_phoff c e h0) (Hdr.e_phentsize c e h0) (Hdr.e_phnum c e h0) lay2 d with
    | error x => rw [e2] at h2; cases h2
    | ok r2 =>
      rw [e2] at h2
      cases r2 with
      | none =>
        simp only [pure, Except.pure] at h2
        rw [saveFold_none] at h2; cases h2
      | some p2 =>
        obtain ⟨layB2, d2⟩ := p2
        simp only [pure, Except.pure] at h2
        have hFB : FutL F layB := FutL.back run' hF
        obtain ⟨lk, ed⟩ := layoutSegment_resave_cls h1 hFB hok.1 hl e2
        subst ed
        obtain ⟨lkE, edone⟩ := ih hF (hok.2 _ _ h1) lk h2
        exact ⟨lkE, by rw [edone]; simp⟩
/-- under the run's side conditions every finished segment starts at a non-zero offset -/
theorem SegRun.nonzero_cls {c : Cls} {e : Enc} {h0 : Bytes} {lay layE : Layout} {ordered ds : List Seg}
    (run : SegRun c e h0 lay ordered layE ds) (hok : RunOkC c e h0 lay ordered) (hz : NoZeroOffset ordered) :
    NoZeroOffset ds := by
  induction run with
  | nil => intro g hg; cases hg
  | @cons layA layB layC g d rest ds' h1 _ ih =>
    intro x hx
    rcases List.mem_cons.1 hx with e' | e'
    · subst e'
      obtain ⟨p, st, s1, _, _, ed⟩ := layoutSegment_ok h1
      obtain ⟨hnz, hfit, _⟩ := hok.1 p s1
      have h0' : lseg_offset0 g.offsetSet g.offset = false := by
        have := hz g List.mem_cons_self
        simpa [lseg_offset0] using this
      have hne : p.2.1 ≠ 0 := hnz h0'
      obtain ⟨_, _, _, _, f5, f6, _⟩ := segFinish_fields c g p.2.1 st
      rw [ed, f5, f6, hfit]
      simp only [Bool.true_and, beq_eq_false_iff_ne, ne_eq]
      exact hne
    · exact ih (hok.2 _ _ h1) (fun y hy => hz y (List.mem_cons_of_mem _ hy)) x e'

/-! ### segments at file offset 0 (`get_ordered_segments`' first loop, `orderFront`)

`save_twice` / `save_twice_cls` assume `NoZeroOffset`: no segment is already at file offset 0, so
that the first loop of `get_ordered_segments` ("bring the segments which start at address 0 to the
front") is the identity.  A loaded executable has such a segment (the PT_LOAD covering the headers).
This file removes the assumption for objects *all* of whose segments have an initialised offset
(every loaded or previously saved object): the first loop then reads, of every segment, only
whether its offset is 0, and a save does not change that (a segment at offset 0 stays there —
`lseg_offset0` — and every other segment is laid out at a non-zero offset, `SegOkC`).

(`orderFront` tests `worklist[nextSlot]->get_offset() == 0` *without* `is_offset_initialized()`:
for a never-laid-out segment, whose offset field is still 0, the test is true before the first save
and false after it.  With a fresh segment listed before a segment at offset 0 the two saves would
order the segments differently; the public API cannot produce that list — `segments.add` appends,
`set_offset` is protected — so the hypothesis `AllOffsetSet` loses nothing reachable.)
-/

/-- what the first ordering loop reads of a segment -/
def FrontKey (φ : Seg → Seg) (g : Seg) : Prop :=
  ((φ g).offsetSet && (φ g).offset == 0) = (g.offsetSet && g.offset == 0) ∧
  ((φ g).offset == 0) = (g.offset == 0)

theorem mem_of_set_set {wl : Array Seg} {i j k : Nat} {a b g : Seg}
    (h : ((wl.set! i a).set! j b)[k]? = some g) : g = b ∨ g = a ∨ wl[k]? = some g := by
  simp only [Array.set!_eq_setIfInBounds, Array.getElem?_setIfInBounds, Array.size_setIfInBounds] at h
  by_cases e1 : j = k
  · rw [if_pos e1] at h
    by_cases e3 : j < wl.size
    · rw [if_pos e3] at h; simp only [Option.some.injEq] at h; exact Or.inl h.symm
    · rw [if_neg e3] at h; cases h
  · rw [if_neg e1] at h
    by_cases e2 : i = k
    · rw [if_pos e2] at h
      by_cases e3 : i < wl.size
      · rw [if_pos e3] at h; simp only [Option.some.injEq] at h; exact Or.inr (Or.inl h.symm)
      · rw [if_neg e3] at h; cases h
    · rw [if_neg e2] at h; exact Or.inr (Or.inr h)

theorem orderFront_go_map (φ : Seg → Seg) (n fuel i ns : Nat) (wl : Array Seg)
    (hφ : ∀ (k : Nat) g, wl[k]? = some g → FrontKey φ g) :
    orderFront.go n i ns (wl.map φ) fuel = (orderFront.go n i ns wl fuel).map (Array.map φ) := by
  induction fuel generalizing i ns wl with
  | zero => unfold orderFront.go; rfl
  | succ fuel ih =>
    unfold orderFront.go
    by_cases hge : i ≥ n
    · simp only [hge, if_true]; rfl
    · simp only [hge, if_false]
      rw [Array.getElem?_map]
      cases hs : wl[i]? with
      | none => rfl
      | some si =>
        simp only [Option.map_some]
        have k1 := (hφ i si hs).1
        have hc : (i != ns && (φ si).offsetSet && (φ si).offset == 0) = (i != ns && si.offsetSet && si.offset == 0) := by
          rw [Bool.and_assoc, Bool.and_assoc, k1]
        rw [hc]
        by_cases hcond : (i != ns && si.offsetSet && si.offset == 0) = true
        · simp only [hcond, if_true]
          rw [Array.getElem?_map]
          cases hsn : wl[ns]? with
          | none => rfl
          | some sn =>
            simp only [Option.map_some]
            rw [(hφ ns sn hsn).2]
            rw [Array.getElem?_map]
            cases hsn2 : wl[if (sn.offset == 0) = true then ns + 1 else ns]? with
            | none => rfl
            | some sn2 =>
              simp only [Option.map_some]
              have hm : ((wl.map φ).set! i (φ sn2)).set! (if (sn.offset == 0) = true then ns + 1 else ns) (φ si) =
                  ((wl.set! i sn2).set! (if (sn.offset == 0) = true then ns + 1 else ns) si).map φ := by
                simp only [Array.set!_eq_setIfInBounds, Array.map_setIfInBounds]
              rw [hm]
              apply ih
              intro k g hk
              rcases mem_of_set_set hk with e | e | e
              · subst e; exact hφ i _ hs
              · subst e; exact hφ _ _ hsn2
              · exact hφ k g e
        · have hcond' : (i != ns && si.offsetSet && si.offset == 0) = false := by simpa using hcond
          simp only [hcond', Bool.false_eq_true, if_false]
          exact ih _ _ _ hφ

theorem front_set_set_perm (a : Array Seg) (i j : Nat) (x y : Seg) (hi : a[i]? = some x) (hj : a[j]? = some y) :
    ((a.set! i y).set! j x).Perm a := by
  obtain ⟨hi', rfl⟩ := Array.getElem?_eq_some_iff.1 hi
  obtain ⟨hj', rfl⟩ := Array.getElem?_eq_some_iff.1 hj
  have : (a.set! i a[j]).set! j a[i] = a.swap i j hi' hj' := by
    simp [Array.set!_eq_setIfInBounds, Array.setIfInBounds_def, hi', hj', Array.swap]
  rw [this]; exact Array.swap_perm hi' hj'

/-- the first ordering loop permutes (same statement as `orderFront_go_perm` of Lemmas/Layout.lean,
    which this file does not import) -/
theorem orderFront_go_perm_any (n i ns : Nat) (wl out : Array Seg) (fuel : Nat)
    (h : orderFront.go n i ns wl fuel = .ok out) : out.Perm wl := by
  induction fuel generalizing i ns wl with
  | zero =>
    unfold orderFront.go at h
    simp only [pure, Except.pure, Except.ok.injEq] at h
    subst h; exact Array.Perm.refl _
  | succ f ih =>
    unfold orderFront.go at h
    by_cases hge : i ≥ n
    · simp only [hge, if_true, pure, Except.pure, Except.ok.injEq] at h
      subst h; exact Array.Perm.refl _
    · simp only [hge, if_false] at h
      cases hi : wl[i]? with
      | none => rw [hi] at h; simp [throw, throwThe, MonadExceptOf.throw] at h
      | some si =>
        rw [hi] at h
        simp only at h
        split at h
        · cases hn : wl[ns]? with
          | none => rw [hn] at h; simp [throw, throwThe, MonadExceptOf.throw] at h
          | some sn =>
            rw [hn] at h
            simp only at h
            cases hn2 : wl[if (sn.offset == 0) = true then ns + 1 else ns]? with
            | none => rw [hn2] at h; simp [throw, throwThe, MonadExceptOf.throw] at h
            | some sn2 =>
              rw [hn2] at h
              simp only at h
              exact (ih _ _ _ h).trans (front_set_set_perm wl i _ si sn2 hi hn2)
        · exact ih _ _ _ h

/-- the layout order is a permutation of the segments — with or without offset-0 segments -/
theorem orderedSegments_perm_any {segs ordered : List Seg} (h : orderedSegments segs = .ok ordered) :
    ordered.Perm segs := by
  unfold orderedSegments at h
  simp only [bind, Except.bind] at h
  cases hf : orderFront segs.toArray with
  | error e => rw [hf] at h; cases h
  | ok wl =>
    rw [hf] at h
    simp only at h
    have h1 := orderTopo_perm _ _ _ _ h
    simp only [List.append_nil] at h1
    unfold orderFront at hf
    have h2 := orderFront_go_perm_any _ _ _ _ _ _ hf
    have h3 := Array.perm_iff_toList_perm.1 h2
    exact h1.trans h3

/-- the layout order commutes with a map that keeps the member lists and the offset-0 tests -/
theorem orderedSegments_map_front {segs ordered : List Seg} (φ : Seg → Seg)
    (hφ : ∀ g ∈ segs, (φ g).secs = g.secs) (hk : ∀ g ∈ segs, FrontKey φ g)
    (h : orderedSegments segs = .ok ordered) : orderedSegments (segs.map φ) = .ok (ordered.map φ) := by
  unfold orderedSegments at h ⊢
  simp only [bind, Except.bind] at h ⊢
  cases hf : orderFront segs.toArray with
  | error e => rw [hf] at h; cases h
  | ok wl =>
    rw [hf] at h
    simp only at h
    have hf' : orderFront (segs.map φ).toArray = .ok (wl.map φ) := by
      unfold orderFront at hf ⊢
      rw [← List.map_toArray, Array.size_map, orderFront_go_map φ _ _ _ _ _ (fun k g hg => hk g (by
        have := Array.mem_of_getElem? hg
        simpa using this)), hf]
      rfl
    rw [hf']
    simp only [List.length_map, Array.toList_map]
    have hsub : ∀ g ∈ wl.toList, g ∈ segs := by
      intro g hg
      unfold orderFront at hf
      have := orderFront_go_sub _ _ _ _ _ _ hf g (by simpa using hg)
      simpa using this
    have := orderTopo_map φ (· ∈ segs) hφ (segs.length * segs.length + segs.length + 1) wl.toList []
      (fun g hg => hsub g (by simpa using hg))
    simp only [List.map_nil] at this
    rw [this, h]
    rfl


/-- a segment at file offset 0 (not the section-less PT_PHDR case) starts at 0 -/
theorem segStartOf_offset0 {phoff : BitVec 64} {pe pn : BitVec 16} {lay : Layout} {g : Seg}
    {p : Layout × BitVec 64 × BitVec 64 × BitVec 64} (h : segStartOf phoff pe pn lay g = .ok p)
    (hph : lseg_is_phdr g.stype (BitVec.ofNat 16 g.secs.length) = false)
    (h0 : lseg_offset0 g.offsetSet g.offset = true) : p.2.1 = 0 := by
  unfold segStartOf at h
  cases hh : g.secs.head? with
  | none =>
    rw [hh] at h
    simp only [pure_bind, hph, h0, Bool.false_eq_true, if_false, if_true] at h
    cases h; rfl
  | some f =>
    rw [hh] at h
    simp only at h
    cases hg : lay.gen[f.toNat]? with
    | none => rw [hg] at h; cases h
    | some b =>
      rw [hg] at h
      simp only [pure_bind, hph, h0, Bool.false_eq_true, if_false, if_true] at h
      cases h; rfl

/-- every segment has an initialised offset, and a section-less PT_PHDR is not at offset 0 -/
def AllOffsetSet (segs : List Seg) : Prop :=
  (∀ g ∈ segs, g.offsetSet = true) ∧
  ∀ g ∈ segs, lseg_is_phdr g.stype (BitVec.ofNat 16 g.secs.length) = true → g.offset ≠ 0

/-- along the run, a finished segment is at offset 0 exactly if it was before -/
theorem SegRun.front_cls {c : Cls} {e : Enc} {h0 : Bytes} {lay layE : Layout} {ordered ds : List Seg}
    (run : SegRun c e h0 lay ordered layE ds) (hok : RunOkC c e h0 lay ordered) (hset : AllOffsetSet ordered) :
    All2 (fun g d => d.offsetSet = true ∧ (d.offset == 0) = (g.offset == 0)) ordered ds := by
  induction run with
  | nil => exact All2.nil
  | @cons layA layB layC g d rest ds' h1 _ ih =>
    refine All2.cons ?_ (ih (hok.2 _ _ h1)
      ⟨fun y hy => hset.1 y (List.mem_cons_of_mem _ hy), fun y hy => hset.2 y (List.mem_cons_of_mem _ hy)⟩)
    obtain ⟨p, st, s1, _, _, ed⟩ := layoutSegment_ok h1
    obtain ⟨hnz, hfit, _⟩ := hok.1 p s1
    obtain ⟨_, _, _, _, f5, f6, _⟩ := segFinish_fields c g p.2.1 st
    have hgs := hset.1 g List.mem_cons_self
    have hoff0 : lseg_offset0 g.offsetSet g.offset = (g.offset == 0) := by
      rw [hgs]; simp [lseg_offset0]
    rw [ed, f5, f6, hfit]
    refine ⟨rfl, ?_⟩
    by_cases hz : g.offset = 0
    · have hph : lseg_is_phdr g.stype (BitVec.ofNat 16 g.secs.length) = false := by
        cases hq : lseg_is_phdr g.stype (BitVec.ofNat 16 g.secs.length) with
        | false => rfl
        | true => exact absurd hz (hset.2 g List.mem_cons_self hq)
      have := segStartOf_offset0 s1 hph (by rw [hoff0, hz]; rfl)
      rw [this, hz]
    · have h0' : lseg_offset0 g.offsetSet g.offset = false := by
        rw [hoff0]; simpa using hz
      have hne := hnz h0'
      have e1 : (p.2.1 == 0) = false := by simpa using hne
      have e2 : (g.offset == 0) = false := by simpa using hz
      rw [e1, e2]

/-- what `save_twice_front` asks of the segments' offsets: none is at offset 0 yet (a freshly built
    object), or all are initialised (a loaded or previously saved object) -/
def FrontOk (segs : List Seg) : Prop := NoZeroOffset segs ∨ AllOffsetSet segs

/-- the side conditions of `save_twice_cls`, evaluated along the layout of the first save -/
def ResaveOkC (o : Obj) (hd : Bytes) : Prop :=
  ∀ segs1 ordered, (preRes o).segs.mapM (calcSegAlign (preRes o).secs) = .ok segs1 →
    orderedSegments segs1 = .ok ordered →
    RunOkC o.cls o.enc (saveHdr0 (preRes o) hd) (saveLay0 (preRes o) (saveHdr0 (preRes o) hd)) ordered

/-- **save_twice** (any class; flat or nested segments; segments at file offset 0 allowed when all
    offsets are initialised — `FrontOk`): if `save` succeeds, and
    the side conditions `ResaveOk` hold along its layout, then a second `save` of the resulting
    object into the same initial stream — if it succeeds, which it does unless file offsets wrap
    around 2^64 — returns *exactly the same result*: same object, same stream, identical bytes.
    The address-driven branch of `write_segment_data` recomputes, for every member, the cursor
    position the first pass recorded (`stepCore_resave`); the segment loop, the ordering, the
    alignment pass, the loose-section pass and the header preparation are idempotent. -/
theorem save_twice_front {o : Obj} {os : OStream} {r r2 : SaveRes} {hd : Bytes}
    (hh : o.hdr = some hd) (hl : ehdrSize o.cls ≤ hd.length) (hidx : SegIdxOk o.segs) (hz : FrontOk o.segs)
    (hrs : ResaveOkC o hd) (hs : save o os = .ok r) (hok : r.ok = true)
    (hs2 : save r.obj os = .ok r2) (hok2 : r2.ok = true) : r2 = r := by
  obtain ⟨hd1, segs1, ordered, lay, done, e1, hf, h1, h2, h3, rfl⟩ := save_ok_unfold hs hok
  rw [hh] at e1; cases e1
  obtain ⟨_, eobj, _, _⟩ := saveTail_ok hok
  generalize ho1 : preRes o = o1 at *
  have hcls : o1.cls = o.cls := by rw [← ho1]; rfl
  have henc : o1.enc = o.enc := by rw [← ho1]; rfl
  have hsegs : o1.segs = o.segs := by rw [← ho1]; rfl
  have hset1 : ∀ b ∈ o1.secs, b.Settled := by rw [← ho1]; exact preRes_settled o
  generalize hh0 : saveHdr0 o1 hd = h0 at *
  -- the first run
  obtain ⟨ds, ed, run⟩ := saveFold_run ordered h3
  simp only [List.nil_append] at ed
  subst ed
  obtain ⟨fsec, _, fseg⟩ := run.frame
  have hlay0secs : (saveLay0 o1 h0).secs = o1.secs := rfl
  rw [hlay0secs] at fsec
  have hsetlay : ∀ b ∈ lay.secs, b.Settled := fsec.forall_right (fun a b h ha => Placed.settled h ha) hset1
  -- the loose pass of the first save
  obtain ⟨L, eL, fL⟩ := layoutLoose_frame o1.cls (putBack segs1 done) lay.secs 0 lay.pos []
  simp only [List.reverse_nil, List.nil_append] at eL
  rw [hcls] at fL
  have hsetL : ∀ b ∈ L, b.Settled := fL.forall_right (fun a b h ha => Placed.settled h ha) hsetlay
  have eS : tailSecs o1 segs1 lay done = L := by
    unfold tailSecs tailLoose
    rw [eL, residentForSave_id _ _ _ _ _ hsetL]; rfl
  have eSt : (residentForSave o1.cls o1.trans (tailLoose o1 segs1 lay done).1 { st := o1.stream } []).2.st = o1.stream := by
    unfold tailLoose
    rw [eL, residentForSave_id _ _ _ _ _ hsetL]
  rw [eS, eSt] at eobj
  generalize hT : saveTail o1 os h0 segs1 lay done = T at *
  have ecls : T.obj.cls = o1.cls := by rw [eobj]
  have eenc : T.obj.enc = o1.enc := by rw [eobj]
  have etr : T.obj.trans = o1.trans := by rw [eobj]
  have estr : T.obj.stream = o1.stream := by rw [eobj]
  have esecs : T.obj.secs = L := by rw [eobj]
  have esegs : T.obj.segs = putBack segs1 done := by rw [eobj]; rfl
  have ehdr : T.obj.hdr = some (tailHdr o1 h0 segs1 lay done) := by rw [eobj]
  have hLlen : L.length = o1.secs.length := fL.1.trans fsec.1
  -- the second save
  obtain ⟨hd2, segs2, ordered2, lay2, done2, e2, _, k1, k2, k3, rfl⟩ := save_ok_unfold hs2 hok2
  rw [ehdr] at e2; cases e2
  have hpre2 : preRes T.obj = T.obj := preRes_id _ (by rw [esecs]; exact hsetL)
  rw [hpre2] at k1 k3 ⊢
  have fa := mapM_ok_frame h1
  -- header preparation
  have eh : saveHdr0 T.obj (tailHdr o1 h0 segs1 lay done) = h0 := by
    rw [saveHdr0_congr ecls eenc (by rw [esegs, putBack_eq_map, List.length_map, fa.1])
      (by rw [esecs, hLlen])]
    unfold tailHdr
    rw [← hh0]
    exact saveHdr0_idem o1 hd _ (by rw [hcls]; exact hl)
  rw [eh] at k3 ⊢
  -- A. the alignment pass is the identity on the finished segments
  have hidx1 : SegIdxOk segs1 := by
    intro k g hg
    have hk : k < o1.segs.length := by
      rw [← fa.1]
      rcases Nat.lt_or_ge k segs1.length with hlt | hge
      · exact hlt
      · rw [List.getElem?_eq_none hge] at hg; cases hg
    have := fa.2 k o1.segs[k] g (List.getElem?_eq_getElem hk) hg
    rw [(calcSegAlign_frame (c := o1.cls) this).1.index]
    exact hidx k _ (by rw [← hsegs]; exact List.getElem?_eq_getElem hk)
  have hsrc : ∀ g ∈ segs1, ∃ g0 ∈ o.segs, g.offset = g0.offset ∧ g.offsetSet = g0.offsetSet ∧
      g.stype = g0.stype ∧ g.secs = g0.secs := by
    intro g hg
    obtain ⟨k, hk⟩ := List.getElem?_of_mem hg
    have hk' : k < o1.segs.length := by
      rw [← fa.1]
      rcases Nat.lt_or_ge k segs1.length with hlt | hge
      · exact hlt
      · rw [List.getElem?_eq_none hge] at hk; cases hk
    have := calcSegAlign_frame (c := o1.cls) (fa.2 k o1.segs[k] g (List.getElem?_eq_getElem hk') hk)
    refine ⟨o1.segs[k], by rw [← hsegs]; exact List.getElem_mem hk', this.2.1, this.2.2.2.2, ?_, this.1.secs⟩
    rw [this.1.rest]
  have hperm := orderedSegments_perm_any h2
  have hpair1 : segs1.Pairwise (fun a b => a.index ≠ b.index) := by
    rw [List.pairwise_iff_getElem]
    intro i j hi hj hij e
    have e1 := hidx1 i _ (List.getElem?_eq_getElem hi)
    have e2 := hidx1 j _ (List.getElem?_eq_getElem hj)
    omega
  have hpairO : ordered.Pairwise (fun a b => a.index ≠ b.index) :=
    (hperm.pairwise_iff (fun h e => h e.symm)).2 hpair1
  have hfin := SegRun.finished run
  have hfinIdx : All2 (fun g d => d.index = g.index) ordered done :=
    All2.imp hfin (fun g d hr => by
      obtain ⟨ss, st, e⟩ := hr
      rw [e]; exact (segFinish_fields _ _ _ _).2.2.2.2.2.2)
  have hmapO : ordered.map (backFn done) = done := map_backFn_eq hfinIdx hpairO
  -- the finished version of a segment of `segs1` keeps member list and alignment
  have hbackk : ∀ g ∈ segs1, ∃ k, ordered[k]? = some g ∧ ∃ hkd : k < done.length, backFn done g = done[k] := by
    intro g hg
    have hgo : g ∈ ordered := (hperm.mem_iff).2 hg
    obtain ⟨k, hk⟩ := List.getElem?_of_mem hgo
    have hk' : k < ordered.length := by
      rcases Nat.lt_or_ge k ordered.length with hlt | hge
      · exact hlt
      · rw [List.getElem?_eq_none hge] at hk; cases hk
    have hkd : k < done.length := by rw [(All2.getElem? hfin).1]; exact hk'
    refine ⟨k, hk, hkd, ?_⟩
    have := congrArg (fun l => l[k]?) hmapO
    simp only [List.getElem?_map, hk, Option.map_some, List.getElem?_eq_getElem hkd, Option.some.injEq] at this
    exact this
  have hback : ∀ g ∈ segs1, (backFn done g).secs = g.secs ∧ (backFn done g).align = g.align := by
    intro g hg
    obtain ⟨k, hk, hkd, e⟩ := hbackk g hg
    obtain ⟨ss, st, ef⟩ := (All2.getElem? hfin).2 k g _ hk (List.getElem?_eq_getElem hkd)
    rw [e, ef]
    exact ⟨(segFinish_fields _ _ _ _).2.1, (segFinish_fields _ _ _ _).2.2.1⟩
  have eq1 : segs2 = putBack segs1 done := by
    rw [esegs, esecs] at k1
    have : (putBack segs1 done).mapM (calcSegAlign L) = .ok (putBack segs1 done) := by
      apply mapM_ok_self
      intro g2 hg2
      rw [putBack_eq_map] at hg2
      obtain ⟨g, hg, rfl⟩ := List.mem_map.1 hg2
      obtain ⟨bs, ba⟩ := hback g hg
      apply calcSegAlign_fix
      intro idx hi
      rw [bs] at hi
      -- `g` came out of the alignment pass over `o1.secs`
      obtain ⟨k, hk⟩ := List.getElem?_of_mem hg
      have hk' : k < o1.segs.length := by
        rw [← fa.1]
        rcases Nat.lt_or_ge k segs1.length with hlt | hge
        · exact hlt
        · rw [List.getElem?_eq_none hge] at hk; cases hk
      have hca := fa.2 k o1.segs[k] g (List.getElem?_eq_getElem hk') hk
      have hsecs := (calcSegAlign_frame (c := o1.cls) hca).1.secs
      obtain ⟨s, hs0, hle⟩ := calcSegAlign_ge hca idx (by rw [← hsecs]; exact hi)
      -- the section's alignment is not changed by the placement
      have hiL : idx.toNat < L.length := by
        rw [hLlen]
        rcases Nat.lt_or_ge idx.toNat o1.secs.length with hlt | hge
        · exact hlt
        · rw [List.getElem?_eq_none hge] at hs0; cases hs0
      have hpl : Placed o.cls s L[idx.toNat] :=
        (FrameL.trans (R := Placed o.cls) (fun _ _ _ => Placed.trans) fsec fL).2 _ _ _ hs0
          (List.getElem?_eq_getElem hiL)
      refine ⟨L[idx.toNat], List.getElem?_eq_getElem hiL, ?_⟩
      rw [ba, hpl.frame.rest]; exact hle
    rw [this] at k1; cases k1; rfl
  subst eq1
  -- B. the order of the finished segments
  have hrun0 : RunOkC o.cls o.enc h0 (saveLay0 o1 h0) ordered := by
    have := hrs segs1 ordered (by rw [ho1]; exact h1) h2
    rw [ho1, hh0] at this; exact this
  have hmapped : orderedSegments (segs1.map (backFn done)) = .ok (ordered.map (backFn done)) := by
    rcases hz with hzA | hzB
    · -- no segment at offset 0: the first loop is the identity before and after
      have hz1 : NoZeroOffset segs1 := by
        intro g hg
        obtain ⟨g0, hg0, e1, e2, -, -⟩ := hsrc g hg
        rw [e1, e2]; exact hzA g0 hg0
      have hz2 : NoZeroOffset (segs1.map (backFn done)) := by
        have hnzd : NoZeroOffset done :=
          SegRun.nonzero_cls run hrun0 (fun g hg => hz1 g ((hperm.mem_iff).1 hg))
        intro g2 hg2
        obtain ⟨g, hg, rfl⟩ := List.mem_map.1 hg2
        unfold backFn
        cases hfd : done.find? (fun d => d.index == g.index) with
        | none => exact hz1 g hg
        | some d => exact hnzd d (List.mem_of_find?_eq_some hfd)
      exact orderedSegments_map (backFn done) (fun g hg => (hback g hg).1) hz1 hz2 h2
    · -- all offsets initialised: a save keeps "is at offset 0"
      have hset1 : AllOffsetSet ordered := by
        refine ⟨fun g hg => ?_, fun g hg hph => ?_⟩
        · obtain ⟨g0, hg0, -, e2, -, -⟩ := hsrc g ((hperm.mem_iff).1 hg)
          rw [e2]; exact hzB.1 g0 hg0
        · obtain ⟨g0, hg0, e1, -, e3, e4⟩ := hsrc g ((hperm.mem_iff).1 hg)
          rw [e1]; rw [e3, e4] at hph; exact hzB.2 g0 hg0 hph
      have hfront := SegRun.front_cls run hrun0 hset1
      refine orderedSegments_map_front (backFn done) (fun g hg => (hback g hg).1) (fun g hg => ?_) h2
      obtain ⟨k, hk, hkd, e⟩ := hbackk g hg
      obtain ⟨q1, q2⟩ := (All2.getElem? hfront).2 k g _ hk (List.getElem?_eq_getElem hkd)
      have hgs : g.offsetSet = true := hset1.1 g ((hperm.mem_iff).2 hg)
      unfold FrontKey
      rw [e, q1, q2, hgs]
      exact ⟨rfl, rfl⟩
  have eq2 : ordered2 = done := by
    rw [putBack_eq_map] at k2
    rw [hmapped, hmapO] at k2
    cases k2; rfl
  subst eq2
  -- C. the segment loop, in step
  rw [ecls, eenc, hcls, henc] at k3
  have hlk0 : LockL L (saveLay0 o1 h0) (saveLay0 T.obj h0) := by
    refine ⟨esecs, ?_, ?_⟩
    · show savePos0 T.obj h0 = savePos0 o1 h0
      unfold savePos0; rw [ecls, eenc]
    · show List.replicate (T.obj.secs.length % 65536) false = List.replicate (o1.secs.length % 65536) false
      rw [esecs, hLlen]
  have hFL : FutL L lay := by
    refine ⟨fL.1, fun i hi => ?_⟩
    -- a generated index is a member of a finished segment
    have hmem : withoutSegment (putBack segs1 ordered2) i = false := by
      rcases SegRun.gen_member run i hi with h0g | ⟨g, hg, idx, hidxm, e⟩
      · have : (List.replicate (o1.secs.length % 65536) false)[i]? = some true := h0g
        rw [List.getElem?_replicate] at this
        split at this <;> cases this
      · have hg1 : g ∈ segs1 := (hperm.mem_iff).1 hg
        unfold withoutSegment
        simp only [Bool.not_eq_false', List.any_eq_true]
        refine ⟨backFn ordered2 g, ?_, idx, by rw [(hback g hg1).1]; exact hidxm, by simpa using e⟩
        rw [putBack_eq_map]; exact List.mem_map_of_mem hg1
    have : L = (looseSpec o1.cls (putBack segs1 ordered2) lay.secs 0 lay.pos).1 := by
      rw [← eL, layoutLoose_eq]; rfl
    rw [this, looseSpec_getElem?_member _ _ _ 0 _ i (by rw [Nat.zero_add]; exact hmem)]
  have hrun := segRun_resave_cls run hFL (by
      have := hrs segs1 ordered (by rw [ho1]; exact h1) h2
      rw [ho1, hh0] at this; exact this) hlk0 k3
  obtain ⟨lkE, edone⟩ := hrun
  simp only [List.nil_append] at edone
  subst edone
  -- D. the tail
  congr 1
  refine (saveTail_congr' ecls eenc etr estr (putBack_idem segs1 done2) ?_).trans hT
  rw [lkE.secs, lkE.pos, layoutLoose_eq, layoutLoose_eq]
  have eL' : L = (looseSpec o1.cls (putBack segs1 done2) lay.secs 0 lay.pos).1 := by
    rw [← eL, layoutLoose_eq]; rfl
  rw [eL', looseSpec_idem]

/-- **save_twice_cls** : `save_twice` for any class (no segment at file offset 0) -/
theorem save_twice_cls {o : Obj} {os : OStream} {r r2 : SaveRes} {hd : Bytes}
    (hh : o.hdr = some hd) (hl : ehdrSize o.cls ≤ hd.length) (hidx : SegIdxOk o.segs) (hz : NoZeroOffset o.segs)
    (hrs : ResaveOkC o hd) (hs : save o os = .ok r) (hok : r.ok = true)
    (hs2 : save r.obj os = .ok r2) (hok2 : r2.ok = true) : r2 = r :=
  save_twice_front hh hl hidx (Or.inl hz) hrs hs hok hs2 hok2

/-- the byte-level reading of `save_twice_cls` -/
theorem save_idempotent_on_settled_cls {o : Obj} {os : OStream} {r r2 : SaveRes} {hd : Bytes}
    (hh : o.hdr = some hd) (hl : ehdrSize o.cls ≤ hd.length) (hidx : SegIdxOk o.segs) (hz : NoZeroOffset o.segs)
    (hrs : ResaveOkC o hd) (hs : save o os = .ok r) (hok : r.ok = true)
    (hs2 : save r.obj os = .ok r2) (hok2 : r2.ok = true) :
    r2.os.content = r.os.content ∧ r2.obj = r.obj := by
  rw [save_twice_cls hh hl hidx hz hrs hs hok hs2 hok2]; exact ⟨rfl, rfl⟩

/-- the byte-level reading of `save_twice_front` -/
theorem save_idempotent_front {o : Obj} {os : OStream} {r r2 : SaveRes} {hd : Bytes}
    (hh : o.hdr = some hd) (hl : ehdrSize o.cls ≤ hd.length) (hidx : SegIdxOk o.segs) (hz : FrontOk o.segs)
    (hrs : ResaveOkC o hd) (hs : save o os = .ok r) (hok : r.ok = true)
    (hs2 : save r.obj os = .ok r2) (hok2 : r2.ok = true) :
    r2.os.content = r.os.content ∧ r2.obj = r.obj := by
  rw [save_twice_front hh hl hidx hz hrs hs hok hs2 hok2]; exact ⟨rfl, rfl⟩

/-! ### ELF64: the new side conditions are vacuous -/

theorem loopOkC_of_c64 {g : Seg} {ss : BitVec 64} (l : List (BitVec 16)) {st : WsdSt}
    (h : LoopOk .c64 g ss l st) : LoopOkC .c64 g ss l st := by
  induction l generalizing st with
  | nil => trivial
  | cons idx rest ih =>
    exact ⟨fun sec h1 h2 => ⟨h.1 sec h1 h2, fun _ _ _ => rfl⟩, fun st' hs => ih (h.2 st' hs)⟩

theorem runOkC_of_c64 {e : Enc} {h0 : Bytes} (l : List Seg) {lay : Layout} (h : RunOk e h0 lay l) :
    RunOkC .c64 e h0 lay l := by
  induction l generalizing lay with
  | nil => trivial
  | cons g rest ih =>
    refine ⟨fun p hp => ?_, fun lay' d hd' => ih (h.2 lay' d hd')⟩
    obtain ⟨a, b⟩ := h.1 p hp
    exact ⟨a, rfl, loopOkC_of_c64 _ b⟩

/-- in ELF64 `ResaveOkC` is `ResaveOk`: `save_twice_cls` contains `save_twice` -/
theorem resaveOkC_of_c64 {o : Obj} {hd : Bytes} (hc : o.cls = .c64) (h : ResaveOk o hd) : ResaveOkC o hd := by
  intro segs1 ordered h1 h2
  rw [hc]
  exact runOkC_of_c64 _ (h segs1 ordered h1 h2)

/-! ### a Bool-valued sufficient condition -/

instance (sec : SecBuf) (pos : BitVec 64) : Decidable (GapBeforeAddresslessNobits sec pos) := by
  unfold GapBeforeAddresslessNobits; infer_instance

def stepOkB (c : Cls) (g : Seg) (ss : BitVec 64) (st : WsdSt) (idx : BitVec 16) : Bool :=
  match st.lay.secs[idx.toNat]?, st.lay.gen[idx.toNat]? with
  | some sec, some false =>
    !decide (GapBeforeAddresslessNobits sec st.lay.pos) &&
    (sec.addrSet ||
      match stepGap g ss sec false st.lay.pos st.file with
      | some gap => truncA c (wsd_new_addr g.vaddr (wsd_cursor_gap st.lay.pos gap) ss) ==
          wsd_new_addr g.vaddr (wsd_cursor_gap st.lay.pos gap) ss
      | none => true)
  | _, _ => true

def loopOkB (c : Cls) (g : Seg) (ss : BitVec 64) : List (BitVec 16) → WsdSt → Bool
  | [], _ => true
  | idx :: rest, st =>
    stepOkB c g ss st idx &&
      match wsdStep c g ss st idx with
      | .ok (some st') => loopOkB c g ss rest st'
      | _ => true

def segOkB (c : Cls) (phoff : BitVec 64) (pe pn : BitVec 16) (lay : Layout) (g : Seg) : Bool :=
  match segStartOf phoff pe pn lay g with
  | .ok p =>
    (lseg_offset0 g.offsetSet g.offset || p.2.1 != 0) && truncA c p.2.1 == p.2.1 &&
      loopOkB c g p.2.1 g.secs { lay := p.1, mem := p.2.2.1, file := p.2.2.2 }
  | _ => true

def runOkB (c : Cls) (e : Enc) (h0 : Bytes) : Layout → List Seg → Bool
  | _, [] => true
  | lay, g :: rest =>
    segOkB c (Hdr.e_phoff c e h0) (Hdr.e_phentsize c e h0) (Hdr.e_phnum c e h0) lay g &&
      match layoutSegment c (Hdr.e_phoff c e h0) (Hdr.e_phentsize c e h0) (Hdr.e_phnum c e h0) lay g with
      | .ok (some (lay', _)) => runOkB c e h0 lay' rest
      | _ => true

/-- `ResaveOkC`, evaluated -/
def resaveOkB (o : Obj) (hd : Bytes) : Bool :=
  match (preRes o).segs.mapM (calcSegAlign (preRes o).secs) with
  | .ok segs1 =>
    match orderedSegments segs1 with
    | .ok ordered =>
      runOkB o.cls o.enc (saveHdr0 (preRes o) hd) (saveLay0 (preRes o) (saveHdr0 (preRes o) hd)) ordered
    | _ => true
  | _ => true

theorem stepOkC_of_B {c : Cls} {g : Seg} {ss : BitVec 64} {st : WsdSt} {idx : BitVec 16}
    (h : stepOkB c g ss st idx = true) : StepOkC c g ss st idx := by
  intro sec hs hg
  unfold stepOkB at h
  rw [hs, hg] at h
  simp only [Bool.and_eq_true, Bool.not_eq_true', decide_eq_false_iff_not, Bool.or_eq_true] at h
  refine ⟨h.1, fun ha gap hgap => ?_⟩
  rcases h.2 with h2 | h2
  · rw [ha] at h2; cases h2
  · rw [hgap] at h2
    simpa using h2

theorem loopOkC_of_B {c : Cls} {g : Seg} {ss : BitVec 64} (l : List (BitVec 16)) {st : WsdSt}
    (h : loopOkB c g ss l st = true) : LoopOkC c g ss l st := by
  induction l generalizing st with
  | nil => trivial
  | cons idx rest ih =>
    unfold loopOkB at h
    simp only [Bool.and_eq_true] at h
    refine ⟨stepOkC_of_B h.1, fun st' hs => ?_⟩
    have h2 := h.2
    rw [hs] at h2
    exact ih h2

theorem segOkC_of_B {c : Cls} {phoff : BitVec 64} {pe pn : BitVec 16} {lay : Layout} {g : Seg}
    (h : segOkB c phoff pe pn lay g = true) : SegOkC c phoff pe pn lay g := by
  intro p hp
  unfold segOkB at h
  rw [hp] at h
  simp only [Bool.and_eq_true, Bool.or_eq_true, bne_iff_ne, ne_eq, beq_iff_eq] at h
  obtain ⟨⟨h1, h2⟩, h3⟩ := h
  refine ⟨fun h0 => ?_, h2, loopOkC_of_B _ h3⟩
  rcases h1 with h1 | h1
  · rw [h0] at h1; cases h1
  · exact h1

theorem runOkC_of_B {c : Cls} {e : Enc} {h0 : Bytes} (l : List Seg) {lay : Layout}
    (h : runOkB c e h0 lay l = true) : RunOkC c e h0 lay l := by
  induction l generalizing lay with
  | nil => trivial
  | cons g rest ih =>
    unfold runOkB at h
    simp only [Bool.and_eq_true] at h
    refine ⟨segOkC_of_B h.1, fun lay' d hd' => ?_⟩
    have h2 := h.2
    rw [hd'] at h2
    exact ih h2

theorem resaveOkC_of_B {o : Obj} {hd : Bytes} (h : resaveOkB o hd = true) : ResaveOkC o hd := by
  intro segs1 ordered h1 h2
  unfold resaveOkB at h
  rw [h1] at h
  simp only at h
  rw [h2] at h
  exact runOkC_of_B _ h

/-! ### non-vacuity in ELF32 -/

def exHdr32 : Bytes := Hdr.create .c32 .msb 2

/-- an ELF32 big-endian object: `.text` (24 bytes, align 16, automatic address) and `.data`
    (explicit address) in a PT_LOAD, a nested PT_NOTE-like segment over `.data`, a loose section -/
def exObj32 : Obj :=
  { cls := .c32, enc := .msb, hdr := some exHdr32,
    secs := [ { SecBuf.fresh .c32 0 with index := 0 },
              { SecBuf.fresh .c32 3 with index := 1, size := 17, addrAlign := 1 },
              { SecBuf.fresh .c32 1 with index := 2, size := 24, addrAlign := 16, flags := 6 },
              { SecBuf.fresh .c32 1 with index := 3, size := 10, addrAlign := 4, flags := 3,
                                         addr := 0x401040, addrSet := true },
              { SecBuf.fresh .c32 2 with index := 4, size := 48, addrAlign := 8 } ],
    segs := [ { stype := 1, vaddr := 0x401000, align := 0x1000, secs := [2, 3], index := 0 },
              { stype := 4, vaddr := 0x401040, align := 4, secs := [3], index := 1 } ] }

/-- `exObj32` meets every hypothesis of `save_twice_cls`, and both saves succeed -/
theorem exObj32_resave :
    exObj32.hdr = some exHdr32 ∧ ehdrSize exObj32.cls ≤ exHdr32.length ∧ SegIdxOk exObj32.segs ∧
    NoZeroOffset exObj32.segs ∧ ResaveOkC exObj32 exHdr32 ∧
    (match save exObj32 {} with
     | .ok r => r.ok && (match save r.obj {} with | .ok r2 => r2.ok | .error _ => false)
     | .error _ => false) = true := by
  refine ⟨rfl, by decide, ?_, ?_, resaveOkC_of_B (by decide +kernel), by decide +kernel⟩
  rotate_left
  · have : ∀ g ∈ exObj32.segs, (g.offsetSet && g.offset == 0) = false := by decide
    exact this
  intro k g hg
  have : ∀ k < 2, ∀ g, exObj32.segs[k]? = some g → g.index = k := by decide
  rcases Nat.lt_or_ge k 2 with h | h
  · exact this k h g hg
  · rw [List.getElem?_eq_none (show exObj32.segs.length ≤ k from h)] at hg; cases hg

/-! ### non-vacuity with a segment at file offset 0 -/

def exHdr64 : Bytes := Hdr.create .c64 .lsb 1

/-- an object as a loader leaves it for a small executable: every segment offset initialised, the
    first PT_LOAD at file offset 0 (it covers the headers and `.text`), a second PT_LOAD over `.data` -/
def exLoadedLike : Obj :=
  { cls := .c64, enc := .lsb, hdr := some exHdr64,
    secs := [ { SecBuf.fresh .c64 0 with index := 0, addrSet := true },
              { SecBuf.fresh .c64 3 with index := 1, size := 17, addrAlign := 1, addrSet := true, offset := 0x2010 },
              { SecBuf.fresh .c64 1 with index := 2, size := 24, addrAlign := 16, flags := 6,
                                         addr := 0x4000b0, addrSet := true, offset := 0xb0 },
              { SecBuf.fresh .c64 1 with index := 3, size := 10, addrAlign := 4, flags := 3,
                                         addr := 0x402000, addrSet := true, offset := 0x2000 } ],
    segs := [ { stype := 1, vaddr := 0x400000, align := 0x1000, secs := [2], index := 0,
                offset := 0, offsetSet := true, filesz := 0xc8, memsz := 0xc8 },
              { stype := 1, vaddr := 0x402000, align := 0x1000, secs := [3], index := 1,
                offset := 0x2000, offsetSet := true, filesz := 10, memsz := 10 } ] }

/-- `exLoadedLike` is outside `NoZeroOffset` but meets every hypothesis of `save_twice_front`
    (right disjunct of `FrontOk`), and both saves succeed with the PT_LOAD still at offset 0 -/
theorem exLoadedLike_resave :
    exLoadedLike.hdr = some exHdr64 ∧ ehdrSize exLoadedLike.cls ≤ exHdr64.length ∧ SegIdxOk exLoadedLike.segs ∧
    ¬ NoZeroOffset exLoadedLike.segs ∧ FrontOk exLoadedLike.segs ∧ ResaveOkC exLoadedLike exHdr64 ∧
    (match save exLoadedLike {} with
     | .ok r => r.ok && r.obj.segs.map (·.offset) == [0, 0x1000] &&
         (match save r.obj {} with | .ok r2 => r2.ok | .error _ => false)
     | .error _ => false) = true := by
  refine ⟨rfl, by decide, ?_, ?_, Or.inr ⟨?_, ?_⟩, resaveOkC_of_B (by decide +kernel), by decide +kernel⟩
  · intro k g hg
    have : ∀ k < 2, ∀ g, exLoadedLike.segs[k]? = some g → g.index = k := by decide
    rcases Nat.lt_or_ge k 2 with h | h
    · exact this k h g hg
    · rw [List.getElem?_eq_none (show exLoadedLike.segs.length ≤ k from h)] at hg; cases hg
  · intro h
    have : ∃ g ∈ exLoadedLike.segs, (g.offsetSet && g.offset == 0) = true := by decide
    obtain ⟨g, hg, e⟩ := this
    rw [h g hg] at e; cases e
  · have : ∀ g ∈ exLoadedLike.segs, g.offsetSet = true := by decide
    exact this
  · have : ∀ g ∈ exLoadedLike.segs, lseg_is_phdr g.stype (BitVec.ofNat 16 g.secs.length) = true → g.offset ≠ 0 := by
      decide
    exact this

end ElfioVerif.C06
