/-
C18 — every table query on any loaded file is memory-safe.

The statements are about Model/TableQuery.lean: the query interfaces as they are after
fixes/10 … 15, 17 … 21, built from the accessor families' models (Model/Symbols, Reloc, Arrange, Array,
Versym) and the generated guards of Gen/SitesC18.lean, every raw access a checked read/write.

Domain: sections in the state the loader leaves them in, `Sec b`:
  * `get_data()` has been called (a further call changes nothing), and
  * `data = none`, or `data = some d` with `size < d.length` (room for `size` bytes + the terminator),
with ANY header field values and ANY contents; ARBITRARY indices / names / values / entry counts.
`Small b` (a resident section is shorter than 4 GiB) is required where a 32-bit counter of the code
could otherwise wrap (GNU chain index, `swap_symbols`, `arrange_local_symbols`).  `load_inv` (C01)
establishes both for every section of a loaded object (`sec_of_loaded`, `small_of_loaded`).

* `reloc_get_total`, `reloc_get_resolved_total`, `sym_by_name_total` (with `sysv_walk_total`,
  `gnu_walk_total` on ARBITRARY hash section contents), `sym_by_value_total`, `array_get_total`,
  `versym_get_total`, `verneed_get_total`, `verdef_get_total`, `swap_symbols_total`, `arrange_total_any`:
  each query returns `.ok _` — no fault, no fuel exhaustion (= always returns).
* `queries_total`: composition with the loader: on the object a load of ANY byte string (shorter than
  4 GiB) yields, every query of the interface (`TQ.runQuery`: sections looked up by ARBITRARY index and
  made resident against the real stream) returns.
* `…_witness`: the faults of the unfixed functions, machine-checked on the models of the unfixed code
  (the accessor families' definitions, which stay the models of the function bodies behind the new
  guards) — one per repaired finding (F7 a–f).
-/
import ElfioVerif.Lemmas.TableSafetySwap
import ElfioVerif.Props.C01
import ElfioVerif.Props.C09
namespace ElfioVerif
open Gen

namespace C18

/-! ### the accessor-level theorems -/

/-- relocation `get_entry(index, offset, symbol, type, addend)` -/
theorem reloc_get_total (enc : Enc) (b : SecBuf) (hb : Sec b) (index : BitVec 64) :
    ∃ r, TQ.relGet enc b index = .ok r := relGet_total enc b hb index

/-- relocation `get_entry` with symbol resolution: any symbol table accessor on `Sec` sections, or none
    (`sh_link` names no section) -/
theorem reloc_get_resolved_total (enc : Enc) (b : SecBuf) (hb : Sec b) (symtab : Option SymTab)
    (ht : ∀ t, symtab = some t → TabOk t) (index : BitVec 64) :
    ∃ r, TQ.relGetResolved enc b symtab index = .ok r := relGetResolved_total enc b hb symtab ht index

/-- the SysV hash walk on ARBITRARY hash section contents -/
theorem sysv_walk_total (t : SymTab) (ht : TabOk t) (h : SecBuf) (hh : Sec h) (name : Bytes) (a : Attrs) :
    ∃ r, TQ.hashLookup t h name a = .ok r := hashLookup_total t ht h hh name a

/-- the GNU hash walk on ARBITRARY hash section contents -/
theorem gnu_walk_total (t : SymTab) (ht : TabOk t) (h : SecBuf) (hh : Sec h) (hs : Small h) (name : Bytes)
    (a : Attrs) : ∃ r, TQ.gnuLookup t h name a = .ok r := gnuLookup_total t ht h hh hs name a

/-- `get_symbol(name, …)` : hash walks + linear fallback, any name -/
theorem sym_by_name_total (t : SymTab) (ht : TabOk t) (hs : ∀ h, t.hash = some h → Small h) (name : Bytes)
    (a : Attrs) : ∃ r, TQ.getByName t name a = .ok r := getByName_total t ht hs name a

/-- `get_symbol(value, …)` -/
theorem sym_by_value_total (t : SymTab) (ht : TabOk t) (value : BitVec 64) (str : Bytes) (a : Attrs) :
    ∃ r, TQ.getByValue t value str a = .ok r := getByValue_total t ht value str a

/-- array `get_entry`, entry widths 4 and 8 -/
theorem array_get_total (w : Arr.W) (e : Enc) (b : SecBuf) (hb : Sec b) (index : BitVec 64) :
    ∃ r, TQ.arrGet w e b index = .ok r := arrGet_total w e b hb index

/-- versym `get_entry` on a (new) accessor: the cached count is the constructor's -/
theorem versym_get_total (b : SecBuf) (hb : Sec b) (no : BitVec 32) :
    ∃ r, TQ.versymGet b (Versym.mk b) no = .ok r := versymGet_total b hb _ no (versym_mk_le b)

/-- version requirement `get_entry` for ANY `DT_VERNEEDNUM` value, any linked section (or none) -/
theorem verneed_get_total (e : Enc) (b : SecBuf) (hb : Sec b) (str : Option SecBuf) (num no : BitVec 32) :
    ∃ r, TQ.needGet e b str num no = .ok r := needGet_total e b hb str num no

/-- version definition `get_entry` for ANY `DT_VERDEFNUM` value -/
theorem verdef_get_total (e : Enc) (b : SecBuf) (hb : Sec b) (str : Option SecBuf) (num no : BitVec 32) :
    ∃ r, TQ.defGet e b str num no = .ok r := defGet_total e b hb str num no

/-- `swap_symbols(first, second)` : total, and the section stays in the domain -/
theorem swap_symbols_total (enc : Enc) (b : SecBuf) (hb : Sec b) (hs : Small b) (first second : BitVec 64) :
    ∃ b', TQ.swapSymbols enc b first second = .ok b' ∧ Sec b' ∧ Small b' := by
  obtain ⟨b', h, k⟩ := swapSymbols_keep enc b hb hs first second
  exact ⟨b', h, k.sec, k.small hs⟩

/-- `arrange_local_symbols` with the callback that forwards to `swap_symbols` of any list of
    relocation sections: any entry size, `sh_info`, contents; with or without data -/
theorem arrange_total_any (enc : Enc) (s : SecBuf) (hs : Sec s) (hsm : Small s) (rels : List SecBuf)
    (hr : ∀ r ∈ rels, Sec r ∧ Small r) : ∃ r, TQ.arrange (TQ.swapAll enc) s rels = .ok r :=
  arrange_total enc s hs hsm rels hr

/-! ### from the loader invariant to the domain -/

theorem secLoadData_ok_isLoaded (c : Cls) (tr : List Trans) (ls : LoadSt) (b : SecBuf)
    (h : (secLoadData c tr ls b).2.2 = true) : (secLoadData c tr ls b).2.1.isLoaded = true := by
  rw [secLoadData_eq] at h ⊢
  (repeat' split) <;> simp_all

/-- `get_data()` leaves a section settled -/
theorem secGetData_settled (c : Cls) (tr : List Trans) (ls : LoadSt) (b : SecBuf) :
    (!(secGetData c tr ls b).2.isLoaded && (secGetData c tr ls b).2.canLoad) = false := by
  rw [secGetData_eq]
  split
  · split
    · rename_i h; simp [secLoadData_ok_isLoaded c tr ls b h]
    · simp
  · rename_i h; simpa using h

/-- a settled section with the loader invariant is in the domain -/
theorem sec_of_loaded {tr : List Trans} {img : Bytes} {b : SecBuf} (h : LoadedSec tr b img)
    (hs : (!b.isLoaded && b.canLoad) = false) : Sec b := ⟨hs, h.bufOk⟩

/-- a resident loaded section is not longer than the input -/
theorem small_of_loaded {tr : List Trans} {img : Bytes} {b : SecBuf} (h : LoadedSec tr b img)
    (hlen : img.length < 4294967296) : Small b := by
  intro d hd
  have := (h.exact d hd).2
  rw [slice_length] at this
  omega

/-! ### queries on a loaded object -/

/-- section `j` of the object (if there is one) is settled -/
def SettledAt (o : Obj) (j : Nat) : Prop := ∀ b, o.secs[j]? = some b → (!b.isLoaded && b.canLoad) = false

theorem settle_spec {o : Obj} {img : Bytes} (h : C01.ObjInv o img) {i : Nat} {o1 : Obj} {b : SecBuf}
    (hs : TQ.settle o i = some (o1, b)) :
    C01.ObjInv o1 img ∧ o1.trans = o.trans ∧ LoadedSec o.trans b img ∧ (!b.isLoaded && b.canLoad) = false ∧
    o1.secs[i]? = some b ∧ o1.secs.length = o.secs.length ∧ (∀ j, SettledAt o j → SettledAt o1 j) := by
  unfold TQ.settle at hs
  cases hget : o.secs[i]? with
  | none => rw [hget] at hs; cases hs
  | some b0 =>
    rw [hget] at hs
    simp only [Option.some.injEq, Prod.mk.injEq] at hs
    obtain ⟨rfl, rfl⟩ := hs
    have hreq := C01.request_inv o img (.secData i) h
    simp only [C01.request, hget] at hreq
    have hs0 : StOk o.trans img o.stream.kind { st := o.stream } := ⟨h.sdata, rfl, fun a ha => by cases ha⟩
    obtain ⟨-, h2, -⟩ := secGetData_spec o.cls o.trans _ b0 img _ hs0 (h.secs b0 (List.mem_of_getElem? hget))
    have hi : i < o.secs.length := by
      rcases Nat.lt_or_ge i o.secs.length with h' | h'
      · exact h'
      · rw [List.getElem?_eq_none h'] at hget; cases hget
    refine ⟨hreq.1, rfl, h2, secGetData_settled _ _ _ _, ?_, ?_, ?_⟩
    · simp [List.getElem?_set, hi]
    · simp
    · intro j hj b hb
      by_cases hij : i = j
      · subst hij
        simp only [List.getElem?_set, hi, if_true] at hb
        simp only [Option.some.injEq] at hb
        subst hb; exact secGetData_settled _ _ _ _
      · simp only [List.getElem?_set, hij, if_false] at hb
        exact hj b hb

theorem sec_at {o : Obj} {img : Bytes} (h : C01.ObjInv o img) (hlen : img.length < 4294967296) {j : Nat}
    (hj : SettledAt o j) {b : SecBuf} (hb : o.secs[j]? = some b) : Sec b ∧ Small b :=
  have hl := h.secs b (List.mem_of_getElem? hb)
  ⟨sec_of_loaded hl (hj b hb), small_of_loaded hl hlen⟩

theorem settle_sec {o : Obj} {img : Bytes} (h : C01.ObjInv o img) (hlen : img.length < 4294967296) {i : Nat}
    {o1 : Obj} {b : SecBuf} (hs : TQ.settle o i = some (o1, b)) : Sec b ∧ Small b := by
  obtain ⟨-, -, h3, h4, -⟩ := settle_spec h hs
  exact ⟨sec_of_loaded h3 h4, small_of_loaded h3 hlen⟩

theorem settleOpt_spec {o : Obj} {img : Bytes} (h : C01.ObjInv o img) (hlen : img.length < 4294967296) (i : Nat) :
    C01.ObjInv (TQ.settleOpt o i).1 img ∧ (∀ b, (TQ.settleOpt o i).2 = some b → Sec b ∧ Small b) ∧
    (TQ.settleOpt o i).1.secs.length = o.secs.length ∧
    (∀ j, SettledAt o j → SettledAt (TQ.settleOpt o i).1 j) ∧
    (i < o.secs.length → SettledAt (TQ.settleOpt o i).1 i) := by
  unfold TQ.settleOpt
  cases hs : TQ.settle o i with
  | none =>
    dsimp only
    refine ⟨h, (fun b hb => by cases hb), rfl, fun j hj => hj, ?_⟩
    intro hi
    unfold TQ.settle at hs
    rw [List.getElem?_eq_getElem hi] at hs
    cases hs
  | some r =>
    obtain ⟨o1, b⟩ := r
    dsimp only
    obtain ⟨h1, -, -, h4, h5, h6, h7⟩ := settle_spec h hs
    refine ⟨h1, ?_, h6, h7, ?_⟩
    · intro b' hb'
      simp only [Option.some.injEq] at hb'
      subst hb'
      exact settle_sec h hlen hs
    · intro _ b' hb'
      rw [h5] at hb'
      simp only [Option.some.injEq] at hb'
      subst hb'; exact h4

theorem settleAll_spec {img : Bytes} (hlen : img.length < 4294967296) :
    ∀ (js : List Nat) (o : Obj), C01.ObjInv o img →
      C01.ObjInv (TQ.settleAll o js) img ∧ (TQ.settleAll o js).secs.length = o.secs.length ∧
      (∀ j, SettledAt o j → SettledAt (TQ.settleAll o js) j) ∧
      (∀ j ∈ js, j < o.secs.length → SettledAt (TQ.settleAll o js) j) := by
  intro js
  induction js with
  | nil => intro o h; exact ⟨h, rfl, fun j hj => hj, fun j hj => by cases hj⟩
  | cons j js ih =>
    intro o h
    unfold TQ.settleAll
    obtain ⟨h1, -, h3, h4, h5⟩ := settleOpt_spec h hlen j
    obtain ⟨i1, i2, i3, i4⟩ := ih _ h1
    refine ⟨i1, i2.trans h3, fun k hk => i3 k (h4 k hk), ?_⟩
    intro k hk hlt
    rcases List.mem_cons.mp hk with rfl | hk
    · exact i3 _ (h5 hlt)
    · exact i4 k hk (by rw [h3]; exact hlt)

theorem symTabFor_spec {o : Obj} {img : Bytes} (h : C01.ObjInv o img) (hlen : img.length < 4294967296) {i : Nat}
    {o' : Obj} {t : SymTab} (hs : TQ.symTabFor o i = some (o', t)) :
    TabOk t ∧ (∀ hh, t.hash = some hh → Small hh) ∧ C01.ObjInv o' img := by
  unfold TQ.symTabFor at hs
  cases h1 : TQ.settle o i with
  | none => rw [h1] at hs; cases hs
  | some r =>
    obtain ⟨o1, b⟩ := r
    rw [h1] at hs
    simp only [Option.some.injEq, Prod.mk.injEq] at hs
    obtain ⟨rfl, rfl⟩ := hs
    obtain ⟨i1, -⟩ := settle_spec h h1
    have hb := settle_sec h hlen h1
    obtain ⟨j1, j2, -⟩ := settleOpt_spec i1 hlen (tq_sym_strtab_index b.link).toNat
    refine ⟨⟨hb.1, fun s hs => (j2 s hs).1, ?_⟩, ?_, ?_⟩
    · intro s hs
      dsimp only at hs
      split at hs
      · exact ((settleOpt_spec j1 hlen _).2.1 s hs).1
      · cases hs
    · intro s hs
      dsimp only at hs
      split at hs
      · exact ((settleOpt_spec j1 hlen _).2.1 s hs).2
      · cases hs
    · split
      · exact (settleOpt_spec j1 hlen _).1
      · exact j1

theorem liftQ_ok {α : Type} (o : Obj) {x : M α} (f : α → TQ.Out) (h : ∃ a, x = .ok a) :
    ∃ r, TQ.liftQ o x f = .ok r := by
  obtain ⟨a, rfl⟩ := h
  exact ⟨_, rfl⟩

/-- **queries_total** (object level): on an object with the loader invariant (`C01.ObjInv`: what
    `load_inv` establishes and data requests preserve) whose input is shorter than 4 GiB, EVERY query of
    the table interfaces — any section indices, entry indices, names, values, entry counts — returns. -/
theorem runQuery_total (o : Obj) (img : Bytes) (h : C01.ObjInv o img) (hlen : img.length < 4294967296)
    (q : TQ.Query) : ∃ r, TQ.runQuery o q = .ok r := by
  cases q with
  | relGet i k =>
    simp only [TQ.runQuery]
    cases hs : TQ.settle o i with
    | none => exact ⟨_, rfl⟩
    | some r => exact liftQ_ok _ _ (reloc_get_total _ _ (settle_sec h hlen hs).1 _)
  | relGetResolved i k =>
    simp only [TQ.runQuery]
    cases hs : TQ.settle o i with
    | none => exact ⟨_, rfl⟩
    | some r =>
      obtain ⟨o1, b⟩ := r
      dsimp only
      obtain ⟨i1, -⟩ := settle_spec h hs
      cases ht : TQ.symTabFor o1 (TQ.relSymtabIndex b) with
      | none =>
        exact liftQ_ok _ _ (reloc_get_resolved_total _ _ (settle_sec h hlen hs).1 none (fun t ht => by cases ht) _)
      | some r2 =>
        exact liftQ_ok _ _ (reloc_get_resolved_total _ _ (settle_sec h hlen hs).1 (some r2.2)
          (fun t ht' => by
            simp only [Option.some.injEq] at ht'; subst ht'
            exact (symTabFor_spec i1 hlen (o' := r2.1) (by rw [ht])).1) _)
  | symByName i name =>
    simp only [TQ.runQuery]
    cases ht : TQ.symTabFor o i with
    | none => exact ⟨_, rfl⟩
    | some r =>
      have hk := symTabFor_spec h hlen (o' := r.1) (t := r.2) (by rw [ht])
      exact liftQ_ok _ _ (sym_by_name_total _ hk.1 hk.2.1 _ _)
  | symByValue i v =>
    simp only [TQ.runQuery]
    cases ht : TQ.symTabFor o i with
    | none => exact ⟨_, rfl⟩
    | some r =>
      have hk := symTabFor_spec h hlen (o' := r.1) (t := r.2) (by rw [ht])
      exact liftQ_ok _ _ (sym_by_value_total _ hk.1 _ _ _)
  | arrGet w i k =>
    simp only [TQ.runQuery]
    cases hs : TQ.settle o i with
    | none => exact ⟨_, rfl⟩
    | some r => exact liftQ_ok _ _ (array_get_total _ _ _ (settle_sec h hlen hs).1 _)
  | versymGet i k =>
    simp only [TQ.runQuery]
    cases hs : TQ.settle o i with
    | none => exact ⟨_, rfl⟩
    | some r => exact liftQ_ok _ _ (versym_get_total _ (settle_sec h hlen hs).1 _)
  | needGet i num k =>
    simp only [TQ.runQuery]
    cases hs : TQ.settle o i with
    | none => exact ⟨_, rfl⟩
    | some r => exact liftQ_ok _ _ (verneed_get_total _ _ (settle_sec h hlen hs).1 _ _ _)
  | defGet i num k =>
    simp only [TQ.runQuery]
    cases hs : TQ.settle o i with
    | none => exact ⟨_, rfl⟩
    | some r => exact liftQ_ok _ _ (verdef_get_total _ _ (settle_sec h hlen hs).1 _ _ _)
  | arrange i =>
    simp only [TQ.runQuery]
    cases hs : TQ.settle o i with
    | none => exact ⟨_, rfl⟩
    | some r =>
      obtain ⟨o1, b⟩ := r
      dsimp only
      obtain ⟨i1, -, -, i4, i5, i6, -⟩ := settle_spec h hs
      have hsi : SettledAt o1 i := by
        intro b' hb'; rw [i5] at hb'; simp only [Option.some.injEq] at hb'; subst hb'; exact i4
      obtain ⟨a1, a2, a3, a4⟩ := settleAll_spec hlen (TQ.relsOf o1 i) o1 i1
      cases hg : (TQ.settleAll o1 (TQ.relsOf o1 i)).secs[i]? with
      | none => exact ⟨_, rfl⟩
      | some s =>
        dsimp only
        have hs' := sec_at a1 hlen (a3 i hsi) hg
        have hrels : ∀ r ∈ (TQ.relsOf o1 i).filterMap (fun j => (TQ.settleAll o1 (TQ.relsOf o1 i)).secs[j]?),
            Sec r ∧ Small r := by
          intro r hr
          obtain ⟨j, hj, hjr⟩ := List.mem_filterMap.mp hr
          have hjlt : j < o1.secs.length := by
            rcases Nat.lt_or_ge j o1.secs.length with h' | h'
            · exact h'
            · rw [List.getElem?_eq_none (by rw [a2]; exact h')] at hjr; cases hjr
          exact sec_at a1 hlen (a4 j hj hjlt) hjr
        obtain ⟨res, hres⟩ := arrange_total_any o.enc s hs'.1 hs'.2 _ hrels
        rw [hres]
        exact ⟨_, rfl⟩

  | swap i first second =>
    simp only [TQ.runQuery]
    cases hs : TQ.settle o i with
    | none => exact ⟨_, rfl⟩
    | some r =>
      obtain ⟨o1, b⟩ := r
      dsimp only
      have hb := settle_sec h hlen hs
      obtain ⟨b', hb', -⟩ := swap_symbols_total o.enc b hb.1 hb.2 first second
      rw [hb']
      exact ⟨_, rfl⟩

theorem liftQ_obj {α : Type} {o o' : Obj} {x : M α} {f : α → TQ.Out} {out : TQ.Out}
    (h : TQ.liftQ o x f = .ok (o', out)) : o' = o := by
  unfold TQ.liftQ at h
  cases x with
  | error e => cases h
  | ok a => simp only [pure, Except.pure, Except.ok.injEq, Prod.mk.injEq] at h; exact h.1.symm

/-- a read-only query leaves an object with the loader invariant (it only makes sections resident) -/
theorem runQuery_inv (o : Obj) (img : Bytes) (h : C01.ObjInv o img) (hlen : img.length < 4294967296)
    (q : TQ.Query) (hq : q.readOnly = true) {o' : Obj} {out : TQ.Out} (hr : TQ.runQuery o q = .ok (o', out)) :
    C01.ObjInv o' img := by
  have hsettle : ∀ {i : Nat} {o1 : Obj} {b : SecBuf}, TQ.settle o i = some (o1, b) → C01.ObjInv o1 img :=
    fun hs => (settle_spec h hs).1
  cases q with
  | arrange i => cases hq
  | swap i a b => cases hq
  | relGet i k =>
    simp only [TQ.runQuery] at hr
    cases hs : TQ.settle o i with
    | none => rw [hs] at hr; simp only [pure, Except.pure, Except.ok.injEq, Prod.mk.injEq] at hr; rw [← hr.1]; exact h
    | some r => rw [hs] at hr; rw [liftQ_obj hr]; exact hsettle hs
  | relGetResolved i k =>
    simp only [TQ.runQuery] at hr
    cases hs : TQ.settle o i with
    | none => rw [hs] at hr; simp only [pure, Except.pure, Except.ok.injEq, Prod.mk.injEq] at hr; rw [← hr.1]; exact h
    | some r =>
      obtain ⟨o1, b⟩ := r
      rw [hs] at hr
      dsimp only at hr
      cases ht : TQ.symTabFor o1 (TQ.relSymtabIndex b) with
      | none => rw [ht] at hr; rw [liftQ_obj hr]; exact hsettle hs
      | some r2 =>
        rw [ht] at hr; rw [liftQ_obj hr]
        exact (symTabFor_spec (hsettle hs) hlen (o' := r2.1) (t := r2.2) (by rw [ht])).2.2
  | symByName i name =>
    simp only [TQ.runQuery] at hr
    cases ht : TQ.symTabFor o i with
    | none => rw [ht] at hr; simp only [pure, Except.pure, Except.ok.injEq, Prod.mk.injEq] at hr; rw [← hr.1]; exact h
    | some r =>
      rw [ht] at hr; rw [liftQ_obj hr]
      exact (symTabFor_spec h hlen (o' := r.1) (t := r.2) (by rw [ht])).2.2
  | symByValue i v =>
    simp only [TQ.runQuery] at hr
    cases ht : TQ.symTabFor o i with
    | none => rw [ht] at hr; simp only [pure, Except.pure, Except.ok.injEq, Prod.mk.injEq] at hr; rw [← hr.1]; exact h
    | some r =>
      rw [ht] at hr; rw [liftQ_obj hr]
      exact (symTabFor_spec h hlen (o' := r.1) (t := r.2) (by rw [ht])).2.2
  | arrGet w i k =>
    simp only [TQ.runQuery] at hr
    cases hs : TQ.settle o i with
    | none => rw [hs] at hr; simp only [pure, Except.pure, Except.ok.injEq, Prod.mk.injEq] at hr; rw [← hr.1]; exact h
    | some r => rw [hs] at hr; rw [liftQ_obj hr]; exact hsettle hs
  | versymGet i k =>
    simp only [TQ.runQuery] at hr
    cases hs : TQ.settle o i with
    | none => rw [hs] at hr; simp only [pure, Except.pure, Except.ok.injEq, Prod.mk.injEq] at hr; rw [← hr.1]; exact h
    | some r => rw [hs] at hr; rw [liftQ_obj hr]; exact hsettle hs
  | needGet i num k =>
    simp only [TQ.runQuery] at hr
    cases hs : TQ.settle o i with
    | none => rw [hs] at hr; simp only [pure, Except.pure, Except.ok.injEq, Prod.mk.injEq] at hr; rw [← hr.1]; exact h
    | some r => rw [hs] at hr; rw [liftQ_obj hr]; exact (settleOpt_spec (hsettle hs) hlen _).1
  | defGet i num k =>
    simp only [TQ.runQuery] at hr
    cases hs : TQ.settle o i with
    | none => rw [hs] at hr; simp only [pure, Except.pure, Except.ok.injEq, Prod.mk.injEq] at hr; rw [← hr.1]; exact h
    | some r => rw [hs] at hr; rw [liftQ_obj hr]; exact (settleOpt_spec (hsettle hs) hlen _).1

/-- ANY sequence of read-only queries returns and keeps the loader invariant … -/
theorem runQueries_inv (img : Bytes) (hlen : img.length < 4294967296) :
    ∀ (qs : List TQ.Query) (o : Obj), C01.ObjInv o img → (∀ q ∈ qs, q.readOnly = true) →
      ∃ o' outs, TQ.runQueries o qs = .ok (o', outs) ∧ C01.ObjInv o' img := by
  intro qs
  induction qs with
  | nil => intro o h _; exact ⟨o, [], rfl, h⟩
  | cons q qs ih =>
    intro o h hro
    unfold TQ.runQueries
    obtain ⟨r, hr⟩ := runQuery_total o img h hlen q
    obtain ⟨o1, out⟩ := r
    rw [hr]
    dsimp only
    have h1 := runQuery_inv o img h hlen q (hro q (List.mem_cons_self ..)) hr
    obtain ⟨o2, outs, h2, h3⟩ := ih o1 h1 (fun q' hq' => hro q' (List.mem_cons_of_mem _ hq'))
    rw [h2]
    exact ⟨_, _, rfl, h3⟩

/-- **queries_seq_total**: … so after any sequence of read-only queries on a loaded object, with any
    arguments (lazy loads mutate the object in between), EVERY further query — including
    `arrange_local_symbols` and `swap_symbols` — returns. -/
theorem queries_seq_total (o : Obj) (img : Bytes) (kind : StreamKind) (isLazy : Bool) (r : LoadRes)
    (hl : load o { data := img, kind := kind } isLazy = .ok r) (hlen : img.length < 4294967296)
    (qs : List TQ.Query) (hro : ∀ q ∈ qs, q.readOnly = true) (q : TQ.Query) :
    ∃ o' outs res, TQ.runQueries r.obj qs = .ok (o', outs) ∧ TQ.runQuery o' q = .ok res := by
  obtain ⟨o', outs, h1, h2⟩ := runQueries_inv img hlen qs r.obj (C01.load_objInv o img kind isLazy r hl) hro
  obtain ⟨res, h3⟩ := runQuery_total o' img h2 hlen q
  exact ⟨o', outs, res, h1, h3⟩

/-- **queries_total**: load ANY byte string (shorter than 4 GiB), eagerly or lazily, from a string or
    file stream, with any address translation table, into any previous object: every table query on the
    resulting object returns — no read or write outside a buffer, no null dereference, no division by
    zero, no endless loop. -/
theorem queries_total (o : Obj) (img : Bytes) (kind : StreamKind) (isLazy : Bool) (r : LoadRes)
    (hl : load o { data := img, kind := kind } isLazy = .ok r) (hlen : img.length < 4294967296) (q : TQ.Query) :
    ∃ res, TQ.runQuery r.obj q = .ok res :=
  runQuery_total r.obj img (C01.load_objInv o img kind isLazy r hl) hlen q

/-! ### the findings, machine-checked on the models of the unfixed functions -/

/-- 0 = no fault; otherwise the kind of fault -/
def faultKind {α : Type} : M α → Nat
  | .ok _ => 0
  | .error (.nullDeref _) => 1
  | .error (.oobRead _) => 2
  | .error (.oobWrite _) => 3
  | .error (.vecOob _) => 4
  | .error (.divZero _) => 5
  | .error (.useAfterFree _) => 6
  | .error (.fuel _) => 7

/-- a loaded (resident, settled) section with the given header fields -/
def wsec (cls : Cls) (ty : Nat) (d : Bytes) (entSize : Nat) : SecBuf :=
  { SecBuf.loadedEager cls (BitVec.ofNat 32 ty) d 1000#64 with entSize := BitVec.ofNat 64 entSize }

/-- a section whose data failed to load: `size` bytes announced, `get_data()` is null -/
def wnodata (cls : Cls) (ty : Nat) (size entSize : Nat) : SecBuf :=
  { cls, stype := BitVec.ofNat 32 ty, size := BitVec.ofNat 64 size, data := none, dataSize := 0, streamSize := 1000#64,
    isLoaded := false, canLoad := false, entSize := BitVec.ofNat 64 entSize }

/-- the two-symbol ELF32/LSB table of Props/C09.lean ("", "b") with a hash section attached -/
def wtab (hashTy : Nat) (hash : Bytes) : SymTab :=
  { C09.loadedTab ⟨.c32, .lsb⟩ false C09.exSym C09.exStr 1000#64 with hash := some (wsec .c32 hashTy hash 4) }

/-- F7(a): ELF32 REL section, one entry, `sh_link` out of range: without the null test of fixes/10 the
    symbol accessor's constructor dereferences the null section -/
theorem reloc_null_symtab_witness :
    faultKind (TQ.relGetResolvedWith (fun _ => false) .lsb (wsec .c32 SHT_REL [0,0,0,0, 1,1,0,0] 8) none 0) = 1 ∧
    faultKind (TQ.relGetResolved .lsb (wsec .c32 SHT_REL [0,0,0,0, 1,1,0,0] 8) none 0) = 0 := by
  constructor <;> decide

/-- F7(b): SysV hash section with `nbucket = 0`: the unfixed walk divides by zero; the fixed one returns -/
theorem sysv_nbucket_zero_witness :
    faultKind ((wtab SHT_HASH [0,0,0,0, 1,0,0,0, 0,0,0,0]).hashLookup (wsec .c32 SHT_HASH [0,0,0,0, 1,0,0,0, 0,0,0,0] 4) [0x62] {}) = 5 ∧
    faultKind (TQ.hashLookup (wtab SHT_HASH [0,0,0,0, 1,0,0,0, 0,0,0,0]) (wsec .c32 SHT_HASH [0,0,0,0, 1,0,0,0, 0,0,0,0] 4) [0x62] {}) = 0 := by
  constructor <;> decide

/-- the hash section `nbucket = 1, nchain = 2, bucket[0] = 1, chain = [0, 1]` : symbol 1 chains to itself -/
def wcycle : Bytes := [1,0,0,0, 2,0,0,0, 1,0,0,0, 0,0,0,0, 1,0,0,0]

/-- F7(c): a chain cycle: the unfixed walk for a name that is not in the table never leaves the loop (the
    model's fuel `nchain + 1` proves the cycle); the fixed walk stops after `nchain` steps -/
theorem sysv_cycle_witness :
    faultKind ((wtab SHT_HASH wcycle).hashLookup (wsec .c32 SHT_HASH wcycle 4) [0x7a] {}) = 7 ∧
    faultKind (TQ.hashLookup (wtab SHT_HASH wcycle) (wsec .c32 SHT_HASH wcycle 4) [0x7a] {}) = 0 := by
  constructor <;> decide

/-- F7(d): GNU hash header with `bloom_size = 0` -/
theorem gnu_bloom_zero_witness :
    faultKind ((wtab SHT_GNU_HASH [1,0,0,0, 1,0,0,0, 0,0,0,0, 0,0,0,0]).gnuLookup
      (wsec .c32 SHT_GNU_HASH [1,0,0,0, 1,0,0,0, 0,0,0,0, 0,0,0,0] 0) [0x62] {}) = 5 ∧
    faultKind (TQ.gnuLookup (wtab SHT_GNU_HASH [1,0,0,0, 1,0,0,0, 0,0,0,0, 0,0,0,0])
      (wsec .c32 SHT_GNU_HASH [1,0,0,0, 1,0,0,0, 0,0,0,0, 0,0,0,0] 0) [0x62] {}) = 0 := by
  constructor <;> decide

/-- `nbuckets = 0`, one bloom word with every bit set -/
def wgnu0 : Bytes := [0,0,0,0, 1,0,0,0, 1,0,0,0, 0,0,0,0, 255,255,255,255]

/-- F7(d): GNU hash header with `nbuckets = 0` behind a bloom filter that lets the name pass -/
theorem gnu_nbuckets_zero_witness :
    faultKind ((wtab SHT_GNU_HASH wgnu0).gnuLookup (wsec .c32 SHT_GNU_HASH wgnu0 0) [0x62] {}) = 5 ∧
    faultKind (TQ.gnuLookup (wtab SHT_GNU_HASH wgnu0) (wsec .c32 SHT_GNU_HASH wgnu0 0) [0x62] {}) = 0 := by
  constructor <;> decide

/-- one bucket pointing at symbol 1, one chain word without the end mark -/
def wgnuRun : Bytes := [1,0,0,0, 1,0,0,0, 1,0,0,0, 0,0,0,0, 255,255,255,255, 1,0,0,0, 2,0,0,0]

/-- F7(d): a GNU chain without end mark: the unfixed walk reads chain words behind the section -/
theorem gnu_walk_oob_witness :
    faultKind ((wtab SHT_GNU_HASH wgnuRun).gnuLookup (wsec .c32 SHT_GNU_HASH wgnuRun 0) [0x62] {}) = 2 ∧
    faultKind (TQ.gnuLookup (wtab SHT_GNU_HASH wgnuRun) (wsec .c32 SHT_GNU_HASH wgnuRun 0) [0x62] {}) = 0 := by
  constructor <;> decide

/-- F7(e): `arrange_local_symbols` on a symbol section (two entries announced) without data -/
theorem arrange_null_data_witness :
    faultKind (Arrange.arrange Arrange.noCallback (wnodata .c32 SHT_SYMTAB 32 16) ()) = 1 ∧
    faultKind (TQ.arrange Arrange.noCallback (wnodata .c32 SHT_SYMTAB 32 16) ()) = 0 := by
  constructor <;> decide

/-- F7(e): array `get_entry(0)` on a section without data -/
theorem array_null_data_witness :
    faultKind (Arr.getEntry .w4 .lsb (wnodata .c64 SHT_INIT_ARRAY 8 8) 0) = 1 ∧
    faultKind (TQ.arrGet .w4 .lsb (wnodata .c64 SHT_INIT_ARRAY 8 8) 0) = 0 := by
  constructor <;> decide

/-- F7(e): versym `get_entry(0)` on a section without data -/
theorem versym_null_data_witness :
    faultKind (Versym.getEntry (wnodata .c64 SHT_GNU_versym 4 2) (Versym.mk (wnodata .c64 SHT_GNU_versym 4 2)) 0) = 1 ∧
    faultKind (TQ.versymGet (wnodata .c64 SHT_GNU_versym 4 2) (Versym.mk (wnodata .c64 SHT_GNU_versym 4 2)) 0) = 0 := by
  constructor <;> decide

/-- F7(e): relocation `get_entry(0)` on a section without data: the getter behind its entry-size guard
    (C11's `getGeneric`) reads through the null pointer; `get_entry` after fixes/15 returns false -/
theorem reloc_null_data_witness :
    faultKind (Reloc.getEntry .lsb (wnodata .c32 SHT_REL 8 8) 0) = 1 ∧
    faultKind (TQ.relGet .lsb (wnodata .c32 SHT_REL 8 8) 0) = 0 := by
  constructor <;> decide

/-- one `Elfxx_Verneed` (vn_aux = 16, vn_next = 0x1000) and its `Elfxx_Vernaux` -/
def wneed : Bytes := [1,0, 1,0, 1,0,0,0, 16,0,0,0, 0,16,0,0,   0,0,0,0, 0,0, 2,0, 1,0,0,0, 0,0,0,0]

/-- F7(f): `DT_VERNEEDNUM = 2` but `vn_next` of the first record points 4 KiB behind the section -/
theorem verneed_oob_witness :
    faultKind (Verneed.getEntry .lsb (wsec .c64 SHT_GNU_verneed wneed 0) (some (wsec .c64 SHT_STRTAB [0, 0x61, 0] 0)) 2 1) = 2 ∧
    faultKind (TQ.needGet .lsb (wsec .c64 SHT_GNU_verneed wneed 0) (some (wsec .c64 SHT_STRTAB [0, 0x61, 0] 0)) 2 1) = 0 := by
  constructor <;> decide

/-- F7(f): the file-name offset of the record is outside the string table: `std::string = nullptr` -/
theorem verneed_null_string_witness :
    faultKind (Verneed.getEntry .lsb (wsec .c64 SHT_GNU_verneed wneed 0) (some (wsec .c64 SHT_STRTAB [0] 0)) 2 0) = 1 ∧
    faultKind (TQ.needGet .lsb (wsec .c64 SHT_GNU_verneed wneed 0) (some (wsec .c64 SHT_STRTAB [0] 0)) 2 0) = 0 := by
  constructor <;> decide

/-- one `Elfxx_Verdef` whose `vd_aux` points behind the section -/
def wdef : Bytes := [1,0, 1,0, 1,0, 1,0, 0,0,0,0, 0,16,0,0, 0,0,0,0,   1,0,0,0, 0,0,0,0]

/-- F7(f): version definition with `vd_aux` outside the section -/
theorem verdef_oob_witness :
    faultKind (Verdef.getEntry .lsb (wsec .c64 SHT_GNU_verdef wdef 0) (some (wsec .c64 SHT_STRTAB [0, 0x61, 0] 0)) 1 0) = 2 ∧
    faultKind (TQ.defGet .lsb (wsec .c64 SHT_GNU_verdef wdef 0) (some (wsec .c64 SHT_STRTAB [0, 0x61, 0] 0)) 1 0) = 0 := by
  constructor <;> decide

/-! ### non-vacuity: concrete states meet the hypotheses -/

example : Sec (wsec .c32 SHT_HASH wcycle 4) := ⟨by decide, fun d hd => by cases hd; decide⟩
example : Sec (wnodata .c32 SHT_SYMTAB 32 16) := ⟨by decide, fun d hd => by cases hd⟩
example : Small (wsec .c32 SHT_HASH wcycle 4) := fun d hd => by cases hd; decide
example : TabOk (wtab SHT_HASH wcycle) :=
  ⟨⟨by decide, fun d hd => by cases hd; decide⟩, fun b hb => by cases hb; exact ⟨by decide, fun d hd => by cases hd; decide⟩,
   fun b hb => by cases hb; exact ⟨by decide, fun d hd => by cases hd; decide⟩⟩

/- the loaded object of C01's 208-byte example image meets the hypotheses of `queries_total`, and
   queries on its string table section (as a relocation / symbol table, any index) return -/
set_option maxRecDepth 1000000 in
example :
    (load {} { data := C01.img208 } true).toOption.map (fun r =>
      faultKind (TQ.runQuery r.obj (.relGetResolved 1 0))) = some 0 := by decide
set_option maxRecDepth 1000000 in
example :
    (load {} { data := C01.img208 } true).toOption.map (fun r =>
      faultKind (TQ.runQuery r.obj (.symByName 1 [0x61]))) = some 0 := by decide
set_option maxRecDepth 100000 in
example : C01.img208.length < 4294967296 := by decide

end C18
end ElfioVerif
