/-
C18 — every table query on any loaded file is memory-safe.

The statements are about Model/TableQuery.lean: the query interfaces as they are after
fixes/10 … 15, 17 … 21, built from the accessor families' models (Model/Symbols, Reloc, Arrange, Array,
Versym) and the generated guards of Gen/SitesC18.lean, every raw access a checked read/write.

Domain: sections in the state the loader leaves them in, `Sec b`:
  * `get_data()` has been called (a further call changes nothing), and
  * `data = none`, or `data = some d` with `size < d.length` (room for `size` bytes + the terminator),
with ANY header field values and ANY contents; ARBITRARY indices / names / values / entry counts.
`Small b` (a resident section is shorter than 4 GiB) is required where a 32-bit counter of the code
could otherwise wrap (GNU chain index, `swap_symbols`, `arrange_local_symbols`).  `load_inv` (C01)
establishes both for every section of a loaded object (`sec_of_loaded`, `small_of_loaded`).

* `reloc_get_total`, `reloc_get_resolved_total`, `sym_by_name_total` (with `sysv_walk_total`,
  `gnu_walk_total` on ARBITRARY hash section contents), `sym_by_value_total`, `array_get_total`,
  `versym_get_total`, `verneed_get_total`, `verdef_get_total`, `swap_symbols_total`, `arrange_total_any`:
  each query returns `.ok _` — no fault, no fuel exhaustion (= always returns).
* `queries_total`: composition with the loader: on the object a load of ANY byte string (shorter than
  4 GiB) yields, every query of the interface (`TQ.runQuery`: sections looked up by ARBITRARY index and
  made resident against the real stream) returns.
* `swap_preserves_sec`, `arrange_preserves_sec`: the two MUTATING queries keep the domain: they return, the
  sections they wrote to are again `Sec` and `Small`, nothing but buffer contents (and `sh_info`) changed, buffers
  keep their length, no section becomes resident or non-resident.
* `QInv o` (stream shorter than 4 GiB; every section has `size < d.length` and `size < 2^32` when resident — NO
  file-bytes clause), `load_qinv` (`load` establishes it), `runQuery_qinv` (EVERY query, `arrange` and `swap`
  included, returns and preserves it), `runQueries_qinv`, **`queries_any_seq_total`**: after a load of ANY byte
  string shorter than 4 GiB, ANY finite sequence of queries — mutating and read-only ones freely interleaved,
  arbitrary arguments — returns without fault.  `runQuery_hdr` / `queries_any_seq_hdr`: no query changes a header
  field (other than `sh_info`) of any section or the number of sections.
* `dynNum_qinv`, `steps_any_seq_total`: the same for everything an op line of the protocol does with the object
  (`Step`: a query, a bare `get_data()`, a version accessor construction reading its count from `.dynamic`).
* `…_witness`: the faults of the unfixed functions, machine-checked on the models of the unfixed code
  (the accessor families' definitions, which stay the models of the function bodies behind the new
  guards) — one per repaired finding (F7 a–f).
-/
import ElfioVerif.Lemmas.TableSafetyMut
import ElfioVerif.Props.C01
import ElfioVerif.Props.C09
namespace ElfioVerif
open Gen

namespace C18

/-! ### the accessor-level theorems -/

/-- relocation `get_entry(index, offset, symbol, type, addend)` -/
theorem reloc_get_total (enc : Enc) (b : SecBuf) (hb : Sec b) (index : BitVec 64) :
    ∃ r, TQ.relGet enc b index = .ok r := relGet_total enc b hb index

/-- relocation `get_entry` with symbol resolution: any symbol table accessor on `Sec` sections, or none
    (`sh_link` names no section) -/
theorem reloc_get_resolved_total (enc : Enc) (b : SecBuf) (hb : Sec b) (symtab : Option SymTab)
    (ht : ∀ t, symtab = some t → TabOk t) (index : BitVec 64) :
    ∃ r, TQ.relGetResolved enc b symtab index = .ok r := relGetResolved_total enc b hb symtab ht index

/-- the SysV hash walk on ARBITRARY hash section contents -/
theorem sysv_walk_total (t : SymTab) (ht : TabOk t) (h : SecBuf) (hh : Sec h) (name : Bytes) (a : Attrs) :
    ∃ r, TQ.hashLookup t h name a = .ok r := hashLookup_total t ht h hh name a

/-- the GNU hash walk on ARBITRARY hash section contents -/
theorem gnu_walk_total (t : SymTab) (ht : TabOk t) (h : SecBuf) (hh : Sec h) (hs : Small h) (name : Bytes)
    (a : Attrs) : ∃ r, TQ.gnuLookup t h name a = .ok r := gnuLookup_total t ht h hh hs name a

/-- `get_symbol(name, …)` : hash walks + linear fallback, any name -/
theorem sym_by_name_total (t : SymTab) (ht : TabOk t) (hs : ∀ h, t.hash = some h → Small h) (name : Bytes)
    (a : Attrs) : ∃ r, TQ.getByName t name a = .ok r := getByName_total t ht hs name a

/-- `get_symbol(value, …)` -/
theorem sym_by_value_total (t : SymTab) (ht : TabOk t) (value : BitVec 64) (str : Bytes) (a : Attrs) :
    ∃ r, TQ.getByValue t value str a = .ok r := getByValue_total t ht value str a

/-- array `get_entry`, entry widths 4 and 8 -/
theorem array_get_total (w : Arr.W) (e : Enc) (b : SecBuf) (hb : Sec b) (index : BitVec 64) :
    ∃ r, TQ.arrGet w e b index = .ok r := arrGet_total w e b hb index

/-- versym `get_entry` on a (new) accessor: the cached count is the constructor's -/
theorem versym_get_total (b : SecBuf) (hb : Sec b) (no : BitVec 32) :
    ∃ r, TQ.versymGet b (Versym.mk b) no = .ok r := versymGet_total b hb _ no (versym_mk_le b)

/-- version requirement `get_entry` for ANY `DT_VERNEEDNUM` value, any linked section (or none) -/
theorem verneed_get_total (e : Enc) (b : SecBuf) (hb : Sec b) (str : Option SecBuf) (num no : BitVec 32) :
    ∃ r, TQ.needGet e b str num no = .ok r := needGet_total e b hb str num no

/-- version definition `get_entry` for ANY `DT_VERDEFNUM` value -/
theorem verdef_get_total (e : Enc) (b : SecBuf) (hb : Sec b) (str : Option SecBuf) (num no : BitVec 32) :
    ∃ r, TQ.defGet e b str num no = .ok r := defGet_total e b hb str num no

/-- `swap_symbols(first, second)` : total, and the section stays in the domain -/
theorem swap_symbols_total (enc : Enc) (b : SecBuf) (hb : Sec b) (hs : Small b) (first second : BitVec 64) :
    ∃ b', TQ.swapSymbols enc b first second = .ok b' ∧ Sec b' ∧ Small b' := by
  obtain ⟨b', h, k⟩ := swapSymbols_keep enc b hb hs first second
  exact ⟨b', h, k.sec, k.small hs⟩

/-- `arrange_local_symbols` with the callback that forwards to `swap_symbols` of any list of
    relocation sections: any entry size, `sh_info`, contents; with or without data -/
theorem arrange_total_any (enc : Enc) (s : SecBuf) (hs : Sec s) (hsm : Small s) (rels : List SecBuf)
    (hr : ∀ r ∈ rels, Sec r ∧ Small r) : ∃ r, TQ.arrange (TQ.swapAll enc) s rels = .ok r :=
  arrange_total enc s hs hsm rels hr

/-! ### from the loader invariant to the domain -/

theorem secLoadData_ok_isLoaded (c : Cls) (tr : List Trans) (ls : LoadSt) (b : SecBuf)
    (h : (secLoadData c tr ls b).2.2 = true) : (secLoadData c tr ls b).2.1.isLoaded = true := by
  rw [secLoadData_eq] at h ⊢
  (repeat' split) <;> simp_all

/-- `get_data()` leaves a section settled -/
theorem secGetData_settled (c : Cls) (tr : List Trans) (ls : LoadSt) (b : SecBuf) :
    (!(secGetData c tr ls b).2.isLoaded && (secGetData c tr ls b).2.canLoad) = false := by
  rw [secGetData_eq]
  split
  · split
    · rename_i h; simp [secLoadData_ok_isLoaded c tr ls b h]
    · simp
  · rename_i h; simpa using h

/-- a settled section with the loader invariant is in the domain -/
theorem sec_of_loaded {tr : List Trans} {img : Bytes} {b : SecBuf} (h : LoadedSec tr b img)
    (hs : (!b.isLoaded && b.canLoad) = false) : Sec b := ⟨hs, h.bufOk⟩

/-- a resident loaded section is not longer than the input -/
theorem small_of_loaded {tr : List Trans} {img : Bytes} {b : SecBuf} (h : LoadedSec tr b img)
    (hlen : img.length < 4294967296) : Small b := by
  intro d hd
  have := (h.exact d hd).2
  rw [slice_length] at this
  omega

/-! ### queries on a loaded object -/

/-- section `j` of the object (if there is one) is settled -/
def SettledAt (o : Obj) (j : Nat) : Prop := ∀ b, o.secs[j]? = some b → (!b.isLoaded && b.canLoad) = false

theorem settle_spec {o : Obj} {img : Bytes} (h : C01.ObjInv o img) {i : Nat} {o1 : Obj} {b : SecBuf}
    (hs : TQ.settle o i = some (o1, b)) :
    C01.ObjInv o1 img ∧ o1.trans = o.trans ∧ LoadedSec o.trans b img ∧ (!b.isLoaded && b.canLoad) = false ∧
    o1.secs[i]? = some b ∧ o1.secs.length = o.secs.length ∧ (∀ j, SettledAt o j → SettledAt o1 j) := by
  unfold TQ.settle at hs
  cases hget : o.secs[i]? with
  | none => rw [hget] at hs; cases hs
  | some b0 =>
    rw [hget] at hs
    simp only [Option.some.injEq, Prod.mk.injEq] at hs
    obtain ⟨rfl, rfl⟩ := hs
    have hreq := C01.request_inv o img (.secData i) h
    simp only [C01.request, hget] at hreq
    have hs0 : StOk o.trans img o.stream.kind { st := o.stream } := ⟨h.sdata, rfl, fun a ha => by cases ha⟩
    obtain ⟨-, h2, -⟩ := secGetData_spec o.cls o.trans _ b0 img _ hs0 (h.secs b0 (List.mem_of_getElem? hget))
    have hi : i < o.secs.length := by
      rcases Nat.lt_or_ge i o.secs.length with h' | h'
      · exact h'
      · rw [List.getElem?_eq_none h'] at hget; cases hget
    refine ⟨hreq.1, rfl, h2, secGetData_settled _ _ _ _, ?_, ?_, ?_⟩
    · simp [List.getElem?_set, hi]
    · simp
    · intro j hj b hb
      by_cases hij : i = j
      · subst hij
        simp only [List.getElem?_set, hi, if_true] at hb
        simp only [Option.some.injEq] at hb
        subst hb; exact secGetData_settled _ _ _ _
      · simp only [List.getElem?_set, hij, if_false] at hb
        exact hj b hb

theorem sec_at {o : Obj} {img : Bytes} (h : C01.ObjInv o img) (hlen : img.length < 4294967296) {j : Nat}
    (hj : SettledAt o j) {b : SecBuf} (hb : o.secs[j]? = some b) : Sec b ∧ Small b :=
  have hl := h.secs b (List.mem_of_getElem? hb)
  ⟨sec_of_loaded hl (hj b hb), small_of_loaded hl hlen⟩

theorem settle_sec {o : Obj} {img : Bytes} (h : C01.ObjInv o img) (hlen : img.length < 4294967296) {i : Nat}
    {o1 : Obj} {b : SecBuf} (hs : TQ.settle o i = some (o1, b)) : Sec b ∧ Small b := by
  obtain ⟨-, -, h3, h4, -⟩ := settle_spec h hs
  exact ⟨sec_of_loaded h3 h4, small_of_loaded h3 hlen⟩

theorem settleOpt_spec {o : Obj} {img : Bytes} (h : C01.ObjInv o img) (hlen : img.length < 4294967296) (i : Nat) :
    C01.ObjInv (TQ.settleOpt o i).1 img ∧ (∀ b, (TQ.settleOpt o i).2 = some b → Sec b ∧ Small b) ∧
    (TQ.settleOpt o i).1.secs.length = o.secs.length ∧
    (∀ j, SettledAt o j → SettledAt (TQ.settleOpt o i).1 j) ∧
    (i < o.secs.length → SettledAt (TQ.settleOpt o i).1 i) := by
  unfold TQ.settleOpt
  cases hs : TQ.settle o i with
  | none =>
    dsimp only
    refine ⟨h, (fun b hb => by cases hb), rfl, fun j hj => hj, ?_⟩
    intro hi
    unfold TQ.settle at hs
    rw [List.getElem?_eq_getElem hi] at hs
    cases hs
  | some r =>
    obtain ⟨o1, b⟩ := r
    dsimp only
    obtain ⟨h1, -, -, h4, h5, h6, h7⟩ := settle_spec h hs
    refine ⟨h1, ?_, h6, h7, ?_⟩
    · intro b' hb'
      simp only [Option.some.injEq] at hb'
      subst hb'
      exact settle_sec h hlen hs
    · intro _ b' hb'
      rw [h5] at hb'
      simp only [Option.some.injEq] at hb'
      subst hb'; exact h4

theorem settleAll_spec {img : Bytes} (hlen : img.length < 4294967296) :
    ∀ (js : List Nat) (o : Obj), C01.ObjInv o img →
      C01.ObjInv (TQ.settleAll o js) img ∧ (TQ.settleAll o js).secs.length = o.secs.length ∧
      (∀ j, SettledAt o j → SettledAt (TQ.settleAll o js) j) ∧
      (∀ j ∈ js, j < o.secs.length → SettledAt (TQ.settleAll o js) j) := by
  intro js
  induction js with
  | nil => intro o h; exact ⟨h, rfl, fun j hj => hj, fun j hj => by cases hj⟩
  | cons j js ih =>
    intro o h
    unfold TQ.settleAll
    obtain ⟨h1, -, h3, h4, h5⟩ := settleOpt_spec h hlen j
    obtain ⟨i1, i2, i3, i4⟩ := ih _ h1
    refine ⟨i1, i2.trans h3, fun k hk => i3 k (h4 k hk), ?_⟩
    intro k hk hlt
    rcases List.mem_cons.mp hk with rfl | hk
    · exact i3 _ (h5 hlt)
    · exact i4 k hk (by rw [h3]; exact hlt)

theorem symTabFor_spec {o : Obj} {img : Bytes} (h : C01.ObjInv o img) (hlen : img.length < 4294967296) {i : Nat}
    {o' : Obj} {t : SymTab} (hs : TQ.symTabFor o i = some (o', t)) :
    TabOk t ∧ (∀ hh, t.hash = some hh → Small hh) ∧ C01.ObjInv o' img := by
  unfold TQ.symTabFor at hs
  cases h1 : TQ.settle o i with
  | none => rw [h1] at hs; cases hs
  | some r =>
    obtain ⟨o1, b⟩ := r
    rw [h1] at hs
    simp only [Option.some.injEq, Prod.mk.injEq] at hs
    obtain ⟨rfl, rfl⟩ := hs
    obtain ⟨i1, -⟩ := settle_spec h h1
    have hb := settle_sec h hlen h1
    obtain ⟨j1, j2, -⟩ := settleOpt_spec i1 hlen (tq_sym_strtab_index b.link).toNat
    refine ⟨⟨hb.1, fun s hs => (j2 s hs).1, ?_⟩, ?_, ?_⟩
    · intro s hs
      dsimp only at hs
      split at hs
      · exact ((settleOpt_spec j1 hlen _).2.1 s hs).1
      · cases hs
    · intro s hs
      dsimp only at hs
      split at hs
      · exact ((settleOpt_spec j1 hlen _).2.1 s hs).2
      · cases hs
    · split
      · exact (settleOpt_spec j1 hlen _).1
      · exact j1

theorem liftQ_ok {α : Type} (o : Obj) {x : M α} (f : α → TQ.Out) (h : ∃ a, x = .ok a) :
    ∃ r, TQ.liftQ o x f = .ok r := by
  obtain ⟨a, rfl⟩ := h
  exact ⟨_, rfl⟩

/-- **queries_total** (object level): on an object with the loader invariant (`C01.ObjInv`: what
    `load_inv` establishes and data requests preserve) whose input is shorter than 4 GiB, EVERY query of
    the table interfaces — any section indices, entry indices, names, values, entry counts — returns. -/
theorem runQuery_total (o : Obj) (img : Bytes) (h : C01.ObjInv o img) (hlen : img.length < 4294967296)
    (q : TQ.Query) : ∃ r, TQ.runQuery o q = .ok r := by
  cases q with
  | relGet i k =>
    simp only [TQ.runQuery]
    cases hs : TQ.settle o i with
    | none => exact ⟨_, rfl⟩
    | some r => exact liftQ_ok _ _ (reloc_get_total _ _ (settle_sec h hlen hs).1 _)
  | relGetResolved i k =>
    simp only [TQ.runQuery]
    cases hs : TQ.settle o i with
    | none => exact ⟨_, rfl⟩
    | some r =>
      obtain ⟨o1, b⟩ := r
      dsimp only
      obtain ⟨i1, -⟩ := settle_spec h hs
      cases ht : TQ.symTabFor o1 (TQ.relSymtabIndex b) with
      | none =>
        exact liftQ_ok _ _ (reloc_get_resolved_total _ _ (settle_sec h hlen hs).1 none (fun t ht => by cases ht) _)
      | some r2 =>
        exact liftQ_ok _ _ (reloc_get_resolved_total _ _ (settle_sec h hlen hs).1 (some r2.2)
          (fun t ht' => by
            simp only [Option.some.injEq] at ht'; subst ht'
            exact (symTabFor_spec i1 hlen (o' := r2.1) (by rw [ht])).1) _)
  | symByName i name =>
    simp only [TQ.runQuery]
    cases ht : TQ.symTabFor o i with
    | none => exact ⟨_, rfl⟩
    | some r =>
      have hk := symTabFor_spec h hlen (o' := r.1) (t := r.2) (by rw [ht])
      exact liftQ_ok _ _ (sym_by_name_total _ hk.1 hk.2.1 _ _)
  | symByValue i v =>
    simp only [TQ.runQuery]
    cases ht : TQ.symTabFor o i with
    | none => exact ⟨_, rfl⟩
    | some r =>
      have hk := symTabFor_spec h hlen (o' := r.1) (t := r.2) (by rw [ht])
      exact liftQ_ok _ _ (sym_by_value_total _ hk.1 _ _ _)
  | arrGet w i k =>
    simp only [TQ.runQuery]
    cases hs : TQ.settle o i with
    | none => exact ⟨_, rfl⟩
    | some r => exact liftQ_ok _ _ (array_get_total _ _ _ (settle_sec h hlen hs).1 _)
  | versymGet i k =>
    simp only [TQ.runQuery]
    cases hs : TQ.settle o i with
    | none => exact ⟨_, rfl⟩
    | some r => exact liftQ_ok _ _ (versym_get_total _ (settle_sec h hlen hs).1 _)
  | needGet i num k =>
    simp only [TQ.runQuery]
    cases hs : TQ.settle o i with
    | none => exact ⟨_, rfl⟩
    | some r => exact liftQ_ok _ _ (verneed_get_total _ _ (settle_sec h hlen hs).1 _ _ _)
  | defGet i num k =>
    simp only [TQ.runQuery]
    cases hs : TQ.settle o i with
    | none => exact ⟨_, rfl⟩
    | some r => exact liftQ_ok _ _ (verdef_get_total _ _ (settle_sec h hlen hs).1 _ _ _)
  | arrange i =>
    simp only [TQ.runQuery]
    cases hs : TQ.settle o i with
    | none => exact ⟨_, rfl⟩
    | some r =>
      obtain ⟨o1, b⟩ := r
      dsimp only
      obtain ⟨i1, -, -, i4, i5, i6, -⟩ := settle_spec h hs
      have hsi : SettledAt o1 i := by
        intro b' hb'; rw [i5] at hb'; simp only [Option.some.injEq] at hb'; subst hb'; exact i4
      obtain ⟨a1, a2, a3, a4⟩ := settleAll_spec hlen (TQ.relsOf o1 i) o1 i1
      cases hg : (TQ.settleAll o1 (TQ.relsOf o1 i)).secs[i]? with
      | none => exact ⟨_, rfl⟩
      | some s =>
        dsimp only
        have hs' := sec_at a1 hlen (a3 i hsi) hg
        have hrels : ∀ r ∈ (TQ.relsOf o1 i).filterMap (fun j => (TQ.settleAll o1 (TQ.relsOf o1 i)).secs[j]?),
            Sec r ∧ Small r := by
          intro r hr
          obtain ⟨j, hj, hjr⟩ := List.mem_filterMap.mp hr
          have hjlt : j < o1.secs.length := by
            rcases Nat.lt_or_ge j o1.secs.length with h' | h'
            · exact h'
            · rw [List.getElem?_eq_none (by rw [a2]; exact h')] at hjr; cases hjr
          exact sec_at a1 hlen (a4 j hj hjlt) hjr
        obtain ⟨res, hres⟩ := arrange_total_any o.enc s hs'.1 hs'.2 _ hrels
        rw [hres]
        exact ⟨_, rfl⟩

  | swap i first second =>
    simp only [TQ.runQuery]
    cases hs : TQ.settle o i with
    | none => exact ⟨_, rfl⟩
    | some r =>
      obtain ⟨o1, b⟩ := r
      dsimp only
      have hb := settle_sec h hlen hs
      obtain ⟨b', hb', -⟩ := swap_symbols_total o.enc b hb.1 hb.2 first second
      rw [hb']
      exact ⟨_, rfl⟩

theorem liftQ_obj {α : Type} {o o' : Obj} {x : M α} {f : α → TQ.Out} {out : TQ.Out}
    (h : TQ.liftQ o x f = .ok (o', out)) : o' = o := by
  unfold TQ.liftQ at h
  cases x with
  | error e => cases h
  | ok a => simp only [pure, Except.pure, Except.ok.injEq, Prod.mk.injEq] at h; exact h.1.symm

/-- a read-only query leaves an object with the loader invariant (it only makes sections resident) -/
theorem runQuery_inv (o : Obj) (img : Bytes) (h : C01.ObjInv o img) (hlen : img.length < 4294967296)
    (q : TQ.Query) (hq : q.readOnly = true) {o' : Obj} {out : TQ.Out} (hr : TQ.runQuery o q = .ok (o', out)) :
    C01.ObjInv o' img := by
  have hsettle : ∀ {i : Nat} {o1 : Obj} {b : SecBuf}, TQ.settle o i = some (o1, b) → C01.ObjInv o1 img :=
    fun hs => (settle_spec h hs).1
  cases q with
  | arrange i => cases hq
  | swap i a b => cases hq
  | relGet i k =>
    simp only [TQ.runQuery] at hr
    cases hs : TQ.settle o i with
    | none => rw [hs] at hr; simp only [pure, Except.pure, Except.ok.injEq, Prod.mk.injEq] at hr; rw [← hr.1]; exact h
    | some r => rw [hs] at hr; rw [liftQ_obj hr]; exact hsettle hs
  | relGetResolved i k =>
    simp only [TQ.runQuery] at hr
    cases hs : TQ.settle o i with
    | none => rw [hs] at hr; simp only [pure, Except.pure, Except.ok.injEq, Prod.mk.injEq] at hr; rw [← hr.1]; exact h
    | some r =>
      obtain ⟨o1, b⟩ := r
      rw [hs] at hr
      dsimp only at hr
      cases ht : TQ.symTabFor o1 (TQ.relSymtabIndex b) with
      | none => rw [ht] at hr; rw [liftQ_obj hr]; exact hsettle hs
      | some r2 =>
        rw [ht] at hr; rw [liftQ_obj hr]
        exact (symTabFor_spec (hsettle hs) hlen (o' := r2.1) (t := r2.2) (by rw [ht])).2.2
  | symByName i name =>
    simp only [TQ.runQuery] at hr
    cases ht : TQ.symTabFor o i with
    | none => rw [ht] at hr; simp only [pure, Except.pure, Except.ok.injEq, Prod.mk.injEq] at hr; rw [← hr.1]; exact h
    | some r =>
      rw [ht] at hr; rw [liftQ_obj hr]
      exact (symTabFor_spec h hlen (o' := r.1) (t := r.2) (by rw [ht])).2.2
  | symByValue i v =>
    simp only [TQ.runQuery] at hr
    cases ht : TQ.symTabFor o i with
    | none => rw [ht] at hr; simp only [pure, Except.pure, Except.ok.injEq, Prod.mk.injEq] at hr; rw [← hr.1]; exact h
    | some r =>
      rw [ht] at hr; rw [liftQ_obj hr]
      exact (symTabFor_spec h hlen (o' := r.1) (t := r.2) (by rw [ht])).2.2
  | arrGet w i k =>
    simp only [TQ.runQuery] at hr
    cases hs : TQ.settle o i with
    | none => rw [hs] at hr; simp only [pure, Except.pure, Except.ok.injEq, Prod.mk.injEq] at hr; rw [← hr.1]; exact h
    | some r => rw [hs] at hr; rw [liftQ_obj hr]; exact hsettle hs
  | versymGet i k =>
    simp only [TQ.runQuery] at hr
    cases hs : TQ.settle o i with
    | none => rw [hs] at hr; simp only [pure, Except.pure, Except.ok.injEq, Prod.mk.injEq] at hr; rw [← hr.1]; exact h
    | some r => rw [hs] at hr; rw [liftQ_obj hr]; exact hsettle hs
  | needGet i num k =>
    simp only [TQ.runQuery] at hr
    cases hs : TQ.settle o i with
    | none => rw [hs] at hr; simp only [pure, Except.pure, Except.ok.injEq, Prod.mk.injEq] at hr; rw [← hr.1]; exact h
    | some r => rw [hs] at hr; rw [liftQ_obj hr]; exact (settleOpt_spec (hsettle hs) hlen _).1
  | defGet i num k =>
    simp only [TQ.runQuery] at hr
    cases hs : TQ.settle o i with
    | none => rw [hs] at hr; simp only [pure, Except.pure, Except.ok.injEq, Prod.mk.injEq] at hr; rw [← hr.1]; exact h
    | some r => rw [hs] at hr; rw [liftQ_obj hr]; exact (settleOpt_spec (hsettle hs) hlen _).1

/-- ANY sequence of read-only queries returns and keeps the loader invariant … -/
theorem runQueries_inv (img : Bytes) (hlen : img.length < 4294967296) :
    ∀ (qs : List TQ.Query) (o : Obj), C01.ObjInv o img → (∀ q ∈ qs, q.readOnly = true) →
      ∃ o' outs, TQ.runQueries o qs = .ok (o', outs) ∧ C01.ObjInv o' img := by
  intro qs
  induction qs with
  | nil => intro o h _; exact ⟨o, [], rfl, h⟩
  | cons q qs ih =>
    intro o h hro
    unfold TQ.runQueries
    obtain ⟨r, hr⟩ := runQuery_total o img h hlen q
    obtain ⟨o1, out⟩ := r
    rw [hr]
    dsimp only
    have h1 := runQuery_inv o img h hlen q (hro q (List.mem_cons_self ..)) hr
    obtain ⟨o2, outs, h2, h3⟩ := ih o1 h1 (fun q' hq' => hro q' (List.mem_cons_of_mem _ hq'))
    rw [h2]
    exact ⟨_, _, rfl, h3⟩

/-- **queries_seq_total**: … so after any sequence of read-only queries on a loaded object, with any
    arguments (lazy loads mutate the object in between), EVERY further query — including
    `arrange_local_symbols` and `swap_symbols` — returns. -/
theorem queries_seq_total (o : Obj) (img : Bytes) (kind : StreamKind) (isLazy : Bool) (r : LoadRes)
    (hl : load o { data := img, kind := kind } isLazy = .ok r) (hlen : img.length < 4294967296)
    (qs : List TQ.Query) (hro : ∀ q ∈ qs, q.readOnly = true) (q : TQ.Query) :
    ∃ o' outs res, TQ.runQueries r.obj qs = .ok (o', outs) ∧ TQ.runQuery o' q = .ok res := by
  obtain ⟨o', outs, h1, h2⟩ := runQueries_inv img hlen qs r.obj (C01.load_objInv o img kind isLazy r hl) hro
  obtain ⟨res, h3⟩ := runQuery_total o' img h2 hlen q
  exact ⟨o', outs, res, h1, h3⟩

/-- **queries_total**: load ANY byte string (shorter than 4 GiB), eagerly or lazily, from a string or
    file stream, with any address translation table, into any previous object: every table query on the
    resulting object returns — no read or write outside a buffer, no null dereference, no division by
    zero, no endless loop. -/
theorem queries_total (o : Obj) (img : Bytes) (kind : StreamKind) (isLazy : Bool) (r : LoadRes)
    (hl : load o { data := img, kind := kind } isLazy = .ok r) (hlen : img.length < 4294967296) (q : TQ.Query) :
    ∃ res, TQ.runQuery r.obj q = .ok res :=
  runQuery_total r.obj img (C01.load_objInv o img kind isLazy r hl) hlen q

/-! ### queries AFTER mutating queries: an invariant without the file-bytes clause

`arrange_local_symbols` and `swap_symbols` write into the symbol and relocation sections, so C01's invariant
(`LoadedSec`: a resident buffer IS the file bytes) does not survive them.  The accessor theorems above never needed
it: their domain is `Sec` ∧ `Small`, which says nothing about contents.  `QInv` is exactly what `runQuery` needs of
an object; `load` establishes it, EVERY query — `arrange` and `swap` included — preserves it. -/

/-- **swap_preserves_sec**: `swap_symbols(first, second)` with ANY arguments on a `Sec`, `Small` section returns,
    the section afterwards is `Sec` and `Small`, it is the old section with other buffer CONTENTS and nothing else
    (size, flags, link, info, entry size, type, offsets, loader flags unchanged), the buffer has the same length
    and the section neither became resident nor lost its data -/
theorem swap_preserves_sec (enc : Enc) (b : SecBuf) (hb : Sec b) (hs : Small b) (first second : BitVec 64) :
    ∃ b', TQ.swapSymbols enc b first second = .ok b' ∧ Sec b' ∧ Small b' ∧ (∃ d, b' = { b with data := d }) ∧
      b'.data.map List.length = b.data.map List.length := by
  obtain ⟨b', h, k⟩ := swapSymbols_keep enc b hb hs first second
  exact ⟨b', h, k.sec, k.small hs, k.eqv, k.dlen⟩

/-- **arrange_preserves_sec**: `arrange_local_symbols` with the `swap_symbols` callback over ANY list of `Sec`,
    `Small` relocation sections, on a `Sec`, `Small` symbol section with ANY header fields and contents, returns;
    afterwards the symbol section is `Sec` and `Small` and is the old one up to buffer contents and `sh_info`
    (same buffer length, same residency); the relocation sections are as many as before, each `Sec`, `Small`,
    and each the old one at its position up to buffer contents (same length, same residency) -/
theorem arrange_preserves_sec (enc : Enc) (s : SecBuf) (hs : Sec s) (hsm : Small s) (rels : List SecBuf)
    (hr : ∀ r ∈ rels, Sec r ∧ Small r) :
    ∃ s' rels' ret, TQ.arrange (TQ.swapAll enc) s rels = .ok (s', rels', ret) ∧
      Sec s' ∧ Small s' ∧ (∃ d i, s' = { s with data := d, info := i }) ∧
      s'.data.map List.length = s.data.map List.length ∧
      rels'.length = rels.length ∧ (∀ r' ∈ rels', Sec r' ∧ Small r') ∧
      (∀ (j : Nat) (r' : SecBuf), rels'[j]? = some r' → ∃ r : SecBuf, rels[j]? = some r ∧ (∃ d, r' = { r with data := d }) ∧
        r'.data.map List.length = r.data.map List.length) := by
  obtain ⟨s', rels', ret, h, f, k⟩ := arrange_keep enc s hs hsm rels hr
  refine ⟨s', rels', ret, h, f.sec hs, f.small hsm, f.eqv, f.dlen, k.length, k.relsOk hr, ?_⟩
  intro j r' hj
  obtain ⟨r, h1, h2⟩ := k.getElem? j r' hj
  exact ⟨r, h1, h2.eqv, h2.dlen⟩

/-- what the queries need of an object: its stream is shorter than 4 GiB; every section — resident or not,
    settled or not — has room for `size` bytes and the terminator in its buffer and is smaller than 4 GiB when
    resident (`QSec`).  NOTHING about the contents of any buffer, nothing about the file. -/
structure QInv (o : Obj) : Prop where
  stream : o.stream.data.length < 4294967296
  secs : ∀ b ∈ o.secs, QSec b

/-- the loader invariant (C01) of an input shorter than 4 GiB gives `QInv` -/
theorem qinv_of_objInv {o : Obj} {img : Bytes} (h : C01.ObjInv o img) (hlen : img.length < 4294967296) : QInv o :=
  ⟨by rw [h.sdata]; exact hlen,
   fun b hb d hd => ⟨(h.secs b hb).bufOk d hd, small_of_loaded (h.secs b hb) hlen d hd⟩⟩

/-- **load_qinv**: `load` of ANY byte string shorter than 4 GiB establishes `QInv` -/
theorem load_qinv (o : Obj) (img : Bytes) (kind : StreamKind) (isLazy : Bool) (r : LoadRes)
    (hl : load o { data := img, kind := kind } isLazy = .ok r) (hlen : img.length < 4294967296) : QInv r.obj :=
  qinv_of_objInv (C01.load_objInv o img kind isLazy r hl) hlen

/-- `sections[i]->get_data()` : keeps `QInv`; the section it delivers is in the domain -/
theorem settle_q {o : Obj} (h : QInv o) {i : Nat} {o1 : Obj} {b : SecBuf} (hs : TQ.settle o i = some (o1, b)) :
    QInv o1 ∧ (Sec b ∧ Small b) ∧ o1.secs[i]? = some b ∧ o1.secs.length = o.secs.length ∧
    (∀ j, SettledAt o j → SettledAt o1 j) := by
  unfold TQ.settle at hs
  cases hget : o.secs[i]? with
  | none => rw [hget] at hs; cases hs
  | some b0 =>
    rw [hget] at hs
    simp only [Option.some.injEq, Prod.mk.injEq] at hs
    obtain ⟨rfl, rfl⟩ := hs
    obtain ⟨q1, q2⟩ := secGetData_qsec o.cls o.trans { st := o.stream } b0 h.stream
      (h.secs b0 (List.mem_of_getElem? hget))
    have hi : i < o.secs.length := by
      rcases Nat.lt_or_ge i o.secs.length with h' | h'
      · exact h'
      · rw [List.getElem?_eq_none h'] at hget; cases hget
    refine ⟨⟨?_, ?_⟩, ⟨⟨secGetData_settled _ _ _ _, fun d hd => (q1 d hd).1⟩, fun d hd => (q1 d hd).2⟩, ?_, ?_, ?_⟩
    · show (secGetData o.cls o.trans { st := o.stream } b0).1.st.data.length < 4294967296
      rw [q2]; exact h.stream
    · intro b' hb'
      rcases C01.mem_set hb' with hb' | rfl
      · exact h.secs b' hb'
      · exact q1
    · simp [List.getElem?_set, hi]
    · simp
    · intro j hj b hb
      by_cases hij : i = j
      · subst hij
        simp only [List.getElem?_set, hi, if_true] at hb
        simp only [Option.some.injEq] at hb
        subst hb; exact secGetData_settled _ _ _ _
      · simp only [List.getElem?_set, hij, if_false] at hb
        exact hj b hb

theorem sec_at_q {o : Obj} (h : QInv o) {j : Nat} (hj : SettledAt o j) {b : SecBuf} (hb : o.secs[j]? = some b) :
    Sec b ∧ Small b :=
  have hq := h.secs b (List.mem_of_getElem? hb)
  ⟨⟨hj b hb, fun d hd => (hq d hd).1⟩, fun d hd => (hq d hd).2⟩

theorem settleOpt_q {o : Obj} (h : QInv o) (i : Nat) :
    QInv (TQ.settleOpt o i).1 ∧ (∀ b, (TQ.settleOpt o i).2 = some b → Sec b ∧ Small b) ∧
    (TQ.settleOpt o i).1.secs.length = o.secs.length ∧
    (∀ j, SettledAt o j → SettledAt (TQ.settleOpt o i).1 j) ∧
    (i < o.secs.length → SettledAt (TQ.settleOpt o i).1 i) := by
  unfold TQ.settleOpt
  cases hs : TQ.settle o i with
  | none =>
    dsimp only
    refine ⟨h, (fun b hb => by cases hb), rfl, fun j hj => hj, ?_⟩
    intro hi
    unfold TQ.settle at hs
    rw [List.getElem?_eq_getElem hi] at hs
    cases hs
  | some r =>
    obtain ⟨o1, b⟩ := r
    dsimp only
    obtain ⟨h1, h2, h5, h6, h7⟩ := settle_q h hs
    refine ⟨h1, ?_, h6, h7, ?_⟩
    · intro b' hb'
      simp only [Option.some.injEq] at hb'
      subst hb'
      exact h2
    · intro _ b' hb'
      rw [h5] at hb'
      simp only [Option.some.injEq] at hb'
      subst hb'; exact h2.1.settled

theorem settleAll_q :
    ∀ (js : List Nat) (o : Obj), QInv o →
      QInv (TQ.settleAll o js) ∧ (TQ.settleAll o js).secs.length = o.secs.length ∧
      (∀ j, SettledAt o j → SettledAt (TQ.settleAll o js) j) ∧
      (∀ j ∈ js, j < o.secs.length → SettledAt (TQ.settleAll o js) j) := by
  intro js
  induction js with
  | nil => intro o h; exact ⟨h, rfl, fun j hj => hj, fun j hj => by cases hj⟩
  | cons j js ih =>
    intro o h
    unfold TQ.settleAll
    obtain ⟨h1, -, h3, h4, h5⟩ := settleOpt_q h j
    obtain ⟨i1, i2, i3, i4⟩ := ih _ h1
    refine ⟨i1, i2.trans h3, fun k hk => i3 k (h4 k hk), ?_⟩
    intro k hk hlt
    rcases List.mem_cons.mp hk with rfl | hk
    · exact i3 _ (h5 hlt)
    · exact i4 k hk (by rw [h3]; exact hlt)

theorem symTabFor_q {o : Obj} (h : QInv o) {i : Nat} {o' : Obj} {t : SymTab}
    (hs : TQ.symTabFor o i = some (o', t)) :
    TabOk t ∧ (∀ hh, t.hash = some hh → Small hh) ∧ QInv o' := by
  unfold TQ.symTabFor at hs
  cases h1 : TQ.settle o i with
  | none => rw [h1] at hs; cases hs
  | some r =>
    obtain ⟨o1, b⟩ := r
    rw [h1] at hs
    simp only [Option.some.injEq, Prod.mk.injEq] at hs
    obtain ⟨rfl, rfl⟩ := hs
    obtain ⟨i1, hb, -⟩ := settle_q h h1
    obtain ⟨j1, j2, -⟩ := settleOpt_q i1 (tq_sym_strtab_index b.link).toNat
    refine ⟨⟨hb.1, fun s hs => (j2 s hs).1, ?_⟩, ?_, ?_⟩
    · intro s hs
      dsimp only at hs
      split at hs
      · exact ((settleOpt_q j1 _).2.1 s hs).1
      · cases hs
    · intro s hs
      dsimp only at hs
      split at hs
      · exact ((settleOpt_q j1 _).2.1 s hs).2
      · cases hs
    · split
      · exact (settleOpt_q j1 _).1
      · exact j1

theorem liftQ_q {α : Type} {o : Obj} {x : M α} (f : α → TQ.Out) (hq : QInv o) (h : ∃ a, x = .ok a) :
    ∃ o' out, TQ.liftQ o x f = .ok (o', out) ∧ QInv o' := by
  obtain ⟨a, rfl⟩ := h
  exact ⟨o, f a, rfl, hq⟩

/-- **runQuery_qinv**: on an object with `QInv` EVERY query — read-only or mutating, any section index, entry
    index, name, value, entry count — returns, and the object it leaves has `QInv` again -/
theorem runQuery_qinv (o : Obj) (h : QInv o) (q : TQ.Query) :
    ∃ o' out, TQ.runQuery o q = .ok (o', out) ∧ QInv o' := by
  cases q with
  | relGet i k =>
    simp only [TQ.runQuery]
    cases hs : TQ.settle o i with
    | none => exact ⟨_, _, rfl, h⟩
    | some r =>
      obtain ⟨h1, hb, -⟩ := settle_q h (o1 := r.1) (b := r.2) (by rw [hs])
      exact liftQ_q _ h1 (reloc_get_total _ _ hb.1 _)
  | relGetResolved i k =>
    simp only [TQ.runQuery]
    cases hs : TQ.settle o i with
    | none => exact ⟨_, _, rfl, h⟩
    | some r =>
      obtain ⟨o1, b⟩ := r
      dsimp only
      obtain ⟨i1, hb, -⟩ := settle_q h hs
      cases ht : TQ.symTabFor o1 (TQ.relSymtabIndex b) with
      | none =>
        exact liftQ_q _ i1 (reloc_get_resolved_total _ _ hb.1 none (fun t ht => by cases ht) _)
      | some r2 =>
        have hk := symTabFor_q i1 (o' := r2.1) (t := r2.2) (by rw [ht])
        exact liftQ_q _ hk.2.2 (reloc_get_resolved_total _ _ hb.1 (some r2.2)
          (fun t ht' => by simp only [Option.some.injEq] at ht'; subst ht'; exact hk.1) _)
  | symByName i name =>
    simp only [TQ.runQuery]
    cases ht : TQ.symTabFor o i with
    | none => exact ⟨_, _, rfl, h⟩
    | some r =>
      have hk := symTabFor_q h (o' := r.1) (t := r.2) (by rw [ht])
      exact liftQ_q _ hk.2.2 (sym_by_name_total _ hk.1 hk.2.1 _ _)
  | symByValue i v =>
    simp only [TQ.runQuery]
    cases ht : TQ.symTabFor o i with
    | none => exact ⟨_, _, rfl, h⟩
    | some r =>
      have hk := symTabFor_q h (o' := r.1) (t := r.2) (by rw [ht])
      exact liftQ_q _ hk.2.2 (sym_by_value_total _ hk.1 _ _ _)
  | arrGet w i k =>
    simp only [TQ.runQuery]
    cases hs : TQ.settle o i with
    | none => exact ⟨_, _, rfl, h⟩
    | some r =>
      obtain ⟨h1, hb, -⟩ := settle_q h (o1 := r.1) (b := r.2) (by rw [hs])
      exact liftQ_q _ h1 (array_get_total _ _ _ hb.1 _)
  | versymGet i k =>
    simp only [TQ.runQuery]
    cases hs : TQ.settle o i with
    | none => exact ⟨_, _, rfl, h⟩
    | some r =>
      obtain ⟨h1, hb, -⟩ := settle_q h (o1 := r.1) (b := r.2) (by rw [hs])
      exact liftQ_q _ h1 (versym_get_total _ hb.1 _)
  | needGet i num k =>
    simp only [TQ.runQuery]
    cases hs : TQ.settle o i with
    | none => exact ⟨_, _, rfl, h⟩
    | some r =>
      obtain ⟨h1, hb, -⟩ := settle_q h (o1 := r.1) (b := r.2) (by rw [hs])
      exact liftQ_q _ (settleOpt_q h1 _).1 (verneed_get_total _ _ hb.1 _ _ _)
  | defGet i num k =>
    simp only [TQ.runQuery]
    cases hs : TQ.settle o i with
    | none => exact ⟨_, _, rfl, h⟩
    | some r =>
      obtain ⟨h1, hb, -⟩ := settle_q h (o1 := r.1) (b := r.2) (by rw [hs])
      exact liftQ_q _ (settleOpt_q h1 _).1 (verdef_get_total _ _ hb.1 _ _ _)
  | arrange i =>
    simp only [TQ.runQuery]
    cases hs : TQ.settle o i with
    | none => exact ⟨_, _, rfl, h⟩
    | some r =>
      obtain ⟨o1, b⟩ := r
      dsimp only
      obtain ⟨i1, i4, i5, i6, -⟩ := settle_q h hs
      have hsi : SettledAt o1 i := by
        intro b' hb'; rw [i5] at hb'; simp only [Option.some.injEq] at hb'; subst hb'; exact i4.1.settled
      obtain ⟨a1, a2, a3, a4⟩ := settleAll_q (TQ.relsOf o1 i) o1 i1
      cases hg : (TQ.settleAll o1 (TQ.relsOf o1 i)).secs[i]? with
      | none => exact ⟨_, _, rfl, a1⟩
      | some s =>
        dsimp only
        have hs' := sec_at_q a1 (a3 i hsi) hg
        have hrels : ∀ r ∈ (TQ.relsOf o1 i).filterMap (fun j => (TQ.settleAll o1 (TQ.relsOf o1 i)).secs[j]?),
            Sec r ∧ Small r := by
          intro r hr
          obtain ⟨j, hj, hjr⟩ := List.mem_filterMap.mp hr
          have hjlt : j < o1.secs.length := by
            rcases Nat.lt_or_ge j o1.secs.length with h' | h'
            · exact h'
            · rw [List.getElem?_eq_none (by rw [a2]; exact h')] at hjr; cases hjr
          exact sec_at_q a1 (a4 j hj hjlt) hjr
        obtain ⟨s', rels', ret, hres, f, kk⟩ := arrange_keep o.enc s hs'.1 hs'.2 _ hrels
        rw [hres]
        refine ⟨_, _, rfl, ⟨a1.stream, ?_⟩⟩
        intro x hx
        rcases mem_putAll _ _ _ _ hx with hx | hx
        · rcases C01.mem_set hx with hx | rfl
          · exact a1.secs x hx
          · exact QSec.of_sec (f.sec hs'.1) (f.small hs'.2)
        · have := kk.relsOk hrels x hx
          exact QSec.of_sec this.1 this.2
  | swap i first second =>
    simp only [TQ.runQuery]
    cases hs : TQ.settle o i with
    | none => exact ⟨_, _, rfl, h⟩
    | some r =>
      obtain ⟨o1, b⟩ := r
      dsimp only
      obtain ⟨i1, hb, -⟩ := settle_q h hs
      obtain ⟨b', hb', k⟩ := swapSymbols_keep o.enc b hb.1 hb.2 first second
      rw [hb']
      refine ⟨_, _, rfl, ⟨i1.stream, ?_⟩⟩
      intro x hx
      rcases C01.mem_set hx with hx | rfl
      · exact i1.secs x hx
      · exact QSec.of_sec k.sec (k.small hb.2)

/-- ANY finite sequence of queries — mutating and read-only ones freely interleaved, arbitrary arguments — on an
    object with `QInv` returns (every single query does) and leaves an object with `QInv` -/
theorem runQueries_qinv : ∀ (qs : List TQ.Query) (o : Obj), QInv o →
    ∃ o' outs, TQ.runQueries o qs = .ok (o', outs) ∧ outs.length = qs.length ∧ QInv o' := by
  intro qs
  induction qs with
  | nil => intro o h; exact ⟨o, [], rfl, rfl, h⟩
  | cons q qs ih =>
    intro o h
    unfold TQ.runQueries
    obtain ⟨o1, out, hr, h1⟩ := runQuery_qinv o h q
    rw [hr]
    dsimp only
    obtain ⟨o2, outs, h2, hl, h3⟩ := ih o1 h1
    rw [h2]
    exact ⟨_, _, rfl, by simp [hl], h3⟩

/-- **queries_any_seq_total**: load ANY byte string shorter than 4 GiB — eagerly or lazily, from a string or file
    stream, with any address translation table, into any previous object — and run ANY finite sequence of table
    queries on the result, `arrange_local_symbols` / `swap_symbols` (which write into the symbol and relocation
    sections) and the read-only queries freely interleaved, each with arbitrary section index, entry index, name,
    value, entry count: every query of the sequence returns without a fault (no read or write outside a buffer, no
    null dereference, no division by zero, no endless loop), one result per query, and the object is again in the
    state (`QInv`) from which every further sequence returns -/
theorem queries_any_seq_total (o : Obj) (img : Bytes) (kind : StreamKind) (isLazy : Bool) (r : LoadRes)
    (hl : load o { data := img, kind := kind } isLazy = .ok r) (hlen : img.length < 4294967296)
    (qs : List TQ.Query) :
    ∃ o' outs, TQ.runQueries r.obj qs = .ok (o', outs) ∧ outs.length = qs.length ∧ QInv o' :=
  runQueries_qinv qs r.obj (load_qinv o img kind isLazy r hl hlen)

/-! ### … and no query touches the header side of the object -/

/-- the header side of an object: class, byte order, translation table, ELF header, segments, the NUMBER of sections
    and, position by position, every section's header fields other than `sh_info` (type, size, entry size, link,
    flags, address, offset, alignment, name, index, recorded stream size, lazy flag) -/
structure ObjHdr (o' o : Obj) : Prop where
  cls : o'.cls = o.cls
  enc : o'.enc = o.enc
  tr : o'.trans = o.trans
  hdr : o'.hdr = o.hdr
  segs : o'.segs = o.segs
  len : o'.secs.length = o.secs.length
  secs : ∀ (j : Nat) (b' : SecBuf), o'.secs[j]? = some b' → ∃ b, o.secs[j]? = some b ∧ HdrI b' b

theorem ObjHdr.refl (o : Obj) : ObjHdr o o := ⟨rfl, rfl, rfl, rfl, rfl, rfl, fun _ b' h => ⟨b', h, rfl⟩⟩

theorem ObjHdr.comp {a b c : Obj} (h1 : ObjHdr a b) (h2 : ObjHdr b c) : ObjHdr a c :=
  ⟨h1.cls.trans h2.cls, h1.enc.trans h2.enc, h1.tr.trans h2.tr, h1.hdr.trans h2.hdr, h1.segs.trans h2.segs,
   h1.len.trans h2.len, fun j x hx => by
    obtain ⟨y, hy, e1⟩ := h1.secs j x hx
    obtain ⟨z, hz, e2⟩ := h2.secs j y hy
    exact ⟨z, hz, Eq.trans e1 e2⟩⟩

/-- replacing section `i` by one with the same header fields -/
theorem objHdr_set (o : Obj) (i : Nat) (b0 x : SecBuf) (st : IStream) (hget : o.secs[i]? = some b0) (hx : HdrI x b0) :
    ObjHdr { o with secs := o.secs.set i x, stream := st } o := by
  refine ⟨rfl, rfl, rfl, rfl, rfl, by simp, ?_⟩
  intro j b' hb'
  simp only [List.getElem?_set] at hb'
  split at hb'
  · split at hb'
    · rename_i hij _
      simp only [Option.some.injEq] at hb'
      subst hb'; subst hij
      exact ⟨b0, hget, hx⟩
    · cases hb'
  · exact ⟨b', hb', rfl⟩

theorem settle_hdr {o : Obj} {i : Nat} {o1 : Obj} {b : SecBuf} (hs : TQ.settle o i = some (o1, b)) : ObjHdr o1 o := by
  unfold TQ.settle at hs
  cases hget : o.secs[i]? with
  | none => rw [hget] at hs; cases hs
  | some b0 =>
    rw [hget] at hs
    simp only [Option.some.injEq, Prod.mk.injEq] at hs
    obtain ⟨rfl, rfl⟩ := hs
    exact objHdr_set o i b0 _ _ hget (secGetData_hdr _ _ _ _)

theorem settleOpt_hdr (o : Obj) (i : Nat) : ObjHdr (TQ.settleOpt o i).1 o := by
  unfold TQ.settleOpt
  cases hs : TQ.settle o i with
  | none => exact ObjHdr.refl o
  | some r => exact settle_hdr (o1 := r.1) (b := r.2) (by rw [hs])

theorem settleAll_hdr : ∀ (js : List Nat) (o : Obj), ObjHdr (TQ.settleAll o js) o := by
  intro js
  induction js with
  | nil => intro o; exact ObjHdr.refl o
  | cons j js ih => intro o; unfold TQ.settleAll; exact (ih _).comp (settleOpt_hdr o j)

theorem symTabFor_hdr {o : Obj} {i : Nat} {o' : Obj} {t : SymTab} (hs : TQ.symTabFor o i = some (o', t)) :
    ObjHdr o' o := by
  unfold TQ.symTabFor at hs
  cases h1 : TQ.settle o i with
  | none => rw [h1] at hs; cases hs
  | some r =>
    obtain ⟨o1, b⟩ := r
    rw [h1] at hs
    simp only [Option.some.injEq, Prod.mk.injEq] at hs
    obtain ⟨rfl, rfl⟩ := hs
    have e1 := settle_hdr h1
    have e2 := settleOpt_hdr o1 (tq_sym_strtab_index b.link).toNat
    split
    · exact ((settleOpt_hdr _ _).comp e2).comp e1
    · exact e2.comp e1

/-- **runQuery_hdr**: NO query — `arrange` and `swap` included — changes the class, byte order, translation table,
    ELF header, segments or number of sections of the object, or any header field other than `sh_info` of any
    section (sizes, entry sizes, types, flags, links stay what the file said): the queries only make sections
    resident, and the mutating ones overwrite buffer contents in place and set `sh_info` -/
theorem runQuery_hdr (o : Obj) (h : QInv o) (q : TQ.Query) {o' : Obj} {out : TQ.Out}
    (hr : TQ.runQuery o q = .ok (o', out)) : ObjHdr o' o := by
  have hnull : ∀ {x : Obj × TQ.Out}, (pure x : M (Obj × TQ.Out)) = .ok (o', out) → x.1 = o' := by
    intro x hx
    simp only [pure, Except.pure, Except.ok.injEq] at hx
    rw [hx]
  cases q with
  | relGet i k =>
    simp only [TQ.runQuery] at hr
    cases hs : TQ.settle o i with
    | none => rw [hs] at hr; rw [← hnull hr]; exact ObjHdr.refl o
    | some r => rw [hs] at hr; rw [liftQ_obj hr]; exact settle_hdr (o1 := r.1) (b := r.2) (by rw [hs])
  | relGetResolved i k =>
    simp only [TQ.runQuery] at hr
    cases hs : TQ.settle o i with
    | none => rw [hs] at hr; rw [← hnull hr]; exact ObjHdr.refl o
    | some r =>
      obtain ⟨o1, b⟩ := r
      rw [hs] at hr
      dsimp only at hr
      cases ht : TQ.symTabFor o1 (TQ.relSymtabIndex b) with
      | none => rw [ht] at hr; rw [liftQ_obj hr]; exact settle_hdr hs
      | some r2 =>
        rw [ht] at hr; rw [liftQ_obj hr]
        exact (symTabFor_hdr (o' := r2.1) (t := r2.2) (by rw [ht])).comp (settle_hdr hs)
  | symByName i name =>
    simp only [TQ.runQuery] at hr
    cases ht : TQ.symTabFor o i with
    | none => rw [ht] at hr; rw [← hnull hr]; exact ObjHdr.refl o
    | some r => rw [ht] at hr; rw [liftQ_obj hr]; exact symTabFor_hdr (o' := r.1) (t := r.2) (by rw [ht])
  | symByValue i v =>
    simp only [TQ.runQuery] at hr
    cases ht : TQ.symTabFor o i with
    | none => rw [ht] at hr; rw [← hnull hr]; exact ObjHdr.refl o
    | some r => rw [ht] at hr; rw [liftQ_obj hr]; exact symTabFor_hdr (o' := r.1) (t := r.2) (by rw [ht])
  | arrGet w i k =>
    simp only [TQ.runQuery] at hr
    cases hs : TQ.settle o i with
    | none => rw [hs] at hr; rw [← hnull hr]; exact ObjHdr.refl o
    | some r => rw [hs] at hr; rw [liftQ_obj hr]; exact settle_hdr (o1 := r.1) (b := r.2) (by rw [hs])
  | versymGet i k =>
    simp only [TQ.runQuery] at hr
    cases hs : TQ.settle o i with
    | none => rw [hs] at hr; rw [← hnull hr]; exact ObjHdr.refl o
    | some r => rw [hs] at hr; rw [liftQ_obj hr]; exact settle_hdr (o1 := r.1) (b := r.2) (by rw [hs])
  | needGet i num k =>
    simp only [TQ.runQuery] at hr
    cases hs : TQ.settle o i with
    | none => rw [hs] at hr; rw [← hnull hr]; exact ObjHdr.refl o
    | some r =>
      rw [hs] at hr; rw [liftQ_obj hr]
      exact (settleOpt_hdr _ _).comp (settle_hdr (o1 := r.1) (b := r.2) (by rw [hs]))
  | defGet i num k =>
    simp only [TQ.runQuery] at hr
    cases hs : TQ.settle o i with
    | none => rw [hs] at hr; rw [← hnull hr]; exact ObjHdr.refl o
    | some r =>
      rw [hs] at hr; rw [liftQ_obj hr]
      exact (settleOpt_hdr _ _).comp (settle_hdr (o1 := r.1) (b := r.2) (by rw [hs]))
  | arrange i =>
    simp only [TQ.runQuery] at hr
    cases hs : TQ.settle o i with
    | none => rw [hs] at hr; rw [← hnull hr]; exact ObjHdr.refl o
    | some r =>
      obtain ⟨o1, b⟩ := r
      rw [hs] at hr
      dsimp only at hr
      obtain ⟨i1, i4, i5, i6, -⟩ := settle_q h hs
      have hsi : SettledAt o1 i := by
        intro b' hb'; rw [i5] at hb'; simp only [Option.some.injEq] at hb'; subst hb'; exact i4.1.settled
      obtain ⟨a1, a2, a3, a4⟩ := settleAll_q (TQ.relsOf o1 i) o1 i1
      have e12 := (settleAll_hdr (TQ.relsOf o1 i) o1).comp (settle_hdr hs)
      cases hg : (TQ.settleAll o1 (TQ.relsOf o1 i)).secs[i]? with
      | none => rw [hg] at hr; rw [← hnull hr]; exact e12
      | some s =>
        rw [hg] at hr
        dsimp only at hr
        have hs' := sec_at_q a1 (a3 i hsi) hg
        have hrels : ∀ r ∈ (TQ.relsOf o1 i).filterMap (fun j => (TQ.settleAll o1 (TQ.relsOf o1 i)).secs[j]?),
            Sec r ∧ Small r := by
          intro r hr
          obtain ⟨j, hj, hjr⟩ := List.mem_filterMap.mp hr
          have hjlt : j < o1.secs.length := by
            rcases Nat.lt_or_ge j o1.secs.length with h' | h'
            · exact h'
            · rw [List.getElem?_eq_none (by rw [a2]; exact h')] at hjr; cases hjr
          exact sec_at_q a1 (a4 j hj hjlt) hjr
        obtain ⟨s', rels', ret, hres, f, kk⟩ := arrange_keep o.enc s hs'.1 hs'.2 _ hrels
        rw [hres] at hr
        rw [← hnull hr]
        refine ObjHdr.comp ?_ e12
        refine ⟨rfl, rfl, rfl, rfl, rfl, by simp [length_putAll], ?_⟩
        refine putAll_hdr _ _ (fun j hj => by rw [a2]; exact relsOf_lt o1 i j hj) _ kk _ ?_
        intro j b' hb'
        simp only [List.getElem?_set] at hb'
        split at hb'
        · split at hb'
          · rename_i hij _
            simp only [Option.some.injEq] at hb'
            subst hb'; subst hij
            exact ⟨s, hg, f.hdrI⟩
          · cases hb'
        · exact ⟨b', hb', rfl⟩
  | swap i first second =>
    simp only [TQ.runQuery] at hr
    cases hs : TQ.settle o i with
    | none => rw [hs] at hr; rw [← hnull hr]; exact ObjHdr.refl o
    | some r =>
      obtain ⟨o1, b⟩ := r
      rw [hs] at hr
      dsimp only at hr
      obtain ⟨i1, hb, i5, -⟩ := settle_q h hs
      obtain ⟨b', hb', k⟩ := swapSymbols_keep o.enc b hb.1 hb.2 first second
      rw [hb'] at hr
      rw [← hnull hr]
      exact (objHdr_set o1 i b b' o1.stream i5 k.frame.hdrI).comp (settle_hdr hs)

/-- **runQueries_hdr**: … nor does any finite sequence of queries -/
theorem runQueries_hdr : ∀ (qs : List TQ.Query) (o : Obj), QInv o → ∀ {o' : Obj} {outs : List TQ.Out},
    TQ.runQueries o qs = .ok (o', outs) → ObjHdr o' o := by
  intro qs
  induction qs with
  | nil =>
    intro o _ o' outs hr
    simp only [TQ.runQueries, pure, Except.pure, Except.ok.injEq, Prod.mk.injEq] at hr
    rw [← hr.1]; exact ObjHdr.refl o
  | cons q qs ih =>
    intro o h o' outs hr
    unfold TQ.runQueries at hr
    obtain ⟨o1, out, hq, h1⟩ := runQuery_qinv o h q
    rw [hq] at hr
    dsimp only at hr
    obtain ⟨o2, outs2, h2, -, -⟩ := runQueries_qinv qs o1 h1
    rw [h2] at hr
    simp only [pure, Except.pure, Except.ok.injEq, Prod.mk.injEq] at hr
    rw [← hr.1]
    exact (ih o1 h1 h2).comp (runQuery_hdr o h q hq)

/-- **dynNum_qinv**: what the driver does between queries besides `get_data()` (`settle_q`, `settle_hdr`): reading
    `DT_VERNEEDNUM` / `DT_VERDEFNUM` the way the version accessors' constructors do (C12's dynamic accessor model on the
    section named `.dynamic` and its string section) returns on every object with `QInv` — also after mutating
    queries wrote into those sections — and keeps `QInv` and the header side -/
theorem dynNum_qinv (o : Obj) (h : QInv o) (need : Bool) :
    ∃ o' v, TQ.dynNum o need = .ok (o', v) ∧ QInv o' ∧ ObjHdr o' o := by
  have hnone : ∃ o' v, TQ.liftQN o (TQ.verCount need none) = .ok (o', v) ∧ QInv o' ∧ ObjHdr o' o := by
    obtain ⟨v, hv⟩ := verCount_total need none (fun a ha => by cases ha)
    rw [hv]; exact ⟨o, v, rfl, h, ObjHdr.refl o⟩
  unfold TQ.dynNum
  dsimp only
  split
  · exact hnone
  · rename_i di _
    cases hs : TQ.settle o di with
    | none => exact hnone
    | some r =>
      obtain ⟨o1, d⟩ := r
      dsimp only
      obtain ⟨i1, hd, -⟩ := settle_q h hs
      obtain ⟨j1, j2, -⟩ := settleOpt_q i1 (dyn_strtab_index d.link).toNat
      have e2 := settleOpt_hdr o1 (dyn_strtab_index d.link).toNat
      generalize TQ.settleOpt o1 (dyn_strtab_index d.link).toNat = r2 at j1 j2 e2 ⊢
      have hready : Inspect.DynReady { cfg := ⟨r2.1.cls, r2.1.enc⟩, sec := d, str := r2.2 } :=
        ⟨hd.1.settled, hd.1.buf, fun s hs' => ⟨(j2 s hs').1.settled, (j2 s hs').1.buf⟩, by simp⟩
      obtain ⟨v, hv⟩ := verCount_total need (some _) (fun a ha => by
        simp only [Option.some.injEq] at ha; subst ha; exact hready)
      rw [hv]
      exact ⟨_, v, rfl, j1, e2.comp (settle_hdr hs)⟩

/-- **queries_any_seq_hdr**: on the object a load yields, after ANY finite sequence of queries (mutating ones
    included) every section still has the header fields — type, size, entry size, link, flags, … all but `sh_info` —
    it had after the load, and there are as many sections -/
theorem queries_any_seq_hdr (o : Obj) (img : Bytes) (kind : StreamKind) (isLazy : Bool) (r : LoadRes)
    (hl : load o { data := img, kind := kind } isLazy = .ok r) (hlen : img.length < 4294967296)
    (qs : List TQ.Query) {o' : Obj} {outs : List TQ.Out} (hr : TQ.runQueries r.obj qs = .ok (o', outs)) :
    ObjHdr o' r.obj :=
  runQueries_hdr qs r.obj (load_qinv o img kind isLazy r hl hlen) hr

/-! ### everything the driver / harness do with the object between `load` and the end of a case -/

/-- one thing an op line of the C18 protocol does with the object: a query; a bare `sections[i]->get_data()` (the
    `rel` / `arr32` / `arr64` / `versym` / `verneed` / `verdef` ops print an entry count first); the construction of a
    version accessor, which reads `DT_VERNEEDNUM` / `DT_VERDEFNUM` from `.dynamic` -/
inductive Step
  | query (q : TQ.Query)
  | getData (i : Nat)
  | verCount (need : Bool)

def runStep (o : Obj) : Step → M Obj
  | .query q =>
    match TQ.runQuery o q with
    | .error e => .error e
    | .ok r => pure r.1
  | .getData i => pure (TQ.settleOpt o i).1
  | .verCount need =>
    match TQ.dynNum o need with
    | .error e => .error e
    | .ok r => pure r.1

def runSteps (o : Obj) : List Step → M Obj
  | [] => pure o
  | s :: ss =>
    match runStep o s with
    | .error e => .error e
    | .ok o1 => runSteps o1 ss

theorem runStep_qinv (o : Obj) (h : QInv o) (s : Step) : ∃ o', runStep o s = .ok o' ∧ QInv o' ∧ ObjHdr o' o := by
  cases s with
  | query q =>
    obtain ⟨o', out, hr, hq⟩ := runQuery_qinv o h q
    simp only [runStep, hr]
    exact ⟨o', rfl, hq, runQuery_hdr o h q hr⟩
  | getData i => exact ⟨_, rfl, (settleOpt_q h i).1, settleOpt_hdr o i⟩
  | verCount need =>
    obtain ⟨o', v, hr, hq, hh⟩ := dynNum_qinv o h need
    simp only [runStep, hr]
    exact ⟨o', rfl, hq, hh⟩

theorem runSteps_qinv : ∀ (ss : List Step) (o : Obj), QInv o → ∃ o', runSteps o ss = .ok o' ∧ QInv o' ∧ ObjHdr o' o := by
  intro ss
  induction ss with
  | nil => intro o h; exact ⟨o, rfl, h, ObjHdr.refl o⟩
  | cons s ss ih =>
    intro o h
    unfold runSteps
    obtain ⟨o1, h1, q1, e1⟩ := runStep_qinv o h s
    rw [h1]
    obtain ⟨o2, h2, q2, e2⟩ := ih o1 q1
    exact ⟨o2, h2, q2, e2.comp e1⟩

/-- **steps_any_seq_total**: `queries_any_seq_total` for everything an op line does: after a load of ANY byte string
    shorter than 4 GiB, ANY finite sequence of queries (mutating or not), bare `get_data()` calls and version accessor
    constructions, with arbitrary arguments, returns without fault; `QInv` holds at the end and no header field
    (other than `sh_info`) of any section has changed -/
theorem steps_any_seq_total (o : Obj) (img : Bytes) (kind : StreamKind) (isLazy : Bool) (r : LoadRes)
    (hl : load o { data := img, kind := kind } isLazy = .ok r) (hlen : img.length < 4294967296) (ss : List Step) :
    ∃ o', runSteps r.obj ss = .ok o' ∧ QInv o' ∧ ObjHdr o' r.obj :=
  runSteps_qinv ss r.obj (load_qinv o img kind isLazy r hl hlen)

/-! ### the findings, machine-checked on the models of the unfixed functions -/

/-- 0 = no fault; otherwise the kind of fault -/
def faultKind {α : Type} : M α → Nat
  | .ok _ => 0
  | .error (.nullDeref _) => 1
  | .error (.oobRead _) => 2
  | .error (.oobWrite _) => 3
  | .error (.vecOob _) => 4
  | .error (.divZero _) => 5
  | .error (.useAfterFree _) => 6
  | .error (.fuel _) => 7

/-- a loaded (resident, settled) section with the given header fields -/
def wsec (cls : Cls) (ty : Nat) (d : Bytes) (entSize : Nat) : SecBuf :=
  { SecBuf.loadedEager cls (BitVec.ofNat 32 ty) d 1000#64 with entSize := BitVec.ofNat 64 entSize }

/-- a section whose data failed to load: `size` bytes announced, `get_data()` is null -/
def wnodata (cls : Cls) (ty : Nat) (size entSize : Nat) : SecBuf :=
  { cls, stype := BitVec.ofNat 32 ty, size := BitVec.ofNat 64 size, data := none, dataSize := 0, streamSize := 1000#64,
    isLoaded := false, canLoad := false, entSize := BitVec.ofNat 64 entSize }

/-- the two-symbol ELF32/LSB table of Props/C09.lean ("", "b") with a hash section attached -/
def wtab (hashTy : Nat) (hash : Bytes) : SymTab :=
  { C09.loadedTab ⟨.c32, .lsb⟩ false C09.exSym C09.exStr 1000#64 with hash := some (wsec .c32 hashTy hash 4) }

/-- F7(a): ELF32 REL section, one entry, `sh_link` out of range: without the null test of fixes/10 the
    symbol accessor's constructor dereferences the null section -/
theorem reloc_null_symtab_witness :
    faultKind (TQ.relGetResolvedWith (fun _ => false) .lsb (wsec .c32 SHT_REL [0,0,0,0, 1,1,0,0] 8) none 0) = 1 ∧
    faultKind (TQ.relGetResolved .lsb (wsec .c32 SHT_REL [0,0,0,0, 1,1,0,0] 8) none 0) = 0 := by
  constructor <;> decide

/-- F7(b): SysV hash section with `nbucket = 0`: the unfixed walk divides by zero; the fixed one returns -/
theorem sysv_nbucket_zero_witness :
    faultKind ((wtab SHT_HASH [0,0,0,0, 1,0,0,0, 0,0,0,0]).hashLookup (wsec .c32 SHT_HASH [0,0,0,0, 1,0,0,0, 0,0,0,0] 4) [0x62] {}) = 5 ∧
    faultKind (TQ.hashLookup (wtab SHT_HASH [0,0,0,0, 1,0,0,0, 0,0,0,0]) (wsec .c32 SHT_HASH [0,0,0,0, 1,0,0,0, 0,0,0,0] 4) [0x62] {}) = 0 := by
  constructor <;> decide

/-- the hash section `nbucket = 1, nchain = 2, bucket[0] = 1, chain = [0, 1]` : symbol 1 chains to itself -/
def wcycle : Bytes := [1,0,0,0, 2,0,0,0, 1,0,0,0, 0,0,0,0, 1,0,0,0]

/-- F7(c): a chain cycle: the unfixed walk for a name that is not in the table never leaves the loop (the
    model's fuel `nchain + 1` proves the cycle); the fixed walk stops after `nchain` steps -/
theorem sysv_cycle_witness :
    faultKind ((wtab SHT_HASH wcycle).hashLookup (wsec .c32 SHT_HASH wcycle 4) [0x7a] {}) = 7 ∧
    faultKind (TQ.hashLookup (wtab SHT_HASH wcycle) (wsec .c32 SHT_HASH wcycle 4) [0x7a] {}) = 0 := by
  constructor <;> decide

/-- F7(d): GNU hash header with `bloom_size = 0` -/
theorem gnu_bloom_zero_witness :
    faultKind ((wtab SHT_GNU_HASH [1,0,0,0, 1,0,0,0, 0,0,0,0, 0,0,0,0]).gnuLookup
      (wsec .c32 SHT_GNU_HASH [1,0,0,0, 1,0,0,0, 0,0,0,0, 0,0,0,0] 0) [0x62] {}) = 5 ∧
    faultKind (TQ.gnuLookup (wtab SHT_GNU_HASH [1,0,0,0, 1,0,0,0, 0,0,0,0, 0,0,0,0])
      (wsec .c32 SHT_GNU_HASH [1,0,0,0, 1,0,0,0, 0,0,0,0, 0,0,0,0] 0) [0x62] {}) = 0 := by
  constructor <;> decide

/-- `nbuckets = 0`, one bloom word with every bit set -/
def wgnu0 : Bytes := [0,0,0,0, 1,0,0,0, 1,0,0,0, 0,0,0,0, 255,255,255,255]

/-- F7(d): GNU hash header with `nbuckets = 0` behind a bloom filter that lets the name pass -/
theorem gnu_nbuckets_zero_witness :
    faultKind ((wtab SHT_GNU_HASH wgnu0).gnuLookup (wsec .c32 SHT_GNU_HASH wgnu0 0) [0x62] {}) = 5 ∧
    faultKind (TQ.gnuLookup (wtab SHT_GNU_HASH wgnu0) (wsec .c32 SHT_GNU_HASH wgnu0 0) [0x62] {}) = 0 := by
  constructor <;> decide

/-- one bucket pointing at symbol 1, one chain word without the end mark -/
def wgnuRun : Bytes := [1,0,0,0, 1,0,0,0, 1,0,0,0, 0,0,0,0, 255,255,255,255, 1,0,0,0, 2,0,0,0]

/-- F7(d): a GNU chain without end mark: the unfixed walk reads chain words behind the section -/
theorem gnu_walk_oob_witness :
    faultKind ((wtab SHT_GNU_HASH wgnuRun).gnuLookup (wsec .c32 SHT_GNU_HASH wgnuRun 0) [0x62] {}) = 2 ∧
    faultKind (TQ.gnuLookup (wtab SHT_GNU_HASH wgnuRun) (wsec .c32 SHT_GNU_HASH wgnuRun 0) [0x62] {}) = 0 := by
  constructor <;> decide

/-- F7(e): `arrange_local_symbols` on a symbol section (two entries announced) without data -/
theorem arrange_null_data_witness :
    faultKind (Arrange.arrange Arrange.noCallback (wnodata .c32 SHT_SYMTAB 32 16) ()) = 1 ∧
    faultKind (TQ.arrange Arrange.noCallback (wnodata .c32 SHT_SYMTAB 32 16) ()) = 0 := by
  constructor <;> decide

/-- F7(e): array `get_entry(0)` on a section without data -/
theorem array_null_data_witness :
    faultKind (Arr.getEntry .w4 .lsb (wnodata .c64 SHT_INIT_ARRAY 8 8) 0) = 1 ∧
    faultKind (TQ.arrGet .w4 .lsb (wnodata .c64 SHT_INIT_ARRAY 8 8) 0) = 0 := by
  constructor <;> decide

/-- F7(e): versym `get_entry(0)` on a section without data -/
theorem versym_null_data_witness :
    faultKind (Versym.getEntry (wnodata .c64 SHT_GNU_versym 4 2) (Versym.mk (wnodata .c64 SHT_GNU_versym 4 2)) 0) = 1 ∧
    faultKind (TQ.versymGet (wnodata .c64 SHT_GNU_versym 4 2) (Versym.mk (wnodata .c64 SHT_GNU_versym 4 2)) 0) = 0 := by
  constructor <;> decide

/-- F7(e): relocation `get_entry(0)` on a section without data: the getter behind its entry-size guard
    (C11's `getGeneric`) reads through the null pointer; `get_entry` after fixes/15 returns false -/
theorem reloc_null_data_witness :
    faultKind (Reloc.getEntry .lsb (wnodata .c32 SHT_REL 8 8) 0) = 1 ∧
    faultKind (TQ.relGet .lsb (wnodata .c32 SHT_REL 8 8) 0) = 0 := by
  constructor <;> decide

/-- one `Elfxx_Verneed` (vn_aux = 16, vn_next = 0x1000) and its `Elfxx_Vernaux` -/
def wneed : Bytes := [1,0, 1,0, 1,0,0,0, 16,0,0,0, 0,16,0,0,   0,0,0,0, 0,0, 2,0, 1,0,0,0, 0,0,0,0]

/-- F7(f): `DT_VERNEEDNUM = 2` but `vn_next` of the first record points 4 KiB behind the section -/
theorem verneed_oob_witness :
    faultKind (Verneed.getEntry .lsb (wsec .c64 SHT_GNU_verneed wneed 0) (some (wsec .c64 SHT_STRTAB [0, 0x61, 0] 0)) 2 1) = 2 ∧
    faultKind (TQ.needGet .lsb (wsec .c64 SHT_GNU_verneed wneed 0) (some (wsec .c64 SHT_STRTAB [0, 0x61, 0] 0)) 2 1) = 0 := by
  constructor <;> decide

/-- F7(f): the file-name offset of the record is outside the string table: `std::string = nullptr` -/
theorem verneed_null_string_witness :
    faultKind (Verneed.getEntry .lsb (wsec .c64 SHT_GNU_verneed wneed 0) (some (wsec .c64 SHT_STRTAB [0] 0)) 2 0) = 1 ∧
    faultKind (TQ.needGet .lsb (wsec .c64 SHT_GNU_verneed wneed 0) (some (wsec .c64 SHT_STRTAB [0] 0)) 2 0) = 0 := by
  constructor <;> decide

/-- one `Elfxx_Verdef` whose `vd_aux` points behind the section -/
def wdef : Bytes := [1,0, 1,0, 1,0, 1,0, 0,0,0,0, 0,16,0,0, 0,0,0,0,   1,0,0,0, 0,0,0,0]

/-- F7(f): version definition with `vd_aux` outside the section -/
theorem verdef_oob_witness :
    faultKind (Verdef.getEntry .lsb (wsec .c64 SHT_GNU_verdef wdef 0) (some (wsec .c64 SHT_STRTAB [0, 0x61, 0] 0)) 1 0) = 2 ∧
    faultKind (TQ.defGet .lsb (wsec .c64 SHT_GNU_verdef wdef 0) (some (wsec .c64 SHT_STRTAB [0, 0x61, 0] 0)) 1 0) = 0 := by
  constructor <;> decide

/-! ### non-vacuity: concrete states meet the hypotheses -/

example : Sec (wsec .c32 SHT_HASH wcycle 4) := ⟨by decide, fun d hd => by cases hd; decide⟩
example : Sec (wnodata .c32 SHT_SYMTAB 32 16) := ⟨by decide, fun d hd => by cases hd⟩
example : Small (wsec .c32 SHT_HASH wcycle 4) := fun d hd => by cases hd; decide
example : TabOk (wtab SHT_HASH wcycle) :=
  ⟨⟨by decide, fun d hd => by cases hd; decide⟩, fun b hb => by cases hb; exact ⟨by decide, fun d hd => by cases hd; decide⟩,
   fun b hb => by cases hb; exact ⟨by decide, fun d hd => by cases hd; decide⟩⟩

/- the loaded object of C01's 208-byte example image meets the hypotheses of `queries_total`, and
   queries on its string table section (as a relocation / symbol table, any index) return -/
set_option maxRecDepth 1000000 in
example :
    (load {} { data := C01.img208 } true).toOption.map (fun r =>
      faultKind (TQ.runQuery r.obj (.relGetResolved 1 0))) = some 0 := by decide
set_option maxRecDepth 1000000 in
example :
    (load {} { data := C01.img208 } true).toOption.map (fun r =>
      faultKind (TQ.runQuery r.obj (.symByName 1 [0x61]))) = some 0 := by decide
set_option maxRecDepth 100000 in
example : C01.img208.length < 4294967296 := by decide

/-! ### non-vacuity of the sequence theorems: queries after `arrange` / `swap` -/

/-- an ELF64/LSB object whose section 1 is C10's three-symbol table (null, a GLOBAL, a LOCAL: `arrange` has to
    exchange records 1 and 2) and whose section 2 is its `Elf64_Rela` table (two entries naming symbols 1 and 2,
    `sh_link = 1`: the callback rewrites both); section 0 is the null section without data -/
def exObj : Obj :=
  { cls := .c64, enc := .lsb,
    secs := [wnodata .c64 SHT_NULL 0 0, { C10.exSec with index := 1 }, { C10.exRel with index := 2, link := 1 }] }

/-- what the examples look at in a result -/
def outNat : TQ.Out → List Nat
  | .rel (some e) => [e.offset.toNat, e.symbol.toNat]
  | .arranged r => [r.toNat]
  | .byValue r => [if r.1 then 1 else 0, r.2.2.bind.toNat]
  | .resolved r => [if r.ret then 1 else 0, r.symValue.toNat]
  | .swapped => [99]
  | _ => []

/- the hypotheses of `swap_preserves_sec` / `arrange_preserves_sec` / `runQuery_qinv` / `runQueries_qinv` -/
example : Sec C10.exSec ∧ Small C10.exSec :=
  ⟨⟨by decide, fun d hd => by cases hd; decide⟩, fun d hd => by cases hd; decide⟩
example : ∀ r ∈ [C10.exRel], Sec r ∧ Small r := by
  intro r hr
  simp only [List.mem_cons, List.not_mem_nil, or_false] at hr
  subst hr
  exact ⟨⟨by decide, fun d hd => by cases hd; decide⟩, fun d hd => by cases hd; decide⟩
example : QInv exObj := ⟨by decide, fun b hb d hd => by
  simp only [exObj, List.mem_cons, List.not_mem_nil, or_false] at hb
  rcases hb with rfl | rfl | rfl <;> cases hd <;> decide⟩

/- a sequence with queries AFTER the mutating ones: entry 0 names symbol 1; `arrange 1` returns 2 (records 1 and 2
   exchanged); now entry 0 names symbol 2 and entry 1 symbol 1; the symbol with value 0x0707… is found (GLOBAL) at its
   new place; `swap 2 1 2` undoes the renaming; the resolved read of entry 0 finds symbol 1 = now the LOCAL (value
   0x0909…); arranging again, arranging the RELOCATION section as if it were a symbol table, swapping in the SYMBOL
   section as if it were a relocation table, a lookup by name, another arrange: everything returns -/
set_option maxRecDepth 1000000 in
example :
    (TQ.runQueries exObj [.relGet 2 0, .arrange 1, .relGet 2 0, .relGet 2 1, .symByValue 1 0x0707070707070707,
       .swap 2 1 2, .relGet 2 0, .relGetResolved 2 0, .arrange 1, .arrange 2, .swap 1 0 1, .symByName 1 [0x61],
       .arrange 1]).toOption.map (fun r => r.2.map outNat)
    = some [[16, 1], [2], [16, 2], [32, 1], [1, 1], [99], [16, 1], [1, 651061555542690057], [2], [2], [99], [], [2]] := by
  decide

/- `queries_any_seq_total` on C01's 208-byte image, loaded lazily: `arrange` and `swap` on the string table section
   (as a symbol / relocation table), then lookups on the same section, then `arrange` on the null section and on a
   section that does not exist -/
set_option maxRecDepth 1000000 in
example :
    (load {} { data := C01.img208 } true).toOption.map (fun r =>
      (TQ.runQueries r.obj [.arrange 1, .swap 1 0 1, .symByName 1 [0x61], .relGetResolved 1 0, .arrange 0,
        .arrange 7]).toOption.map (fun r => r.2.map outNat))
    = some (some [[1], [99], [], [0, 0], [0], []]) := by decide

/- … and with the other things an op line does in between (on this object there is no `.dynamic`: the version
   accessors' constructors find the count 0) -/
set_option maxRecDepth 1000000 in
example :
    (runSteps exObj [.getData 2, .query (.arrange 1), .verCount true, .getData 1, .query (.relGet 2 0),
       .verCount false, .query (.swap 2 1 2), .getData 9]).toOption.map (fun o => o.secs.map (·.info.toNat))
    = some [0, 2, 0] := by decide

end C18
end ElfioVerif
