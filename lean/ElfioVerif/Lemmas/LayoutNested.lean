/-
Nested segments in `write_segment_data` (C04): a segment all of whose members have been generated
by an enclosing segment.  Its turn does not move anything; it re-derives the running sizes from the
members' offsets (`wsd_gap_generated = (sec_offset − seg_start_pos) − segment_filesize`).  The
arithmetic is exact when no member starts below the running file end (`wsdStepNested`: members in
file order) — then every member lies inside the segment's file range and the memory size covers the
file span of every member.
-/
import ElfioVerif.Lemmas.Layout
namespace ElfioVerif
open Gen

theorem list_set_same {α} (l : List α) (i : Nat) (a : α) (h : l[i]? = some a) : l.set i a = l := by
  apply List.ext_getElem?
  intro j
  rw [List.getElem?_set]
  by_cases hij : i = j
  · subst hij
    have hlt : i < l.length := by
      rcases Nat.lt_or_ge i l.length with h' | h'
      · exact h'
      · rw [List.getElem?_eq_none h'] at h; cases h
    rw [List.getElem?_eq_getElem hlt] at h
    simp only [Option.some.injEq] at h
    simp [hlt, h]
  · simp [hij]

/-- the gap of an already generated member -/
theorem wsdGap_generated (g : Seg) (ss pos file : BitVec 64) (sec : SecBuf) :
    wsdGap g ss pos file sec true = some (wsd_gap_generated sec.offset ss file) := by
  simp [wsdGap, wsd_addr_branch, wsd_align_branch]

theorem wsd_gap_generated_toNat (off ss file : BitVec 64) (h : ss.toNat + file.toNat ≤ off.toNat) :
    (wsd_gap_generated off ss file).toNat = off.toNat - ss.toNat - file.toNat := by
  unfold wsd_gap_generated; bv_omega

/-- one member of a nested segment: it has been generated before, and (unless SHT_NULL-typed) it
    does not start below the running file end `seg_start_pos + segment_filesize` — i.e. the
    subtraction in `wsd_gap_generated` does not wrap (members listed in file order) -/
def wsdStepNested (segStart : BitVec 64) (st : WsdSt) (idx : BitVec 16) : Bool :=
  match st.lay.secs[idx.toNat]?, st.lay.gen[idx.toNat]? with
  | some sec, some true =>
    wsd_is_null sec.stype || decide (segStart.toNat + st.file.toNat ≤ sec.offset.toNat)
  | _, _ => false

theorem wsdStep_nested (c : Cls) (g : Seg) (ss : BitVec 64) (st st' : WsdSt) (idx : BitVec 16)
    (hfm : st.file.toNat ≤ st.mem.toNat)
    (hdom : wsdStepDom c g ss st idx = true) (hnest : wsdStepNested ss st idx = true)
    (h : wsdStep c g ss st idx = .ok (some st')) :
    st'.lay = st.lay ∧ st'.file.toNat ≤ st'.mem.toNat ∧ st.file.toNat ≤ st'.file.toNat ∧
    st.mem.toNat ≤ st'.mem.toNat ∧
    ∃ sec, st.lay.secs[idx.toNat]? = some sec ∧ (wsd_is_null sec.stype = false →
      ss.toNat + st.file.toNat ≤ sec.offset.toNat ∧
      (wsd_counts_file sec.stype = true → sec.offset.toNat + sec.size.toNat ≤ ss.toNat + st'.file.toNat) ∧
      sec.offset.toNat - ss.toNat + sec.size.toNat ≤ st'.mem.toNat) := by
  obtain ⟨sec, generated, hsec, hgen, hcases⟩ := wsdStep_cases c g ss st st' idx h
  unfold wsdStepNested at hnest
  unfold wsdStepDom at hdom
  rw [hsec, hgen] at hnest hdom
  cases generated with
  | false => exact absurd hnest (by simp)
  | true =>
    simp only [Bool.or_eq_true, decide_eq_true_eq] at hnest
    rcases hcases with ⟨hnull, rfl⟩ | ⟨hnull, gap, hgap, hrest⟩
    · refine ⟨?_, hfm, Nat.le_refl _, Nat.le_refl _, sec, hsec, fun hn => ?_⟩
      · simp only
        rw [list_set_same _ _ _ hgen]
      · rw [hnull] at hn; cases hn
    · rcases hrest with ⟨-, rfl⟩ | ⟨hf, -⟩
      · have hord : ss.toNat + st.file.toNat ≤ sec.offset.toNat := by
          rcases hnest with hn | hn
          · rw [hnull] at hn; cases hn
          · exact hn
        rw [wsdGap_generated] at hgap
        simp only [Option.some.injEq] at hgap
        subst hgap
        simp only [hnull, Bool.false_eq_true, if_false, wsdGap_generated, Bool.and_eq_true, decide_eq_true_eq,
          Bool.true_or] at hdom
        obtain ⟨⟨hcm, hmw⟩, -⟩ := hdom
        have hg := wsd_gap_generated_toNat sec.offset ss st.file hord
        rw [hg] at hmw
        have hmem := wsd_mem_add_toNat st.mem sec.size _ (by rw [hg]; exact hmw)
        rw [hg] at hmem
        simp only [hcm, if_true]
        refine ⟨trivial, ?_, ?_, by rw [hmem]; omega, sec, hsec, fun _ => ⟨hord, ?_, by rw [hmem]; omega⟩⟩
        · by_cases hcf : wsd_counts_file sec.stype = true
          · simp only [hcf, if_true]
            have hfile := wsd_file_add_toNat st.file st.mem sec.size _ hfm (by rw [hg]; exact hmw)
            rw [hfile, hmem, hg]; omega
          · have hcf' : wsd_counts_file sec.stype = false := by simpa using hcf
            simp only [hcf', Bool.false_eq_true, if_false]
            rw [hmem]; omega
        · by_cases hcf : wsd_counts_file sec.stype = true
          · simp only [hcf, if_true]
            have hfile := wsd_file_add_toNat st.file st.mem sec.size _ hfm (by rw [hg]; exact hmw)
            rw [hfile]; omega
          · have hcf' : wsd_counts_file sec.stype = false := by simpa using hcf
            simp only [hcf', Bool.false_eq_true, if_false]
            exact Nat.le_refl _
        · intro hcf
          simp only [hcf, if_true]
          have hfile := wsd_file_add_toNat st.file st.mem sec.size _ hfm (by rw [hg]; exact hmw)
          rw [hfile, hg]; omega
      · cases hf

/-- `write_segment_data` over a nested segment: the layout state is unchanged; the running file size
    stays below the running memory size; every (non-NULL) member starts at or after the segment
    start, ends (if it occupies file space) inside the final file size, and its file span is covered
    by the final memory size -/
theorem wsdLoop_nested (c : Cls) (g : Seg) (ss : BitVec 64) (l : List (BitVec 16)) (st st' : WsdSt)
    (hfm : st.file.toNat ≤ st.mem.toNat)
    (hdom : wsdLoopAll (wsdStepDom c g ss) c g ss l st = true)
    (hnest : wsdLoopAll (fun st idx => wsdStepNested ss st idx) c g ss l st = true)
    (h : wsdLoop c g ss l st = .ok (some st')) :
    st'.lay = st.lay ∧ st'.file.toNat ≤ st'.mem.toNat ∧ st.file.toNat ≤ st'.file.toNat ∧
    st.mem.toNat ≤ st'.mem.toNat ∧
    ∀ idx ∈ l, ∃ sec, st.lay.secs[idx.toNat]? = some sec ∧ st.lay.gen[idx.toNat]? = some true ∧
      (wsd_is_null sec.stype = false →
        ss.toNat + st.file.toNat ≤ sec.offset.toNat ∧
        (wsd_counts_file sec.stype = true → sec.offset.toNat + sec.size.toNat ≤ ss.toNat + st'.file.toNat) ∧
        sec.offset.toNat - ss.toNat + sec.size.toNat ≤ st'.mem.toNat) := by
  induction l generalizing st with
  | nil =>
    simp only [wsdLoop, pure, Except.pure, Except.ok.injEq, Option.some.injEq] at h
    subst h
    exact ⟨rfl, hfm, Nat.le_refl _, Nat.le_refl _, fun idx hm => nomatch hm⟩
  | cons i rest ih =>
    unfold wsdLoop at h
    unfold wsdLoopAll at hdom hnest
    cases hs : wsdStep c g ss st i with
    | error e => rw [hs] at h; simp [bind, Except.bind] at h
    | ok r =>
      rw [hs] at h hdom hnest
      cases r with
      | none => simp [bind, Except.bind, pure, Except.pure] at h
      | some st1 =>
        simp only [bind, Except.bind, Bool.and_eq_true] at h hdom hnest
        obtain ⟨e1, fm1, f1, m1, sec, hsec, k1⟩ := wsdStep_nested c g ss st st1 i hfm hdom.1 hnest.1 hs
        obtain ⟨e2, fm2, f2, m2, k2⟩ := ih st1 fm1 hdom.2 hnest.2 h
        have hgen1 : st.lay.gen[i.toNat]? = some true := by
          have := hnest.1
          unfold wsdStepNested at this
          rw [hsec] at this
          cases hg : st.lay.gen[i.toNat]? with
          | none => rw [hg] at this; cases this
          | some b => cases b with
            | true => rfl
            | false => rw [hg] at this; cases this
        refine ⟨e2.trans e1, fm2, Nat.le_trans f1 f2, Nat.le_trans m1 m2, ?_⟩
        intro idx hm
        rcases List.mem_cons.1 hm with rfl | hm
        · refine ⟨sec, hsec, hgen1, fun hn => ?_⟩
          obtain ⟨a1, a2, a3⟩ := k1 hn
          exact ⟨a1, fun hcf => by have := a2 hcf; omega, by omega⟩
        · obtain ⟨sec2, hsec2, hgen2, k⟩ := k2 idx hm
          rw [e1] at hsec2 hgen2
          refine ⟨sec2, hsec2, hgen2, fun hn => ?_⟩
          obtain ⟨a1, a2, a3⟩ := k hn
          exact ⟨by omega, a2, a3⟩

/-! ### one nested segment -/

/-- the segment starts at its (already generated) first member and every member's step satisfies
    `wsdStepNested` — "nested, members in file order" -/
def segNestedB (c : Cls) (hdrPhoff : BitVec 64) (phentsize phnum : BitVec 16) (lay : Layout) (g : Seg) : Bool :=
  segNestedStartB lay g &&
    match segFirstGen lay g with
    | .ok fg =>
      match segInit c hdrPhoff phentsize phnum lay g fg with
      | .ok r =>
        wsdLoopAll (fun st idx => wsdStepNested r.2.1 st idx) c g r.2.1 g.secs { lay := r.1, mem := r.2.2.1, file := r.2.2.2 }
      | _ => true
    | _ => true

/-- One nested segment on the writer domain (`segDom false false`: members count towards the memory
    size, which neither wraps nor exceeds the class's field).  Nothing is placed (`lay' = lay`); the
    segment starts at its first member's offset; every member that is not SHT_NULL-typed starts at
    or after the segment start, ends — if it occupies file space — inside `[p_offset, p_offset +
    p_filesz)`, and `p_memsz` covers its file span `(sh_offset − p_offset) + sh_size`. -/
theorem layoutSegment_nested (c : Cls) (hdrPhoff : BitVec 64) (phentsize phnum : BitVec 16)
    (lay lay' : Layout) (g g' : Seg)
    (hnw : segNW c hdrPhoff phentsize phnum lay g = true)
    (hdom : segDom false false c hdrPhoff phentsize phnum lay g = true)
    (hns : segNestedB c hdrPhoff phentsize phnum lay g = true)
    (h : layoutSegment c hdrPhoff phentsize phnum lay g = .ok (some (lay', g'))) :
    lay' = lay ∧
    ∀ idx ∈ g.secs, ∃ sec, lay.secs[idx.toNat]? = some sec ∧ lay.Gen idx.toNat ∧
      (sec.stype ≠ BitVec.ofNat 32 SHT_NULL →
        g'.offset.toNat ≤ sec.offset.toNat ∧
        (sec.stype ≠ BitVec.ofNat 32 SHT_NOBITS → sec.endN ≤ g'.offset.toNat + g'.filesz.toNat) ∧
        sec.offset.toNat - g'.offset.toNat + sec.size.toNat ≤ g'.memsz.toNat) := by
  obtain ⟨fg, r, st, hfg, hin, hloop, rfl, rfl⟩ := layoutSegment_parts c hdrPhoff phentsize phnum lay lay' g g' h
  unfold segNestedB at hns
  simp only [Bool.and_eq_true] at hns
  obtain ⟨hstart, hall⟩ := hns
  unfold segNW at hnw
  unfold segDom at hdom
  rw [hfg] at hnw hdom hall
  simp only at hnw hdom hall
  rw [hin] at hnw hdom hall
  simp only [hloop, Bool.and_eq_true, decide_eq_true_eq, Bool.or_eq_true, Bool.not_eq_true'] at hnw hdom hall
  obtain ⟨⟨-, hsfit⟩, -⟩ := hnw
  obtain ⟨⟨⟨hd1, -⟩, -⟩, hmfit⟩ := hdom
  have hsz := segInit_sizes c hdrPhoff phentsize phnum lay g fg r hin
  -- in the nested-start branch the state is untouched
  have hr1 : r.1 = lay := by
    unfold segNestedStartB at hstart
    simp only [Bool.and_eq_true, Bool.not_eq_true'] at hstart
    obtain ⟨⟨h1, h2⟩, h3⟩ := hstart
    cases hh : g.secs.head? with
    | none => rw [hh] at h3; exact nomatch h3
    | some f =>
      rw [hh] at h3
      have hgen : lay.gen[f.toNat]? = some true := by simpa using h3
      have hlen : g.secs.length > 0 := by
        cases hs : g.secs with
        | nil => rw [hs] at hh; exact nomatch hh
        | cons a b => simp
      have hfg' : fg = true := by
        unfold segFirstGen at hfg
        rw [hh] at hfg; simp only at hfg; rw [hgen] at hfg
        simp only [pure, Except.pure, Except.ok.injEq] at hfg
        exact hfg.symm
      subst hfg'
      unfold segInit at hin
      simp only [h1, h2, Bool.false_eq_true, if_false, hlen, decide_true, Bool.not_true, Bool.and_false,
        if_true, hh] at hin
      cases hs : lay.secs[f.toNat]? with
      | none => rw [hs] at hin; simp [throw, throwThe, MonadExceptOf.throw] at hin
      | some s =>
        rw [hs] at hin
        simp only [pure, Except.pure, Except.ok.injEq] at hin
        rw [← hin]
  obtain ⟨e, fm, -, -, key⟩ := wsdLoop_nested c g r.2.1 g.secs _ st
    (by simp only; rw [hsz]; exact Nat.le_refl _) hd1 hall hloop
  simp only at e key
  obtain ⟨hoff, hfs, hms, -, -, -, -, -⟩ := segFinish_fields c g r.2.1 st
  have hffit : fitsB c st.file = true := fitsB_mono c _ _ fm hmfit
  have hmem : st.mem.toNat ≤ (if lseg_memsz_lt g.memsz st.mem then truncA c st.mem else g.memsz).toNat := by
    split
    · rw [truncA_of_fits c _ hmfit]; exact Nat.le_refl _
    · rename_i hlt
      simp only [lseg_memsz_lt, BitVec.ult, decide_eq_true_eq] at hlt
      omega
  refine ⟨by rw [e, hr1], ?_⟩
  intro idx hm
  obtain ⟨sec, hsec, hgen, k⟩ := key idx hm
  rw [hr1] at hsec hgen
  refine ⟨sec, hsec, hgen, fun hnn => ?_⟩
  have hn : wsd_is_null sec.stype = false := by
    simp only [wsd_is_null, beq_eq_false_iff_ne, ne_eq]
    exact fun e' => hnn e'.symm
  obtain ⟨a1, a2, a3⟩ := k hn
  rw [hoff, hfs, hms, truncA_of_fits c _ hsfit, truncA_of_fits c _ hffit]
  refine ⟨by omega, fun hnb => ?_, by omega⟩
  have hcf : wsd_counts_file sec.stype = true := by
    simp only [wsd_counts_file, bne_iff_ne, ne_eq]
    exact fun e' => hnb e'.symm
  have := a2 hcf
  unfold SecBuf.endN
  omega

/-! ### the nested segments of the final object -/

/-- Writer-domain conditions at the turn of every selected *nested* segment: `segDom false false`
    (members count towards the memory size, which neither wraps nor exceeds the class's field) and
    `segNestedB` (starts at its generated first member; all members generated, in file order). -/
def layoutNestedB (sel : Nat → Bool) (o : Obj) (h : Bytes) : Bool :=
  match layoutOf o h with
  | .ok (some res) =>
    segsAllB (fun lay g => !sel g.index ||
        segDom false false o.cls (Hdr.e_phoff o.cls o.enc res.hdr0) (Hdr.e_phentsize o.cls o.enc res.hdr0)
          (Hdr.e_phnum o.cls o.enc res.hdr0) lay g &&
        segNestedB o.cls (Hdr.e_phoff o.cls o.enc res.hdr0) (Hdr.e_phentsize o.cls o.enc res.hdr0)
          (Hdr.e_phnum o.cls o.enc res.hdr0) lay g)
      o.cls (Hdr.e_phoff o.cls o.enc res.hdr0) (Hdr.e_phentsize o.cls o.enc res.hdr0)
      (Hdr.e_phnum o.cls o.enc res.hdr0) res.ordered (lay0Of o res.pos0)
  | _ => true

/-- `layoutNestedB` implies the "starts at its first member" condition of `final_nested_start` -/
theorem layoutNestedB_start (sel : Nat → Bool) (o : Obj) (h : Bytes) (hn : layoutNestedB sel o h = true) :
    layoutSelB segNestedStartB sel o h = true := by
  unfold layoutNestedB at hn
  unfold layoutSelB
  cases hl : layoutOf o h with
  | error e => rfl
  | ok r =>
    cases r with
    | none => rfl
    | some res =>
      rw [hl] at hn
      simp only at hn ⊢
      generalize res.ordered = l at hn ⊢
      generalize lay0Of o res.pos0 = lay at hn ⊢
      induction l generalizing lay with
      | nil => rfl
      | cons g rest ih =>
        unfold segsAllB at hn ⊢
        simp only [Bool.and_eq_true] at hn ⊢
        refine ⟨?_, ?_⟩
        · have := hn.1
          simp only [Bool.or_eq_true, Bool.and_eq_true, Bool.not_eq_true'] at this ⊢
          rcases this with h1 | ⟨-, h2⟩
          · exact Or.inl h1
          · unfold segNestedB at h2
            simp only [Bool.and_eq_true] at h2
            exact Or.inr h2.1
        · cases hs : layoutSegment o.cls (Hdr.e_phoff o.cls o.enc res.hdr0) (Hdr.e_phentsize o.cls o.enc res.hdr0)
              (Hdr.e_phnum o.cls o.enc res.hdr0) lay g with
          | error e => rfl
          | ok r2 =>
            cases r2 with
            | none => rfl
            | some p =>
              have h2 := hn.2
              rw [hs] at h2
              exact ih _ h2

/-- the nested, selected segments of the final object: every member that is not SHT_NULL-typed
    starts at or after `p_offset`, ends (if it occupies file space) at or before `p_offset +
    p_filesz`, and `p_memsz` covers its file span -/
theorem final_nested_members (o : Obj) (h : Bytes) (res : LayoutRes) (hl : layoutOf o h = .ok (some res))
    (hnw : layoutNW o h = true) (hn : o.secs.length < 65536)
    (h0 : ∀ (i : Nat) (s : SecBuf), o.secs[i]? = some s → s.Occ → s.index ≠ 0)
    (hnd : (o.segs.map (·.index)).Nodup) (sel : Nat → Bool)
    (hnest : layoutNestedB sel o h = true)
    (g' : Seg) (hg : g' ∈ res.segs) (hsel : sel g'.index = true) :
    ∀ idx ∈ g'.secs, ∀ (s : SecBuf), res.secs[idx.toNat]? = some s → s.stype ≠ BitVec.ofNat 32 SHT_NULL →
      g'.offset.toNat ≤ s.offset.toNat ∧
      (s.stype ≠ BitVec.ofNat 32 SHT_NOBITS → s.endN ≤ g'.offset.toNat + g'.filesz.toNat) ∧
      s.offset.toNat - g'.offset.toNat + s.size.toNat ≤ g'.memsz.toNat := by
  obtain ⟨t, ht, rfl⟩ := final_segs_turn o h res hl hnw hn h0 hnd g' hg
  obtain ⟨-, -, e3⟩ := layoutOf_trace o h res hl hnw hn h0
  obtain ⟨f1, f2, f3, f4, f5, f6⟩ := e3 t ht
  obtain ⟨hmarks, hsecs, hidx, -, -, -⟩ := layoutSegment_marks _ _ _ _ _ _ _ _ _ f3 f2 f1
  unfold layoutNestedB at hnest
  rw [hl] at hnest
  simp only at hnest
  have hturn := segsAllB_trace _ _ _ _ _ _ _ hnest t ht
  rw [hidx] at hsel
  simp only [hsel, Bool.not_true, Bool.false_or, Bool.and_eq_true] at hturn
  obtain ⟨elay, key⟩ := layoutSegment_nested _ _ _ _ t.lay t.lay' t.g t.g' f2 hturn.1 hturn.2 f1
  intro idx hidm s hs hnn
  rw [hsecs] at hidm
  obtain ⟨sec, hsec, hgen, k⟩ := key idx hidm
  have hw := withoutSegment_false_of_mem res.segs t.g' hg idx (by rw [hsecs]; exact hidm)
  have hs' := final_of_turn o h res hl hnw t f5 idx.toNat s hs hw (by rw [elay]; exact hgen)
  rw [elay, hsec] at hs'
  simp only [Option.some.injEq] at hs'
  subst hs'
  exact k hnn

/-! ### congruence is inherited through equidistance -/

/-- if `x`, `y` are at the same (64-bit) distance from `p`, `q`, and `p ≡ q (mod A)` where `A`
    divides 2^64 (a power of two), then `x ≡ y` modulo every divisor `m` of `A` -/
theorem congr_of_equidistant (x y p q : BitVec 64) (A m : Nat) (hA : 18446744073709551616 % A = 0)
    (hm : A % m = 0) (h : x - p = y - q) (hc : p.toNat % A = q.toNat % A) : x.toNat % m = y.toNat % m := by
  obtain ⟨d, rfl, rfl⟩ : ∃ d, x = p + d ∧ y = q + d := ⟨x - p, by bv_omega, by rw [h]; bv_omega⟩
  have dA : A ∣ 18446744073709551616 := Nat.dvd_of_mod_eq_zero hA
  have dm : m ∣ A := Nat.dvd_of_mod_eq_zero hm
  have e : ∀ (a : BitVec 64), (a + d).toNat % A = (a.toNat + d.toNat) % A := by
    intro a
    simp only [BitVec.toNat_add, Nat.reducePow]
    exact Nat.mod_mod_of_dvd _ dA
  have hmid : (p + d).toNat % A = (q + d).toNat % A := by
    rw [e, e, Nat.add_mod, hc, ← Nat.add_mod]
  rw [← Nat.mod_mod_of_dvd (p + d).toNat dm, ← Nat.mod_mod_of_dvd (q + d).toNat dm, hmid]

/-- a proper divisor of 2^64 is at most 2^63 -/
theorem le_half_of_dvd (A : Nat) (hA : 18446744073709551616 % A = 0) (hlt : A < 18446744073709551616) :
    A ≤ 9223372036854775808 := by
  obtain ⟨k, hk⟩ := Nat.dvd_of_mod_eq_zero hA
  have hk2 : 2 ≤ k := by
    rcases Nat.lt_or_ge k 2 with h | h
    · have : A * k ≤ A * 1 := Nat.mul_le_mul_left _ (by omega)
      omega
    · exact h
  have : A * 2 ≤ A * k := Nat.mul_le_mul_left _ hk2
  omega

end ElfioVerif
