/-
`relocation_section_accessor::swap_symbols` on the bytes of a REL/RELA section
(Model/Arrange.lean) rewrites exactly the symbol index of every entry through the transposition
of `first` and `second`, and leaves offset, type and addend alone.
-/
import ElfioVerif.Lemmas.ArrangeBytes
namespace ElfioVerif
open Gen

/-! ### field codec round trips -/

def FieldW (n : Nat) : Prop := n = 1 ∨ n = 2 ∨ n = 4 ∨ n = 8

theorem wrField_length_arr (e : Enc) (n x : Nat) : (wrField e n x).length = n := by
  have hl : hostIsLittle = true := rfl
  simp [wrField, hostEncode, hl]

theorem rdField_wrField (e : Enc) (n x : Nat) (hn : FieldW n) :
    rdField e (wrField e n x) = x % 2 ^ (8 * n) := by
  rw [rdField_eq e _ (by rw [wrField_length_arr]; exact hn), wrField_eq e n x hn, decode_encodeInt]

theorem wrField_rdField (e : Enc) (bs : Bytes) (h : FieldW bs.length) :
    wrField e bs.length (rdField e bs) = bs := by
  rw [wrField_eq e _ _ h, rdField_eq e bs h, encode_decodeInt]

theorem decodeInt_lt_arr (e : Enc) (bs : Bytes) : decodeInt e bs < 2 ^ (8 * bs.length) := by
  cases e
  · exact leDecode_lt bs
  · have := leDecode_lt bs.reverse
    simpa [decodeInt, beDecode] using this

theorem rdField_lt (e : Enc) (bs : Bytes) (h : FieldW bs.length) :
    rdField e bs < 2 ^ (8 * bs.length) := by
  rw [rdField_eq e bs h]; exact decodeInt_lt_arr e bs

/-! ### byte strings -/

theorem wr_slice_self (d : Bytes) (p len : Nat) (h : p + len ≤ d.length) :
    wr d p (slice d p len) = d := by
  have hl : (slice d p len).length = len := by rw [slice_length]; omega
  apply List.ext_getElem?
  intro i
  rw [wr_getElem? _ _ _ _ (by omega), hl, slice_getElem?]
  by_cases h1 : i < p
  · simp [h1]
  · by_cases h2 : i < p + len
    · rw [if_neg h1, if_pos h2, if_pos (by omega)]
      congr 1; omega
    · rw [if_neg h1, if_neg h2]

theorem slice_slice_arr (d : Bytes) (p len off w : Nat) (h : off + w ≤ len) :
    slice (slice d p len) off w = slice d (p + off) w := by
  apply List.ext_getElem?
  intro i
  simp only [slice_getElem?]
  by_cases h1 : i < w
  · rw [if_pos h1, if_pos h1, if_pos (by omega)]
    congr 1; omega
  · rw [if_neg h1, if_neg h1]

namespace Arrange

/-! ### what the generated expressions of one record type mean -/

/-- decoding of one record's bytes, as `generic_get_entry_rel/rela<T>` does it -/
def decodeRec (e : Enc) (k : RelSites) (rec : Bytes) : RelEntry :=
  let tmp : BitVec 64 := BitVec.ofNat 64 (rdField e (slice rec k.infoOff k.infoW))
  { offset := BitVec.ofNat 64 (rdField e (slice rec k.offOff k.offW)),
    symbol := k.rSym tmp, rtype := k.rType tmp,
    addend := match k.addend with
      | none => 0
      | some (ao, aw) => sext64 aw (rdField e (slice rec ao aw)) }

/-- layout and packing facts; `lim` = number of symbol indices `r_info` can hold -/
structure RelSitesOK (k : RelSites) (lim : Nat) : Prop where
  offW : k.offW = 4 ∨ k.offW = 8
  infoW : k.infoW = 4 ∨ k.infoW = 8
  lay1 : k.offOff + k.offW ≤ k.infoOff
  lay2 : k.infoOff + k.infoW ≤ k.recSize
  lay3 : ∀ ao aw, k.addend = some (ao, aw) →
    (aw = 4 ∨ aw = 8) ∧ k.infoOff + k.infoW ≤ ao ∧ ao + aw ≤ k.recSize
  small : ∀ es, k.small es = decide (es.toNat < k.recSize)
  getOff : ∀ i es, k.getOff i es = i * es
  setOff : ∀ i es, k.setOff i es = i * es
  info_lt : ∀ s t, k.info s t < 2 ^ (8 * k.infoW)
  pack_sym : ∀ s t, s.toNat < lim → k.rSym (BitVec.ofNat 64 (k.info s t)) = s
  pack_type : ∀ s tmp, k.rType (BitVec.ofNat 64 (k.info s (k.rType tmp))) = k.rType tmp
  trunc_off : ∀ x, x < 2 ^ (8 * k.offW) → k.truncOffset (BitVec.ofNat 64 x) = x
  trunc_add : ∀ ao aw, k.addend = some (ao, aw) → ∀ y, y < 2 ^ (8 * aw) →
    k.truncAddend (sext64 aw y) = y
  lim_le : lim ≤ 4294967296

theorem ult_of_lt24 (s : BitVec 32) (h : s.toNat < 16777216) : BitVec.ult s 16777216#32 = true := by
  simp [BitVec.ult, h]

theorem rel32_ok : RelSitesOK rel32 16777216 where
  offW := Or.inl rfl
  infoW := Or.inl rfl
  lay1 := by decide
  lay2 := by decide
  lay3 := by intro ao aw h; cases h
  small := by
    intro es
    show rsw_rel32_small es = decide (es.toNat < 8)
    simp [rsw_rel32_small, BitVec.ult, sizeof_Elf32_Rel]
  getOff := by intro i es; rfl
  setOff := by intro i es; rfl
  info_lt := by intro s t; exact (rsw_rel32_info s t).isLt
  pack_sym := by
    intro s t h
    show rel32_r_sym (BitVec.ofNat 64 (rsw_rel32_info s t).toNat) = s
    rw [BitVec.ofNat_toNat]
    exact rel32_sym_info s t (ult_of_lt24 s h)
  pack_type := by
    intro s tmp
    show rel32_r_type (BitVec.ofNat 64 (rsw_rel32_info s (rel32_r_type tmp)).toNat) = _
    rw [BitVec.ofNat_toNat]
    exact rel32_type_info s tmp
  trunc_off := by
    intro x hx
    show (rsw_rel32_trunc_offset (BitVec.ofNat 64 x)).toNat = x
    simp only [rsw_rel32_trunc_offset, BitVec.toNat_setWidth, BitVec.toNat_ofNat, Nat.reducePow,
      show rel32.offW = 4 from rfl, Nat.reduceMul] at *
    omega
  trunc_add := by intro ao aw h; cases h
  lim_le := by decide

theorem rela32_ok : RelSitesOK rela32 16777216 where
  offW := Or.inl rfl
  infoW := Or.inl rfl
  lay1 := by decide
  lay2 := by decide
  lay3 := by
    intro ao aw h
    simp only [rela32, Option.some.injEq, Prod.mk.injEq] at h
    obtain ⟨rfl, rfl⟩ := h; decide
  small := by
    intro es
    show rsw_rela32_small es = decide (es.toNat < 12)
    simp [rsw_rela32_small, BitVec.ult, sizeof_Elf32_Rela]
  getOff := by intro i es; rfl
  setOff := by intro i es; rfl
  info_lt := by intro s t; exact (rsw_rela32_info s t).isLt
  pack_sym := by
    intro s t h
    show rel32_r_sym (BitVec.ofNat 64 (rsw_rel32_info s t).toNat) = s
    rw [BitVec.ofNat_toNat]
    exact rel32_sym_info s t (ult_of_lt24 s h)
  pack_type := by
    intro s tmp
    show rel32_r_type (BitVec.ofNat 64 (rsw_rel32_info s (rel32_r_type tmp)).toNat) = _
    rw [BitVec.ofNat_toNat]
    exact rel32_type_info s tmp
  trunc_off := by
    intro x hx
    show (rsw_rela32_trunc_offset (BitVec.ofNat 64 x)).toNat = x
    simp only [rsw_rela32_trunc_offset, BitVec.toNat_setWidth, BitVec.toNat_ofNat, Nat.reducePow,
      show rela32.offW = 4 from rfl, Nat.reduceMul] at *
    omega
  trunc_add := by
    intro ao aw h y hy
    simp only [rela32, Option.some.injEq, Prod.mk.injEq] at h
    obtain ⟨rfl, rfl⟩ := h
    show (rsw_rela32_trunc_addend (sext64 Elf32_Rela.r_addend_w y)).toNat = y
    have : Elf32_Rela.r_addend_w = 4 := rfl
    simp only [this, sext64, if_true, rsw_rela32_trunc_addend, setWidth_signExtend_32,
      BitVec.toNat_ofNat, Nat.reducePow, Nat.reduceMul] at *
    omega
  lim_le := by decide

theorem rel64_ok : RelSitesOK rel64 4294967296 where
  offW := Or.inr rfl
  infoW := Or.inr rfl
  lay1 := by decide
  lay2 := by decide
  lay3 := by intro ao aw h; cases h
  small := by
    intro es
    show rsw_rel64_small es = decide (es.toNat < 16)
    simp [rsw_rel64_small, BitVec.ult, sizeof_Elf64_Rel]
  getOff := by intro i es; rfl
  setOff := by intro i es; rfl
  info_lt := by intro s t; exact (rsw_rel64_info s t).isLt
  pack_sym := by
    intro s t _
    show rel64_r_sym (BitVec.ofNat 64 (rsw_rel64_info s t).toNat) = s
    rw [BitVec.ofNat_toNat, BitVec.setWidth_eq]
    exact rel64_sym_info s t
  pack_type := by
    intro s tmp
    show rel64_r_type (BitVec.ofNat 64 (rsw_rel64_info s (rel64_r_type tmp)).toNat) = _
    rw [BitVec.ofNat_toNat, BitVec.setWidth_eq]
    exact rel64_type_info s _
  trunc_off := by
    intro x hx
    show (rsw_rel64_trunc_offset (BitVec.ofNat 64 x)).toNat = x
    simp only [rsw_rel64_trunc_offset, BitVec.toNat_ofNat, Nat.reducePow,
      show rel64.offW = 8 from rfl, Nat.reduceMul] at *
    omega
  trunc_add := by intro ao aw h; cases h
  lim_le := by decide

theorem rela64_ok : RelSitesOK rela64 4294967296 where
  offW := Or.inr rfl
  infoW := Or.inr rfl
  lay1 := by decide
  lay2 := by decide
  lay3 := by
    intro ao aw h
    simp only [rela64, Option.some.injEq, Prod.mk.injEq] at h
    obtain ⟨rfl, rfl⟩ := h; decide
  small := by
    intro es
    show rsw_rela64_small es = decide (es.toNat < 24)
    simp [rsw_rela64_small, BitVec.ult, sizeof_Elf64_Rela]
  getOff := by intro i es; rfl
  setOff := by intro i es; rfl
  info_lt := by intro s t; exact (rsw_rela64_info s t).isLt
  pack_sym := by
    intro s t _
    show rel64_r_sym (BitVec.ofNat 64 (rsw_rel64_info s t).toNat) = s
    rw [BitVec.ofNat_toNat, BitVec.setWidth_eq]
    exact rel64_sym_info s t
  pack_type := by
    intro s tmp
    show rel64_r_type (BitVec.ofNat 64 (rsw_rel64_info s (rel64_r_type tmp)).toNat) = _
    rw [BitVec.ofNat_toNat, BitVec.setWidth_eq]
    exact rel64_type_info s _
  trunc_off := by
    intro x hx
    show (rsw_rela64_trunc_offset (BitVec.ofNat 64 x)).toNat = x
    simp only [rsw_rela64_trunc_offset, BitVec.toNat_ofNat, Nat.reducePow,
      show rela64.offW = 8 from rfl, Nat.reduceMul] at *
    omega
  trunc_add := by
    intro ao aw h y hy
    simp only [rela64, Option.some.injEq, Prod.mk.injEq] at h
    obtain ⟨rfl, rfl⟩ := h
    show (rsw_rela64_trunc_addend (sext64 Elf64_Rela.r_addend_w y)).toNat = y
    have : Elf64_Rela.r_addend_w = 8 := rfl
    simp only [this, sext64, rsw_rela64_trunc_addend, BitVec.toNat_ofNat, Nat.reducePow,
      Nat.reduceMul, show ¬ (8 = 4) by decide, if_false] at *
    omega
  lim_le := by decide

/-! ### well-formed relocation sections -/

/-- A resident REL/RELA section (record type `k`) with `m` entries of stride `entSize ≥ sizeof(T)`. -/
structure RelWF (k : RelSites) (r : SecBuf) (d : Bytes) (m : Nat) : Prop where
  getK : relDispatch rsw_get_is32 rsw_get_rel_a rsw_get_rela_a rsw_get_rel_b rsw_get_rela_b r = some k
  setK : relDispatch rsw_set_is32 rsw_set_rel_a rsw_set_rela_a rsw_set_rel_b rsw_set_rela_b r = some k
  data : r.data = some d
  stable : (!r.isLoaded && r.canLoad) = false
  es : k.recSize ≤ r.entSize.toNat
  fits : r.size.toNat ≤ d.length
  m_def : m = r.size.toNat / r.entSize.toNat
  small : m < 4294967295

/-- record `i` of the section -/
def relRec (k : RelSites) (r : SecBuf) (d : Bytes) (i : Nat) : Bytes :=
  slice d (i * r.entSize.toNat) k.recSize

theorem RelSitesOK.recSize_pos {k lim} (hk : RelSitesOK k lim) : 0 < k.recSize := by
  have := hk.lay2; rcases hk.infoW with h | h <;> omega

theorem RelWF.m_mul_le {k r d m} (h : RelWF k r d m) : m * r.entSize.toNat ≤ r.size.toNat := by
  rw [h.m_def]; exact Nat.div_mul_le_self _ _

theorem RelWF.rec_in {k r d m} (h : RelWF k r d m) {i : Nat} (hi : i < m) :
    i * r.entSize.toNat + k.recSize ≤ d.length := by
  have h1 := h.m_mul_le
  have h2 : i * r.entSize.toNat + r.entSize.toNat ≤ m * r.entSize.toNat := mul_step hi
  have := h.es; have := h.fits
  omega

theorem entriesNum_toNat {k lim r d m} (hk : RelSitesOK k lim) (h : RelWF k r d m) :
    (entriesNum r).toNat = m := by
  unfold entriesNum
  have hz : rsw_num_nz r.entSize = true := by
    have h0 : BitVec.signExtend 64 0#32 = 0#64 := by decide
    simp only [rsw_num_nz, h0, bne_iff_ne, ne_eq]
    intro he
    have := hk.recSize_pos; have := h.es
    rw [← he] at this; simp at this; omega
  rw [if_pos hz]
  simp only [rsw_num_div, BitVec.toNat_udiv]
  exact h.m_def.symm

theorem idx_mul {k r d m} (h : RelWF k r d m) (idx : BitVec 64) (hi : idx.toNat < m) :
    (idx * r.entSize).toNat = idx.toNat * r.entSize.toNat := by
  rw [BitVec.toNat_mul]
  have h2 := h.m_mul_le
  have h3 : idx.toNat * r.entSize.toNat ≤ m * r.entSize.toNat :=
    Nat.mul_le_mul_right _ (Nat.le_of_lt hi)
  have h4 := r.size.isLt
  simp only [Nat.reducePow] at h4 ⊢
  exact Nat.mod_eq_of_lt (by omega)

/-- `get_entry(i, …)` succeeds and reports the decoded record -/
theorem getEntry_eq {k lim r d m} (e : Enc) (hk : RelSitesOK k lim) (h : RelWF k r d m)
    (idx : BitVec 64) (hi : idx.toNat < m) :
    getEntry e r idx = .ok (r, some (decodeRec e k (relRec k r d idx.toNat))) := by
  have hin := h.rec_in hi
  have hl1 := hk.lay1; have hl2 := hk.lay2
  unfold getEntry
  have hb : rsw_get_bad_index idx (entriesNum r) = false := by
    simp only [rsw_get_bad_index, BitVec.ule, entriesNum_toNat hk h, decide_eq_false_iff_not]
    omega
  simp only [hb, Bool.false_eq_true, if_false, h.getK]
  unfold genericGetEntry
  have hs : k.small r.entSize = false := by
    rw [hk.small]; simp only [decide_eq_false_iff_not]; have := h.es; omega
  simp only [hs, Bool.false_eq_true, if_false, getData_stable h.stable, h.data, hk.getOff,
    idx_mul h idx hi]
  rw [rdRange_some_ok (by omega), rdRange_some_ok (by omega)]
  simp only
  unfold decodeRec relRec
  rw [slice_slice_arr _ _ _ _ _ (by omega), slice_slice_arr _ _ _ _ _ (by omega)]
  cases ha : k.addend with
  | none => simp only
  | some aw =>
    obtain ⟨ao, aw⟩ := aw
    obtain ⟨_, g2, g3⟩ := hk.lay3 ao aw ha
    simp only
    rw [rdRange_some_ok (by omega)]
    simp only
    rw [slice_slice_arr _ _ _ _ _ (by omega)]

/-- the buffer after `set_entry(i, …)` of the decoded entry with only the symbol replaced:
    r_offset and r_addend are written back unchanged, r_info is re-packed -/
def setInfoBytes (e : Enc) (k : RelSites) (r : SecBuf) (d : Bytes) (i : Nat) (s' : BitVec 32) : Bytes :=
  wr d (i * r.entSize.toNat + k.infoOff)
    (wrField e k.infoW (k.info s' (decodeRec e k (relRec k r d i)).rtype))

theorem fieldW_of {w : Nat} (h : w = 4 ∨ w = 8) : FieldW w := by
  rcases h with h | h
  · exact Or.inr (Or.inr (Or.inl h))
  · exact Or.inr (Or.inr (Or.inr h))

/-- writing a field back with the value just read from it changes nothing -/
theorem wr_field_back (e : Enc) (d : Bytes) (p w x : Nat) (hw : w = 4 ∨ w = 8) (hp : p + w ≤ d.length)
    (hx : x = rdField e (slice d p w)) : wr d p (wrField e w x) = d := by
  have hl : (slice d p w).length = w := by rw [slice_length]; omega
  have := wrField_rdField e (slice d p w) (by rw [hl]; exact fieldW_of hw)
  rw [hl] at this
  rw [hx, this]
  exact wr_slice_self d p w hp

theorem setEntry_eq {k lim r d m} (e : Enc) (hk : RelSitesOK k lim) (h : RelWF k r d m)
    (idx : BitVec 64) (hi : idx.toNat < m) (s' : BitVec 32) :
    setEntry e r idx { decodeRec e k (relRec k r d idx.toNat) with symbol := s' }
      = .ok { r with data := some (setInfoBytes e k r d idx.toNat s') } := by
  have hin := h.rec_in hi
  have hl1 := hk.lay1; have hl2 := hk.lay2
  unfold setEntry
  have hb : rsw_set_bad_index idx (entriesNum r) = false := by
    simp only [rsw_set_bad_index, BitVec.ule, entriesNum_toNat hk h, decide_eq_false_iff_not]
    omega
  simp only [hb, Bool.false_eq_true, if_false, h.setK]
  unfold genericSetEntry
  simp only [getData_stable h.stable, h.data, hk.setOff, idx_mul h idx hi]
  -- first store: r_info
  have hlen1 : (wrField e k.infoW
      (k.info s' (decodeRec e k (relRec k r d idx.toNat)).rtype)).length = k.infoW :=
    wrField_length_arr _ _ _
  rw [wrRange_some_ok (by rw [hlen1]; omega)]
  simp only
  have hd1 : wr d (idx.toNat * r.entSize.toNat + k.infoOff)
      (wrField e k.infoW (k.info s' (decodeRec e k (relRec k r d idx.toNat)).rtype))
      = setInfoBytes e k r d idx.toNat s' := rfl
  rw [hd1]
  have hlenD : (setInfoBytes e k r d idx.toNat s').length = d.length := by
    unfold setInfoBytes; exact wr_length _ _ _ (by rw [hlen1]; omega)
  -- second store: r_offset, the value read from the same bytes
  have hoff : wr (setInfoBytes e k r d idx.toNat s') (idx.toNat * r.entSize.toNat + k.offOff)
      (wrField e k.offW (k.truncOffset (decodeRec e k (relRec k r d idx.toNat)).offset))
      = setInfoBytes e k r d idx.toNat s' := by
    have hbo : slice (setInfoBytes e k r d idx.toNat s') (idx.toNat * r.entSize.toNat + k.offOff) k.offW
        = slice d (idx.toNat * r.entSize.toNat + k.offOff) k.offW := by
      unfold setInfoBytes
      exact slice_wr_of_disjoint _ _ _ _ _ (by rw [hlen1]; omega) (Or.inl (by omega))
    apply wr_field_back e _ _ _ _ hk.offW (by rw [hlenD]; omega)
    rw [hbo]
    have hl : (slice d (idx.toNat * r.entSize.toNat + k.offOff) k.offW).length = k.offW := by
      rw [slice_length]; omega
    have hlt := rdField_lt e (slice d (idx.toNat * r.entSize.toNat + k.offOff) k.offW)
      (by rw [hl]; exact fieldW_of hk.offW)
    rw [hl] at hlt
    show k.truncOffset (BitVec.ofNat 64 (rdField e (slice (relRec k r d idx.toNat) k.offOff k.offW))) = _
    unfold relRec
    rw [slice_slice_arr _ _ _ _ _ (by omega)]
    exact hk.trunc_off _ hlt
  have hlen2 : (wrField e k.offW
      (k.truncOffset (decodeRec e k (relRec k r d idx.toNat)).offset)).length = k.offW :=
    wrField_length_arr _ _ _
  rw [wrRange_some_ok (by rw [hlen2, hlenD]; omega), hoff]
  simp only
  cases ha : k.addend with
  | none => simp only
  | some aw =>
    obtain ⟨ao, aw⟩ := aw
    obtain ⟨g1, g2, g3⟩ := hk.lay3 ao aw ha
    simp only
    have hadd : wr (setInfoBytes e k r d idx.toNat s') (idx.toNat * r.entSize.toNat + ao)
        (wrField e aw (k.truncAddend (decodeRec e k (relRec k r d idx.toNat)).addend))
        = setInfoBytes e k r d idx.toNat s' := by
      have hba : slice (setInfoBytes e k r d idx.toNat s') (idx.toNat * r.entSize.toNat + ao) aw
          = slice d (idx.toNat * r.entSize.toNat + ao) aw := by
        unfold setInfoBytes
        exact slice_wr_of_disjoint _ _ _ _ _ (by rw [hlen1]; omega) (Or.inr (by rw [hlen1]; omega))
      apply wr_field_back e _ _ _ _ g1 (by rw [hlenD]; omega)
      rw [hba]
      have hl : (slice d (idx.toNat * r.entSize.toNat + ao) aw).length = aw := by
        rw [slice_length]; omega
      have hlt := rdField_lt e (slice d (idx.toNat * r.entSize.toNat + ao) aw)
        (by rw [hl]; exact fieldW_of g1)
      rw [hl] at hlt
      have hdec : (decodeRec e k (relRec k r d idx.toNat)).addend
          = sext64 aw (rdField e (slice d (idx.toNat * r.entSize.toNat + ao) aw)) := by
        unfold decodeRec relRec
        simp only [ha]
        rw [slice_slice_arr _ _ _ _ _ (by omega)]
      rw [hdec]
      exact hk.trunc_add ao aw ha _ hlt
    have hlen3 : (wrField e aw
        (k.truncAddend (decodeRec e k (relRec k r d idx.toNat)).addend)).length = aw :=
      wrField_length_arr _ _ _
    rw [wrRange_some_ok (by rw [hlen3, hlenD]; omega), hadd]

theorem setInfoBytes_length {k lim r d m} (e : Enc) (hk : RelSitesOK k lim) (h : RelWF k r d m)
    {i : Nat} (hi : i < m) (s' : BitVec 32) : (setInfoBytes e k r d i s').length = d.length := by
  have hin := h.rec_in hi
  have := hk.lay2
  unfold setInfoBytes
  exact wr_length _ _ _ (by rw [wrField_length_arr]; omega)

theorem setInfoBytes_other {k lim r d m} (e : Enc) (hk : RelSitesOK k lim) (h : RelWF k r d m)
    {i j : Nat} (hi : i < m) (hj : j < m) (hne : j ≠ i) (s' : BitVec 32) :
    relRec k r (setInfoBytes e k r d i s') j = relRec k r d j := by
  have hin := h.rec_in hi
  have hl2 := hk.lay2
  have hes := h.es
  unfold relRec setInfoBytes
  apply slice_wr_of_disjoint _ _ _ _ _ (by rw [wrField_length_arr]; omega)
  rw [wrField_length_arr]
  rcases Nat.lt_or_gt_of_ne hne with hlt | hgt
  · left; have := mul_step (es := r.entSize.toNat) hlt; omega
  · right; have := mul_step (es := r.entSize.toNat) hgt; omega

theorem setInfoBytes_same {k lim r d m} (e : Enc) (hk : RelSitesOK k lim) (h : RelWF k r d m)
    {i : Nat} (hi : i < m) (s' : BitVec 32) (hs : s'.toNat < lim) :
    decodeRec e k (relRec k r (setInfoBytes e k r d i s') i)
      = { decodeRec e k (relRec k r d i) with symbol := s' } := by
  have hin := h.rec_in hi
  have hl1 := hk.lay1; have hl2 := hk.lay2
  have hlenW : (wrField e k.infoW (k.info s' (decodeRec e k (relRec k r d i)).rtype)).length
      = k.infoW := wrField_length_arr _ _ _
  -- the three field slices of the new record
  have hbo : slice (relRec k r (setInfoBytes e k r d i s') i) k.offOff k.offW
      = slice (relRec k r d i) k.offOff k.offW := by
    unfold relRec
    rw [slice_slice_arr _ _ _ _ _ (by omega), slice_slice_arr _ _ _ _ _ (by omega)]
    unfold setInfoBytes
    exact slice_wr_of_disjoint _ _ _ _ _ (by rw [hlenW]; omega) (Or.inl (by omega))
  have hbi : slice (relRec k r (setInfoBytes e k r d i s') i) k.infoOff k.infoW
      = wrField e k.infoW (k.info s' (decodeRec e k (relRec k r d i)).rtype) := by
    unfold relRec
    rw [slice_slice_arr _ _ _ _ _ (by omega)]
    unfold setInfoBytes
    have := slice_wr_same_arr d (wrField e k.infoW (k.info s' (decodeRec e k (relRec k r d i)).rtype))
      (i * r.entSize.toNat + k.infoOff) (by rw [hlenW]; omega)
    rw [hlenW] at this
    exact this
  have hinfo : rdField e (wrField e k.infoW (k.info s' (decodeRec e k (relRec k r d i)).rtype))
      = k.info s' (decodeRec e k (relRec k r d i)).rtype := by
    rw [rdField_wrField e _ _ (fieldW_of hk.infoW)]
    exact Nat.mod_eq_of_lt (hk.info_lt _ _)
  have hty : (decodeRec e k (relRec k r d i)).rtype
      = k.rType (BitVec.ofNat 64 (rdField e (slice (relRec k r d i) k.infoOff k.infoW))) := rfl
  have hadd : (decodeRec e k (relRec k r (setInfoBytes e k r d i s') i)).addend
      = (decodeRec e k (relRec k r d i)).addend := by
    unfold decodeRec
    cases ha : k.addend with
    | none => rfl
    | some aw =>
      obtain ⟨ao, aw⟩ := aw
      obtain ⟨g1, g2, g3⟩ := hk.lay3 ao aw ha
      simp only
      congr 2
      unfold relRec
      rw [slice_slice_arr _ _ _ _ _ (by omega), slice_slice_arr _ _ _ _ _ (by omega)]
      unfold setInfoBytes
      exact slice_wr_of_disjoint _ _ _ _ _ (by rw [hlenW]; omega) (Or.inr (by rw [hlenW]; omega))
  have e1 : (decodeRec e k (relRec k r (setInfoBytes e k r d i s') i)).offset
      = (decodeRec e k (relRec k r d i)).offset := by
    show BitVec.ofNat 64 (rdField e _) = BitVec.ofNat 64 (rdField e _)
    rw [hbo]
  have e2 : (decodeRec e k (relRec k r (setInfoBytes e k r d i s') i)).symbol = s' := by
    show k.rSym (BitVec.ofNat 64 (rdField e _)) = s'
    rw [hbi, hinfo]
    exact hk.pack_sym _ _ hs
  have e3 : (decodeRec e k (relRec k r (setInfoBytes e k r d i s') i)).rtype
      = (decodeRec e k (relRec k r d i)).rtype := by
    show k.rType (BitVec.ofNat 64 (rdField e _)) = _
    rw [hbi, hinfo, hty]
    exact hk.pack_type _ _
  cases hnew : decodeRec e k (relRec k r (setInfoBytes e k r d i s') i) with
  | mk o sy t a =>
    rw [hnew] at e1 e2 e3 hadd
    simp only at e1 e2 e3 hadd
    subst e1 e2 e3 hadd
    rfl

theorem RelWF.with_data {k r d m} (h : RelWF k r d m) (d' : Bytes) (hl : d'.length = d.length) :
    RelWF k { r with data := some d' } d' m :=
  { getK := h.getK, setK := h.setK, data := rfl, stable := h.stable, es := h.es,
    fits := by show r.size.toNat ≤ d'.length; rw [hl]; exact h.fits
    m_def := h.m_def, small := h.small }

/-! ### one entry, then the whole table -/

/-- entry `v'` is entry `v` with its symbol index sent through the transposition of `F` and `S` -/
def Mapped (F S : Nat) (v' v : RelEntry) : Prop :=
  v'.offset = v.offset ∧ v'.rtype = v.rtype ∧ v'.addend = v.addend ∧
  v'.symbol.toNat = Arr.transp F S v.symbol.toNat

theorem RelWF.eta {k r d m} (h : RelWF k r d m) : { r with data := some d } = r := by
  have := h.data
  cases r
  simp_all

theorem swapStep_spec {k lim r d m} (e : Enc) (hk : RelSitesOK k lim) (h : RelWF k r d m)
    (i : BitVec 32) (hi : i.toNat < m) (first second : BitVec 64)
    (hF : first.toNat < lim) (hS : second.toNat < lim) (hne : first ≠ second) (cur : RelEntry) :
    ∃ d' cur', swapStep e r cur i first second = .ok ({ r with data := some d' }, cur') ∧
      d'.length = d.length ∧
      (∀ j, j < m → j ≠ i.toNat → relRec k r d' j = relRec k r d j) ∧
      Mapped first.toNat second.toNat (decodeRec e k (relRec k r d' i.toNat))
        (decodeRec e k (relRec k r d i.toNat)) := by
  have hlim := hk.lim_le
  have hi64 : (BitVec.setWidth 64 i).toNat = i.toNat := by
    rw [BitVec.toNat_setWidth]; exact Nat.mod_eq_of_lt (by have := i.isLt; omega)
  have hget := getEntry_eq e hk h (BitVec.setWidth 64 i) (by rw [hi64]; exact hi)
  rw [hi64] at hget
  unfold swapStep
  simp only [rsw_get_index, rsw_set_index_a, rsw_set_index_b, hget, Option.getD_some]
  generalize hv : decodeRec e k (relRec k r d i.toNat) = v at *
  have hsymw : (BitVec.setWidth 64 v.symbol).toNat = v.symbol.toNat := by
    rw [BitVec.toNat_setWidth]; exact Nat.mod_eq_of_lt (by have := v.symbol.isLt; omega)
  by_cases hA : BitVec.setWidth 64 v.symbol = first
  · -- the entry refers to `first`
    have hA' : rsw_is_first v.symbol first = true := by simp [rsw_is_first, hA]
    have hB' : rsw_is_second v.symbol second = false := by
      simp only [rsw_is_second, hA, beq_eq_false_iff_ne, ne_eq]; exact hne
    have hset := setEntry_eq e hk h (BitVec.setWidth 64 i) (by rw [hi64]; exact hi)
      (rsw_new_second second)
    rw [hi64, hv] at hset
    simp only [hA', if_true, hset, hB', Bool.false_eq_true, if_false]
    have hs32 : (rsw_new_second second).toNat = second.toNat := by
      simp only [rsw_new_second, BitVec.toNat_setWidth, Nat.reducePow]
      exact Nat.mod_eq_of_lt (by omega)
    refine ⟨_, _, rfl, setInfoBytes_length e hk h hi _, ?_, ?_⟩
    · intro j hj hji; exact setInfoBytes_other e hk h hi hj hji _
    · rw [setInfoBytes_same e hk h hi _ (by rw [hs32]; exact hS), hv]
      refine ⟨rfl, rfl, rfl, ?_⟩
      show (rsw_new_second second).toNat = _
      have : v.symbol.toNat = first.toNat := by rw [← hsymw, hA]
      rw [hs32, this]; simp [Arr.transp]
  · have hA' : rsw_is_first v.symbol first = false := by
      simp only [rsw_is_first, beq_eq_false_iff_ne, ne_eq]; exact hA
    by_cases hB : BitVec.setWidth 64 v.symbol = second
    · -- the entry refers to `second`
      have hB' : rsw_is_second v.symbol second = true := by simp [rsw_is_second, hB]
      have hset := setEntry_eq e hk h (BitVec.setWidth 64 i) (by rw [hi64]; exact hi)
        (rsw_new_first first)
      rw [hi64, hv] at hset
      simp only [hA', Bool.false_eq_true, if_false, hB', if_true, hset]
      have hs32 : (rsw_new_first first).toNat = first.toNat := by
        simp only [rsw_new_first, BitVec.toNat_setWidth, Nat.reducePow]
        exact Nat.mod_eq_of_lt (by omega)
      refine ⟨_, _, rfl, setInfoBytes_length e hk h hi _, ?_, ?_⟩
      · intro j hj hji; exact setInfoBytes_other e hk h hi hj hji _
      · rw [setInfoBytes_same e hk h hi _ (by rw [hs32]; exact hF), hv]
        refine ⟨rfl, rfl, rfl, ?_⟩
        show (rsw_new_first first).toNat = _
        have h2 : v.symbol.toNat = second.toNat := by rw [← hsymw, hB]
        have h1 : ¬ second.toNat = first.toNat := fun hh => hne (BitVec.eq_of_toNat_eq hh.symm)
        rw [hs32, h2]; simp [Arr.transp, h1]
    · -- neither: nothing is written
      have hB' : rsw_is_second v.symbol second = false := by
        simp only [rsw_is_second, beq_eq_false_iff_ne, ne_eq]; exact hB
      simp only [hA', hB', Bool.false_eq_true, if_false]
      refine ⟨d, v, by rw [h.eta], rfl, fun _ _ _ => rfl, ?_⟩
      rw [hv]
      refine ⟨rfl, rfl, rfl, ?_⟩
      have h1 : ¬ v.symbol.toNat = first.toNat := fun hh =>
        hA (BitVec.eq_of_toNat_eq (by rw [hsymw]; exact hh))
      have h2 : ¬ v.symbol.toNat = second.toNat := fun hh =>
        hB (BitVec.eq_of_toNat_eq (by rw [hsymw]; exact hh))
      simp [Arr.transp, h1, h2]

theorem swapLoop_spec {k lim r0 d0 m} (e : Enc) (hk : RelSitesOK k lim) (h0 : RelWF k r0 d0 m)
    (first second : BitVec 64) (hF : first.toNat < lim) (hS : second.toNat < lim)
    (hne : first ≠ second) :
    ∀ fuel (i : BitVec 32) (d : Bytes) (cur : RelEntry),
      d.length = d0.length → i.toNat ≤ m → m < i.toNat + fuel →
      (∀ j, j < i.toNat → Mapped first.toNat second.toNat (decodeRec e k (relRec k r0 d j))
        (decodeRec e k (relRec k r0 d0 j))) →
      (∀ j, i.toNat ≤ j → j < m → relRec k r0 d j = relRec k r0 d0 j) →
      ∃ d', swapLoop e fuel { r0 with data := some d } cur i first second
          = .ok { r0 with data := some d' } ∧ d'.length = d0.length ∧
        ∀ j, j < m → Mapped first.toNat second.toNat (decodeRec e k (relRec k r0 d' j))
          (decodeRec e k (relRec k r0 d0 j)) := by
  intro fuel
  induction fuel with
  | zero => intro i d cur _ h1 h2; omega
  | succ fuel ih =>
    intro i d cur hl him hfuel hdone htodo
    have hwf := h0.with_data d hl
    have hi64 : (BitVec.setWidth 64 i).toNat = i.toNat := by
      rw [BitVec.toNat_setWidth]; exact Nat.mod_eq_of_lt (by have := i.isLt; omega)
    simp only [swapLoop, rsw_loop_cond, BitVec.ult, hi64, entriesNum_toNat hk hwf]
    by_cases hlt : i.toNat < m
    · simp only [hlt, decide_true, if_true]
      obtain ⟨d1, cur1, e1, e2, e3, e4⟩ := swapStep_spec e hk hwf i hlt first second hF hS hne cur
      rw [e1]
      simp only
      have hi1 : (i + 1#32).toNat = i.toNat + 1 := by
        rw [BitVec.toNat_add]
        simp only [BitVec.toNat_ofNat, Nat.reducePow, Nat.reduceMod]
        have := h0.small; omega
      obtain ⟨d', r1, r2, r3⟩ := ih (i + 1#32) d1 cur1 (by rw [e2, hl]) (by rw [hi1]; omega)
        (by rw [hi1]; omega)
        (by
          intro j hj
          rw [hi1] at hj
          by_cases hji : j = i.toNat
          · subst hji
            have := htodo i.toNat (Nat.le_refl _) hlt
            rw [← this]; exact e4
          · have := e3 j (by omega) hji
            show Mapped _ _ (decodeRec e k (relRec k r0 d1 j)) _
            have h' : relRec k r0 d1 j = relRec k r0 d j := this
            rw [h']; exact hdone j (by omega))
        (by
          intro j hj1 hj2
          rw [hi1] at hj1
          have h' : relRec k r0 d1 j = relRec k r0 d j := e3 j hj2 (by omega)
          rw [h']; exact htodo j (by omega) hj2)
      exact ⟨d', r1, r2, r3⟩
    · simp only [hlt, decide_false, Bool.false_eq_true, if_false]
      exact ⟨d, rfl, hl, fun j hj => hdone j (by omega)⟩

/-- **`swap_symbols(first, second)`** on a well-formed table: succeeds, changes only the data,
    and maps every entry's symbol index through the transposition -/
theorem swapSymbols_spec {k lim r d m} (e : Enc) (hk : RelSitesOK k lim) (h : RelWF k r d m)
    (first second : BitVec 64) (hF : first.toNat < lim) (hS : second.toNat < lim)
    (hne : first ≠ second) :
    ∃ d', swapSymbols e r first second = .ok { r with data := some d' } ∧
      RelWF k { r with data := some d' } d' m ∧
      ∀ j, j < m → Mapped first.toNat second.toNat (decodeRec e k (relRec k r d' j))
        (decodeRec e k (relRec k r d j)) := by
  unfold swapSymbols
  rw [entriesNum_toNat hk h]
  have := swapLoop_spec e hk h first second hF hS hne (m + 1) 0 d {} rfl (by simp) (by simp)
    (by intro j hj; simp at hj) (by intro j _ _; rfl)
  rw [h.eta] at this
  obtain ⟨d', e1, e2, e3⟩ := this
  exact ⟨d', e1, h.with_data d' e2, e3⟩

/-! ### several tables: the callback `for (auto& r : tables) r.swap_symbols(a, b)` -/

/-- what the accessor reports about one entry, with the symbol index as a number -/
structure AEntry where
  offset : BitVec 64
  sym : Nat
  rtype : BitVec 32
  addend : BitVec 64

def AEntry.ofRel (v : RelEntry) : AEntry := ⟨v.offset, v.symbol.toNat, v.rtype, v.addend⟩

/-- rewriting the symbol indices of several decoded tables -/
def aAction : Arr.IndexAction (List (List AEntry)) where
  act π st := st.map (fun t => t.map (fun a => { a with sym := π a.sym }))
  act_id st := by simp
  act_comp g h st := by simp [List.map_map, Function.comp_def]

/-- the decoded entries of a table -/
def decodeAll (e : Enc) (k : RelSites) (r : SecBuf) (d : Bytes) (m : Nat) : List AEntry :=
  (List.range m).map (fun j => AEntry.ofRel (decodeRec e k (relRec k r d j)))

/-- `r` is a well-formed table whose symbol indices may range over `n` symbols, decoding to `t` -/
def Rel1 (e : Enc) (n : Nat) (r : SecBuf) (t : List AEntry) : Prop :=
  ∃ k lim d m, RelSitesOK k lim ∧ RelWF k r d m ∧ n ≤ lim ∧ t = decodeAll e k r d m

def RelAll (e : Enc) (n : Nat) : List SecBuf → List (List AEntry) → Prop
  | [], [] => True
  | r :: rs, t :: ts => Rel1 e n r t ∧ RelAll e n rs ts
  | _, _ => False

theorem RelAll.get {e n} : ∀ {rs : List SecBuf} {ts : List (List AEntry)}, RelAll e n rs ts →
    rs.length = ts.length ∧
    ∀ (i : Nat) r, rs[i]? = some r → ∃ t, ts[i]? = some t ∧ Rel1 e n r t
  | [], [], _ => ⟨rfl, fun i r h => by simp at h⟩
  | r :: rs, t :: ts, h => by
    obtain ⟨h1, h2⟩ := h
    obtain ⟨g1, g2⟩ := RelAll.get h2
    refine ⟨by simp [g1], ?_⟩
    intro i r' hi
    cases i with
    | zero => simp at hi; subst hi; exact ⟨t, by simp, h1⟩
    | succ i => simp at hi; simpa using g2 i r' hi
  | [], _ :: _, h => by cases h
  | _ :: _, [], h => by cases h

theorem rel1_step {e : Enc} {n : Nat} {r : SecBuf} {t : List AEntry} (h : Rel1 e n r t)
    (a b : BitVec 64) (ha : a.toNat < b.toNat) (hb : b.toNat < n) :
    ∃ r', swapSymbols e r a b = .ok r' ∧
      Rel1 e n r' (t.map (fun x => { x with sym := Arr.transp a.toNat b.toNat x.sym })) := by
  obtain ⟨k, lim, d, m, hk, hwf, hn, rfl⟩ := h
  have hne : a ≠ b := by intro hh; subst hh; omega
  obtain ⟨d', e1, e2, e3⟩ := swapSymbols_spec e hk hwf a b (by omega) (by omega) hne
  refine ⟨_, e1, k, lim, d', m, hk, e2, hn, ?_⟩
  unfold decodeAll
  rw [List.map_map]
  apply List.map_congr_left
  intro j hj
  have hj' : j < m := by simpa using hj
  obtain ⟨m1, m2, m3, m4⟩ := e3 j hj'
  simp only [Function.comp, AEntry.ofRel]
  have hr : relRec k { r with data := some d' } d' j = relRec k r d' j := rfl
  rw [hr, m1, m2, m3, m4]

/-- the relocation callback refines "apply the transposition to every stored symbol index" -/
theorem relCallback_refines (e : Enc) (n : Nat) :
    ∀ (rs : List SecBuf) (ts : List (List AEntry)) (a b : BitVec 64), RelAll e n rs ts →
      a.toNat < b.toNat → b.toNat < n →
      ∃ rs', relCallback e rs a b = .ok rs' ∧
        RelAll e n rs' (aAction.act (Arr.transp a.toNat b.toNat) ts)
  | [], [], _, _, _, _, _ => ⟨[], rfl, trivial⟩
  | r :: rs, t :: ts, a, b, h, ha, hb => by
    obtain ⟨h1, h2⟩ := h
    obtain ⟨r', e1, e2⟩ := rel1_step h1 a b ha hb
    obtain ⟨rs', g1, g2⟩ := relCallback_refines e n rs ts a b h2 ha hb
    refine ⟨r' :: rs', ?_, ?_⟩
    · simp only [relCallback, e1, g1]
    · exact ⟨e2, g2⟩
  | [], _ :: _, _, _, h, _, _ => by cases h
  | _ :: _, [], _, _, h, _, _ => by cases h

end Arrange
end ElfioVerif
