/-
C18 helper lemmas, part 4: `set_entry` / `swap_symbols` (the callback of `arrange_local_symbols`) and
`arrange_local_symbols` itself are total on `Sec` sections with arbitrary header fields and contents.
-/
import ElfioVerif.Lemmas.TableSafetyVer
import ElfioVerif.Props.C10
namespace ElfioVerif
open Gen

namespace C18

/-- what `set_entry` / `swap_symbols` leave alone: the section stays `Sec`, the fields the accessors
    look at keep their values; in fact NOTHING but the contents of the buffer changes (`eqv`), the
    buffer keeps its length and a section neither becomes resident nor loses its data (`dlen`) -/
structure Keep (b' b : SecBuf) : Prop where
  sec : Sec b'
  size : b'.size = b.size
  entSize : b'.entSize = b.entSize
  stype : b'.stype = b.stype
  cls : b'.cls = b.cls
  data : ∀ d', b'.data = some d' → ∃ d, b.data = some d
  eqv : ∃ d, b' = { b with data := d }
  dlen : b'.data.map List.length = b.data.map List.length

theorem Keep.refl {b : SecBuf} (h : Sec b) : Keep b b :=
  ⟨h, rfl, rfl, rfl, rfl, fun d h => ⟨d, h⟩, ⟨b.data, rfl⟩, rfl⟩

theorem Keep.small {b' b : SecBuf} (h : Keep b' b) (hb : Small b) : Small b' := by
  intro d' hd'
  obtain ⟨d, hd⟩ := h.data d' hd'
  rw [h.size]; exact hb d hd

theorem Keep.trans {a b c : SecBuf} (h1 : Keep a b) (h2 : Keep b c) : Keep a c :=
  ⟨h1.sec, h1.size.trans h2.size, h1.entSize.trans h2.entSize, h1.stype.trans h2.stype, h1.cls.trans h2.cls,
    fun d' hd' => by obtain ⟨d, hd⟩ := h1.data d' hd'; exact h2.data d hd,
    by obtain ⟨d1, e1⟩ := h1.eqv; obtain ⟨d2, e2⟩ := h2.eqv; exact ⟨d1, by rw [e1, e2]⟩,
    h1.dlen.trans h2.dlen⟩

theorem keep_data {b : SecBuf} (hs : Sec b) {d d' : Bytes} (hd : b.data = some d) (hl : d'.length = d.length) :
    Keep { b with data := some d' } b :=
  ⟨⟨hs.settled, fun x hx => by
      simp only [Option.some.injEq] at hx; subst hx; rw [hl]; exact hs.buf d hd⟩, rfl, rfl, rfl, rfl, fun _ _ => ⟨d, hd⟩,
    ⟨some d', rfl⟩, by rw [hd]; simp [hl]⟩

theorem wrField_len (enc : Enc) (n x : Nat) : (wrField enc n x).length = n := by
  simp [wrField, hostEncode]; split <;> simp

open Reloc Spec in
/-- the member writes of `generic_set_entry_*` for a valid index: inside the buffer, its length kept -/
theorem setWrites_ok {c : Cls} {k : RelKind} {ops : RecOps} (ok : OpsOk c k ops) (enc : Enc) (b : SecBuf)
    (hs : Sec b) {d : Bytes} (hd : b.data = some d) (hE : ops.size ≤ b.entSize.toNat) (idx : BitVec 64)
    (hidx : idx.toNat < b.size.toNat / b.entSize.toNat) (e : Entry) :
    ∃ d', Reloc.setWrites ops enc b idx e = .ok { b with data := some d' } ∧ d'.length = d.length := by
  have hin := entry_in_range (size := b.size.toNat) (rec := ops.size) (i := idx) (e := b.entSize) hidx hE
  have hW := wordBytes_cases c
  have hSz : ops.size = (if hasAddend k then 3 else 2) * wordBytes c := by
    rw [ok.size]; cases k <;> simp [Spec.entSize, hasAddend]
  have hbuf := hs.buf d hd
  unfold Reloc.setWrites
  simp only [hs.getData, ok.setOff, hd, ok.offsetOff, ok.offsetW, ok.infoOff, ok.infoW]
  have w1 : ∀ (x : Nat), wrRange "set_entry/r_info" (some d) ((idx * b.entSize).toNat + wordBytes c)
      (wrField enc (wordBytes c) x) = .ok (some (wr d ((idx * b.entSize).toNat + wordBytes c) (wrField enc (wordBytes c) x))) :=
    fun x => wrRange_some_ok (by rw [wrField_len]; rw [hSz] at hin; split at hin <;> omega)
  rw [w1]
  simp only [bind, Except.bind]
  have l1 : ∀ x, (wr d ((idx * b.entSize).toNat + wordBytes c) (wrField enc (wordBytes c) x)).length = d.length :=
    fun x => wr_length _ _ _ (by rw [wrField_len]; rw [hSz] at hin; split at hin <;> omega)
  generalize ha1 : wr d ((idx * b.entSize).toNat + wordBytes c) (wrField enc (wordBytes c)
    (if ops.setIs32 (classByte b.cls) = true then ops.setInfo32 e.symbol e.type else ops.setInfo64 e.symbol e.type)) = a1
  have la1 : a1.length = d.length := by rw [← ha1]; exact l1 _
  have w2 : wrRange "set_entry/r_offset" (some a1) ((idx * b.entSize).toNat + 0)
      (wrField enc (wordBytes c) (ops.setOffset e.offset)) =
        .ok (some (wr a1 ((idx * b.entSize).toNat + 0) (wrField enc (wordBytes c) (ops.setOffset e.offset)))) :=
    wrRange_some_ok (by rw [wrField_len, la1]; rw [hSz] at hin; split at hin <;> omega)
  rw [w2]
  generalize ha2 : wr a1 ((idx * b.entSize).toNat + 0) (wrField enc (wordBytes c) (ops.setOffset e.offset)) = a2
  have la2 : a2.length = d.length := by
    rw [← ha2, wr_length _ _ _ (by rw [wrField_len, la1]; rw [hSz] at hin; split at hin <;> omega)]; exact la1
  cases k with
  | rel =>
    have hna : ops.hasAddend = false := by rw [ok.hasAddend]; rfl
    simp only [hna, Bool.false_eq_true, if_false, pure, Except.pure]
    exact ⟨_, rfl, la2⟩
  | rela =>
    have hya : ops.hasAddend = true := by rw [ok.hasAddend]; rfl
    have hSz3 : ops.size = 3 * wordBytes c := by rw [hSz]; simp [hasAddend]
    simp only [hya, if_true, ok.addendOff hya, ok.addendW hya]
    rw [wrRange_some_ok (by rw [wrField_len, la2]; omega)]
    simp only [pure, Except.pure]
    refine ⟨_, rfl, ?_⟩
    rw [wr_length _ _ _ (by rw [wrField_len, la2]; omega)]
    exact la2

open Reloc Spec in
theorem setGeneric_keep {c : Cls} {k : RelKind} {ops : RecOps} (ok : OpsOk c k ops) (enc : Enc) (b : SecBuf)
    (hs : Sec b) (idx : BitVec 64) (hidx : idx.toNat < b.size.toNat / b.entSize.toNat) (e : Entry) :
    ∃ b', Reloc.setGeneric ops enc b idx e = .ok b' ∧ Keep b' b := by
  unfold Reloc.setGeneric
  by_cases h1 : ops.setSmall b.entSize = true
  · rw [if_pos h1]; exact ⟨_, rfl, Keep.refl hs⟩
  rw [if_neg h1, hs.getData, ok.setNodata]
  cases hd : b.data with
  | none => simp only [Option.isNone_none, if_true]; exact ⟨_, rfl, Keep.refl hs⟩
  | some d =>
    simp only [Option.isNone_some, Bool.false_eq_true, if_false]
    have hE : ops.size ≤ b.entSize.toNat := by
      have : ¬ b.entSize.toNat < ops.size := fun h => h1 ((ok.setSmall b.entSize).mpr h)
      omega
    obtain ⟨d', h, hl⟩ := setWrites_ok ok enc b hs hd hE idx hidx e
    exact ⟨_, h, keep_data hs hd hl⟩

/-- `set_entry` never faults on a `Sec` section and keeps it `Sec` -/
theorem relSet_keep (enc : Enc) (b : SecBuf) (hs : Sec b) (idx : BitVec 64) (e : Reloc.Entry) :
    ∃ b', TQ.relSet enc b idx e = .ok b' ∧ Keep b' b := by
  have key : ∃ r, Reloc.setEntry enc b idx e = .ok r ∧ Keep r.1 b := by
    unfold Reloc.setEntry
    rw [bind_ok_eq _ (Reloc.entriesNum_ok b)]
    simp only [Reloc.set_idx_oob, Reloc.entriesNumV_toNat]
    by_cases hidx : b.size.toNat / b.entSize.toNat ≤ idx.toNat
    · simp only [hidx, decide_true, if_true]; exact ⟨_, rfl, Keep.refl hs⟩
    · simp only [hidx, decide_false, Bool.false_eq_true, if_false]
      have hi : idx.toNat < b.size.toNat / b.entSize.toNat := by omega
      by_cases c1 : reloc_set_is32 (Reloc.classByte b.cls) = true
      · rw [if_pos c1]
        by_cases c2 : reloc_set_is_rel32 b.stype = true
        · rw [if_pos c2]
          obtain ⟨b', h, hk⟩ := setGeneric_keep Reloc.opsOk32rel enc b hs idx hi e
          rw [h]; exact ⟨_, rfl, hk⟩
        rw [if_neg c2]
        by_cases c3 : reloc_set_is_rela32 b.stype = true
        · rw [if_pos c3]
          obtain ⟨b', h, hk⟩ := setGeneric_keep Reloc.opsOk32rela enc b hs idx hi e
          rw [h]; exact ⟨_, rfl, hk⟩
        rw [if_neg c3]; exact ⟨_, rfl, Keep.refl hs⟩
      · rw [if_neg c1]
        by_cases c2 : reloc_set_is_rel64 b.stype = true
        · rw [if_pos c2]
          obtain ⟨b', h, hk⟩ := setGeneric_keep Reloc.opsOk64rel enc b hs idx hi e
          rw [h]; exact ⟨_, rfl, hk⟩
        rw [if_neg c2]
        by_cases c3 : reloc_set_is_rela64 b.stype = true
        · rw [if_pos c3]
          obtain ⟨b', h, hk⟩ := setGeneric_keep Reloc.opsOk64rela enc b hs idx hi e
          rw [h]; exact ⟨_, rfl, hk⟩
        rw [if_neg c3]; exact ⟨_, rfl, Keep.refl hs⟩
  obtain ⟨r, hr, hk⟩ := key
  unfold TQ.relSet
  rw [hr]; exact ⟨_, rfl, hk⟩

theorem swapBody_keep (enc : Enc) (first second : BitVec 64) (b : SecBuf) (hs : Sec b) (i : BitVec 32)
    (cur : Reloc.Entry) : ∃ r, TQ.swapBody enc first second b i cur = .ok r ∧ Keep r.1 b := by
  unfold TQ.swapBody
  obtain ⟨g, hg⟩ := relGet_total enc b hs (reloc_swap_idx_get i)
  rw [hg]
  dsimp only
  have s1 : ∃ b1, (if reloc_swap_eq_first (g.getD cur).symbol first = true then
        TQ.relSet enc b (reloc_swap_idx_set1 i) { g.getD cur with symbol := reloc_swap_arg_second second }
      else pure b) = .ok b1 ∧ Keep b1 b := by
    by_cases c : reloc_swap_eq_first (g.getD cur).symbol first = true
    · rw [if_pos c]; exact relSet_keep enc b hs _ _
    · rw [if_neg c]; exact ⟨_, rfl, Keep.refl hs⟩
  obtain ⟨b1, h1, k1⟩ := s1
  rw [h1]
  dsimp only
  have s2 : ∃ b2, (if reloc_swap_eq_second (g.getD cur).symbol second = true then
        TQ.relSet enc b1 (reloc_swap_idx_set2 i) { g.getD cur with symbol := reloc_swap_arg_first first }
      else pure b1) = .ok b2 ∧ Keep b2 b1 := by
    by_cases c : reloc_swap_eq_second (g.getD cur).symbol second = true
    · rw [if_pos c]; exact relSet_keep enc b1 k1.sec _ _
    · rw [if_neg c]; exact ⟨_, rfl, Keep.refl k1.sec⟩
  obtain ⟨b2, h2, k2⟩ := s2
  rw [h2]
  exact ⟨_, rfl, k2.trans k1⟩

theorem entriesNumV_keep {b' b : SecBuf} (h : Keep b' b) : Reloc.entriesNumV b' = Reloc.entriesNumV b := by
  unfold Reloc.entriesNumV; rw [h.size, h.entSize]

/-- the loop of `swap_symbols`: fewer than 2^32 entries, so the 32-bit loop variable reaches the count -/
theorem swapLoop_keep (enc : Enc) (first second : BitVec 64) (b0 : SecBuf)
    (hn : (Reloc.entriesNumV b0).toNat < 4294967296) :
    ∀ (fuel : Nat) (b : SecBuf) (i : BitVec 32) (cur : Reloc.Entry), Keep b b0 →
      (Reloc.entriesNumV b0).toNat + 1 ≤ fuel + i.toNat → i.toNat ≤ (Reloc.entriesNumV b0).toNat →
      ∃ b', TQ.swapLoop enc first second fuel b i cur = .ok b' ∧ Keep b' b0 := by
  intro fuel
  induction fuel with
  | zero => intro b i cur _ h2 h3; omega
  | succ k ih =>
    intro b i cur hk hf hi
    unfold TQ.swapLoop
    rw [Reloc.entriesNum_ok]
    dsimp only
    rw [entriesNumV_keep hk]
    by_cases hc : (!reloc_swap_loop_cond i (Reloc.entriesNumV b0)) = true
    · rw [if_pos hc]; exact ⟨_, rfl, hk⟩
    rw [if_neg hc]
    have hlt : i.toNat < (Reloc.entriesNumV b0).toNat := by
      have il := i.isLt
      simp only [reloc_swap_loop_cond, Bool.not_eq_true', BitVec.ult, BitVec.toNat_setWidth, decide_eq_false_iff_not,
        Decidable.not_not, Nat.reducePow] at hc il
      rw [Nat.mod_eq_of_lt (by omega)] at hc
      exact hc
    obtain ⟨r, hr, kr⟩ := swapBody_keep enc first second b hk.sec i cur
    rw [hr]
    obtain ⟨b1, cur1⟩ := r
    dsimp only
    have hi1 : (i + 1).toNat = i.toNat + 1 := by
      have h1' : (1 : BitVec 32).toNat = 1 := rfl
      simp only [BitVec.toNat_add, h1', Nat.reducePow]
      omega
    exact ih b1 (i + 1) cur1 (kr.trans hk) (by rw [hi1]; omega) (by rw [hi1]; omega)

/-- **`swap_symbols` is total** on a `Sec` section smaller than 4 GiB, and keeps it `Sec` -/
theorem swapSymbols_keep (enc : Enc) (b : SecBuf) (hs : Sec b) (hsmall0 : Small b)
    (first second : BitVec 64) : ∃ b', TQ.swapSymbols enc b first second = .ok b' ∧ Keep b' b := by
  unfold TQ.swapSymbols
  by_cases h1 : tq_swap_nodata (secData b).isNone = true
  · rw [if_pos h1]; exact ⟨_, rfl, Keep.refl hs⟩
  rw [if_neg h1]
  have hsmall : b.size.toNat < 4294967296 := by
    rw [hs.secData] at h1
    cases hd : b.data with
    | none => simp [tq_swap_nodata, hd] at h1
    | some d => exact hsmall0 d hd
  have hn : (Reloc.entriesNumV b).toNat < 4294967296 := by
    rw [Reloc.entriesNumV_toNat]
    exact Nat.lt_of_le_of_lt (Nat.div_le_self _ _) hsmall
  exact swapLoop_keep enc first second b hn _ b 0 _ (Keep.refl hs) (by simp) (by simp)

/-- the invariant of the callback's state: every relocation section is `Sec` and small -/
def RelsOk (rels : List SecBuf) : Prop := ∀ r ∈ rels, Sec r ∧ Small r

theorem swapAll_ok (enc : Enc) (a b : BitVec 64) :
    ∀ (rels : List SecBuf), RelsOk rels → ∃ rels', TQ.swapAll enc rels a b = .ok rels' ∧ RelsOk rels' := by
  intro rels
  induction rels with
  | nil => intro _; exact ⟨[], rfl, fun r hr => by cases hr⟩
  | cons r rs ih =>
    intro h
    unfold TQ.swapAll
    obtain ⟨hr1, hr2⟩ := h r (List.mem_cons_self ..)
    obtain ⟨r', h1, k1⟩ := swapSymbols_keep enc r hr1 hr2 a b
    rw [h1]
    dsimp only
    obtain ⟨rs', h2, k2⟩ := ih (fun x hx => h x (List.mem_cons_of_mem _ hx))
    rw [h2]
    refine ⟨_, rfl, ?_⟩
    intro x hx
    rcases List.mem_cons.mp hx with rfl | hx
    · exact ⟨k1.sec, k1.small hr2⟩
    · exact k2 x hx

/-- **`arrange_local_symbols` with the `swap_symbols` callback is total** on any `Sec` symbol section
    and any `Sec` relocation sections (all smaller than 4 GiB), whatever their header fields and contents -/
theorem arrange_total (enc : Enc) (s : SecBuf) (hs : Sec s) (hsmall0 : Small s)
    (rels : List SecBuf) (hr : RelsOk rels) :
    ∃ r, TQ.arrange (TQ.swapAll enc) s rels = .ok r := by
  unfold TQ.arrange
  by_cases h1 : tq_arrange_nodata (secData s).isNone = true
  · rw [if_pos h1]; exact ⟨_, rfl⟩
  rw [if_neg h1]
  rw [hs.secData] at h1
  cases hd : s.data with
  | none => simp [tq_arrange_nodata, hd] at h1
  | some d =>
    have hsmall := hsmall0 d hd
    by_cases hc : C10.symCount s = 0
    · rw [C10.arrange_empty _ s rels hc]; exact ⟨_, rfl⟩
    · -- a non-zero count: `get_symbols_num()`'s guards hold, the section is `Ready`
      have hnum : arr_num_ok s.entSize (Arrange.minSymSize s.cls) s.size s.streamSize = true := by
        by_cases hk : arr_num_ok s.entSize (Arrange.minSymSize s.cls) s.size s.streamSize = true
        · exact hk
        · exfalso; apply hc
          simp only [C10.symCount, Arrange.symbolsNum, hk, Bool.false_eq_true, if_false]; rfl
      have hready : C10.Ready s := by
        have hl := hs.buf d hd
        simp only [arr_num_ok, Bool.and_eq_true, BitVec.ule, decide_eq_true_eq] at hnum
        have hmin : (Arrange.sitesOf s.cls).symSize ≤ s.entSize.toNat ∧ 16 ≤ s.entSize.toNat := by
          have h32 : (Arrange.minSymSize .c32).toNat = 16 ∧ (Arrange.sitesOf .c32).symSize = 16 := by decide
          have h64 : (Arrange.minSymSize .c64).toNat = 24 ∧ (Arrange.sitesOf .c64).symSize = 24 := by decide
          have := hnum.1
          cases hcl : s.cls
          · rw [hcl, h32.1] at this; rw [h32.2]; omega
          · rw [hcl, h64.1] at this; rw [h64.2]; omega
        refine ⟨by rw [hd]; rfl, hs.settled, hmin.1, by rw [hd]; simp; omega, hnum.2, ?_⟩
        apply Nat.div_lt_of_lt_mul
        calc s.size.toNat < 16 * 4294967295 := by omega
          _ ≤ s.entSize.toNat * 4294967295 := Nat.mul_le_mul_right _ hmin.2
      have hcb : C10.CbRefines (C10.symCount s) (TQ.swapAll enc) (fun (u : Unit) _ _ => u) (fun rels _ => RelsOk rels) := by
        intro stb sta i j hR _ _
        obtain ⟨rels', h, hk⟩ := swapAll_ok enc i j stb hR
        exact ⟨rels', h, hk⟩
      exact C10.arrange_total (TQ.swapAll enc) (fun (u : Unit) _ _ => u) (fun rels _ => RelsOk rels) s hready hcb rels () hr

end C18
end ElfioVerif
