/-
The member lists the loader gives its segments name existing sections (used by C01's `dump_total`:
`dump::segment_headers` evaluates `reader.sections[ seg->get_section_index_at( j ) ]->get_name()`).

  MembersOk o      every member index of every segment of `o` is below the number of sections
  load_members     `load` establishes it (sections carry their position as index, at most 65535 of
                   them, so the 16-bit member indices do not wrap)
  … and the data requests (`secGetData`, `segGetData`, `free_data`) leave the member lists alone.
-/
import ElfioVerif.Lemmas.LoadSafety
namespace ElfioVerif
open Gen

/-- every member index of every segment names an existing section -/
def MembersOk (o : Obj) : Prop := ∀ g ∈ o.segs, ∀ m ∈ g.secs, m.toNat < o.secs.length

/-- a section list as the loader builds it: at most 65535 entries, each carrying an index below
    the length -/
def SecsOk (secs : List SecBuf) : Prop := secs.length ≤ 65535 ∧ ∀ b ∈ secs, b.index < secs.length

theorem secLoad_index (c : Cls) (enc : Enc) (tr : List Trans) (ls : LoadSt) (hdrOff : Int)
    (isLazy : Bool) (idx : Nat) : (secLoad c enc tr ls hdrOff isLazy idx).2.index = idx := by
  rw [secLoad_eq]
  split
  · rfl
  · split
    · show (secGetData c tr _ _).2.index = idx
      rw [(secGetData_sameHdr c tr _ _).index]
      simp [secHdrOnly, secB0]
    · simp [secHdrOnly, secB0]

theorem loadSectionsLoop_index (c : Cls) (enc : Enc) (tr : List Trans) (isLazy : Bool) (shoff : Int)
    (entsize : Nat) :
    ∀ (n i : Nat) (ls : LoadSt) (acc : List SecBuf), acc.length = i → (∀ b ∈ acc, b.index < i) →
      (loadSectionsLoop c enc tr isLazy shoff entsize n i ls acc).2.length = i + n ∧
      ∀ b ∈ (loadSectionsLoop c enc tr isLazy shoff entsize n i ls acc).2, b.index < i + n := by
  intro n
  induction n with
  | zero =>
    intro i ls acc hl hacc
    simp only [loadSectionsLoop, List.length_reverse, Nat.add_zero, List.mem_reverse]
    exact ⟨hl, hacc⟩
  | succ n ih =>
    intro i ls acc hl hacc
    rw [loadSectionsLoop_succ]
    have := ih (i + 1) (secLoad c enc tr ls (shoff + (Int.ofNat i) * (Int.ofNat entsize)) isLazy i).1
      ((secLoad c enc tr ls (shoff + (Int.ofNat i) * (Int.ofNat entsize)) isLazy i).2 :: acc)
      (by simp [hl])
      (by
        intro b hb
        rcases List.mem_cons.mp hb with rfl | hb
        · rw [secLoad_index]; omega
        · have := hacc b hb; omega)
    rw [show i + (n + 1) = i + 1 + n by omega]
    exact this

theorem loadSecs0_secsOk (c : Cls) (enc : Enc) (tr : List Trans) (hdr : Bytes) (isLazy : Bool) (st : IStream) :
    SecsOk (loadSecs0 c enc tr hdr isLazy st).2 := by
  unfold loadSecs0
  split
  · exact ⟨by simp, fun b hb => by cases hb⟩
  · obtain ⟨h1, h2⟩ := loadSectionsLoop_index c enc tr isLazy (Hdr.e_shoff c enc hdr).toInt
      (Hdr.e_shentsize c enc hdr).toNat (Hdr.e_shnum c enc hdr).toNat 0 { st := st } [] rfl
      (fun b hb => by cases hb)
    have hn := (Hdr.e_shnum c enc hdr).isLt
    simp only [Nat.zero_add] at h1 h2
    refine ⟨by rw [h1]; omega, fun b hb => ?_⟩
    rw [h1]; exact h2 b hb

theorem SecsOk.set {secs : List SecBuf} (h : SecsOk secs) (k : Nat) (b' b : SecBuf)
    (hget : secs[k]? = some b) (hi : b'.index = b.index) : SecsOk (secs.set k b') := by
  refine ⟨by rw [List.length_set]; exact h.1, fun x hx => ?_⟩
  rw [List.length_set]
  rcases List.mem_or_eq_of_mem_set hx with hx | rfl
  · exact h.2 x hx
  · rw [hi]; exact h.2 b (List.mem_of_getElem? hget)

theorem SecsOk.map {secs : List SecBuf} (h : SecsOk secs) (f : SecBuf → SecBuf)
    (hf : ∀ b, (f b).index = b.index) : SecsOk (secs.map f) := by
  refine ⟨by rw [List.length_map]; exact h.1, fun x hx => ?_⟩
  rw [List.length_map]
  obtain ⟨b, hb, rfl⟩ := List.mem_map.mp hx
  rw [hf]; exact h.2 b hb

/-- `loadNamesK` hands its continuation a list that is still `SecsOk` (and `LoadedSec`) -/
theorem loadNamesK_members (c : Cls) (enc : Enc) (tr : List Trans) (hdr : Bytes) (ls : LoadSt)
    (secs : List SecBuf) (k : LoadSt × List SecBuf → M LoadRes) (img : Bytes) (kind : StreamKind)
    (P : LoadRes → Prop)
    (hk : ∀ ls secs, SecsOk secs → ∀ r, k (ls, secs) = .ok r → P r)
    (hs : StOk tr img kind ls) (hsecs : ∀ b ∈ secs, LoadedSec tr b img) (hok : SecsOk secs) :
    ∀ r, loadNamesK c enc tr hdr ls secs k = .ok r → P r := by
  unfold loadNamesK
  split
  · exact hk ls secs hok
  · split
    · exact hk ls secs hok
    · rename_i strtab hget
      have hmem : strtab ∈ secs := List.mem_of_getElem? hget
      obtain ⟨-, h2, h3⟩ := secGetData_spec c tr ls strtab img kind hs (hsecs _ hmem)
      rw [resolveNames_eq _ h2.bufOk]
      apply hk
      exact (hok.set _ _ _ hget h3.index).map _ (fun b => (withName_sameHdr _ b).index)

theorem loadSegmentsLoop_members (c : Cls) (enc : Enc) (tr : List Trans) (isLazy : Bool) (phoff : Int)
    (entsize : Nat) (secs : List SecBuf) (hok : SecsOk secs) :
    ∀ (n i : Nat) (ls : LoadSt) (acc : List Seg),
      (∀ g ∈ acc, ∀ m ∈ g.secs, m.toNat < secs.length) →
      ∀ g ∈ (loadSegmentsLoop c enc tr isLazy phoff entsize secs n i ls acc).2.1,
        ∀ m ∈ g.secs, m.toNat < secs.length := by
  intro n
  induction n with
  | zero =>
    intro i ls acc hacc g hg
    exact hacc g (by simpa [loadSegmentsLoop] using hg)
  | succ n ih =>
    intro i ls acc hacc
    rw [loadSegmentsLoop_succ]
    split
    · intro g hg; exact hacc g (by simpa using hg)
    · apply ih
      intro g hg
      rcases List.mem_cons.mp hg with rfl | hg
      · intro m hm
        simp only [List.mem_map, List.mem_filter] at hm
        obtain ⟨b, ⟨hb, -⟩, rfl⟩ := hm
        have h1 := hok.2 b hb
        have h2 := hok.1
        simp only [BitVec.toNat_ofNat, Nat.reducePow]
        omega
      · exact hacc g hg

theorem loadSegsPhase_members (o : Obj) (c : Cls) (enc : Enc) (hdr : Bytes) (isLazy : Bool) (ls : LoadSt)
    (secs : List SecBuf) (ho : o.segs = []) (hok : SecsOk secs) :
    ∀ r, loadSegsPhase o c enc hdr isLazy ls secs = .ok r → MembersOk r.obj := by
  intro r hr
  unfold loadSegsPhase at hr
  split at hr
  · cases hr
    intro g hg
    simp only [ho] at hg
    cases hg
  · cases hr
    exact loadSegmentsLoop_members c enc o.trans isLazy _ _ secs hok _ 0 ls [] (fun g hg => by cases hg)

theorem loadAfterHdr_members (o : Obj) (c : Cls) (enc : Enc) (hdr : Bytes) (isLazy : Bool) (st : IStream)
    (ho : o.segs = []) : ∀ r, loadAfterHdr o c enc hdr isLazy st = .ok r → MembersOk r.obj := by
  unfold loadAfterHdr
  obtain ⟨h1, h2⟩ := loadSecs0_spec c enc o.trans hdr isLazy st
  have h3 := loadSecs0_secsOk c enc o.trans hdr isLazy st
  split
  · exact loadSegsPhase_members o c enc hdr isLazy _ _ ho h3
  · exact loadNamesK_members c enc o.trans hdr _ _ _ st.data st.kind _
      (fun ls secs hok => loadSegsPhase_members o c enc hdr isLazy ls secs ho hok) h1 h2 h3

theorem failRes_members (o : Obj) (st : IStream) (ho : o.segs = []) : MembersOk (failRes o st).obj := by
  intro g hg
  simp only [failRes, ho] at hg
  cases hg

/-- **load_members** : the member lists of a loaded object name existing sections -/
theorem load_members (o : Obj) (st : IStream) (isLazy : Bool) (r : LoadRes)
    (h : load o st isLazy = .ok r) : MembersOk r.obj := by
  rw [load_eq] at h
  dsimp only at h
  split at h
  · cases h; exact failRes_members _ _ rfl
  split at h
  · cases h; exact failRes_members _ _ rfl
  split at h
  · cases h; exact failRes_members _ _ rfl
  · cases h; exact failRes_members _ _ rfl
  · split at h
    · cases h; exact failRes_members _ _ rfl
    · exact loadAfterHdr_members _ _ _ _ _ _ rfl r h

/-! ### the data requests leave the member lists alone -/

theorem segLoadData_secs (c : Cls) (tr : List Trans) (ls : LoadSt) (g : Seg) :
    (segLoadData c tr ls g).2.1.secs = g.secs := by
  rw [segLoadData_eq]
  repeat' split
  all_goals rfl

theorem segGetData_secs (c : Cls) (tr : List Trans) (ls : LoadSt) (g : Seg) :
    (segGetData c tr ls g).2.secs = g.secs := by
  rw [segGetData_eq]
  split
  · exact segLoadData_secs c tr ls g
  · rfl

/-- an object whose section count and segment member lists are those of `o` -/
theorem MembersOk.of_same {o o' : Obj} (h : MembersOk o) (hl : o'.secs.length = o.secs.length)
    (hg : ∀ g' ∈ o'.segs, ∃ g ∈ o.segs, g'.secs = g.secs) : MembersOk o' := by
  intro g' hg' m hm
  obtain ⟨g, hgm, e⟩ := hg g' hg'
  rw [hl]
  exact h g hgm m (e ▸ hm)

end ElfioVerif
