/-
Closed-form no-wrap: a sufficient condition on the *input* object for `layoutNW`
(Lemmas/Layout.lean), so that the domain hypothesis of the writer theorems becomes plain bounds.

Idea: the file cursor only grows, by bounded amounts, a bounded number of times.
 * pass 2, one member (`wsdStep`): a not yet generated, non-NULL member moves the cursor by
   `gap + size` with `gap < 2^40` (alignment gap `< addrAlign`, address gap `≤ addr - vaddr`) and
   `size < 2^40`, and turns one `false` of `section_generated` into `true`;
 * pass 2, segment start (`segInit`): at most `+ (align + adj) % max(align,1) < 2^40`, once per segment;
 * pass 3: alignment gap + size per section;
 * section header table: `+ ≤ 16`.
The potential `pos + 2^41 * #(not yet generated sections)` therefore never increases along
`write_segment_data`, and increases by `< 2^40` per segment.

All bounds are written as numerals: `2^40 = 1099511627776`, `2^41 = 2199023255552`,
`2^62 = 4611686018427387904`.
-/
import ElfioVerif.Lemmas.Layout
namespace ElfioVerif
open Gen

namespace Small

/-! ### list helpers -/

theorem count_false_set (l : List Bool) (i : Nat) (h : l[i]? = some false) :
    (l.set i true).count false + 1 = l.count false := by
  induction l generalizing i with
  | nil => simp at h
  | cons x rest ih =>
    cases i with
    | zero =>
      simp only [List.getElem?_cons_zero, Option.some.injEq] at h
      subst h
      simp [List.count_cons]
    | succ i =>
      simp only [List.getElem?_cons_succ] at h
      have := ih i h
      simp only [List.set_cons_succ, List.count_cons]
      omega

theorem count_false_set_le (l : List Bool) (i : Nat) :
    (l.set i true).count false ≤ l.count false := by
  induction l generalizing i with
  | nil => simp
  | cons x rest ih =>
    cases i with
    | zero =>
      simp only [List.set_cons_zero, List.count_cons]
      cases x <;> simp
    | succ i =>
      have := ih i
      simp only [List.set_cons_succ, List.count_cons]
      omega

/-! ### the invariant -/

/-- The invariant of pass 2 used for the closed-form bound.  `B` bounds the potential
    `pos + 2^41 * #(false entries of section_generated)`; every section has size and alignment
    below `2^40`; every not yet generated member with an explicit address of every segment of `G`
    lies at most `2^40` above the segment's virtual address. -/
structure SmallInv (B : Nat) (G : List Seg) (lay : Layout) : Prop where
  pot : lay.pos.toNat + 2199023255552 * lay.gen.count false ≤ B
  len : lay.secs.length < 65536
  sz : ∀ (k : Nat) (s : SecBuf), lay.secs[k]? = some s →
    s.size.toNat < 1099511627776 ∧ s.addrAlign.toNat < 1099511627776
  addr : ∀ g ∈ G, ∀ idx ∈ g.secs, ∀ s : SecBuf, lay.secs[idx.toNat]? = some s →
    lay.gen[idx.toNat]? = some false → s.addrSet = true →
    g.vaddr.toNat ≤ s.addr.toNat ∧ s.addr.toNat - g.vaddr.toNat < 1099511627776

theorem SmallInv.mono {B B' : Nat} {G : List Seg} {lay : Layout} (h : SmallInv B G lay) (hb : B ≤ B') :
    SmallInv B' G lay := ⟨Nat.le_trans h.pot hb, h.len, h.sz, h.addr⟩

/-! ### one member -/

/-- the gap in front of a not yet generated member is below `2^40` -/
theorem wsdGap_small (g : Seg) (segStart pos file : BitVec 64) (sec : SecBuf) (gap : BitVec 64)
    (h : wsdGap g segStart pos file sec false = some gap)
    (hal : sec.addrAlign.toNat < 1099511627776)
    (haddr : sec.addrSet = true →
      g.vaddr.toNat ≤ sec.addr.toNat ∧ sec.addr.toNat - g.vaddr.toNat < 1099511627776) :
    gap.toNat < 1099511627776 := by
  have e0 : (BitVec.signExtend 64 0#32) = 0#64 := by decide
  unfold wsdGap at h
  split at h
  · rename_i hb
    have hset : sec.addrSet = true := by
      simp only [wsd_addr_branch, Bool.and_eq_true] at hb
      exact hb.1.1.1.2
    obtain ⟨h1, h2⟩ := haddr hset
    simp only at h
    split at h
    · exact nomatch h
    · rename_i hlt
      simp only [Option.some.injEq] at h
      subst h
      have ha := sec.addr.isLt; have hv := g.vaddr.isLt
      have hreq : (wsd_req_offset sec.addr g.vaddr).toNat = sec.addr.toNat - g.vaddr.toNat := by
        simp only [wsd_req_offset, BitVec.toNat_sub, Nat.reducePow]; omega
      generalize wsd_req_offset sec.addr g.vaddr = req at hreq hlt ⊢
      generalize wsd_cur_offset pos segStart = cur at hlt ⊢
      have hr := req.isLt; have hcu := cur.isLt
      simp only [wsd_req_lt_cur, wsd_gap_addr, BitVec.ult, BitVec.toNat_sub, decide_eq_true_eq,
        Nat.reducePow] at hlt ⊢
      omega
  · split at h
    · simp only [Option.some.injEq] at h
      subst h
      simp only [wsd_gap_align, wsd_error, wsd_align_zero, e0, beq_iff_eq]
      by_cases hz : sec.addrAlign = 0#64
      · simp only [hz, if_true]
        rw [BitVec.toNat_umod]
        exact Nat.lt_of_lt_of_le (Nat.mod_lt _ (by decide)) (by decide)
      · simp only [hz, if_false]
        rw [BitVec.toNat_umod]
        have hne : sec.addrAlign.toNat ≠ 0 := by
          intro e; apply hz; apply BitVec.eq_of_toNat_eq; simpa using e
        have := Nat.mod_lt (sec.addrAlign - pos % sec.addrAlign).toNat (show 0 < sec.addrAlign.toNat by omega)
        omega
    · simp only [Bool.false_eq_true, if_false, Option.some.injEq] at h
      subst h
      decide

/-- the cursor after placing a member, without the section -/
theorem wsdPlace_snd (c : Cls) (g : Seg) (segStart pos gap : BitVec 64) (sec : SecBuf) :
    (wsdPlace c g segStart pos gap sec).2 =
      if wsd_counts_file sec.stype then wsd_advance (wsd_cursor_gap pos gap) sec.size
      else wsd_cursor_gap pos gap := by
  unfold wsdPlace
  simp only
  cases sec.addrSet <;>
    simp only [Bool.not_true, Bool.not_false, Bool.false_eq_true, if_true, if_false,
      (setOffset_moved c _ _).stype, (setOffset_moved c _ _).size]

/-- **One step of `write_segment_data` under the bounds.**  ELF64, `g ∈ G`, `idx` a member of `g`,
    potential bounded by `B ≤ 2^62`: the step does not wrap, and the invariant is kept with the
    same `B`. -/
theorem wsdStepNW_of_bound (c : Cls) (g : Seg) (segStart : BitVec 64) (st : WsdSt) (idx : BitVec 16)
    (B : Nat) (G : List Seg) (hc : c = .c64) (hg : g ∈ G) (hidx : idx ∈ g.secs)
    (hB : B ≤ 4611686018427387904) (hinv : SmallInv B G st.lay) :
    wsdStepNW c g segStart st idx = true ∧
    ∀ st', wsdStep c g segStart st idx = .ok (some st') → SmallInv B G st'.lay := by
  subst hc
  rw [wsdStep_eq]
  unfold wsdStepNW
  cases hsec : st.lay.secs[idx.toNat]? with
  | none => exact ⟨rfl, fun st' h => by simp [throw, throwThe, MonadExceptOf.throw] at h⟩
  | some sec =>
  cases hgen : st.lay.gen[idx.toNat]? with
  | none => exact ⟨rfl, fun st' h => by simp [throw, throwThe, MonadExceptOf.throw] at h⟩
  | some generated =>
  simp only
  have hilen : idx.toNat < st.lay.gen.length := by
    rcases Nat.lt_or_ge idx.toNat st.lay.gen.length with h' | h'
    · exact h'
    · rw [List.getElem?_eq_none h'] at hgen; exact nomatch hgen
  -- marking `idx` as generated (sections unchanged or only `idx` replaced by a `Moved` copy)
  have hmark : ∀ (secs' : List SecBuf) (pos' : BitVec 64),
      secs'.length = st.lay.secs.length →
      (∀ k, k ≠ idx.toNat → secs'[k]? = st.lay.secs[k]?) →
      (∀ s', secs'[idx.toNat]? = some s' → SecBuf.Moved sec s') →
      pos'.toNat + 2199023255552 * (st.lay.gen.set idx.toNat true).count false ≤ B →
      SmallInv B G { secs := secs', pos := pos', gen := st.lay.gen.set idx.toNat true } := by
    intro secs' pos' hlen hoth hself hpot
    refine ⟨hpot, by simp only [hlen]; exact hinv.len, ?_, ?_⟩
    · intro k s hk
      by_cases hki : k = idx.toNat
      · subst hki
        have hm := hself s hk
        have := hinv.sz _ sec hsec
        rw [hm.size, hm.addrAlign]; exact this
      · rw [hoth k hki] at hk; exact hinv.sz k s hk
    · intro g' hg' j hj s hs hgj has
      simp only at hs hgj
      have hne : j.toNat ≠ idx.toNat := by
        intro e
        rw [e, List.getElem?_set] at hgj
        simp [hilen] at hgj
      rw [hoth _ hne] at hs
      rw [List.getElem?_set] at hgj
      simp only [Ne.symm hne, if_false] at hgj
      exact hinv.addr g' hg' j hj s hs hgj has
  cases generated with
  | true =>
    refine ⟨rfl, ?_⟩
    intro st' h
    simp only at h
    by_cases hnull : wsd_is_null sec.stype = true
    · simp only [hnull, if_true, pure, Except.pure, Except.ok.injEq, Option.some.injEq] at h
      subst h
      apply hmark st.lay.secs st.lay.pos rfl (fun _ _ => rfl)
      · intro s' hs'; rw [hsec] at hs'; simp only [Option.some.injEq] at hs'; subst hs'; exact SecBuf.Moved.refl _
      · have := count_false_set_le st.lay.gen idx.toNat
        have := hinv.pot
        omega
    · have hnull' : wsd_is_null sec.stype = false := by simpa using hnull
      simp only [hnull', Bool.false_eq_true, if_false] at h
      cases hgap : wsdGap g segStart st.lay.pos st.file sec true with
      | none => rw [hgap] at h; simp [pure, Except.pure] at h
      | some gap =>
        rw [hgap] at h
        simp only [if_true, pure, Except.pure, Except.ok.injEq, Option.some.injEq] at h
        subst h
        exact hinv
  | false =>
    simp only
    by_cases hnull : wsd_is_null sec.stype = true
    · simp only [hnull, if_true, true_and]
      intro st' h
      simp only [pure, Except.pure, Except.ok.injEq, Option.some.injEq] at h
      subst h
      apply hmark st.lay.secs st.lay.pos rfl (fun _ _ => rfl)
      · intro s' hs'; rw [hsec] at hs'; simp only [Option.some.injEq] at hs'; subst hs'; exact SecBuf.Moved.refl _
      · have := count_false_set_le st.lay.gen idx.toNat
        have := hinv.pot
        omega
    · have hnull' : wsd_is_null sec.stype = false := by simpa using hnull
      simp only [hnull', Bool.false_eq_true, if_false]
      cases hgap : wsdGap g segStart st.lay.pos st.file sec false with
      | none => exact ⟨rfl, fun st' h => by simp [pure, Except.pure] at h⟩
      | some gap =>
        simp only
        obtain ⟨hsz, hal⟩ := hinv.sz _ sec hsec
        have hgs := wsdGap_small g segStart st.lay.pos st.file sec gap hgap hal
          (hinv.addr g hg idx hidx sec hsec hgen)
        have hcnt := count_false_set st.lay.gen idx.toNat hgen
        have hpot := hinv.pot
        have hp := st.lay.pos.isLt
        have h1 : (wsd_cursor_gap st.lay.pos gap).toNat = st.lay.pos.toNat + gap.toNat := by
          simp only [wsd_cursor_gap, BitVec.toNat_add, Nat.reducePow]; omega
        have h2 : (wsdPlace .c64 g segStart st.lay.pos gap sec).2.toNat =
            st.lay.pos.toNat + gap.toNat + (if wsd_counts_file sec.stype then sec.size.toNat else 0) := by
          rw [wsdPlace_snd]
          split
          · simp only [wsd_advance, BitVec.toNat_add, Nat.reducePow, h1]; omega
          · rw [h1]; omega
        constructor
        · simp only [Bool.and_eq_true, decide_eq_true_eq, fitsB, and_true]
          rw [h2, h1]
          constructor
          · omega
          · split <;> omega
        · intro st' h
          simp only [pure, Except.pure, Except.ok.injEq, Option.some.injEq] at h
          subst h
          apply hmark
          · exact List.length_set
          · intro k hk
            rw [List.getElem?_set]; simp [Ne.symm hk]
          · intro s' hs'
            have hl : idx.toNat < st.lay.secs.length := by
              rcases Nat.lt_or_ge idx.toNat st.lay.secs.length with h' | h'
              · exact h'
              · rw [List.getElem?_eq_none h'] at hsec; exact nomatch hsec
            rw [List.getElem?_set] at hs'
            simp only [if_true, hl, Option.some.injEq] at hs'
            subst hs'
            exact wsdPlace_moved _ _ _ _ _ _
          · rw [h2]
            split <;> omega

/-- **`write_segment_data` under the bounds**: no wrap in the whole member loop, and the invariant
    is kept with the same `B`. -/
theorem wsdLoopNW_of_bound (c : Cls) (g : Seg) (segStart : BitVec 64) (l : List (BitVec 16)) (st : WsdSt)
    (B : Nat) (G : List Seg) (hc : c = .c64) (hg : g ∈ G) (hl : ∀ idx ∈ l, idx ∈ g.secs)
    (hB : B ≤ 4611686018427387904) (hinv : SmallInv B G st.lay) :
    wsdLoopNW c g segStart l st = true ∧
    ∀ st', wsdLoop c g segStart l st = .ok (some st') → SmallInv B G st'.lay := by
  induction l generalizing st with
  | nil =>
    refine ⟨rfl, ?_⟩
    intro st' h
    simp only [wsdLoop, pure, Except.pure, Except.ok.injEq, Option.some.injEq] at h
    subst h; exact hinv
  | cons idx rest ih =>
    obtain ⟨hnw, hstep⟩ := wsdStepNW_of_bound c g segStart st idx B G hc hg
      (hl idx (List.mem_cons_self ..)) hB hinv
    have hrest : ∀ j ∈ rest, j ∈ g.secs := fun j hj => hl j (List.mem_cons_of_mem _ hj)
    unfold wsdLoopNW wsdLoop
    cases hs : wsdStep c g segStart st idx with
    | error e => exact ⟨by simp [hnw], fun st' h => by simp [bind, Except.bind] at h⟩
    | ok r =>
      cases r with
      | none => exact ⟨by simp [hnw], fun st' h => by simp [bind, Except.bind, pure, Except.pure] at h⟩
      | some st1 =>
        obtain ⟨i1, i2⟩ := ih st1 hrest (hstep st1 hs)
        refine ⟨by simp only [hnw, i1, Bool.and_self], ?_⟩
        intro st' h
        simp only [bind, Except.bind] at h
        exact i2 st' h

/-! ### one segment -/

theorem lseg_advance_small (pos align adj : BitVec 64) (hal : align.toNat < 1099511627776)
    (hp : pos.toNat + 1099511627776 ≤ 18446744073709551616) :
    pos.toNat ≤ (lseg_advance pos align adj (lseg_align align)).toNat ∧
    (lseg_advance pos align adj (lseg_align align)).toNat ≤ pos.toNat + 1099511627776 := by
  have hA := lseg_align_toNat align
  have hm : ((align + adj) % lseg_align align).toNat < (lseg_align align).toNat := by
    rw [BitVec.toNat_umod]; exact Nat.mod_lt _ (by omega)
  unfold lseg_advance
  generalize ((align + adj) % lseg_align align) = d at hm ⊢
  have := pos.isLt
  simp only [BitVec.toNat_add, Nat.reducePow]
  omega

/-- where the cursor is after `segInit`: not before, and less than `2^40` after, where it was -/
theorem segInit_pos (c : Cls) (hdrPhoff : BitVec 64) (phentsize phnum : BitVec 16) (lay : Layout) (g : Seg)
    (fg : Bool) (r : Layout × BitVec 64 × BitVec 64 × BitVec 64)
    (h : segInit c hdrPhoff phentsize phnum lay g fg = .ok r)
    (hal : g.align.toNat < 1099511627776)
    (hp : lay.pos.toNat + 1099511627776 ≤ 18446744073709551616) :
    lay.pos.toNat ≤ r.1.pos.toNat ∧ r.1.pos.toNat ≤ lay.pos.toNat + 1099511627776 := by
  unfold segInit at h
  simp only at h
  repeat' split at h
  all_goals first
    | (simp only [pure, Except.pure, Except.ok.injEq] at h; subst h
       first
         | exact ⟨Nat.le_refl _, Nat.le_add_right _ _⟩
         | exact lseg_advance_small _ _ _ hal hp)
    | (simp [throw, throwThe, MonadExceptOf.throw] at h)

/-- **One segment under the bounds**: `segNW` holds, and the invariant is kept with `B + 2^40`. -/
theorem segNW_of_bound (c : Cls) (hdrPhoff : BitVec 64) (phentsize phnum : BitVec 16) (lay : Layout) (g : Seg)
    (B : Nat) (G : List Seg) (hc : c = .c64) (hg : g ∈ G) (hal : g.align.toNat < 1099511627776)
    (hB : B + 1099511627776 ≤ 4611686018427387904) (hinv : SmallInv B G lay) :
    segNW c hdrPhoff phentsize phnum lay g = true ∧
    ∀ lay' g', layoutSegment c hdrPhoff phentsize phnum lay g = .ok (some (lay', g')) →
      SmallInv (B + 1099511627776) G lay' := by
  rw [layoutSegment_eq]
  unfold segNW
  cases hfg : segFirstGen lay g with
  | error e => exact ⟨rfl, fun _ _ h => by simp [bind, Except.bind] at h⟩
  | ok fg =>
    simp only [bind, Except.bind]
    cases hin : segInit c hdrPhoff phentsize phnum lay g fg with
    | error e => exact ⟨rfl, fun _ _ h => by simp at h⟩
    | ok r =>
      simp only
      have hpot := hinv.pot
      obtain ⟨hp1, hp2⟩ := segInit_pos c hdrPhoff phentsize phnum lay g fg r hin hal (by omega)
      have hl := segInit_lay c hdrPhoff phentsize phnum lay g fg r hin
      have hinv1 : SmallInv (B + 1099511627776) G r.1 := by
        rw [hl]
        exact ⟨by simp only; omega, hinv.len, hinv.sz, hinv.addr⟩
      obtain ⟨hnw, hst⟩ := wsdLoopNW_of_bound c g r.2.1 g.secs
        { lay := r.1, mem := r.2.2.1, file := r.2.2.2 } (B + 1099511627776) G hc hg (fun _ h => h) hB hinv1
      constructor
      · subst hc
        simp only [hnw, fitsB, Bool.and_true, decide_eq_true_eq]
        exact hp1
      · intro lay' g' h
        cases hw : wsdLoop c g r.2.1 g.secs { lay := r.1, mem := r.2.2.1, file := r.2.2.2 } with
        | error e => rw [hw] at h; simp at h
        | ok w =>
          rw [hw] at h
          cases w with
          | none => simp [pure, Except.pure] at h
          | some st =>
            simp only [pure, Except.pure, Except.ok.injEq, Option.some.injEq, Prod.mk.injEq] at h
            obtain ⟨rfl, -⟩ := h
            exact hst st hw

/-! ### all segments -/

/-- **Pass 2 under the bounds**: for a list `l` of segments of `G` with alignments below `2^40`,
    `segsNW` holds and the invariant is kept with `B + 2^40 * l.length`. -/
theorem segsNW_of_bound (c : Cls) (hdrPhoff : BitVec 64) (phentsize phnum : BitVec 16) (l : List Seg)
    (lay : Layout) (B : Nat) (G : List Seg) (hc : c = .c64)
    (hl : ∀ g ∈ l, g ∈ G ∧ g.align.toNat < 1099511627776)
    (hB : B + 1099511627776 * l.length ≤ 4611686018427387904) (hinv : SmallInv B G lay) :
    segsNW c hdrPhoff phentsize phnum l lay = true ∧
    ∀ done lay' done', l.foldlM (segsStep c hdrPhoff phentsize phnum) (some (lay, done)) = .ok (some (lay', done')) →
      SmallInv (B + 1099511627776 * l.length) G lay' := by
  induction l generalizing lay B with
  | nil =>
    refine ⟨rfl, ?_⟩
    intro done lay' done' h
    simp only [List.foldlM, pure, Except.pure, Except.ok.injEq, Option.some.injEq, Prod.mk.injEq] at h
    obtain ⟨rfl, -⟩ := h
    exact hinv.mono (by omega)
  | cons g rest ih =>
    simp only [List.length_cons, Nat.mul_add_one, ← Nat.add_assoc] at hB ⊢
    obtain ⟨hgG, hga⟩ := hl g (List.mem_cons_self ..)
    have hrest : ∀ g' ∈ rest, g' ∈ G ∧ g'.align.toNat < 1099511627776 :=
      fun g' h' => hl g' (List.mem_cons_of_mem _ h')
    obtain ⟨hnw, hseg⟩ := segNW_of_bound c hdrPhoff phentsize phnum lay g B G hc hgG hga (by omega) hinv
    unfold segsNW
    simp only [List.foldlM, segsStep, bind, Except.bind]
    cases hs : layoutSegment c hdrPhoff phentsize phnum lay g with
    | error e => exact ⟨by simp [hnw], fun _ _ _ h => by simp at h⟩
    | ok r =>
      cases r with
      | none =>
        refine ⟨by simp [hnw], ?_⟩
        intro done lay' done' h
        simp only [pure, Except.pure] at h
        rw [segsFold_none] at h; simp at h
      | some r =>
        obtain ⟨lay1, g1⟩ := r
        obtain ⟨i1, i2⟩ := ih lay1 (B + 1099511627776) hrest (by omega) (hseg lay1 g1 hs)
        refine ⟨by simp only [hnw, i1, Bool.and_self], ?_⟩
        intro done lay' done' h
        simp only [pure, Except.pure] at h
        exact (i2 _ lay' done' h).mono (by omega)

/-! ### pass 3 -/

/-- **Pass 3 under the bounds**: `looseNW` holds and the final cursor stays below the bound. -/
theorem looseNW_of_bound (c : Cls) (segs : List Seg) (l : List SecBuf) (i : Nat) (pos : BitVec 64) (B : Nat)
    (hc : c = .c64)
    (hsz : ∀ s ∈ l, s.size.toNat < 1099511627776 ∧ s.addrAlign.toNat < 1099511627776)
    (hpot : pos.toNat + 2199023255552 * l.length ≤ B) (hB : B ≤ 4611686018427387904) :
    looseNW c segs l i pos = true ∧ (looseSpec c segs l i pos).2.toNat ≤ B := by
  induction l generalizing i pos with
  | nil => exact ⟨rfl, by simp only [looseSpec, List.length_nil] at hpot ⊢; omega⟩
  | cons s rest ih =>
    simp only [List.length_cons, Nat.mul_add_one, ← Nat.add_assoc] at hpot
    obtain ⟨hs1, hs2⟩ := hsz s (List.mem_cons_self ..)
    have hrest : ∀ t ∈ rest, t.size.toNat < 1099511627776 ∧ t.addrAlign.toNat < 1099511627776 :=
      fun t ht => hsz t (List.mem_cons_of_mem _ ht)
    unfold looseNW looseSpec
    by_cases hw : withoutSegment segs i = true
    · simp only [hw, if_true, (setOffset_moved c s _).stype, (setOffset_moved c s _).size]
      have hp := pos.isLt
      have e0 : (BitVec.signExtend 64 0#32) = 0#64 := by decide
      have e1 : (BitVec.signExtend 64 1#32) = 1#64 := by decide
      have h1 : pos.toNat ≤ (if lsws_need_align s.addrAlign pos then lsws_aligned pos s.addrAlign else pos).toNat ∧
          (if lsws_need_align s.addrAlign pos then lsws_aligned pos s.addrAlign else pos).toNat
            ≤ pos.toNat + 1099511627776 := by
        by_cases hn : lsws_need_align s.addrAlign pos = true
        · simp only [hn, if_true]
          simp only [lsws_need_align, e0, e1, Bool.and_eq_true, BitVec.ult, decide_eq_true_eq,
            BitVec.toNat_ofNat, Nat.reducePow, Nat.reduceMod] at hn
          have hmod : (pos % s.addrAlign).toNat = pos.toNat % s.addrAlign.toNat := BitVec.toNat_umod
          have hlt : pos.toNat % s.addrAlign.toNat < s.addrAlign.toNat := Nat.mod_lt _ (by omega)
          have hsub : (s.addrAlign - pos % s.addrAlign).toNat = s.addrAlign.toNat - pos.toNat % s.addrAlign.toNat := by
            simp only [BitVec.toNat_sub, hmod, Nat.reducePow]; omega
          unfold lsws_aligned
          simp only [BitVec.toNat_add, hsub, Nat.reducePow]
          omega
        · have hn' : lsws_need_align s.addrAlign pos = false := by simpa using hn
          simp only [hn', Bool.false_eq_true, if_false]
          omega
      generalize (if lsws_need_align s.addrAlign pos then lsws_aligned pos s.addrAlign else pos) = pos1 at h1 ⊢
      have hp1 := pos1.isLt
      have h2 : pos1.toNat ≤ (if lsws_occupies s.stype then wsd_advance pos1 s.size else pos1).toNat ∧
          (if lsws_occupies s.stype then wsd_advance pos1 s.size else pos1).toNat
            ≤ pos1.toNat + 1099511627776 := by
        split
        · simp only [wsd_advance, BitVec.toNat_add, Nat.reducePow]; omega
        · omega
      generalize (if lsws_occupies s.stype then wsd_advance pos1 s.size else pos1) = pos2 at h2 ⊢
      obtain ⟨i1, i2⟩ := ih (i + 1) pos2 hrest (by omega)
      subst hc
      refine ⟨?_, i2⟩
      simp only [i1, fitsB, Bool.and_true, Bool.and_eq_true, decide_eq_true_eq]
      exact ⟨h1.1, h2.1⟩
    · have hw' : withoutSegment segs i = false := by simpa using hw
      simp only [hw', Bool.false_eq_true, if_false]
      exact ih (i + 1) pos hrest (by omega)

/-! ### the section header table -/

theorem lst_cursor_small (pos : BitVec 64) (h : pos.toNat ≤ 9223372036854775808) :
    pos.toNat ≤ (lst_cursor pos (lst_error pos)).toNat := by
  have e16 : (BitVec.signExtend 64 16#32) = 16#64 := by decide
  unfold lst_cursor lst_error
  rw [e16]
  have hm : (pos % 16#64).toNat = pos.toNat % 16 := by simp [BitVec.toNat_umod]
  have hs : (16#64 - pos % 16#64).toNat = 16 - pos.toNat % 16 := by
    simp only [BitVec.toNat_sub, hm, BitVec.toNat_ofNat, Nat.reducePow, Nat.reduceMod]; omega
  simp only [BitVec.toNat_add, hs, Nat.reducePow]
  omega

/-! ### `calc_segment_alignment` keeps alignments small -/

theorem calcSegAlign_small_aux (secs : List SecBuf)
    (hs : ∀ s ∈ secs, s.addrAlign.toNat < 1099511627776) (l : List (BitVec 16)) (g g' : Seg)
    (h : l.foldlM (fun g idx =>
      match secs[idx.toNat]? with
      | none => (throw (Fault.vecOob "calc_segment_alignment/sections_[index]") : M Seg)
      | some s => pure (if save_csa_raise s.addrAlign g.align then { g with align := s.addrAlign } else g)) g = .ok g')
    (hg : g.align.toNat < 1099511627776) : g'.align.toNat < 1099511627776 := by
  induction l generalizing g with
  | nil => simp only [List.foldlM, pure, Except.pure, Except.ok.injEq] at h; subst h; exact hg
  | cons idx rest ih =>
    simp only [List.foldlM, bind, Except.bind] at h
    cases hsx : secs[idx.toNat]? with
    | none => rw [hsx] at h; simp [throw, throwThe, MonadExceptOf.throw] at h
    | some s =>
      rw [hsx] at h
      simp only [pure, Except.pure] at h
      refine ih _ h ?_
      split
      · exact hs s (List.mem_of_getElem? hsx)
      · exact hg

theorem mapM_calcSegAlign_small (secs : List SecBuf)
    (hs : ∀ s ∈ secs, s.addrAlign.toNat < 1099511627776) (l l' : List Seg)
    (h : l.mapM (calcSegAlign secs) = .ok l') (hl : ∀ g ∈ l, g.align.toNat < 1099511627776) :
    ∀ g' ∈ l', (∃ g ∈ l, g' = { g with align := g'.align }) ∧ g'.align.toNat < 1099511627776 := by
  induction l generalizing l' with
  | nil =>
    simp only [List.mapM_nil, pure, Except.pure, Except.ok.injEq] at h; subst h
    intro g' hg'; exact absurd hg' List.not_mem_nil
  | cons g rest ih =>
    rw [List.mapM_cons] at h
    simp only [bind, Except.bind] at h
    cases hg : calcSegAlign secs g with
    | error e => rw [hg] at h; simp at h
    | ok g1 =>
      rw [hg] at h
      simp only at h
      cases hr : rest.mapM (calcSegAlign secs) with
      | error e => rw [hr] at h; simp at h
      | ok r' =>
        rw [hr] at h
        simp only [pure, Except.pure, Except.ok.injEq] at h
        subst h
        intro g' hg'
        rcases List.mem_cons.1 hg' with rfl | hg'
        · refine ⟨⟨g, List.mem_cons_self .., calcSegAlign_fields secs g _ hg⟩, ?_⟩
          exact calcSegAlign_small_aux secs hs g.secs g _ hg (hl g (List.mem_cons_self ..))
        · obtain ⟨⟨g0, hg0, he⟩, ha⟩ := ih r' hr (fun x hx => hl x (List.mem_cons_of_mem _ hx)) g' hg'
          exact ⟨⟨g0, List.mem_cons_of_mem _ hg0, he⟩, ha⟩

theorem save_cursor0_lt (a b c : BitVec 16) : (save_cursor0 a b c).toNat < 8589934592 := by
  have ha := a.isLt; have hb := b.isLt; have hc := c.isLt
  have hm : b.toNat * c.toNat < 65536 * 65536 := Nat.mul_lt_mul'' hb hc
  simp only [save_cursor0, BitVec.toNat_add, BitVec.toNat_mul, BitVec.toNat_setWidth, Nat.reducePow]
  simp only [Nat.reduceMul] at hm
  rw [Nat.mod_eq_of_lt (show a.toNat < 18446744073709551616 by omega),
      Nat.mod_eq_of_lt (show b.toNat < 18446744073709551616 by omega),
      Nat.mod_eq_of_lt (show c.toNat < 18446744073709551616 by omega),
      Nat.mod_eq_of_lt (show b.toNat * c.toNat < 18446744073709551616 by omega)]
  omega

end Small

/-! ### the closed-form condition -/

/-- **Small object** — plain bounds on the input of `save` that exclude every 64-bit wrap-around of
    the layout cursor.  ELF64; fewer than `2^16` sections and `2^16` segments; every section's size
    and alignment below `2^40`; every segment's alignment below `2^40`; every member of a segment
    that carries an explicit address lies at or above the segment's virtual address, less than
    `2^40` above it.  (No bound on addresses themselves, on `vaddr`, or on the header fields:
    `e_ehsize + e_phentsize * e_phnum < 2^33` holds for all 16-bit values.) -/
def SmallObject (o : Obj) : Prop :=
  o.cls = .c64 ∧ o.secs.length < 65536 ∧ o.segs.length < 65536 ∧
  (∀ s ∈ o.secs, s.size.toNat < 1099511627776 ∧ s.addrAlign.toNat < 1099511627776) ∧
  (∀ g ∈ o.segs, g.align.toNat < 1099511627776 ∧
    ∀ idx ∈ g.secs, ∀ s ∈ o.secs[idx.toNat]?, s.addrSet = true →
      g.vaddr.toNat ≤ s.addr.toNat ∧ s.addr.toNat - g.vaddr.toNat < 1099511627776)

/-- decide the member condition by going through the member list (not through all of `BitVec 16`) -/
instance smallMembersDec (o : Obj) (g : Seg) : Decidable (∀ idx ∈ g.secs, ∀ s ∈ o.secs[idx.toNat]?, s.addrSet = true →
    g.vaddr.toNat ≤ s.addr.toNat ∧ s.addr.toNat - g.vaddr.toNat < 1099511627776) :=
  List.decidableBAll _ _

instance (o : Obj) : Decidable (SmallObject o) :=
  inferInstanceAs (Decidable (
    o.cls = .c64 ∧ o.secs.length < 65536 ∧ o.segs.length < 65536 ∧
    (∀ s ∈ o.secs, s.size.toNat < 1099511627776 ∧ s.addrAlign.toNat < 1099511627776) ∧
    (∀ g ∈ o.segs, g.align.toNat < 1099511627776 ∧
      ∀ idx ∈ g.secs, ∀ s ∈ o.secs[idx.toNat]?, s.addrSet = true →
        g.vaddr.toNat ≤ s.addr.toNat ∧ s.addr.toNat - g.vaddr.toNat < 1099511627776)))

/-- **Closed-form no-wrap.**  A small object never wraps the layout cursor: the domain hypothesis
    `layoutNW` of the writer theorems follows from plain bounds on the input. -/
theorem smallObject_layoutNW (o : Obj) (h : Bytes) (hs : SmallObject o) : layoutNW o h = true := by
  obtain ⟨hc, hnsec, hnseg, hsz, hseg⟩ := hs
  unfold layoutNW
  cases hl : layoutOf o h with
  | error e => rfl
  | ok r =>
  cases r with
  | none => rfl
  | some res =>
  simp only
  obtain ⟨-, hpos0, hm, ho, hfold, -, hloose, hshoff⟩ := layoutOf_parts o h res hl
  have hp0 : res.pos0.toNat < 8589934592 := by rw [hpos0]; exact Small.save_cursor0_lt _ _ _
  have hsegs0 := Small.mapM_calcSegAlign_small o.secs (fun s hs => (hsz s hs).2) o.segs res.segs0 hm
    (fun g hg => (hseg g hg).1)
  have hperm := orderedSegments_perm _ _ ho
  have hlen0 : res.segs0.length = o.segs.length := by
    have := congrArg List.length (mapM_calcSegAlign o.secs o.segs res.segs0 hm).1
    simpa using this
  have hlen : res.ordered.length < 65536 := by rw [hperm.length_eq, hlen0]; exact hnseg
  -- the invariant at the start of pass 2
  have hinv0 : Small.SmallInv 144115196665790464 res.ordered (lay0Of o res.pos0) := by
    refine ⟨?_, hnsec, ?_, ?_⟩
    · simp only [lay0Of, List.count_replicate_self]
      have := Nat.mod_lt o.secs.length (show 0 < 65536 by decide)
      omega
    · intro k s hk; exact hsz s (List.mem_of_getElem? hk)
    · intro g hg idx hidx s hsx _ has
      obtain ⟨⟨g0, hg0, he⟩, -⟩ := hsegs0 g (hperm.mem_iff.1 hg)
      have hsecs : g.secs = g0.secs := by rw [he]
      have hv : g.vaddr = g0.vaddr := by rw [he]
      rw [hv]
      exact (hseg g0 hg0).2 idx (hsecs ▸ hidx) s hsx has
  have hlo : ∀ g ∈ res.ordered, g ∈ res.ordered ∧ g.align.toNat < 1099511627776 :=
    fun g hg => ⟨hg, (hsegs0 g (hperm.mem_iff.1 hg)).2⟩
  obtain ⟨hnw2, hinv2⟩ := Small.segsNW_of_bound o.cls (Hdr.e_phoff o.cls o.enc res.hdr0)
    (Hdr.e_phentsize o.cls o.enc res.hdr0) (Hdr.e_phnum o.cls o.enc res.hdr0) res.ordered
    (lay0Of o res.pos0) 144115196665790464 res.ordered hc hlo (by omega) hinv0
  have hinv2' := hinv2 [] res.lay2 res.done hfold
  have hpot2 := hinv2'.pot
  have hlen2 := hinv2'.len
  obtain ⟨hnw3, hpos3⟩ := Small.looseNW_of_bound o.cls res.segs res.lay2.secs 0 res.lay2.pos
    360287978779574272 hc
    (fun s hs => by
      obtain ⟨k, hk⟩ := List.getElem?_of_mem hs
      exact hinv2'.sz k s hk)
    (by omega) (by omega)
  rw [layoutLoose_eq_spec] at hloose
  have hp3 : res.pos3 = (looseSpec o.cls res.segs res.lay2.secs 0 res.lay2.pos).2 :=
    (Prod.mk.inj hloose).2
  simp only [hnw2, hnw3, Bool.true_and, decide_eq_true_eq]
  rw [hshoff]
  apply Small.lst_cursor_small
  rw [hp3]; omega

/-- `SmallObject` only looks at header fields, which the `get_data()` calls at the start of `save`
    do not change -/
theorem smallObject_preSave (o : Obj) (hs : SmallObject o) : SmallObject (preSave o) := by
  obtain ⟨hc, hnsec, hnseg, hsz, hseg⟩ := hs
  have hh := preSave_hdr o
  refine ⟨hc, by rw [preSave_length]; exact hnsec, hnseg, ?_, ?_⟩
  · intro s' hs'
    obtain ⟨k, hk⟩ := List.getElem?_of_mem hs'
    obtain ⟨s, hs0, he⟩ := hdrOf_getElem? hh k s' hk
    simp only [hdrOf, Prod.mk.injEq] at he
    rw [← he.2.1, ← he.2.2.2.2.2.2.1]
    exact hsz s (List.mem_of_getElem? hs0)
  · intro g hg
    refine ⟨(hseg g hg).1, ?_⟩
    intro idx hidx s' hs' has
    obtain ⟨s, hs0, he⟩ := hdrOf_getElem? hh idx.toNat s' (Option.mem_def.1 hs')
    simp only [hdrOf, Prod.mk.injEq] at he
    rw [← he.2.2.2.2.1]
    exact (hseg g hg).2 idx hidx s (Option.mem_def.2 hs0) (by rw [he.2.2.2.2.2.2.2]; exact has)

/-- the form the writer theorems use -/
theorem smallObject_layoutNW_preSave (o : Obj) (h : Bytes) (hs : SmallObject o) :
    layoutNW (preSave o) h = true :=
  smallObject_layoutNW (preSave o) h (smallObject_preSave o hs)

end ElfioVerif
