import ElfioVerif.Props.C07
import ElfioVerif.Model.Symbols
import ElfioVerif.Lemmas.SymTie
import ElfioVerif.Spec.Symbols
import ElfioVerif.Lemmas.SymbolsTie
namespace ElfioVerif
open Gen

/-! ### byte-string facts -/

theorem slice_append_left_sym {a b : Bytes} {off len : Nat} (h : off + len ≤ a.length) :
    slice (a ++ b) off len = slice a off len := by
  unfold slice
  apply List.ext_getElem?
  intro i
  simp only [List.getElem?_take, List.getElem?_drop, List.getElem?_append]
  ite_omega

theorem slice_append_right_sym {a b : Bytes} {off len : Nat} (h : a.length ≤ off) :
    slice (a ++ b) off len = slice b (off - a.length) len := by
  unfold slice
  apply List.ext_getElem?
  intro i
  simp only [List.getElem?_take, List.getElem?_drop, List.getElem?_append]
  ite_omega

theorem slice_all_sym (a : Bytes) : slice a 0 a.length = a := by simp [slice]

theorem slice_slice_sym {a : Bytes} {o l o' l' : Nat} (h : o' + l' ≤ l) :
    slice (slice a o l) o' l' = slice a (o + o') l' := by
  unfold slice
  apply List.ext_getElem?
  intro i
  simp only [List.getElem?_take, List.getElem?_drop]
  ite_omega

/-- the `i`-th block of a concatenation of blocks of equal length -/
theorem slice_flatten_block {α} (f : α → Bytes) (sz : Nat) (l : List α) (hf : ∀ x ∈ l, (f x).length = sz)
    (i : Nat) (x : α) (hx : l[i]? = some x) :
    slice (l.map f).flatten (i * sz) sz = f x := by
  induction l generalizing i with
  | nil => simp at hx
  | cons y ys ih =>
    have hy : (f y).length = sz := hf y (by simp)
    simp only [List.map_cons, List.flatten_cons]
    cases i with
    | zero =>
      simp at hx; subst hx
      rw [slice_append_left_sym (by omega)]
      simp only [Nat.zero_mul]
      rw [← hy]; exact slice_all_sym _
    | succ j =>
      rw [slice_append_right_sym (by rw [hy, Nat.add_mul]; omega)]
      have : (j + 1) * sz - (f y).length = j * sz := by rw [hy, Nat.add_mul]; omega
      rw [this]
      exact ih (fun x hx => hf x (by simp [hx])) j (by simpa using hx)

theorem flatten_block_length {α} (f : α → Bytes) (sz : Nat) (l : List α) (hf : ∀ x ∈ l, (f x).length = sz) :
    (l.map f).flatten.length = l.length * sz := by
  induction l with
  | nil => simp
  | cons y ys ih =>
    simp only [List.map_cons, List.flatten_cons, List.length_append, List.length_cons]
    rw [ih (fun x hx => hf x (by simp [hx])), hf y (by simp), Nat.add_mul]; omega

/-! ### the record codec of the specification -/
namespace Spec

theorem encodeSym_length (c : Cfg) (s : SymRec) : (encodeSym c s).length = symSize c.cls := by
  unfold encodeSym symSize
  cases c.cls <;> simp

theorem slices6 (a b c d e f : Bytes) :
    slice (a ++ b ++ c ++ d ++ e ++ f) 0 a.length = a ∧
    slice (a ++ b ++ c ++ d ++ e ++ f) a.length b.length = b ∧
    slice (a ++ b ++ c ++ d ++ e ++ f) (a.length + b.length) c.length = c ∧
    slice (a ++ b ++ c ++ d ++ e ++ f) (a.length + b.length + c.length) d.length = d ∧
    slice (a ++ b ++ c ++ d ++ e ++ f) (a.length + b.length + c.length + d.length) e.length = e ∧
    slice (a ++ b ++ c ++ d ++ e ++ f) (a.length + b.length + c.length + d.length + e.length) f.length = f := by
  refine ⟨?_, ?_, ?_, ?_, ?_, ?_⟩ <;>
  · unfold slice
    apply List.ext_getElem?
    intro i
    simp only [List.getElem?_take, List.getElem?_drop, List.getElem?_append, List.length_append]
    ite_omega

theorem decode_encodeSym (c : Cfg) (s : SymRec) : decodeSym c (encodeSym c s) = truncSym c.cls s := by
  unfold decodeSym encodeSym truncSym addrBytes
  cases c.cls <;> simp only
  · obtain ⟨h1, h2, h3, h4, h5, h6⟩ := slices6 (encodeInt c.enc 4 s.name) (encodeInt c.enc 4 s.value)
      (encodeInt c.enc 4 s.size) (encodeInt c.enc 1 s.info) (encodeInt c.enc 1 s.other) (encodeInt c.enc 2 s.shndx)
    simp only [encodeInt_length, Nat.reduceAdd] at h1 h2 h3 h4 h5 h6
    rw [h1, h2, h3, h4, h5, h6]
    simp only [decode_encodeInt, Nat.reduceMul]
  · obtain ⟨h1, h2, h3, h4, h5, h6⟩ := slices6 (encodeInt c.enc 4 s.name) (encodeInt c.enc 1 s.info)
      (encodeInt c.enc 1 s.other) (encodeInt c.enc 2 s.shndx) (encodeInt c.enc 8 s.value) (encodeInt c.enc 8 s.size)
    simp only [encodeInt_length, Nat.reduceAdd] at h1 h2 h3 h4 h5 h6
    rw [h1, h2, h3, h4, h5, h6]
    simp only [decode_encodeInt, Nat.reduceMul]
end Spec


/-! ### what an accessor reads from a section -/

/-- `get_data()` of `s` exposes exactly the bytes `c` in `[0, get_size())` -/
structure ReadsAs (s : SecBuf) (c : Bytes) : Prop where
  size : s.size.toNat = c.length
  data : match secData s with
    | none => c = []
    | some a => c.length ≤ a.length ∧ a.take c.length = c

open SecBuf in
/-- every section the editing operations can produce (C07's invariant) reads as its content -/
theorem readsAs_of_inv {s : SecBuf} (h : s.Inv) : ReadsAs s s.content := by
  refine ⟨(C07.content_length h).symm, ?_⟩
  rcases h with h | ⟨d, h⟩
  · rw [C07.content_resident h]
    unfold secData
    rcases h.buf with ⟨hd, hs, hds⟩ | ⟨a, hd, h1, h2⟩
    · -- no allocation yet: get_data() may create the empty one
      have hv : s.view = [] := by simp [SecBuf.view, hd]
      rw [hv]
      cases hg : s.getData.data with
      | none => trivial
      | some a => simp
    · obtain ⟨g1, _⟩ := C07.getData_some hd
      rw [g1]
      have hv : s.view = a.take s.size.toNat := by simp [SecBuf.view, hd]
      have hl : s.view.length = s.size.toNat := by rw [hv]; simp; omega
      refine ⟨by rw [hl]; omega, ?_⟩
      rw [hl, hv]
  · rw [C07.content_pending h]
    obtain ⟨r, v, c1, c2, c3⟩ := C07.getData_pending h
    unfold secData
    cases hg : s.getData.data with
    | none => rw [hg] at c3; simp at c3
    | some a =>
      have hv : s.getData.view = a.take s.getData.size.toNat := by simp [SecBuf.view, hg]
      have hl := C07.view_length r
      rw [v] at hl hv
      rcases r.buf with ⟨e, _, _⟩ | ⟨a', e, e1, e2⟩
      · rw [hg] at e; cases e
      · rw [hg] at e; cases e
        exact ⟨by omega, by rw [hl]; exact hv.symm⟩

/-- a checked read inside the exposed bytes succeeds and returns them -/
theorem ReadsAs.rd {s : SecBuf} {c : Bytes} (h : ReadsAs s c) (site : String) (off len : Nat)
    (hlen : 0 < len) (hin : off + len ≤ c.length) :
    rdRange site (secData s) off len = .ok (slice c off len) := by
  have hd := h.data
  cases hs : secData s with
  | none => rw [hs] at hd; simp only at hd; subst hd; simp at hin; omega
  | some a =>
    rw [hs] at hd; simp only at hd
    rw [rdRange_some_ok (by omega)]
    congr 1
    rw [← hd.2]
    exact (slice_take (by omega)).symm

theorem ReadsAs.isNone {s : SecBuf} {c : Bytes} (h : ReadsAs s c) (hn : (secData s).isNone = true) : c = [] := by
  have hd := h.data
  cases hs : secData s with
  | none => rw [hs] at hd; exact hd
  | some a => rw [hs] at hn; simp at hn


/-! ### the generated `ELF_ST_*` uses are the gABI macros -/
theorem st_info_gen (b t : BitVec 8) : sym_st_info b t = Spec.stInfo b t := bits_st_info b t
theorem st_info_str_gen (b t : BitVec 8) : sym_st_info_str b t = Spec.stInfo b t := bits_st_info b t
theorem st_bind_gen32 (i : BitVec 8) : sym32_get_bind i = Spec.stBind i := bits_st_bind i
theorem st_bind_gen64 (i : BitVec 8) : sym64_get_bind i = Spec.stBind i := bits_st_bind i
theorem st_type_gen32 (i : BitVec 8) : sym32_get_type i = Spec.stType i := bits_st_type i
theorem st_type_gen64 (i : BitVec 8) : sym64_get_type i = Spec.stType i := bits_st_type i

/-! ### the model's readers, as functions of the section contents -/
namespace SymTab

theorem symSizeOf_eq (c : Cls) : symSizeOf c = Spec.symSize c := by cases c <;> rfl

theorem cstr_eq (bs : Bytes) : cstr bs = if bs.contains 0 then some (bs.takeWhile (· ≠ 0)) else none := rfl

/-- `get_string` is the specification's `symStrAt` on the section contents -/
theorem getString_eq {s : SecBuf} {strB : Bytes} (h : ReadsAs s strB) (idx : BitVec 32) :
    getString (some s) idx = .ok (Spec.symStrAt strB idx.toNat) := by
  have hsz := h.size
  have hlt := s.size.isLt
  have hi := idx.isLt
  unfold getString Spec.symStrAt
  simp only [str_get_oob, symstr_get_remaining, symstr_get_underflow]
  by_cases hoob : strB.length ≤ idx.toNat
  · -- index beyond the section
    have : BitVec.ule s.size (BitVec.setWidth 64 idx) = true := by
      simp only [BitVec.ule, BitVec.toNat_setWidth, Nat.reducePow, decide_eq_true_eq] at *
      omega
    simp [this, pure, Except.pure]
    omega
  · have hule : BitVec.ule s.size (BitVec.setWidth 64 idx) = false := by
      simp only [BitVec.ule, BitVec.toNat_setWidth, Nat.reducePow, decide_eq_false_iff_not] at *
      omega
    have hd := h.data
    cases hs : secData s with
    | none =>
      rw [hs] at hd; simp only at hd; subst hd; simp at hoob
    | some a =>
      rw [hs] at hd; simp only at hd
      have hrem : (s.size - BitVec.setWidth 64 idx).toNat = strB.length - idx.toNat := by
        simp only [BitVec.toNat_sub, BitVec.toNat_setWidth, Nat.reducePow] at *
        omega
      have hund : BitVec.ult s.size (s.size - BitVec.setWidth 64 idx) = false := by
        simp only [BitVec.ult, hrem, decide_eq_false_iff_not]
        omega
      have hav : slice a idx.toNat (strB.length - idx.toNat) = strB.drop idx.toNat := by
        have e : (a.take strB.length).drop idx.toNat = strB.drop idx.toNat := by rw [hd.2]
        rw [← e, List.drop_take]; rfl
      simp only [hule, Option.isNone_some, Bool.or_false, Bool.false_eq_true, if_false, hund, hrem, hav, cstr_eq]
      have hlt' : idx.toNat < strB.length := by omega
      simp only [hlt', if_true]
      by_cases hc : (strB.drop idx.toNat).contains 0 = true
      · simp only [hc, if_true, pure, Except.pure]
      · simp only [hc, Bool.false_eq_true, if_false, List.length_drop, Nat.lt_irrefl, pure, Except.pure]


/-- the table as the specification reads it: number of whole entries, entry `i` decoded per gABI -/
def countOf (c : Cls) (symB : Bytes) : Nat := symB.length / Spec.symSize c
def recAt (cfg : Cfg) (symB : Bytes) (i : Nat) : Spec.SymRec :=
  Spec.decodeSym cfg (slice symB (i * Spec.symSize cfg.cls) (Spec.symSize cfg.cls))
def nameAt (cfg : Cfg) (symB strB : Bytes) (i : Nat) : Option Bytes := Spec.symStrAt strB (recAt cfg symB i).name
/-- the attributes `get_symbol` reports for a record (`ELF_ST_BIND`/`ELF_ST_TYPE` of `st_info`) -/
def attrsOfRec (r : Spec.SymRec) : Attrs :=
  { value := BitVec.ofNat 64 r.value, size := BitVec.ofNat 64 r.size,
    bind := Spec.stBind (BitVec.ofNat 8 r.info), typ := Spec.stType (BitVec.ofNat 8 r.info),
    shndx := BitVec.ofNat 16 r.shndx, other := BitVec.ofNat 8 r.other }

/-- a table an accessor can read: standard entry size, size within the stream, and the symbol and
    string sections expose the byte strings `symB`, `strB` -/
structure Wf (t : SymTab) (symB strB : Bytes) : Prop where
  ent : t.sym.entSize = BitVec.ofNat 64 (symSizeOf t.cfg.cls)
  stream : t.sym.size.toNat ≤ t.sym.streamSize.toNat
  sym : ReadsAs t.sym symB
  str : match t.str with | none => strB = [] | some s => ReadsAs s strB

theorem decodeInt_lt (e : Enc) (bs : Bytes) : decodeInt e bs < 2 ^ (8 * bs.length) := by
  cases e
  · exact leDecode_lt bs
  · have := leDecode_lt bs.reverse; simpa [decodeInt, beDecode] using this

theorem fld_eq (e : Enc) (rec : Bytes) (off w : Nat) (hw : w = 1 ∨ w = 2 ∨ w = 4 ∨ w = 8)
    (h : off + w ≤ rec.length) : fld e rec off w = decodeInt e (slice rec off w) := by
  unfold fld
  apply rdField_eq
  rw [slice_length_of_le h]; exact hw

theorem decodeInt_slice_lt (e : Enc) (x : Bytes) (o w : Nat) : decodeInt e (slice x o w) < 2 ^ (8 * w) := by
  have h1 := decodeInt_lt e (slice x o w)
  have hl : (slice x o w).length ≤ w := by simp [slice]; omega
  exact Nat.lt_of_lt_of_le h1 (Nat.pow_le_pow_right (by decide) (by omega))

def rawOf (r : Spec.SymRec) : RawSym :=
  { name := BitVec.ofNat 32 r.name, value := BitVec.ofNat 64 r.value, size := BitVec.ofNat 64 r.size,
    info := BitVec.ofNat 8 r.info, other := BitVec.ofNat 8 r.other, shndx := BitVec.ofNat 16 r.shndx }

/-- reading the members through the generated layout = the gABI decoder -/
theorem decodeRaw_eq (c : Cfg) (rec : Bytes) (h : rec.length = Spec.symSize c.cls) :
    decodeRaw c rec = rawOf (Spec.decodeSym c rec) := by
  unfold decodeRaw Spec.decodeSym rawOf
  cases hc : c.cls <;> simp only [hc, Spec.symSize] at h ⊢
  · simp only [Elf32_Sym.st_name_off, Elf32_Sym.st_name_w, Elf32_Sym.st_value_off, Elf32_Sym.st_value_w,
      Elf32_Sym.st_size_off, Elf32_Sym.st_size_w, Elf32_Sym.st_info_off, Elf32_Sym.st_info_w,
      Elf32_Sym.st_other_off, Elf32_Sym.st_other_w, Elf32_Sym.st_shndx_off, Elf32_Sym.st_shndx_w]
    rw [fld_eq _ _ 0 4 (by simp) (by omega), fld_eq _ _ 4 4 (by simp) (by omega), fld_eq _ _ 8 4 (by simp) (by omega),
      fld_eq _ _ 12 1 (by simp) (by omega), fld_eq _ _ 13 1 (by simp) (by omega), fld_eq _ _ 14 2 (by simp) (by omega)]
    have h4 : ∀ o, decodeInt c.enc (slice rec o 4) < 4294967296 := fun o => by
      simpa using decodeInt_slice_lt c.enc rec o 4
    simp only [SymTie.get_name_idx32, SymTie.get_other32, SymTie.get_shndx32, SymTie.get_value32 (h4 _),
      SymTie.get_size32 (h4 _)]
  · simp only [Elf64_Sym.st_name_off, Elf64_Sym.st_name_w, Elf64_Sym.st_value_off, Elf64_Sym.st_value_w,
      Elf64_Sym.st_size_off, Elf64_Sym.st_size_w, Elf64_Sym.st_info_off, Elf64_Sym.st_info_w,
      Elf64_Sym.st_other_off, Elf64_Sym.st_other_w, Elf64_Sym.st_shndx_off, Elf64_Sym.st_shndx_w]
    rw [fld_eq _ _ 0 4 (by simp) (by omega), fld_eq _ _ 8 8 (by simp) (by omega), fld_eq _ _ 16 8 (by simp) (by omega),
      fld_eq _ _ 4 1 (by simp) (by omega), fld_eq _ _ 5 1 (by simp) (by omega), fld_eq _ _ 6 2 (by simp) (by omega)]
    simp only [SymTie.get_name_idx64, SymTie.get_other64, SymTie.get_shndx64, SymTie.get_value64, SymTie.get_size64]

theorem recAt_name_lt (cfg : Cfg) (symB : Bytes) (i : Nat) : (recAt cfg symB i).name < 4294967296 := by
  unfold recAt Spec.decodeSym
  cases cfg.cls <;> simp only <;> exact decodeInt_slice_lt _ _ 0 4

/-- `get_symbols_num()` = number of whole entries in the section -/
theorem symbolsNum_eq {t : SymTab} {symB strB : Bytes} (h : Wf t symB strB) :
    t.symbolsNum = .ok (BitVec.ofNat 64 (countOf t.cfg.cls symB)) := by
  have hsz := h.sym.size
  have hst := h.stream
  have hlt := t.sym.size.isLt
  rw [symbolsNum_hand]; unfold countOf
  rw [h.ent]
  cases hc : t.cfg.cls <;>
    simp only [symSizeOf, sym_num_cond, sym_num_min32, sym_num_min64, sym_num_div, sizeof_Elf32_Sym,
      sizeof_Elf64_Sym, Spec.symSize]
  · have h1 : BitVec.ule (BitVec.ofNat 64 16) (BitVec.ofNat 64 16) = true := by decide
    have h2 : BitVec.ule t.sym.size t.sym.streamSize = true := by simpa [BitVec.ule] using hst
    have h3 : (BitVec.ofNat 64 16 = 0) = False := by simp
    simp only [h1, h2, Bool.and_self, if_true, h3, if_false, pure, Except.pure]
    congr 1
    apply BitVec.eq_of_toNat_eq
    simp only [BitVec.toNat_udiv, BitVec.toNat_ofNat, Nat.reducePow, Nat.reduceMod] at *
    omega
  · have h1 : BitVec.ule (BitVec.ofNat 64 24) (BitVec.ofNat 64 24) = true := by decide
    have h2 : BitVec.ule t.sym.size t.sym.streamSize = true := by simpa [BitVec.ule] using hst
    have h3 : (BitVec.ofNat 64 24 = 0) = False := by simp
    simp only [h1, h2, Bool.and_self, if_true, h3, if_false, pure, Except.pure]
    congr 1
    apply BitVec.eq_of_toNat_eq
    simp only [BitVec.toNat_udiv, BitVec.toNat_ofNat, Nat.reducePow, Nat.reduceMod] at *
    omega


theorem attrsOf_eq (t : SymTab) (r : Spec.SymRec) : t.attrsOf (rawOf r) = attrsOfRec r := by
  unfold attrsOf attrsOfT attrsOfRec rawOf
  simp only [st_bind_gen32, st_bind_gen64, st_type_gen32, st_type_gen64, ite_self]

theorem getString_wf {t : SymTab} {symB strB : Bytes} (h : Wf t symB strB) (idx : BitVec 32) :
    getString t.str idx = .ok (Spec.symStrAt strB idx.toNat) := by
  have hs := h.str
  cases ht : t.str with
  | none => rw [ht] at hs; simp only at hs; subst hs; simp [getString, Spec.symStrAt, pure, Except.pure]
  | some s => rw [ht] at hs; exact getString_eq hs idx

theorem count_lt {c : Cls} {symB : Bytes} {i : Nat} (h : i < countOf c symB) :
    i * Spec.symSize c + Spec.symSize c ≤ symB.length := by
  unfold countOf at h
  cases c <;> simp only [Spec.symSize] at * <;> omega

/-- **by-index read-out = gABI decoding of the section contents** -/
theorem getSymbol_decoded {t : SymTab} {symB strB : Bytes} (h : Wf t symB strB) (i : BitVec 64)
    (str : Bytes) (a : Attrs) :
    t.getSymbol i str a = .ok (if i.toNat < countOf t.cfg.cls symB then
        (true, (nameAt t.cfg symB strB i.toNat).getD str, attrsOfRec (recAt t.cfg symB i.toNat))
      else (false, str, a)) := by
  have hsz := h.sym.size
  have hlt := t.sym.size.isLt
  have hi := i.isLt
  have hcnt : countOf t.cfg.cls symB ≤ symB.length := Nat.div_le_self _ _
  rw [SymTie.getSymbol_unfold]
  unfold guardNum
  simp only [SymTie.get_name_sel]
  by_cases hn : (secData t.sym).isNone = true
  · have he := h.sym.isNone hn
    have h0 : countOf t.cfg.cls symB = 0 := by subst he; simp [countOf]
    simp [hn, h0, sym32_get_guard, sym64_get_guard, pure, Except.pure, bind, Except.bind]
  · simp only [hn, Bool.false_eq_true, if_false, symbolsNum_eq h, bind, Except.bind]
    have hg : (BitVec.ult i (BitVec.ofNat 64 (countOf t.cfg.cls symB))) = decide (i.toNat < countOf t.cfg.cls symB) := by
      simp only [BitVec.ult, BitVec.toNat_ofNat, Nat.reducePow] at *
      rw [Nat.mod_eq_of_lt (by omega)]
    simp only [sym32_get_guard, sym64_get_guard, ite_self, Bool.not_false, Bool.true_and, hg, decide_eq_true_eq]
    by_cases hic : i.toNat < countOf t.cfg.cls symB
    · have hin := count_lt hic
      simp only [hic, if_true]
      have hoff : (i * t.sym.entSize).toNat = i.toNat * Spec.symSize t.cfg.cls := by
        rw [h.ent, symSizeOf_eq, BitVec.toNat_mul, BitVec.toNat_ofNat]
        have : Spec.symSize t.cfg.cls < 25 := by cases t.cfg.cls <;> simp [Spec.symSize]
        simp only [Nat.reducePow] at *
        rw [Nat.mod_eq_of_lt (a := Spec.symSize t.cfg.cls) (by omega), Nat.mod_eq_of_lt (by omega)]
      have hpos : 0 < Spec.symSize t.cfg.cls := by cases t.cfg.cls <;> simp [Spec.symSize]
      simp only [sym32_get_off, sym64_get_off, ite_self, hoff, symSizeOf_eq]
      rw [h.sym.rd _ _ _ hpos hin]
      simp only [decodeRaw_eq t.cfg _ (slice_length_of_le hin)]
      have hnm : (BitVec.ofNat 32 (recAt t.cfg symB i.toNat).name).toNat = (recAt t.cfg symB i.toNat).name := by
        simp only [BitVec.toNat_ofNat, Nat.reducePow]
        exact Nat.mod_eq_of_lt (recAt_name_lt _ _ _)
      have hrn : (rawOf (recAt t.cfg symB i.toNat)).name = BitVec.ofNat 32 (recAt t.cfg symB i.toNat).name := rfl
      unfold recAt at hrn hnm
      simp only [hrn, getString_wf h, hnm, attrsOf_eq, nameAt, recAt, pure, Except.pure]
    · simp only [hic, if_false, pure, Except.pure]

end SymTab

namespace SymTab

theorem len1 {l : Bytes} (h : l.length = 1) : ∃ a, l = [a] := by
  match l, h with | [a], _ => exact ⟨a, rfl⟩
theorem len2 {l : Bytes} (h : l.length = 2) : ∃ a b, l = [a, b] := by
  match l, h with | [a, b], _ => exact ⟨a, b, rfl⟩
theorem len4 {l : Bytes} (h : l.length = 4) : ∃ a b c d, l = [a, b, c, d] := by
  match l, h with | [a, b, c, d], _ => exact ⟨a, b, c, d, rfl⟩
theorem len8 {l : Bytes} (h : l.length = 8) : ∃ a b c d e f g i, l = [a, b, c, d, e, f, g, i] := by
  match l, h with | [a, b, c, d, e, f, g, i], _ => exact ⟨a, b, c, d, e, f, g, i, rfl⟩

theorem encodeInt_mod (e : Enc) (n x : Nat) (h : n = 1 ∨ n = 2 ∨ n = 4 ∨ n = 8) :
    encodeInt e n (x % 2 ^ (8 * n)) = encodeInt e n x := by
  rw [← wrField_eq e n _ h, ← wrField_eq e n x h]
  unfold wrField
  rw [Nat.mod_mod]

/-- the host struct filled member by member = the gABI encoding of the record -/
theorem entryBytes_eq (c : Cfg) (name : BitVec 32) (value size : BitVec 64) (info other : BitVec 8)
    (shndx : BitVec 16) :
    entryBytes c name value size info other shndx =
      Spec.encodeSym c { name := name.toNat, value := value.toNat, size := size.toNat,
                         info := info.toNat, other := other.toNat, shndx := shndx.toNat } := by
  unfold entryBytes Spec.encodeSym
  cases hc : c.cls <;> simp only
  · simp only [Elf32_Sym.st_name_off, Elf32_Sym.st_name_w, Elf32_Sym.st_value_off, Elf32_Sym.st_value_w,
      Elf32_Sym.st_size_off, Elf32_Sym.st_size_w, Elf32_Sym.st_info_off, Elf32_Sym.st_info_w,
      Elf32_Sym.st_other_off, Elf32_Sym.st_other_w, Elf32_Sym.st_shndx_off, Elf32_Sym.st_shndx_w,
      sizeof_Elf32_Sym, sym32_add_value_trunc, sym32_add_size_trunc, BitVec.toNat_setWidth]
    rw [wrField_eq _ 4 _ (by simp), wrField_eq _ 4 _ (by simp), wrField_eq _ 4 _ (by simp),
      wrField_eq _ 1 _ (by simp), wrField_eq _ 1 _ (by simp), wrField_eq _ 2 _ (by simp)]
    rw [encodeInt_mod c.enc 4 value.toNat (by simp), encodeInt_mod c.enc 4 size.toNat (by simp)]
    obtain ⟨a0, a1, a2, a3, ha⟩ := len4 (encodeInt_length c.enc 4 name.toNat)
    obtain ⟨b0, b1, b2, b3, hb⟩ := len4 (encodeInt_length c.enc 4 value.toNat)
    obtain ⟨c0, c1, c2, c3, hc'⟩ := len4 (encodeInt_length c.enc 4 size.toNat)
    obtain ⟨d0, hd⟩ := len1 (encodeInt_length c.enc 1 info.toNat)
    obtain ⟨e0, he⟩ := len1 (encodeInt_length c.enc 1 other.toNat)
    obtain ⟨f0, f1, hf⟩ := len2 (encodeInt_length c.enc 2 shndx.toNat)
    rw [ha, hb, hc', hd, he, hf]
    rfl
  · simp only [Elf64_Sym.st_name_off, Elf64_Sym.st_name_w, Elf64_Sym.st_value_off, Elf64_Sym.st_value_w,
      Elf64_Sym.st_size_off, Elf64_Sym.st_size_w, Elf64_Sym.st_info_off, Elf64_Sym.st_info_w,
      Elf64_Sym.st_other_off, Elf64_Sym.st_other_w, Elf64_Sym.st_shndx_off, Elf64_Sym.st_shndx_w,
      sizeof_Elf64_Sym, sym64_add_value_trunc, sym64_add_size_trunc]
    rw [wrField_eq _ 4 _ (by simp), wrField_eq _ 8 _ (by simp), wrField_eq _ 8 _ (by simp),
      wrField_eq _ 1 _ (by simp), wrField_eq _ 1 _ (by simp), wrField_eq _ 2 _ (by simp)]
    obtain ⟨a0, a1, a2, a3, ha⟩ := len4 (encodeInt_length c.enc 4 name.toNat)
    obtain ⟨b0, b1, b2, b3, b4, b5, b6, b7, hb⟩ := len8 (encodeInt_length c.enc 8 value.toNat)
    obtain ⟨c0, c1, c2, c3, c4, c5, c6, c7, hc'⟩ := len8 (encodeInt_length c.enc 8 size.toNat)
    obtain ⟨d0, hd⟩ := len1 (encodeInt_length c.enc 1 info.toNat)
    obtain ⟨e0, he⟩ := len1 (encodeInt_length c.enc 1 other.toNat)
    obtain ⟨f0, f1, hf⟩ := len2 (encodeInt_length c.enc 2 shndx.toNat)
    rw [ha, hb, hc', hd, he, hf]
    rfl
end SymTab

/-! ### header fields across `append_data` -/

/-- the fields `get_data()` never touches -/
theorem getData_frame (b : SecBuf) :
    b.getData.entSize = b.entSize ∧ b.getData.link = b.link ∧ b.getData.translatorEmpty = b.translatorEmpty ∧
    b.getData.streamSize = b.streamSize ∧ b.getData.size = b.size ∧ b.getData.cls = b.cls ∧
    b.getData.stype = b.stype := by
  unfold SecBuf.getData SecBuf.loadData
  cases b.fileData <;> simp only <;> (repeat' split) <;> simp_all

theorem insertFinish_frame (b : SecBuf) (ns n : BitVec 64) :
    (b.insertFinish ns n).entSize = b.entSize ∧ (b.insertFinish ns n).link = b.link ∧
    (b.insertFinish ns n).translatorEmpty = b.translatorEmpty ∧
    (b.insertFinish ns n).streamSize = (if b.translatorEmpty then b.streamSize + n else b.streamSize) := by
  rw [SecBuf.insertFinish_hand]; unfold SecBuf.setSize
  cases b.cls <;> simp only <;> split <;> simp_all

/-- `insert_data` either leaves the header alone or finishes with `set_size` + stream-size update -/
theorem insertBody_frame (b : SecBuf) (pos : BitVec 64) (raw : Bytes) (b' : SecBuf)
    (h : b.insertBody pos raw = .ok b') :
    b'.entSize = b.entSize ∧ b'.link = b.link ∧ b'.translatorEmpty = b.translatorEmpty ∧
    (b' = b ∨ b'.streamSize = (if b.translatorEmpty then b.streamSize + BitVec.ofNat 64 raw.length else b.streamSize)) := by
  unfold SecBuf.insertBody at h
  simp only [s32_pos_gt, s32_ovf_size, s32_new_size, s32_fits, ite_self] at h
  split at h
  · cases h; exact ⟨rfl, rfl, rfl, Or.inl rfl⟩
  split at h
  · cases h; exact ⟨rfl, rfl, rfl, Or.inl rfl⟩
  split at h
  · cases hd : b.insertInPlace pos.toNat raw with
    | error e => simp [hd, bind, Except.bind] at h
    | ok d =>
      simp only [hd, bind, Except.bind, pure, Except.pure, Except.ok.injEq] at h
      subst h
      obtain ⟨f1, f2, f3, f4⟩ := insertFinish_frame { b with data := d } (sec64_insert_new_size b.size (BitVec.ofNat 64 raw.length)) (BitVec.ofNat 64 raw.length)
      exact ⟨f1, f2, f3, Or.inr f4⟩
  · split at h
    · cases h; exact ⟨rfl, rfl, rfl, Or.inl rfl⟩
    · rename_i nds _
      cases hd : b.insertGrow pos.toNat raw nds.toNat with
      | error e => simp [hd, bind, Except.bind] at h
      | ok d =>
        simp only [hd, bind, Except.bind, pure, Except.pure, Except.ok.injEq] at h
        subst h
        obtain ⟨f1, f2, f3, f4⟩ := insertFinish_frame { b with data := d, dataSize := nds } (sec64_insert_new_size b.size (BitVec.ofNat 64 raw.length)) (BitVec.ofNat 64 raw.length)
        exact ⟨f1, f2, f3, Or.inr f4⟩

theorem appendData_frame (b : SecBuf) (raw : Bytes) (b' : SecBuf) (h : b.appendData raw = .ok b') :
    b'.entSize = b.entSize ∧ b'.link = b.link ∧ b'.translatorEmpty = b.translatorEmpty ∧
    (b'.size = b.size ∨
     b'.streamSize = (if b.translatorEmpty then b.streamSize + BitVec.ofNat 64 raw.length else b.streamSize)) := by
  unfold SecBuf.appendData SecBuf.insertData at h
  obtain ⟨g1, g2, g3, g4, g5, _, _⟩ := getData_frame b
  simp only [s32_not_nobits, s32_make_resident, ite_self] at h
  split at h
  · cases h; exact ⟨rfl, rfl, rfl, Or.inl rfl⟩
  · split at h
    · obtain ⟨f1, f2, f3, f4⟩ := insertBody_frame _ _ _ _ h
      refine ⟨by rw [f1, g1], by rw [f2, g2], by rw [f3, g3], ?_⟩
      rcases f4 with e | e
      · left; rw [e, g5]
      · right; rw [e, g3, g4]
    · obtain ⟨f1, f2, f3, f4⟩ := insertBody_frame _ _ _ _ h
      refine ⟨f1, f2, f3, ?_⟩
      rcases f4 with e | e
      · left; rw [e]
      · right; exact e

theorem bv_se1 : (BitVec.signExtend 64 1#32).toNat = 1 := by
  simp only [BitVec.signExtend, BitVec.toInt, BitVec.toNat_ofNat, Nat.reducePow, Nat.reduceMod]
  simp
theorem bv_se0 : (BitVec.signExtend 64 0#32) = 0#64 := by
  apply BitVec.eq_of_toNat_eq
  simp only [BitVec.signExtend, BitVec.toInt, BitVec.toNat_ofNat, Nat.reducePow, Nat.reduceMod]
  simp
theorem bv_m2 : (BitVec.setWidth 64 (4294967295#32 - 1#32)).toNat = 4294967294 := by
  simp only [BitVec.toNat_setWidth, BitVec.toNat_sub, BitVec.toNat_ofNat, Nat.reducePow, Nat.reduceMod, Nat.reduceSub, Nat.reduceAdd]
theorem bv_m1 : (4294967295#32).toNat = 4294967295 := by
  simp only [BitVec.toNat_ofNat, Nat.reducePow, Nat.reduceMod]
theorem bv_p1 : ((0:BitVec 32) + 1).toNat = 1 := by
  simp only [BitVec.toNat_add, Nat.reducePow]; rfl

/-- a section of a created file that has only been appended to -/
structure Grown (s : SecBuf) (c : Bytes) : Prop where
  inv : s.Inv
  content : s.content = c
  te : s.translatorEmpty = true
  ss : s.streamSize = s.size

theorem Grown.size {s : SecBuf} {c : Bytes} (h : Grown s c) : s.size.toNat = c.length := by
  rw [← h.content]; exact (C07.content_length h.inv).symm

theorem bound_of_lt (cls : Cls) {k : Nat} (h : k < 4294967296) : SecBuf.Bound cls k := by
  cases cls <;> simp [SecBuf.Bound] <;> omega

theorem Grown.append {s : SecBuf} {c : Bytes} (h : Grown s c) (raw : Bytes) (hraw : 0 < raw.length)
    (hb : c.length + raw.length < 4294967296) :
    ∃ s', s.appendData raw = .ok s' ∧ Grown s' (c ++ raw) ∧ s'.cls = s.cls ∧ s'.entSize = s.entSize ∧
      s'.link = s.link := by
  obtain ⟨s', e, r, cl, v⟩ := C07.append_refines s h.inv raw (by rw [h.content]; exact bound_of_lt _ hb)
  obtain ⟨f1, f2, f3, f4⟩ := appendData_frame s raw s' e
  have hs := h.size
  have hs' : s'.size.toNat = c.length + raw.length := by
    rw [← C07.content_length (Or.inl r), v, h.content]; simp
  refine ⟨s', e, ⟨Or.inl r, by rw [v, h.content], by rw [f3, h.te], ?_⟩, cl, f1, f2⟩
  rcases f4 with e4 | e4
  · exfalso; rw [e4] at hs'; omega
  · rw [e4, h.te, h.ss]
    apply BitVec.eq_of_toNat_eq
    simp only [if_true, BitVec.toNat_add, BitVec.toNat_ofNat, Nat.reducePow]
    omega

theorem grown_fresh (cls : Cls) (ty : BitVec 32) (hty : ty ≠ BitVec.ofNat 32 SHT_NOBITS) :
    Grown (SecBuf.fresh cls ty) [] :=
  ⟨(C07.fresh_inv cls ty hty).1, (C07.fresh_inv cls ty hty).2, rfl, rfl⟩

namespace Spec

/-- total length of the NUL-terminated names -/
def strTotal : List Bytes → Nat
  | [] => 0
  | n :: ns => n.length + 1 + strTotal ns

theorem strTotal_append (a b : List Bytes) : strTotal (a ++ b) = strTotal a + strTotal b := by
  induction a with
  | nil => simp [strTotal]
  | cons x xs ih => simp [strTotal, ih]; omega

theorem flatten_nul_length (ns : List Bytes) : ((ns.map (· ++ [0])).flatten).length = strTotal ns := by
  induction ns with
  | nil => rfl
  | cons x xs ih => simp [strTotal, ih]; omega

theorem strtabBytes_length (ns : List Bytes) (h : ns ≠ []) : (strtabBytes ns).length = 1 + strTotal ns := by
  cases ns with
  | nil => exact absurd rfl h
  | cons x xs => simp only [strtabBytes, List.length_cons, flatten_nul_length]; omega

/-- where the next string goes: after the leading NUL of a new table, else at the end -/
def nextOff (ns : List Bytes) : Nat := 1 + strTotal ns

theorem strtabBytes_snoc (ns : List Bytes) (n : Bytes) :
    strtabBytes (ns ++ [n]) = (if ns = [] then [0] else strtabBytes ns) ++ (n ++ [0]) := by
  cases ns with
  | nil => simp [strtabBytes]
  | cons x xs => simp [strtabBytes]

theorem strtabOffsets_snoc (start : Nat) (ns : List Bytes) (n : Bytes) :
    strtabOffsets start (ns ++ [n]) = strtabOffsets start ns ++ [start + strTotal ns] := by
  induction ns generalizing start with
  | nil => simp [strtabOffsets, strTotal]
  | cons x xs ih => simp [strtabOffsets, strTotal, ih]; omega

theorem strtabOffsets_length (start : Nat) (ns : List Bytes) : (strtabOffsets start ns).length = ns.length := by
  induction ns generalizing start with
  | nil => rfl
  | cons x xs ih => simp [strtabOffsets, ih]

end Spec

namespace SymTab


theorem addStringAt_step {s : SecBuf} {c : Bytes} (h : Grown s c) (pos : BitVec 32) (str : Bytes)
    (hpos : pos.toNat = c.length) (hfit : c.length + str.length + 2 < 4294967296) :
    ∃ s', addStringAt s pos str = .ok (s', pos) ∧ Grown s' (c ++ (str ++ [0])) ∧ s'.cls = s.cls := by
  obtain ⟨s2, e2, g2, c2, _, _⟩ := h.append (str ++ [0]) (by simp) (by simp; omega)
  have hlen : (BitVec.ofNat 64 str.length).toNat = str.length := by
    simp only [BitVec.toNat_ofNat, Nat.reducePow]; omega
  have htl : symstr_add_too_long (BitVec.ofNat 64 str.length) = false := by
    simp only [symstr_add_too_long, BitVec.ult, hlen, decide_eq_false_iff_not]
    have := bv_m2
    omega
  have has : (symstr_add_append_size (BitVec.ofNat 64 str.length)).toNat = str.length + 1 := by
    have h1 := bv_se1
    simp only [symstr_add_append_size, BitVec.toNat_setWidth, BitVec.toNat_add, hlen, h1, Nat.reducePow]
    omega
  have hov : str_add_overflow (symstr_add_append_size (BitVec.ofNat 64 str.length)) pos = false := by
    have hp := pos.isLt
    unfold str_add_overflow
    simp only [BitVec.ult, decide_eq_false_iff_not]
    rw [BitVec.toNat_sub, has, bv_m1]
    simp only [Nat.reducePow] at hp ⊢
    clear has htl hlen
    omega
  have hrd : rdRange "add_string/str" (some (str ++ [0])) 0 (str.length + 1) = .ok (str ++ [0]) := by
    rw [rdRange_some_ok (by simp)]
    have := slice_all_sym (str ++ [0]); simp only [List.length_append, List.length_cons, List.length_nil] at this
    rw [this]
  refine ⟨s2, ?_, g2, c2⟩
  unfold addStringAt
  simp only [htl, Bool.false_eq_true, if_false, hov, has, hrd, e2, bind, Except.bind, pure, Except.pure]

/-- `add_string` on a table that holds `names`: appends `str` + NUL (after seeding the leading NUL)
    and returns its offset -/
theorem addString_step {s : SecBuf} {names : List Bytes} (h : Grown s (Spec.strtabBytes names)) (str : Bytes)
    (hfit : Spec.strTotal names + str.length + 3 < 4294967296) :
    ∃ s', addString s str = .ok (s', BitVec.ofNat 32 (Spec.nextOff names)) ∧
      Grown s' (Spec.strtabBytes (names ++ [str])) ∧ s'.cls = s.cls := by
  have hsz := h.size
  have hlt := s.size.isLt
  unfold addString
  rw [Spec.strtabBytes_snoc]
  by_cases hn : names = []
  · subst hn
    simp only [Spec.strtabBytes, List.length_nil] at hsz
    have hs0 : s.size = 0 := BitVec.eq_of_toNat_eq (by simpa using hsz)
    have hpos : str_add_pos s.size = 0 := by rw [hs0]; rfl
    obtain ⟨s1, e1, g1, c1, _, _⟩ := h.append [0] (by simp) (by simp [Spec.strtabBytes])
    simp only [Spec.strtabBytes, List.nil_append] at g1
    obtain ⟨s2, e2, g2, c2⟩ := addStringAt_step g1 (0 + 1) str (by rw [bv_p1]; rfl) (by simp [Spec.strTotal] at hfit ⊢; omega)
    refine ⟨s2, ?_, by simpa using g2, by rw [c2, c1]⟩
    simp only [hpos, str_add_seed_cond, beq_self_eq_true, if_true, e1, bind, Except.bind, e2]
    rfl
  · have hl := Spec.strtabBytes_length names hn
    have hpos : (str_add_pos s.size).toNat = (Spec.strtabBytes names).length := by
      simp only [str_add_pos, BitVec.toNat_setWidth, Nat.reducePow]; omega
    have hne : str_add_seed_cond (str_add_pos s.size) = false := by
      simp only [str_add_seed_cond, beq_eq_false_iff_ne, ne_eq]
      intro e; rw [e] at hpos; simp at hpos; omega
    obtain ⟨s2, e2, g2, c2⟩ := addStringAt_step h (str_add_pos s.size) str hpos (by omega)
    refine ⟨s2, ?_, by simpa [hn] using g2, c2⟩
    simp only [hne, Bool.false_eq_true, if_false, e2]
    congr 2
    apply BitVec.eq_of_toNat_eq
    rw [hpos, hl]
    simp only [Spec.nextOff, BitVec.toNat_ofNat, Nat.reducePow]
    omega


theorem add_ret_eq (cls : Cls) (sz : BitVec 64) (k : Nat) (hk : sz.toNat = (k + 1) * Spec.symSize cls)
    (hlt : sz.toNat < 4294967296) :
    (if (cls == .c32) = true then sym32_add_ret sz else sym64_add_ret sz) = BitVec.ofNat 32 k := by
  have h1 := bv_se1
  cases cls <;> simp only [Spec.symSize] at hk <;>
  · apply BitVec.eq_of_toNat_eq
    simp only [beq_self_eq_true, if_true, sym32_add_ret, sym64_add_ret, sizeof_Elf32_Sym, sizeof_Elf64_Sym,
      BitVec.toNat_setWidth, BitVec.toNat_sub, BitVec.toNat_udiv, BitVec.toNat_ofNat, h1, Nat.reducePow, Nat.reduceMod]
    try simp only [show (Cls.c64 == Cls.c32) = false from rfl, Bool.false_eq_true, if_false, sym64_add_ret, sizeof_Elf64_Sym,
      BitVec.toNat_setWidth, BitVec.toNat_sub, BitVec.toNat_udiv, BitVec.toNat_ofNat, h1, Nat.reducePow, Nat.reduceMod]
    clear h1
    omega

/-- the `T` chosen by the class test of the file's own class is the file's class -/
theorem cfg_of_c32 (t : SymTab) : (⟨if t.c32 = true then Cls.c32 else Cls.c64, t.cfg.enc⟩ : Cfg) = t.cfg := by
  unfold c32
  cases hc : t.cfg with
  | mk cls enc => cases cls <;> rfl

theorem genericAdd_step {t : SymTab} {symB : Bytes} (hg : Grown t.sym symB) (hcls : t.sym.cls = t.cfg.cls)
    (k : Nat) (hk : symB.length = k * Spec.symSize t.cfg.cls) (hfit : symB.length + 24 < 4294967296)
    (name : BitVec 32) (value size : BitVec 64) (info other : BitVec 8) (shndx : BitVec 16) :
    ∃ s', t.genericAddSymbol name value size info other shndx = .ok ({ t with sym := s' }, BitVec.ofNat 32 k) ∧
      Grown s' (symB ++ Spec.encodeSym t.cfg ⟨name.toNat, value.toNat, size.toNat, info.toNat, other.toNat, shndx.toNat⟩) ∧
      s'.cls = t.sym.cls ∧ s'.entSize = t.sym.entSize := by
  have hel := Spec.encodeSym_length t.cfg ⟨name.toNat, value.toNat, size.toNat, info.toNat, other.toNat, shndx.toNat⟩
  have hsz : Spec.symSize t.cfg.cls ≤ 24 ∧ 0 < Spec.symSize t.cfg.cls := by cases t.cfg.cls <;> simp [Spec.symSize]
  obtain ⟨s', e, g, c, en, _⟩ := hg.append (Spec.encodeSym t.cfg ⟨name.toNat, value.toNat, size.toNat, info.toNat, other.toNat, shndx.toNat⟩)
    (by rw [hel]; exact hsz.2) (by rw [hel]; omega)
  have hlen : (if t.c32 = true then sym32_add_len else sym64_add_len).toNat = Spec.symSize t.cfg.cls := by
    unfold c32
    cases t.cfg.cls <;> simp [sym32_add_len, sym64_add_len, sizeof_Elf32_Sym, sizeof_Elf64_Sym, Spec.symSize]
  have hrd : rdRange "add_symbol/entry" (some (Spec.encodeSym t.cfg ⟨name.toNat, value.toNat, size.toNat, info.toNat, other.toNat, shndx.toNat⟩))
      0 (Spec.symSize t.cfg.cls) = .ok (Spec.encodeSym t.cfg ⟨name.toNat, value.toNat, size.toNat, info.toNat, other.toNat, shndx.toNat⟩) := by
    rw [← hel, rdRange_some_ok (by simp), slice_all_sym]
  have hret : (if t.c32 = true then sym32_add_ret s'.size else sym64_add_ret s'.size) = BitVec.ofNat 32 k := by
    unfold c32
    apply add_ret_eq
    · rw [g.size]; simp only [List.length_append, hel, hk, Nat.add_mul]; omega
    · rw [g.size]; simp only [List.length_append, hel]; omega
  refine ⟨s', ?_, g, c, en⟩
  simp only [genericAddSymbol, genericAddSymbolT, cfg_of_c32, entryBytes_eq, hlen, hrd, bind, Except.bind, e, pure,
    Except.pure, hret]


/-- symbol section contents for the records `recs` (after the null symbol); empty before any add -/
def tableBytes (cfg : Cfg) (recs : List Spec.SymRec) : Bytes :=
  if recs = [] then [] else Spec.encodeSymTable cfg (Spec.nullSym :: recs)

theorem encodeTable_length (cfg : Cfg) (l : List Spec.SymRec) :
    (Spec.encodeSymTable cfg l).length = l.length * Spec.symSize cfg.cls :=
  flatten_block_length _ _ l (fun x _ => Spec.encodeSym_length cfg x)

theorem encodeTable_snoc (cfg : Cfg) (l : List Spec.SymRec) (r : Spec.SymRec) :
    Spec.encodeSymTable cfg (l ++ [r]) = Spec.encodeSymTable cfg l ++ Spec.encodeSym cfg r := by
  simp [Spec.encodeSymTable]

theorem tableBytes_length (cfg : Cfg) (recs : List Spec.SymRec) (h : recs ≠ []) :
    (tableBytes cfg recs).length = (recs.length + 1) * Spec.symSize cfg.cls := by
  simp only [tableBytes, h, if_false, encodeTable_length, List.length_cons]

/-- `add_symbol(name, value, size, info, other, shndx)` on a table holding `recs`: the null symbol
    is written first if the section is empty, the new record goes to the end, its index is returned -/
theorem addSymbol_step {t : SymTab} {recs : List Spec.SymRec} (hg : Grown t.sym (tableBytes t.cfg recs))
    (hcls : t.sym.cls = t.cfg.cls) (hfit : 24 * (recs.length + 2) < 4294967296)
    (name : BitVec 32) (value size : BitVec 64) (info other : BitVec 8) (shndx : BitVec 16) :
    ∃ s', t.addSymbol name value size info other shndx = .ok ({ t with sym := s' }, BitVec.ofNat 32 (recs.length + 1)) ∧
      Grown s' (tableBytes t.cfg (recs ++ [⟨name.toNat, value.toNat, size.toNat, info.toNat, other.toNat, shndx.toNat⟩])) ∧
      s'.cls = t.sym.cls ∧ s'.entSize = t.sym.entSize := by
  have hsz : Spec.symSize t.cfg.cls ≤ 24 ∧ 0 < Spec.symSize t.cfg.cls := by cases t.cfg.cls <;> simp [Spec.symSize]
  have hsize := hg.size
  unfold addSymbol
  simp only [SymTie.add_seed_is32, SymTie.add_is32, SymTie.genericAddSymbolT_c32]
  by_cases hr : recs = []
  · subst hr
    simp only [tableBytes, if_true, List.length_nil] at hg hsize
    have hs0 : t.sym.size = 0 := BitVec.eq_of_toNat_eq (by simpa using hsize)
    have hseed : sym_add_seed_cond t.sym.size = true := by rw [hs0]; simp [sym_add_seed_cond, bv_se0]
    obtain ⟨s1, e1, g1, c1, n1⟩ := genericAdd_step hg hcls 0 (by simp) (by simp) 0 0 0 0 0 0
    have hnull : Spec.encodeSym t.cfg ⟨(0 : BitVec 32).toNat, (0 : BitVec 64).toNat, (0 : BitVec 64).toNat,
        (0 : BitVec 8).toNat, (0 : BitVec 8).toNat, (0 : BitVec 16).toNat⟩ = Spec.encodeSym t.cfg Spec.nullSym := rfl
    rw [hnull, List.nil_append] at g1
    have hl1 := Spec.encodeSym_length t.cfg Spec.nullSym
    obtain ⟨s2, e2, g2, c2, n2⟩ := genericAdd_step (t := { t with sym := s1 }) g1 (by rw [c1]; exact hcls) 1
      (by rw [hl1]; simp) (by rw [hl1]; omega) name value size info other shndx
    refine ⟨s2, ?_, ?_, by rw [c2, c1], by rw [n2, n1]⟩
    · simp only [hseed, if_true, e1, bind, Except.bind, pure, Except.pure]
      exact e2
    · simpa [tableBytes, Spec.encodeSymTable] using g2
  · have hl := tableBytes_length t.cfg recs hr
    have hne : sym_add_seed_cond t.sym.size = false := by
      simp only [sym_add_seed_cond, bv_se0, beq_eq_false_iff_ne, ne_eq]
      intro e; rw [e] at hsize; simp at hsize; rw [hl] at hsize
      have : 0 < (recs.length + 1) * Spec.symSize t.cfg.cls := Nat.mul_pos (by omega) hsz.2
      omega
    have hle : (recs.length + 1) * Spec.symSize t.cfg.cls ≤ (recs.length + 1) * 24 := Nat.mul_le_mul_left _ hsz.1
    obtain ⟨s2, e2, g2, c2, n2⟩ := genericAdd_step hg hcls (recs.length + 1) hl (by rw [hl]; omega)
      name value size info other shndx
    refine ⟨s2, ?_, ?_, c2, n2⟩
    · simp only [hne, Bool.false_eq_true, if_false, bind, Except.bind, pure, Except.pure]
      exact e2
    · have : tableBytes t.cfg (recs ++ [⟨name.toNat, value.toNat, size.toNat, info.toNat, other.toNat, shndx.toNat⟩])
          = tableBytes t.cfg recs ++ Spec.encodeSym t.cfg ⟨name.toNat, value.toNat, size.toNat, info.toNat, other.toNat, shndx.toNat⟩ := by
        simp only [tableBytes, hr, if_false, List.append_eq_nil_iff, List.cons_ne_nil, and_false]
        rw [← List.cons_append, encodeTable_snoc]
      rw [this]; exact g2


/-! ### string-table facts needed for names -/

theorem takeWhile_nul (n rest : Bytes) (hn : (0 : UInt8) ∉ n) :
    (n ++ 0 :: rest).takeWhile (· ≠ 0) = n := by
  induction n with
  | nil => simp
  | cons x xs ih =>
    have hx : x ≠ 0 := fun e => hn (by simp [e])
    have hxs : (0 : UInt8) ∉ xs := fun e => hn (by simp [e])
    have := ih hxs
    simp only [List.cons_append, List.takeWhile_cons, ne_eq, hx, not_false_eq_true, decide_true, if_true, this]

theorem strAt_at (pre n rest : Bytes) (hn : (0 : UInt8) ∉ n) :
    Spec.symStrAt (pre ++ (n ++ 0 :: rest)) pre.length = some n := by
  unfold Spec.symStrAt
  have h1 : pre.length < (pre ++ (n ++ 0 :: rest)).length := by simp; omega
  simp only [h1, if_true, List.drop_left]
  have h2 : (n ++ 0 :: rest).contains 0 = true := by simp
  simp only [h2, if_true, takeWhile_nul n rest hn]

theorem strAt_table (pre : Bytes) (ns : List Bytes) (hn : ∀ n ∈ ns, (0 : UInt8) ∉ n) (k off : Nat) (n : Bytes)
    (ho : (Spec.strtabOffsets pre.length ns)[k]? = some off) (hk : ns[k]? = some n) :
    Spec.symStrAt (pre ++ (ns.map (· ++ [0])).flatten) off = some n := by
  induction ns generalizing pre k with
  | nil => simp at hk
  | cons x xs ih =>
    cases k with
    | zero =>
      simp only [Spec.strtabOffsets, List.getElem?_cons_zero, Option.some.injEq] at ho hk
      subst ho; subst hk
      simp only [List.map_cons, List.flatten_cons, List.append_assoc, List.singleton_append]
      exact strAt_at pre x _ (hn x (by simp))
    | succ j =>
      simp only [Spec.strtabOffsets, List.getElem?_cons_succ] at ho hk
      have := ih (pre ++ (x ++ [0])) (fun n hn' => hn n (by simp [hn'])) j
        (by simpa [Nat.add_assoc] using ho) hk
      simpa using this


theorem bind_ok {α β} {x : M α} {f : α → M β} {r : β} (h : (x >>= f) = .ok r) :
    ∃ v, x = .ok v ∧ f v = .ok r := by
  cases x with
  | error e => simp [bind, Except.bind] at h
  | ok v => exact ⟨v, rfl, h⟩

theorem recAt_value_lt (cfg : Cfg) (symB : Bytes) (i : Nat) :
    (recAt cfg symB i).value < 18446744073709551616 := by
  unfold recAt Spec.decodeSym
  cases cfg.cls <;> simp only
  · have := decodeInt_slice_lt cfg.enc (slice symB (i * Spec.symSize .c32) (Spec.symSize .c32)) 4 4
    simp only [Nat.reduceMul, Nat.reducePow] at this; omega
  · have := decodeInt_slice_lt cfg.enc (slice symB (i * Spec.symSize .c64) (Spec.symSize .c64)) 8 8
    simp only [Nat.reduceMul, Nat.reducePow] at this; omega

/-- `generic_get_symbol_ptr` + the `st_value` read = the decoded record's value -/
theorem symPtrValue_eq {t : SymTab} {symB strB : Bytes} (h : Wf t symB strB) (i : BitVec 64) :
    t.symPtrValue i = .ok (if i.toNat < countOf t.cfg.cls symB then
        some (BitVec.ofNat 64 (recAt t.cfg symB i.toNat).value) else none) := by
  have hsz := h.sym.size
  have hlt := t.sym.size.isLt
  have hi := i.isLt
  have hcnt : countOf t.cfg.cls symB ≤ symB.length := Nat.div_le_self _ _
  rw [SymTie.symPtrValue_unfold]
  unfold guardNum
  by_cases hn : (secData t.sym).isNone = true
  · have he := h.sym.isNone hn
    have h0 : countOf t.cfg.cls symB = 0 := by subst he; simp [countOf]
    simp [hn, h0, sym32_ptr_guard, sym64_ptr_guard, pure, Except.pure, bind, Except.bind]
  · simp only [hn, Bool.false_eq_true, if_false, symbolsNum_eq h, bind, Except.bind]
    have hg : (BitVec.ult i (BitVec.ofNat 64 (countOf t.cfg.cls symB))) = decide (i.toNat < countOf t.cfg.cls symB) := by
      simp only [BitVec.ult, BitVec.toNat_ofNat, Nat.reducePow] at *
      rw [Nat.mod_eq_of_lt (by omega)]
    simp only [sym32_ptr_guard, sym64_ptr_guard, ite_self, Bool.not_false, Bool.true_and, hg, decide_eq_true_eq]
    by_cases hic : i.toNat < countOf t.cfg.cls symB
    · have hin := count_lt hic
      simp only [hic, if_true]
      have hoff : (i * t.sym.entSize).toNat = i.toNat * Spec.symSize t.cfg.cls := by
        rw [h.ent, symSizeOf_eq, BitVec.toNat_mul, BitVec.toNat_ofNat]
        have : Spec.symSize t.cfg.cls < 25 := by cases t.cfg.cls <;> simp [Spec.symSize]
        simp only [Nat.reducePow] at *
        rw [Nat.mod_eq_of_lt (a := Spec.symSize t.cfg.cls) (by omega), Nat.mod_eq_of_lt (by omega)]
      have hsmall : (if t.c32 = true then sym32_ptr_small t.sym.entSize else sym64_ptr_small t.sym.entSize) = false := by
        rw [h.ent]; unfold c32
        cases t.cfg.cls <;> simp [sym32_ptr_small, sym64_ptr_small, symSizeOf, BitVec.ult]
      simp only [hsmall, Bool.false_eq_true, if_false, sym32_ptr_off, sym64_ptr_off, ite_self, hoff]
      unfold recAt Spec.decodeSym
      cases hc : t.cfg.cls <;> simp only [hc, Spec.symSize] at hin ⊢
      · simp only [Elf32_Sym.st_value_off, Elf32_Sym.st_value_w]
        rw [h.sym.rd _ _ _ (by omega) (by omega)]
        simp only [pure, Except.pure]
        rw [rdField_eq _ _ (by rw [slice_length_of_le (by omega)]; simp), slice_slice_sym (by omega)]
      · simp only [Elf64_Sym.st_value_off, Elf64_Sym.st_value_w]
        rw [h.sym.rd _ _ _ (by omega) (by omega)]
        simp only [pure, Except.pure]
        rw [rdField_eq _ _ (by rw [slice_length_of_le (by omega)]; simp), slice_slice_sym (by omega)]
    · simp only [hic, if_false, pure, Except.pure]


/-- `st_value` of every entry, in table order -/
def valuesOf (cfg : Cfg) (symB : Bytes) : List Nat :=
  (List.range (countOf cfg.cls symB)).map (fun j => (recAt cfg symB j).value)

theorem valuesOf_get (cfg : Cfg) (symB : Bytes) (j : Nat) :
    (valuesOf cfg symB)[j]? = if j < countOf cfg.cls symB then some (recAt cfg symB j).value else none := by
  unfold valuesOf
  by_cases h : j < countOf cfg.cls symB
  · simp [h]
  · simp [h]

/-- the search loop finds the first entry at or after `i` whose value matches -/
theorem searchGo_spec {t : SymTab} {symB strB : Bytes} (h : Wf t symB strB) (value : BitVec 64) :
    ∀ (k i : Nat), i + k = countOf t.cfg.cls symB →
      ∃ r, t.searchGo value k (BitVec.ofNat 64 i) = .ok r ∧
        (match r with
         | none => ∀ j, i ≤ j → j < countOf t.cfg.cls symB → (recAt t.cfg symB j).value ≠ value.toNat
         | some idx => ∃ j, idx = BitVec.ofNat 64 j ∧ i ≤ j ∧ j < countOf t.cfg.cls symB ∧
             (recAt t.cfg symB j).value = value.toNat ∧
             ∀ j', i ≤ j' → j' < j → (recAt t.cfg symB j').value ≠ value.toNat) := by
  have hcnt : countOf t.cfg.cls symB ≤ symB.length := Nat.div_le_self _ _
  have hlt := t.sym.size.isLt
  have hsz := h.sym.size
  intro k
  induction k with
  | zero =>
    intro i hi
    exact ⟨none, rfl, fun j h1 h2 => by omega⟩
  | succ k ih =>
    intro i hi
    have hin : i < countOf t.cfg.cls symB := by omega
    have hiN : (BitVec.ofNat 64 i).toNat = i := by
      simp only [BitVec.toNat_ofNat, Nat.reducePow] at *; omega
    unfold searchGo
    rw [symPtrValue_eq h, hiN]
    simp only [hin, if_true, bind, Except.bind]
    have hv := recAt_value_lt t.cfg symB i
    have hveq : (BitVec.ofNat 64 (recAt t.cfg symB i).value == value) = decide ((recAt t.cfg symB i).value = value.toNat) := by
      rw [Bool.eq_iff_iff]
      simp only [beq_iff_eq, decide_eq_true_eq]
      constructor
      · intro e; rw [← e]; simp only [BitVec.toNat_ofNat, Nat.reducePow]; omega
      · intro e; apply BitVec.eq_of_toNat_eq; simp only [BitVec.toNat_ofNat, Nat.reducePow]; omega
    rw [hveq]
    by_cases hm : (recAt t.cfg symB i).value = value.toNat
    · simp only [hm, decide_true, if_true]
      exact ⟨some (BitVec.ofNat 64 i), rfl, i, rfl, Nat.le_refl _, hin, hm, fun j' h1 h2 => by omega⟩
    · simp only [hm, decide_false, Bool.false_eq_true, if_false]
      have hnext : BitVec.ofNat 64 i + 1 = BitVec.ofNat 64 (i + 1) := by
        have h1 : (1 : BitVec 64).toNat = 1 := rfl
        apply BitVec.eq_of_toNat_eq
        simp only [BitVec.toNat_add, BitVec.toNat_ofNat, h1, Nat.reducePow]
        omega
      rw [hnext]
      obtain ⟨r, e, p⟩ := ih (i + 1) (by omega)
      refine ⟨r, e, ?_⟩
      cases r with
      | none =>
        intro j h1 h2
        rcases Nat.eq_or_lt_of_le h1 with e1 | e1
        · subst e1; exact hm
        · exact p j e1 h2
      | some idx =>
        obtain ⟨j, e1, e2, e3, e4, e5⟩ := p
        refine ⟨j, e1, by omega, e3, e4, ?_⟩
        intro j' h1 h2
        rcases Nat.eq_or_lt_of_le h1 with e6 | e6
        · subst e6; exact hm
        · exact e5 j' e6 h2

end SymTab

namespace Spec
theorem firstIdx_eq_some {α} {p : α → Bool} {l : List α} {j : Nat} {a : α} (hj : l[j]? = some a) (hp : p a = true)
    (hmin : ∀ j', j' < j → ∀ b, l[j']? = some b → p b = false) : firstIdx p l = some j := by
  induction l generalizing j with
  | nil => simp at hj
  | cons x xs ih =>
    cases j with
    | zero =>
      simp at hj; subst hj
      simp [firstIdx, hp]
    | succ j =>
      have hx : p x = false := hmin 0 (by omega) x (by simp)
      simp only [firstIdx, hx, Bool.false_eq_true, if_false]
      rw [ih (by simpa using hj) (fun j' h1 b hb => hmin (j' + 1) (by omega) b (by simpa using hb))]
      rfl

theorem firstIdx_eq_none {α} {p : α → Bool} {l : List α} (h : ∀ (j : Nat) (b : α), l[j]? = some b → p b = false) :
    firstIdx p l = none := by
  induction l with
  | nil => rfl
  | cons x xs ih =>
    have hx : p x = false := h 0 x (by simp)
    simp only [firstIdx, hx, Bool.false_eq_true, if_false]
    rw [ih (fun j b hb => h (j + 1) b (by simpa using hb))]
    rfl
end Spec


namespace SymTab

theorem bind_ok' {α β} {x : M α} {f : α → M β} {r : β} (h : (x >>= f) = .ok r) :
    ∃ v, x = .ok v ∧ f v = .ok r := by
  cases x with
  | error e => simp [bind, Except.bind] at h
  | ok v => exact ⟨v, rfl, h⟩

/-- every entry's `st_name` leads to a terminated string inside the string section -/
def ValidNames (cfg : Cfg) (symB strB : Bytes) : Prop :=
  ∀ j, j < countOf cfg.cls symB → (nameAt cfg symB strB j).isSome = true

/-- `(s, a)` are the name and the attributes of some entry of the table -/
def SymAt (cfg : Cfg) (symB strB : Bytes) (s : Bytes) (a : Attrs) : Prop :=
  ∃ j, j < countOf cfg.cls symB ∧ nameAt cfg symB strB j = some s ∧ a = attrsOfRec (recAt cfg symB j)

/-- a by-index read either fails and leaves the out-parameters alone, or delivers an entry -/
theorem getSymbol_symAt {t : SymTab} {symB strB : Bytes} (h : Wf t symB strB) (hv : ValidNames t.cfg symB strB)
    (i : BitVec 64) (str : Bytes) (a : Attrs) (r : Bool × Bytes × Attrs) (e : t.getSymbol i str a = .ok r) :
    (r.1 = true → SymAt t.cfg symB strB r.2.1 r.2.2) ∧ (r.1 = false → r.2.1 = str ∧ r.2.2 = a) := by
  rw [getSymbol_decoded h] at e
  by_cases hi : i.toNat < countOf t.cfg.cls symB
  · simp only [hi, if_true, Except.ok.injEq] at e
    obtain ⟨n, hn⟩ := Option.isSome_iff_exists.mp (hv _ hi)
    rw [← e]
    refine ⟨fun _ => ⟨i.toNat, hi, ?_, rfl⟩, fun c => by simp at c⟩
    simp [hn]
  · simp only [hi, if_false, Except.ok.injEq] at e
    rw [← e]
    exact ⟨fun c => by simp at c, fun _ => ⟨rfl, rfl⟩⟩

/-- the SysV chain walk only ever holds the name and attributes of an entry -/
theorem sysvLoop_symAt {t : SymTab} {symB strB : Bytes} (h : Wf t symB strB) (hv : ValidNames t.cfg symB strB)
    (data : Option Bytes) (name : Bytes) (nbucket nchain : BitVec 32) :
    ∀ (fuel : Nat) (y : BitVec 32) (str : Bytes) (a : Attrs) (st : Bytes × Attrs),
      SymAt t.cfg symB strB str a → sysvLoop t data name nbucket nchain fuel y str a = .ok st →
      SymAt t.cfg symB strB st.1 st.2 := by
  intro fuel
  induction fuel with
  | zero =>
    intro y str a st hs e
    rw [sysvLoop] at e
    sym_tie at e
    split at e
    · cases e
    · cases e; exact hs
  | succ k ih =>
    intro y str a st hs e
    rw [sysvLoop] at e
    sym_tie at e
    split at e
    · obtain ⟨y', _, e1⟩ := bind_ok' e
      obtain ⟨r, er, e2⟩ := bind_ok' e1
      obtain ⟨p1, p2⟩ := getSymbol_symAt h hv _ _ _ r er
      cases hr : r.1 with
      | true => exact ih _ _ _ _ (p1 hr) e2
      | false =>
        obtain ⟨q1, q2⟩ := p2 hr
        rw [q1, q2] at e2
        exact ih _ _ _ _ hs e2
    · cases e; exact hs

/-- **soundness of the SysV walk** : it reports success only with the attributes of an entry that
    carries the requested name -/
theorem hashLookup_sound {t : SymTab} {symB strB : Bytes} (h : Wf t symB strB) (hv : ValidNames t.cfg symB strB)
    (hs : SecBuf) (name : Bytes) (a a' : Attrs) (e : t.hashLookup hs name a = .ok (true, a')) :
    SymAt t.cfg symB strB name a' := by
  unfold hashLookup at e
  sym_tie at e
  obtain ⟨nbucket, _, e⟩ := bind_ok' e
  obtain ⟨nchain, _, e⟩ := bind_ok' e
  try simp only at e
  split at e
  · cases e
  obtain ⟨y, _, e⟩ := bind_ok' e
  obtain ⟨r, er, e⟩ := bind_ok' e
  obtain ⟨p1, _⟩ := getSymbol_symAt h hv _ _ _ r er
  split at e
  · cases e
  · rename_i hr
    have hr' : r.1 = true := by simpa [SymTie.sysv_head_missing_eq] using hr
    obtain ⟨st, es, e⟩ := bind_ok' e
    have := sysvLoop_symAt h hv _ _ _ _ _ _ _ _ st (p1 hr') es
    simp only [pure, Except.pure, Except.ok.injEq, Prod.mk.injEq, beq_iff_eq] at e
    rw [← e.1, ← e.2]; exact this


/-- the GNU chain walk reports success only right after a successful read of a matching entry -/
theorem gnuLoop_sound {t : SymTab} {symB strB : Bytes} (h : Wf t symB strB) (hv : ValidNames t.cfg symB strB)
    (data : Option Bytes) (name : Bytes) (hash symoffset : BitVec 32) (chainsBase : Nat) :
    ∀ (fuel : Nat) (ci ch : BitVec 32) (sn : Bytes) (a a' : Attrs),
      gnuLoop t data name hash symoffset chainsBase fuel ci ch sn a = .ok (true, a') →
      SymAt t.cfg symB strB name a' := by
  intro fuel
  induction fuel with
  | zero => intro ci ch sn a a' e; rw [gnuLoop, gnuLoopT] at e; cases e
  | succ k ih =>
    intro ci ch sn a a' e
    rw [gnuLoop, gnuLoopT] at e
    sym_tie at e
    obtain ⟨r, er, e⟩ := bind_ok' e
    try simp only at e
    generalize (if t.c32 = true then gnu32_hash_match ch hash else gnu64_hash_match ch hash) = hm at e er
    by_cases hc : (hm && r.1 && (name == r.2.1)) = true
    · rw [if_pos hc] at e
      simp only [Bool.and_eq_true, beq_iff_eq] at hc
      simp only [pure, Except.pure, Except.ok.injEq, Prod.mk.injEq, true_and] at e
      obtain ⟨⟨hm', hr⟩, hn⟩ := hc
      rw [if_pos hm'] at er
      obtain ⟨p1, _⟩ := getSymbol_symAt h hv _ _ _ r er
      rw [← e, hn]; exact p1 hr
    · rw [if_neg hc] at e
      by_cases hend : (if t.c32 = true then gnu32_chain_end ch else gnu64_chain_end ch) = true
      · rw [if_pos hend] at e; simp [pure, Except.pure] at e
      · rw [if_neg hend] at e
        obtain ⟨ch', _, e⟩ := bind_ok' e
        exact ih _ _ _ _ _ e

/-- **soundness of the GNU walk** -/
theorem gnuLookup_sound {t : SymTab} {symB strB : Bytes} (h : Wf t symB strB) (hv : ValidNames t.cfg symB strB)
    (hs : SecBuf) (name : Bytes) (a a' : Attrs) (e : t.gnuLookup hs name a = .ok (true, a')) :
    SymAt t.cfg symB strB name a' := by
  unfold gnuLookup gnuLookupT at e
  sym_tie at e
  obtain ⟨nbuckets, _, e⟩ := bind_ok' e
  obtain ⟨symoffset, _, e⟩ := bind_ok' e
  obtain ⟨bloomSize, _, e⟩ := bind_ok' e
  obtain ⟨bloomShift, _, e⟩ := bind_ok' e
  try simp only at e
  split at e
  · cases e
  obtain ⟨pass, _, e⟩ := bind_ok' e
  split at e
  · simp [pure, Except.pure] at e
  split at e
  · cases e
  obtain ⟨bv, _, e⟩ := bind_ok' e
  split at e
  · obtain ⟨ch, _, e⟩ := bind_ok' e
    exact gnuLoop_sound h hv _ _ _ _ _ _ _ _ _ _ _ e
  · simp [pure, Except.pure] at e

/-- soundness of the whole hash phase of `get_symbol(name, …)` -/
theorem hashPhase_sound {t : SymTab} {symB strB : Bytes} (h : Wf t symB strB) (hv : ValidNames t.cfg symB strB)
    (name : Bytes) (a a' : Attrs) (e : t.hashPhase name a = .ok (true, a')) :
    SymAt t.cfg symB strB name a' := by
  unfold hashPhase at e
  rw [SymTie.gnuLookupT_dispatch] at e
  split at e
  · simp [pure, Except.pure] at e
  · rename_i hs _
    obtain ⟨r1, e1, e⟩ := bind_ok' e
    split at e
    · exact gnuLookup_sound h hv _ _ _ _ e
    · simp only [pure, Except.pure, Except.ok.injEq] at e
      subst e
      split at e1
      · exact hashLookup_sound h hv _ _ _ _ e1
      · simp [pure, Except.pure] at e1

/-- the unconditional fallback: first entry at or after `i` that carries the name -/
theorem linearGo_spec {t : SymTab} {symB strB : Bytes} (h : Wf t symB strB) (hv : ValidNames t.cfg symB strB)
    (name : Bytes) :
    ∀ (k i : Nat) (a : Attrs), i + k = countOf t.cfg.cls symB →
      ∃ r a'', t.linearGo name k (BitVec.ofNat 64 i) a = .ok (r, a'') ∧
        (r = false → ∀ j, i ≤ j → j < countOf t.cfg.cls symB → nameAt t.cfg symB strB j ≠ some name) ∧
        (r = true → ∃ j, i ≤ j ∧ j < countOf t.cfg.cls symB ∧ nameAt t.cfg symB strB j = some name ∧
            a'' = attrsOfRec (recAt t.cfg symB j) ∧
            ∀ j', i ≤ j' → j' < j → nameAt t.cfg symB strB j' ≠ some name) := by
  have hcnt : countOf t.cfg.cls symB ≤ symB.length := Nat.div_le_self _ _
  have hlt := t.sym.size.isLt
  have hsz := h.sym.size
  intro k
  induction k with
  | zero =>
    intro i a hi
    exact ⟨false, a, rfl, fun _ j h1 h2 => by omega, fun c => by cases c⟩
  | succ k ih =>
    intro i a hi
    have hin : i < countOf t.cfg.cls symB := by omega
    have hiN : (BitVec.ofNat 64 i).toNat = i := by
      simp only [BitVec.toNat_ofNat, Nat.reducePow] at *; omega
    obtain ⟨n, hn⟩ := Option.isSome_iff_exists.mp (hv _ hin)
    have hstep : t.linearGo name (k + 1) (BitVec.ofNat 64 i) a =
        (if (n == name) = true then pure (true, attrsOfRec (recAt t.cfg symB i))
         else t.linearGo name k (BitVec.ofNat 64 i + 1) (attrsOfRec (recAt t.cfg symB i))) := by
      rw [linearGo, getSymbol_decoded h, hiN]
      simp only [SymTie.byname_hit, SymTie.byname_i_incr, hin, if_true, bind, Except.bind, hn, Option.getD_some,
        Bool.true_and]
    rw [hstep]
    by_cases hm : n = name
    · subst hm
      refine ⟨true, attrsOfRec (recAt t.cfg symB i), by simp [pure, Except.pure], fun c => (by cases c),
        fun _ => ⟨i, Nat.le_refl _, hin, hn, rfl, fun j' h1 h2 => by omega⟩⟩
    · have hb : (n == name) = false := by simpa using hm
      rw [hb]
      simp only [Bool.false_eq_true, if_false]
      have hnext : BitVec.ofNat 64 i + 1 = BitVec.ofNat 64 (i + 1) := by
        have h1 : (1 : BitVec 64).toNat = 1 := rfl
        apply BitVec.eq_of_toNat_eq
        simp only [BitVec.toNat_add, BitVec.toNat_ofNat, h1, Nat.reducePow]
        omega
      rw [hnext]
      obtain ⟨r, a'', e, p1, p2⟩ := ih (i + 1) (attrsOfRec (recAt t.cfg symB i)) (by omega)
      have hne : nameAt t.cfg symB strB i ≠ some name := by rw [hn]; simpa using hm
      refine ⟨r, a'', e, ?_, ?_⟩
      · intro hr j h1 h2
        rcases Nat.eq_or_lt_of_le h1 with e1 | e1
        · subst e1; exact hne
        · exact p1 hr j e1 h2
      · intro hr
        obtain ⟨j, e1, e2, e3, e4, e5⟩ := p2 hr
        refine ⟨j, by omega, e2, e3, e4, ?_⟩
        intro j' h1 h2
        rcases Nat.eq_or_lt_of_le h1 with e6 | e6
        · subst e6; exact hne
        · exact e5 j' e6 h2


/-- names of the entries in table order -/
def namesOfTable (cfg : Cfg) (symB strB : Bytes) : List Bytes :=
  (List.range (countOf cfg.cls symB)).map (fun j => (nameAt cfg symB strB j).getD [])

theorem namesOfTable_get (cfg : Cfg) (symB strB : Bytes) (j : Nat) :
    (namesOfTable cfg symB strB)[j]? =
      if j < countOf cfg.cls symB then some ((nameAt cfg symB strB j).getD []) else none := by
  unfold namesOfTable
  by_cases h : j < countOf cfg.cls symB
  · simp [h]
  · simp [h]

theorem linearGo_congr {t t' : SymTab} (hg : ∀ i str a, t.getSymbol i str a = t'.getSymbol i str a) (name : Bytes) :
    ∀ (k : Nat) (i : BitVec 64) (a : Attrs), t.linearGo name k i a = t'.linearGo name k i a := by
  intro k
  induction k with
  | zero => intro i a; rfl
  | succ k ih =>
    intro i a
    rw [linearGo, linearGo, hg]
    cases t'.getSymbol i [] a with
    | error e => rfl
    | ok r =>
      simp only [bind, Except.bind]
      split
      · rfl
      · exact ih _ _

theorem searchGo_congr {t t' : SymTab} (hg : ∀ i, t.symPtrValue i = t'.symPtrValue i) (value : BitVec 64) :
    ∀ (k : Nat) (i : BitVec 64), t.searchGo value k i = t'.searchGo value k i := by
  intro k
  induction k with
  | zero => intro i; rfl
  | succ k ih =>
    intro i
    rw [searchGo, searchGo, hg]
    cases t'.symPtrValue i with
    | error e => rfl
    | ok r =>
      simp only [bind, Except.bind]
      cases r with
      | none => rfl
      | some v =>
        simp only
        split
        · rfl
        · exact ih _

/-- 32-bit word `i` of a hash section -/
def wordAt (e : Enc) (hashB : Bytes) (i : Nat) : Nat := decodeInt e (slice hashB (4 * i) 4)

theorem wordAt_lt (e : Enc) (hashB : Bytes) (i : Nat) : wordAt e hashB i < 4294967296 := by
  have := decodeInt_slice_lt e hashB (4 * i) 4
  unfold wordAt
  simpa using this

theorem rd32_eq {hs : SecBuf} {hashB : Bytes} (h : ReadsAs hs hashB) (site : String) (e : Enc) (i : Nat)
    (hin : 4 * i + 4 ≤ hashB.length) :
    rd32 site e (secData hs) (4 * i) = .ok (BitVec.ofNat 32 (wordAt e hashB i)) := by
  unfold rd32
  rw [h.rd _ _ _ (by omega) hin]
  simp only [bind, Except.bind, pure, Except.pure]
  rw [rdField_eq _ _ (by rw [slice_length_of_le hin]; simp)]
  rfl

theorem getSymbol_total {t : SymTab} {symB strB : Bytes} (h : Wf t symB strB) (i : BitVec 64) (str : Bytes) (a : Attrs) :
    ∃ r, t.getSymbol i str a = .ok r := ⟨_, getSymbol_decoded h i str a⟩

/-- a SysV hash section as the gABI lays it out (`nbucket`, `nchain`, buckets, chains) whose chains
    lead to strictly smaller indices (what inserting symbols in index order produces) -/
structure SysvWf (e : Enc) (hashB : Bytes) : Prop where
  nb : 1 ≤ wordAt e hashB 0
  len : hashB.length = 4 * (2 + wordAt e hashB 0 + wordAt e hashB 1)
  small : 2 + wordAt e hashB 0 + wordAt e hashB 1 < 4294967296
  desc : ∀ y, 1 ≤ y → y < wordAt e hashB 1 → wordAt e hashB (2 + wordAt e hashB 0 + y) < y

theorem ofNat32_toNat {x : Nat} (h : x < 4294967296) : (BitVec.ofNat 32 x).toNat = x := by
  simp only [BitVec.toNat_ofNat, Nat.reducePow]; omega

theorem sysvLoop_total {t : SymTab} {symB strB hashB : Bytes} (h : Wf t symB strB) {hs : SecBuf}
    (hr : ReadsAs hs hashB) (hw : SysvWf t.cfg.enc hashB) (name : Bytes) :
    ∀ (fuel : Nat) (y : BitVec 32) (str : Bytes) (a : Attrs),
      (y.toNat < wordAt t.cfg.enc hashB 1 → y.toNat < fuel) →
      ∃ st, sysvLoop t (secData hs) name (BitVec.ofNat 32 (wordAt t.cfg.enc hashB 0))
        (BitVec.ofNat 32 (wordAt t.cfg.enc hashB 1)) fuel y str a = .ok st := by
  have hnb := wordAt_lt t.cfg.enc hashB 0
  have hnc := wordAt_lt t.cfg.enc hashB 1
  intro fuel
  induction fuel with
  | zero =>
    intro y str a hf
    rw [sysvLoop]
    sym_tie
    split
    · rename_i hc
      simp only [Bool.and_eq_true, sysv_walk_lt_nchain, BitVec.ult, decide_eq_true_eq, ofNat32_toNat hnc] at hc
      have := hf hc.2; omega
    · exact ⟨_, rfl⟩
  | succ k ih =>
    intro y str a hf
    rw [sysvLoop]
    sym_tie
    split
    · rename_i hc
      simp only [Bool.and_eq_true, sysv_walk_lt_nchain, sysv_walk_not_undef, BitVec.ult, decide_eq_true_eq,
        ofNat32_toNat hnc, bne_iff_ne, ne_eq] at hc
      obtain ⟨⟨_, hy0⟩, hylt⟩ := hc
      have hy1 : 1 ≤ y.toNat := by
        rcases Nat.eq_zero_or_pos y.toNat with e0 | e0
        · exfalso; apply hy0; apply BitVec.eq_of_toNat_eq; rw [e0]; rfl
        · exact e0
      have hoff : (sysv_chain_off (BitVec.ofNat 32 (wordAt t.cfg.enc hashB 0)) y).toNat
          = 4 * (2 + wordAt t.cfg.enc hashB 0 + y.toNat) := by
        have h2 : (2#32).toNat = 2 := rfl
        have h4 : (4#64).toNat = 4 := rfl
        have hsm := hw.small
        simp only [sysv_chain_off, BitVec.toNat_mul, BitVec.toNat_setWidth, BitVec.toNat_add, ofNat32_toNat hnb,
          h2, h4, Nat.reducePow]
        omega
      rw [hoff, rd32_eq hr _ _ _ (by rw [hw.len]; omega)]
      simp only [bind, Except.bind]
      obtain ⟨r, er⟩ := getSymbol_total h ((BitVec.ofNat 32 (wordAt t.cfg.enc hashB (2 + wordAt t.cfg.enc hashB 0 + y.toNat))).setWidth 64) str a
      rw [er]
      apply ih
      intro _
      rw [ofNat32_toNat (wordAt_lt _ _ _)]
      have := hw.desc y.toNat hy1 hylt
      have := hf hylt
      omega
    · exact ⟨_, rfl⟩

/-- **the SysV walk over a well-formed table neither faults nor runs out of fuel** -/
theorem hashLookup_total {t : SymTab} {symB strB hashB : Bytes} (h : Wf t symB strB) {hs : SecBuf}
    (hr : ReadsAs hs hashB) (hw : SysvWf t.cfg.enc hashB) (name : Bytes) (a : Attrs) :
    ∃ r, t.hashLookup hs name a = .ok r := by
  have hnb := wordAt_lt t.cfg.enc hashB 0
  have hnc := wordAt_lt t.cfg.enc hashB 1
  have hl := hw.len
  have hsm := hw.small
  have hnb1 := hw.nb
  unfold hashLookup
  sym_tie
  have e0 := rd32_eq hr "hash_lookup/nbucket" t.cfg.enc 0 (by omega)
  have e1 := rd32_eq hr "hash_lookup/nchain" t.cfg.enc 1 (by omega)
  simp only [Nat.mul_zero, Nat.mul_one] at e0 e1
  have h4 : sysv_nchain_off.toNat = 4 := rfl
  simp only [h4, e0, e1, bind, Except.bind]
  have hnz : ¬ (BitVec.ofNat 32 (wordAt t.cfg.enc hashB 0) = 0) := by
    intro e; have := congrArg BitVec.toNat e; rw [ofNat32_toNat hnb] at this; simp at this; omega
  simp only [hnz, if_false]
  have hmod : ∀ v : BitVec 32, (v % BitVec.ofNat 32 (wordAt t.cfg.enc hashB 0)).toNat < wordAt t.cfg.enc hashB 0 := by
    intro v; rw [BitVec.toNat_umod, ofNat32_toNat hnb]; exact Nat.mod_lt _ (by omega)
  have hoff : (sysv_bucket_off (elf_hash (cName name)) (BitVec.ofNat 32 (wordAt t.cfg.enc hashB 0))).toNat
      = 4 * (2 + (elf_hash (cName name) % BitVec.ofNat 32 (wordAt t.cfg.enc hashB 0)).toNat) := by
    have h2 : (2#32).toNat = 2 := rfl
    have h4 : (4#64).toNat = 4 := rfl
    have := hmod (elf_hash (cName name))
    simp only [sysv_bucket_off, BitVec.toNat_mul, BitVec.toNat_setWidth, BitVec.toNat_add, h2, h4, Nat.reducePow]
    omega
  have := hmod (elf_hash (cName name))
  rw [hoff, rd32_eq hr _ _ _ (by omega)]
  simp only []
  obtain ⟨r, er⟩ := getSymbol_total h ((BitVec.ofNat 32 (wordAt t.cfg.enc hashB (2 + (elf_hash (cName name) % BitVec.ofNat 32 (wordAt t.cfg.enc hashB 0)).toNat))).setWidth 64) [] a
  rw [er]
  simp only []
  split
  · exact ⟨_, rfl⟩
  · obtain ⟨st, es⟩ := sysvLoop_total h hr hw name (wordAt t.cfg.enc hashB 1 + 1)
      (BitVec.ofNat 32 (wordAt t.cfg.enc hashB (2 + (elf_hash (cName name) % BitVec.ofNat 32 (wordAt t.cfg.enc hashB 0)).toNat)))
      r.2.1 r.2.2 (fun hlt => by omega)
    rw [ofNat32_toNat hnc, es]
    exact ⟨_, rfl⟩


/-- 32-bit word at byte offset `off` of a hash section -/
def hw32 (e : Enc) (hashB : Bytes) (off : Nat) : Nat := decodeInt e (slice hashB off 4)

theorem hw32_lt (e : Enc) (hashB : Bytes) (off : Nat) : hw32 e hashB off < 4294967296 := by
  have := decodeInt_slice_lt e hashB off 4
  unfold hw32; simpa using this

theorem rd32_at {hs : SecBuf} {hashB : Bytes} (h : ReadsAs hs hashB) (site : String) (e : Enc) (off : Nat)
    (hin : off + 4 ≤ hashB.length) :
    rd32 site e (secData hs) off = .ok (BitVec.ofNat 32 (hw32 e hashB off)) := by
  unfold rd32
  rw [h.rd _ _ _ (by omega) hin]
  simp only [bind, Except.bind, pure, Except.pure]
  rw [rdField_eq _ _ (by rw [slice_length_of_le hin]; simp)]
  rfl

theorem rd64_at {hs : SecBuf} {hashB : Bytes} (h : ReadsAs hs hashB) (site : String) (e : Enc) (off : Nat)
    (hin : off + 8 ≤ hashB.length) :
    ∃ v, rd64 site e (secData hs) off = .ok v := by
  unfold rd64
  rw [h.rd _ _ _ (by omega) hin]
  exact ⟨_, rfl⟩

/-- bloom word size of the class -/
def bloomW (c : Cls) : Nat := match c with | .c32 => 4 | .c64 => 8

/-- a GNU hash section laid out as the GNU description says (header, bloom words of the class
    size, buckets, `nch` chain words), whose non-empty buckets point into the chain array and whose
    chain array ends with a stop bit -/
structure GnuWf (e : Enc) (c : Cls) (hashB : Bytes) (nch : Nat) : Prop where
  bs1 : 1 ≤ hw32 e hashB 8
  nb1 : 1 ≤ hw32 e hashB 0
  len : hashB.length = 16 + hw32 e hashB 8 * bloomW c + hw32 e hashB 0 * 4 + 4 * nch
  small : 16 + hw32 e hashB 8 * bloomW c + hw32 e hashB 0 * 4 + 4 * nch < 4294967296
  buckets : ∀ b, b < hw32 e hashB 0 →
    hw32 e hashB 4 ≤ hw32 e hashB (16 + hw32 e hashB 8 * bloomW c + 4 * b) →
    hw32 e hashB (16 + hw32 e hashB 8 * bloomW c + 4 * b) - hw32 e hashB 4 < nch
  stop : nch = 0 ∨ hw32 e hashB (16 + hw32 e hashB 8 * bloomW c + hw32 e hashB 0 * 4 + 4 * (nch - 1)) % 2 = 1

theorem ofNat32_toNat' {x : Nat} (h : x < 4294967296) : (BitVec.ofNat 32 x).toNat = x := by
  simp only [BitVec.toNat_ofNat, Nat.reducePow]; omega

theorem chain_end_iff (t : SymTab) (ch : BitVec 32) :
    (if t.c32 = true then gnu32_chain_end ch else gnu64_chain_end ch) = decide (ch.toNat % 2 = 1) := by
  have h1 : (1#32).toNat = 1 := rfl
  have key : ((ch &&& 1#32) != 0#32) = decide (ch.toNat % 2 = 1) := by
    rw [Bool.eq_iff_iff]
    simp only [bne_iff_ne, ne_eq, decide_eq_true_eq]
    have hand : (ch &&& 1#32).toNat = ch.toNat % 2 := by
      rw [BitVec.toNat_and, h1, Nat.and_one_is_mod]
    constructor
    · intro hne
      rcases Nat.mod_two_eq_zero_or_one ch.toNat with h0 | h0
      · exfalso; apply hne; apply BitVec.eq_of_toNat_eq; rw [hand, h0]; rfl
      · exact h0
    · intro h0 e
      have := congrArg BitVec.toNat e
      rw [hand, h0] at this
      exact absurd this (by decide)
  simp only [gnu32_chain_end, gnu64_chain_end, ite_self, key]

theorem gnuLoop_total {t : SymTab} {symB strB hashB : Bytes} (h : Wf t symB strB) {hs : SecBuf}
    (hr : ReadsAs hs hashB) {nch : Nat} (hw : GnuWf t.cfg.enc t.cfg.cls hashB nch) (name : Bytes)
    (hash symoffset : BitVec 32) :
    ∀ (fuel : Nat) (ci ch : BitVec 32) (sn : Bytes) (a : Attrs),
      ci.toNat < nch →
      ch = BitVec.ofNat 32 (hw32 t.cfg.enc hashB
        (16 + hw32 t.cfg.enc hashB 8 * bloomW t.cfg.cls + hw32 t.cfg.enc hashB 0 * 4 + 4 * ci.toNat)) →
      nch - ci.toNat ≤ fuel →
      ∃ r, gnuLoop t (secData hs) name hash symoffset
        (16 + hw32 t.cfg.enc hashB 8 * bloomW t.cfg.cls + hw32 t.cfg.enc hashB 0 * 4) fuel ci ch sn a = .ok r := by
  have hsm := hw.small
  have hl := hw.len
  intro fuel
  induction fuel with
  | zero => intro ci ch sn a h1 _ h3; omega
  | succ k ih =>
    intro ci ch sn a h1 h2 h3
    rw [gnuLoop, gnuLoopT]
    sym_tie
    generalize (if t.c32 = true then gnu32_hash_match ch hash else gnu64_hash_match ch hash) = hm
    have hget : ∃ r, (if hm = true then t.getSymbol (if t.c32 = true then gnu32_sym_index ci symoffset
        else gnu64_sym_index ci symoffset) sn a else pure (false, sn, a)) = .ok r := by
      cases hm
      · exact ⟨_, rfl⟩
      · simp only [if_true]; exact getSymbol_total h _ _ _
    obtain ⟨r, er⟩ := hget
    rw [er]
    simp only [bind, Except.bind]
    split
    · exact ⟨_, rfl⟩
    · rw [chain_end_iff]
      by_cases hodd : ch.toNat % 2 = 1
      · simp only [hodd, decide_true, if_true]; exact ⟨_, rfl⟩
      · simp only [hodd, decide_false, Bool.false_eq_true, if_false]
        have hlast : ci.toNat ≠ nch - 1 := by
          intro e
          rcases hw.stop with h0 | h0
          · omega
          · rw [← e] at h0
            rw [h2, ofNat32_toNat' (hw32_lt _ _ _)] at hodd
            exact hodd h0
        have h1' : (1 : BitVec 32).toNat = 1 := rfl
        have hci : (ci + 1).toNat = ci.toNat + 1 := by
          rw [BitVec.toNat_add, h1']; simp only [Nat.reducePow]; omega
        rw [hci]
        have hoff : 16 + hw32 t.cfg.enc hashB 8 * bloomW t.cfg.cls + hw32 t.cfg.enc hashB 0 * 4 + (ci.toNat + 1) * 4
            = 16 + hw32 t.cfg.enc hashB 8 * bloomW t.cfg.cls + hw32 t.cfg.enc hashB 0 * 4 + 4 * (ci.toNat + 1) := by omega
        rw [hoff, rd32_at hr _ _ _ (by omega)]
        simp only []
        apply ih
        · rw [hci]; omega
        · rw [hci]
        · rw [hci]; omega


theorem bloom_off_eq : gnu32_bloom_off.toNat = 16 ∧ gnu64_bloom_off.toNat = 16 := by
  have h4 : (BitVec.signExtend 64 4#32).toNat = 4 := by
    simp only [BitVec.signExtend, BitVec.toInt, BitVec.toNat_ofNat, Nat.reducePow, Nat.reduceMod]
    simp
  have h44 : (4#64).toNat = 4 := rfl
  constructor <;>
  · simp only [gnu32_bloom_off, gnu64_bloom_off, BitVec.toNat_mul, h4, h44, Nat.reducePow]

/-- **the GNU walk over a well-formed table neither faults nor runs out of fuel** -/
theorem gnuLookup_total {t : SymTab} {symB strB hashB : Bytes} (h : Wf t symB strB) {hs : SecBuf}
    (hr : ReadsAs hs hashB) {nch : Nat} (hw : GnuWf t.cfg.enc t.cfg.cls hashB nch) (name : Bytes) (a : Attrs) :
    ∃ r, t.gnuLookup hs name a = .ok r := by
  have hsm := hw.small
  have hl := hw.len
  have hbs1 := hw.bs1
  have hnb1 := hw.nb1
  have hW : bloomW t.cfg.cls = 4 ∨ bloomW t.cfg.cls = 8 := by cases t.cfg.cls <;> simp [bloomW]
  have hnbk := hw32_lt t.cfg.enc hashB 0
  have hbs := hw32_lt t.cfg.enc hashB 8
  have hso := hw32_lt t.cfg.enc hashB 4
  have hmul : hw32 t.cfg.enc hashB 8 * bloomW t.cfg.cls ≥ hw32 t.cfg.enc hashB 8 := by
    rcases hW with e | e <;> rw [e] <;> omega
  unfold gnuLookup gnuLookupT
  sym_tie
  simp only [rd32_at hr _ _ 0 (by omega), rd32_at hr _ _ 4 (by omega), rd32_at hr _ _ 8 (by omega),
    rd32_at hr _ _ 12 (by omega), bind, Except.bind]
  have hbz : ¬ (BitVec.ofNat 32 (hw32 t.cfg.enc hashB 8) = 0) := by
    intro e; have := congrArg BitVec.toNat e; rw [ofNat32_toNat' hbs] at this; simp at this; omega
  have hnz : ¬ (BitVec.ofNat 32 (hw32 t.cfg.enc hashB 0) = 0) := by
    intro e; have := congrArg BitVec.toNat e; rw [ofNat32_toNat' hnbk] at this; simp at this; omega
  have hbo : (if t.c32 = true then gnu32_bloom_off else gnu64_bloom_off).toNat = 16 := by
    cases t.c32 <;> simp [bloom_off_eq.1, bloom_off_eq.2]
  simp only [hbz, hnz, if_false, hbo]
  -- the bloom word is inside the section
  have h8 : (BitVec.signExtend 64 8#32).toNat = 8 := by
    simp only [BitVec.signExtend, BitVec.toInt, BitVec.toNat_ofNat, Nat.reducePow, Nat.reduceMod]
    simp
  have hpass : ∃ pass, (if t.c32 = true then
        (rd32 "gnu_hash_lookup/bloom" t.cfg.enc (secData hs)
          (16 + (gnu32_bloom_index (elf_gnu_hash (cName name)) (BitVec.ofNat 32 (hw32 t.cfg.enc hashB 8))).toNat * 4)) >>= fun w =>
          pure ((w &&& gnu32_bloom_bits (elf_gnu_hash (cName name)) (BitVec.ofNat 32 (hw32 t.cfg.enc hashB 12)))
            == gnu32_bloom_bits (elf_gnu_hash (cName name)) (BitVec.ofNat 32 (hw32 t.cfg.enc hashB 12)))
      else
        (rd64 "gnu_hash_lookup/bloom" t.cfg.enc (secData hs)
          (16 + (gnu64_bloom_index (elf_gnu_hash (cName name)) (BitVec.ofNat 32 (hw32 t.cfg.enc hashB 8))).toNat * 8)) >>= fun w =>
          pure ((w &&& gnu64_bloom_bits (elf_gnu_hash (cName name)) (BitVec.ofNat 32 (hw32 t.cfg.enc hashB 12)))
            == gnu64_bloom_bits (elf_gnu_hash (cName name)) (BitVec.ofNat 32 (hw32 t.cfg.enc hashB 12)))) = (.ok pass : M Bool) := by
    unfold c32
    cases hc : t.cfg.cls
    · simp only [beq_self_eq_true, if_true]
      have hidx : (gnu32_bloom_index (elf_gnu_hash (cName name)) (BitVec.ofNat 32 (hw32 t.cfg.enc hashB 8))).toNat
          < hw32 t.cfg.enc hashB 8 := by
        simp only [gnu32_bloom_index, BitVec.toNat_setWidth, BitVec.toNat_umod, ofNat32_toNat' hbs, Nat.reducePow]
        have : ((BitVec.setWidth 64 (elf_gnu_hash (cName name))) / (BitVec.signExtend 64 8#32 * 4#64)).toNat % (hw32 t.cfg.enc hashB 8 % 18446744073709551616)
            < hw32 t.cfg.enc hashB 8 := by
          rw [Nat.mod_eq_of_lt (a := hw32 t.cfg.enc hashB 8) (by omega)]
          exact Nat.mod_lt _ (by omega)
        omega
      rw [hc] at hl; simp only [bloomW] at hl
      rw [rd32_at hr _ _ _ (by omega)]
      exact ⟨_, rfl⟩
    · simp only [show (Cls.c64 == Cls.c32) = false from rfl, Bool.false_eq_true, if_false]
      have hidx : (gnu64_bloom_index (elf_gnu_hash (cName name)) (BitVec.ofNat 32 (hw32 t.cfg.enc hashB 8))).toNat
          < hw32 t.cfg.enc hashB 8 := by
        simp only [gnu64_bloom_index, BitVec.toNat_setWidth, BitVec.toNat_umod, ofNat32_toNat' hbs, Nat.reducePow]
        have : ((BitVec.setWidth 64 (elf_gnu_hash (cName name))) / (BitVec.signExtend 64 8#32 * 8#64)).toNat % (hw32 t.cfg.enc hashB 8 % 18446744073709551616)
            < hw32 t.cfg.enc hashB 8 := by
          rw [Nat.mod_eq_of_lt (a := hw32 t.cfg.enc hashB 8) (by omega)]
          exact Nat.mod_lt _ (by omega)
        omega
      rw [hc] at hl; simp only [bloomW] at hl
      obtain ⟨v, ev⟩ := rd64_at hr "gnu_hash_lookup/bloom" t.cfg.enc
        (16 + (gnu64_bloom_index (elf_gnu_hash (cName name)) (BitVec.ofNat 32 (hw32 t.cfg.enc hashB 8))).toNat * 8) (by omega)
      rw [ev]
      exact ⟨_, rfl⟩
  obtain ⟨pass, ep⟩ := hpass
  simp only [bind, Except.bind] at ep
  rw [ep]
  simp only []
  cases pass
  · exact ⟨_, rfl⟩
  simp only [Bool.not_true, Bool.false_eq_true, if_false]
  -- offsets of the bucket and chain arrays
  have hboff : (if t.c32 = true then gnu32_buckets_off (BitVec.ofNat 32 (hw32 t.cfg.enc hashB 8))
      else gnu64_buckets_off (BitVec.ofNat 32 (hw32 t.cfg.enc hashB 8))).toNat = hw32 t.cfg.enc hashB 8 * bloomW t.cfg.cls := by
    have h44 : (4#64).toNat = 4 := rfl
    have h88 : (8#64).toNat = 8 := rfl
    unfold c32
    cases t.cfg.cls <;>
      simp only [beq_self_eq_true, if_true, show (Cls.c64 == Cls.c32) = false from rfl, Bool.false_eq_true, if_false,
        gnu32_buckets_off, gnu64_buckets_off, BitVec.toNat_mul, BitVec.toNat_setWidth, ofNat32_toNat' hbs, h44, h88,
        bloomW, Nat.reducePow] <;> omega
  have hcoff : (if t.c32 = true then gnu32_chains_off (BitVec.ofNat 32 (hw32 t.cfg.enc hashB 0))
      else gnu64_chains_off (BitVec.ofNat 32 (hw32 t.cfg.enc hashB 0))).toNat = hw32 t.cfg.enc hashB 0 * 4 := by
    have h44 : (4#64).toNat = 4 := rfl
    simp only [gnu32_chains_off, gnu64_chains_off, ite_self, BitVec.toNat_mul, BitVec.toNat_setWidth,
      ofNat32_toNat' hnbk, h44, Nat.reducePow]
    omega
  have hbk : (if t.c32 = true then gnu32_bucket (elf_gnu_hash (cName name)) (BitVec.ofNat 32 (hw32 t.cfg.enc hashB 0))
      else gnu64_bucket (elf_gnu_hash (cName name)) (BitVec.ofNat 32 (hw32 t.cfg.enc hashB 0))).toNat < hw32 t.cfg.enc hashB 0 := by
    simp only [gnu32_bucket, gnu64_bucket, ite_self, BitVec.toNat_umod, ofNat32_toNat' hnbk]
    exact Nat.mod_lt _ (by omega)
  rw [hboff, hcoff]
  generalize (if t.c32 = true then gnu32_bucket (elf_gnu_hash (cName name)) (BitVec.ofNat 32 (hw32 t.cfg.enc hashB 0))
      else gnu64_bucket (elf_gnu_hash (cName name)) (BitVec.ofNat 32 (hw32 t.cfg.enc hashB 0))) = bucket at hbk ⊢
  have hoffb : 16 + hw32 t.cfg.enc hashB 8 * bloomW t.cfg.cls + bucket.toNat * 4
      = 16 + hw32 t.cfg.enc hashB 8 * bloomW t.cfg.cls + 4 * bucket.toNat := by omega
  rw [hoffb, rd32_at hr _ _ _ (by omega)]
  simp only []
  split
  · rename_i hge
    have hbv := hw32_lt t.cfg.enc hashB (16 + hw32 t.cfg.enc hashB 8 * bloomW t.cfg.cls + 4 * bucket.toNat)
    simp only [BitVec.ule, ofNat32_toNat' hso, ofNat32_toNat' hbv, decide_eq_true_eq] at hge
    have hci := hw.buckets bucket.toNat hbk hge
    have hcin : (BitVec.ofNat 32 (hw32 t.cfg.enc hashB (16 + hw32 t.cfg.enc hashB 8 * bloomW t.cfg.cls + 4 * bucket.toNat))
        - BitVec.ofNat 32 (hw32 t.cfg.enc hashB 4)).toNat
        = hw32 t.cfg.enc hashB (16 + hw32 t.cfg.enc hashB 8 * bloomW t.cfg.cls + 4 * bucket.toNat) - hw32 t.cfg.enc hashB 4 := by
      rw [BitVec.toNat_sub, ofNat32_toNat' hso, ofNat32_toNat' hbv]
      simp only [Nat.reducePow]
      omega
    have hoffc : 16 + hw32 t.cfg.enc hashB 8 * bloomW t.cfg.cls + hw32 t.cfg.enc hashB 0 * 4 +
        (BitVec.ofNat 32 (hw32 t.cfg.enc hashB (16 + hw32 t.cfg.enc hashB 8 * bloomW t.cfg.cls + 4 * bucket.toNat))
          - BitVec.ofNat 32 (hw32 t.cfg.enc hashB 4)).toNat * 4
        = 16 + hw32 t.cfg.enc hashB 8 * bloomW t.cfg.cls + hw32 t.cfg.enc hashB 0 * 4 + 4 *
        (BitVec.ofNat 32 (hw32 t.cfg.enc hashB (16 + hw32 t.cfg.enc hashB 8 * bloomW t.cfg.cls + 4 * bucket.toNat))
          - BitVec.ofNat 32 (hw32 t.cfg.enc hashB 4)).toNat := by omega
    rw [hoffc, rd32_at hr _ _ _ (by rw [hcin]; omega)]
    simp only []
    apply gnuLoop_total h hr hw
    · rw [hcin]; exact hci
    · rfl
    · -- fuel: the allocation is at least as long as the section
      have hd := hr.data
      cases hsd : secData hs with
      | none => rw [hsd] at hd; simp only at hd; rw [hd] at hl; simp at hl; omega
      | some b => rw [hsd] at hd; simp only at hd; simp only [Option.getD_some]; omega
  · exact ⟨_, rfl⟩



theorem linearGo_total {t : SymTab} {symB strB : Bytes} (h : Wf t symB strB) (name : Bytes) :
    ∀ (k : Nat) (i : BitVec 64) (a : Attrs), ∃ r, t.linearGo name k i a = .ok r := by
  intro k
  induction k with
  | zero => intro i a; exact ⟨_, rfl⟩
  | succ k ih =>
    intro i a
    rw [linearGo]
    obtain ⟨r, er⟩ := getSymbol_total h i [] a
    rw [er]
    simp only [bind, Except.bind]
    split
    · exact ⟨_, rfl⟩
    · exact ih _ _

/-- once the hash phase returns, `get_symbol(name, …)` returns -/
theorem getByName_total {t : SymTab} {symB strB : Bytes} (h : Wf t symB strB) (name : Bytes) (a : Attrs)
    (hp : ∃ r1, t.hashPhase name a = .ok r1) : ∃ r, t.getByName name a = .ok r := by
  obtain ⟨r1, e1⟩ := hp
  unfold getByName
  rw [e1]
  simp only [bind, Except.bind]
  split
  · rw [symbolsNum_eq h]
    exact linearGo_total h name _ _ _
  · exact ⟨_, rfl⟩

/-- the hash section that accompanies the table is absent, or a well-formed SysV table, or a
    well-formed GNU table (decidable conditions on its bytes, see `SysvWf` / `GnuWf`) -/
inductive HashOk (t : SymTab) : Prop
  | none : t.hash = none → HashOk t
  | sysv (hs : SecBuf) (hashB : Bytes) : t.hash = some hs → ReadsAs hs hashB →
      hs.stype = BitVec.ofNat 32 SHT_HASH → SysvWf t.cfg.enc hashB → HashOk t
  | gnu (hs : SecBuf) (hashB : Bytes) (nch : Nat) : t.hash = some hs → ReadsAs hs hashB →
      (hs.stype = BitVec.ofNat 32 SHT_GNU_HASH ∨ hs.stype = BitVec.ofNat 32 DT_GNU_HASH) →
      GnuWf t.cfg.enc t.cfg.cls hashB nch → HashOk t

theorem hashPhase_total {t : SymTab} {symB strB : Bytes} (h : Wf t symB strB) (hk : HashOk t) (name : Bytes)
    (a : Attrs) : ∃ r1, t.hashPhase name a = .ok r1 := by
  unfold hashPhase
  simp only [sym_byname_is_sysv, sym_byname_is_gnu, SymTie.gnuLookupT_dispatch]
  cases hk with
  | none e => rw [e]; exact ⟨_, rfl⟩
  | sysv hs hashB e hr hty hw =>
    rw [e]
    simp only [hty, beq_self_eq_true, if_true]
    obtain ⟨r, er⟩ := hashLookup_total h hr hw name a
    rw [er]
    have h1 : (BitVec.ofNat 32 SHT_HASH == BitVec.ofNat 32 SHT_GNU_HASH) = false := by decide
    have h2 : (BitVec.ofNat 32 SHT_HASH == BitVec.ofNat 32 DT_GNU_HASH) = false := by decide
    simp only [bind, Except.bind, h1, h2, Bool.or_self, Bool.false_eq_true, if_false]
    exact ⟨_, rfl⟩
  | gnu hs hashB nch e hr hty hw =>
    rw [e]
    have hg : (hs.stype == BitVec.ofNat 32 SHT_GNU_HASH || hs.stype == BitVec.ofNat 32 DT_GNU_HASH) = true := by
      rcases hty with e1 | e1 <;> simp [e1]
    have hn : (hs.stype == BitVec.ofNat 32 SHT_HASH) = false := by
      rcases hty with e1 | e1 <;> rw [e1] <;> decide
    simp only [hn, Bool.false_eq_true, if_false, hg, if_true, bind, Except.bind, pure, Except.pure]
    exact gnuLookup_total h hr hw name _


end SymTab

namespace Spec

/-- invariant of the construction after the symbols `1..k` have been entered -/
structure SysvInv (nb n k : Nat) (st : List Nat × List Nat) : Prop where
  lb : st.1.length = nb
  lc : st.2.length = n
  heads : ∀ (b v : Nat), st.1[b]? = some v → v ≤ k
  desc : ∀ (j v : Nat), st.2[j]? = some v → 1 ≤ j → v < j

theorem sysvInsert_inv {nb n k : Nat} {st : List Nat × List Nat} (h : SysvInv nb n k st) (hv : Nat)
    (hnb : 1 ≤ nb) (hk : k + 1 < n) : SysvInv nb n (k + 1) (sysvInsert nb st (k + 1, hv)) := by
  have hb : hv % nb < nb := Nat.mod_lt _ (by omega)
  refine ⟨by simp [sysvInsert, h.lb], by simp [sysvInsert, h.lc], ?_, ?_⟩
  · intro b v hbv
    simp only [sysvInsert, List.getElem?_set] at hbv
    split at hbv
    · split at hbv
      · cases hbv; exact Nat.le_refl _
      · cases hbv
    · have := h.heads b v hbv; omega
  · intro j v hjv hj
    simp only [sysvInsert, List.getElem?_set] at hjv
    split at hjv
    · split at hjv
      · rename_i e _
        cases hjv
        subst e
        have hlt : hv % nb < st.1.length := by rw [h.lb]; exact hb
        have := h.heads (hv % nb) (st.1.getD (hv % nb) 0) (by
          simp [List.getD, List.getElem?_eq_getElem hlt])
        omega
      · cases hjv
    · exact h.desc j v hjv hj

theorem sysvTables_inv (nb : Nat) (hs : List Nat) (hnb : 1 ≤ nb) :
    SysvInv nb (hs.length + 1) hs.length (sysvTables nb hs) := by
  unfold sysvTables
  -- generalise: entering the symbols k+1.. on a state satisfying the invariant at k
  have key : ∀ (rest : List Nat) (k : Nat) (st : List Nat × List Nat) (n : Nat), k + rest.length + 1 = n →
      SysvInv nb n k st →
      SysvInv nb n (k + rest.length) (((List.range' (k + 1) rest.length).zip rest).foldl (sysvInsert nb) st) := by
    intro rest
    induction rest with
    | nil => intro k st n _ h; simpa using h
    | cons x xs ih =>
      intro k st n hn h
      simp only [List.length_cons, List.range'_succ, List.zip_cons_cons, List.foldl_cons]
      have h1 := sysvInsert_inv h x hnb (by simp at hn; omega)
      have := ih (k + 1) _ n (by simp at hn ⊢; omega) h1
      have e : k + 1 + xs.length = k + (xs.length + 1) := by omega
      rw [e] at this
      exact this
  have h0 : SysvInv nb (hs.length + 1) 0 (List.replicate nb 0, List.replicate (hs.length + 1) 0) := by
    refine ⟨by simp, by simp, ?_, ?_⟩
    · intro b v hbv
      simp only [List.getElem?_replicate] at hbv
      split at hbv <;> simp_all
    · intro j v hjv hj
      simp only [List.getElem?_replicate] at hjv
      split at hjv
      · cases hjv; omega
      · cases hjv
  have := key hs 0 _ (hs.length + 1) (by omega) h0
  simpa using this

end Spec

namespace SymTab

theorem wordAt_words (e : Enc) (ws : List Nat) (i w : Nat) (h : ws[i]? = some w) :
    wordAt e ((ws.map (encodeInt e 4)).flatten) i = w % 4294967296 := by
  unfold wordAt
  rw [Nat.mul_comm, slice_flatten_block (encodeInt e 4) 4 ws (fun x _ => encodeInt_length e 4 x) i w h,
    decode_encodeInt]

/-- **ABI-built SysV tables are well-formed** (so the walk over them neither faults nor loops) -/
theorem buildSysv_wf (e : Enc) (nb : Nat) (hs : List Nat) (hnb : 1 ≤ nb)
    (hsmall : 2 + nb + (hs.length + 1) < 4294967296) : SysvWf e (Spec.buildSysv e nb hs) := by
  have inv := Spec.sysvTables_inv nb hs hnb
  have hl : (Spec.sysvWords nb hs).length = 2 + nb + (hs.length + 1) := by
    simp [Spec.sysvWords, inv.lb, inv.lc]; omega
  have w0 : wordAt e (Spec.buildSysv e nb hs) 0 = nb := by
    rw [Spec.buildSysv, wordAt_words e _ 0 nb (by simp [Spec.sysvWords])]; omega
  have w1 : wordAt e (Spec.buildSysv e nb hs) 1 = hs.length + 1 := by
    rw [Spec.buildSysv, wordAt_words e _ 1 (hs.length + 1) (by simp [Spec.sysvWords])]; omega
  refine ⟨by rw [w0]; exact hnb, ?_, by rw [w0, w1]; exact hsmall, ?_⟩
  · rw [w0, w1, Spec.buildSysv, flatten_block_length _ 4 _ (fun x _ => encodeInt_length e 4 x), hl]; omega
  · intro y hy1 hy2
    rw [w0]; rw [w1] at hy2
    have hyc : y < (Spec.sysvTables nb hs).2.length := by rw [inv.lc]; exact hy2
    have hget : (Spec.sysvWords nb hs)[2 + nb + y]? = some ((Spec.sysvTables nb hs).2[y]) := by
      simp only [Spec.sysvWords, List.getElem?_append, List.length_append, List.length_cons, List.length_nil, inv.lb]
      have h1 : ¬ (2 + nb + y < 0 + 1 + 1 + nb) := by omega
      have h2 : ¬ (2 + nb + y < 0 + 1 + 1) := by omega
      simp only [h1, if_false]
      have : 2 + nb + y - (0 + 1 + 1 + nb) = y := by omega
      rw [this]
      exact List.getElem?_eq_getElem hyc
    have hd := inv.desc y _ (List.getElem?_eq_getElem hyc) hy1
    rw [Spec.buildSysv, wordAt_words e _ _ _ hget]
    omega

end SymTab


namespace Spec

theorem gnuBloom_length (C bs shift : Nat) (hs : List Nat) : (gnuBloom C bs shift hs).length = bs := by
  unfold gnuBloom
  have : ∀ (l : List Nat) (init : List Nat), (l.foldl (fun bl h => bl.set ((h / C) % bs)
      (bl.getD ((h / C) % bs) 0 ||| gnuBloomBits C shift h)) init).length = init.length := by
    intro l
    induction l with
    | nil => intro init; rfl
    | cons x xs ih => intro init; simp only [List.foldl_cons]; rw [ih]; simp
  rw [this]; simp

theorem gnuChain_length (nbk : Nat) (hs : List Nat) : (gnuChain nbk hs).length = hs.length := by
  induction hs with
  | nil => rfl
  | cons h t ih =>
    cases t with
    | nil => rfl
    | cons h' rest => simp only [gnuChain, List.length_cons] at ih ⊢; omega

theorem gnuChain_last (nbk : Nat) (hs : List Nat) (hne : hs ≠ []) :
    ∃ w, (gnuChain nbk hs)[hs.length - 1]? = some w ∧ w % 2 = 1 := by
  induction hs with
  | nil => exact absurd rfl hne
  | cons h t ih =>
    cases t with
    | nil => exact ⟨h / 2 * 2 + 1, by simp [gnuChain], by omega⟩
    | cons h' rest =>
      obtain ⟨w, hw, hodd⟩ := ih (by simp)
      refine ⟨w, ?_, hodd⟩
      simp only [gnuChain, List.length_cons] at hw ⊢
      have : rest.length + 1 + 1 - 1 = (rest.length + 1 - 1) + 1 := by omega
      rw [this, List.getElem?_cons_succ]
      exact hw

/-- every bucket is empty (0) or holds the index of one of the hashed symbols -/
theorem gnuBuckets_inv (nbk so : Nat) (hs : List Nat) :
    (gnuBuckets nbk so hs).length = nbk ∧
    ∀ (b v : Nat), (gnuBuckets nbk so hs)[b]? = some v → v = 0 ∨ (so ≤ v ∧ v - so < hs.length) := by
  unfold gnuBuckets
  have key : ∀ (rest : List Nat) (k : Nat) (bk : List Nat),
      (∀ (b v : Nat), bk[b]? = some v → v = 0 ∨ (so ≤ v ∧ v - so < k)) →
      (((List.range' k rest.length).zip rest).foldl (gnuBucketStep nbk so) bk).length = bk.length ∧
      ∀ (b v : Nat), (((List.range' k rest.length).zip rest).foldl (gnuBucketStep nbk so) bk)[b]? = some v →
        v = 0 ∨ (so ≤ v ∧ v - so < k + rest.length) := by
    intro rest
    induction rest with
    | nil => intro k bk h; exact ⟨rfl, by simpa using h⟩
    | cons x xs ih =>
      intro k bk h
      simp only [List.length_cons, List.range'_succ, List.zip_cons_cons, List.foldl_cons]
      have hstep : ∀ (b v : Nat), (gnuBucketStep nbk so bk (k, x))[b]? = some v → v = 0 ∨ (so ≤ v ∧ v - so < k + 1) := by
        intro b v hbv
        unfold gnuBucketStep at hbv
        split at hbv
        · simp only [List.getElem?_set] at hbv
          split at hbv
          · split at hbv
            · cases hbv; right; omega
            · cases hbv
          · rcases h b v hbv with e | e
            · exact Or.inl e
            · right; omega
        · rcases h b v hbv with e | e
          · exact Or.inl e
          · right; omega
      have hlen : (gnuBucketStep nbk so bk (k, x)).length = bk.length := by
        unfold gnuBucketStep; split <;> simp
      obtain ⟨l1, l2⟩ := ih (k + 1) _ hstep
      refine ⟨by rw [l1, hlen], ?_⟩
      intro b v hbv
      have := l2 b v hbv
      omega
  obtain ⟨l1, l2⟩ := key hs 0 (List.replicate nbk 0) (by
    intro b v hbv
    simp only [List.getElem?_replicate] at hbv
    split at hbv <;> simp_all)
  exact ⟨by rw [l1]; simp, by simpa using l2⟩

end Spec

namespace SymTab

/-- a 32-bit word inside a run of encoded words that sits between two other byte strings -/
theorem hw32_mid (e : Enc) (pre post : Bytes) (ws : List Nat) (i w : Nat) (h : ws[i]? = some w) :
    hw32 e (pre ++ (ws.map (encodeInt e 4)).flatten ++ post) (pre.length + 4 * i) = w % 4294967296 := by
  have hi : i < ws.length := by
    rcases Nat.lt_or_ge i ws.length with h' | h'
    · exact h'
    · rw [List.getElem?_eq_none (by omega)] at h; cases h
  have hl := flatten_block_length (encodeInt e 4) 4 ws (fun x _ => encodeInt_length e 4 x)
  unfold hw32
  rw [slice_append_left_sym (by rw [List.length_append, hl]; omega), slice_append_right_sym (by omega)]
  have : pre.length + 4 * i - pre.length = i * 4 := by omega
  rw [this, slice_flatten_block (encodeInt e 4) 4 ws (fun x _ => encodeInt_length e 4 x) i w h, decode_encodeInt]

/-- **ABI-built GNU tables are well-formed** -/
theorem buildGnu_wf (e : Enc) (c : Cls) (nbk so bs shift : Nat) (hs : List Nat) (hnb : 1 ≤ nbk) (hbs : 1 ≤ bs)
    (hso : 1 ≤ so) (hsh : shift < 4294967296) (hso2 : so < 4294967296)
    (hsmall : 16 + bs * bloomW c + nbk * 4 + 4 * hs.length < 4294967296) :
    GnuWf e c (Spec.buildGnu e (bloomW c) nbk so bs shift hs) hs.length := by
  obtain ⟨lbk, hbk⟩ := Spec.gnuBuckets_inv nbk so hs
  have hWpos : 1 ≤ bloomW c := by cases c <;> simp [bloomW]
  -- the four regions
  generalize hH : (([nbk, so, bs, shift].map (encodeInt e 4)).flatten) = H
  generalize hBL : (((Spec.gnuBloom (8 * bloomW c) bs shift hs).map (encodeInt e (bloomW c))).flatten) = BL
  have lH : H.length = 16 := by rw [← hH]; simp
  have lBL : BL.length = bs * bloomW c := by
    rw [← hBL, flatten_block_length _ (bloomW c) _ (fun x _ => encodeInt_length e (bloomW c) x), Spec.gnuBloom_length]
  have lBK := flatten_block_length (encodeInt e 4) 4 (Spec.gnuBuckets nbk so hs) (fun x _ => encodeInt_length e 4 x)
  have lCH := flatten_block_length (encodeInt e 4) 4 (Spec.gnuChain nbk hs) (fun x _ => encodeInt_length e 4 x)
  rw [lbk] at lBK
  rw [Spec.gnuChain_length] at lCH
  have hB : Spec.buildGnu e (bloomW c) nbk so bs shift hs
      = ((H ++ BL) ++ ((Spec.gnuBuckets nbk so hs).map (encodeInt e 4)).flatten) ++
        ((Spec.gnuChain nbk hs).map (encodeInt e 4)).flatten := by
    unfold Spec.buildGnu
    simp only [hH, hBL]
  -- header words
  have hdr : ∀ (i w : Nat), [nbk, so, bs, shift][i]? = some w →
      hw32 e (Spec.buildGnu e (bloomW c) nbk so bs shift hs) (4 * i) = w % 4294967296 := by
    intro i w hi
    have := hw32_mid e [] (BL ++ ((Spec.gnuBuckets nbk so hs).map (encodeInt e 4)).flatten ++
      ((Spec.gnuChain nbk hs).map (encodeInt e 4)).flatten) [nbk, so, bs, shift] i w hi
    simp only [List.nil_append, List.length_nil, Nat.zero_add, hH] at this
    rw [hB]
    simpa [List.append_assoc] using this
  have w0 : hw32 e (Spec.buildGnu e (bloomW c) nbk so bs shift hs) 0 = nbk := by
    have := hdr 0 nbk (by simp); simp only [Nat.mul_zero] at this; rw [this]; omega
  have w4 : hw32 e (Spec.buildGnu e (bloomW c) nbk so bs shift hs) 4 = so := by
    have := hdr 1 so (by simp); simp only [Nat.mul_one] at this; rw [this]; omega
  have w8 : hw32 e (Spec.buildGnu e (bloomW c) nbk so bs shift hs) 8 = bs := by
    have := hdr 2 bs (by simp); simp only [Nat.reduceMul] at this; rw [this]
    have : bs ≤ bs * bloomW c := Nat.le_mul_of_pos_right _ hWpos
    omega
  refine ⟨by rw [w8]; exact hbs, by rw [w0]; exact hnb, ?_, by rw [w8, w0]; exact hsmall, ?_, ?_⟩
  · rw [w8, w0, hB]
    simp only [List.length_append, lH, lBL, lBK, lCH]; omega
  · intro b hb hge
    rw [w0] at hb
    rw [w8, w4] at hge ⊢
    have hbl : b < (Spec.gnuBuckets nbk so hs).length := by rw [lbk]; exact hb
    have hv := hw32_mid e (H ++ BL) (((Spec.gnuChain nbk hs).map (encodeInt e 4)).flatten)
      (Spec.gnuBuckets nbk so hs) b _ (List.getElem?_eq_getElem hbl)
    rw [List.length_append, lH, lBL, ← hB] at hv
    rw [hv] at hge ⊢
    rcases hbk b _ (List.getElem?_eq_getElem hbl) with e0 | ⟨e1, e2⟩
    · rw [e0] at hge; simp at hge; omega
    · have : (Spec.gnuBuckets nbk so hs)[b] < 4294967296 := by omega
      rw [Nat.mod_eq_of_lt this]; exact e2
  · by_cases hne : hs = []
    · left; rw [hne]; rfl
    · right
      obtain ⟨w, hw, hodd⟩ := Spec.gnuChain_last nbk hs hne
      have hv := hw32_mid e ((H ++ BL) ++ ((Spec.gnuBuckets nbk so hs).map (encodeInt e 4)).flatten) []
        (Spec.gnuChain nbk hs) (hs.length - 1) w hw
      simp only [List.append_nil, List.length_append, lH, lBL, lBK] at hv
      rw [← hB] at hv
      rw [w8, w0, hv]
      omega

end SymTab

namespace SymTab

/-- the SysV table for an empty symbol table is well-formed -/
theorem buildSysvEmpty_wf (e : Enc) (nb : Nat) (hnb : 1 ≤ nb) (hsmall : 2 + nb < 4294967296) :
    SysvWf e (Spec.buildSysvEmpty e nb) := by
  have w0 : wordAt e (Spec.buildSysvEmpty e nb) 0 = nb := by
    rw [Spec.buildSysvEmpty, wordAt_words e _ 0 nb (by simp)]; omega
  have w1 : wordAt e (Spec.buildSysvEmpty e nb) 1 = 0 := by
    rw [Spec.buildSysvEmpty, wordAt_words e _ 1 0 (by simp)]
  refine ⟨by rw [w0]; exact hnb, ?_, by rw [w0, w1]; omega, ?_⟩
  · rw [w0, w1, Spec.buildSysvEmpty, flatten_block_length _ 4 _ (fun x _ => encodeInt_length e 4 x)]
    simp; omega
  · intro y _ hy2; rw [w1] at hy2; omega

end SymTab
end ElfioVerif
