import ElfioVerif.Props.C07
import ElfioVerif.Model.Symbols
import ElfioVerif.Spec.Symbols
namespace ElfioVerif
open Gen

/-! ### byte-string facts -/

theorem slice_append_left {a b : Bytes} {off len : Nat} (h : off + len ≤ a.length) :
    slice (a ++ b) off len = slice a off len := by
  unfold slice
  apply List.ext_getElem?
  intro i
  simp only [List.getElem?_take, List.getElem?_drop, List.getElem?_append]
  ite_omega

theorem slice_append_right {a b : Bytes} {off len : Nat} (h : a.length ≤ off) :
    slice (a ++ b) off len = slice b (off - a.length) len := by
  unfold slice
  apply List.ext_getElem?
  intro i
  simp only [List.getElem?_take, List.getElem?_drop, List.getElem?_append]
  ite_omega

theorem slice_all (a : Bytes) : slice a 0 a.length = a := by simp [slice]

theorem slice_slice {a : Bytes} {o l o' l' : Nat} (h : o' + l' ≤ l) :
    slice (slice a o l) o' l' = slice a (o + o') l' := by
  unfold slice
  apply List.ext_getElem?
  intro i
  simp only [List.getElem?_take, List.getElem?_drop]
  ite_omega

/-- the `i`-th block of a concatenation of blocks of equal length -/
theorem slice_flatten_block {α} (f : α → Bytes) (sz : Nat) (l : List α) (hf : ∀ x ∈ l, (f x).length = sz)
    (i : Nat) (x : α) (hx : l[i]? = some x) :
    slice (l.map f).flatten (i * sz) sz = f x := by
  induction l generalizing i with
  | nil => simp at hx
  | cons y ys ih =>
    have hy : (f y).length = sz := hf y (by simp)
    simp only [List.map_cons, List.flatten_cons]
    cases i with
    | zero =>
      simp at hx; subst hx
      rw [slice_append_left (by omega)]
      simp only [Nat.zero_mul]
      rw [← hy]; exact slice_all _
    | succ j =>
      rw [slice_append_right (by rw [hy, Nat.add_mul]; omega)]
      have : (j + 1) * sz - (f y).length = j * sz := by rw [hy, Nat.add_mul]; omega
      rw [this]
      exact ih (fun x hx => hf x (by simp [hx])) j (by simpa using hx)

theorem flatten_block_length {α} (f : α → Bytes) (sz : Nat) (l : List α) (hf : ∀ x ∈ l, (f x).length = sz) :
    (l.map f).flatten.length = l.length * sz := by
  induction l with
  | nil => simp
  | cons y ys ih =>
    simp only [List.map_cons, List.flatten_cons, List.length_append, List.length_cons]
    rw [ih (fun x hx => hf x (by simp [hx])), hf y (by simp), Nat.add_mul]; omega

/-! ### the record codec of the specification -/
namespace Spec

theorem encodeSym_length (c : Cfg) (s : SymRec) : (encodeSym c s).length = symSize c.cls := by
  unfold encodeSym symSize
  cases c.cls <;> simp

theorem slices6 (a b c d e f : Bytes) :
    slice (a ++ b ++ c ++ d ++ e ++ f) 0 a.length = a ∧
    slice (a ++ b ++ c ++ d ++ e ++ f) a.length b.length = b ∧
    slice (a ++ b ++ c ++ d ++ e ++ f) (a.length + b.length) c.length = c ∧
    slice (a ++ b ++ c ++ d ++ e ++ f) (a.length + b.length + c.length) d.length = d ∧
    slice (a ++ b ++ c ++ d ++ e ++ f) (a.length + b.length + c.length + d.length) e.length = e ∧
    slice (a ++ b ++ c ++ d ++ e ++ f) (a.length + b.length + c.length + d.length + e.length) f.length = f := by
  refine ⟨?_, ?_, ?_, ?_, ?_, ?_⟩ <;>
  · unfold slice
    apply List.ext_getElem?
    intro i
    simp only [List.getElem?_take, List.getElem?_drop, List.getElem?_append, List.length_append]
    ite_omega

theorem decode_encodeSym (c : Cfg) (s : SymRec) : decodeSym c (encodeSym c s) = truncSym c.cls s := by
  unfold decodeSym encodeSym truncSym addrBytes
  cases c.cls <;> simp only
  · obtain ⟨h1, h2, h3, h4, h5, h6⟩ := slices6 (encodeInt c.enc 4 s.name) (encodeInt c.enc 4 s.value)
      (encodeInt c.enc 4 s.size) (encodeInt c.enc 1 s.info) (encodeInt c.enc 1 s.other) (encodeInt c.enc 2 s.shndx)
    simp only [encodeInt_length, Nat.reduceAdd] at h1 h2 h3 h4 h5 h6
    rw [h1, h2, h3, h4, h5, h6]
    simp only [decode_encodeInt, Nat.reduceMul]
  · obtain ⟨h1, h2, h3, h4, h5, h6⟩ := slices6 (encodeInt c.enc 4 s.name) (encodeInt c.enc 1 s.info)
      (encodeInt c.enc 1 s.other) (encodeInt c.enc 2 s.shndx) (encodeInt c.enc 8 s.value) (encodeInt c.enc 8 s.size)
    simp only [encodeInt_length, Nat.reduceAdd] at h1 h2 h3 h4 h5 h6
    rw [h1, h2, h3, h4, h5, h6]
    simp only [decode_encodeInt, Nat.reduceMul]
end Spec


/-! ### what an accessor reads from a section -/

/-- `get_data()` of `s` exposes exactly the bytes `c` in `[0, get_size())` -/
structure ReadsAs (s : SecBuf) (c : Bytes) : Prop where
  size : s.size.toNat = c.length
  data : match secData s with
    | none => c = []
    | some a => c.length ≤ a.length ∧ a.take c.length = c

open SecBuf in
/-- every section the editing operations can produce (C07's invariant) reads as its content -/
theorem readsAs_of_inv {s : SecBuf} (h : s.Inv) : ReadsAs s s.content := by
  refine ⟨(C07.content_length h).symm, ?_⟩
  rcases h with h | ⟨d, h⟩
  · rw [C07.content_resident h]
    unfold secData
    rcases h.buf with ⟨hd, hs, hds⟩ | ⟨a, hd, h1, h2⟩
    · -- no allocation yet: get_data() may create the empty one
      have hv : s.view = [] := by simp [SecBuf.view, hd]
      rw [hv]
      cases hg : s.getData.data with
      | none => trivial
      | some a => simp
    · obtain ⟨g1, _⟩ := C07.getData_some hd
      rw [g1]
      have hv : s.view = a.take s.size.toNat := by simp [SecBuf.view, hd]
      have hl : s.view.length = s.size.toNat := by rw [hv]; simp; omega
      refine ⟨by rw [hl]; omega, ?_⟩
      rw [hl, hv]
  · rw [C07.content_pending h]
    obtain ⟨r, v, c1, c2, c3⟩ := C07.getData_pending h
    unfold secData
    cases hg : s.getData.data with
    | none => rw [hg] at c3; simp at c3
    | some a =>
      have hv : s.getData.view = a.take s.getData.size.toNat := by simp [SecBuf.view, hg]
      have hl := C07.view_length r
      rw [v] at hl hv
      rcases r.buf with ⟨e, _, _⟩ | ⟨a', e, e1, e2⟩
      · rw [hg] at e; cases e
      · rw [hg] at e; cases e
        exact ⟨by omega, by rw [hl]; exact hv.symm⟩

/-- a checked read inside the exposed bytes succeeds and returns them -/
theorem ReadsAs.rd {s : SecBuf} {c : Bytes} (h : ReadsAs s c) (site : String) (off len : Nat)
    (hlen : 0 < len) (hin : off + len ≤ c.length) :
    rdRange site (secData s) off len = .ok (slice c off len) := by
  have hd := h.data
  cases hs : secData s with
  | none => rw [hs] at hd; simp only at hd; subst hd; simp at hin; omega
  | some a =>
    rw [hs] at hd; simp only at hd
    rw [rdRange_some_ok (by omega)]
    congr 1
    rw [← hd.2]
    exact (slice_take (by omega)).symm

theorem ReadsAs.isNone {s : SecBuf} {c : Bytes} (h : ReadsAs s c) (hn : (secData s).isNone = true) : c = [] := by
  have hd := h.data
  cases hs : secData s with
  | none => rw [hs] at hd; exact hd
  | some a => rw [hs] at hn; simp at hn


/-! ### the model's readers, as functions of the section contents -/
namespace SymTab

theorem symSizeOf_eq (c : Cls) : symSizeOf c = Spec.symSize c := by cases c <;> rfl

theorem cstr_eq (bs : Bytes) : cstr bs = if bs.contains 0 then some (bs.takeWhile (· ≠ 0)) else none := rfl

/-- `get_string` is the specification's `strAt` on the section contents -/
theorem getString_eq {s : SecBuf} {strB : Bytes} (h : ReadsAs s strB) (idx : BitVec 32) :
    getString (some s) idx = .ok (Spec.strAt strB idx.toNat) := by
  have hsz := h.size
  have hlt := s.size.isLt
  have hi := idx.isLt
  unfold getString Spec.strAt
  simp only [str_get_oob, str_get_remaining, str_get_underflow]
  by_cases hoob : strB.length ≤ idx.toNat
  · -- index beyond the section
    have : BitVec.ule s.size (BitVec.setWidth 64 idx) = true := by
      simp only [BitVec.ule, BitVec.toNat_setWidth, Nat.reducePow, decide_eq_true_eq] at *
      omega
    simp [this, pure, Except.pure]
    omega
  · have hule : BitVec.ule s.size (BitVec.setWidth 64 idx) = false := by
      simp only [BitVec.ule, BitVec.toNat_setWidth, Nat.reducePow, decide_eq_false_iff_not] at *
      omega
    have hd := h.data
    cases hs : secData s with
    | none =>
      rw [hs] at hd; simp only at hd; subst hd; simp at hoob
    | some a =>
      rw [hs] at hd; simp only at hd
      have hrem : (s.size - BitVec.setWidth 64 idx).toNat = strB.length - idx.toNat := by
        simp only [BitVec.toNat_sub, BitVec.toNat_setWidth, Nat.reducePow] at *
        omega
      have hund : BitVec.ult s.size (s.size - BitVec.setWidth 64 idx) = false := by
        simp only [BitVec.ult, hrem, decide_eq_false_iff_not]
        omega
      have hav : slice a idx.toNat (strB.length - idx.toNat) = strB.drop idx.toNat := by
        have e : (a.take strB.length).drop idx.toNat = strB.drop idx.toNat := by rw [hd.2]
        rw [← e, List.drop_take]; rfl
      simp only [hule, Option.isNone_some, Bool.or_false, Bool.false_eq_true, if_false, hund, hrem, hav, cstr_eq]
      have hlt' : idx.toNat < strB.length := by omega
      simp only [hlt', if_true]
      by_cases hc : (strB.drop idx.toNat).contains 0 = true
      · simp only [hc, if_true, pure, Except.pure]
      · simp only [hc, Bool.false_eq_true, if_false, List.length_drop, Nat.lt_irrefl, pure, Except.pure]


/-- the table as the specification reads it: number of whole entries, entry `i` decoded per gABI -/
def countOf (c : Cls) (symB : Bytes) : Nat := symB.length / Spec.symSize c
def recAt (cfg : Cfg) (symB : Bytes) (i : Nat) : Spec.SymRec :=
  Spec.decodeSym cfg (slice symB (i * Spec.symSize cfg.cls) (Spec.symSize cfg.cls))
def nameAt (cfg : Cfg) (symB strB : Bytes) (i : Nat) : Option Bytes := Spec.strAt strB (recAt cfg symB i).name
/-- the attributes `get_symbol` reports for a record (`ELF_ST_BIND`/`ELF_ST_TYPE` of `st_info`) -/
def attrsOfRec (r : Spec.SymRec) : Attrs :=
  { value := BitVec.ofNat 64 r.value, size := BitVec.ofNat 64 r.size,
    bind := Spec.stBind (BitVec.ofNat 8 r.info), typ := Spec.stType (BitVec.ofNat 8 r.info),
    shndx := BitVec.ofNat 16 r.shndx, other := BitVec.ofNat 8 r.other }

/-- a table an accessor can read: standard entry size, size within the stream, and the symbol and
    string sections expose the byte strings `symB`, `strB` -/
structure Wf (t : SymTab) (symB strB : Bytes) : Prop where
  ent : t.sym.entSize = BitVec.ofNat 64 (symSizeOf t.cfg.cls)
  stream : t.sym.size.toNat ≤ t.sym.streamSize.toNat
  sym : ReadsAs t.sym symB
  str : match t.str with | none => strB = [] | some s => ReadsAs s strB

theorem decodeInt_lt (e : Enc) (bs : Bytes) : decodeInt e bs < 2 ^ (8 * bs.length) := by
  cases e
  · exact leDecode_lt bs
  · have := leDecode_lt bs.reverse; simpa [decodeInt, beDecode] using this

theorem fld_eq (e : Enc) (rec : Bytes) (off w : Nat) (hw : w = 1 ∨ w = 2 ∨ w = 4 ∨ w = 8)
    (h : off + w ≤ rec.length) : fld e rec off w = decodeInt e (slice rec off w) := by
  unfold fld
  apply rdField_eq
  rw [slice_length_of_le h]; exact hw

def rawOf (r : Spec.SymRec) : RawSym :=
  { name := BitVec.ofNat 32 r.name, value := BitVec.ofNat 64 r.value, size := BitVec.ofNat 64 r.size,
    info := BitVec.ofNat 8 r.info, other := BitVec.ofNat 8 r.other, shndx := BitVec.ofNat 16 r.shndx }

/-- reading the members through the generated layout = the gABI decoder -/
theorem decodeRaw_eq (c : Cfg) (rec : Bytes) (h : rec.length = Spec.symSize c.cls) :
    decodeRaw c rec = rawOf (Spec.decodeSym c rec) := by
  unfold decodeRaw Spec.decodeSym rawOf
  cases hc : c.cls <;> simp only [hc, Spec.symSize] at h ⊢
  · simp only [Elf32_Sym.st_name_off, Elf32_Sym.st_name_w, Elf32_Sym.st_value_off, Elf32_Sym.st_value_w,
      Elf32_Sym.st_size_off, Elf32_Sym.st_size_w, Elf32_Sym.st_info_off, Elf32_Sym.st_info_w,
      Elf32_Sym.st_other_off, Elf32_Sym.st_other_w, Elf32_Sym.st_shndx_off, Elf32_Sym.st_shndx_w]
    rw [fld_eq _ _ 0 4 (by simp) (by omega), fld_eq _ _ 4 4 (by simp) (by omega), fld_eq _ _ 8 4 (by simp) (by omega),
      fld_eq _ _ 12 1 (by simp) (by omega), fld_eq _ _ 13 1 (by simp) (by omega), fld_eq _ _ 14 2 (by simp) (by omega)]
  · simp only [Elf64_Sym.st_name_off, Elf64_Sym.st_name_w, Elf64_Sym.st_value_off, Elf64_Sym.st_value_w,
      Elf64_Sym.st_size_off, Elf64_Sym.st_size_w, Elf64_Sym.st_info_off, Elf64_Sym.st_info_w,
      Elf64_Sym.st_other_off, Elf64_Sym.st_other_w, Elf64_Sym.st_shndx_off, Elf64_Sym.st_shndx_w]
    rw [fld_eq _ _ 0 4 (by simp) (by omega), fld_eq _ _ 8 8 (by simp) (by omega), fld_eq _ _ 16 8 (by simp) (by omega),
      fld_eq _ _ 4 1 (by simp) (by omega), fld_eq _ _ 5 1 (by simp) (by omega), fld_eq _ _ 6 2 (by simp) (by omega)]

theorem decodeInt_slice_lt (e : Enc) (x : Bytes) (o w : Nat) : decodeInt e (slice x o w) < 2 ^ (8 * w) := by
  have h1 := decodeInt_lt e (slice x o w)
  have hl : (slice x o w).length ≤ w := by simp [slice]; omega
  exact Nat.lt_of_lt_of_le h1 (Nat.pow_le_pow_right (by decide) (by omega))

theorem recAt_name_lt (cfg : Cfg) (symB : Bytes) (i : Nat) : (recAt cfg symB i).name < 4294967296 := by
  unfold recAt Spec.decodeSym
  cases cfg.cls <;> simp only <;> exact decodeInt_slice_lt _ _ 0 4

/-- `get_symbols_num()` = number of whole entries in the section -/
theorem symbolsNum_eq {t : SymTab} {symB strB : Bytes} (h : Wf t symB strB) :
    t.symbolsNum = .ok (BitVec.ofNat 64 (countOf t.cfg.cls symB)) := by
  have hsz := h.sym.size
  have hst := h.stream
  have hlt := t.sym.size.isLt
  unfold symbolsNum countOf
  rw [h.ent]
  cases hc : t.cfg.cls <;>
    simp only [symSizeOf, sym_num_cond, sym_num_min32, sym_num_min64, sym_num_div, sizeof_Elf32_Sym,
      sizeof_Elf64_Sym, Spec.symSize]
  · have h1 : BitVec.ule (BitVec.ofNat 64 16) (BitVec.ofNat 64 16) = true := by decide
    have h2 : BitVec.ule t.sym.size t.sym.streamSize = true := by simpa [BitVec.ule] using hst
    have h3 : (BitVec.ofNat 64 16 = 0) = False := by simp
    simp only [h1, h2, Bool.and_self, if_true, h3, if_false, pure, Except.pure]
    congr 1
    apply BitVec.eq_of_toNat_eq
    simp only [BitVec.toNat_udiv, BitVec.toNat_ofNat, Nat.reducePow, Nat.reduceMod] at *
    omega
  · have h1 : BitVec.ule (BitVec.ofNat 64 24) (BitVec.ofNat 64 24) = true := by decide
    have h2 : BitVec.ule t.sym.size t.sym.streamSize = true := by simpa [BitVec.ule] using hst
    have h3 : (BitVec.ofNat 64 24 = 0) = False := by simp
    simp only [h1, h2, Bool.and_self, if_true, h3, if_false, pure, Except.pure]
    congr 1
    apply BitVec.eq_of_toNat_eq
    simp only [BitVec.toNat_udiv, BitVec.toNat_ofNat, Nat.reducePow, Nat.reduceMod] at *
    omega


theorem attrsOf_eq (t : SymTab) (r : Spec.SymRec) : t.attrsOf (rawOf r) = attrsOfRec r := by
  unfold attrsOf attrsOfRec rawOf
  simp only [st_bind_gen32, st_bind_gen64, st_type_gen32, st_type_gen64, ite_self]

theorem getString_wf {t : SymTab} {symB strB : Bytes} (h : Wf t symB strB) (idx : BitVec 32) :
    getString t.str idx = .ok (Spec.strAt strB idx.toNat) := by
  have hs := h.str
  cases ht : t.str with
  | none => rw [ht] at hs; simp only at hs; subst hs; simp [getString, Spec.strAt, pure, Except.pure]
  | some s => rw [ht] at hs; exact getString_eq hs idx

theorem count_lt {c : Cls} {symB : Bytes} {i : Nat} (h : i < countOf c symB) :
    i * Spec.symSize c + Spec.symSize c ≤ symB.length := by
  unfold countOf at h
  cases c <;> simp only [Spec.symSize] at * <;> omega

/-- **by-index read-out = gABI decoding of the section contents** -/
theorem getSymbol_decoded {t : SymTab} {symB strB : Bytes} (h : Wf t symB strB) (i : BitVec 64)
    (str : Bytes) (a : Attrs) :
    t.getSymbol i str a = .ok (if i.toNat < countOf t.cfg.cls symB then
        (true, (nameAt t.cfg symB strB i.toNat).getD str, attrsOfRec (recAt t.cfg symB i.toNat))
      else (false, str, a)) := by
  have hsz := h.sym.size
  have hlt := t.sym.size.isLt
  have hi := i.isLt
  have hcnt : countOf t.cfg.cls symB ≤ symB.length := Nat.div_le_self _ _
  unfold getSymbol guardNum
  by_cases hn : (secData t.sym).isNone = true
  · have he := h.sym.isNone hn
    have h0 : countOf t.cfg.cls symB = 0 := by subst he; simp [countOf]
    simp [hn, h0, sym32_get_guard, sym64_get_guard, pure, Except.pure, bind, Except.bind]
  · simp only [hn, Bool.false_eq_true, if_false, symbolsNum_eq h, bind, Except.bind]
    have hg : (BitVec.ult i (BitVec.ofNat 64 (countOf t.cfg.cls symB))) = decide (i.toNat < countOf t.cfg.cls symB) := by
      simp only [BitVec.ult, BitVec.toNat_ofNat, Nat.reducePow] at *
      rw [Nat.mod_eq_of_lt (by omega)]
    simp only [sym32_get_guard, sym64_get_guard, ite_self, Bool.not_false, Bool.true_and, hg, decide_eq_true_eq]
    by_cases hic : i.toNat < countOf t.cfg.cls symB
    · have hin := count_lt hic
      simp only [hic, if_true]
      have hoff : (i * t.sym.entSize).toNat = i.toNat * Spec.symSize t.cfg.cls := by
        rw [h.ent, symSizeOf_eq, BitVec.toNat_mul, BitVec.toNat_ofNat]
        have : Spec.symSize t.cfg.cls < 25 := by cases t.cfg.cls <;> simp [Spec.symSize]
        simp only [Nat.reducePow] at *
        rw [Nat.mod_eq_of_lt (a := Spec.symSize t.cfg.cls) (by omega), Nat.mod_eq_of_lt (by omega)]
      have hpos : 0 < Spec.symSize t.cfg.cls := by cases t.cfg.cls <;> simp [Spec.symSize]
      simp only [sym32_get_off, sym64_get_off, ite_self, hoff, symSizeOf_eq]
      rw [h.sym.rd _ _ _ hpos hin]
      simp only [decodeRaw_eq t.cfg _ (slice_length_of_le hin)]
      have hnm : (BitVec.ofNat 32 (recAt t.cfg symB i.toNat).name).toNat = (recAt t.cfg symB i.toNat).name := by
        simp only [BitVec.toNat_ofNat, Nat.reducePow]
        exact Nat.mod_eq_of_lt (recAt_name_lt _ _ _)
      have hrn : (rawOf (recAt t.cfg symB i.toNat)).name = BitVec.ofNat 32 (recAt t.cfg symB i.toNat).name := rfl
      unfold recAt at hrn hnm
      simp only [hrn, getString_wf h, hnm, attrsOf_eq, nameAt, recAt, pure, Except.pure]
    · simp only [hic, if_false, pure, Except.pure]

end SymTab
end ElfioVerif
