/-
C18 helper lemmas, part 5: the MUTATING queries keep the domain.

`arrange_local_symbols` and `swap_symbols` overwrite bytes of resident buffers in place.  The accessor
theorems of C18 are stated on `Sec b` (settled; data absent or `size < d.length`, ANY contents) and
`Small b` — neither mentions the file bytes.  Here:

* `Frame b' b`     : `b'` is `b` with other buffer contents and another `sh_info`, nothing else; the buffer has the
                     same length; a section neither becomes resident nor loses its data.
* `arrange_frame`  : ANY successful run of the byte-level loop of Model/Arrange.lean (any callback, any header
                     fields) ends in a `Frame` of the section it started on (frame-by-success: every write went through
                     `wrRange`, which keeps the length).
* `arrange_keep`   : `TQ.arrange (TQ.swapAll enc)` on `Sec`/`Small` sections returns, the symbol section is a
                     `Frame` of the old one, every relocation section is a `Keep` of the old one (via
                     C10.arrange_refines with the callback invariant `KeepAll`).
* `secGetData_qsec`: `section::get_data()` against a stream shorter than 4 GiB keeps / establishes
                     "`size < d.length` and `size < 2^32` when resident" — WITHOUT the loader invariant's file-bytes clause.
-/
import ElfioVerif.Lemmas.TableSafetySwap
import ElfioVerif.Lemmas.LoadSafety
import ElfioVerif.Lemmas.Inspect
namespace ElfioVerif
open Gen

namespace C18

/-! ### frames -/

/-- `b'` is `b` up to the contents of the buffer and `sh_info`; same buffer length, same residency -/
structure Frame (b' b : SecBuf) : Prop where
  eqv : ∃ d i, b' = { b with data := d, info := i }
  dlen : b'.data.map List.length = b.data.map List.length

theorem Frame.refl (b : SecBuf) : Frame b b := ⟨⟨b.data, b.info, rfl⟩, rfl⟩

theorem Frame.trans {a b c : SecBuf} (h1 : Frame a b) (h2 : Frame b c) : Frame a c := by
  obtain ⟨d1, i1, e1⟩ := h1.eqv
  obtain ⟨d2, i2, e2⟩ := h2.eqv
  exact ⟨⟨d1, i1, by rw [e1, e2]⟩, h1.dlen.trans h2.dlen⟩

theorem Keep.frame {b' b : SecBuf} (h : Keep b' b) : Frame b' b := by
  obtain ⟨d, e⟩ := h.eqv
  exact ⟨⟨d, b.info, by rw [e]⟩, h.dlen⟩

theorem Frame.settled {b' b : SecBuf} (h : Frame b' b) :
    (!b'.isLoaded && b'.canLoad) = (!b.isLoaded && b.canLoad) := by
  obtain ⟨d, i, e⟩ := h.eqv; rw [e]

/-- the header fields (all but `sh_info`) and the loader's bookkeeping are untouched -/
theorem Frame.hdr {b' b : SecBuf} (h : Frame b' b) :
    b'.cls = b.cls ∧ b'.stype = b.stype ∧ b'.size = b.size ∧ b'.entSize = b.entSize ∧ b'.link = b.link ∧
    b'.flags = b.flags ∧ b'.addr = b.addr ∧ b'.offset = b.offset ∧ b'.addrAlign = b.addrAlign ∧
    b'.nameOff = b.nameOff ∧ b'.name = b.name ∧ b'.index = b.index ∧ b'.streamSize = b.streamSize ∧
    b'.dataSize = b.dataSize ∧ b'.isLazy = b.isLazy ∧ b'.isLoaded = b.isLoaded ∧ b'.canLoad = b.canLoad := by
  obtain ⟨d, i, e⟩ := h.eqv; rw [e]
  exact ⟨rfl, rfl, rfl, rfl, rfl, rfl, rfl, rfl, rfl, rfl, rfl, rfl, rfl, rfl, rfl, rfl, rfl⟩

/-- no section becomes resident or non-resident, and a resident buffer keeps its length -/
theorem Frame.resident {b' b : SecBuf} (h : Frame b' b) :
    b'.data.isSome = b.data.isSome ∧ ∀ d d', b.data = some d → b'.data = some d' → d'.length = d.length := by
  have := h.dlen
  constructor
  · cases h1 : b'.data <;> cases h2 : b.data <;> simp [h1, h2] at this ⊢
  · intro d d' h2 h1
    simpa [h1, h2] using this

theorem Frame.sec {b' b : SecBuf} (h : Frame b' b) (hs : Sec b) : Sec b' := by
  refine ⟨by rw [h.settled]; exact hs.settled, ?_⟩
  intro d' hd'
  have hl := h.dlen
  rw [hd'] at hl
  cases hd : b.data with
  | none => rw [hd] at hl; cases hl
  | some d =>
    rw [hd] at hl
    simp only [Option.map_some, Option.some.injEq] at hl
    rw [h.hdr.2.2.1, hl]; exact hs.buf d hd

theorem Frame.small {b' b : SecBuf} (h : Frame b' b) (hs : Small b) : Small b' := by
  intro d' hd'
  have hl := h.dlen
  rw [hd'] at hl
  cases hd : b.data with
  | none => rw [hd] at hl; cases hl
  | some d => rw [h.hdr.2.2.1]; exact hs d hd

/-! ### a successful checked write keeps the length of the allocation -/

theorem wrRange_len {site : String} {buf : Option Bytes} {off : Nat} {src : Bytes} {r : Option Bytes}
    (h : wrRange site buf off src = .ok r) : r.map List.length = buf.map List.length := by
  unfold wrRange at h
  cases buf with
  | none =>
    dsimp only at h
    split at h
    · simp only [pure, Except.pure, Except.ok.injEq] at h; subst h; rfl
    · cases h
  | some b =>
    dsimp only at h
    split at h
    · rename_i hb
      simp only [pure, Except.pure, Except.ok.injEq] at h; subst h
      simp only [Option.map_some, wr_length _ _ _ hb]
    · cases h

/-! ### the byte-level loop of `arrange_local_symbols`: frame by success -/

theorem symPtr_fst (k : Arrange.SymSites) (s : SecBuf) (hs : (!s.isLoaded && s.canLoad) = false) (i : BitVec 64) :
    (Arrange.symPtr k s i).1 = s := by
  unfold Arrange.symPtr
  rw [Arrange.getData_stable hs]
  dsimp only
  split
  · split <;> rfl
  · rfl

theorem scan1_fst (k : Arrange.SymSites) :
    ∀ (fuel : Nat) (s : SecBuf) (count : BitVec 64) (fnl : BitVec 32) (p1 : Option Nat)
      (r : SecBuf × BitVec 32 × Option Nat), (!s.isLoaded && s.canLoad) = false →
      Arrange.scan1 k fuel s count fnl p1 = .ok r → r.1 = s := by
  intro fuel
  induction fuel with
  | zero => intro s count fnl p1 r _ h; cases h
  | succ n ih =>
    intro s count fnl p1 r hs h
    unfold Arrange.scan1 at h
    split at h
    · have hp : Arrange.symPtr k s (k.p1Index fnl) = (s, (Arrange.symPtr k s (k.p1Index fnl)).2) :=
        Prod.ext (symPtr_fst k s hs _) rfl
      rw [hp] at h
      dsimp only at h
      split at h
      · cases h
      · split at h
        · cases h; rfl
        · exact ih _ _ _ _ _ hs h
    · cases h; rfl

theorem scan2_fst (k : Arrange.SymSites) :
    ∀ (fuel : Nat) (s : SecBuf) (count cur : BitVec 64) (p2 : Option Nat)
      (r : SecBuf × BitVec 64 × Option Nat), (!s.isLoaded && s.canLoad) = false →
      Arrange.scan2 k fuel s count cur p2 = .ok r → r.1 = s := by
  intro fuel
  induction fuel with
  | zero => intro s count cur p2 r _ h; cases h
  | succ n ih =>
    intro s count cur p2 r hs h
    unfold Arrange.scan2 at h
    split at h
    · have hp : Arrange.symPtr k s (k.p2Index cur) = (s, (Arrange.symPtr k s (k.p2Index cur)).2) :=
        Prod.ext (symPtr_fst k s hs _) rfl
      rw [hp] at h
      dsimp only at h
      split at h
      · cases h
      · split at h
        · cases h; rfl
        · exact ih _ _ _ _ _ hs h
    · cases h; rfl

/-- `std::swap(*p1, *p2)` : when it succeeds only the contents changed -/
theorem swapRecs_frame (k : Arrange.SymSites) (s : SecBuf) (p1 p2 : Option Nat) {s' : SecBuf}
    (h : Arrange.swapRecs k s p1 p2 = .ok s') : Frame s' s := by
  unfold Arrange.swapRecs at h
  split at h
  · split at h
    · cases h
    · split at h
      · cases h
      · split at h
        · cases h
        · rename_i hw1
          split at h
          · cases h
          · rename_i hw2
            cases h
            exact ⟨⟨_, s.info, rfl⟩, (wrRange_len hw2).trans (wrRange_len hw1)⟩
  · cases h

/-- the `while (true)` loop, ANY callback, ANY header fields: a run that returns leaves a `Frame` -/
theorem loop_frame {σ : Type} (k : Arrange.SymSites) (cb : σ → BitVec 64 → BitVec 64 → M σ) :
    ∀ (fuel : Nat) (s : SecBuf) (st : σ) (count : BitVec 64) (fnl : BitVec 32) (r : SecBuf × σ × BitVec 32),
      (!s.isLoaded && s.canLoad) = false → Arrange.loop k cb fuel s st count fnl = .ok r → Frame r.1 s := by
  intro fuel
  induction fuel with
  | zero => intro s st count fnl r _ h; cases h
  | succ n ih =>
    intro s st count fnl r hs h
    unfold Arrange.loop at h
    split at h
    · cases h; exact Frame.refl s
    · split at h
      · cases h
      · rename_i s1 fnl1 p1 h1
        have e1 : s1 = s := scan1_fst k _ _ _ _ _ _ hs h1
        subst e1
        split at h
        · cases h
        · rename_i s2 cur p2 h2
          have e2 : s2 = s1 := scan2_fst k _ _ _ _ _ _ hs h2
          subst e2
          split at h
          · split at h
            · cases h
            · rename_i st1 _
              split at h
              · cases h
              · rename_i s3 h3
                have f3 := swapRecs_frame k _ _ _ h3
                have hs3 : (!s3.isLoaded && s3.canLoad) = false := by rw [f3.settled]; exact hs
                exact (ih _ _ _ _ _ hs3 h).trans f3
          · cases h
            exact ⟨⟨_, _, rfl⟩, rfl⟩

/-- `Arrange.arrange` (the body of `arrange_local_symbols`) -/
theorem arrangeBody_frame {σ : Type} (cb : σ → BitVec 64 → BitVec 64 → M σ) (s : SecBuf)
    (hs : (!s.isLoaded && s.canLoad) = false) (st : σ) {r : SecBuf × σ × BitVec 64}
    (h : Arrange.arrange cb s st = .ok r) : Frame r.1 s := by
  unfold Arrange.arrange at h
  dsimp only at h
  split at h
  · cases h
  · rename_i s' st' fnl hl
    cases h
    exact loop_frame _ cb _ _ _ _ _ _ hs hl

/-- **`arrange_local_symbols` with ANY callback**: a call that returns changed nothing but the contents of the
    symbol section's buffer and `sh_info` — same size, flags, link, entry size, type, same residency, same
    buffer length; so `Sec` and `Small` are kept -/
theorem arrange_frame {σ : Type} (cb : σ → BitVec 64 → BitVec 64 → M σ) (s : SecBuf)
    (hs : (!s.isLoaded && s.canLoad) = false) (st : σ) {r : SecBuf × σ × BitVec 64}
    (h : TQ.arrange cb s st = .ok r) : Frame r.1 s := by
  unfold TQ.arrange at h
  split at h
  · cases h; exact Frame.refl s
  · exact arrangeBody_frame cb s hs st h

/-! ### the callback: every relocation section is kept -/

/-- pointwise `Keep` of two lists of sections -/
def KeepAll : List SecBuf → List SecBuf → Prop
  | [], [] => True
  | a :: as, b :: bs => Keep a b ∧ KeepAll as bs
  | _, _ => False

theorem KeepAll.refl : ∀ (l : List SecBuf), (∀ r ∈ l, Sec r) → KeepAll l l
  | [], _ => trivial
  | a :: as, h =>
    ⟨Keep.refl (h a (List.mem_cons_self ..)), KeepAll.refl as (fun r hr => h r (List.mem_cons_of_mem _ hr))⟩

theorem KeepAll.trans : ∀ {a b c : List SecBuf}, KeepAll a b → KeepAll b c → KeepAll a c
  | [], [], [], _, _ => trivial
  | _ :: _, _ :: _, _ :: _, h1, h2 => ⟨h1.1.trans h2.1, KeepAll.trans h1.2 h2.2⟩
  | [], [], _ :: _, _, h2 => h2.elim
  | [], _ :: _, _, h1, _ => h1.elim
  | _ :: _, [], _, h1, _ => h1.elim
  | _ :: _, _ :: _, [], _, h2 => h2.elim

theorem KeepAll.length : ∀ {a b : List SecBuf}, KeepAll a b → a.length = b.length
  | [], [], _ => rfl
  | _ :: _, _ :: _, h => by simp only [List.length_cons]; rw [KeepAll.length h.2]
  | [], _ :: _, h => h.elim
  | _ :: _, [], h => h.elim

/-- the sections at the same position are related -/
theorem KeepAll.getElem? : ∀ {a b : List SecBuf}, KeepAll a b → ∀ (j : Nat) (x : SecBuf), a[j]? = some x →
    ∃ y, b[j]? = some y ∧ Keep x y
  | [], [], _, j, x, hx => by simp at hx
  | _ :: _, _ :: _, h, 0, x, hx => by
    simp only [List.getElem?_cons_zero, Option.some.injEq] at hx
    subst hx; exact ⟨_, rfl, h.1⟩
  | _ :: _, _ :: _, h, j + 1, x, hx => by
    simp only [List.getElem?_cons_succ] at hx ⊢
    exact KeepAll.getElem? h.2 j x hx
  | [], _ :: _, h, _, _, _ => h.elim
  | _ :: _, [], h, _, _, _ => h.elim

theorem KeepAll.mem {a b : List SecBuf} (h : KeepAll a b) {x : SecBuf} (hx : x ∈ a) : ∃ y ∈ b, Keep x y := by
  obtain ⟨j, hj⟩ := List.getElem?_of_mem hx
  obtain ⟨y, hy, hk⟩ := h.getElem? j x hj
  exact ⟨y, List.mem_of_getElem? hy, hk⟩

theorem KeepAll.relsOk {a b : List SecBuf} (h : KeepAll a b) (hb : RelsOk b) : RelsOk a := by
  intro x hx
  obtain ⟨y, hy, hk⟩ := h.mem hx
  exact ⟨hk.sec, hk.small (hb y hy).2⟩

theorem swapAll_keep (enc : Enc) (a b : BitVec 64) :
    ∀ (rels : List SecBuf), RelsOk rels → ∃ rels', TQ.swapAll enc rels a b = .ok rels' ∧ KeepAll rels' rels := by
  intro rels
  induction rels with
  | nil => intro _; exact ⟨[], rfl, trivial⟩
  | cons r rs ih =>
    intro h
    unfold TQ.swapAll
    obtain ⟨hr1, hr2⟩ := h r (List.mem_cons_self ..)
    obtain ⟨r', h1, k1⟩ := swapSymbols_keep enc r hr1 hr2 a b
    rw [h1]
    dsimp only
    obtain ⟨rs', h2, k2⟩ := ih (fun x hx => h x (List.mem_cons_of_mem _ hx))
    rw [h2]
    exact ⟨_, rfl, k1, k2⟩

/-- **`arrange_local_symbols` with the `swap_symbols` callback keeps the domain**: on a `Sec`, `Small` symbol
    section and `Sec`, `Small` relocation sections (ANY header fields and contents) the call returns; the
    symbol section afterwards is a `Frame` of the old one (so again `Sec`, `Small`), every relocation
    section a `Keep` of the old one at the same position -/
theorem arrange_keep (enc : Enc) (s : SecBuf) (hs : Sec s) (hsmall0 : Small s) (rels : List SecBuf)
    (hr : RelsOk rels) :
    ∃ s' rels' ret, TQ.arrange (TQ.swapAll enc) s rels = .ok (s', rels', ret) ∧ Frame s' s ∧ KeepAll rels' rels := by
  have hrefl : KeepAll rels rels := KeepAll.refl rels (fun r h => (hr r h).1)
  have key : ∃ s' rels' ret, TQ.arrange (TQ.swapAll enc) s rels = .ok (s', rels', ret) ∧ KeepAll rels' rels := by
    unfold TQ.arrange
    by_cases h1 : tq_arrange_nodata (secData s).isNone = true
    · rw [if_pos h1]; exact ⟨_, _, _, rfl, hrefl⟩
    rw [if_neg h1]
    rw [hs.secData] at h1
    cases hd : s.data with
    | none => simp [tq_arrange_nodata, hd] at h1
    | some d =>
      have hsmall := hsmall0 d hd
      by_cases hc : C10.symCount s = 0
      · rw [C10.arrange_empty _ s rels hc]; exact ⟨_, _, _, rfl, hrefl⟩
      · have hnum : arr_num_ok s.entSize (Arrange.minSymSize s.cls) s.size s.streamSize = true := by
          by_cases hk : arr_num_ok s.entSize (Arrange.minSymSize s.cls) s.size s.streamSize = true
          · exact hk
          · exfalso; apply hc
            simp only [C10.symCount, Arrange.symbolsNum, hk, Bool.false_eq_true, if_false]; rfl
        have hready : C10.Ready s := by
          have hl := hs.buf d hd
          simp only [arr_num_ok, Bool.and_eq_true, BitVec.ule, decide_eq_true_eq] at hnum
          have hmin : (Arrange.sitesOf s.cls).symSize ≤ s.entSize.toNat ∧ 16 ≤ s.entSize.toNat := by
            have h32 : (Arrange.minSymSize .c32).toNat = 16 ∧ (Arrange.sitesOf .c32).symSize = 16 := by decide
            have h64 : (Arrange.minSymSize .c64).toNat = 24 ∧ (Arrange.sitesOf .c64).symSize = 24 := by decide
            have := hnum.1
            cases hcl : s.cls
            · rw [hcl, h32.1] at this; rw [h32.2]; omega
            · rw [hcl, h64.1] at this; rw [h64.2]; omega
          refine ⟨by rw [hd]; rfl, hs.settled, hmin.1, by rw [hd]; simp; omega, hnum.2, ?_⟩
          apply Nat.div_lt_of_lt_mul
          calc s.size.toNat < 16 * 4294967295 := by omega
            _ ≤ s.entSize.toNat * 4294967295 := Nat.mul_le_mul_right _ hmin.2
        have hcb : C10.CbRefines (C10.symCount s) (TQ.swapAll enc) (fun (u : Unit) _ _ => u)
            (fun stb _ => KeepAll stb rels) := by
          intro stb sta i j hR _ _
          obtain ⟨rels', h, hk⟩ := swapAll_keep enc i j stb (hR.relsOk hr)
          exact ⟨rels', h, hk.trans hR⟩
        obtain ⟨d', stb', ret, _, _, _, h, _, _, _, _, hR, _⟩ :=
          C10.arrange_refines (TQ.swapAll enc) (fun (u : Unit) _ _ => u) (fun stb _ => KeepAll stb rels) s hready hcb
            rels () hrefl
        exact ⟨_, _, _, h, hR⟩
  obtain ⟨s', rels', ret, h, hk⟩ := key
  exact ⟨s', rels', ret, h, arrange_frame _ s hs.settled rels h, hk⟩

/-! ### `section::get_data()` without the file-bytes clause -/

/-- the buffer facts of a section, resident or not: room for `size` bytes and the terminator, and a resident
    section is smaller than 4 GiB.  No statement about the contents. -/
def QSec (b : SecBuf) : Prop := ∀ d, b.data = some d → b.size.toNat < d.length ∧ b.size.toNat < 4294967296

theorem QSec.of_frame {b' b : SecBuf} (h : Frame b' b) (hq : QSec b) : QSec b' := by
  intro d' hd'
  have hl := h.dlen
  rw [hd'] at hl
  cases hd : b.data with
  | none => rw [hd] at hl; cases hl
  | some d =>
    rw [hd] at hl
    simp only [Option.map_some, Option.some.injEq] at hl
    rw [h.hdr.2.2.1, hl]; exact hq d hd

theorem QSec.of_sec {b : SecBuf} (h1 : Sec b) (h2 : Small b) : QSec b := fun d hd => ⟨h1.buf d hd, h2 d hd⟩

/-- `load_data()` against a stream shorter than 4 GiB: whatever it does, the buffer facts hold afterwards
    (a new buffer is `size` bytes that WERE read, plus the terminator), and the stream still has its bytes -/
theorem secLoadData_qsec (c : Cls) (tr : List Trans) (ls : LoadSt) (b : SecBuf)
    (hlen : ls.st.data.length < 4294967296) (hq : QSec b) :
    QSec (secLoadData c tr ls b).2.1 ∧ (secLoadData c tr ls b).1.st.data = ls.st.data := by
  rw [secLoadData_eq]
  by_cases h1 : sec64_load_data_off_gt (dataOff tr b.offset) b.streamSize = true
  · rw [if_pos h1]; exact ⟨hq, rfl⟩
  rw [if_neg h1]
  by_cases h2 : sec64_load_data_size_gt b.size b.streamSize (dataOff tr b.offset) = true
  · rw [if_pos h2]; exact ⟨hq, rfl⟩
  rw [if_neg h2]
  by_cases h3 : (b.data.isNone && !isNullOrNobitsTy b.stype) = true
  · rw [if_pos h3]
    by_cases h4 : sec64_load_data_sizet b.size = true
    · rw [if_pos h4]; exact ⟨hq, rfl⟩
    rw [if_neg h4]
    by_cases h5 : (b.size != 0) = true
    · rw [if_pos h5]
      have hsz : b.size ≠ 0 := by simpa using h5
      by_cases h6 : (!(isolatedRead ls.st (dataOff tr b.offset) b.size).2.2) = true
      · rw [if_pos h6]
        exact ⟨fun d hd => by simp at hd, by simp⟩
      · rw [if_neg h6]
        have hc : (isolatedRead ls.st (dataOff tr b.offset) b.size).2.2 = true := by simpa using h6
        obtain ⟨hgot, hl⟩ := isolatedRead_complete _ _ _ hc hsz
        refine ⟨?_, by simp⟩
        intro d hd
        simp only [Option.some.injEq] at hd
        subst hd
        rw [slice_length] at hl
        simp only [hgot, List.length_append, slice_length, List.length_singleton]
        omega
    · rw [if_neg h5]
      have hsz : b.size = 0 := by simpa using h5
      refine ⟨?_, rfl⟩
      intro d hd
      simp only [Option.some.injEq] at hd
      subst hd
      simp [hsz]
  · rw [if_neg h3]
    exact ⟨fun d hd => hq d hd, rfl⟩

/-- `get_data()` : the same, and the section is settled afterwards -/
theorem secGetData_qsec (c : Cls) (tr : List Trans) (ls : LoadSt) (b : SecBuf)
    (hlen : ls.st.data.length < 4294967296) (hq : QSec b) :
    QSec (secGetData c tr ls b).2 ∧ (secGetData c tr ls b).1.st.data = ls.st.data := by
  rw [secGetData_eq]
  obtain ⟨h1, h2⟩ := secLoadData_qsec c tr ls b hlen hq
  split
  · refine ⟨?_, h2⟩
    split
    · exact h1
    · exact fun d hd => h1 d hd
  · exact ⟨hq, rfl⟩

/-- where the updated relocation sections are written back -/
theorem mem_putAll : ∀ (idxs : List Nat) (rs secs : List SecBuf) (x : SecBuf), x ∈ TQ.putAll secs idxs rs →
    x ∈ secs ∨ x ∈ rs := by
  intro idxs
  induction idxs with
  | nil => intro rs secs x h; unfold TQ.putAll at h; exact Or.inl h
  | cons j js ih =>
    intro rs secs x h
    cases rs with
    | nil => unfold TQ.putAll at h; exact Or.inl h
    | cons r rs =>
      unfold TQ.putAll at h
      rcases ih rs _ x h with h' | h'
      · rcases List.mem_or_eq_of_mem_set h' with h'' | h''
        · exact Or.inl h''
        · exact Or.inr (h'' ▸ List.mem_cons_self ..)
      · exact Or.inr (List.mem_cons_of_mem _ h')

theorem length_putAll : ∀ (idxs : List Nat) (rs secs : List SecBuf), (TQ.putAll secs idxs rs).length = secs.length := by
  intro idxs
  induction idxs with
  | nil => intro rs secs; unfold TQ.putAll; rfl
  | cons j js ih =>
    intro rs secs
    cases rs with
    | nil => unfold TQ.putAll; rfl
    | cons r rs => unfold TQ.putAll; rw [ih]; simp

/-! ### the header side of a section: untouched by every query -/

/-- the section header fields other than `sh_info` (which `arrange_local_symbols` sets), with the recorded
    stream size and the lazy flag -/
def hdrOf (b : SecBuf) :=
  (b.cls, b.stype, b.size, b.entSize, b.link, b.flags, b.addr, b.offset, b.addrAlign, b.nameOff, b.name, b.index,
   b.streamSize, b.isLazy)

/-- same header fields (all but `sh_info`) -/
def HdrI (b' b : SecBuf) : Prop := hdrOf b' = hdrOf b

theorem Frame.hdrI {b' b : SecBuf} (h : Frame b' b) : HdrI b' b := by
  obtain ⟨d, i, e⟩ := h.eqv; rw [e]; rfl

theorem secLoadData_hdr (c : Cls) (tr : List Trans) (ls : LoadSt) (b : SecBuf) :
    hdrOf (secLoadData c tr ls b).2.1 = hdrOf b := by
  rw [secLoadData_eq]
  repeat' split
  all_goals rfl

/-- `get_data()` changes no header field -/
theorem secGetData_hdr (c : Cls) (tr : List Trans) (ls : LoadSt) (b : SecBuf) :
    HdrI (secGetData c tr ls b).2 b := by
  unfold HdrI
  rw [secGetData_eq]
  split
  · split
    · exact secLoadData_hdr c tr ls b
    · exact secLoadData_hdr c tr ls b
  · rfl

/-- a relation that holds between the sections at every position, transported through `putAll` -/
theorem putAll_hdr (secs0 : List SecBuf) :
    ∀ (idxs : List Nat), (∀ j ∈ idxs, j < secs0.length) → ∀ (rs : List SecBuf),
      KeepAll rs (idxs.filterMap fun j => secs0[j]?) → ∀ (secs : List SecBuf),
      (∀ (j : Nat) (b' : SecBuf), secs[j]? = some b' → ∃ b, secs0[j]? = some b ∧ HdrI b' b) →
      ∀ (j : Nat) (b' : SecBuf), (TQ.putAll secs idxs rs)[j]? = some b' → ∃ b, secs0[j]? = some b ∧ HdrI b' b := by
  intro idxs
  induction idxs with
  | nil => intro _ rs _ secs hP j b' h; unfold TQ.putAll at h; exact hP j b' h
  | cons i is ih =>
    intro hlt rs hk secs hP j b' h
    have hi : i < secs0.length := hlt i (List.mem_cons_self ..)
    have hf : (List.filterMap (fun j => secs0[j]?) (i :: is)) = secs0[i] :: List.filterMap (fun j => secs0[j]?) is := by
      rw [List.filterMap_cons, List.getElem?_eq_getElem hi]
    rw [hf] at hk
    cases rs with
    | nil => exact hk.elim
    | cons r rs =>
      unfold TQ.putAll at h
      refine ih (fun j hj => hlt j (List.mem_cons_of_mem _ hj)) rs hk.2 (secs.set i r) ?_ j b' h
      intro j b'' hj
      rw [List.getElem?_set] at hj
      split at hj
      · split at hj
        · simp only [Option.some.injEq] at hj
          subst hj
          rename_i hij _
          subst hij
          exact ⟨secs0[i], List.getElem?_eq_getElem hi, hk.1.frame.hdrI⟩
        · cases hj
      · exact hP j b'' hj

/-- the indices the `arrange` callback collects are indices of sections -/
theorem relsOfGo_lt (i n : Nat) : ∀ (l : List SecBuf) (start : Nat), ∀ j ∈ TQ.relsOfGo i n l start, j < start + l.length := by
  intro l
  induction l with
  | nil => intro start j hj; unfold TQ.relsOfGo at hj; cases hj
  | cons r rest ih =>
    intro start j hj
    unfold TQ.relsOfGo at hj
    simp only [List.length_cons]
    split at hj
    · cases hj
    · split at hj
      · rcases List.mem_cons.mp hj with rfl | hj
        · omega
        · have := ih (start + 1) j hj; omega
      · have := ih (start + 1) j hj; omega

theorem relsOf_lt (o : Obj) (i : Nat) : ∀ j ∈ TQ.relsOf o i, j < o.secs.length := by
  intro j hj
  have := relsOfGo_lt i _ o.secs 0 j hj
  omega

/-! ### the entry count the version accessors' constructors read from `.dynamic` -/

theorem verCountGo_total (loopc : BitVec 64 → BitVec 64 → Bool) (hit : Bool → BitVec 64 → Bool)
    (incr : BitVec 64 → BitVec 64) (trunc : BitVec 64 → BitVec 32) (n : BitVec 64) :
    ∀ (fuel : Nat) (a : DynAcc) (i : BitVec 64), Inspect.DynReady a →
      ∃ v, TQ.verCountGo loopc hit incr trunc n fuel a i = .ok v := by
  intro fuel
  induction fuel with
  | zero => intro a i _; exact ⟨_, rfl⟩
  | succ f ih =>
    intro a i h
    unfold TQ.verCountGo
    by_cases hc : loopc i n = true
    · rw [if_pos hc]
      obtain ⟨n', r, hr, hle⟩ := Inspect.dyn_getEntry_total a h i
      rw [hr]
      dsimp only
      repeat' split
      all_goals first | exact ⟨_, rfl⟩ | exact ih _ _ (h.withCache n' hle)
    · rw [if_neg hc]; exact ⟨_, rfl⟩

/-- the constructors' scan of `.dynamic` returns on ANY settled sections with room for their size (any entry
    size, any contents, no DT_NULL, no data), and when there is no `.dynamic` section -/
theorem verCount_total (need : Bool) (dyn : Option DynAcc) (h : ∀ a, dyn = some a → Inspect.DynReady a) :
    ∃ v, TQ.verCount need dyn = .ok v := by
  unfold TQ.verCount
  cases dyn with
  | none => cases need <;> simp only [Bool.false_eq_true, if_false, if_true] <;> (split <;> exact ⟨_, rfl⟩)
  | some a0 =>
    obtain ⟨n, hn, hle⟩ := Inspect.dyn_entriesNum_total a0 (h a0 rfl)
    have hgo := fun lc ht ic tr m i => verCountGo_total lc ht ic tr m n.toNat _ i ((h a0 rfl).withCache n hle)
    cases need <;> simp only [Bool.false_eq_true, if_false, if_true, hn] <;> split
    · exact ⟨_, rfl⟩
    · exact hgo _ _ _ _ _ _
    · exact ⟨_, rfl⟩
    · exact hgo _ _ _ _ _ _

end C18
end ElfioVerif
