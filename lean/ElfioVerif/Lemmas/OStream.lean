/-
Facts about the output stream model (Model/OStream.lean) that C16 needs:
failure is sticky, a budgeted stream never holds more than its budget, and a budgeted stream
simulates the unlimited one until its first failure.
-/
import ElfioVerif.Model.OStream
namespace ElfioVerif
namespace OStream

/-! (the stickiness lemmas `write_of_fail`, `seekp_of_fail`, `seekEnd_of_fail`, `adjust_of_fail` and `adjust_eq`
    live in Model/OStream.lean, where the compiled form of `adjust` needs them) -/

/-! ### what the operations leave alone -/

@[simp] theorem write_budget (s : OStream) (bs : Bytes) : (s.write bs).budget = s.budget := by
  unfold write; split <;> rfl

@[simp] theorem seekp_budget (s : OStream) (p : Int) : (s.seekp p).budget = s.budget := by
  unfold seekp; split
  · rfl
  · split <;> rfl

@[simp] theorem seekEnd_budget (s : OStream) : s.seekEnd.budget = s.budget := by
  unfold seekEnd; split <;> rfl

@[simp] theorem adjust_budget (s : OStream) (off : Int) : (s.adjust off).budget = s.budget := by
  rw [adjust_eq]; split <;> simp

@[simp] theorem seekp_content (s : OStream) (p : Int) : (s.seekp p).content = s.content := by
  unfold seekp; split
  · rfl
  · split <;> rfl

@[simp] theorem seekEnd_content (s : OStream) : s.seekEnd.content = s.content := by
  unfold seekEnd; split <;> rfl

/-! ### well-formed streams: the put position is inside the content, the content inside the budget -/

structure WF (s : OStream) : Prop where
  pos_le : s.pos ≤ s.content.length
  in_budget : ∀ k, s.budget = some k → s.content.length ≤ k

theorem WF.empty (b : Option Nat) : WF { budget := b } :=
  ⟨Nat.le_refl _, fun _ _ => Nat.zero_le _⟩

/-- number of bytes `write` takes -/
def room (s : OStream) (bs : Bytes) : Nat :=
  match s.budget with
  | none => bs.length
  | some k => min bs.length (k - s.pos)

theorem room_le (s : OStream) (bs : Bytes) : room s bs ≤ bs.length := by
  unfold room; split
  · exact Nat.le_refl _
  · exact Nat.min_le_left _ _

theorem write_eq {s : OStream} (h : s.fail = false) (bs : Bytes) :
    s.write bs =
      { s with
        content := if s.pos + room s bs ≤ s.content.length then wr s.content s.pos (bs.take (room s bs))
                   else s.content.take s.pos ++ bs.take (room s bs)
        pos := s.pos + room s bs
        fail := decide (room s bs < bs.length) } := by
  have hl : (bs.take (room s bs)).length = room s bs := by
    rw [List.length_take]; exact Nat.min_eq_left (room_le s bs)
  unfold write
  rw [if_neg (by simp [h])]
  show ({ s with
          content := if s.pos + (bs.take (room s bs)).length ≤ s.content.length then wr s.content s.pos (bs.take (room s bs))
                     else s.content.take s.pos ++ bs.take (room s bs)
          pos := s.pos + (bs.take (room s bs)).length
          fail := decide (room s bs < bs.length) } : OStream) = _
  rw [hl]

theorem write_content_length {s : OStream} (h : s.fail = false) (hp : s.pos ≤ s.content.length) (bs : Bytes) :
    (s.write bs).content.length = max s.content.length (s.pos + room s bs) := by
  have hl : (bs.take (room s bs)).length = room s bs := by
    rw [List.length_take]; exact Nat.min_eq_left (room_le s bs)
  rw [write_eq h]
  show (if s.pos + room s bs ≤ s.content.length then wr s.content s.pos (bs.take (room s bs))
        else s.content.take s.pos ++ bs.take (room s bs)).length = _
  split
  · rename_i hle
    rw [wr_length _ _ _ (by rw [hl]; exact hle)]; omega
  · rw [List.length_append, List.length_take, hl]; omega

theorem write_pos {s : OStream} (h : s.fail = false) (bs : Bytes) :
    (s.write bs).pos = s.pos + room s bs := by
  rw [write_eq h]

theorem write_wf {s : OStream} (w : WF s) (bs : Bytes) : WF (s.write bs) := by
  cases hf : s.fail with
  | true => rw [write_of_fail hf]; exact w
  | false =>
    refine ⟨?_, ?_⟩
    · rw [write_pos hf, write_content_length hf w.pos_le]; omega
    · intro k hk
      rw [write_budget] at hk
      rw [write_content_length hf w.pos_le]
      have h1 := w.in_budget k hk
      have h2 : room s bs ≤ k - s.pos := by
        unfold room; rw [hk]; exact Nat.min_le_right _ _
      have h3 := w.pos_le
      omega

theorem seekp_wf {s : OStream} (w : WF s) (p : Int) : WF (s.seekp p) := by
  unfold seekp
  split
  · exact w
  · split
    · exact ⟨w.pos_le, w.in_budget⟩
    · rename_i h
      refine ⟨?_, w.in_budget⟩
      show p.toNat ≤ s.content.length
      omega

theorem seekEnd_wf {s : OStream} (w : WF s) : WF s.seekEnd := by
  unfold seekEnd
  split
  · exact w
  · exact ⟨Nat.le_refl _, w.in_budget⟩

theorem adjust_wf {s : OStream} (w : WF s) (off : Int) : WF (s.adjust off) := by
  rw [adjust_eq]
  split
  · exact seekp_wf (write_wf (seekEnd_wf w) _) _
  · exact seekp_wf (seekEnd_wf w) _

/-! ### the content never shrinks -/

theorem write_content_mono {s : OStream} (w : WF s) (bs : Bytes) :
    s.content.length ≤ (s.write bs).content.length := by
  cases hf : s.fail with
  | true => rw [write_of_fail hf]; exact Nat.le_refl _
  | false => rw [write_content_length hf w.pos_le]; omega

theorem adjust_content_mono {s : OStream} (w : WF s) (off : Int) :
    s.content.length ≤ (s.adjust off).content.length := by
  rw [adjust_eq]
  split
  · rw [seekp_content]
    have := write_content_mono (seekEnd_wf w) (List.replicate (off - s.seekEnd.tellp).toNat 0)
    rw [seekEnd_content] at this; exact this
  · rw [seekp_content, seekEnd_content]; exact Nat.le_refl _

/-! ### a budgeted stream follows the unlimited one until its first failure -/

/-- `b` (any budget) and `u` (unlimited): either `b` has failed, or neither has and they hold the
    same bytes at the same put position. -/
def Sim (b u : OStream) : Prop :=
  b.fail = true ∨ (b.fail = false ∧ u.fail = false ∧ b.content = u.content ∧ b.pos = u.pos)

theorem sim_write {b u : OStream} (hu : u.budget = none) (h : Sim b u) (bs : Bytes) :
    Sim (b.write bs) (u.write bs) := by
  rcases h with hf | ⟨hb, huf, hc, hp⟩
  · left; rw [write_of_fail hf]; exact hf
  · have hru : room u bs = bs.length := by unfold room; rw [hu]
    by_cases hr : room b bs < bs.length
    · left; rw [write_eq hb]; simpa using hr
    · have hrb : room b bs = bs.length := Nat.le_antisymm (room_le b bs) (Nat.le_of_not_lt hr)
      right
      rw [write_eq hb, write_eq huf, hrb, hru, hc, hp]
      simp

theorem sim_seekp {b u : OStream} (h : Sim b u) (p : Int) : Sim (b.seekp p) (u.seekp p) := by
  rcases h with hf | ⟨hb, huf, hc, hp⟩
  · left; rw [seekp_of_fail hf]; exact hf
  · unfold seekp
    simp only [hb, huf, Bool.false_eq_true, ↓reduceIte, hc]
    split
    · left; rfl
    · right; exact ⟨rfl, rfl, rfl, rfl⟩

theorem sim_seekEnd {b u : OStream} (h : Sim b u) : Sim b.seekEnd u.seekEnd := by
  rcases h with hf | ⟨hb, huf, hc, hp⟩
  · left; rw [seekEnd_of_fail hf]; exact hf
  · unfold seekEnd
    simp only [hb, huf, Bool.false_eq_true, ↓reduceIte, hc]
    right; exact ⟨rfl, rfl, rfl, rfl⟩

theorem sim_adjust {b u : OStream} (hu : u.budget = none) (h : Sim b u) (off : Int) :
    Sim (b.adjust off) (u.adjust off) := by
  rcases h with hf | ⟨hb, huf, hc, hp⟩
  · left; rw [adjust_of_fail hf]; exact hf
  · have h1 : Sim b.seekEnd u.seekEnd := sim_seekEnd (Or.inr ⟨hb, huf, hc, hp⟩)
    have ht : b.seekEnd.tellp = u.seekEnd.tellp := by
      simp [seekEnd, tellp, hb, huf, hc]
    have hub : u.seekEnd.budget = none := by rw [seekEnd_budget]; exact hu
    rw [adjust_eq, adjust_eq, ht]
    split
    · exact sim_seekp (sim_write hub h1 _) _
    · exact sim_seekp h1 _

/-! ### a budget that is large enough is not noticed -/

/-- the same stream with a byte budget -/
def withBudget (s : OStream) (k : Nat) : OStream := { s with budget := some k }

@[simp] theorem withBudget_content (s : OStream) (k : Nat) : (withBudget s k).content = s.content := rfl
@[simp] theorem withBudget_fail (s : OStream) (k : Nat) : (withBudget s k).fail = s.fail := rfl
@[simp] theorem withBudget_pos (s : OStream) (k : Nat) : (withBudget s k).pos = s.pos := rfl
@[simp] theorem withBudget_budget (s : OStream) (k : Nat) : (withBudget s k).budget = some k := rfl

theorem withBudget_wf {s : OStream} {k : Nat} (w : WF s) (h : s.content.length ≤ k) : WF (withBudget s k) :=
  ⟨w.pos_le, fun k' hk => by
    have : k = k' := by simpa using hk
    subst this; exact h⟩

theorem seekp_withBudget (s : OStream) (k : Nat) (p : Int) :
    (withBudget s k).seekp p = withBudget (s.seekp p) k := by
  unfold seekp
  cases hf : s.fail with
  | true => simp [hf]
  | false =>
    simp only [withBudget_fail, hf, Bool.false_eq_true, ↓reduceIte, withBudget_content]
    split <;> rfl

theorem seekEnd_withBudget (s : OStream) (k : Nat) :
    (withBudget s k).seekEnd = withBudget s.seekEnd k := by
  unfold seekEnd
  cases hf : s.fail with
  | true => simp [hf]
  | false =>
    simp only [withBudget_fail, hf, Bool.false_eq_true, ↓reduceIte, withBudget_content]
    rfl

theorem tellp_withBudget (s : OStream) (k : Nat) : (withBudget s k).tellp = s.tellp := rfl

theorem write_withBudget {s : OStream} {k : Nat} (hb : s.budget = none) (hp : s.pos ≤ s.content.length)
    (bs : Bytes) (hk : (s.write bs).content.length ≤ k) :
    (withBudget s k).write bs = withBudget (s.write bs) k := by
  cases hf : s.fail with
  | true => rw [write_of_fail hf, write_of_fail (by simpa using hf)]
  | false =>
    have hru : room s bs = bs.length := by unfold room; rw [hb]
    rw [write_content_length hf hp, hru] at hk
    have hrb : room (withBudget s k) bs = bs.length := by
      unfold room
      simp only [withBudget_budget, withBudget_pos]
      omega
    rw [write_eq hf, write_eq (by simpa using hf), hrb, hru]
    rfl

theorem adjust_withBudget {s : OStream} {k : Nat} (hb : s.budget = none) (w : WF s)
    (off : Int) (hk : (s.adjust off).content.length ≤ k) :
    (withBudget s k).adjust off = withBudget (s.adjust off) k := by
  rw [adjust_eq] at hk
  rw [adjust_eq, adjust_eq, seekEnd_withBudget, tellp_withBudget]
  split
  · rename_i hlt
    simp only [hlt, ↓reduceIte, seekp_content] at hk
    rw [write_withBudget (by simpa using hb) (seekEnd_wf w).pos_le _ hk, seekp_withBudget]
  · rw [seekp_withBudget]

end OStream
end ElfioVerif
