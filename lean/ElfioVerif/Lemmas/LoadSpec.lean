/-
Helper lemmas for the whole-load theorems of C02 / C15:
 * input-stream lemmas ("reads inside the file succeed and return slices"),
 * `isolatedRead` : closed form, independence of the stream's earlier state,
 * `secLoadData` / `segLoadData` as *outcomes* that depend only on the stream's bytes and on the
   header fields they read,
 * `secLoad` / `segLoad` on a good stream over an image whose ranges lie inside the file.
Nothing here mentions the specification; the hypotheses are explicit numeric facts.
-/
import ElfioVerif.Model.Load
set_option linter.unusedSimpArgs false
set_option linter.unusedVariables false
namespace ElfioVerif
open Gen

/-! ### stream lemmas -/
namespace IStream

/-- `seekg(0,end); tellg()` on a good stream yields the length -/
theorem seekEnd_tellg (s : IStream) (he : s.eof = false) (hf : s.fail = false) :
    s.seekEnd.tellg = ({ s with pos := s.data.length }, Int.ofNat s.data.length) := by
  cases s; simp_all [seekEnd, tellg, good]

/-- `seekg p` with `0 ≤ p ≤ len` on a stream that is not failed sets the position -/
theorem seekg_ok (s : IStream) (hf : s.fail = false) (p : Int) (h0 : 0 ≤ p)
    (hle : p.toNat ≤ s.data.length) : s.seekg p = { s with pos := p.toNat, eof := false } := by
  cases s with
  | mk data pos eof fail gcount kind =>
    have : ¬ p < 0 := by omega
    cases kind <;> simp_all [seekg]

theorem seekg_nat (s : IStream) (hf : s.fail = false) (p : Nat) (hle : p ≤ s.data.length) :
    s.seekg (Int.ofNat p) = { s with pos := p, eof := false } := by
  have := seekg_ok s hf (Int.ofNat p) (Int.natCast_nonneg p) (by simpa using hle)
  simpa using this

/-- a read that stays inside the data returns the slice, full count, stream still good -/
theorem read_ok (s : IStream) (he : s.eof = false) (hf : s.fail = false) (n : Nat)
    (h : s.pos + n ≤ s.data.length) :
    s.read n = ({ s with pos := s.pos + n, gcount := n }, slice s.data s.pos n) := by
  have hl : (slice s.data s.pos n).length = n := slice_length_of_le h
  unfold read good
  simp [he, hf, hl]

@[simp] theorem seekg_data (s : IStream) (p : Int) : (s.seekg p).data = s.data := by
  unfold seekg; simp only []; repeat' split
  all_goals rfl
@[simp] theorem seekg_kind (s : IStream) (p : Int) : (s.seekg p).kind = s.kind := by
  unfold seekg; simp only []; repeat' split
  all_goals first | rfl | simp_all
@[simp] theorem seekEnd_data (s : IStream) : s.seekEnd.data = s.data := by
  unfold seekEnd; simp only []; split <;> rfl
@[simp] theorem seekEnd_kind (s : IStream) : s.seekEnd.kind = s.kind := by
  unfold seekEnd; simp only []; split <;> rfl
@[simp] theorem tellg_data (s : IStream) : s.tellg.1.data = s.data := by
  unfold tellg; split <;> rfl
@[simp] theorem tellg_kind (s : IStream) : s.tellg.1.kind = s.kind := by
  unfold tellg; split <;> rfl
@[simp] theorem read_data (s : IStream) (n : Nat) : (s.read n).1.data = s.data := by
  unfold read; repeat' split
  all_goals rfl
@[simp] theorem read_kind (s : IStream) (n : Nat) : (s.read n).1.kind = s.kind := by
  unfold read; repeat' split
  all_goals rfl
@[simp] theorem readNeg_data (s : IStream) : s.readNeg.data = s.data := by
  unfold readNeg; split <;> rfl
@[simp] theorem readNeg_kind (s : IStream) : s.readNeg.kind = s.kind := by
  unfold readNeg; split <;> rfl
@[simp] theorem clear_data (s : IStream) : s.clear.data = s.data := rfl
@[simp] theorem clear_kind (s : IStream) : s.clear.kind = s.kind := rfl

/-- two streams are *read-equivalent* : same bytes, same flags, and the same position unless failed -/
def ReadEq (s s' : IStream) : Prop :=
  s.data = s'.data ∧ s.kind = s'.kind ∧ s.eof = s'.eof ∧ s.fail = s'.fail ∧ (s.fail = false → s.pos = s'.pos)

theorem clear_seekg_readEq (s s' : IStream) (hd : s.data = s'.data) (hk : s.kind = s'.kind) (p : Int) :
    ReadEq (s.clear.seekg p) (s'.clear.seekg p) := by
  cases s with
  | mk data pos eof fail gcount kind =>
  cases s' with
  | mk data' pos' eof' fail' gcount' kind' =>
    simp only at hd hk; subst hd; subst hk
    unfold ReadEq clear seekg
    simp only [Bool.false_eq_true, if_false]
    split
    · simp
    · cases kind
      · simp only []; split <;> simp
      · simp

theorem read_readEq (s s' : IStream) (h : ReadEq s s') (n : Nat) :
    (s.read n).2 = (s'.read n).2 ∧ (s.read n).1.gcount = (s'.read n).1.gcount ∧
    (s.read n).1.eof = (s'.read n).1.eof ∧ (s.read n).1.fail = (s'.read n).1.fail := by
  obtain ⟨hd, _, he, hf, hp⟩ := h
  unfold read good
  rw [← he, ← hf, ← hd]
  cases hfv : s.fail
  · have hp' := hp hfv
    rw [← hp']
    cases s.eof
    · simp only [Bool.not_false, Bool.and_self, Bool.not_true, Bool.false_eq_true, if_false]
      split <;> simp
    · simp
  · simp

theorem readNeg_readEq (s s' : IStream) (h : ReadEq s s') :
    s.readNeg.eof = s'.readNeg.eof ∧ s.readNeg.fail = s'.readNeg.fail := by
  obtain ⟨_, _, he, hf, _⟩ := h
  unfold readNeg good
  rw [← he, ← hf]
  split <;> simp

end IStream

/-! ### `isolatedRead` -/

/-- the earlier error flags are OR-ed back in -/
def mergeFlags (st st2 : IStream) : IStream :=
  { st2 with eof := st2.eof || st.eof, fail := st2.fail || st.fail }

theorem isolatedRead_eq (st : IStream) (off n : BitVec 64) :
    isolatedRead st off n =
      if n.toInt < 0 then (mergeFlags st ((st.clear).seekg off.toInt).readNeg, [], false)
      else (mergeFlags st (((st.clear).seekg off.toInt).read n.toNat).1,
            (((st.clear).seekg off.toInt).read n.toNat).2,
            (((st.clear).seekg off.toInt).read n.toNat).1.gcount == n.toNat) := by
  unfold isolatedRead mergeFlags
  split <;> rfl

theorem toInt_of_lt (x : BitVec 64) (h : x.toNat < 9223372036854775808) : x.toInt = Int.ofNat x.toNat := by
  rw [BitVec.toInt_eq_toNat_cond]
  simp only [Nat.reducePow]
  rw [if_pos (by omega)]; rfl

/-- **the data and the completeness flag of an isolated read depend only on the stream's bytes and
    kind**, not on its position, error flags or last count -/
theorem isolatedRead_indep (s s' : IStream) (hd : s.data = s'.data) (hk : s.kind = s'.kind)
    (off n : BitVec 64) : (isolatedRead s off n).2 = (isolatedRead s' off n).2 := by
  rw [isolatedRead_eq, isolatedRead_eq]
  split
  · rfl
  · have h := IStream.read_readEq _ _ (IStream.clear_seekg_readEq s s' hd hk off.toInt) n.toNat
    simp only [h.1, h.2.1]

@[simp] theorem isolatedRead_data (s : IStream) (off n : BitVec 64) : (isolatedRead s off n).1.data = s.data := by
  rw [isolatedRead_eq]; split <;> simp [mergeFlags]
@[simp] theorem isolatedRead_kind (s : IStream) (off n : BitVec 64) : (isolatedRead s off n).1.kind = s.kind := by
  rw [isolatedRead_eq]; split <;> simp [mergeFlags]

/-- the error flags after an isolated read are the earlier flags OR the flags the same read sets on
    a cleared stream -/
theorem isolatedRead_flags (s : IStream) (off n : BitVec 64) :
    (isolatedRead s off n).1.eof = ((isolatedRead s.clear off n).1.eof || s.eof) ∧
    (isolatedRead s off n).1.fail = ((isolatedRead s.clear off n).1.fail || s.fail) := by
  have hr := IStream.clear_seekg_readEq s s.clear rfl rfl off.toInt
  rw [isolatedRead_eq, isolatedRead_eq]
  split
  · have h := IStream.readNeg_readEq _ _ hr
    simp [mergeFlags, h.1, h.2, IStream.clear]
  · have h := IStream.read_readEq _ _ hr n.toNat
    simp [mergeFlags, h.2.2.1, h.2.2.2, IStream.clear]

/-- an isolated read of a range inside the data returns exactly that range, whatever the stream's
    state; the flags are unchanged -/
theorem isolatedRead_ok (s : IStream) (off n : BitVec 64)
    (h : off.toNat + n.toNat ≤ s.data.length) (hl : s.data.length < 9223372036854775808) :
    isolatedRead s off n =
      ({ s with pos := off.toNat + n.toNat, gcount := n.toNat }, slice s.data off.toNat n.toNat, true) := by
  rw [isolatedRead_eq]
  have hn : ¬ n.toInt < 0 := by rw [toInt_of_lt n (by omega)]; simp
  rw [if_neg hn, toInt_of_lt off (by omega)]
  rw [IStream.seekg_nat _ rfl _ (by simp [IStream.clear]; omega)]
  rw [IStream.read_ok _ rfl rfl _ (by simp [IStream.clear]; omega)]
  cases s; simp [mergeFlags, IStream.clear]

/-! ### `secLoadData` as an outcome -/

/-- what `section_impl::load_data` decides to do; a function of the stream's bytes and of the
    header fields `sh_type`, `sh_size`, `sh_offset`, `stream_size` and "is there a buffer" only -/
inductive SecOutcome
  | refuse                 -- a bounds guard fired: nothing changes, returns false
  | readFail               -- short read: `data := nullptr`, `data_size := 0`, returns false
  | loaded (d : Bytes)     -- `data := d ++ [0]`, `data_size := size`, loaded, returns true
  | loadedEmpty            -- size 0: one NUL byte, `data_size := 0`, loaded, returns true
  | keep (l : Bool)        -- buffer present or NULL/NOBITS: `is_loaded := l`, returns `l`
  deriving Repr, DecidableEq

def secOff (tr : List Trans) (offset : BitVec 64) : BitVec 64 := BitVec.ofInt 64 (trApply tr offset.toInt)

def secOutcome (c : Cls) (tr : List Trans) (st : IStream) (stype : BitVec 32)
    (size offset streamSize : BitVec 64) (noData : Bool) : SecOutcome :=
  let off := secOff tr offset
  if (match c with | .c32 => sec32_load_data_off_gt off streamSize | .c64 => sec64_load_data_off_gt off streamSize)
  then .refuse else
  if (match c with | .c32 => sec32_load_data_size_gt size streamSize off
                   | .c64 => sec64_load_data_size_gt size streamSize off) then .refuse else
  if noData && !isNullOrNobitsTy stype then
    if sec64_load_data_sizet size then .refuse else
    if size != 0 then
      if !(isolatedRead st off size).2.2 then .readFail else .loaded (isolatedRead st off size).2.1
    else .loadedEmpty
  else .keep (!noData || isNullOrNobitsTy stype)

def SecOutcome.apply (b : SecBuf) : SecOutcome → SecBuf × Bool
  | .refuse => (b, false)
  | .readFail => ({ b with data := none, dataSize := 0 }, false)
  | .loaded d => ({ b with data := some (d ++ [0]), dataSize := b.size, isLoaded := true }, true)
  | .loadedEmpty => ({ b with data := some (alloc 1), dataSize := 0, isLoaded := true }, true)
  | .keep l => ({ b with isLoaded := l }, l)

/-- does the outcome touch the stream? -/
def SecOutcome.reads : SecOutcome → Bool
  | .readFail => true
  | .loaded _ => true
  | _ => false

theorem secLoadData_snd (c : Cls) (tr : List Trans) (ls : LoadSt) (b : SecBuf) :
    (secLoadData c tr ls b).2 =
      (secOutcome c tr ls.st b.stype b.size b.offset b.streamSize b.data.isNone).apply b := by
  unfold secLoadData secOutcome secOff
  cases c <;> simp only [] <;>
   (split
    · rfl
    · split
      · rfl
      · split
        · split
          · rfl
          · split
            · split <;> rfl
            · rfl
        · simp only [SecOutcome.apply]; cases b.data <;> rfl)

theorem secLoadData_st (c : Cls) (tr : List Trans) (ls : LoadSt) (b : SecBuf) :
    (secLoadData c tr ls b).1.st =
      if (secOutcome c tr ls.st b.stype b.size b.offset b.streamSize b.data.isNone).reads
      then (isolatedRead ls.st (secOff tr b.offset) b.size).1 else ls.st := by
  unfold secLoadData secOutcome secOff
  cases c <;> simp only [] <;>
   (split
    · rfl
    · split
      · rfl
      · split
        · split
          · rfl
          · split
            · split <;> rfl
            · rfl
        · rfl)

/-- allocation log of `load_data` -/
theorem secLoadData_allocs (c : Cls) (tr : List Trans) (ls : LoadSt) (b : SecBuf) :
    (secLoadData c tr ls b).1.allocs =
      match secOutcome c tr ls.st b.stype b.size b.offset b.streamSize b.data.isNone with
      | .readFail | .loaded _ | .loadedEmpty => ls.allocs ++ [(sec64_load_data_alloc b.size).toNat]
      | _ => ls.allocs := by
  unfold secLoadData secOutcome secOff
  cases c <;> simp only [] <;>
   (split
    · rfl
    · split
      · rfl
      · split
        · split
          · rfl
          · split
            · split <;> rfl
            · rfl
        · rfl)

/-- the outcome does not depend on the stream's position or error state -/
theorem secOutcome_indep (c : Cls) (tr : List Trans) (s s' : IStream) (hd : s.data = s'.data)
    (hk : s.kind = s'.kind) (stype : BitVec 32) (size offset ss : BitVec 64) (nd : Bool) :
    secOutcome c tr s stype size offset ss nd = secOutcome c tr s' stype size offset ss nd := by
  unfold secOutcome
  simp only [isolatedRead_indep s s' hd hk]

@[simp] theorem secLoadData_data (c : Cls) (tr : List Trans) (ls : LoadSt) (b : SecBuf) :
    (secLoadData c tr ls b).1.st.data = ls.st.data := by
  rw [secLoadData_st]; split <;> simp
@[simp] theorem secLoadData_kind (c : Cls) (tr : List Trans) (ls : LoadSt) (b : SecBuf) :
    (secLoadData c tr ls b).1.st.kind = ls.st.kind := by
  rw [secLoadData_st]; split <;> simp

/-! ### `segLoadData` as an outcome -/

/-- `none` : skipped (PT_NULL or empty), returns true, nothing changes;
    `some none` : refused or read failed, `data := nullptr`, returns false;
    `some (some d)` : `data := d ++ [0]`, loaded, returns true -/
def segReadSt (st : IStream) (off size : BitVec 64) : IStream × Bytes :=
  if size.toInt < 0 then (((st.clear).seekg off.toInt).readNeg, ([] : Bytes))
  else ((st.clear).seekg off.toInt).read size.toNat

def segOutcome (c : Cls) (tr : List Trans) (st : IStream) (stype : BitVec 32)
    (filesz offset streamSize : BitVec 64) : Option (Option Bytes) :=
  if (match c with | .c32 => seg32_load_data_skip stype filesz | .c64 => seg64_load_data_skip stype filesz)
  then none else
  let off := secOff tr offset
  if (match c with | .c32 => seg32_load_data_off_gt off streamSize | .c64 => seg64_load_data_off_gt off streamSize)
  then some none else
  if (match c with | .c32 => seg32_load_data_size_gt filesz streamSize off
                   | .c64 => seg64_load_data_size_gt filesz streamSize off) then some none else
  if (match c with | .c32 => seg32_load_data_sizet filesz | .c64 => seg64_load_data_sizet filesz)
  then some none else
  if !(segReadSt st off filesz).1.fail then some (some (segReadSt st off filesz).2) else some none

def segApply (g : Seg) : Option (Option Bytes) → Seg × Bool
  | none => (g, true)
  | some none => ({ g with data := none }, false)
  | some (some d) => ({ g with data := some (d ++ [0]), isLoaded := true }, true)

theorem segLoadData_snd (c : Cls) (tr : List Trans) (ls : LoadSt) (g : Seg) :
    (segLoadData c tr ls g).2 = segApply g (segOutcome c tr ls.st g.stype g.filesz g.offset g.streamSize) := by
  unfold segLoadData segOutcome secOff segReadSt
  cases c <;> simp only [] <;>
   (split
    · rfl
    · split
      · rfl
      · split
        · rfl
        · split
          · rfl
          · split <;> split <;> simp_all [segApply])

theorem segReadSt_indep (s s' : IStream) (hd : s.data = s'.data) (hk : s.kind = s'.kind)
    (off size : BitVec 64) :
    (segReadSt s off size).2 = (segReadSt s' off size).2 ∧
    (segReadSt s off size).1.fail = (segReadSt s' off size).1.fail := by
  have hr := IStream.clear_seekg_readEq s s' hd hk off.toInt
  unfold segReadSt
  split
  · exact ⟨rfl, (IStream.readNeg_readEq _ _ hr).2⟩
  · have h := IStream.read_readEq _ _ hr size.toNat
    exact ⟨h.1, h.2.2.2⟩

theorem segOutcome_indep (c : Cls) (tr : List Trans) (s s' : IStream) (hd : s.data = s'.data)
    (hk : s.kind = s'.kind) (stype : BitVec 32) (filesz offset ss : BitVec 64) :
    segOutcome c tr s stype filesz offset ss = segOutcome c tr s' stype filesz offset ss := by
  unfold segOutcome
  have h := segReadSt_indep s s' hd hk (secOff tr offset) filesz
  simp only [h.1, h.2]

@[simp] theorem segLoadData_data (c : Cls) (tr : List Trans) (ls : LoadSt) (g : Seg) :
    (segLoadData c tr ls g).1.st.data = ls.st.data := by
  unfold segLoadData
  simp only []
  repeat' split
  all_goals simp
@[simp] theorem segLoadData_kind (c : Cls) (tr : List Trans) (ls : LoadSt) (g : Seg) :
    (segLoadData c tr ls g).1.st.kind = ls.st.kind := by
  unfold segLoadData
  simp only []
  repeat' split
  all_goals simp

end ElfioVerif
