/-
Helper lemmas for the whole-load theorems of C02 / C15:
 * input-stream lemmas ("reads inside the file succeed and return slices"),
 * `isolatedRead` : closed form, independence of the stream's earlier state,
 * `secLoadData` / `segLoadData` as *outcomes* that depend only on the stream's bytes and on the
   header fields they read,
 * `secLoad` / `segLoad` on a good stream over an image whose ranges lie inside the file.
Nothing here mentions the specification; the hypotheses are explicit numeric facts.
-/
import ElfioVerif.Model.Load
import ElfioVerif.Lemmas.LoadTie
import ElfioVerif.Spec.Records
set_option linter.unusedSimpArgs false
set_option linter.unusedVariables false
namespace ElfioVerif
open Gen

/-! ### stream lemmas -/
namespace IStream

/-- `seekg(0,end); tellg()` on a good stream yields the length -/
theorem seekEnd_tellg (s : IStream) (he : s.eof = false) (hf : s.fail = false) :
    s.seekEnd.tellg = ({ s with pos := s.data.length }, Int.ofNat s.data.length) := by
  cases s; simp_all [seekEnd, tellg, good]

/-- `seekg p` with `0 ≤ p ≤ len` on a stream that is not failed sets the position -/
theorem seekg_ok_ls (s : IStream) (hf : s.fail = false) (p : Int) (h0 : 0 ≤ p)
    (hle : p.toNat ≤ s.data.length) : s.seekg p = { s with pos := p.toNat, eof := false } := by
  cases s with
  | mk data pos eof fail gcount kind =>
    have : ¬ p < 0 := by omega
    cases kind <;> simp_all [seekg]

theorem seekg_nat (s : IStream) (hf : s.fail = false) (p : Nat) (hle : p ≤ s.data.length) :
    s.seekg (Int.ofNat p) = { s with pos := p, eof := false } := by
  have := seekg_ok_ls s hf (Int.ofNat p) (Int.natCast_nonneg p) (by simpa using hle)
  simpa using this

/-- a read that stays inside the data returns the slice, full count, stream still good -/
theorem read_ok_ls (s : IStream) (he : s.eof = false) (hf : s.fail = false) (n : Nat)
    (h : s.pos + n ≤ s.data.length) :
    s.read n = ({ s with pos := s.pos + n, gcount := n }, slice s.data s.pos n) := by
  have hl : (slice s.data s.pos n).length = n := slice_length_of_le h
  unfold read good
  simp [he, hf, hl]

@[simp] theorem seekg_data_ls (s : IStream) (p : Int) : (s.seekg p).data = s.data := by
  unfold seekg; simp only []; repeat' split
  all_goals rfl
@[simp] theorem seekg_kind_ls (s : IStream) (p : Int) : (s.seekg p).kind = s.kind := by
  unfold seekg; simp only []; repeat' split
  all_goals first | rfl | simp_all
@[simp] theorem seekEnd_data_ls (s : IStream) : s.seekEnd.data = s.data := by
  unfold seekEnd; simp only []; split <;> rfl
@[simp] theorem seekEnd_kind_ls (s : IStream) : s.seekEnd.kind = s.kind := by
  unfold seekEnd; simp only []; split <;> rfl
@[simp] theorem tellg_data_ls (s : IStream) : s.tellg.1.data = s.data := by
  unfold tellg; split <;> rfl
@[simp] theorem tellg_kind_ls (s : IStream) : s.tellg.1.kind = s.kind := by
  unfold tellg; split <;> rfl
@[simp] theorem read_data_ls (s : IStream) (n : Nat) : (s.read n).1.data = s.data := by
  unfold read; repeat' split
  all_goals rfl
@[simp] theorem read_kind_ls (s : IStream) (n : Nat) : (s.read n).1.kind = s.kind := by
  unfold read; repeat' split
  all_goals rfl
@[simp] theorem readNeg_data_ls (s : IStream) : s.readNeg.data = s.data := by
  unfold readNeg; split <;> rfl
@[simp] theorem readNeg_kind_ls (s : IStream) : s.readNeg.kind = s.kind := by
  unfold readNeg; split <;> rfl
@[simp] theorem clear_data_ls (s : IStream) : s.clear.data = s.data := rfl
@[simp] theorem clear_kind_ls (s : IStream) : s.clear.kind = s.kind := rfl

/-- two streams are *read-equivalent* : same bytes, same flags, and the same position unless failed -/
def ReadEq (s s' : IStream) : Prop :=
  s.data = s'.data ∧ s.kind = s'.kind ∧ s.eof = s'.eof ∧ s.fail = s'.fail ∧ (s.fail = false → s.pos = s'.pos)

theorem clear_seekg_readEq (s s' : IStream) (hd : s.data = s'.data) (hk : s.kind = s'.kind) (p : Int) :
    ReadEq (s.clear.seekg p) (s'.clear.seekg p) := by
  cases s with
  | mk data pos eof fail gcount kind =>
  cases s' with
  | mk data' pos' eof' fail' gcount' kind' =>
    simp only at hd hk; subst hd; subst hk
    unfold ReadEq clear seekg
    simp only [Bool.false_eq_true, if_false]
    split
    · simp
    · cases kind
      · simp only []; split <;> simp
      · simp

theorem read_readEq (s s' : IStream) (h : ReadEq s s') (n : Nat) :
    (s.read n).2 = (s'.read n).2 ∧ (s.read n).1.gcount = (s'.read n).1.gcount ∧
    (s.read n).1.eof = (s'.read n).1.eof ∧ (s.read n).1.fail = (s'.read n).1.fail := by
  obtain ⟨hd, _, he, hf, hp⟩ := h
  unfold read good
  rw [← he, ← hf, ← hd]
  cases hfv : s.fail
  · have hp' := hp hfv
    rw [← hp']
    cases s.eof
    · simp only [Bool.not_false, Bool.and_self, Bool.not_true, Bool.false_eq_true, if_false]
      split <;> simp
    · simp
  · simp

theorem readNeg_readEq (s s' : IStream) (h : ReadEq s s') :
    s.readNeg.eof = s'.readNeg.eof ∧ s.readNeg.fail = s'.readNeg.fail := by
  obtain ⟨_, _, he, hf, _⟩ := h
  unfold readNeg good
  rw [← he, ← hf]
  split <;> simp

end IStream

/-! ### `isolatedRead` -/

/-- the earlier error flags are OR-ed back in -/
def mergeFlags_ls (st st2 : IStream) : IStream :=
  { st2 with eof := st2.eof || st.eof, fail := st2.fail || st.fail }

theorem isolatedRead_eq (st : IStream) (off n : BitVec 64) :
    isolatedRead st off n =
      if n.toInt < 0 then (mergeFlags_ls st ((st.clear).seekg off.toInt).readNeg, [], false)
      else (mergeFlags_ls st (((st.clear).seekg off.toInt).read n.toNat).1,
            (((st.clear).seekg off.toInt).read n.toNat).2,
            (((st.clear).seekg off.toInt).read n.toNat).1.gcount == n.toNat) := by
  rw [LoadTie.isolatedRead_hand]; unfold mergeFlags_ls
  split <;> rfl

theorem toInt_of_lt (x : BitVec 64) (h : x.toNat < 9223372036854775808) : x.toInt = Int.ofNat x.toNat := by
  rw [BitVec.toInt_eq_toNat_cond]
  simp only [Nat.reducePow]
  rw [if_pos (by omega)]; rfl

/-- **the data and the completeness flag of an isolated read depend only on the stream's bytes and
    kind**, not on its position, error flags or last count -/
theorem isolatedRead_indep (s s' : IStream) (hd : s.data = s'.data) (hk : s.kind = s'.kind)
    (off n : BitVec 64) : (isolatedRead s off n).2 = (isolatedRead s' off n).2 := by
  rw [isolatedRead_eq, isolatedRead_eq]
  split
  · rfl
  · have h := IStream.read_readEq _ _ (IStream.clear_seekg_readEq s s' hd hk off.toInt) n.toNat
    simp only [h.1, h.2.1]

@[simp] theorem isolatedRead_data_ls (s : IStream) (off n : BitVec 64) : (isolatedRead s off n).1.data = s.data := by
  rw [isolatedRead_eq]; split <;> simp [mergeFlags_ls]
@[simp] theorem isolatedRead_kind_ls (s : IStream) (off n : BitVec 64) : (isolatedRead s off n).1.kind = s.kind := by
  rw [isolatedRead_eq]; split <;> simp [mergeFlags_ls]

/-- the error flags after an isolated read are the earlier flags OR the flags the same read sets on
    a cleared stream -/
theorem isolatedRead_flags (s : IStream) (off n : BitVec 64) :
    (isolatedRead s off n).1.eof = ((isolatedRead s.clear off n).1.eof || s.eof) ∧
    (isolatedRead s off n).1.fail = ((isolatedRead s.clear off n).1.fail || s.fail) := by
  have hr := IStream.clear_seekg_readEq s s.clear rfl rfl off.toInt
  rw [isolatedRead_eq, isolatedRead_eq]
  split
  · have h := IStream.readNeg_readEq _ _ hr
    simp [mergeFlags_ls, h.1, h.2, IStream.clear]
  · have h := IStream.read_readEq _ _ hr n.toNat
    simp [mergeFlags_ls, h.2.2.1, h.2.2.2, IStream.clear]

/-- an isolated read of a range inside the data returns exactly that range, whatever the stream's
    state; the flags are unchanged -/
theorem isolatedRead_ok (s : IStream) (off n : BitVec 64)
    (h : off.toNat + n.toNat ≤ s.data.length) (hl : s.data.length < 9223372036854775808) :
    isolatedRead s off n =
      ({ s with pos := off.toNat + n.toNat, gcount := n.toNat }, slice s.data off.toNat n.toNat, true) := by
  rw [isolatedRead_eq]
  have hn : ¬ n.toInt < 0 := by rw [toInt_of_lt n (by omega)]; simp
  rw [if_neg hn, toInt_of_lt off (by omega)]
  rw [IStream.seekg_nat _ rfl _ (by simp [IStream.clear]; omega)]
  rw [IStream.read_ok_ls _ rfl rfl _ (by simp [IStream.clear]; omega)]
  cases s; simp [mergeFlags_ls, IStream.clear]

/-! ### `secLoadData` as an outcome -/

/-- what `section_impl::load_data` decides to do; a function of the stream's bytes and of the
    header fields `sh_type`, `sh_size`, `sh_offset`, `stream_size` and "is there a buffer" only -/
inductive SecOutcome
  | refuse                 -- a bounds guard fired: nothing changes, returns false
  | readFail               -- short read: `data := nullptr`, `data_size := 0`, returns false
  | loaded (d : Bytes)     -- `data := d ++ [0]`, `data_size := size`, loaded, returns true
  | loadedEmpty            -- size 0: one NUL byte, `data_size := 0`, loaded, returns true
  | keep (l : Bool)        -- buffer present or NULL/NOBITS: `is_loaded := l`, returns `l`
  deriving Repr, DecidableEq

def secOff (tr : List Trans) (offset : BitVec 64) : BitVec 64 := BitVec.ofInt 64 (trApply tr offset.toInt)

def secOutcome (c : Cls) (tr : List Trans) (st : IStream) (stype : BitVec 32)
    (size offset streamSize : BitVec 64) (noData : Bool) : SecOutcome :=
  let off := secOff tr offset
  if (match c with | .c32 => sec32_load_data_off_gt off streamSize | .c64 => sec64_load_data_off_gt off streamSize)
  then .refuse else
  if (match c with | .c32 => sec32_load_data_size_gt size streamSize off
                   | .c64 => sec64_load_data_size_gt size streamSize off) then .refuse else
  if noData && !isNullOrNobitsTy stype then
    if sec64_load_data_sizet size then .refuse else
    if size != 0 then
      if !(isolatedRead st off size).2.2 then .readFail else .loaded (isolatedRead st off size).2.1
    else .loadedEmpty
  else .keep (!noData || isNullOrNobitsTy stype)

def SecOutcome.apply (b : SecBuf) : SecOutcome → SecBuf × Bool
  | .refuse => (b, false)
  | .readFail => ({ b with data := none, dataSize := 0 }, false)
  | .loaded d => ({ b with data := some (d ++ [0]), dataSize := b.size, isLoaded := true }, true)
  | .loadedEmpty => ({ b with data := some (alloc 1), dataSize := 0, isLoaded := true }, true)
  | .keep l => ({ b with isLoaded := l }, l)

/-- does the outcome touch the stream? -/
def SecOutcome.reads : SecOutcome → Bool
  | .readFail => true
  | .loaded _ => true
  | _ => false

theorem secLoadData_snd (c : Cls) (tr : List Trans) (ls : LoadSt) (b : SecBuf) :
    (secLoadData c tr ls b).2 =
      (secOutcome c tr ls.st b.stype b.size b.offset b.streamSize b.data.isNone).apply b := by
  rw [LoadTie.secLoadData_hand]; unfold secOutcome secOff
  cases c <;> simp only [] <;>
   (split
    · rfl
    · split
      · rfl
      · split
        · split
          · rfl
          · split
            · split <;> rfl
            · rfl
        · simp only [SecOutcome.apply]; cases b.data <;> rfl)

theorem secLoadData_st (c : Cls) (tr : List Trans) (ls : LoadSt) (b : SecBuf) :
    (secLoadData c tr ls b).1.st =
      if (secOutcome c tr ls.st b.stype b.size b.offset b.streamSize b.data.isNone).reads
      then (isolatedRead ls.st (secOff tr b.offset) b.size).1 else ls.st := by
  rw [LoadTie.secLoadData_hand]; unfold secOutcome secOff
  cases c <;> simp only [] <;>
   (split
    · rfl
    · split
      · rfl
      · split
        · split
          · rfl
          · split
            · split <;> rfl
            · rfl
        · rfl)

/-- allocation log of `load_data` -/
theorem secLoadData_allocs (c : Cls) (tr : List Trans) (ls : LoadSt) (b : SecBuf) :
    (secLoadData c tr ls b).1.allocs =
      match secOutcome c tr ls.st b.stype b.size b.offset b.streamSize b.data.isNone with
      | .readFail | .loaded _ | .loadedEmpty => ls.allocs ++ [(sec64_load_data_alloc b.size).toNat]
      | _ => ls.allocs := by
  rw [LoadTie.secLoadData_hand]; unfold secOutcome secOff
  cases c <;> simp only [] <;>
   (split
    · rfl
    · split
      · rfl
      · split
        · split
          · rfl
          · split
            · split <;> rfl
            · rfl
        · rfl)

/-- the outcome does not depend on the stream's position or error state -/
theorem secOutcome_indep (c : Cls) (tr : List Trans) (s s' : IStream) (hd : s.data = s'.data)
    (hk : s.kind = s'.kind) (stype : BitVec 32) (size offset ss : BitVec 64) (nd : Bool) :
    secOutcome c tr s stype size offset ss nd = secOutcome c tr s' stype size offset ss nd := by
  unfold secOutcome
  simp only [isolatedRead_indep s s' hd hk]

@[simp] theorem secLoadData_data (c : Cls) (tr : List Trans) (ls : LoadSt) (b : SecBuf) :
    (secLoadData c tr ls b).1.st.data = ls.st.data := by
  rw [secLoadData_st]; split <;> simp
@[simp] theorem secLoadData_kind (c : Cls) (tr : List Trans) (ls : LoadSt) (b : SecBuf) :
    (secLoadData c tr ls b).1.st.kind = ls.st.kind := by
  rw [secLoadData_st]; split <;> simp

/-! ### `segLoadData` as an outcome -/

/-- `none` : skipped (PT_NULL or empty), returns true, nothing changes;
    `some none` : refused or read failed, `data := nullptr`, returns false;
    `some (some d)` : `data := d ++ [0]`, loaded, returns true -/
def segReadSt (st : IStream) (off size : BitVec 64) : IStream × Bytes :=
  if size.toInt < 0 then (((st.clear).seekg off.toInt).readNeg, ([] : Bytes))
  else ((st.clear).seekg off.toInt).read size.toNat

def segOutcome (c : Cls) (tr : List Trans) (st : IStream) (stype : BitVec 32)
    (filesz offset streamSize : BitVec 64) : Option (Option Bytes) :=
  if (match c with | .c32 => seg32_load_data_skip stype filesz | .c64 => seg64_load_data_skip stype filesz)
  then none else
  let off := secOff tr offset
  if (match c with | .c32 => seg32_range_off_gt off streamSize | .c64 => seg64_range_off_gt off streamSize)
  then some none else
  if (match c with | .c32 => seg32_range_size_gt filesz streamSize off
                   | .c64 => seg64_range_size_gt filesz streamSize off) then some none else
  if (match c with | .c32 => seg32_range_sizet filesz | .c64 => seg64_range_sizet filesz)
  then some none else
  if !(segReadSt st off filesz).1.fail then some (some (segReadSt st off filesz).2) else some none

def segApply (g : Seg) : Option (Option Bytes) → Seg × Bool
  | none => (g, true)
  | some none => ({ g with data := none }, false)
  | some (some d) => ({ g with data := some (d ++ [0]), isLoaded := true }, true)

theorem segLoadData_snd (c : Cls) (tr : List Trans) (ls : LoadSt) (g : Seg) :
    (segLoadData c tr ls g).2 = segApply g (segOutcome c tr ls.st g.stype g.filesz g.offset g.streamSize) := by
  rw [LoadTie.segLoadData_flat]
  unfold segOutcome secOff segReadSt
  cases c <;> simp only [LoadTie.segDataOk_val, LoadTie.segSeekTo_val, LoadTie.segReadN_val] <;>
   (split
    · rfl
    · split
      · rfl
      · split
        · rfl
        · split
          · rfl
          · (repeat' split) <;> simp_all [segApply])

theorem segReadSt_indep (s s' : IStream) (hd : s.data = s'.data) (hk : s.kind = s'.kind)
    (off size : BitVec 64) :
    (segReadSt s off size).2 = (segReadSt s' off size).2 ∧
    (segReadSt s off size).1.fail = (segReadSt s' off size).1.fail := by
  have hr := IStream.clear_seekg_readEq s s' hd hk off.toInt
  unfold segReadSt
  split
  · exact ⟨rfl, (IStream.readNeg_readEq _ _ hr).2⟩
  · have h := IStream.read_readEq _ _ hr size.toNat
    exact ⟨h.1, h.2.2.2⟩

theorem segOutcome_indep (c : Cls) (tr : List Trans) (s s' : IStream) (hd : s.data = s'.data)
    (hk : s.kind = s'.kind) (stype : BitVec 32) (filesz offset ss : BitVec 64) :
    segOutcome c tr s stype filesz offset ss = segOutcome c tr s' stype filesz offset ss := by
  unfold segOutcome
  have h := segReadSt_indep s s' hd hk (secOff tr offset) filesz
  simp only [h.1, h.2]

@[simp] theorem segLoadData_data (c : Cls) (tr : List Trans) (ls : LoadSt) (g : Seg) :
    (segLoadData c tr ls g).1.st.data = ls.st.data := by
  rw [LoadTie.segLoadData_flat]
  simp only []
  repeat' split
  all_goals simp
@[simp] theorem segLoadData_kind (c : Cls) (tr : List Trans) (ls : LoadSt) (g : Seg) :
    (segLoadData c tr ls g).1.st.kind = ls.st.kind := by
  rw [LoadTie.segLoadData_flat]
  simp only []
  repeat' split
  all_goals simp

/-! ### `secLoad` / `segLoad` : closed forms -/

/-- size probe, seek to the record, read it : (stream, bytes stored, stream_size) -/
def hdrRead_ls (tr : List Trans) (st : IStream) (hdrOff : Int) (n : Nat) : IStream × Bytes × BitVec 64 :=
  (((streamSizeOf tr st).1.seekg (trApply tr hdrOff)).read n |>.1,
   ((streamSizeOf tr st).1.seekg (trApply tr hdrOff)).read n |>.2,
   (streamSizeOf tr st).2)

/-- the section object before its header is read -/
def secInit (c : Cls) (ss : BitVec 64) (trEmpty isLazy : Bool) (idx : Nat) : SecBuf :=
  { cls := c, stype := 0, size := 0, data := none, dataSize := 0, streamSize := ss,
    translatorEmpty := trEmpty, isLazy := isLazy, index := idx }

@[simp] theorem decodeShdr_isLoaded_ls (c enc r b) : (decodeShdr c enc r b).isLoaded = b.isLoaded := by
  cases c <;> rfl
@[simp] theorem decodeShdr_canLoad_ls (c enc r b) : (decodeShdr c enc r b).canLoad = b.canLoad := by
  cases c <;> rfl
@[simp] theorem decodeShdr_data_ls (c enc r b) : (decodeShdr c enc r b).data = b.data := by
  cases c <;> rfl
@[simp] theorem decodeShdr_dataSize_ls (c enc r b) : (decodeShdr c enc r b).dataSize = b.dataSize := by
  cases c <;> rfl
@[simp] theorem decodeShdr_streamSize_ls (c enc r b) : (decodeShdr c enc r b).streamSize = b.streamSize := by
  cases c <;> rfl
@[simp] theorem decodeShdr_isLazy_ls (c enc r b) : (decodeShdr c enc r b).isLazy = b.isLazy := by
  cases c <;> rfl
@[simp] theorem decodeShdr_index_ls (c enc r b) : (decodeShdr c enc r b).index = b.index := by
  cases c <;> rfl
@[simp] theorem decodeShdr_name (c enc r b) : (decodeShdr c enc r b).name = b.name := by
  cases c <;> rfl
@[simp] theorem decodeShdr_cls_ls (c enc r b) : (decodeShdr c enc r b).cls = b.cls := by
  cases c <;> rfl

theorem secGetData_eq_ls (c : Cls) (tr : List Trans) (ls : LoadSt) (b : SecBuf) :
    secGetData c tr ls b =
      if !b.isLoaded && b.canLoad then
        ((secLoadData c tr ls b).1,
         if (secLoadData c tr ls b).2.2 then (secLoadData c tr ls b).2.1
         else { (secLoadData c tr ls b).2.1 with canLoad := false })
      else (ls, b) := by
  unfold secGetData; split <;> rfl

theorem secLoad_eq_ls (c : Cls) (enc : Enc) (tr : List Trans) (ls : LoadSt) (hdrOff : Int)
    (isLazy : Bool) (idx : Nat) :
    secLoad c enc tr ls hdrOff isLazy idx =
      let h := hdrRead_ls tr ls.st hdrOff (shdrSize c)
      let b0 := secInit c h.2.2 tr.isEmpty isLazy idx
      let ls1 : LoadSt := { ls with st := h.1 }
      if h.1.gcount != shdrSize c then (ls1, { b0 with addrSet := true })
      else
        let b := { decodeShdr c enc h.2.1 b0 with fileData := fileDataOf c tr h.1 (decodeShdr c enc h.2.1 b0) }
        if isLazy then (ls1, { b with addrSet := true })
        else ((secGetData c tr ls1 b).1, { (secGetData c tr ls1 b).2 with addrSet := true }) := by
  -- the two conditions of `section_impl::load` are the generated ones (Gen/SitesLoad.lean)
  rw [LoadTie.secLoad_hand]
  unfold hdrRead_ls secInit sec64_load_eager
  simp only [decodeShdr_isLoaded_ls]
  split
  · rfl
  · cases isLazy <;> rfl

@[simp] theorem decodePhdr_isLoaded_ls (c enc r g) : (decodePhdr c enc r g).isLoaded = g.isLoaded := by
  cases c <;> rfl
@[simp] theorem decodePhdr_streamSize_ls (c enc r g) : (decodePhdr c enc r g).streamSize = g.streamSize := by
  cases c <;> rfl
@[simp] theorem decodePhdr_data_ls (c enc r g) : (decodePhdr c enc r g).data = g.data := by
  cases c <;> rfl
@[simp] theorem decodePhdr_isLazy_ls (c enc r g) : (decodePhdr c enc r g).isLazy = g.isLazy := by
  cases c <;> rfl
@[simp] theorem decodePhdr_secs (c enc r g) : (decodePhdr c enc r g).secs = g.secs := by
  cases c <;> rfl
@[simp] theorem decodePhdr_index (c enc r g) : (decodePhdr c enc r g).index = g.index := by
  cases c <;> rfl

/-- the segment object before its header is read -/
def segInit_ls (ss : BitVec 64) (isLazy : Bool) : Seg := { streamSize := ss, isLazy := isLazy, offsetSet := true }

theorem segLoad_eq_ls (c : Cls) (enc : Enc) (tr : List Trans) (ls : LoadSt) (hdrOff : Int) (isLazy : Bool) :
    segLoad c enc tr ls hdrOff isLazy =
      let h := hdrRead_ls tr ls.st hdrOff (phdrSize c)
      let g := decodePhdr c enc (wr (List.replicate (phdrSize c) 0) 0 h.2.1) (segInit_ls h.2.2 isLazy)
      let ls1 : LoadSt := { ls with st := h.1 }
      if isLazy then (ls1, g, segRangeOk c tr g) else segLoadData c tr ls1 g := by
  rw [LoadTie.segLoad_hand]
  unfold hdrRead_ls segInit_ls
  simp only [decodePhdr_isLoaded_ls, Bool.false_or]
  cases isLazy <;> rfl

theorem segGetData_eq_ls (c : Cls) (tr : List Trans) (ls : LoadSt) (g : Seg) :
    segGetData c tr ls g =
      if !g.isLoaded then ((segLoadData c tr ls g).1, (segLoadData c tr ls g).2.1) else (ls, g) := by
  unfold segGetData; split <;> rfl

/-! ### reads inside the file -/

/-- the stream-size probe on a good stream, with or without a translation table: position at the
    end, recorded size = length of the stream -/
theorem streamSizeOf_good_ls (tr : List Trans) (st : IStream) (he : st.eof = false) (hf : st.fail = false) :
    streamSizeOf tr st = ({ st with pos := st.data.length }, BitVec.ofNat 64 st.data.length) := by
  unfold streamSizeOf
  simp only [IStream.seekEnd_tellg st he hf, sec64_load_unseekable, hf]
  cases tr.isEmpty <;> rfl

/-- the stream-size probe in closed form, for every table and every stream state: failbit is left
    as it was; a failed stream reports `SIZE_MAX`, any other the length of the stream -/
theorem streamSizeOf_val_ls (tr : List Trans) (st : IStream) :
    streamSizeOf tr st =
      if st.fail then ({ st with eof := false, fail := true }, 18446744073709551615#64)
      else ({ st with eof := false, pos := st.data.length }, BitVec.ofNat 64 st.data.length) := by
  unfold streamSizeOf IStream.seekEnd IStream.tellg IStream.good sec64_load_unseekable
  cases hf : st.fail <;> cases tr.isEmpty <;> simp [IStream.clear] <;> rfl

/-- the probe does not depend on the translation table -/
theorem streamSizeOf_tr_indep_ls (tr tr' : List Trans) (st : IStream) :
    streamSizeOf tr st = streamSizeOf tr' st := by
  rw [streamSizeOf_val_ls, streamSizeOf_val_ls]

theorem hdrRead_inside (st : IStream) (he : st.eof = false) (hf : st.fail = false) (k n : Nat)
    (hk : k + n ≤ st.data.length) :
    hdrRead_ls [] st (Int.ofNat k) n =
      ({ st with pos := k + n, gcount := n }, slice st.data k n, BitVec.ofNat 64 st.data.length) := by
  have h1 := streamSizeOf_good_ls [] st he hf
  have h2 : trApply [] (Int.ofNat k) = Int.ofNat k := rfl
  unfold hdrRead_ls
  rw [h1, h2]
  simp only []
  rw [IStream.seekg_nat { st with pos := st.data.length } hf k (by simp; omega)]
  rw [IStream.read_ok_ls { st with pos := k, eof := false } rfl hf n (by simp; omega)]
  cases st; simp_all

theorem secOff_nil (offset : BitVec 64) : secOff [] offset = offset := by
  unfold secOff trApply; exact BitVec.ofInt_toInt

theorem guards_inside (offset size : BitVec 64) (len : Nat) (h63 : len < 9223372036854775808)
    (h : offset.toNat + size.toNat ≤ len) :
    BitVec.ult (BitVec.ofNat 64 len) offset = false ∧
    (BitVec.ult (BitVec.ofNat 64 len) size || BitVec.ult (BitVec.ofNat 64 len - offset) size) = false ∧
    BitVec.ult (18446744073709551615#64 - BitVec.signExtend 64 1#32) size = false := by
  have e1 : BitVec.signExtend 64 1#32 = 1#64 := by decide
  have ho := offset.isLt; have hs := size.isLt
  simp only [e1, BitVec.ult, BitVec.toNat_sub, BitVec.toNat_ofNat, Nat.reducePow, Bool.or_eq_false_iff,
    decide_eq_false_iff_not] at *
  omega

/-- resident data and `data_size` of a section whose file range is inside the image -/
def secData_ls (img : Bytes) (b : SecBuf) : Option Bytes × BitVec 64 :=
  if isNullOrNobitsTy b.stype then (none, b.dataSize)
  else if b.size = 0 then (some (alloc 1), 0)
  else (some (slice img b.offset.toNat b.size.toNat ++ [0]), b.size)

theorem secOutcome_inside (c : Cls) (st : IStream) (stype : BitVec 32) (size offset : BitVec 64)
    (h63 : st.data.length < 9223372036854775808) (hty : isNullOrNobitsTy stype = false)
    (h : offset.toNat + size.toNat ≤ st.data.length) :
    secOutcome c [] st stype size offset (BitVec.ofNat 64 st.data.length) true =
      if size = 0 then .loadedEmpty else .loaded (slice st.data offset.toNat size.toNat) := by
  have g := guards_inside offset size _ h63 h
  unfold secOutcome
  simp only [secOff_nil, sec32_load_data_off_gt, sec64_load_data_off_gt, sec32_load_data_size_gt,
    sec64_load_data_size_gt, sec64_load_data_sizet, g.1, g.2.1, g.2.2, hty, isolatedRead_ok st offset size h h63]
  cases c <;> simp

theorem secOutcome_nobits (c : Cls) (tr : List Trans) (st : IStream) (stype : BitVec 32)
    (size offset ss : BitVec 64) (hty : isNullOrNobitsTy stype = true) :
    secOutcome c tr st stype size offset ss true = .refuse ∨
    secOutcome c tr st stype size offset ss true = .keep true := by
  unfold secOutcome
  simp only [hty]
  repeat' split
  all_goals simp_all

/-- every range `load_data` would read for `b` lies inside `len` bytes -/
def SecInside (len : Nat) (b : SecBuf) : Prop :=
  isNullOrNobitsTy b.stype = false → b.offset.toNat + b.size.toNat ≤ len

/-- `get_data()`'s treatment of `load_data`'s result -/
def secGetApply (b : SecBuf) (o : SecOutcome) : SecBuf :=
  if (o.apply b).2 then (o.apply b).1 else { (o.apply b).1 with canLoad := false }

theorem secGetData_snd (c : Cls) (tr : List Trans) (ls : LoadSt) (b : SecBuf) :
    (secGetData c tr ls b).2 =
      if !b.isLoaded && b.canLoad then
        secGetApply b (secOutcome c tr ls.st b.stype b.size b.offset b.streamSize b.data.isNone)
      else b := by
  rw [secGetData_eq_ls]; split
  · simp only [secGetApply, secLoadData_snd]
  · rfl

theorem secGetData_st (c : Cls) (tr : List Trans) (ls : LoadSt) (b : SecBuf) :
    (secGetData c tr ls b).1.st =
      if (!b.isLoaded && b.canLoad) &&
          (secOutcome c tr ls.st b.stype b.size b.offset b.streamSize b.data.isNone).reads
      then (isolatedRead ls.st (secOff tr b.offset) b.size).1 else ls.st := by
  rw [secGetData_eq_ls]; split
  · rename_i h; simp only [h, Bool.true_and, secLoadData_st]
  · rename_i h; simp [h]

@[simp] theorem secGetData_data (c : Cls) (tr : List Trans) (ls : LoadSt) (b : SecBuf) :
    (secGetData c tr ls b).1.st.data = ls.st.data := by
  rw [secGetData_st]; split <;> simp
@[simp] theorem secGetData_kind (c : Cls) (tr : List Trans) (ls : LoadSt) (b : SecBuf) :
    (secGetData c tr ls b).1.st.kind = ls.st.kind := by
  rw [secGetData_st]; split <;> simp

/-- `get_data()` on a not yet resident section of a file that contains its range : the data is the
    file range (plus the terminator), whatever the state of the stream; the flags do not change -/
theorem secGetData_inside (c : Cls) (ls : LoadSt) (b : SecBuf) (hl : b.isLoaded = false)
    (hcl : b.canLoad = true) (hnd : b.data = none)
    (hss : b.streamSize = BitVec.ofNat 64 ls.st.data.length)
    (h63 : ls.st.data.length < 9223372036854775808) (hin : SecInside ls.st.data.length b) :
    (∃ L : Bool, (secGetData c [] ls b).2 =
      { b with data := (secData_ls ls.st.data b).1, dataSize := (secData_ls ls.st.data b).2,
               isLoaded := L, canLoad := L } ∧ (isNullOrNobitsTy b.stype = false → L = true)) ∧
    (secGetData c [] ls b).1.st.eof = ls.st.eof ∧ (secGetData c [] ls b).1.st.fail = ls.st.fail := by
  rw [secGetData_snd, secGetData_st]
  simp only [hl, hcl, Bool.not_false, Bool.and_self, if_true, hnd, hss, Option.isNone_none, Bool.true_and]
  cases hty : isNullOrNobitsTy b.stype
  · have hi := hin hty
    have hO := secOutcome_inside c ls.st b.stype b.size b.offset h63 hty hi
    by_cases hz : b.size = 0
    · simp only [hz, if_true] at hO
      simp only [hO, secGetApply, SecOutcome.apply, SecOutcome.reads, secData_ls, hty, hz, Bool.false_eq_true,
        if_false, if_true]
      refine ⟨⟨true, ?_, fun _ => rfl⟩, by first | trivial | exact ⟨rfl, rfl⟩ | simp⟩
      cases b; simp_all
    · simp only [hz, if_false] at hO
      simp only [hO, secGetApply, SecOutcome.apply, SecOutcome.reads, secData_ls, hty, hz, Bool.false_eq_true,
        if_false, if_true, secOff_nil, isolatedRead_ok ls.st b.offset b.size hi h63]
      refine ⟨⟨true, ?_, fun _ => rfl⟩, by first | trivial | exact ⟨rfl, rfl⟩ | simp⟩
      cases b; simp_all
  · rcases secOutcome_nobits c [] ls.st b.stype b.size b.offset (BitVec.ofNat 64 ls.st.data.length) hty with h | h
    · simp only [h, secGetApply, SecOutcome.apply, SecOutcome.reads, secData_ls, hty, if_true, Bool.false_eq_true,
        if_false]
      refine ⟨⟨false, ?_, fun h => by simp at h⟩, by first | trivial | exact ⟨rfl, rfl⟩ | simp⟩
      cases b; simp_all
    · simp only [h, secGetApply, SecOutcome.apply, SecOutcome.reads, secData_ls, hty, if_true, Bool.false_eq_true,
        if_false]
      refine ⟨⟨true, ?_, fun _ => rfl⟩, by first | trivial | exact ⟨rfl, rfl⟩ | simp⟩
      cases b; simp_all

/-- header record of section `idx` at file position `k` as the loader decodes it -/
def secHdr (c : Cls) (enc : Enc) (img : Bytes) (k : Nat) (isLazy : Bool) (idx : Nat) : SecBuf :=
  decodeShdr c enc (slice img k (shdrSize c)) (secInit c (BitVec.ofNat 64 img.length) true isLazy idx)

/-- **`section_impl::load` on a file that contains the record and the section's range** :
    the header read succeeds, the fields are the decoded record, an eager load makes exactly the
    file range resident, the stream stays good -/
theorem secLoad_inside (c : Cls) (enc : Enc) (ls : LoadSt) (k : Nat) (isLazy : Bool) (idx : Nat)
    (he : ls.st.eof = false) (hf : ls.st.fail = false)
    (h63 : ls.st.data.length < 9223372036854775808) (hk : k + shdrSize c ≤ ls.st.data.length)
    (hin : SecInside ls.st.data.length (secHdr c enc ls.st.data k isLazy idx)) :
    (∃ (fd : Option Bytes) (L : Bool),
      (secLoad c enc [] ls (Int.ofNat k) isLazy idx).2 =
        { secHdr c enc ls.st.data k isLazy idx with
            addrSet := true, fileData := fd, canLoad := isLazy || L, isLoaded := !isLazy && L,
            data := if isLazy then none else (secData_ls ls.st.data (secHdr c enc ls.st.data k isLazy idx)).1,
            dataSize := if isLazy then 0 else (secData_ls ls.st.data (secHdr c enc ls.st.data k isLazy idx)).2 } ∧
      (isNullOrNobitsTy (secHdr c enc ls.st.data k isLazy idx).stype = false → L = true)) ∧
    (secLoad c enc [] ls (Int.ofNat k) isLazy idx).1.st.eof = false ∧
    (secLoad c enc [] ls (Int.ofNat k) isLazy idx).1.st.fail = false ∧
    (secLoad c enc [] ls (Int.ofNat k) isLazy idx).1.st.data = ls.st.data ∧
    (secLoad c enc [] ls (Int.ofNat k) isLazy idx).1.st.kind = ls.st.kind := by
  rw [secLoad_eq_ls, hdrRead_inside ls.st he hf k (shdrSize c) hk]
  simp only [bne_self_eq_false, Bool.false_eq_true, if_false, List.isEmpty_nil]
  cases isLazy
  · simp only [Bool.false_eq_true, if_false]
    have e : decodeShdr c enc (slice ls.st.data k (shdrSize c))
        (secInit c (BitVec.ofNat 64 ls.st.data.length) true false idx) = secHdr c enc ls.st.data k false idx := rfl
    simp only [e]
    generalize fileDataOf c [] _ _ = fd
    have hg := secGetData_inside c { ls with st := { ls.st with pos := k + shdrSize c, gcount := shdrSize c } }
      { secHdr c enc ls.st.data k false idx with fileData := fd }
      (by simp [secHdr, secInit]) (by simp [secHdr, secInit]) (by simp [secHdr, secInit])
      (by simp [secHdr, secInit]) h63 hin
    obtain ⟨⟨L, h1, h2⟩, h3, h4⟩ := hg
    refine ⟨⟨fd, L, ?_, h2⟩, ?_, ?_, ?_, ?_⟩
    · rw [h1]
      simp [secData_ls]
    · rw [h3]; exact he
    · rw [h4]; exact hf
    · simp
    · simp
  · simp only [if_true]
    generalize fileDataOf c [] _ _ = fd
    refine ⟨⟨fd, true, ?_, fun _ => rfl⟩, by simp [he, hf]⟩
    simp [secHdr, secInit]

/-! ### section states and the section loop -/

/-- section `idx` (record at `k`) of image `img` in the loader's hands: header decoded; data
    resident (`res`) or not; `nm` is its resolved name -/
def SecSt (c : Cls) (enc : Enc) (img : Bytes) (k : Nat) (isLazy : Bool) (idx : Nat) (res : Bool)
    (nm : Bytes) (b : SecBuf) : Prop :=
  ∃ (fd : Option Bytes) (L : Bool),
    b = { secHdr c enc img k isLazy idx with
            addrSet := true, fileData := fd, name := nm, canLoad := !res || L, isLoaded := res && L,
            data := if res then (secData_ls img (secHdr c enc img k isLazy idx)).1 else none,
            dataSize := if res then (secData_ls img (secHdr c enc img k isLazy idx)).2 else 0 } ∧
    (isNullOrNobitsTy (secHdr c enc img k isLazy idx).stype = false → L = true)

theorem secLoad_inside' (c : Cls) (enc : Enc) (ls : LoadSt) (k : Nat) (isLazy : Bool) (idx : Nat)
    (he : ls.st.eof = false) (hf : ls.st.fail = false)
    (h63 : ls.st.data.length < 9223372036854775808) (hk : k + shdrSize c ≤ ls.st.data.length)
    (hin : SecInside ls.st.data.length (secHdr c enc ls.st.data k isLazy idx)) :
    SecSt c enc ls.st.data k isLazy idx (!isLazy) [] (secLoad c enc [] ls (Int.ofNat k) isLazy idx).2 ∧
    (secLoad c enc [] ls (Int.ofNat k) isLazy idx).1.st.eof = false ∧
    (secLoad c enc [] ls (Int.ofNat k) isLazy idx).1.st.fail = false ∧
    (secLoad c enc [] ls (Int.ofNat k) isLazy idx).1.st.data = ls.st.data ∧
    (secLoad c enc [] ls (Int.ofNat k) isLazy idx).1.st.kind = ls.st.kind := by
  obtain ⟨⟨fd, L, h1, h2⟩, h3⟩ := secLoad_inside c enc ls k isLazy idx he hf h63 hk hin
  refine ⟨⟨fd, L, ?_, h2⟩, h3⟩
  rw [h1]
  cases isLazy <;> simp [secHdr, secInit]

/-- `get_data()` in any such state, on any stream over the image, makes the file range resident -/
theorem secGetData_SecSt (c : Cls) (enc : Enc) (img : Bytes) (k : Nat) (isLazy : Bool) (idx : Nat)
    (res : Bool) (nm : Bytes) (b : SecBuf) (ls : LoadSt) (hd : ls.st.data = img)
    (h63 : img.length < 9223372036854775808)
    (hin : SecInside img.length (secHdr c enc img k isLazy idx))
    (hb : SecSt c enc img k isLazy idx res nm b) :
    SecSt c enc img k isLazy idx true nm (secGetData c [] ls b).2 ∧
    (secGetData c [] ls b).1.st.eof = ls.st.eof ∧ (secGetData c [] ls b).1.st.fail = ls.st.fail ∧
    (res = true → secGetData c [] ls b = (ls, b)) := by
  obtain ⟨fd, L, hb, hL⟩ := hb
  subst hd
  cases res
  · have hg := secGetData_inside c ls b (by rw [hb]; rfl) (by rw [hb]; rfl) (by rw [hb]; rfl)
      (by rw [hb]; simp [secHdr, secInit]) h63 (by rw [hb]; exact hin)
    obtain ⟨⟨L', h1, h2⟩, h3⟩ := hg
    refine ⟨⟨fd, L', ?_, ?_⟩, h3.1, h3.2, by simp⟩
    · have hz : (secHdr c enc ls.st.data k isLazy idx).dataSize = 0 := by simp [secHdr, secInit]
      rw [h1, hb]; simp [secData_ls, hz]
    · intro h; apply h2; rw [hb]; exact h
  · have hno : secGetData c [] ls b = (ls, b) := by
      rw [secGetData_eq_ls, hb]; cases L <;> simp
    rw [hno]
    exact ⟨⟨fd, L, hb, hL⟩, rfl, rfl, fun _ => rfl⟩

theorem ofNat_add_mul (a i e : Nat) : Int.ofNat a + Int.ofNat i * Int.ofNat e = Int.ofNat (a + i * e) := by
  simp only [Int.ofNat_eq_natCast, Int.natCast_add, Int.natCast_mul]

/-- **the section loop on an image that contains every record and every file-occupying range** -/
theorem loadSectionsLoop_inside (c : Cls) (enc : Enc) (isLazy : Bool) (shoff entsize : Nat) (img : Bytes)
    (h63 : img.length < 9223372036854775808) :
    ∀ (n i : Nat) (ls : LoadSt) (acc : List SecBuf),
      ls.st.data = img → ls.st.eof = false → ls.st.fail = false →
      (∀ j, i ≤ j → j < i + n → shoff + j * entsize + shdrSize c ≤ img.length ∧
        SecInside img.length (secHdr c enc img (shoff + j * entsize) isLazy j)) →
      let r := loadSectionsLoop c enc [] isLazy (Int.ofNat shoff) entsize n i ls acc
      r.1.st.data = img ∧ r.1.st.eof = false ∧ r.1.st.fail = false ∧ r.1.st.kind = ls.st.kind ∧
      ∃ l : List SecBuf, r.2 = acc.reverse ++ l ∧ l.length = n ∧
        ∀ j (h : j < l.length), SecSt c enc img (shoff + (i + j) * entsize) isLazy (i + j) (!isLazy) [] l[j] := by
  intro n
  induction n with
  | zero =>
    intro i ls acc hd he hf _
    exact ⟨hd, he, hf, rfl, [], by simp [loadSectionsLoop], rfl, fun j h => absurd h (by simp)⟩
  | succ n ih =>
    intro i ls acc hd he hf hall
    have hi := hall i (Nat.le_refl _) (by omega)
    subst hd
    have h1 := secLoad_inside' c enc ls (shoff + i * entsize) isLazy i he hf h63 hi.1 hi.2
    obtain ⟨hs, he', hf', hd', hk'⟩ := h1
    simp only [loadSectionsLoop, ofNat_add_mul]
    have h2 := ih (i + 1) (secLoad c enc [] ls (Int.ofNat (shoff + i * entsize)) isLazy i).1
      ((secLoad c enc [] ls (Int.ofNat (shoff + i * entsize)) isLazy i).2 :: acc) hd' he' hf'
      (fun j h1 h2 => hall j (by omega) (by omega))
    obtain ⟨g1, g2, g3, g4, l, g5, g6, g7⟩ := h2
    refine ⟨g1, g2, g3, by rw [g4, hk'], (secLoad c enc [] ls (Int.ofNat (shoff + i * entsize)) isLazy i).2 :: l,
      ?_, by simp [g6], ?_⟩
    · rw [g5]; simp
    · intro j h
      cases j with
      | zero => simpa using hs
      | succ j =>
        have := g7 j (by simpa using h)
        simpa [Nat.add_assoc, Nat.add_comm 1 j] using this

/-! ### section names -/

theorem slice_append_nul (T : Bytes) (idx : Nat) (h : idx ≤ T.length) :
    slice (T ++ [0]) idx (T.length - idx) = T.drop idx := by
  unfold slice
  apply List.ext_getElem?
  intro i
  simp only [List.getElem?_take, List.getElem?_drop, List.getElem?_append, List.length_append]
  repeat' split
  all_goals first | rfl | omega | (exfalso; omega) | (congr 1; omega) | (simp_all; try omega)

/-- the bounded `memchr` lookup on a loaded string table (`T` plus the loader's terminator) is the
    specification's C-string lookup in `T`; it never leaves the buffer -/
theorem cstrAt_eq_spec (site : String) (T : Bytes) (idx : Nat) :
    cstrAt site (T ++ [0]) T.length idx = .ok (Spec.cstrAt T idx) := by
  unfold cstrAt Spec.cstrAt
  by_cases h : idx ≥ T.length
  · simp only [h, if_true]; rfl
  · simp only [h, if_false]
    rw [slice_append_nul T idx (by omega)]
    cases (T.drop idx).idxOf? (0 : UInt8) with
    | some k => rfl
    | none => simp [List.length_drop]; rfl

/-- file contents of a section as the specification sees them (NULL/NOBITS occupy no file space) -/
def secBytes (img : Bytes) (b : SecBuf) : Bytes :=
  if isNullOrNobitsTy b.stype then [] else slice img b.offset.toNat b.size.toNat

theorem getString_resident (img : Bytes) (b hb : SecBuf) (x : BitVec 32)
    (hd : b.data = (secData_ls img hb).1) (hs : b.size = hb.size)
    (hin : isNullOrNobitsTy hb.stype = false → hb.offset.toNat + hb.size.toNat ≤ img.length) :
    getString b x = .ok (Spec.cstrAt (secBytes img hb) x.toNat) := by
  rw [LoadTie.getString_hand]; unfold secBytes
  rw [hd]
  unfold secData_ls
  cases hty : isNullOrNobitsTy hb.stype
  · have hi := hin hty
    by_cases hz : hb.size = 0
    · simp only [Bool.false_eq_true, if_false, hz, if_true, hs, BitVec.toNat_zero]
      simp [cstrAt, Spec.cstrAt, slice]; rfl
    · simp only [Bool.false_eq_true, if_false, hz, hs]
      have hl : (slice img hb.offset.toNat hb.size.toNat).length = hb.size.toNat := slice_length_of_le hi
      have := cstrAt_eq_spec "get_string/memchr" (slice img hb.offset.toNat hb.size.toNat) x.toNat
      rw [hl] at this
      exact this
  · simp [Spec.cstrAt]; rfl

/-- names set from the specification's lookup in string table `T` -/
def withName_ls (T : Bytes) (b : SecBuf) : SecBuf :=
  match Spec.cstrAt T b.nameOff.toNat with
  | some s => { b with name := s }
  | none => b

theorem resolveNames_eq_ls (strtab : SecBuf) (T : Bytes)
    (h : ∀ x, getString strtab x = .ok (Spec.cstrAt T x.toNat)) :
    ∀ l : List SecBuf, resolveNames strtab l = .ok (l.map (withName_ls T)) := by
  intro l
  induction l with
  | nil => rfl
  | cons b rest ih =>
    simp only [resolveNames, h, ih, List.map_cons, withName_ls]
    rfl

/-! ### segments inside the file -/

def segSkip (g : Seg) : Bool := seg64_load_data_skip g.stype g.filesz

/-- header record of the segment at file position `k` as the loader decodes it -/
def segHdr_ls (c : Cls) (enc : Enc) (img : Bytes) (k : Nat) (isLazy : Bool) : Seg :=
  decodePhdr c enc (slice img k (phdrSize c)) (segInit_ls (BitVec.ofNat 64 img.length) isLazy)

def SegInside (len : Nat) (g : Seg) : Prop := segSkip g = false → g.offset.toNat + g.filesz.toNat ≤ len

theorem segReadSt_inside (st : IStream) (off size : BitVec 64)
    (h : off.toNat + size.toNat ≤ st.data.length) (hl : st.data.length < 9223372036854775808) :
    segReadSt st off size =
      ({ st.clear with pos := off.toNat + size.toNat, gcount := size.toNat }, slice st.data off.toNat size.toNat) := by
  unfold segReadSt
  have hn : ¬ size.toInt < 0 := by rw [toInt_of_lt size (by omega)]; simp
  rw [if_neg hn, toInt_of_lt off (by omega)]
  rw [IStream.seekg_nat _ rfl _ (by simp [IStream.clear]; omega)]
  rw [IStream.read_ok_ls _ rfl rfl _ (by simp [IStream.clear]; omega)]
  simp [IStream.clear]

theorem segLoadData_eq_ls (c : Cls) (tr : List Trans) (ls : LoadSt) (g : Seg) :
    segLoadData c tr ls g =
      if (match c with | .c32 => seg32_load_data_skip g.stype g.filesz | .c64 => seg64_load_data_skip g.stype g.filesz)
      then (ls, g, true) else
      if (match c with | .c32 => seg32_range_off_gt (secOff tr g.offset) g.streamSize
                       | .c64 => seg64_range_off_gt (secOff tr g.offset) g.streamSize)
      then (ls, { g with data := none }, false) else
      if (match c with | .c32 => seg32_range_size_gt g.filesz g.streamSize (secOff tr g.offset)
                       | .c64 => seg64_range_size_gt g.filesz g.streamSize (secOff tr g.offset))
      then (ls, { g with data := none }, false) else
      if (match c with | .c32 => seg32_range_sizet g.filesz | .c64 => seg64_range_sizet g.filesz)
      then (ls, { g with data := none }, false) else
      let r := segReadSt ls.st (secOff tr g.offset) g.filesz
      let n : BitVec 64 := match c with
        | .c32 => seg32_load_data_alloc g.filesz
        | .c64 => seg64_load_data_alloc g.filesz
      let ls' : LoadSt := { st := mergeFlags_ls ls.st r.1, allocs := ls.allocs ++ [n.toNat] }
      if !r.1.fail then (ls', { g with data := some (r.2 ++ [0]), isLoaded := true }, true)
      else (ls', { g with data := none }, false) := by
  rw [LoadTie.segLoadData_flat]
  unfold segReadSt secOff mergeFlags_ls
  cases c <;> simp only [LoadTie.segDataOk_val, LoadTie.segSeekTo_val, LoadTie.segReadN_val] <;>
   (split
    · rfl
    · split
      · rfl
      · split
        · rfl
        · split
          · rfl
          · (repeat' split) <;> simp_all)

/-- `segment_impl::load_data` when the file contains the segment's range -/
theorem segLoadData_inside (c : Cls) (ls : LoadSt) (g : Seg)
    (hss : g.streamSize = BitVec.ofNat 64 ls.st.data.length)
    (h63 : ls.st.data.length < 9223372036854775808) (hs : segSkip g = false)
    (hin : g.offset.toNat + g.filesz.toNat ≤ ls.st.data.length) :
    (segLoadData c [] ls g).2 =
      ({ g with data := some (slice ls.st.data g.offset.toNat g.filesz.toNat ++ [0]), isLoaded := true }, true) ∧
    (segLoadData c [] ls g).1.st.eof = ls.st.eof ∧ (segLoadData c [] ls g).1.st.fail = ls.st.fail := by
  have gd := guards_inside g.offset g.filesz _ h63 hin
  have hs' : seg32_load_data_skip g.stype g.filesz = false := hs
  unfold segSkip at hs
  rw [segLoadData_eq_ls]
  simp only [secOff_nil, hss, hs, hs', seg32_range_off_gt, seg64_range_off_gt, seg32_range_size_gt,
    seg64_range_size_gt, seg32_range_sizet, seg64_range_sizet, gd.1, gd.2.1, gd.2.2,
    segReadSt_inside ls.st g.offset g.filesz hin h63]
  cases c <;> simp [mergeFlags_ls, IStream.clear]

theorem segLoadData_skip (c : Cls) (tr : List Trans) (ls : LoadSt) (g : Seg) (hs : segSkip g = true) :
    segLoadData c tr ls g = (ls, g, true) := by
  have hs' : seg32_load_data_skip g.stype g.filesz = true := hs
  unfold segSkip at hs
  rw [segLoadData_eq_ls]
  cases c <;> simp [hs, hs']

/-- `segment_impl::is_file_range_valid()` in the vocabulary of this file -/
theorem segRangeOk_ls (c : Cls) (tr : List Trans) (g : Seg) :
    segRangeOk c tr g =
      (if segSkip g then true else
       if sec64_load_data_off_gt (secOff tr g.offset) g.streamSize then false else
       if sec64_load_data_size_gt g.filesz g.streamSize (secOff tr g.offset) then false else
       if sec64_load_data_sizet g.filesz then false else true) :=
  LoadTie.segRangeOk_hand c tr g

/-- the range test accepts a segment whose file range is inside the file -/
theorem segRangeOk_inside (c : Cls) (g : Seg) (len : Nat)
    (hss : g.streamSize = BitVec.ofNat 64 len) (h63 : len < 9223372036854775808)
    (hin : SegInside len g) : segRangeOk c [] g = true := by
  rw [segRangeOk_ls]
  cases hs : segSkip g
  · have gd := guards_inside g.offset g.filesz _ h63 (hin hs)
    simp only [secOff_nil, hss, sec64_load_data_off_gt, sec64_load_data_size_gt, sec64_load_data_sizet,
      gd.1, gd.2.1, gd.2.2, Bool.false_eq_true, if_false]
  · simp

/-- resident data of a segment whose file range is inside the image -/
def segData (img : Bytes) (g : Seg) : Option Bytes :=
  if segSkip g then none else some (slice img g.offset.toNat g.filesz.toNat ++ [0])

theorem wr_full_ls (z src : Bytes) (h : src.length = z.length) : wr z 0 src = src := by
  unfold wr; simp [h]

/-- **`segment_impl::load` on a file that contains the record and the segment's range** -/
theorem segLoad_inside (c : Cls) (enc : Enc) (ls : LoadSt) (k : Nat) (isLazy : Bool)
    (he : ls.st.eof = false) (hf : ls.st.fail = false)
    (h63 : ls.st.data.length < 9223372036854775808) (hk : k + phdrSize c ≤ ls.st.data.length)
    (hin : SegInside ls.st.data.length (segHdr_ls c enc ls.st.data k isLazy)) :
    (segLoad c enc [] ls (Int.ofNat k) isLazy).2 =
      ({ segHdr_ls c enc ls.st.data k isLazy with
           data := if isLazy then none else segData ls.st.data (segHdr_ls c enc ls.st.data k isLazy),
           isLoaded := !isLazy && !segSkip (segHdr_ls c enc ls.st.data k isLazy) }, true) ∧
    (segLoad c enc [] ls (Int.ofNat k) isLazy).1.st.eof = false ∧
    (segLoad c enc [] ls (Int.ofNat k) isLazy).1.st.fail = false ∧
    (segLoad c enc [] ls (Int.ofNat k) isLazy).1.st.data = ls.st.data ∧
    (segLoad c enc [] ls (Int.ofNat k) isLazy).1.st.kind = ls.st.kind := by
  rw [segLoad_eq_ls, hdrRead_inside ls.st he hf k (phdrSize c) hk]
  simp only []
  rw [wr_full_ls _ _ (by simp [slice_length_of_le hk])]
  have e : decodePhdr c enc (slice ls.st.data k (phdrSize c)) (segInit_ls (BitVec.ofNat 64 ls.st.data.length) isLazy)
      = segHdr_ls c enc ls.st.data k isLazy := rfl
  rw [e]
  cases isLazy
  · simp only [Bool.false_eq_true, if_false, Bool.not_false, Bool.true_and]
    cases hs : segSkip (segHdr_ls c enc ls.st.data k false)
    · have h := segLoadData_inside c { ls with st := { ls.st with pos := k + phdrSize c, gcount := phdrSize c } }
        (segHdr_ls c enc ls.st.data k false) (by simp [segHdr_ls, segInit_ls]) h63 hs (hin hs)
      refine ⟨?_, ?_, ?_, by simp, by simp⟩
      · rw [h.1]; simp [segData, hs]
      · rw [h.2.1]; exact he
      · rw [h.2.2]; exact hf
    · rw [segLoadData_skip c [] _ _ hs]
      refine ⟨?_, by simp [he, hf]⟩
      simp only [segData, hs, if_true, Bool.not_true]
      congr 1
      cases hg : segHdr_ls c enc ls.st.data k false
      have h1 : (segHdr_ls c enc ls.st.data k false).data = none := by simp [segHdr_ls, segInit_ls]
      have h2 : (segHdr_ls c enc ls.st.data k false).isLoaded = false := by simp [segHdr_ls, segInit_ls]
      rw [hg] at h1 h2
      simp_all
  · simp only [if_true, Bool.not_true, Bool.false_and]
    rw [segRangeOk_inside c _ ls.st.data.length (by simp [segHdr_ls, segInit_ls]) h63 hin]
    refine ⟨?_, by simp [he, hf]⟩
    congr 1
    cases hg : segHdr_ls c enc ls.st.data k true
    have h1 : (segHdr_ls c enc ls.st.data k true).data = none := by simp [segHdr_ls, segInit_ls]
    have h2 : (segHdr_ls c enc ls.st.data k true).isLoaded = false := by simp [segHdr_ls, segInit_ls]
    rw [hg] at h1 h2
    simp_all

/-- segment `idx` (record at `k`) as the loader leaves it, given the loaded sections -/
def segFinal (c : Cls) (enc : Enc) (img : Bytes) (k : Nat) (isLazy : Bool) (idx : Nat) (secs : List SecBuf) : Seg :=
  { segHdr_ls c enc img k isLazy with
      index := idx,
      secs := (secs.filter (memberOf (segHdr_ls c enc img k isLazy))).map (fun b => BitVec.ofNat 16 b.index),
      data := if isLazy then none else segData img (segHdr_ls c enc img k isLazy),
      isLoaded := !isLazy && !segSkip (segHdr_ls c enc img k isLazy) }

theorem memberOf_data (g : Seg) (d : Option Bytes) (l : Bool) :
    memberOf { g with data := d, isLoaded := l } = memberOf g := by
  funext b; rfl

/-- **the segment loop on an image that contains every record and every non-empty file range** :
    no segment fails, the stream stays good -/
theorem loadSegmentsLoop_inside (c : Cls) (enc : Enc) (isLazy : Bool) (phoff entsize : Nat) (img : Bytes)
    (h63 : img.length < 9223372036854775808) (secs : List SecBuf) :
    ∀ (n i : Nat) (ls : LoadSt) (acc : List Seg),
      ls.st.data = img → ls.st.eof = false → ls.st.fail = false →
      (∀ j, i ≤ j → j < i + n → phoff + j * entsize + phdrSize c ≤ img.length ∧
        SegInside img.length (segHdr_ls c enc img (phoff + j * entsize) isLazy)) →
      let r := loadSegmentsLoop c enc [] isLazy (Int.ofNat phoff) entsize secs n i ls acc
      r.1.st.data = img ∧ r.1.st.eof = false ∧ r.1.st.fail = false ∧ r.1.st.kind = ls.st.kind ∧
      r.2.2 = true ∧
      ∃ l : List Seg, r.2.1 = acc.reverse ++ l ∧ l.length = n ∧
        ∀ j (h : j < l.length), l[j] = segFinal c enc img (phoff + (i + j) * entsize) isLazy (i + j) secs := by
  intro n
  induction n with
  | zero =>
    intro i ls acc hd he hf _
    exact ⟨hd, he, hf, rfl, rfl, [], by simp [loadSegmentsLoop], rfl, fun j h => absurd h (by simp)⟩
  | succ n ih =>
    intro i ls acc hd he hf hall
    have hi := hall i (Nat.le_refl _) (by omega)
    subst hd
    have h1 := segLoad_inside c enc ls (phoff + i * entsize) isLazy he hf h63 hi.1 hi.2
    simp only [loadSegmentsLoop, ofNat_add_mul]
    generalize segLoad c enc [] ls (Int.ofNat (phoff + i * entsize)) isLazy = x at h1
    obtain ⟨ls', g', ok⟩ := x
    obtain ⟨hs, he', hf', hd', hk'⟩ := h1
    simp only [Prod.mk.injEq] at hs
    obtain ⟨hg, hok⟩ := hs
    simp only at he' hf' hd' hk'
    subst hok
    simp only [hf', Bool.not_true, Bool.or_self, Bool.false_eq_true, if_false]
    have h2 := ih (i + 1) ls'
      ({ g' with index := i, secs := (secs.filter (memberOf g')).map (fun b => BitVec.ofNat 16 b.index) } :: acc)
      hd' he' hf' (fun j h1 h2 => hall j (by omega) (by omega))
    obtain ⟨g1, g2, g3, g4, g5, l, g6, g7, g8⟩ := h2
    refine ⟨g1, g2, g3, by rw [g4, hk'], g5,
      { g' with index := i, secs := (secs.filter (memberOf g')).map (fun b => BitVec.ofNat 16 b.index) } :: l,
      ?_, by simp [g7], ?_⟩
    · rw [g6]; simp
    · intro j h
      cases j with
      | zero =>
        simp only [List.getElem_cons_zero, Nat.add_zero]
        rw [hg, memberOf_data]
        rfl
      | succ j =>
        have := g8 j (by simpa using h)
        simpa [Nat.add_assoc, Nat.add_comm 1 j] using this

/-- `get_data()` on a segment in its final state, on any stream over the image -/
theorem segGetData_segFinal (c : Cls) (enc : Enc) (img : Bytes) (k : Nat) (isLazy : Bool) (idx : Nat)
    (secs : List SecBuf) (ls : LoadSt) (hd : ls.st.data = img) (h63 : img.length < 9223372036854775808)
    (hin : SegInside img.length (segHdr_ls c enc img k isLazy)) :
    (segGetData c [] ls (segFinal c enc img k isLazy idx secs)).2.data = segData img (segHdr_ls c enc img k isLazy) ∧
    (segGetData c [] ls (segFinal c enc img k isLazy idx secs)).1.st.eof = ls.st.eof ∧
    (segGetData c [] ls (segFinal c enc img k isLazy idx secs)).1.st.fail = ls.st.fail := by
  subst hd
  rw [segGetData_eq_ls]
  cases hs : segSkip (segHdr_ls c enc ls.st.data k isLazy)
  · cases isLazy
    · simp [segFinal, hs, segData]
    · simp only [segFinal, hs, Bool.not_true, Bool.false_and, Bool.not_false, if_true]
      have h := segLoadData_inside c ls
        { segHdr_ls c enc ls.st.data k true with
            index := idx,
            secs := (secs.filter (memberOf (segHdr_ls c enc ls.st.data k true))).map (fun b => BitVec.ofNat 16 b.index),
            data := none, isLoaded := false }
        (by simp [segHdr_ls, segInit_ls]) h63 hs (hin hs)
      rw [h.1, h.2.1, h.2.2]
      simp [segData, hs]
  · have hs2 : segSkip (segFinal c enc ls.st.data k isLazy idx secs) = true := hs
    have hdn : (segFinal c enc ls.st.data k isLazy idx secs).data = none := by
      cases isLazy <;> simp [segFinal, segData, hs]
    split
    · rw [segLoadData_skip c [] ls _ hs2]
      simp [segData, hs, hdn]
    · simp [segData, hs, hdn]

/-! ### `load` in stages (definitionally the same computation, cut at the points the ladder needs) -/

def loadSections (c : Cls) (enc : Enc) (tr : List Trans) (isLazy : Bool) (hdr : Bytes) (st : IStream) :
    LoadSt × List SecBuf :=
  if load_sections_entsize_bad (Hdr.e_shnum c enc hdr) (Hdr.ident hdr EI_CLASS) (Hdr.e_shentsize c enc hdr)
  then ({ st := st }, [])
  else loadSectionsLoop c enc tr isLazy (Hdr.e_shoff c enc hdr).toInt (Hdr.e_shentsize c enc hdr).toNat
         (Hdr.e_shnum c enc hdr).toNat 0 { st := st } []

def loadNames (c : Cls) (enc : Enc) (tr : List Trans) (hdr : Bytes) (ls : LoadSt) (secs : List SecBuf) :
    M (LoadSt × List SecBuf) :=
  if load_sections_entsize_bad (Hdr.e_shnum c enc hdr) (Hdr.ident hdr EI_CLASS) (Hdr.e_shentsize c enc hdr)
  then pure (ls, secs) else
    if Hdr.e_shstrndx c enc hdr == BitVec.ofNat 16 SHN_UNDEF then pure (ls, secs) else
    match secs[(Hdr.e_shstrndx c enc hdr).toNat]? with
    | none => pure (ls, secs)
    | some strtab => do
      let secs ← resolveNames (secGetData c tr ls strtab).2
        (secs.set (Hdr.e_shstrndx c enc hdr).toNat (secGetData c tr ls strtab).2)
      pure ((secGetData c tr ls strtab).1, secs)

def loadSegs (o : Obj) (c : Cls) (enc : Enc) (hdr : Bytes) (isLazy : Bool) (ls : LoadSt) (secs : List SecBuf) :
    LoadRes :=
  if load_segments_entsize_bad (Hdr.e_phnum c enc hdr) (Hdr.ident hdr EI_CLASS) (Hdr.e_phentsize c enc hdr) then
    { obj := { o with secs := secs, stream := ls.st }, ok := false, allocs := ls.allocs }
  else
    let r := loadSegmentsLoop c enc o.trans isLazy (Hdr.e_phoff c enc hdr).toInt (Hdr.e_phentsize c enc hdr).toNat
      secs (Hdr.e_phnum c enc hdr).toNat 0 ls []
    { obj := { o with secs := secs, segs := r.2.1, stream := r.1.st }, ok := r.2.2, allocs := r.1.allocs }

def loadBody (o : Obj) (c : Cls) (enc : Enc) (hdr : Bytes) (st : IStream) (isLazy : Bool) : M LoadRes := do
  let p ← loadNames c enc o.trans hdr (loadSections c enc o.trans isLazy hdr st).1
            (loadSections c enc o.trans isLazy hdr st).2
  pure (loadSegs o c enc hdr isLazy p.1 p.2)

def loadFail (o : Obj) (st : IStream) : M LoadRes := pure { obj := { o with stream := st }, ok := false, allocs := [] }

theorem load_eq_ls (o : Obj) (st : IStream) (isLazy : Bool) :
    load o st isLazy =
      let o1 := { o with secs := [], segs := [] }
      let r1 := (st.seekg (trApply o.trans 0)).read 16
      let idb (i : Nat) : Nat := (r1.2.getD i 0).toNat
      if r1.1.gcount != 16 then loadFail o1 r1.1 else
      if idb 0 != ELFMAG0 || idb 1 != ELFMAG1 || idb 2 != ELFMAG2 || idb 3 != ELFMAG3 then loadFail o1 r1.1 else
      match clsOfByte (idb EI_CLASS), encOfByte (idb EI_DATA) with
      | none, _ => loadFail o1 r1.1
      | some _, none => loadFail o1 r1.1
      | some c, some enc =>
        let r2 := (r1.1.seekg (trApply o.trans 0)).read (ehdrSize c)
        let hdr := wr (Hdr.create c enc (idb EI_DATA)) 0 r2.2
        let o2 := { o1 with cls := c, enc := enc, hdr := some hdr }
        if r2.1.gcount != ehdrSize c then loadFail o2 r2.1 else loadBody o2 c enc hdr r2.1 isLazy := by
  rw [LoadTie.load_hand]
  unfold LoadTie.loadHand loadBody loadNames loadSections loadSegs loadFail
  simp only []
  split
  · rfl
  · split
    · rfl
    · generalize clsOfByte _ = x
      generalize encOfByte _ = y
      cases x <;> cases y <;> simp only []
      repeat' split
      all_goals first | rfl | (simp_all; done)

/-! ### the gate: magic, class, encoding, ELF header -/

theorem wrField_length_ls (e : Enc) (n x : Nat) : (wrField e n x).length = n := by
  have hl : hostIsLittle = true := rfl
  simp [wrField, hostEncode, hl]

theorem wr_length_gen (b src : Bytes) (off : Nat) :
    (wr b off src).length = min off b.length + src.length + (b.length - (off + src.length)) := by
  unfold wr; simp; omega

theorem Hdr.create_length (c : Cls) (enc : Enc) (x : Nat) : (Hdr.create c enc x).length = ehdrSize c := by
  cases c <;>
  · unfold Hdr.create
    simp only [wr_length_gen, wrField_length_ls, List.length_replicate, List.length_cons, List.length_nil, ehdrSize]
    decide

theorem wr_over (z src : Bytes) (h : z.length ≤ src.length) : wr z 0 src = src := by
  unfold wr; simp [List.drop_eq_nil_of_le h]

theorem getD_slice0 (img : Bytes) (n i : Nat) (h : i < n) : (slice img 0 n).getD i 0 = img.getD i 0 := by
  unfold slice
  simp [List.getD_eq_getElem?_getD, List.getElem?_take, h]

theorem seekg_zero (st : IStream) (hf : st.fail = false) : st.seekg 0 = { st with pos := 0, eof := false } := by
  have := IStream.seekg_ok_ls st hf 0 (by decide) (by simp)
  simpa using this

theorem sixteen_le_ehdr (c : Cls) : 16 ≤ ehdrSize c := by cases c <;> decide

/-- **header rung** : on an image with a valid identification and a complete ELF header the loader
    passes the gate with the header struct = the first `ehdrSize` bytes of the file -/
theorem load_gate (o : Obj) (st : IStream) (isLazy : Bool) (c : Cls) (enc : Enc) (htr : o.trans = [])
    (he : st.eof = false) (hf : st.fail = false)
    (hm0 : (st.data.getD 0 0).toNat = ELFMAG0) (hm1 : (st.data.getD 1 0).toNat = ELFMAG1)
    (hm2 : (st.data.getD 2 0).toNat = ELFMAG2) (hm3 : (st.data.getD 3 0).toNat = ELFMAG3)
    (hc : clsOfByte (st.data.getD EI_CLASS 0).toNat = some c)
    (henc : encOfByte (st.data.getD EI_DATA 0).toNat = some enc)
    (hlen : ehdrSize c ≤ st.data.length) :
    load o st isLazy =
      loadBody { o with secs := [], segs := [], cls := c, enc := enc, hdr := some (slice st.data 0 (ehdrSize c)) }
        c enc (slice st.data 0 (ehdrSize c)) { st with pos := ehdrSize c, gcount := ehdrSize c } isLazy := by
  have h16 := sixteen_le_ehdr c
  rw [load_eq_ls]
  have e0 : trApply o.trans 0 = 0 := by rw [htr]; rfl
  simp only [e0]
  rw [seekg_zero st hf, IStream.read_ok_ls { st with pos := 0, eof := false } rfl hf 16 (by simp; omega)]
  simp only [Nat.zero_add, bne_self_eq_false, Bool.false_eq_true, if_false]
  rw [getD_slice0 _ 16 0 (by decide), getD_slice0 _ 16 1 (by decide), getD_slice0 _ 16 2 (by decide),
    getD_slice0 _ 16 3 (by decide), getD_slice0 _ 16 EI_CLASS (by decide), getD_slice0 _ 16 EI_DATA (by decide)]
  simp only [hm0, hm1, hm2, hm3, hc, henc, bne_self_eq_false, Bool.or_self, Bool.false_eq_true, if_false]
  rw [seekg_zero { st with pos := 0 + 16, eof := false, gcount := 16 } hf,
    IStream.read_ok_ls { st with pos := 0, eof := false, gcount := 16 } rfl hf (ehdrSize c) (by simp; omega)]
  simp only [Nat.zero_add, bne_self_eq_false, Bool.false_eq_true, if_false]
  rw [wr_over _ _ (by rw [Hdr.create_length, slice_length_of_le (by omega)]; exact Nat.le_refl _)]
  congr 1
  cases st; simp_all

/-! ### sections rung -/

theorem loadSections_inside (c : Cls) (enc : Enc) (isLazy : Bool) (hdr : Bytes) (st : IStream) (img : Bytes)
    (hd : st.data = img) (he : st.eof = false) (hf : st.fail = false)
    (h63 : img.length < 9223372036854775808)
    (hbad : load_sections_entsize_bad (Hdr.e_shnum c enc hdr) (Hdr.ident hdr EI_CLASS) (Hdr.e_shentsize c enc hdr) = false)
    (hall : ∀ j, j < (Hdr.e_shnum c enc hdr).toNat →
      (Hdr.e_shoff c enc hdr).toNat + j * (Hdr.e_shentsize c enc hdr).toNat + shdrSize c ≤ img.length ∧
      SecInside img.length (secHdr c enc img
        ((Hdr.e_shoff c enc hdr).toNat + j * (Hdr.e_shentsize c enc hdr).toNat) isLazy j)) :
    (loadSections c enc [] isLazy hdr st).1.st.data = img ∧
    (loadSections c enc [] isLazy hdr st).1.st.eof = false ∧
    (loadSections c enc [] isLazy hdr st).1.st.fail = false ∧
    (loadSections c enc [] isLazy hdr st).1.st.kind = st.kind ∧
    (loadSections c enc [] isLazy hdr st).2.length = (Hdr.e_shnum c enc hdr).toNat ∧
    ∀ j (h : j < (loadSections c enc [] isLazy hdr st).2.length),
      SecSt c enc img ((Hdr.e_shoff c enc hdr).toNat + j * (Hdr.e_shentsize c enc hdr).toNat) isLazy j
        (!isLazy) [] (loadSections c enc [] isLazy hdr st).2[j] := by
  unfold loadSections
  simp only [hbad, Bool.false_eq_true, if_false]
  by_cases hn : (Hdr.e_shnum c enc hdr).toNat = 0
  · rw [hn]
    simp only [loadSectionsLoop, List.reverse_nil, List.length_nil]
    exact ⟨hd, he, hf, by simp, by simp, fun j h => absurd h (by simp)⟩
  · have h0 := (hall 0 (by omega)).1
    have hlt : (Hdr.e_shoff c enc hdr).toNat < 9223372036854775808 := by omega
    rw [toInt_of_lt _ hlt]
    have h := loadSectionsLoop_inside c enc isLazy (Hdr.e_shoff c enc hdr).toNat (Hdr.e_shentsize c enc hdr).toNat
      img h63 (Hdr.e_shnum c enc hdr).toNat 0 { st := st } [] hd he hf
      (fun j _ hj => hall j (by omega))
    obtain ⟨g1, g2, g3, g4, l, g5, g6, g7⟩ := h
    simp only [List.reverse_nil, List.nil_append] at g5
    refine ⟨g1, g2, g3, g4, by rw [g5, g6], ?_⟩
    intro j hj
    have := g7 j (by rw [g5] at hj; exact hj)
    simp only [Nat.zero_add] at this
    simp only [g5]
    exact this

/-! ### names rung -/

/-- the section-name string table of the image (none: `e_shstrndx = SHN_UNDEF`) -/
def strtabOf (c : Cls) (enc : Enc) (img : Bytes) (shoff entsize : Nat) (isLazy : Bool) (ndx : Nat) : Option Bytes :=
  if ndx = 0 then none else some (secBytes img (secHdr c enc img (shoff + ndx * entsize) isLazy ndx))

def nameOf (T : Option Bytes) (nameOff : Nat) : Bytes :=
  match T with
  | none => []
  | some T => (Spec.cstrAt T nameOff).getD []

theorem SecSt_withName (c : Cls) (enc : Enc) (img : Bytes) (k : Nat) (isLazy : Bool) (idx : Nat) (res : Bool)
    (T : Bytes) (b : SecBuf) (h : SecSt c enc img k isLazy idx res [] b) :
    SecSt c enc img k isLazy idx res
      ((Spec.cstrAt T (secHdr c enc img k isLazy idx).nameOff.toNat).getD []) (withName_ls T b) := by
  obtain ⟨fd, L, hb, hL⟩ := h
  refine ⟨fd, L, ?_, hL⟩
  have hn : b.nameOff = (secHdr c enc img k isLazy idx).nameOff := by rw [hb]
  unfold withName_ls
  rw [hn]
  cases Spec.cstrAt T (secHdr c enc img k isLazy idx).nameOff.toNat with
  | none => simpa using hb
  | some s => rw [hb]; simp

theorem loadNames_inside (c : Cls) (enc : Enc) (isLazy : Bool) (hdr : Bytes) (img : Bytes) (ls : LoadSt)
    (secs : List SecBuf) (shoff entsize : Nat)
    (hd : ls.st.data = img) (h63 : img.length < 9223372036854775808)
    (hbad : load_sections_entsize_bad (Hdr.e_shnum c enc hdr) (Hdr.ident hdr EI_CLASS) (Hdr.e_shentsize c enc hdr) = false)
    (hndx : (Hdr.e_shstrndx c enc hdr).toNat = 0 ∨ (Hdr.e_shstrndx c enc hdr).toNat < secs.length)
    (hin : ∀ j, j < secs.length → SecInside img.length (secHdr c enc img (shoff + j * entsize) isLazy j))
    (hsecs : ∀ j (h : j < secs.length), SecSt c enc img (shoff + j * entsize) isLazy j (!isLazy) [] secs[j]) :
    ∃ (ls' : LoadSt) (secs' : List SecBuf),
      loadNames c enc [] hdr ls secs = .ok (ls', secs') ∧
      ls'.st.data = img ∧ ls'.st.eof = ls.st.eof ∧ ls'.st.fail = ls.st.fail ∧ ls'.st.kind = ls.st.kind ∧
      secs'.length = secs.length ∧
      ∀ j (h : j < secs'.length), ∃ res : Bool,
        SecSt c enc img (shoff + j * entsize) isLazy j res
          (nameOf (strtabOf c enc img shoff entsize isLazy (Hdr.e_shstrndx c enc hdr).toNat)
            (secHdr c enc img (shoff + j * entsize) isLazy j).nameOff.toNat) secs'[j] ∧
        (isLazy = false → res = true) := by
  unfold loadNames
  simp only [hbad, Bool.false_eq_true, if_false]
  by_cases hz : (Hdr.e_shstrndx c enc hdr).toNat = 0
  · have hz' : (Hdr.e_shstrndx c enc hdr == BitVec.ofNat 16 SHN_UNDEF) = true := by
      have : Hdr.e_shstrndx c enc hdr = 0#16 := BitVec.eq_of_toNat_eq (by simpa using hz)
      rw [this]; decide
    simp only [hz', if_true]
    refine ⟨ls, secs, rfl, hd, rfl, rfl, rfl, rfl, ?_⟩
    intro j h
    refine ⟨!isLazy, ?_, by intro h; simp [h]⟩
    simpa [strtabOf, hz, nameOf] using hsecs j h
  · have hz' : (Hdr.e_shstrndx c enc hdr == BitVec.ofNat 16 SHN_UNDEF) = false := by
      apply Bool.eq_false_iff.mpr
      intro h
      have := eq_of_beq h
      apply hz; rw [this]; decide
    have hlt : (Hdr.e_shstrndx c enc hdr).toNat < secs.length := by
      rcases hndx with h | h
      · exact absurd h hz
      · exact h
    simp only [hz', Bool.false_eq_true, if_false, List.getElem?_eq_getElem hlt]
    generalize hN : (Hdr.e_shstrndx c enc hdr).toNat = N at *
    have hst := hsecs N hlt
    have hg := secGetData_SecSt c enc img (shoff + N * entsize) isLazy N (!isLazy) [] secs[N] ls hd h63
      (hin N hlt) hst
    obtain ⟨hS, hE, hF, _⟩ := hg
    have hstr : ∀ x, getString (secGetData c [] ls secs[N]).2 x =
        .ok (Spec.cstrAt (secBytes img (secHdr c enc img (shoff + N * entsize) isLazy N)) x.toNat) := by
      intro x
      obtain ⟨fd, L, hb, _⟩ := hS
      apply getString_resident img _ (secHdr c enc img (shoff + N * entsize) isLazy N) x
      · rw [hb]; simp
      · rw [hb]
      · exact hin N hlt
    rw [resolveNames_eq_ls _ _ hstr]
    refine ⟨_, _, rfl, by simp [hd], hE, hF, by simp, by simp, ?_⟩
    intro j h
    have hj : j < secs.length := by simpa using h
    simp only [List.getElem_map, List.getElem_set]
    have hT : strtabOf c enc img shoff entsize isLazy N =
        some (secBytes img (secHdr c enc img (shoff + N * entsize) isLazy N)) := by
      simp [strtabOf, hz]
    rw [hT]
    simp only [nameOf]
    by_cases hjn : N = j
    · subst hjn
      simp only [if_true]
      exact ⟨true, SecSt_withName _ _ _ _ _ _ _ _ _ hS, fun _ => rfl⟩
    · simp only [hjn, if_false]
      exact ⟨!isLazy, SecSt_withName _ _ _ _ _ _ _ _ _ (hsecs j hj), by intro h; simp [h]⟩

/-! ### segments rung and assembly -/

theorem loadSegs_inside (o : Obj) (c : Cls) (enc : Enc) (isLazy : Bool) (hdr : Bytes) (img : Bytes) (ls : LoadSt)
    (secs : List SecBuf) (htr : o.trans = [])
    (hd : ls.st.data = img) (he : ls.st.eof = false) (hf : ls.st.fail = false)
    (h63 : img.length < 9223372036854775808)
    (hbad : load_segments_entsize_bad (Hdr.e_phnum c enc hdr) (Hdr.ident hdr EI_CLASS) (Hdr.e_phentsize c enc hdr) = false)
    (hall : ∀ j, j < (Hdr.e_phnum c enc hdr).toNat →
      (Hdr.e_phoff c enc hdr).toNat + j * (Hdr.e_phentsize c enc hdr).toNat + phdrSize c ≤ img.length ∧
      SegInside img.length (segHdr_ls c enc img
        ((Hdr.e_phoff c enc hdr).toNat + j * (Hdr.e_phentsize c enc hdr).toNat) isLazy)) :
    (loadSegs o c enc hdr isLazy ls secs).ok = true ∧
    (loadSegs o c enc hdr isLazy ls secs).obj.secs = secs ∧
    (loadSegs o c enc hdr isLazy ls secs).obj.cls = o.cls ∧
    (loadSegs o c enc hdr isLazy ls secs).obj.enc = o.enc ∧
    (loadSegs o c enc hdr isLazy ls secs).obj.hdr = o.hdr ∧
    (loadSegs o c enc hdr isLazy ls secs).obj.trans = o.trans ∧
    (loadSegs o c enc hdr isLazy ls secs).obj.stream.data = img ∧
    (loadSegs o c enc hdr isLazy ls secs).obj.stream.eof = false ∧
    (loadSegs o c enc hdr isLazy ls secs).obj.stream.fail = false ∧
    (loadSegs o c enc hdr isLazy ls secs).obj.stream.kind = ls.st.kind ∧
    (loadSegs o c enc hdr isLazy ls secs).obj.segs.length = (Hdr.e_phnum c enc hdr).toNat ∧
    ∀ j (h : j < (loadSegs o c enc hdr isLazy ls secs).obj.segs.length),
      (loadSegs o c enc hdr isLazy ls secs).obj.segs[j] =
        segFinal c enc img ((Hdr.e_phoff c enc hdr).toNat + j * (Hdr.e_phentsize c enc hdr).toNat) isLazy j secs := by
  unfold loadSegs
  simp only [hbad, Bool.false_eq_true, if_false, htr]
  by_cases hn : (Hdr.e_phnum c enc hdr).toNat = 0
  · rw [hn]
    simp only [loadSegmentsLoop, List.reverse_nil, List.length_nil]
    refine ⟨?_, ?_, ?_, ?_, ?_, ?_, ?_, ?_, ?_, ?_, ?_, fun j h => absurd h (by simp)⟩ <;>
      first | trivial | rfl | exact hd | exact he | exact hf | simp [htr]
  · have h0 := (hall 0 (by omega)).1
    have hlt : (Hdr.e_phoff c enc hdr).toNat < 9223372036854775808 := by omega
    rw [toInt_of_lt _ hlt]
    have h := loadSegmentsLoop_inside c enc isLazy (Hdr.e_phoff c enc hdr).toNat (Hdr.e_phentsize c enc hdr).toNat
      img h63 secs (Hdr.e_phnum c enc hdr).toNat 0 ls [] hd he hf (fun j _ hj => hall j (by omega))
    obtain ⟨g1, g2, g3, g4, g5, l, g6, g7, g8⟩ := h
    simp only [List.reverse_nil, List.nil_append] at g6
    refine ⟨?_, ?_, ?_, ?_, ?_, ?_, ?_, ?_, ?_, ?_, ?_, ?_⟩
    any_goals first | trivial | rfl | exact g5 | exact g1 | exact g2 | exact g3 | exact g4 | (simp only [g6, g7]; done) | (simp [htr]; done)
    intro j hj
    have := g8 j (by simp only [g6] at hj; exact hj)
    simp only [Nat.zero_add] at this
    simp only [g6]
    exact this

/-- **sections, names and segments rungs assembled** : everything after the gate, on an image that
    contains all its tables and ranges -/
theorem loadBody_inside (o : Obj) (c : Cls) (enc : Enc) (isLazy : Bool) (hdr : Bytes) (img : Bytes) (st : IStream)
    (htr : o.trans = [])
    (hd : st.data = img) (he : st.eof = false) (hf : st.fail = false)
    (h63 : img.length < 9223372036854775808)
    (hbadS : load_sections_entsize_bad (Hdr.e_shnum c enc hdr) (Hdr.ident hdr EI_CLASS) (Hdr.e_shentsize c enc hdr) = false)
    (hbadP : load_segments_entsize_bad (Hdr.e_phnum c enc hdr) (Hdr.ident hdr EI_CLASS) (Hdr.e_phentsize c enc hdr) = false)
    (hallS : ∀ j, j < (Hdr.e_shnum c enc hdr).toNat →
      (Hdr.e_shoff c enc hdr).toNat + j * (Hdr.e_shentsize c enc hdr).toNat + shdrSize c ≤ img.length ∧
      SecInside img.length (secHdr c enc img
        ((Hdr.e_shoff c enc hdr).toNat + j * (Hdr.e_shentsize c enc hdr).toNat) isLazy j))
    (hallP : ∀ j, j < (Hdr.e_phnum c enc hdr).toNat →
      (Hdr.e_phoff c enc hdr).toNat + j * (Hdr.e_phentsize c enc hdr).toNat + phdrSize c ≤ img.length ∧
      SegInside img.length (segHdr_ls c enc img
        ((Hdr.e_phoff c enc hdr).toNat + j * (Hdr.e_phentsize c enc hdr).toNat) isLazy))
    (hndx : (Hdr.e_shstrndx c enc hdr).toNat = 0 ∨
      (Hdr.e_shstrndx c enc hdr).toNat < (Hdr.e_shnum c enc hdr).toNat) :
    ∃ r : LoadRes, loadBody o c enc hdr st isLazy = .ok r ∧ r.ok = true ∧
      r.obj.cls = o.cls ∧ r.obj.enc = o.enc ∧ r.obj.hdr = o.hdr ∧ r.obj.trans = o.trans ∧
      r.obj.stream.data = img ∧ r.obj.stream.eof = false ∧ r.obj.stream.fail = false ∧
      r.obj.stream.kind = st.kind ∧
      r.obj.secs.length = (Hdr.e_shnum c enc hdr).toNat ∧
      (∀ j (h : j < r.obj.secs.length), ∃ res : Bool,
        SecSt c enc img ((Hdr.e_shoff c enc hdr).toNat + j * (Hdr.e_shentsize c enc hdr).toNat) isLazy j res
          (nameOf (strtabOf c enc img (Hdr.e_shoff c enc hdr).toNat (Hdr.e_shentsize c enc hdr).toNat isLazy
                    (Hdr.e_shstrndx c enc hdr).toNat)
            (secHdr c enc img ((Hdr.e_shoff c enc hdr).toNat + j * (Hdr.e_shentsize c enc hdr).toNat)
              isLazy j).nameOff.toNat) r.obj.secs[j] ∧
        (isLazy = false → res = true)) ∧
      r.obj.segs.length = (Hdr.e_phnum c enc hdr).toNat ∧
      ∀ j (h : j < r.obj.segs.length),
        r.obj.segs[j] =
          segFinal c enc img ((Hdr.e_phoff c enc hdr).toNat + j * (Hdr.e_phentsize c enc hdr).toNat) isLazy j
            r.obj.secs := by
  have hS := loadSections_inside c enc isLazy hdr st img hd he hf h63 hbadS hallS
  obtain ⟨s1, s2, s3, s4, s5, s6⟩ := hS
  have hN := loadNames_inside c enc isLazy hdr img (loadSections c enc [] isLazy hdr st).1
    (loadSections c enc [] isLazy hdr st).2 (Hdr.e_shoff c enc hdr).toNat (Hdr.e_shentsize c enc hdr).toNat
    s1 h63 hbadS (by rw [s5]; exact hndx) (fun j hj => (hallS j (by rw [s5] at hj; exact hj)).2) s6
  obtain ⟨ls', secs', n1, n2, n3, n4, n5, n6, n7⟩ := hN
  have hG := loadSegs_inside o c enc isLazy hdr img ls' secs' htr n2 (by rw [n3]; exact s2) (by rw [n4]; exact s3)
    h63 hbadP hallP
  obtain ⟨p1, p2, p3, p4, p5, p6, p7, p8, p9, p10, p11, p12⟩ := hG
  refine ⟨loadSegs o c enc hdr isLazy ls' secs', ?_, p1, p3, p4, p5, p6, p7, p8, p9, by rw [p10, n5, s4], ?_, ?_,
    p11, ?_⟩
  · unfold loadBody
    rw [htr, n1]
    rfl
  · rw [p2, n6, s5]
  · intro j h
    simp only [p2] at h ⊢
    exact n7 j h
  · intro j h
    rw [p12 j h, p2]

/-! ## the same ladder with an address translation table

`cont` is the container stream's content, `tr` the translation table, `img` the plain image.
`RangeRep cont tr img off n` : the range `[off, off+n)` of `img` sits, translated, in `cont`.
With `tr = []` and `cont = img` everything below specialises to the plain lemmas above. -/

/-- the byte range `[off, off+n)` of the plain image is *represented* in the container: the
    translation of `off` is a position of the container at which the same `n` bytes sit -/
def RangeRep (cont : Bytes) (tr : List Trans) (img : Bytes) (off n : Nat) : Prop :=
  0 ≤ trApply tr (Int.ofNat off) ∧
  (trApply tr (Int.ofNat off)).toNat + n ≤ cont.length ∧
  off + n ≤ img.length ∧
  slice cont (trApply tr (Int.ofNat off)).toNat n = slice img off n

theorem rangeRep_nil (img : Bytes) (off n : Nat) (h : off + n ≤ img.length) : RangeRep img [] img off n := by
  refine ⟨by simp [trApply], by simpa [trApply] using h, h, by simp [trApply]⟩

theorem slice_prefix_ls (b b' : Bytes) (p q n m : Nat) (h : slice b p n = slice b' q n) (hm : m ≤ n) :
    slice b p m = slice b' q m := by
  have e : ∀ (x : Bytes) (r : Nat), slice x r m = (slice x r n).take m := by
    intro x r; unfold slice; rw [List.take_take]; congr 1; omega
  rw [e b p, e b' q, h]

theorem RangeRep.prefix {cont : Bytes} {tr : List Trans} {img : Bytes} {off n : Nat}
    (h : RangeRep cont tr img off n) (m : Nat) (hm : m ≤ n) : RangeRep cont tr img off m :=
  ⟨h.1, by have := h.2.1; omega, by have := h.2.2.1; omega, slice_prefix_ls _ _ _ _ _ _ h.2.2.2 hm⟩

/-- `stream_size` as `section_impl::load` / `segment_impl::load` compute it on a good stream: the
    length of the (container) stream, with or without a translation table (`tr` is kept as a
    parameter for the callers) -/
def ssOf (_tr : List Trans) (clen : Nat) : BitVec 64 := BitVec.ofNat 64 clen

theorem hdrRead_rep (tr : List Trans) (st : IStream) (he : st.eof = false) (hf : st.fail = false)
    (img : Bytes) (k n : Nat) (hrep : RangeRep st.data tr img k n) :
    hdrRead_ls tr st (Int.ofNat k) n =
      ({ st with pos := (trApply tr (Int.ofNat k)).toNat + n, gcount := n }, slice img k n,
       ssOf tr st.data.length) := by
  obtain ⟨h0, h1, h2, h3⟩ := hrep
  unfold hdrRead_ls
  rw [streamSizeOf_good_ls tr st he hf]
  simp only []
  rw [IStream.seekg_ok_ls { st with pos := st.data.length } hf _ h0
      (by show (trApply tr (Int.ofNat k)).toNat ≤ st.data.length; omega),
    IStream.read_ok_ls { st with pos := (trApply tr (Int.ofNat k)).toNat, eof := false } rfl hf n h1]
  simp only [h3, ssOf]
  cases st; simp_all

theorem secOff_toNat (tr : List Trans) (offset : BitVec 64) (h63 : offset.toNat < 9223372036854775808)
    (h0 : 0 ≤ trApply tr (Int.ofNat offset.toNat))
    (hlt : (trApply tr (Int.ofNat offset.toNat)).toNat < 9223372036854775808) :
    (secOff tr offset).toNat = (trApply tr (Int.ofNat offset.toNat)).toNat := by
  unfold secOff
  rw [toInt_of_lt offset h63, BitVec.toNat_ofInt]
  simp only [Nat.reducePow, Int.reducePow, Int.ofNat_eq_natCast] at *
  omega

theorem ult_max_false (x : BitVec 64) : BitVec.ult u64max x = false := by
  have ho := x.isLt
  simp only [Nat.reducePow] at ho
  show BitVec.ult 18446744073709551615#64 x = false
  simp only [BitVec.ult, BitVec.toNat_ofNat, Nat.reducePow, Nat.reduceMod, decide_eq_false_iff_not]; omega

theorem ult_max_sub_false (toff size : BitVec 64) (h : toff.toNat + size.toNat < 9223372036854775808) :
    BitVec.ult (u64max - toff) size = false := by
  show BitVec.ult (18446744073709551615#64 - toff) size = false
  simp only [BitVec.ult, decide_eq_false_iff_not]
  bv_omega

theorem guards_rep (tr : List Trans) (clen : Nat) (toff size : BitVec 64) (h63 : clen < 9223372036854775808)
    (h : toff.toNat + size.toNat ≤ clen) :
    BitVec.ult (ssOf tr clen) toff = false ∧
    (BitVec.ult (ssOf tr clen) size || BitVec.ult (ssOf tr clen - toff) size) = false ∧
    BitVec.ult (18446744073709551615#64 - BitVec.signExtend 64 1#32) size = false := by
  exact guards_inside toff size clen h63 h

/-- the isolated data read at the translated position delivers the plain bytes -/
theorem isolatedRead_rep (tr : List Trans) (st : IStream) (img : Bytes) (offset size : BitVec 64)
    (h63c : st.data.length < 9223372036854775808) (h63i : img.length < 9223372036854775808)
    (hrep : RangeRep st.data tr img offset.toNat size.toNat) :
    isolatedRead st (secOff tr offset) size =
      ({ st with pos := (secOff tr offset).toNat + size.toNat, gcount := size.toNat },
       slice img offset.toNat size.toNat, true) ∧
    (secOff tr offset).toNat + size.toNat ≤ st.data.length := by
  obtain ⟨h0, h1, h2, h3⟩ := hrep
  have hto := secOff_toNat tr offset (by omega) h0 (by omega)
  rw [isolatedRead_ok st (secOff tr offset) size (by rw [hto]; exact h1) h63c, hto, h3]
  exact ⟨rfl, h1⟩

theorem secOutcome_rep (c : Cls) (tr : List Trans) (st : IStream) (img : Bytes) (stype : BitVec 32)
    (size offset : BitVec 64) (h63c : st.data.length < 9223372036854775808)
    (h63i : img.length < 9223372036854775808) (hty : isNullOrNobitsTy stype = false)
    (hrep : RangeRep st.data tr img offset.toNat size.toNat) :
    secOutcome c tr st stype size offset (ssOf tr st.data.length) true =
      if size = 0 then .loadedEmpty else .loaded (slice img offset.toNat size.toNat) := by
  obtain ⟨hir, hle⟩ := isolatedRead_rep tr st img offset size h63c h63i hrep
  have g := guards_rep tr st.data.length (secOff tr offset) size h63c hle
  unfold secOutcome
  simp only [sec32_load_data_off_gt, sec64_load_data_off_gt, sec32_load_data_size_gt,
    sec64_load_data_size_gt, sec64_load_data_sizet, g.1, g.2.1, g.2.2, hty, hir]
  cases c <;> simp

/-- every range `load_data` would read for `b` is represented in the container -/
def SecRep (cont : Bytes) (tr : List Trans) (img : Bytes) (b : SecBuf) : Prop :=
  isNullOrNobitsTy b.stype = false → RangeRep cont tr img b.offset.toNat b.size.toNat

theorem secGetData_rep (c : Cls) (tr : List Trans) (img : Bytes) (ls : LoadSt) (b : SecBuf)
    (hl : b.isLoaded = false) (hcl : b.canLoad = true) (hnd : b.data = none)
    (hss : b.streamSize = ssOf tr ls.st.data.length)
    (h63c : ls.st.data.length < 9223372036854775808) (h63i : img.length < 9223372036854775808)
    (hin : SecRep ls.st.data tr img b) :
    (∃ L : Bool, (secGetData c tr ls b).2 =
      { b with data := (secData_ls img b).1, dataSize := (secData_ls img b).2,
               isLoaded := L, canLoad := L } ∧ (isNullOrNobitsTy b.stype = false → L = true)) ∧
    (secGetData c tr ls b).1.st.eof = ls.st.eof ∧ (secGetData c tr ls b).1.st.fail = ls.st.fail := by
  rw [secGetData_snd, secGetData_st]
  simp only [hl, hcl, Bool.not_false, Bool.and_self, if_true, hnd, hss, Option.isNone_none, Bool.true_and]
  cases hty : isNullOrNobitsTy b.stype
  · have hi := hin hty
    have hO := secOutcome_rep c tr ls.st img b.stype b.size b.offset h63c h63i hty hi
    have hir := (isolatedRead_rep tr ls.st img b.offset b.size h63c h63i hi).1
    by_cases hz : b.size = 0
    · simp only [hz, if_true] at hO
      simp only [hO, secGetApply, SecOutcome.apply, SecOutcome.reads, secData_ls, hty, hz, Bool.false_eq_true,
        if_false, if_true]
      refine ⟨⟨true, ?_, fun _ => rfl⟩, by first | trivial | exact ⟨rfl, rfl⟩ | simp⟩
      cases b; simp_all
    · simp only [hz, if_false] at hO
      simp only [hO, secGetApply, SecOutcome.apply, SecOutcome.reads, secData_ls, hty, hz, Bool.false_eq_true,
        if_false, if_true, hir]
      refine ⟨⟨true, ?_, fun _ => rfl⟩, by first | trivial | exact ⟨rfl, rfl⟩ | simp⟩
      cases b; simp_all
  · rcases secOutcome_nobits c tr ls.st b.stype b.size b.offset (ssOf tr ls.st.data.length) hty with h | h
    · simp only [h, secGetApply, SecOutcome.apply, SecOutcome.reads, secData_ls, hty, if_true, Bool.false_eq_true,
        if_false]
      refine ⟨⟨false, ?_, fun h => by simp at h⟩, by first | trivial | exact ⟨rfl, rfl⟩ | simp⟩
      cases b; simp_all
    · simp only [h, secGetApply, SecOutcome.apply, SecOutcome.reads, secData_ls, hty, if_true, Bool.false_eq_true,
        if_false]
      refine ⟨⟨true, ?_, fun _ => rfl⟩, by first | trivial | exact ⟨rfl, rfl⟩ | simp⟩
      cases b; simp_all

/-- the header record as decoded through a translation table: the plain record with the two
    bookkeeping fields the translator influences -/
def secHdrT (c : Cls) (enc : Enc) (tr : List Trans) (clen : Nat) (img : Bytes) (k : Nat) (isLazy : Bool)
    (idx : Nat) : SecBuf :=
  { secHdr c enc img k isLazy idx with streamSize := ssOf tr clen, translatorEmpty := tr.isEmpty }

theorem decodeShdr_T (c : Cls) (enc : Enc) (tr : List Trans) (clen : Nat) (img : Bytes) (k : Nat)
    (isLazy : Bool) (idx : Nat) :
    decodeShdr c enc (slice img k (shdrSize c)) (secInit c (ssOf tr clen) tr.isEmpty isLazy idx) =
      secHdrT c enc tr clen img k isLazy idx := by
  cases c <;> rfl

/-- section `idx` of image `img` as loaded from a container through `tr` -/
def SecStT (c : Cls) (enc : Enc) (tr : List Trans) (clen : Nat) (img : Bytes) (k : Nat) (isLazy : Bool)
    (idx : Nat) (res : Bool) (nm : Bytes) (b : SecBuf) : Prop :=
  ∃ (fd : Option Bytes) (L : Bool),
    b = { secHdrT c enc tr clen img k isLazy idx with
            addrSet := true, fileData := fd, name := nm, canLoad := !res || L, isLoaded := res && L,
            data := if res then (secData_ls img (secHdr c enc img k isLazy idx)).1 else none,
            dataSize := if res then (secData_ls img (secHdr c enc img k isLazy idx)).2 else 0 } ∧
    (isNullOrNobitsTy (secHdr c enc img k isLazy idx).stype = false → L = true)

theorem secData_T (c : Cls) (enc : Enc) (tr : List Trans) (clen : Nat) (img : Bytes) (k : Nat)
    (isLazy : Bool) (idx : Nat) (fd : Option Bytes) :
    secData_ls img { secHdrT c enc tr clen img k isLazy idx with fileData := fd } =
      secData_ls img (secHdr c enc img k isLazy idx) := rfl

/-- **`section_impl::load` through a translation table** -/
theorem secLoad_rep (c : Cls) (enc : Enc) (tr : List Trans) (img : Bytes) (ls : LoadSt) (k : Nat)
    (isLazy : Bool) (idx : Nat) (he : ls.st.eof = false) (hf : ls.st.fail = false)
    (h63c : ls.st.data.length < 9223372036854775808) (h63i : img.length < 9223372036854775808)
    (hk : RangeRep ls.st.data tr img k (shdrSize c))
    (hin : SecRep ls.st.data tr img (secHdr c enc img k isLazy idx)) :
    SecStT c enc tr ls.st.data.length img k isLazy idx (!isLazy) []
      (secLoad c enc tr ls (Int.ofNat k) isLazy idx).2 ∧
    (secLoad c enc tr ls (Int.ofNat k) isLazy idx).1.st.eof = false ∧
    (secLoad c enc tr ls (Int.ofNat k) isLazy idx).1.st.fail = false ∧
    (secLoad c enc tr ls (Int.ofNat k) isLazy idx).1.st.data = ls.st.data ∧
    (secLoad c enc tr ls (Int.ofNat k) isLazy idx).1.st.kind = ls.st.kind := by
  rw [secLoad_eq_ls, hdrRead_rep tr ls.st he hf img k (shdrSize c) hk]
  simp only [bne_self_eq_false, Bool.false_eq_true, if_false, decodeShdr_T]
  cases isLazy
  · simp only [Bool.false_eq_true, if_false]
    generalize fileDataOf c tr _ _ = fd
    have hg := secGetData_rep c tr img
      { ls with st := { ls.st with pos := (trApply tr (Int.ofNat k)).toNat + shdrSize c, gcount := shdrSize c } }
      { secHdrT c enc tr ls.st.data.length img k false idx with fileData := fd }
      (by simp [secHdrT, secHdr, secInit]) (by simp [secHdrT, secHdr, secInit]) (by simp [secHdrT, secHdr, secInit])
      (by simp [secHdrT]) h63c h63i hin
    obtain ⟨⟨L, h1, h2⟩, h3, h4⟩ := hg
    refine ⟨⟨fd, L, ?_, h2⟩, ?_, ?_, ?_, ?_⟩
    · rw [h1, secData_T]
      simp [secData_ls, secHdrT, secHdr, secInit]
    · rw [h3]; exact he
    · rw [h4]; exact hf
    · simp
    · simp
  · simp only [if_true]
    generalize fileDataOf c tr _ _ = fd
    refine ⟨⟨fd, true, ?_, fun _ => rfl⟩, by simp [he, hf]⟩
    simp [secHdrT, secHdr, secInit]

/-- `get_data()` in any such state, on any stream over the container -/
theorem secGetData_SecStT (c : Cls) (enc : Enc) (tr : List Trans) (cont img : Bytes) (k : Nat) (isLazy : Bool)
    (idx : Nat) (res : Bool) (nm : Bytes) (b : SecBuf) (ls : LoadSt) (hd : ls.st.data = cont)
    (h63c : cont.length < 9223372036854775808) (h63i : img.length < 9223372036854775808)
    (hin : SecRep cont tr img (secHdr c enc img k isLazy idx))
    (hb : SecStT c enc tr cont.length img k isLazy idx res nm b) :
    SecStT c enc tr cont.length img k isLazy idx true nm (secGetData c tr ls b).2 ∧
    (secGetData c tr ls b).1.st.eof = ls.st.eof ∧ (secGetData c tr ls b).1.st.fail = ls.st.fail ∧
    (res = true → secGetData c tr ls b = (ls, b)) := by
  obtain ⟨fd, L, hb, hL⟩ := hb
  subst hd
  cases res
  · have hg := secGetData_rep c tr img ls b (by rw [hb]; rfl) (by rw [hb]; rfl) (by rw [hb]; rfl)
      (by rw [hb]; rfl) h63c h63i (by rw [hb]; exact hin)
    obtain ⟨⟨L', h1, h2⟩, h3⟩ := hg
    refine ⟨⟨fd, L', ?_, ?_⟩, h3.1, h3.2, by simp⟩
    · have hz : (secHdr c enc img k isLazy idx).dataSize = 0 := by simp [secHdr, secInit]
      rw [h1, hb]; simp [secData_ls, hz, secHdrT]
    · intro h; apply h2; rw [hb]; exact h
  · have hno : secGetData c tr ls b = (ls, b) := by
      rw [secGetData_eq_ls, hb]; cases L <;> simp
    rw [hno]
    exact ⟨⟨fd, L, hb, hL⟩, rfl, rfl, fun _ => rfl⟩

/-- the section loop through a translation table -/
theorem loadSectionsLoop_rep (c : Cls) (enc : Enc) (tr : List Trans) (isLazy : Bool) (shoff entsize : Nat)
    (cont img : Bytes) (h63c : cont.length < 9223372036854775808) (h63i : img.length < 9223372036854775808) :
    ∀ (n i : Nat) (ls : LoadSt) (acc : List SecBuf),
      ls.st.data = cont → ls.st.eof = false → ls.st.fail = false →
      (∀ j, i ≤ j → j < i + n → RangeRep cont tr img (shoff + j * entsize) (shdrSize c) ∧
        SecRep cont tr img (secHdr c enc img (shoff + j * entsize) isLazy j)) →
      let r := loadSectionsLoop c enc tr isLazy (Int.ofNat shoff) entsize n i ls acc
      r.1.st.data = cont ∧ r.1.st.eof = false ∧ r.1.st.fail = false ∧ r.1.st.kind = ls.st.kind ∧
      ∃ l : List SecBuf, r.2 = acc.reverse ++ l ∧ l.length = n ∧
        ∀ j (h : j < l.length),
          SecStT c enc tr cont.length img (shoff + (i + j) * entsize) isLazy (i + j) (!isLazy) [] l[j] := by
  intro n
  induction n with
  | zero =>
    intro i ls acc hd he hf _
    exact ⟨hd, he, hf, rfl, [], by simp [loadSectionsLoop], rfl, fun j h => absurd h (by simp)⟩
  | succ n ih =>
    intro i ls acc hd he hf hall
    have hi := hall i (Nat.le_refl _) (by omega)
    subst hd
    have h1 := secLoad_rep c enc tr img ls (shoff + i * entsize) isLazy i he hf h63c h63i hi.1 hi.2
    obtain ⟨hs, he', hf', hd', hk'⟩ := h1
    simp only [loadSectionsLoop, ofNat_add_mul]
    have h2 := ih (i + 1) (secLoad c enc tr ls (Int.ofNat (shoff + i * entsize)) isLazy i).1
      ((secLoad c enc tr ls (Int.ofNat (shoff + i * entsize)) isLazy i).2 :: acc) hd' he' hf'
      (fun j h1 h2 => hall j (by omega) (by omega))
    obtain ⟨g1, g2, g3, g4, l, g5, g6, g7⟩ := h2
    refine ⟨g1, g2, g3, by rw [g4, hk'], (secLoad c enc tr ls (Int.ofNat (shoff + i * entsize)) isLazy i).2 :: l,
      ?_, by simp [g6], ?_⟩
    · rw [g5]; simp
    · intro j h
      cases j with
      | zero => simpa using hs
      | succ j =>
        have := g7 j (by simpa using h)
        simpa [Nat.add_assoc, Nat.add_comm 1 j] using this

theorem SecStT_withName (c : Cls) (enc : Enc) (tr : List Trans) (clen : Nat) (img : Bytes) (k : Nat)
    (isLazy : Bool) (idx : Nat) (res : Bool) (T : Bytes) (b : SecBuf)
    (h : SecStT c enc tr clen img k isLazy idx res [] b) :
    SecStT c enc tr clen img k isLazy idx res
      ((Spec.cstrAt T (secHdr c enc img k isLazy idx).nameOff.toNat).getD []) (withName_ls T b) := by
  obtain ⟨fd, L, hb, hL⟩ := h
  refine ⟨fd, L, ?_, hL⟩
  have hn : b.nameOff = (secHdr c enc img k isLazy idx).nameOff := by rw [hb]; rfl
  unfold withName_ls
  rw [hn]
  cases Spec.cstrAt T (secHdr c enc img k isLazy idx).nameOff.toNat with
  | none => simpa using hb
  | some s => rw [hb]; simp [secHdrT]

theorem loadNames_rep (c : Cls) (enc : Enc) (tr : List Trans) (isLazy : Bool) (hdr : Bytes) (cont img : Bytes)
    (ls : LoadSt) (secs : List SecBuf) (shoff entsize : Nat)
    (hd : ls.st.data = cont) (h63c : cont.length < 9223372036854775808)
    (h63i : img.length < 9223372036854775808)
    (hbad : load_sections_entsize_bad (Hdr.e_shnum c enc hdr) (Hdr.ident hdr EI_CLASS) (Hdr.e_shentsize c enc hdr) = false)
    (hndx : (Hdr.e_shstrndx c enc hdr).toNat = 0 ∨ (Hdr.e_shstrndx c enc hdr).toNat < secs.length)
    (hin : ∀ j, j < secs.length → SecRep cont tr img (secHdr c enc img (shoff + j * entsize) isLazy j))
    (hsecs : ∀ j (h : j < secs.length),
      SecStT c enc tr cont.length img (shoff + j * entsize) isLazy j (!isLazy) [] secs[j]) :
    ∃ (ls' : LoadSt) (secs' : List SecBuf),
      loadNames c enc tr hdr ls secs = .ok (ls', secs') ∧
      ls'.st.data = cont ∧ ls'.st.eof = ls.st.eof ∧ ls'.st.fail = ls.st.fail ∧ ls'.st.kind = ls.st.kind ∧
      secs'.length = secs.length ∧
      ∀ j (h : j < secs'.length), ∃ res : Bool,
        SecStT c enc tr cont.length img (shoff + j * entsize) isLazy j res
          (nameOf (strtabOf c enc img shoff entsize isLazy (Hdr.e_shstrndx c enc hdr).toNat)
            (secHdr c enc img (shoff + j * entsize) isLazy j).nameOff.toNat) secs'[j] ∧
        (isLazy = false → res = true) := by
  unfold loadNames
  simp only [hbad, Bool.false_eq_true, if_false]
  by_cases hz : (Hdr.e_shstrndx c enc hdr).toNat = 0
  · have hz' : (Hdr.e_shstrndx c enc hdr == BitVec.ofNat 16 SHN_UNDEF) = true := by
      have : Hdr.e_shstrndx c enc hdr = 0#16 := BitVec.eq_of_toNat_eq (by simpa using hz)
      rw [this]; decide
    simp only [hz', if_true]
    refine ⟨ls, secs, rfl, hd, rfl, rfl, rfl, rfl, ?_⟩
    intro j h
    refine ⟨!isLazy, ?_, by intro h; simp [h]⟩
    simpa [strtabOf, hz, nameOf] using hsecs j h
  · have hz' : (Hdr.e_shstrndx c enc hdr == BitVec.ofNat 16 SHN_UNDEF) = false := by
      apply Bool.eq_false_iff.mpr
      intro h
      have := eq_of_beq h
      apply hz; rw [this]; decide
    have hlt : (Hdr.e_shstrndx c enc hdr).toNat < secs.length := by
      rcases hndx with h | h
      · exact absurd h hz
      · exact h
    simp only [hz', Bool.false_eq_true, if_false, List.getElem?_eq_getElem hlt]
    generalize hN : (Hdr.e_shstrndx c enc hdr).toNat = N at *
    have hst := hsecs N hlt
    have hg := secGetData_SecStT c enc tr cont img (shoff + N * entsize) isLazy N (!isLazy) [] secs[N] ls hd
      h63c h63i (hin N hlt) hst
    obtain ⟨hS, hE, hF, _⟩ := hg
    have hstr : ∀ x, getString (secGetData c tr ls secs[N]).2 x =
        .ok (Spec.cstrAt (secBytes img (secHdr c enc img (shoff + N * entsize) isLazy N)) x.toNat) := by
      intro x
      obtain ⟨fd, L, hb, _⟩ := hS
      apply getString_resident img _ (secHdr c enc img (shoff + N * entsize) isLazy N) x
      · rw [hb]; simp
      · rw [hb]; rfl
      · intro hty; exact (hin N hlt hty).2.2.1
    rw [resolveNames_eq_ls _ _ hstr]
    refine ⟨_, _, rfl, by simp [hd], hE, hF, by simp, by simp, ?_⟩
    intro j h
    have hj : j < secs.length := by simpa using h
    simp only [List.getElem_map, List.getElem_set]
    have hT : strtabOf c enc img shoff entsize isLazy N =
        some (secBytes img (secHdr c enc img (shoff + N * entsize) isLazy N)) := by
      simp [strtabOf, hz]
    rw [hT]
    simp only [nameOf]
    by_cases hjn : N = j
    · subst hjn
      simp only [if_true]
      exact ⟨true, SecStT_withName _ _ _ _ _ _ _ _ _ _ _ hS, fun _ => rfl⟩
    · simp only [hjn, if_false]
      exact ⟨!isLazy, SecStT_withName _ _ _ _ _ _ _ _ _ _ _ (hsecs j hj), by intro h; simp [h]⟩

/-! ### segments through a translation table -/

def segHdrT (c : Cls) (enc : Enc) (tr : List Trans) (clen : Nat) (img : Bytes) (k : Nat) (isLazy : Bool) : Seg :=
  { segHdr_ls c enc img k isLazy with streamSize := ssOf tr clen }

theorem decodePhdr_T (c : Cls) (enc : Enc) (tr : List Trans) (clen : Nat) (img : Bytes) (k : Nat) (isLazy : Bool) :
    decodePhdr c enc (slice img k (phdrSize c)) (segInit_ls (ssOf tr clen) isLazy) = segHdrT c enc tr clen img k isLazy := by
  cases c <;> rfl

def SegRep (cont : Bytes) (tr : List Trans) (img : Bytes) (g : Seg) : Prop :=
  segSkip g = false → RangeRep cont tr img g.offset.toNat g.filesz.toNat

theorem segReadSt_rep (tr : List Trans) (st : IStream) (img : Bytes) (offset size : BitVec 64)
    (h63c : st.data.length < 9223372036854775808) (h63i : img.length < 9223372036854775808)
    (hrep : RangeRep st.data tr img offset.toNat size.toNat) :
    segReadSt st (secOff tr offset) size =
      ({ st.clear with pos := (secOff tr offset).toNat + size.toNat, gcount := size.toNat },
       slice img offset.toNat size.toNat) ∧
    (secOff tr offset).toNat + size.toNat ≤ st.data.length := by
  obtain ⟨h0, h1, h2, h3⟩ := hrep
  have hto := secOff_toNat tr offset (by omega) h0 (by omega)
  rw [segReadSt_inside st (secOff tr offset) size (by rw [hto]; exact h1) h63c, hto, h3]
  exact ⟨rfl, h1⟩

theorem segLoadData_rep (c : Cls) (tr : List Trans) (img : Bytes) (ls : LoadSt) (g : Seg)
    (hss : g.streamSize = ssOf tr ls.st.data.length)
    (h63c : ls.st.data.length < 9223372036854775808) (h63i : img.length < 9223372036854775808)
    (hs : segSkip g = false) (hin : RangeRep ls.st.data tr img g.offset.toNat g.filesz.toNat) :
    (segLoadData c tr ls g).2 =
      ({ g with data := some (slice img g.offset.toNat g.filesz.toNat ++ [0]), isLoaded := true }, true) ∧
    (segLoadData c tr ls g).1.st.eof = ls.st.eof ∧ (segLoadData c tr ls g).1.st.fail = ls.st.fail := by
  obtain ⟨hrd, hle⟩ := segReadSt_rep tr ls.st img g.offset g.filesz h63c h63i hin
  have gd := guards_rep tr ls.st.data.length (secOff tr g.offset) g.filesz h63c hle
  have hs' : seg32_load_data_skip g.stype g.filesz = false := hs
  unfold segSkip at hs
  rw [segLoadData_eq_ls]
  simp only [hss, hs, hs', seg32_range_off_gt, seg64_range_off_gt, seg32_range_size_gt,
    seg64_range_size_gt, seg32_range_sizet, seg64_range_sizet, gd.1, gd.2.1, gd.2.2, hrd]
  cases c <;> simp [mergeFlags_ls, IStream.clear]

/-- the range test accepts a segment whose file range the table maps into the container -/
theorem segRangeOk_rep (c : Cls) (tr : List Trans) (cont img : Bytes) (g : Seg)
    (hss : g.streamSize = ssOf tr cont.length)
    (h63c : cont.length < 9223372036854775808) (h63i : img.length < 9223372036854775808)
    (hin : SegRep cont tr img g) : segRangeOk c tr g = true := by
  rw [segRangeOk_ls]
  cases hs : segSkip g
  · obtain ⟨h0, h1, h2, h3⟩ := hin hs
    have hto := secOff_toNat tr g.offset (by omega) h0 (by omega)
    have gd := guards_rep tr cont.length (secOff tr g.offset) g.filesz h63c (by rw [hto]; exact h1)
    simp only [hss, sec64_load_data_off_gt, sec64_load_data_size_gt, sec64_load_data_sizet,
      gd.1, gd.2.1, gd.2.2, Bool.false_eq_true, if_false]
  · simp

/-- **`segment_impl::load` through a translation table** -/
theorem segLoad_rep (c : Cls) (enc : Enc) (tr : List Trans) (img : Bytes) (ls : LoadSt) (k : Nat) (isLazy : Bool)
    (he : ls.st.eof = false) (hf : ls.st.fail = false)
    (h63c : ls.st.data.length < 9223372036854775808) (h63i : img.length < 9223372036854775808)
    (hk : RangeRep ls.st.data tr img k (phdrSize c))
    (hin : SegRep ls.st.data tr img (segHdr_ls c enc img k isLazy)) :
    (segLoad c enc tr ls (Int.ofNat k) isLazy).2 =
      ({ segHdrT c enc tr ls.st.data.length img k isLazy with
           data := if isLazy then none else segData img (segHdr_ls c enc img k isLazy),
           isLoaded := !isLazy && !segSkip (segHdr_ls c enc img k isLazy) }, true) ∧
    (segLoad c enc tr ls (Int.ofNat k) isLazy).1.st.eof = false ∧
    (segLoad c enc tr ls (Int.ofNat k) isLazy).1.st.fail = false ∧
    (segLoad c enc tr ls (Int.ofNat k) isLazy).1.st.data = ls.st.data ∧
    (segLoad c enc tr ls (Int.ofNat k) isLazy).1.st.kind = ls.st.kind := by
  rw [segLoad_eq_ls, hdrRead_rep tr ls.st he hf img k (phdrSize c) hk]
  simp only []
  rw [wr_full_ls _ _ (by simp [slice_length_of_le hk.2.2.1]), decodePhdr_T]
  have hd0 : (segHdrT c enc tr ls.st.data.length img k isLazy).data = none := by simp [segHdrT, segHdr_ls, segInit_ls]
  have hl0 : (segHdrT c enc tr ls.st.data.length img k isLazy).isLoaded = false := by simp [segHdrT, segHdr_ls, segInit_ls]
  cases isLazy
  · simp only [Bool.false_eq_true, if_false, Bool.not_false, Bool.true_and]
    cases hs : segSkip (segHdr_ls c enc img k false)
    · have h := segLoadData_rep c tr img
        { ls with st := { ls.st with pos := (trApply tr (Int.ofNat k)).toNat + phdrSize c, gcount := phdrSize c } }
        (segHdrT c enc tr ls.st.data.length img k false) (by simp [segHdrT]) h63c h63i hs (hin hs)
      refine ⟨?_, ?_, ?_, by simp, by simp⟩
      · rw [h.1]; simp [segData, hs, segHdrT]
      · rw [h.2.1]; exact he
      · rw [h.2.2]; exact hf
    · have hs2 : segSkip (segHdrT c enc tr ls.st.data.length img k false) = true := hs
      rw [segLoadData_skip c tr _ _ hs2]
      refine ⟨?_, by simp [he, hf]⟩
      simp only [segData, hs, if_true, Bool.not_true]
      congr 1
      cases hg : segHdrT c enc tr ls.st.data.length img k false
      rw [hg] at hd0 hl0
      simp_all
  · simp only [if_true, Bool.not_true, Bool.false_and]
    rw [segRangeOk_rep c tr ls.st.data img (segHdrT c enc tr ls.st.data.length img k true) rfl h63c h63i hin]
    refine ⟨?_, by simp [he, hf]⟩
    congr 1
    cases hg : segHdrT c enc tr ls.st.data.length img k true
    rw [hg] at hd0 hl0
    simp_all

/-- segment `idx` as loaded through the table, given the loaded sections -/
def segFinalT (c : Cls) (enc : Enc) (tr : List Trans) (clen : Nat) (img : Bytes) (k : Nat) (isLazy : Bool)
    (idx : Nat) (secs : List SecBuf) : Seg :=
  { segFinal c enc img k isLazy idx secs with streamSize := ssOf tr clen }

theorem memberOf_T (g : Seg) (d : Option Bytes) (l : Bool) (ss : BitVec 64) :
    memberOf { g with data := d, isLoaded := l, streamSize := ss } = memberOf g := by
  funext b; rfl

theorem loadSegmentsLoop_rep (c : Cls) (enc : Enc) (tr : List Trans) (isLazy : Bool) (phoff entsize : Nat)
    (cont img : Bytes) (h63c : cont.length < 9223372036854775808) (h63i : img.length < 9223372036854775808)
    (secs : List SecBuf) :
    ∀ (n i : Nat) (ls : LoadSt) (acc : List Seg),
      ls.st.data = cont → ls.st.eof = false → ls.st.fail = false →
      (∀ j, i ≤ j → j < i + n → RangeRep cont tr img (phoff + j * entsize) (phdrSize c) ∧
        SegRep cont tr img (segHdr_ls c enc img (phoff + j * entsize) isLazy)) →
      let r := loadSegmentsLoop c enc tr isLazy (Int.ofNat phoff) entsize secs n i ls acc
      r.1.st.data = cont ∧ r.1.st.eof = false ∧ r.1.st.fail = false ∧ r.1.st.kind = ls.st.kind ∧
      r.2.2 = true ∧
      ∃ l : List Seg, r.2.1 = acc.reverse ++ l ∧ l.length = n ∧
        ∀ j (h : j < l.length),
          l[j] = segFinalT c enc tr cont.length img (phoff + (i + j) * entsize) isLazy (i + j) secs := by
  intro n
  induction n with
  | zero =>
    intro i ls acc hd he hf _
    exact ⟨hd, he, hf, rfl, rfl, [], by simp [loadSegmentsLoop], rfl, fun j h => absurd h (by simp)⟩
  | succ n ih =>
    intro i ls acc hd he hf hall
    have hi := hall i (Nat.le_refl _) (by omega)
    subst hd
    have h1 := segLoad_rep c enc tr img ls (phoff + i * entsize) isLazy he hf h63c h63i hi.1 hi.2
    simp only [loadSegmentsLoop, ofNat_add_mul]
    generalize segLoad c enc tr ls (Int.ofNat (phoff + i * entsize)) isLazy = x at h1
    obtain ⟨ls', g', ok⟩ := x
    obtain ⟨hs, he', hf', hd', hk'⟩ := h1
    simp only [Prod.mk.injEq] at hs
    obtain ⟨hg, hok⟩ := hs
    simp only at he' hf' hd' hk'
    subst hok
    simp only [hf', Bool.not_true, Bool.or_self, Bool.false_eq_true, if_false]
    have h2 := ih (i + 1) ls'
      ({ g' with index := i, secs := (secs.filter (memberOf g')).map (fun b => BitVec.ofNat 16 b.index) } :: acc)
      hd' he' hf' (fun j h1 h2 => hall j (by omega) (by omega))
    obtain ⟨g1, g2, g3, g4, g5, l, g6, g7, g8⟩ := h2
    refine ⟨g1, g2, g3, by rw [g4, hk'], g5,
      { g' with index := i, secs := (secs.filter (memberOf g')).map (fun b => BitVec.ofNat 16 b.index) } :: l,
      ?_, by simp [g7], ?_⟩
    · rw [g6]; simp
    · intro j h
      cases j with
      | zero =>
        simp only [List.getElem_cons_zero, Nat.add_zero]
        rw [hg]
        have hm : memberOf ({ segHdrT c enc tr ls.st.data.length img (phoff + i * entsize) isLazy with
            data := if isLazy then none else segData img (segHdr_ls c enc img (phoff + i * entsize) isLazy),
            isLoaded := !isLazy && !segSkip (segHdr_ls c enc img (phoff + i * entsize) isLazy) } : Seg) =
            memberOf (segHdr_ls c enc img (phoff + i * entsize) isLazy) := by
          funext b; rfl
        rw [hm]
        rfl
      | succ j =>
        have := g8 j (by simpa using h)
        simpa [Nat.add_assoc, Nat.add_comm 1 j] using this

theorem segGetData_segFinalT (c : Cls) (enc : Enc) (tr : List Trans) (cont img : Bytes) (k : Nat) (isLazy : Bool)
    (idx : Nat) (secs : List SecBuf) (ls : LoadSt) (hd : ls.st.data = cont)
    (h63c : cont.length < 9223372036854775808) (h63i : img.length < 9223372036854775808)
    (hin : SegRep cont tr img (segHdr_ls c enc img k isLazy)) :
    (segGetData c tr ls (segFinalT c enc tr cont.length img k isLazy idx secs)).2.data =
      segData img (segHdr_ls c enc img k isLazy) ∧
    (segGetData c tr ls (segFinalT c enc tr cont.length img k isLazy idx secs)).1.st.eof = ls.st.eof ∧
    (segGetData c tr ls (segFinalT c enc tr cont.length img k isLazy idx secs)).1.st.fail = ls.st.fail := by
  subst hd
  rw [segGetData_eq_ls]
  cases hs : segSkip (segHdr_ls c enc img k isLazy)
  · cases isLazy
    · simp [segFinalT, segFinal, hs, segData]
    · simp only [segFinalT, segFinal, hs, Bool.not_true, Bool.false_and, Bool.not_false, if_true]
      have h := segLoadData_rep c tr img ls
        { segHdr_ls c enc img k true with
            index := idx,
            secs := (secs.filter (memberOf (segHdr_ls c enc img k true))).map (fun b => BitVec.ofNat 16 b.index),
            data := none, isLoaded := false, streamSize := ssOf tr ls.st.data.length }
        rfl h63c h63i hs (hin hs)
      rw [h.1, h.2.1, h.2.2]
      simp [segData, hs]
  · have hs2 : segSkip (segFinalT c enc tr ls.st.data.length img k isLazy idx secs) = true := hs
    have hdn : (segFinalT c enc tr ls.st.data.length img k isLazy idx secs).data = none := by
      cases isLazy <;> simp [segFinalT, segFinal, segData, hs]
    split
    · rw [segLoadData_skip c tr ls _ hs2]
      simp [segData, hs, hdn]
    · simp [segData, hs, hdn]

/-! ### gate, rungs and assembly through a translation table -/

theorem load_gate_rep (o : Obj) (st : IStream) (isLazy : Bool) (c : Cls) (enc : Enc) (img : Bytes)
    (he : st.eof = false) (hf : st.fail = false)
    (hm0 : (img.getD 0 0).toNat = ELFMAG0) (hm1 : (img.getD 1 0).toNat = ELFMAG1)
    (hm2 : (img.getD 2 0).toNat = ELFMAG2) (hm3 : (img.getD 3 0).toNat = ELFMAG3)
    (hc : clsOfByte (img.getD EI_CLASS 0).toNat = some c)
    (henc : encOfByte (img.getD EI_DATA 0).toNat = some enc)
    (hrep : RangeRep st.data o.trans img 0 (ehdrSize c)) :
    load o st isLazy =
      loadBody { o with secs := [], segs := [], cls := c, enc := enc, hdr := some (slice img 0 (ehdrSize c)) }
        c enc (slice img 0 (ehdrSize c))
        { st with pos := (trApply o.trans 0).toNat + ehdrSize c, gcount := ehdrSize c } isLazy := by
  have h16 := sixteen_le_ehdr c
  have hrep16 := hrep.prefix 16 h16
  obtain ⟨p0, p1, p2, p3⟩ := hrep
  obtain ⟨q0, q1, q2, q3⟩ := hrep16
  have e0 : (Int.ofNat 0) = (0 : Int) := rfl
  rw [e0] at p0 p1 p3 q0 q1 q3
  rw [load_eq_ls]
  simp only []
  rw [IStream.seekg_ok_ls st hf _ p0 (by omega),
    IStream.read_ok_ls { st with pos := (trApply o.trans 0).toNat, eof := false } rfl hf 16 q1]
  simp only [bne_self_eq_false, Bool.false_eq_true, if_false, q3]
  rw [getD_slice0 _ 16 0 (by decide), getD_slice0 _ 16 1 (by decide), getD_slice0 _ 16 2 (by decide),
    getD_slice0 _ 16 3 (by decide), getD_slice0 _ 16 EI_CLASS (by decide), getD_slice0 _ 16 EI_DATA (by decide)]
  simp only [hm0, hm1, hm2, hm3, hc, henc, bne_self_eq_false, Bool.or_self, Bool.false_eq_true, if_false]
  rw [IStream.seekg_ok_ls { st with pos := (trApply o.trans 0).toNat + 16, eof := false, gcount := 16 } hf _ p0
      (by simp; omega),
    IStream.read_ok_ls { st with pos := (trApply o.trans 0).toNat, eof := false, gcount := 16 } rfl hf (ehdrSize c)
      (by simpa using p1)]
  simp only [bne_self_eq_false, Bool.false_eq_true, if_false, p3]
  rw [wr_over _ _ (by rw [Hdr.create_length, slice_length_of_le (by omega)]; exact Nat.le_refl _)]
  congr 1
  cases st; simp_all

theorem loadSections_rep (c : Cls) (enc : Enc) (tr : List Trans) (isLazy : Bool) (hdr : Bytes) (st : IStream)
    (cont img : Bytes) (hd : st.data = cont) (he : st.eof = false) (hf : st.fail = false)
    (h63c : cont.length < 9223372036854775808) (h63i : img.length < 9223372036854775808)
    (hbad : load_sections_entsize_bad (Hdr.e_shnum c enc hdr) (Hdr.ident hdr EI_CLASS) (Hdr.e_shentsize c enc hdr) = false)
    (hall : ∀ j, j < (Hdr.e_shnum c enc hdr).toNat →
      RangeRep cont tr img ((Hdr.e_shoff c enc hdr).toNat + j * (Hdr.e_shentsize c enc hdr).toNat) (shdrSize c) ∧
      SecRep cont tr img (secHdr c enc img
        ((Hdr.e_shoff c enc hdr).toNat + j * (Hdr.e_shentsize c enc hdr).toNat) isLazy j)) :
    (loadSections c enc tr isLazy hdr st).1.st.data = cont ∧
    (loadSections c enc tr isLazy hdr st).1.st.eof = false ∧
    (loadSections c enc tr isLazy hdr st).1.st.fail = false ∧
    (loadSections c enc tr isLazy hdr st).1.st.kind = st.kind ∧
    (loadSections c enc tr isLazy hdr st).2.length = (Hdr.e_shnum c enc hdr).toNat ∧
    ∀ j (h : j < (loadSections c enc tr isLazy hdr st).2.length),
      SecStT c enc tr cont.length img ((Hdr.e_shoff c enc hdr).toNat + j * (Hdr.e_shentsize c enc hdr).toNat)
        isLazy j (!isLazy) [] (loadSections c enc tr isLazy hdr st).2[j] := by
  unfold loadSections
  simp only [hbad, Bool.false_eq_true, if_false]
  by_cases hn : (Hdr.e_shnum c enc hdr).toNat = 0
  · rw [hn]
    simp only [loadSectionsLoop, List.reverse_nil, List.length_nil]
    exact ⟨hd, he, hf, by simp, by simp, fun j h => absurd h (by simp)⟩
  · have h0 := (hall 0 (by omega)).1.2.2.1
    have hlt : (Hdr.e_shoff c enc hdr).toNat < 9223372036854775808 := by omega
    rw [toInt_of_lt _ hlt]
    have h := loadSectionsLoop_rep c enc tr isLazy (Hdr.e_shoff c enc hdr).toNat (Hdr.e_shentsize c enc hdr).toNat
      cont img h63c h63i (Hdr.e_shnum c enc hdr).toNat 0 { st := st } [] hd he hf
      (fun j _ hj => hall j (by omega))
    obtain ⟨g1, g2, g3, g4, l, g5, g6, g7⟩ := h
    simp only [List.reverse_nil, List.nil_append] at g5
    refine ⟨g1, g2, g3, g4, by rw [g5, g6], ?_⟩
    intro j hj
    have := g7 j (by rw [g5] at hj; exact hj)
    simp only [Nat.zero_add] at this
    simp only [g5]
    exact this

theorem loadSegs_rep (o : Obj) (c : Cls) (enc : Enc) (isLazy : Bool) (hdr : Bytes) (cont img : Bytes) (ls : LoadSt)
    (secs : List SecBuf)
    (hd : ls.st.data = cont) (he : ls.st.eof = false) (hf : ls.st.fail = false)
    (h63c : cont.length < 9223372036854775808) (h63i : img.length < 9223372036854775808)
    (hbad : load_segments_entsize_bad (Hdr.e_phnum c enc hdr) (Hdr.ident hdr EI_CLASS) (Hdr.e_phentsize c enc hdr) = false)
    (hall : ∀ j, j < (Hdr.e_phnum c enc hdr).toNat →
      RangeRep cont o.trans img ((Hdr.e_phoff c enc hdr).toNat + j * (Hdr.e_phentsize c enc hdr).toNat) (phdrSize c) ∧
      SegRep cont o.trans img (segHdr_ls c enc img
        ((Hdr.e_phoff c enc hdr).toNat + j * (Hdr.e_phentsize c enc hdr).toNat) isLazy)) :
    (loadSegs o c enc hdr isLazy ls secs).ok = true ∧
    (loadSegs o c enc hdr isLazy ls secs).obj.secs = secs ∧
    (loadSegs o c enc hdr isLazy ls secs).obj.cls = o.cls ∧
    (loadSegs o c enc hdr isLazy ls secs).obj.enc = o.enc ∧
    (loadSegs o c enc hdr isLazy ls secs).obj.hdr = o.hdr ∧
    (loadSegs o c enc hdr isLazy ls secs).obj.trans = o.trans ∧
    (loadSegs o c enc hdr isLazy ls secs).obj.stream.data = cont ∧
    (loadSegs o c enc hdr isLazy ls secs).obj.stream.eof = false ∧
    (loadSegs o c enc hdr isLazy ls secs).obj.stream.fail = false ∧
    (loadSegs o c enc hdr isLazy ls secs).obj.stream.kind = ls.st.kind ∧
    (loadSegs o c enc hdr isLazy ls secs).obj.segs.length = (Hdr.e_phnum c enc hdr).toNat ∧
    ∀ j (h : j < (loadSegs o c enc hdr isLazy ls secs).obj.segs.length),
      (loadSegs o c enc hdr isLazy ls secs).obj.segs[j] =
        segFinalT c enc o.trans cont.length img
          ((Hdr.e_phoff c enc hdr).toNat + j * (Hdr.e_phentsize c enc hdr).toNat) isLazy j secs := by
  unfold loadSegs
  simp only [hbad, Bool.false_eq_true, if_false]
  by_cases hn : (Hdr.e_phnum c enc hdr).toNat = 0
  · rw [hn]
    simp only [loadSegmentsLoop, List.reverse_nil, List.length_nil]
    refine ⟨?_, ?_, ?_, ?_, ?_, ?_, ?_, ?_, ?_, ?_, ?_, fun j h => absurd h (by simp)⟩ <;>
      first | trivial | rfl | exact hd | exact he | exact hf | simp
  · have h0 := (hall 0 (by omega)).1.2.2.1
    have hlt : (Hdr.e_phoff c enc hdr).toNat < 9223372036854775808 := by omega
    rw [toInt_of_lt _ hlt]
    have h := loadSegmentsLoop_rep c enc o.trans isLazy (Hdr.e_phoff c enc hdr).toNat
      (Hdr.e_phentsize c enc hdr).toNat cont img h63c h63i secs (Hdr.e_phnum c enc hdr).toNat 0 ls [] hd he hf
      (fun j _ hj => hall j (by omega))
    obtain ⟨g1, g2, g3, g4, g5, l, g6, g7, g8⟩ := h
    simp only [List.reverse_nil, List.nil_append] at g6
    refine ⟨?_, ?_, ?_, ?_, ?_, ?_, ?_, ?_, ?_, ?_, ?_, ?_⟩
    any_goals first | trivial | rfl | exact g5 | exact g1 | exact g2 | exact g3 | exact g4 | (simp only [g6, g7]; done)
    intro j hj
    have := g8 j (by simp only [g6] at hj; exact hj)
    simp only [Nat.zero_add] at this
    simp only [g6]
    exact this

/-- everything after the gate, through a translation table -/
theorem loadBody_rep (o : Obj) (c : Cls) (enc : Enc) (isLazy : Bool) (hdr : Bytes) (cont img : Bytes) (st : IStream)
    (hd : st.data = cont) (he : st.eof = false) (hf : st.fail = false)
    (h63c : cont.length < 9223372036854775808) (h63i : img.length < 9223372036854775808)
    (hbadS : load_sections_entsize_bad (Hdr.e_shnum c enc hdr) (Hdr.ident hdr EI_CLASS) (Hdr.e_shentsize c enc hdr) = false)
    (hbadP : load_segments_entsize_bad (Hdr.e_phnum c enc hdr) (Hdr.ident hdr EI_CLASS) (Hdr.e_phentsize c enc hdr) = false)
    (hallS : ∀ j, j < (Hdr.e_shnum c enc hdr).toNat →
      RangeRep cont o.trans img ((Hdr.e_shoff c enc hdr).toNat + j * (Hdr.e_shentsize c enc hdr).toNat) (shdrSize c) ∧
      SecRep cont o.trans img (secHdr c enc img
        ((Hdr.e_shoff c enc hdr).toNat + j * (Hdr.e_shentsize c enc hdr).toNat) isLazy j))
    (hallP : ∀ j, j < (Hdr.e_phnum c enc hdr).toNat →
      RangeRep cont o.trans img ((Hdr.e_phoff c enc hdr).toNat + j * (Hdr.e_phentsize c enc hdr).toNat) (phdrSize c) ∧
      SegRep cont o.trans img (segHdr_ls c enc img
        ((Hdr.e_phoff c enc hdr).toNat + j * (Hdr.e_phentsize c enc hdr).toNat) isLazy))
    (hndx : (Hdr.e_shstrndx c enc hdr).toNat = 0 ∨
      (Hdr.e_shstrndx c enc hdr).toNat < (Hdr.e_shnum c enc hdr).toNat) :
    ∃ r : LoadRes, loadBody o c enc hdr st isLazy = .ok r ∧ r.ok = true ∧
      r.obj.cls = o.cls ∧ r.obj.enc = o.enc ∧ r.obj.hdr = o.hdr ∧ r.obj.trans = o.trans ∧
      r.obj.stream.data = cont ∧ r.obj.stream.eof = false ∧ r.obj.stream.fail = false ∧
      r.obj.stream.kind = st.kind ∧
      r.obj.secs.length = (Hdr.e_shnum c enc hdr).toNat ∧
      (∀ j (h : j < r.obj.secs.length), ∃ res : Bool,
        SecStT c enc o.trans cont.length img
          ((Hdr.e_shoff c enc hdr).toNat + j * (Hdr.e_shentsize c enc hdr).toNat) isLazy j res
          (nameOf (strtabOf c enc img (Hdr.e_shoff c enc hdr).toNat (Hdr.e_shentsize c enc hdr).toNat isLazy
                    (Hdr.e_shstrndx c enc hdr).toNat)
            (secHdr c enc img ((Hdr.e_shoff c enc hdr).toNat + j * (Hdr.e_shentsize c enc hdr).toNat)
              isLazy j).nameOff.toNat) r.obj.secs[j] ∧
        (isLazy = false → res = true)) ∧
      r.obj.segs.length = (Hdr.e_phnum c enc hdr).toNat ∧
      ∀ j (h : j < r.obj.segs.length),
        r.obj.segs[j] =
          segFinalT c enc o.trans cont.length img
            ((Hdr.e_phoff c enc hdr).toNat + j * (Hdr.e_phentsize c enc hdr).toNat) isLazy j r.obj.secs := by
  have hS := loadSections_rep c enc o.trans isLazy hdr st cont img hd he hf h63c h63i hbadS hallS
  obtain ⟨s1, s2, s3, s4, s5, s6⟩ := hS
  have hN := loadNames_rep c enc o.trans isLazy hdr cont img (loadSections c enc o.trans isLazy hdr st).1
    (loadSections c enc o.trans isLazy hdr st).2 (Hdr.e_shoff c enc hdr).toNat (Hdr.e_shentsize c enc hdr).toNat
    s1 h63c h63i hbadS (by rw [s5]; exact hndx) (fun j hj => (hallS j (by rw [s5] at hj; exact hj)).2) s6
  obtain ⟨ls', secs', n1, n2, n3, n4, n5, n6, n7⟩ := hN
  have hG := loadSegs_rep o c enc isLazy hdr cont img ls' secs' n2 (by rw [n3]; exact s2) (by rw [n4]; exact s3)
    h63c h63i hbadP hallP
  obtain ⟨p1, p2, p3, p4, p5, p6, p7, p8, p9, p10, p11, p12⟩ := hG
  refine ⟨loadSegs o c enc hdr isLazy ls' secs', ?_, p1, p3, p4, p5, p6, p7, p8, p9, by rw [p10, n5, s4], ?_, ?_,
    p11, ?_⟩
  · unfold loadBody
    rw [n1]
    rfl
  · rw [p2, n6, s5]
  · intro j h
    simp only [p2] at h ⊢
    exact n7 j h
  · intro j h
    rw [p12 j h, p2]

end ElfioVerif
