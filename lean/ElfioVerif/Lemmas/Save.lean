/-
Helper lemmas for the writer families (C03, C05, C06): byte-string slicing, records as
concatenations of encoded fields, `wr` frames, the output stream (`adjust` + `write`).
-/
import ElfioVerif.Model.Writer
import ElfioVerif.Lemmas.Records
namespace ElfioVerif
open Gen

/-! ### slices -/

theorem slice_append_mid (a b c : Bytes) : slice (a ++ b ++ c) a.length b.length = b := by
  unfold slice
  rw [List.append_assoc, List.drop_left, List.take_left]

theorem slice_zero_all (b : Bytes) : slice b 0 b.length = b := by
  unfold slice; simp

theorem slice_eq_of_getElem? {a b : Bytes} {off off' len : Nat}
    (h : ∀ i, i < len → a[off + i]? = b[off' + i]?) : slice a off len = slice b off' len := by
  apply List.ext_getElem?
  intro i
  unfold slice
  simp only [List.getElem?_take, List.getElem?_drop]
  split
  · exact h i (by assumption)
  · rfl

theorem slice_slice {bs : Bytes} {base n o w : Nat} (h : o + w ≤ n) :
    slice (slice bs base n) o w = slice bs (base + o) w := by
  unfold slice
  rw [List.drop_take, List.take_take, List.drop_drop]
  congr 1; omega

/-! ### records as field lists -/

/-- a record given as (width, value) pairs, encoded field after field -/
def encodeFields (e : Enc) : List (Nat × Nat) → Bytes
  | [] => []
  | (w, v) :: r => encodeInt e w v ++ encodeFields e r

def sumWidths : List (Nat × Nat) → Nat
  | [] => 0
  | (w, _) :: r => w + sumWidths r

@[simp] theorem encodeFields_length (e : Enc) (fs : List (Nat × Nat)) :
    (encodeFields e fs).length = sumWidths fs := by
  induction fs with
  | nil => rfl
  | cons f r ih => obtain ⟨w, v⟩ := f; simp [encodeFields, sumWidths, ih]

theorem encodeFields_append (e : Enc) (a b : List (Nat × Nat)) :
    encodeFields e (a ++ b) = encodeFields e a ++ encodeFields e b := by
  induction a with
  | nil => rfl
  | cons f r ih => obtain ⟨w, v⟩ := f; simp [encodeFields, ih]

/-- the field after the prefix `pre` sits at the sum of the widths before it and is the
    specification encoding of its value -/
theorem slice_encodeFields (e : Enc) (pre : List (Nat × Nat)) (w v : Nat) (post : List (Nat × Nat)) :
    slice (encodeFields e (pre ++ (w, v) :: post)) (sumWidths pre) w = encodeInt e w v := by
  rw [encodeFields_append]
  simp only [encodeFields]
  have := slice_append_mid (encodeFields e pre) (encodeInt e w v) (encodeFields e post)
  rw [encodeFields_length, encodeInt_length, List.append_assoc] at this
  exact this

/-! ### `wr` frames -/

theorem slice_wr_same (b src : Bytes) (off : Nat) (h : off + src.length ≤ b.length) :
    slice (wr b off src) off src.length = src := by
  unfold wr
  have hl : (b.take off).length = off := by simp; omega
  have := slice_append_mid (b.take off) src (b.drop (off + src.length))
  rw [hl] at this; exact this

theorem slice_wr_other (b src : Bytes) (off o w : Nat) (h : off + src.length ≤ b.length)
    (hd : o + w ≤ off ∨ off + src.length ≤ o) : slice (wr b off src) o w = slice b o w := by
  apply slice_eq_of_getElem?
  intro i hi
  rw [wr_getElem? _ _ _ _ h]
  ite_omega

end ElfioVerif
