/-
Helper lemmas for the writer families (C03, C05, C06): byte-string slicing, records as
concatenations of encoded fields, `wr` frames, the output stream (`adjust` + `write`).
-/
import ElfioVerif.Model.Writer
import ElfioVerif.Lemmas.WriterSites
import ElfioVerif.Lemmas.Records
import ElfioVerif.Props.C08
set_option linter.unusedSimpArgs false
namespace ElfioVerif
open Gen
namespace Sv

/-! ### slices -/

theorem slice_append_mid (a b c : Bytes) : slice (a ++ b ++ c) a.length b.length = b := by
  unfold slice
  rw [List.append_assoc, List.drop_left, List.take_left]

theorem slice_zero_all (b : Bytes) : slice b 0 b.length = b := by
  unfold slice; simp

theorem slice_eq_of_getElem? {a b : Bytes} {off off' len : Nat}
    (h : ∀ i, i < len → a[off + i]? = b[off' + i]?) : slice a off len = slice b off' len := by
  apply List.ext_getElem?
  intro i
  unfold slice
  simp only [List.getElem?_take, List.getElem?_drop]
  split
  · exact h i (by assumption)
  · rfl

theorem slice_slice {bs : Bytes} {base n o w : Nat} (h : o + w ≤ n) :
    slice (slice bs base n) o w = slice bs (base + o) w := by
  unfold slice
  rw [List.drop_take, List.take_take, List.drop_drop]
  congr 1; omega

/-! ### records as field lists -/

/-- a record given as (width, value) pairs, encoded field after field -/
def encodeFields (e : Enc) : List (Nat × Nat) → Bytes
  | [] => []
  | (w, v) :: r => encodeInt e w v ++ encodeFields e r

def sumWidths : List (Nat × Nat) → Nat
  | [] => 0
  | (w, _) :: r => w + sumWidths r

@[simp] theorem encodeFields_length (e : Enc) (fs : List (Nat × Nat)) :
    (encodeFields e fs).length = sumWidths fs := by
  induction fs with
  | nil => rfl
  | cons f r ih => obtain ⟨w, v⟩ := f; simp [encodeFields, sumWidths, ih]

theorem encodeFields_append (e : Enc) (a b : List (Nat × Nat)) :
    encodeFields e (a ++ b) = encodeFields e a ++ encodeFields e b := by
  induction a with
  | nil => rfl
  | cons f r ih => obtain ⟨w, v⟩ := f; simp [encodeFields, ih]

/-- the field after the prefix `pre` sits at the sum of the widths before it and is the
    specification encoding of its value -/
theorem slice_encodeFields (e : Enc) (pre : List (Nat × Nat)) (w v : Nat) (post : List (Nat × Nat)) :
    slice (encodeFields e (pre ++ (w, v) :: post)) (sumWidths pre) w = encodeInt e w v := by
  rw [encodeFields_append]
  simp only [encodeFields]
  have := slice_append_mid (encodeFields e pre) (encodeInt e w v) (encodeFields e post)
  rw [encodeFields_length, encodeInt_length, List.append_assoc] at this
  exact this

/-! ### `wr` frames -/

theorem slice_wr_same (b src : Bytes) (off : Nat) (h : off + src.length ≤ b.length) :
    slice (wr b off src) off src.length = src := by
  unfold wr
  have hl : (b.take off).length = off := by simp; omega
  have := slice_append_mid (b.take off) src (b.drop (off + src.length))
  rw [hl] at this; exact this

theorem slice_wr_other (b src : Bytes) (off o w : Nat) (h : off + src.length ≤ b.length)
    (hd : o + w ≤ off ∨ off + src.length ≤ o) : slice (wr b off src) o w = slice b o w := by
  apply slice_eq_of_getElem?
  intro i hi
  rw [wr_getElem? _ _ _ _ h]
  ite_omega

theorem getElem?_of_slice {b src : Bytes} {off : Nat} (h : slice b off src.length = src) (i : Nat)
    (hi : i < src.length) : b[off + i]? = src[i]? := by
  have := congrArg (fun l => l[i]?) h
  simp only [slice, List.getElem?_take, List.getElem?_drop, hi, if_true] at this
  exact this

/-- writing what is already there changes nothing -/
theorem wr_self (b src : Bytes) (off : Nat) (hl : off + src.length ≤ b.length)
    (h : slice b off src.length = src) : wr b off src = b := by
  apply List.ext_getElem?
  intro i
  rw [wr_getElem? _ _ _ _ hl]
  split
  · rfl
  · split
    · have := getElem?_of_slice h (i - off) (by omega)
      rw [← this]; congr 1; omega
    · rfl

/-- a second write to the same range wins -/
theorem wr_wr_same (b s1 s2 : Bytes) (off : Nat) (hl : off + s1.length ≤ b.length) (hs : s2.length = s1.length) :
    wr (wr b off s1) off s2 = wr b off s2 := by
  apply List.ext_getElem?
  intro i
  rw [wr_getElem? _ _ _ _ (by rw [wr_length _ _ _ hl]; omega), wr_getElem? _ _ _ _ hl,
    wr_getElem? _ _ _ _ (by omega)]
  ite_omega

/-! ### `save` in named pieces (the only place that unfolds `save`) -/

/-- the header after the four preliminary setters of `save` -/
def saveHdr0 (o : Obj) (h : Bytes) : Bytes :=
  let c := o.cls; let e := o.enc
  let nseg := o.segs.length % 65536
  let nsec := o.secs.length % 65536
  let h := Hdr.set_phnum c e h nseg
  let h := Hdr.set_phoff c e h (if nseg > 0 then (Hdr.e_ehsize c e h).toNat else 0)
  let h := Hdr.set_shnum c e h nsec
  Hdr.set_shoff c e h 0

/-- the cursor behind the ELF header and the program header table -/
def savePos0 (o : Obj) (h0 : Bytes) : BitVec 64 :=
  save_cursor0 (Hdr.e_ehsize o.cls o.enc h0) (Hdr.e_phentsize o.cls o.enc h0) (Hdr.e_phnum o.cls o.enc h0)

def saveLay0 (o : Obj) (h0 : Bytes) : Layout :=
  { secs := o.secs, pos := savePos0 o h0, gen := List.replicate (o.secs.length % 65536) false }

/-- one iteration of the loop over the ordered segments -/
def saveStep (c : Cls) (e : Enc) (h0 : Bytes) (acc : Option (Layout × List Seg)) (g : Seg) :
    M (Option (Layout × List Seg)) :=
  match acc with
  | none => pure none
  | some (lay, done) => do
    match ← layoutSegment c (Hdr.e_phoff c e h0) (Hdr.e_phentsize c e h0) (Hdr.e_phnum c e h0) lay g with
    | none => pure none
    | some (lay, g) => pure (some (lay, done ++ [g]))

/-- the updated segments go back to their indices -/
def putBack (segs done : List Seg) : List Seg :=
  segs.map fun g => (done.find? (fun d => d.index == g.index)).getD g

/-- `save` after the segments have been laid out: loose sections, section table, all writes -/
def saveTail (o : Obj) (os : OStream) (h0 : Bytes) (segs1 : List Seg) (lay : Layout) (done : List Seg) : SaveRes :=
  let c := o.cls; let e := o.enc
  let segs := putBack segs1 done
  let (secs, pos) := layoutLoose c segs lay.secs 0 lay.pos []
  let pos := lst_cursor pos (lst_error pos)
  let h := Hdr.set_shoff c e h0 pos.toNat
  saveWrite o h secs segs pos os

/-- the sections, segments, cursor and header a successful save leaves in the object -/
def tailSegs (segs1 done : List Seg) : List Seg := putBack segs1 done
def tailLoose (o : Obj) (segs1 : List Seg) (lay : Layout) (done : List Seg) : List SecBuf × BitVec 64 :=
  layoutLoose o.cls (putBack segs1 done) lay.secs 0 lay.pos []
def tailShoff (o : Obj) (segs1 : List Seg) (lay : Layout) (done : List Seg) : BitVec 64 :=
  lst_cursor (tailLoose o segs1 lay done).2 (lst_error (tailLoose o segs1 lay done).2)
def tailHdr (o : Obj) (h0 : Bytes) (segs1 : List Seg) (lay : Layout) (done : List Seg) : Bytes :=
  Hdr.set_shoff o.cls o.enc h0 (tailShoff o segs1 lay done).toNat
def tailSecs (o : Obj) (segs1 : List Seg) (lay : Layout) (done : List Seg) : List SecBuf :=
  (residentForSave o.cls o.trans (tailLoose o segs1 lay done).1 { st := o.stream } []).1
/-- the stream after the header has been written -/
def tailOs1 (o : Obj) (os : OStream) (h0 : Bytes) (segs1 : List Seg) (lay : Layout) (done : List Seg) : OStream :=
  (os.seekp (trApply o.trans 0)).write (tailHdr o h0 segs1 lay done)
/-- the stream after all writes -/
def tailOs (o : Obj) (os : OStream) (h0 : Bytes) (segs1 : List Seg) (lay : Layout) (done : List Seg) : OStream :=
  let h := tailHdr o h0 segs1 lay done
  let os1 := (tailSecs o segs1 lay done).foldl
    (saveSection o.cls o.enc (Hdr.e_shoff o.cls o.enc h) (Hdr.e_shentsize o.cls o.enc h)) (tailOs1 o os h0 segs1 lay done)
  (tailSegs segs1 done).foldl (saveSegment o.cls o.enc (Hdr.e_phoff o.cls o.enc h) (Hdr.e_phentsize o.cls o.enc h)) os1

/-- the write phase of `save` when it reports success (same statement as `saveWrite_ok` of
    Lemmas/Layout.lean; restated here so that this file does not depend on that one) -/
theorem saveWrite_ok' (o : Obj) (h : Bytes) (secs : List SecBuf) (segs : List Seg) (pos : BitVec 64) (os : OStream)
    (hok : (saveWrite o h secs segs pos os).ok = true) :
    ((os.seekp (trApply o.trans 0)).write h).fail = false ∧
    (saveWrite o h secs segs pos os).obj =
      { o with hdr := some h, secs := (residentForSave o.cls o.trans secs { st := o.stream } []).1,
               segs := segs, curPos := pos,
               stream := (residentForSave o.cls o.trans secs { st := o.stream } []).2.st } ∧
    (saveWrite o h secs segs pos os).os =
      segs.foldl (saveSegment o.cls o.enc (Hdr.e_phoff o.cls o.enc h) (Hdr.e_phentsize o.cls o.enc h))
        ((residentForSave o.cls o.trans secs { st := o.stream } []).1.foldl
          (saveSection o.cls o.enc (Hdr.e_shoff o.cls o.enc h) (Hdr.e_shentsize o.cls o.enc h))
          ((os.seekp (trApply o.trans 0)).write h)) ∧
    (saveWrite o h secs segs pos os).os.fail = false := by
  unfold saveWrite at hok ⊢
  cases hf : ((os.seekp (trApply o.trans 0)).write h).fail <;> cases hc : o.cls <;>
    simp only [hf, hc, Bool.not_false, Bool.not_true, save_header_result32, save_header_result,
      Bool.false_eq_true, if_false, if_true, save_sections_result, save_segments_result, save_result,
      Bool.true_and, Bool.false_and] at hok ⊢
  all_goals first
    | (refine ⟨?_, ?_, ?_, ?_⟩ <;> first | trivial | rfl | simpa using hok)
    | exact absurd hok (by decide)
    | (simp at hok)

theorem saveTail_eq_write (o : Obj) (os : OStream) (h0 : Bytes) (segs1 : List Seg) (lay : Layout) (done : List Seg) :
    saveTail o os h0 segs1 lay done =
      saveWrite o (tailHdr o h0 segs1 lay done) (tailLoose o segs1 lay done).1 (tailSegs segs1 done)
        (tailShoff o segs1 lay done) os := rfl

theorem saveTail_ok {o : Obj} {os : OStream} {h0 : Bytes} {segs1 : List Seg} {lay : Layout} {done : List Seg}
    (hok : (saveTail o os h0 segs1 lay done).ok = true) :
    (tailOs1 o os h0 segs1 lay done).fail = false ∧
    (saveTail o os h0 segs1 lay done).obj =
      { o with hdr := some (tailHdr o h0 segs1 lay done), secs := tailSecs o segs1 lay done,
               segs := tailSegs segs1 done, curPos := tailShoff o segs1 lay done,
               stream := (residentForSave o.cls o.trans (tailLoose o segs1 lay done).1 { st := o.stream } []).2.st } ∧
    (saveTail o os h0 segs1 lay done).os = tailOs o os h0 segs1 lay done ∧
    (tailOs o os h0 segs1 lay done).fail = false := by
  rw [saveTail_eq_write] at hok ⊢
  obtain ⟨a, b, c, d⟩ := saveWrite_ok' _ _ _ _ _ _ hok
  rw [c] at d
  exact ⟨a, b, c, d⟩

/-- the object after the `get_data()` on every section with which `save` begins -/
def preRes (o : Obj) : Obj :=
  { o with secs := (allResident o.cls o.trans o.secs { st := o.stream } []).1,
           stream := (allResident o.cls o.trans o.secs { st := o.stream } []).2.st }

theorem save_eq (o : Obj) (os : OStream) :
    save o os =
      (match o.hdr with
      | none => pure { obj := o, os := os, ok := false }
      | some h =>
        if os.fail then pure { obj := o, os := os, ok := false } else
        let o1 := preRes o
        let h0 := saveHdr0 o1 h
        do
          let segs1 ← o1.segs.mapM (calcSegAlign o1.secs)
          let ordered ← orderedSegments segs1
          match ← ordered.foldlM (saveStep o1.cls o1.enc h0) (some (saveLay0 o1 h0, [])) with
          | none => pure { obj := { o1 with hdr := some h0, segs := segs1, curPos := savePos0 o1 h0 }, os := os, ok := false }
          | some (lay, done) => pure (saveTail o1 os h0 segs1 lay done)) := by
  unfold save
  simp only [save_phoff_toNat, save_shoff0_toNat]
  cases o.hdr with
  | none => simp only [save_entry_refused_none, if_true]
  | some h =>
    simp only [save_entry_refused_some]
    split
    · rfl
    · apply bind_congr; intro segs1
      apply bind_congr; intro ordered
      apply bind_congr; intro res
      cases res with
      | none => rfl
      | some p =>
        obtain ⟨lay, done⟩ := p
        rfl

/-- a successful save went through every phase (`preRes o` is the object after the initial
    `get_data()` pass) -/
theorem save_ok_unfold {o : Obj} {os : OStream} {r : SaveRes} (h : save o os = .ok r) (hok : r.ok = true) :
    ∃ hd segs1 ordered lay done, o.hdr = some hd ∧ os.fail = false ∧
      (preRes o).segs.mapM (calcSegAlign (preRes o).secs) = .ok segs1 ∧ orderedSegments segs1 = .ok ordered ∧
      ordered.foldlM (saveStep o.cls o.enc (saveHdr0 (preRes o) hd))
        (some (saveLay0 (preRes o) (saveHdr0 (preRes o) hd), [])) = .ok (some (lay, done)) ∧
      r = saveTail (preRes o) os (saveHdr0 (preRes o) hd) segs1 lay done := by
  rw [save_eq] at h
  cases hh : o.hdr with
  | none => rw [hh] at h; cases h; cases hok
  | some hd =>
    rw [hh] at h
    simp only at h
    by_cases hf : os.fail = true
    · rw [if_pos hf] at h; cases h; cases hok
    · rw [if_neg hf] at h
      cases h1 : (preRes o).segs.mapM (calcSegAlign (preRes o).secs) with
      | error e => rw [h1] at h; cases h
      | ok segs1 =>
        rw [h1] at h
        simp only [bind, Except.bind] at h
        cases h2 : orderedSegments segs1 with
        | error e => rw [h2] at h; cases h
        | ok ordered =>
          rw [h2] at h
          simp only at h
          cases h3 : ordered.foldlM (saveStep (preRes o).cls (preRes o).enc (saveHdr0 (preRes o) hd))
              (some (saveLay0 (preRes o) (saveHdr0 (preRes o) hd), [])) with
          | error e => rw [h3] at h; cases h
          | ok res =>
            rw [h3] at h
            simp only at h
            cases res with
            | none => cases h; cases hok
            | some p =>
              obtain ⟨lay, done⟩ := p
              simp only [pure, Except.pure] at h
              cases h
              exact ⟨hd, segs1, ordered, lay, done, rfl, by simpa using hf, rfl, h2, h3, rfl⟩

/-! ### frames: what the layout passes change -/

/-- `b` is `a` up to placement: only `offset`, `addr`, `addrSet` may differ, and an address that
    was already set is kept -/
structure SecFrame (a b : SecBuf) : Prop where
  rest : b = { a with offset := b.offset, addr := b.addr, addrSet := b.addrSet }
  addrKept : a.addrSet = true → b.addr = a.addr ∧ b.addrSet = true

theorem SecFrame.refl (a : SecBuf) : SecFrame a a := ⟨rfl, fun h => ⟨rfl, h⟩⟩

theorem SecFrame.trans {a b c : SecBuf} (h1 : SecFrame a b) (h2 : SecFrame b c) : SecFrame a c := by
  refine ⟨?_, fun h => ?_⟩
  · have e2 := h2.rest; have e1 := h1.rest
    rw [e1] at e2
    exact e2
  · obtain ⟨p, q⟩ := h1.addrKept h
    obtain ⟨p', q'⟩ := h2.addrKept q
    exact ⟨p'.trans p, q'⟩

/-- index-wise relation between two lists of equal length -/
def FrameL {α} (R : α → α → Prop) (l l' : List α) : Prop :=
  l'.length = l.length ∧ ∀ (i : Nat) a b, l[i]? = some a → l'[i]? = some b → R a b

theorem FrameL.refl {α} {R : α → α → Prop} (hr : ∀ a, R a a) (l : List α) : FrameL R l l :=
  ⟨rfl, fun i a b h1 h2 => by rw [h1] at h2; cases h2; exact hr a⟩

theorem FrameL.trans {α} {R : α → α → Prop} (ht : ∀ a b c, R a b → R b c → R a c) {l1 l2 l3 : List α}
    (h1 : FrameL R l1 l2) (h2 : FrameL R l2 l3) : FrameL R l1 l3 := by
  refine ⟨h2.1.trans h1.1, fun i a c ha hc => ?_⟩
  have hi : i < l1.length := by
    rcases Nat.lt_or_ge i l1.length with h | h
    · exact h
    · rw [List.getElem?_eq_none h] at ha; cases ha
  have : i < l2.length := by rw [h1.1]; exact hi
  exact ht _ _ _ (h1.2 i a l2[i] ha (List.getElem?_eq_getElem this)) (h2.2 i l2[i] c (List.getElem?_eq_getElem this) hc)

theorem FrameL.set {α} {R : α → α → Prop} (hr : ∀ a, R a a) {l : List α} {i : Nat} {a b : α}
    (ha : l[i]? = some a) (hab : R a b) : FrameL R l (l.set i b) := by
  refine ⟨List.length_set, fun j x y hx hy => ?_⟩
  rw [List.getElem?_set] at hy
  split at hy
  · subst_vars
    split at hy
    · cases hy; rw [ha] at hx; cases hx; exact hab
    · cases hy
  · rw [hx] at hy; cases hy; exact hr x

/-- `b` arises from `a` by the only two things the layout passes do to a section: giving it an
    offset (`set_offset`, which spares section 0) and — if it has none — an address (truncated to the
    class width).  Everything proved about saved sections is proved by induction on this. -/
inductive Placed (c : Cls) : SecBuf → SecBuf → Prop
  | refl (a : SecBuf) : Placed c a a
  | off {a m : SecBuf} (v : BitVec 64) : Placed c a m → Placed c a (setOffset c m v)
  | addr {a m : SecBuf} (x : BitVec 64) : Placed c a m → m.addrSet = false →
      Placed c a { m with addr := truncA c x, addrSet := true }

theorem Placed.trans {c : Cls} {a b d : SecBuf} (h1 : Placed c a b) (h2 : Placed c b d) : Placed c a d := by
  induction h2 with
  | refl => exact h1
  | off v _ ih => exact Placed.off v ih
  | addr x _ hm ih => exact Placed.addr x ih hm

theorem setOffset_frame (c : Cls) (b : SecBuf) (v : BitVec 64) : SecFrame b (setOffset c b v) := by
  unfold setOffset
  split
  · exact ⟨rfl, fun h => ⟨rfl, h⟩⟩
  · exact SecFrame.refl b

theorem Placed.frame {c : Cls} {a b : SecBuf} (h : Placed c a b) : SecFrame a b := by
  induction h with
  | refl => exact SecFrame.refl _
  | off v _ ih => exact SecFrame.trans ih (setOffset_frame _ _ _)
  | addr x _ hm ih =>
    refine SecFrame.trans ih ⟨rfl, fun h' => ?_⟩
    rw [hm] at h'; cases h'

theorem FrameL.mono {α} {R S : α → α → Prop} (hrs : ∀ a b, R a b → S a b) {l l' : List α} (h : FrameL R l l') :
    FrameL S l l' := ⟨h.1, fun i a b ha hb => hrs a b (h.2 i a b ha hb)⟩

/-- one member of `write_segment_data` -/
theorem wsdStep_frame {c : Cls} {g : Seg} {ss : BitVec 64} {st st' : WsdSt} {idx : BitVec 16}
    (h : wsdStep c g ss st idx = .ok (some st')) :
    FrameL (Placed c) st.lay.secs st'.lay.secs ∧ st'.lay.gen.length = st.lay.gen.length := by
  unfold wsdStep at h
  split at h
  · cases h
  · cases h
  · rename_i sec generated hs hg
    simp only at h
    split at h
    · cases h
      exact ⟨FrameL.refl (Placed.refl (c := c)) _, List.length_set⟩
    · split at h
      · cases h
      · rename_i gap hgap
        split at h
        · cases h
          exact ⟨FrameL.refl (Placed.refl (c := c)) _, rfl⟩
        · cases h
          refine ⟨FrameL.set (Placed.refl (c := c)) hs ?_, List.length_set⟩
          apply Placed.off
          split
          · rename_i hn
            exact Placed.addr _ (Placed.refl _) (by simpa [wsd_addr_missing] using hn)
          · exact Placed.refl _

theorem wsdLoop_frame {c : Cls} {g : Seg} {ss : BitVec 64} (l : List (BitVec 16)) {st st' : WsdSt}
    (h : wsdLoop c g ss l st = .ok (some st')) :
    FrameL (Placed c) st.lay.secs st'.lay.secs ∧ st'.lay.gen.length = st.lay.gen.length := by
  induction l generalizing st with
  | nil =>
    simp only [wsdLoop, pure, Except.pure] at h
    cases h
    exact ⟨FrameL.refl (Placed.refl (c := c)) _, rfl⟩
  | cons idx rest ih =>
    simp only [wsdLoop, bind, Except.bind] at h
    cases h1 : wsdStep c g ss st idx with
    | error e => rw [h1] at h; cases h
    | ok r =>
      rw [h1] at h
      cases r with
      | none => cases h
      | some st1 =>
        simp only at h
        obtain ⟨f1, g1⟩ := wsdStep_frame h1
        obtain ⟨f2, g2⟩ := ih h
        exact ⟨FrameL.trans (R := Placed c) (fun _ _ _ => Placed.trans) f1 f2, g2.trans g1⟩

/-- `save` changes of a segment only `offset`, `filesz`, `memsz`, `align`, `offsetSet`;
    the alignment only grows, and so does the memory size (ELF64; in ELF32 the new value is
    truncated to 32 bits) -/
structure SegFrame (c : Cls) (g g' : Seg) : Prop where
  rest : g' = { g with offset := g'.offset, filesz := g'.filesz, memsz := g'.memsz, align := g'.align,
                       offsetSet := g'.offsetSet }
  alignGrows : g.align.toNat ≤ g'.align.toNat
  memGrows : c = .c64 → g.memsz.toNat ≤ g'.memsz.toNat

theorem SegFrame.refl (c : Cls) (g : Seg) : SegFrame c g g := ⟨rfl, Nat.le_refl _, fun _ => Nat.le_refl _⟩

theorem SegFrame.trans {c : Cls} {a b d : Seg} (h1 : SegFrame c a b) (h2 : SegFrame c b d) : SegFrame c a d := by
  refine ⟨?_, Nat.le_trans h1.alignGrows h2.alignGrows, fun h => Nat.le_trans (h1.memGrows h) (h2.memGrows h)⟩
  have e2 := h2.rest; have e1 := h1.rest
  rw [e1] at e2
  exact e2

theorem SegFrame.index {c : Cls} {g g' : Seg} (h : SegFrame c g g') : g'.index = g.index := by
  rw [h.rest]
theorem SegFrame.secs {c : Cls} {g g' : Seg} (h : SegFrame c g g') : g'.secs = g.secs := by
  rw [h.rest]

/-- where a segment starts, and the initial memory / file counters (`layout_segments_and_their_sections`
    up to the call of `write_segment_data`) -/
def segStartOf (phoff : BitVec 64) (pe pn : BitVec 16) (lay : Layout) (g : Seg) :
    M (Layout × BitVec 64 × BitVec 64 × BitVec 64) := do
  let nsec : BitVec 16 := BitVec.ofNat 16 g.secs.length
  let first : Option (BitVec 16) := g.secs.head?
  let firstGen ← match first with
    | none => pure false
    | some f => match lay.gen[f.toNat]? with
      | some b => pure b
      | none => throw (.vecOob "layout_segments/section_generated[first]")
  if lseg_is_phdr g.stype nsec then
    let sz := lseg_phdr_size pe pn
    pure (lay, phoff, sz, sz)
  else if lseg_offset0 g.offsetSet g.offset then
    pure (lay, (0 : BitVec 64), (if g.secs.length > 0 then lay.pos else 0), (if g.secs.length > 0 then lay.pos else 0))
  else if g.secs.length > 0 && !firstGen then
    let al := lseg_align g.align
    let adj := lseg_adjustment (lseg_req_page g.vaddr al) (lseg_cur_page lay.pos al)
    let pos := lseg_advance lay.pos g.align adj al
    pure ({ lay with pos := pos }, pos, (0 : BitVec 64), (0 : BitVec 64))
  else if g.secs.length > 0 then
    match first with
    | some f => match lay.secs[f.toNat]? with
      | some s => pure (lay, s.offset, (0 : BitVec 64), (0 : BitVec 64))
      | none => throw (.nullDeref "layout_segments/sections[first]")
    | none => pure (lay, lay.pos, (0 : BitVec 64), (0 : BitVec 64))
  else pure (lay, lay.pos, (0 : BitVec 64), (0 : BitVec 64))

/-- the segment's fields after `write_segment_data` -/
def segFinish (c : Cls) (g : Seg) (segStart : BitVec 64) (st : WsdSt) : Seg :=
  let g := { g with filesz := truncA c st.file }
  let g := if lseg_memsz_lt g.memsz st.mem then { g with memsz := truncA c st.mem } else g
  { g with offset := truncA c segStart, offsetSet := true }

theorem layoutSegment_eq (c : Cls) (phoff : BitVec 64) (pe pn : BitVec 16) (lay : Layout) (g : Seg) :
    layoutSegment c phoff pe pn lay g =
      (do
        let p ← segStartOf phoff pe pn lay g
        match ← wsdLoop c g p.2.1 g.secs { lay := p.1, mem := p.2.2.1, file := p.2.2.2 } with
        | none => pure none
        | some st => pure (some (st.lay, segFinish c g p.2.1 st))) := by
  unfold layoutSegment segStartOf
  simp only [lseg_has_members0_count, lseg_has_members_count, lseg_fresh_count, decide_eq_true_eq]
  cases g.secs.head? with
  | none =>
    simp only [pure_bind]
    by_cases h1 : lseg_is_phdr g.stype (BitVec.ofNat 16 g.secs.length) = true
    · simp only [h1, if_true, pure_bind]; rfl
    · simp only [h1, if_false]
      by_cases h2 : lseg_offset0 g.offsetSet g.offset = true
      · simp only [h2, if_true, pure_bind]; rfl
      · simp only [h2, if_false]
        by_cases h3 : (decide (g.secs.length > 0) && !false) = true
        · simp only [h3, if_true, pure_bind]; rfl
        · simp only [h3, if_false]
          by_cases h4 : g.secs.length > 0
          · simp only [h4, if_true, pure_bind]; rfl
          · simp only [h4, if_false, pure_bind]; rfl
  | some f =>
    simp only
    cases lay.gen[f.toNat]? with
    | none => rfl
    | some b =>
      simp only [pure_bind]
      by_cases h1 : lseg_is_phdr g.stype (BitVec.ofNat 16 g.secs.length) = true
      · simp only [h1, if_true, pure_bind]; rfl
      · simp only [h1, if_false]
        by_cases h2 : lseg_offset0 g.offsetSet g.offset = true
        · simp only [h2, if_true, pure_bind]; rfl
        · simp only [h2, if_false]
          by_cases h3 : (decide (g.secs.length > 0) && !b) = true
          · simp only [h3, if_true, pure_bind]; rfl
          · simp only [h3, if_false]
            by_cases h4 : g.secs.length > 0
            · simp only [h4, if_true]
              cases lay.secs[f.toNat]? <;> rfl
            · simp only [h4, if_false, pure_bind]; rfl

theorem segStartOf_secs {phoff : BitVec 64} {pe pn : BitVec 16} {lay : Layout} {g : Seg}
    {p : Layout × BitVec 64 × BitVec 64 × BitVec 64} (h : segStartOf phoff pe pn lay g = .ok p) :
    p.1.secs = lay.secs ∧ p.1.gen = lay.gen := by
  unfold segStartOf at h
  cases hh : g.secs.head? with
  | none =>
    rw [hh] at h
    simp only [pure_bind] at h
    repeat' split at h
    all_goals first | (cases h; exact ⟨rfl, rfl⟩) | cases h
  | some f =>
    rw [hh] at h
    simp only at h
    cases hg : lay.gen[f.toNat]? with
    | none => rw [hg] at h; cases h
    | some b =>
      rw [hg] at h
      simp only [pure_bind] at h
      repeat' split at h
      all_goals first | (cases h; exact ⟨rfl, rfl⟩) | cases h

theorem segFinish_offsetSet (c : Cls) (g : Seg) (ss : BitVec 64) (st : WsdSt) :
    (segFinish c g ss st).offsetSet = true := rfl

theorem segFinish_frame (c : Cls) (g : Seg) (ss : BitVec 64) (st : WsdSt) :
    SegFrame c g (segFinish c g ss st) := by
  unfold segFinish
  simp only
  split
  · rename_i hlt
    refine ⟨rfl, Nat.le_refl _, fun hc => ?_⟩
    subst hc
    simp only [lseg_memsz_lt, BitVec.ult, decide_eq_true_eq] at hlt
    simp only [truncA]
    omega
  · exact ⟨rfl, Nat.le_refl _, fun _ => Nat.le_refl _⟩

/-- a successful `layoutSegment` in its pieces -/
theorem layoutSegment_ok {c : Cls} {phoff : BitVec 64} {pe pn : BitVec 16} {lay lay' : Layout} {g g' : Seg}
    (h : layoutSegment c phoff pe pn lay g = .ok (some (lay', g'))) :
    ∃ p st, segStartOf phoff pe pn lay g = .ok p ∧
      wsdLoop c g p.2.1 g.secs { lay := p.1, mem := p.2.2.1, file := p.2.2.2 } = .ok (some st) ∧
      lay' = st.lay ∧ g' = segFinish c g p.2.1 st := by
  rw [layoutSegment_eq] at h
  simp only [bind, Except.bind] at h
  cases h1 : segStartOf phoff pe pn lay g with
  | error e => rw [h1] at h; cases h
  | ok p =>
    rw [h1] at h
    simp only at h
    cases h2 : wsdLoop c g p.2.1 g.secs { lay := p.1, mem := p.2.2.1, file := p.2.2.2 } with
    | error e => rw [h2] at h; cases h
    | ok r =>
      rw [h2] at h
      cases r with
      | none => cases h
      | some st =>
        simp only [pure, Except.pure] at h
        cases h
        exact ⟨p, st, rfl, h2, rfl, rfl⟩

theorem layoutSegment_frame {c : Cls} {phoff : BitVec 64} {pe pn : BitVec 16} {lay lay' : Layout} {g g' : Seg}
    (h : layoutSegment c phoff pe pn lay g = .ok (some (lay', g'))) :
    FrameL (Placed c) lay.secs lay'.secs ∧ lay'.gen.length = lay.gen.length ∧ SegFrame c g g' ∧
      g'.offsetSet = true := by
  obtain ⟨p, st, h1, h2, rfl, rfl⟩ := layoutSegment_ok h
  obtain ⟨e1, e2⟩ := segStartOf_secs h1
  obtain ⟨f, gl⟩ := wsdLoop_frame _ h2
  simp only [e1, e2] at f gl
  exact ⟨f, gl, segFinish_frame c g _ st, rfl⟩

/-! ### `calc_segment_alignment`, segment ordering, putting segments back -/

theorem calcSegAlign_fold {secs : List SecBuf} (l : List (BitVec 16)) {g g' : Seg}
    (h : l.foldlM (fun g idx =>
      match secs[idx.toNat]? with
      | none => (throw (Fault.vecOob "calc_segment_alignment/sections_[index]") : M Seg)
      | some s => pure (if BitVec.ult g.align s.addrAlign then { g with align := s.addrAlign } else g)) g = .ok g') :
    g' = { g with align := g'.align } ∧ g.align.toNat ≤ g'.align.toNat := by
  induction l generalizing g with
  | nil => simp only [List.foldlM_nil, pure, Except.pure] at h; cases h; exact ⟨rfl, Nat.le_refl _⟩
  | cons idx rest ih =>
    simp only [List.foldlM_cons, bind, Except.bind] at h
    cases hs : secs[idx.toNat]? with
    | none => rw [hs] at h; cases h
    | some s =>
      rw [hs] at h
      simp only [pure, Except.pure] at h
      obtain ⟨e, le⟩ := ih h
      split at e
      · rename_i hlt
        rw [if_pos hlt] at le
        simp only [BitVec.ult, decide_eq_true_eq] at hlt
        exact ⟨e, by simp only at le; omega⟩
      · rename_i hlt
        rw [if_neg hlt] at le
        exact ⟨e, le⟩

theorem calcSegAlign_frame {c : Cls} {secs : List SecBuf} {g g' : Seg} (h : calcSegAlign secs g = .ok g') :
    SegFrame c g g' ∧ g'.offset = g.offset ∧ g'.filesz = g.filesz ∧ g'.memsz = g.memsz ∧
      g'.offsetSet = g.offsetSet := by
  obtain ⟨e, le⟩ := calcSegAlign_fold g.secs h
  refine ⟨⟨?_, le, fun _ => by rw [e]; exact Nat.le_refl _⟩, by rw [e], by rw [e], by rw [e], by rw [e]⟩
  rw [e]

theorem mapM_ok_frame {α} {f : α → M α} {l l' : List α} (h : l.mapM f = .ok l') :
    FrameL (fun a b => f a = .ok b) l l' := by
  induction l generalizing l' with
  | nil => simp only [List.mapM_nil, pure, Except.pure] at h; cases h; exact ⟨rfl, fun i a b h => by cases h⟩
  | cons a rest ih =>
    simp only [List.mapM_cons, bind, Except.bind] at h
    cases ha : f a with
    | error e => rw [ha] at h; cases h
    | ok b =>
      rw [ha] at h
      cases hr : rest.mapM f with
      | error e => rw [hr] at h; cases h
      | ok bs =>
        rw [hr] at h
        simp only [pure, Except.pure] at h
        cases h
        obtain ⟨l1, l2⟩ := ih hr
        refine ⟨by simp [l1], fun i x y hx hy => ?_⟩
        cases i with
        | zero => simp only [List.getElem?_cons_zero] at hx hy; cases hx; cases hy; exact ha
        | succ j => simp only [List.getElem?_cons_succ] at hx hy; exact l2 j x y hx hy

theorem orderFront_go_sub (n : Nat) (fuel i ns : Nat) (wl wl' : Array Seg)
    (h : orderFront.go n i ns wl fuel = .ok wl') : ∀ x ∈ wl', x ∈ wl := by
  induction fuel generalizing i ns wl with
  | zero => unfold orderFront.go at h; cases h; exact fun x hx => hx
  | succ fuel ih =>
    unfold orderFront.go at h
    split at h
    · cases h; exact fun x hx => hx
    · split at h
      · cases h
      · rename_i si hsi
        split at h
        · split at h
          · cases h
          · rename_i sn hsn
            simp only at h
            split at h
            · cases h
            · rename_i sn2 hsn2
              intro x hx
              have := ih _ _ _ h x hx
              rw [Array.set!_eq_setIfInBounds, Array.set!_eq_setIfInBounds] at this
              rcases Array.mem_or_eq_of_mem_setIfInBounds this with h1 | h1
              · rcases Array.mem_or_eq_of_mem_setIfInBounds h1 with h2 | h2
                · exact h2
                · rw [h2]; exact Array.mem_of_getElem? hsn2
              · rw [h1]; exact Array.mem_of_getElem? hsi
        · exact ih _ _ _ h

theorem orderTopo_sub (fuel : Nat) (wl res out : List Seg) (h : orderTopo wl res fuel = .ok out) :
    ∀ x ∈ out, x ∈ wl ∨ x ∈ res := by
  induction fuel generalizing wl res with
  | zero =>
    cases wl with
    | nil => simp only [orderTopo, pure, Except.pure] at h; cases h; intro x hx; exact Or.inr (by simpa using hx)
    | cons a r => simp only [orderTopo] at h; cases h
  | succ fuel ih =>
    cases wl with
    | nil => simp only [orderTopo, pure, Except.pure] at h; cases h; intro x hx; exact Or.inr (by simpa using hx)
    | cons a r =>
      simp only [orderTopo] at h
      split at h
      · intro x hx
        rcases ih _ _ h x hx with h1 | h1
        · left
          rcases List.mem_append.1 h1 with h2 | h2
          · exact List.mem_cons_of_mem _ h2
          · simp only [List.mem_singleton] at h2; rw [h2]; exact List.mem_cons_self
        · exact Or.inr h1
      · intro x hx
        rcases ih _ _ h x hx with h1 | h1
        · exact Or.inl (List.mem_cons_of_mem _ h1)
        · rcases List.mem_cons.1 h1 with h2 | h2
          · rw [h2]; exact Or.inl List.mem_cons_self
          · exact Or.inr h2

/-- every ordered segment is one of the given segments -/
theorem orderedSegments_sub {segs ordered : List Seg} (h : orderedSegments segs = .ok ordered) :
    ∀ x ∈ ordered, x ∈ segs := by
  unfold orderedSegments at h
  simp only [bind, Except.bind] at h
  cases h1 : orderFront segs.toArray with
  | error e => rw [h1] at h; cases h
  | ok wl =>
    rw [h1] at h
    simp only at h
    intro x hx
    rcases orderTopo_sub _ _ _ _ h x hx with h2 | h2
    · have := orderFront_go_sub _ _ _ _ _ _ h1 x (by simpa using h2)
      simpa using this
    · cases h2

/-! ### the loop over the ordered segments -/

/-- pointwise relation of two lists -/
inductive All2 {α β} (R : α → β → Prop) : List α → List β → Prop
  | nil : All2 R [] []
  | cons {a b l l'} : R a b → All2 R l l' → All2 R (a :: l) (b :: l')

/-- trace of the segment loop: the layouts it goes through and the finished segments -/
inductive SegRun (c : Cls) (e : Enc) (h0 : Bytes) : Layout → List Seg → Layout → List Seg → Prop
  | nil (lay : Layout) : SegRun c e h0 lay [] lay []
  | cons {lay lay1 lay2 : Layout} {g d : Seg} {rest ds : List Seg} :
      layoutSegment c (Hdr.e_phoff c e h0) (Hdr.e_phentsize c e h0) (Hdr.e_phnum c e h0) lay g = .ok (some (lay1, d)) →
      SegRun c e h0 lay1 rest lay2 ds → SegRun c e h0 lay (g :: rest) lay2 (d :: ds)

theorem saveFold_none (c : Cls) (e : Enc) (h0 : Bytes) (l : List Seg) :
    l.foldlM (saveStep c e h0) none = .ok none := by
  induction l with
  | nil => rfl
  | cons g rest ih => simp only [List.foldlM_cons, saveStep, pure_bind]; exact ih

theorem saveFold_run {c : Cls} {e : Enc} {h0 : Bytes} (ordered : List Seg) {lay0 lay : Layout} {done0 done : List Seg}
    (h : ordered.foldlM (saveStep c e h0) (some (lay0, done0)) = .ok (some (lay, done))) :
    ∃ ds, done = done0 ++ ds ∧ SegRun c e h0 lay0 ordered lay ds := by
  induction ordered generalizing lay0 done0 with
  | nil =>
    simp only [List.foldlM_nil, pure, Except.pure] at h
    cases h
    exact ⟨[], by simp, SegRun.nil _⟩
  | cons g rest ih =>
    simp only [List.foldlM_cons, saveStep, bind, Except.bind] at h
    cases h1 : layoutSegment c (Hdr.e_phoff c e h0) (Hdr.e_phentsize c e h0) (Hdr.e_phnum c e h0) lay0 g with
    | error err => rw [h1] at h; cases h
    | ok r =>
      rw [h1] at h
      cases r with
      | none =>
        simp only [pure, Except.pure] at h
        have := saveFold_none c e h0 rest
        rw [this] at h; cases h
      | some p =>
        obtain ⟨lay1, d⟩ := p
        simp only [pure, Except.pure] at h
        obtain ⟨ds, e1, r1⟩ := ih h
        exact ⟨d :: ds, by rw [e1]; simp, SegRun.cons h1 r1⟩

theorem SegRun.frame {c : Cls} {e : Enc} {h0 : Bytes} {lay0 lay : Layout} {ordered ds : List Seg}
    (h : SegRun c e h0 lay0 ordered lay ds) :
    FrameL (Placed c) lay0.secs lay.secs ∧ lay.gen.length = lay0.gen.length ∧
      All2 (fun g d => SegFrame c g d ∧ d.offsetSet = true) ordered ds := by
  induction h with
  | nil lay => exact ⟨FrameL.refl (Placed.refl (c := c)) _, rfl, All2.nil⟩
  | cons h1 _ ih =>
    obtain ⟨f1, g1, s1, o1⟩ := layoutSegment_frame h1
    obtain ⟨f2, g2, r2⟩ := ih
    exact ⟨FrameL.trans (R := Placed c) (fun _ _ _ => Placed.trans) f1 f2, g2.trans g1,
      All2.cons ⟨s1, o1⟩ r2⟩

theorem forall₂_mem_right {α β} {R : α → β → Prop} {l : List α} {l' : List β} (h : All2 R l l')
    {b : β} (hb : b ∈ l') : ∃ a ∈ l, R a b := by
  induction h with
  | nil => cases hb
  | cons hr _ ih =>
    rcases List.mem_cons.1 hb with h1 | h1
    · subst h1; exact ⟨_, List.mem_cons_self, hr⟩
    · obtain ⟨a, ha, r⟩ := ih h1
      exact ⟨a, List.mem_cons_of_mem _ ha, r⟩

/-- every segment carries its own position as index (true of every object built through
    `segments.add` — below 65536 segments — or loaded) -/
def SegIdxOk (segs : List Seg) : Prop := ∀ (k : Nat) g, segs[k]? = some g → g.index = k

theorem putBack_frame {c : Cls} {segs1 done : List Seg} (hidx : SegIdxOk segs1)
    (hd : ∀ d ∈ done, ∃ g ∈ segs1, SegFrame c g d ∧ d.offsetSet = true) :
    FrameL (fun g g' => SegFrame c g g' ∧ (g' = g ∨ g'.offsetSet = true)) segs1 (putBack segs1 done) := by
  refine ⟨by simp [putBack], fun i a b ha hb => ?_⟩
  simp only [putBack, List.getElem?_map, ha, Option.map_some, Option.some.injEq] at hb
  subst hb
  cases hf : done.find? (fun d => d.index == a.index) with
  | none => exact ⟨SegFrame.refl c a, Or.inl rfl⟩
  | some d =>
    simp only [Option.getD_some]
    have hm := List.mem_of_find?_eq_some hf
    have hi := List.find?_some hf
    simp only [beq_iff_eq] at hi
    obtain ⟨g, hg, fr, os⟩ := hd d hm
    obtain ⟨j, hj⟩ := List.getElem?_of_mem hg
    have e1 := hidx j g hj
    have e2 := hidx i a ha
    have : j = i := by rw [← e1, ← e2, ← hi, fr.index]
    subst this
    rw [ha] at hj; cases hj
    exact ⟨fr, Or.inr os⟩

/-! ### loose sections, residency -/

theorem FrameL.cons {α} {R : α → α → Prop} {a b : α} {l l' : List α} (hab : R a b) (h : FrameL R l l') :
    FrameL R (a :: l) (b :: l') := by
  refine ⟨by simp [h.1], fun i x y hx hy => ?_⟩
  cases i with
  | zero => simp only [List.getElem?_cons_zero] at hx hy; cases hx; cases hy; exact hab
  | succ j => simp only [List.getElem?_cons_succ] at hx hy; exact h.2 j x y hx hy

theorem layoutLoose_frame (c : Cls) (segs : List Seg) (l : List SecBuf) (i : Nat) (pos : BitVec 64)
    (acc : List SecBuf) :
    ∃ l', (layoutLoose c segs l i pos acc).1 = acc.reverse ++ l' ∧ FrameL (Placed c) l l' := by
  induction l generalizing i pos acc with
  | nil => exact ⟨[], by simp [layoutLoose], FrameL.refl (Placed.refl (c := c)) _⟩
  | cons s rest ih =>
    unfold layoutLoose
    simp only [setOffsetLoose_eq]
    split
    · obtain ⟨l', e, f⟩ := ih (i + 1) _ (setOffset c s _ :: acc)
      exact ⟨setOffset c s (if lsws_need_align s.addrAlign pos then lsws_aligned pos s.addrAlign else pos) :: l',
        by rw [e]; simp, FrameL.cons (Placed.off _ (Placed.refl _)) f⟩
    · obtain ⟨l', e, f⟩ := ih (i + 1) pos (s :: acc)
      exact ⟨s :: l', by rw [e]; simp, FrameL.cons (Placed.refl s) f⟩

/-- what a `get_data()` (`save` performs one on every section) may change of a section: only the
    data buffer and its bookkeeping; nothing at all if the section is resident (or can no longer be
    loaded); and a section that has a data buffer keeps it -/
structure ResFrame (a b : SecBuf) : Prop where
  rest : b = { a with data := b.data, dataSize := b.dataSize, isLoaded := b.isLoaded, canLoad := b.canLoad }
  resident : (a.isLoaded = true ∨ a.canLoad = false) → b = a
  dataSome : a.data.isSome = true → b.data = a.data ∧ b.dataSize = a.dataSize
  /-- afterwards the section is resident or known to be unloadable -/
  post : (a.isLoaded = true ∨ a.canLoad = false) ∨ a = b ∨ (b.isLoaded = true ∨ b.canLoad = false)

theorem ResFrame.refl (a : SecBuf) : ResFrame a a := ⟨rfl, fun _ => rfl, fun _ => ⟨rfl, rfl⟩, Or.inr (Or.inl rfl)⟩

theorem ResFrame.trans {a b c : SecBuf} (h1 : ResFrame a b) (h2 : ResFrame b c) : ResFrame a c := by
  refine ⟨?_, fun h => ?_, fun h => ?_, ?_⟩
  · have e2 := h2.rest; have e1 := h1.rest
    rw [e1] at e2; exact e2
  · have e := h1.resident h
    rw [e] at h2
    exact h2.resident h
  · obtain ⟨p, q⟩ := h1.dataSome h
    obtain ⟨p', q'⟩ := h2.dataSome (by rw [p]; exact h)
    exact ⟨p'.trans p, q'.trans q⟩
  · by_cases hr : a.isLoaded = true ∨ a.canLoad = false
    · exact Or.inl hr
    · rcases h1.post with h | h | h
      · exact absurd h hr
      · subst h
        rcases h2.post with h' | h' | h'
        · exact Or.inl h'
        · exact Or.inr (Or.inl h')
        · exact Or.inr (Or.inr h')
      · have := h2.resident h
        rw [this]; exact Or.inr (Or.inr h)

theorem secLoadData_frame1 (c : Cls) (tr : List Trans) (ls : LoadSt) (b : SecBuf) :
    (secLoadData c tr ls b).2.1 =
      { b with data := (secLoadData c tr ls b).2.1.data, dataSize := (secLoadData c tr ls b).2.1.dataSize,
               isLoaded := (secLoadData c tr ls b).2.1.isLoaded } := by
  unfold secLoadData
  simp only
  repeat' split
  all_goals rfl

theorem secLoadData_frame2 (c : Cls) (tr : List Trans) (ls : LoadSt) (b : SecBuf) (hd : b.data.isSome = true) :
    (secLoadData c tr ls b).2.1.data = b.data ∧ (secLoadData c tr ls b).2.1.dataSize = b.dataSize := by
  have hn : b.data.isNone = false := by
    cases hb : b.data with
    | none => rw [hb] at hd; cases hd
    | some x => rfl
  have hneed : ∀ t, secNeedsLoad c false t = false := fun t => by cases c <;> rfl
  unfold secLoadData
  simp only [hn, hneed, Bool.false_and, Bool.false_eq_true, if_false]
  repeat' split
  all_goals exact ⟨rfl, rfl⟩

theorem secLoadData_frame3 (c : Cls) (tr : List Trans) (ls : LoadSt) (b : SecBuf) :
    (secLoadData c tr ls b).2.2 = true → (secLoadData c tr ls b).2.1.isLoaded = true := by
  unfold secLoadData
  simp only
  repeat' split
  all_goals (intro h; first | rfl | cases h | exact h)

theorem secLoadData_frame (c : Cls) (tr : List Trans) (ls : LoadSt) (b : SecBuf) :
    (secLoadData c tr ls b).2.1 =
      { b with data := (secLoadData c tr ls b).2.1.data, dataSize := (secLoadData c tr ls b).2.1.dataSize,
               isLoaded := (secLoadData c tr ls b).2.1.isLoaded } ∧
    (b.data.isSome = true → (secLoadData c tr ls b).2.1.data = b.data ∧
      (secLoadData c tr ls b).2.1.dataSize = b.dataSize) ∧
    ((secLoadData c tr ls b).2.2 = true → (secLoadData c tr ls b).2.1.isLoaded = true) :=
  ⟨secLoadData_frame1 c tr ls b, secLoadData_frame2 c tr ls b, secLoadData_frame3 c tr ls b⟩

theorem secGetData_frame (c : Cls) (tr : List Trans) (ls : LoadSt) (b : SecBuf) :
    ResFrame b (secGetData c tr ls b).2 ∧
      ((b.isLoaded = true ∨ b.canLoad = false) → (secGetData c tr ls b).1 = ls) := by
  unfold secGetData
  split
  · rename_i hc
    simp only [Bool.and_eq_true, Bool.not_eq_true'] at hc
    obtain ⟨f1, f2, f3⟩ := secLoadData_frame c tr ls b
    have hno : ¬ (b.isLoaded = true ∨ b.canLoad = false) := by
      intro h; rcases h with h | h
      · rw [hc.1] at h; cases h
      · rw [hc.2] at h; cases h
    refine ⟨⟨?_, fun h => absurd h hno, fun h => ?_, Or.inr (Or.inr ?_)⟩, fun h => absurd h hno⟩
    · simp only
      split
      · rw [f1]
      · rw [f1]
    · simp only
      split
      · exact f2 h
      · exact f2 h
    · simp only
      split
      · rename_i hok; exact Or.inl (f3 hok)
      · exact Or.inr rfl
  · exact ⟨ResFrame.refl b, fun _ => rfl⟩

theorem residentForSave_frame (c : Cls) (tr : List Trans) (l : List SecBuf) (ls : LoadSt) (acc : List SecBuf) :
    ∃ l', (residentForSave c tr l ls acc).1 = acc.reverse ++ l' ∧ FrameL ResFrame l l' := by
  induction l generalizing ls acc with
  | nil => exact ⟨[], by simp [residentForSave], FrameL.refl ResFrame.refl _⟩
  | cons b rest ih =>
    unfold residentForSave
    split
    · obtain ⟨l', e, f⟩ := ih (secGetData c tr ls b).1 ((secGetData c tr ls b).2 :: acc)
      exact ⟨_ :: l', by rw [e]; simp, FrameL.cons (secGetData_frame c tr ls b).1 f⟩
    · obtain ⟨l', e, f⟩ := ih ls (b :: acc)
      exact ⟨b :: l', by rw [e]; simp, FrameL.cons (ResFrame.refl b) f⟩

theorem allResident_frame (c : Cls) (tr : List Trans) (l : List SecBuf) (ls : LoadSt) (acc : List SecBuf) :
    ∃ l', (allResident c tr l ls acc).1 = acc.reverse ++ l' ∧ FrameL ResFrame l l' := by
  induction l generalizing ls acc with
  | nil => exact ⟨[], by simp [allResident], FrameL.refl ResFrame.refl _⟩
  | cons b rest ih =>
    unfold allResident
    obtain ⟨l', e, f⟩ := ih (secGetData c tr ls b).1 ((secGetData c tr ls b).2 :: acc)
    exact ⟨_ :: l', by rw [e]; simp, FrameL.cons (secGetData_frame c tr ls b).1 f⟩

theorem preRes_frame (o : Obj) : FrameL ResFrame o.secs (preRes o).secs := by
  obtain ⟨l', e, f⟩ := allResident_frame o.cls o.trans o.secs { st := o.stream } []
  simp only [List.reverse_nil, List.nil_append] at e
  unfold preRes
  simp only
  rw [e]; exact f

/-! ### all passes together -/

/-- segment `g'` is `g` after a `save()` -/
structure SegSaved (c : Cls) (g g' : Seg) : Prop where
  frame : SegFrame c g g'
  /-- either the segment was not laid out at all, or its offset is now initialised -/
  placed : (g'.offset = g.offset ∧ g'.filesz = g.filesz ∧ g'.memsz = g.memsz ∧ g'.offsetSet = g.offsetSet) ∨
    g'.offsetSet = true

/-- what a successful `save` does to the object: sections are placed (`Placed`), then made resident
    (`ResFrame`); segments keep everything but `offset`, `filesz`, `memsz`, `align`, `offsetSet`;
    class, byte order, translation untouched -/
theorem save_frames {o : Obj} {os : OStream} {r : SaveRes} (h : save o os = .ok r) (hok : r.ok = true)
    (hidx : SegIdxOk o.segs) :
    (∃ l0 l1, FrameL ResFrame o.secs l0 ∧ FrameL (Placed o.cls) l0 l1 ∧ FrameL ResFrame l1 r.obj.secs) ∧
    FrameL (SegSaved o.cls) o.segs r.obj.segs ∧
    r.obj.cls = o.cls ∧ r.obj.enc = o.enc ∧ r.obj.trans = o.trans := by
  obtain ⟨hd, segs1, ordered, lay, done, hh, hf, h1, h2, h3, rfl⟩ := save_ok_unfold h hok
  obtain ⟨_, eobj, _, _⟩ := saveTail_ok hok
  rw [eobj]
  simp only
  -- segments
  have fa := mapM_ok_frame h1
  have hidx1 : SegIdxOk segs1 := by
    intro k g hg
    have hk : k < o.segs.length := by
      have e0 : (preRes o).segs.length = o.segs.length := rfl
      rw [← e0, ← fa.1]
      rcases Nat.lt_or_ge k segs1.length with hlt | hge
      · exact hlt
      · rw [List.getElem?_eq_none hge] at hg; cases hg
    have := fa.2 k o.segs[k] g (List.getElem?_eq_getElem hk) hg
    rw [(calcSegAlign_frame (c := o.cls) this).1.index]
    exact hidx k _ (List.getElem?_eq_getElem hk)
  obtain ⟨ds, ed, run⟩ := saveFold_run ordered h3
  simp only [List.nil_append] at ed
  subst ed
  obtain ⟨fsec, _, fseg⟩ := run.frame
  have hsub := orderedSegments_sub h2
  have pb := putBack_frame (c := o.cls) hidx1 (fun d hd' => by
    obtain ⟨g, hg, fr⟩ := forall₂_mem_right fseg hd'
    exact ⟨g, hsub g hg, fr⟩)
  refine ⟨?_, ?_, by first | rfl | trivial, by first | rfl | trivial, by first | rfl | trivial⟩
  · -- sections: segment loop, loose sections, residency
    obtain ⟨l1, e1, f1⟩ := layoutLoose_frame o.cls (putBack segs1 done) lay.secs 0 lay.pos []
    obtain ⟨l2, e2, f2⟩ := residentForSave_frame o.cls o.trans l1 { st := (preRes o).stream } []
    simp only [List.reverse_nil, List.nil_append] at e1 e2
    have e : tailSecs (preRes o) segs1 lay done = l2 := by
      unfold tailSecs tailLoose
      show (residentForSave o.cls o.trans (layoutLoose o.cls (putBack segs1 done) lay.secs 0 lay.pos []).1
        { st := (preRes o).stream } []).1 = l2
      rw [e1, e2]
    rw [e]
    exact ⟨(preRes o).secs, l1, preRes_frame o,
      FrameL.trans (R := Placed o.cls) (fun _ _ _ => Placed.trans) fsec f1, f2⟩
  · -- segments: alignment pass, then put back
    refine ⟨pb.1.trans fa.1, fun i a b ha hb => ?_⟩
    have hi : i < segs1.length := by
      rw [fa.1]
      rcases Nat.lt_or_ge i o.segs.length with hlt | hge
      · exact hlt
      · rw [List.getElem?_eq_none hge] at ha; cases ha
    have c1 := calcSegAlign_frame (c := o.cls) (fa.2 i a segs1[i] ha (List.getElem?_eq_getElem hi))
    have c2 := pb.2 i segs1[i] b (List.getElem?_eq_getElem hi) hb
    refine ⟨SegFrame.trans c1.1 c2.1, ?_⟩
    rcases c2.2 with e | e
    · left; rw [e]; exact c1.2
    · exact Or.inr e

theorem saveHdr0_preRes (o : Obj) (hd : Bytes) : saveHdr0 (preRes o) hd = saveHdr0 o hd := by
  have e : (preRes o).secs.length = o.secs.length := (preRes_frame o).1
  unfold saveHdr0
  rw [e]
  rfl

/-- the header a successful `save` leaves: the old one after the four preliminary setters and the
    final `set_sections_offset` -/
theorem save_hdr_eq {o : Obj} {os : OStream} {r : SaveRes} (h : save o os = .ok r) (hok : r.ok = true) :
    ∃ hd x, o.hdr = some hd ∧ r.obj.hdr = some (Hdr.set_shoff o.cls o.enc (saveHdr0 o hd) x) := by
  obtain ⟨hd, segs1, ordered, lay, done, hh, _, _, _, _, rfl⟩ := save_ok_unfold h hok
  obtain ⟨_, eobj, _, _⟩ := saveTail_ok hok
  rw [eobj]
  refine ⟨hd, (tailShoff (preRes o) segs1 lay done).toNat, hh, ?_⟩
  simp only [tailHdr, saveHdr0_preRes]
  rfl

/-- index-wise composition of two list relations -/
theorem FrameL.comp {α} {R S T : α → α → Prop} (hc : ∀ a m b, R a m → S m b → T a b) {l1 l2 l3 : List α}
    (h1 : FrameL R l1 l2) (h2 : FrameL S l2 l3) : FrameL T l1 l3 := by
  refine ⟨h2.1.trans h1.1, fun i a c ha hcc => ?_⟩
  have hi : i < l2.length := by
    rw [h1.1]
    rcases Nat.lt_or_ge i l1.length with h | h
    · exact h
    · rw [List.getElem?_eq_none h] at ha; cases ha
  exact hc _ _ _ (h1.2 i a l2[i] ha (List.getElem?_eq_getElem hi)) (h2.2 i l2[i] c (List.getElem?_eq_getElem hi) hcc)

/-! ### the output stream: `adjust_stream_size` + `write` -/

/-- a stream that has not failed and has no byte budget -/
def _root_.ElfioVerif.OStream.Good (s : OStream) : Prop := s.fail = false ∧ s.budget = none

theorem write_good (s : OStream) (hg : s.Good) (bs : Bytes) :
    s.write bs = { content := if s.pos + bs.length ≤ s.content.length then wr s.content s.pos bs
                              else s.content.take s.pos ++ bs,
                   pos := s.pos + bs.length, budget := none, fail := false } := by
  obtain ⟨hf, hb⟩ := hg
  unfold OStream.write
  simp only [hf, hb, Bool.false_eq_true, if_false, List.take_length, Nat.lt_irrefl, decide_false]

theorem adjust_spec (s : OStream) (hg : s.Good) (off : Nat) :
    s.adjust (off : Int) = { content := s.content ++ List.replicate (off - s.content.length) 0, pos := off,
                             budget := none, fail := false } := by
  have hg' := hg
  obtain ⟨hf, hb⟩ := hg
  unfold OStream.adjust OStream.seekEnd OStream.tellp
  simp only [hf, Bool.false_eq_true, if_false, Int.ofNat_eq_natCast]
  by_cases hlt : s.content.length < off
  · have h1 : ((s.content.length : Int) < (off : Int)) := by omega
    simp only [h1, if_true]
    have h2 : ((off : Int) - (s.content.length : Int)).toNat = off - s.content.length := by omega
    rw [write_good { content := s.content, pos := s.content.length, budget := s.budget } ⟨rfl, hb⟩, h2]
    simp only [List.length_replicate, List.take_length]
    rw [if_neg (by omega)]
    unfold OStream.seekp
    simp only [Bool.false_eq_true, if_false, List.length_append, List.length_replicate, Int.toNat_natCast]
    rw [if_neg (by omega)]
  · have h1 : ¬ ((s.content.length : Int) < (off : Int)) := by omega
    simp only [h1, if_false]
    unfold OStream.seekp
    simp only [hf, Bool.false_eq_true, if_false]
    rw [if_neg (by omega)]
    have : off - s.content.length = 0 := by omega
    rw [this]
    simp only [List.replicate_zero, List.append_nil, Int.toNat_natCast, hb]

theorem adjust_write_spec (s : OStream) (hg : s.Good) (off : Nat) (bs : Bytes) :
    ((s.adjust (off : Int)).write bs).Good ∧
    ((s.adjust (off : Int)).write bs).content.length = max s.content.length (off + bs.length) ∧
    ∀ i : Nat, ((s.adjust (off : Int)).write bs).content[i]? =
      if off ≤ i ∧ i < off + bs.length then bs[i - off]?
      else if i < s.content.length then s.content[i]?
      else if i < off then some 0 else none := by
  rw [adjust_spec s hg, write_good _ ⟨rfl, rfl⟩]
  simp only [List.length_append, List.length_replicate]
  refine ⟨⟨rfl, rfl⟩, ?_, ?_⟩
  · split
    · rw [wr_length _ _ _ (by simp only [List.length_append, List.length_replicate]; omega)]
      simp only [List.length_append, List.length_replicate]; omega
    · simp only [List.length_append, List.length_take, List.length_replicate]; omega
  · intro i
    have hand : (if off ≤ i ∧ i < off + bs.length then bs[i - off]?
      else if i < s.content.length then s.content[i]? else if i < off then some 0 else none) =
      (if off ≤ i then (if i < off + bs.length then bs[i - off]?
        else if i < s.content.length then s.content[i]? else if i < off then some 0 else none)
      else if i < s.content.length then s.content[i]? else if i < off then some 0 else none) := by
      by_cases h1 : off ≤ i <;> by_cases h2 : i < off + bs.length <;> simp [h1, h2]
    rw [hand]
    split
    · rw [wr_getElem? _ _ _ _ (by simp only [List.length_append, List.length_replicate]; omega)]
      simp only [List.getElem?_append, List.getElem?_replicate]
      ite_omega
    · simp only [List.getElem?_append, List.getElem?_take, List.getElem?_replicate, List.length_take,
        List.length_append, List.length_replicate]
      ite_omega
      all_goals omega


/-- **adjust + write** puts the bytes at `off` … -/
theorem adjust_write_slice (s : OStream) (hg : s.Good) (off : Nat) (bs : Bytes) :
    slice ((s.adjust (off : Int)).write bs).content off bs.length = bs := by
  obtain ⟨_, hl, hi⟩ := adjust_write_spec s hg off bs
  apply List.ext_getElem?
  intro i
  unfold slice
  simp only [List.getElem?_take, List.getElem?_drop, hi]
  by_cases h : i < bs.length
  · simp only [h, if_true]
    rw [if_pos (by omega)]
    congr 1; omega
  · simp only [h, if_false]
    rw [List.getElem?_eq_none (by omega)]

/-- … and changes nothing outside `[off, off + len)` below the old length -/
theorem adjust_write_frame (s : OStream) (hg : s.Good) (off : Nat) (bs : Bytes) (a n : Nat)
    (ha : a + n ≤ s.content.length) (hd : a + n ≤ off ∨ off + bs.length ≤ a) :
    slice ((s.adjust (off : Int)).write bs).content a n = slice s.content a n := by
  obtain ⟨_, hl, hi⟩ := adjust_write_spec s hg off bs
  apply slice_eq_of_getElem?
  intro i hin
  rw [hi]
  rw [if_neg (by omega), if_pos (by omega)]

/-- a sequence of positioned writes -/
def applyWrites (s : OStream) (ws : List (Nat × Bytes)) : OStream :=
  ws.foldl (fun s w => (s.adjust (w.1 : Int)).write w.2) s

/-- two positioned writes do not touch a common byte -/
def WDisj (w1 w2 : Nat × Bytes) : Prop := w1.1 + w1.2.length ≤ w2.1 ∨ w2.1 + w2.2.length ≤ w1.1

theorem applyWrites_frame (ws : List (Nat × Bytes)) (s : OStream) (hg : s.Good) (a n : Nat)
    (ha : a + n ≤ s.content.length) (hd : ∀ w ∈ ws, a + n ≤ w.1 ∨ w.1 + w.2.length ≤ a) :
    (applyWrites s ws).Good ∧ s.content.length ≤ (applyWrites s ws).content.length ∧
      slice (applyWrites s ws).content a n = slice s.content a n := by
  induction ws generalizing s with
  | nil => exact ⟨hg, Nat.le_refl _, rfl⟩
  | cons w rest ih =>
    obtain ⟨g1, l1, _⟩ := adjust_write_spec s hg w.1 w.2
    have f1 := adjust_write_frame s hg w.1 w.2 a n ha (hd w List.mem_cons_self)
    have hle : s.content.length ≤ ((s.adjust (w.1 : Int)).write w.2).content.length := by rw [l1]; omega
    obtain ⟨g2, l2, f2⟩ := ih _ g1 (by omega) (fun w' hw' => hd w' (List.mem_cons_of_mem _ hw'))
    exact ⟨g2, Nat.le_trans hle l2, f2.trans f1⟩

theorem applyWrites_good (ws : List (Nat × Bytes)) (s : OStream) (hg : s.Good) : (applyWrites s ws).Good :=
  (applyWrites_frame ws s hg 0 0 (Nat.zero_le _) (fun _ _ => Or.inl (Nat.zero_le _))).1

/-- **pairwise disjoint writes all end up in the stream** -/
theorem applyWrites_slices (ws : List (Nat × Bytes)) (s : OStream) (hg : s.Good)
    (hp : ws.Pairwise WDisj) : ∀ w ∈ ws, slice (applyWrites s ws).content w.1 w.2.length = w.2 := by
  induction ws generalizing s with
  | nil => intro w hw; cases hw
  | cons w0 rest ih =>
    intro w hw
    obtain ⟨hp0, hpr⟩ := List.pairwise_cons.1 hp
    obtain ⟨g1, l1, _⟩ := adjust_write_spec s hg w0.1 w0.2
    rcases List.mem_cons.1 hw with h | h
    · subst h
      have := applyWrites_frame rest _ g1 w.1 w.2.length (by rw [l1]; omega) (fun w' hw' => by
        have := hp0 w' hw'
        unfold WDisj at this
        omega)
      show slice (applyWrites ((s.adjust (w.1 : Int)).write w.2) rest).content w.1 w.2.length = w.2
      rw [this.2.2, adjust_write_slice s hg]
    · exact ih _ g1 hpr w h

/-! ### the writes of `save` as positioned writes -/

theorem toInt_of_lt (x : BitVec 64) (h : x.toNat < 9223372036854775808) : x.toInt = (x.toNat : Int) := by
  rw [BitVec.toInt_eq_toNat_cond]
  simp only [Nat.reducePow]
  rw [if_pos (by omega)]

/-- the section header record and (for file-occupying, non-empty, resident sections) the data -/
def secWrites (c : Cls) (enc : Enc) (shoff : BitVec 64) (shentsize : BitVec 16) (b : SecBuf) : List (Nat × Bytes) :=
  (shoff.toNat + shentsize.toNat * b.index, encodeShdr c enc b) ::
  (if b.stype != BitVec.ofNat 32 SHT_NOBITS && b.stype != BitVec.ofNat 32 SHT_NULL && b.size != 0 && b.data.isSome
   then [(b.offset.toNat, (b.data.getD []).take b.size.toNat)] else [])

def segWrite (c : Cls) (enc : Enc) (phoff : BitVec 64) (phentsize : BitVec 16) (g : Seg) : Nat × Bytes :=
  (phoff.toNat + phentsize.toNat * g.index, encodePhdr c enc g)

/-- the data of the section are written by `save` -/
def secWritten (b : SecBuf) : Bool :=
  b.stype != BitVec.ofNat 32 SHT_NOBITS && b.stype != BitVec.ofNat 32 SHT_NULL && b.size != 0 && b.data.isSome

theorem saveSection_eq (c : Cls) (enc : Enc) (shoff : BitVec 64) (se : BitVec 16) (os : OStream) (b : SecBuf)
    (hs : shoff.toNat < 9223372036854775808) (ho : secWritten b = true → b.offset.toNat < 9223372036854775808) :
    saveSection c enc shoff se os b = applyWrites os (secWrites c enc shoff se b) := by
  unfold saveSection secWrites applyWrites
  rw [secWritesData_eq]
  have e1 : shoff.toInt + Int.ofNat se.toNat * Int.ofNat b.index = ((shoff.toNat + se.toNat * b.index : Nat) : Int) := by
    rw [toInt_of_lt shoff hs]
    simp only [Int.ofNat_eq_natCast, Int.natCast_add, Int.natCast_mul]
  simp only [e1]
  by_cases hw : secWritten b = true
  · have hw' := hw
    unfold secWritten at hw'
    rw [if_pos hw', if_pos hw', toInt_of_lt b.offset (ho hw)]
    rfl
  · have hw' := hw
    unfold secWritten at hw'
    rw [if_neg hw', if_neg hw']
    rfl

theorem saveSegment_eq (c : Cls) (enc : Enc) (phoff : BitVec 64) (pe : BitVec 16) (os : OStream) (g : Seg)
    (hs : phoff.toNat < 9223372036854775808) :
    saveSegment c enc phoff pe os g = applyWrites os [segWrite c enc phoff pe g] := by
  unfold saveSegment segWrite applyWrites
  have e1 : phoff.toInt + Int.ofNat pe.toNat * Int.ofNat g.index = ((phoff.toNat + pe.toNat * g.index : Nat) : Int) := by
    rw [toInt_of_lt phoff hs]
    simp only [Int.ofNat_eq_natCast, Int.natCast_add, Int.natCast_mul]
  simp only [e1]
  rfl

theorem applyWrites_append (s : OStream) (a b : List (Nat × Bytes)) :
    applyWrites s (a ++ b) = applyWrites (applyWrites s a) b := by
  unfold applyWrites; rw [List.foldl_append]

theorem foldl_saveSection_eq (c : Cls) (enc : Enc) (shoff : BitVec 64) (se : BitVec 16) (secs : List SecBuf)
    (os : OStream) (hs : shoff.toNat < 9223372036854775808)
    (ho : ∀ b ∈ secs, secWritten b = true → b.offset.toNat < 9223372036854775808) :
    secs.foldl (saveSection c enc shoff se) os = applyWrites os (secs.flatMap (secWrites c enc shoff se)) := by
  induction secs generalizing os with
  | nil => rfl
  | cons b rest ih =>
    simp only [List.foldl_cons, List.flatMap_cons]
    rw [saveSection_eq c enc shoff se os b hs (ho b List.mem_cons_self), applyWrites_append]
    exact ih _ (fun b' hb' => ho b' (List.mem_cons_of_mem _ hb'))

theorem foldl_saveSegment_eq (c : Cls) (enc : Enc) (phoff : BitVec 64) (pe : BitVec 16) (segs : List Seg)
    (os : OStream) (hs : phoff.toNat < 9223372036854775808) :
    segs.foldl (saveSegment c enc phoff pe) os = applyWrites os (segs.map (segWrite c enc phoff pe)) := by
  induction segs generalizing os with
  | nil => rfl
  | cons g rest ih =>
    simp only [List.foldl_cons, List.map_cons]
    rw [saveSegment_eq c enc phoff pe os g hs]
    have : applyWrites os (segWrite c enc phoff pe g :: rest.map (segWrite c enc phoff pe)) =
        applyWrites (applyWrites os [segWrite c enc phoff pe g]) (rest.map (segWrite c enc phoff pe)) := by
      rw [← applyWrites_append]; rfl
    rw [this]
    exact ih _

/-- writing the header at the start of a good stream is a positioned write at 0 -/
theorem seekp0_write_eq (os : OStream) (hg : os.Good) (h : Bytes) :
    (os.seekp 0).write h = applyWrites os [(0, h)] := by
  show _ = (os.adjust ((0 : Nat) : Int)).write h
  rw [adjust_spec os hg 0]
  obtain ⟨hf, hb⟩ := hg
  unfold OStream.seekp
  simp only [hf, Bool.false_eq_true, if_false]
  rw [if_neg (by omega)]
  simp only [Nat.zero_sub, List.replicate_zero, List.append_nil, Int.toNat_zero, hb]

/-- everything `save` writes, as one list of positioned writes (for an object without address
    translation): the ELF header, per section the header record and the data, the program headers -/
def objWrites (c : Cls) (enc : Enc) (h : Bytes) (secs : List SecBuf) (segs : List Seg) : List (Nat × Bytes) :=
  (0, h) :: (secs.flatMap (secWrites c enc (Hdr.e_shoff c enc h) (Hdr.e_shentsize c enc h)) ++
    segs.map (segWrite c enc (Hdr.e_phoff c enc h) (Hdr.e_phentsize c enc h)))

theorem trApply_nil (v : Int) : trApply [] v = v := rfl

/-- the stream after a successful save = the stream before + the object's positioned writes -/
theorem tailOs_eq (o : Obj) (os : OStream) (h0 : Bytes) (segs1 : List Seg) (lay : Layout) (done : List Seg)
    (hg : os.Good) (htr : o.trans = [])
    (hs : (Hdr.e_shoff o.cls o.enc (tailHdr o h0 segs1 lay done)).toNat < 9223372036854775808)
    (hp : (Hdr.e_phoff o.cls o.enc (tailHdr o h0 segs1 lay done)).toNat < 9223372036854775808)
    (ho : ∀ b ∈ tailSecs o segs1 lay done, secWritten b = true → b.offset.toNat < 9223372036854775808) :
    tailOs o os h0 segs1 lay done =
      applyWrites os (objWrites o.cls o.enc (tailHdr o h0 segs1 lay done) (tailSecs o segs1 lay done)
        (tailSegs segs1 done)) := by
  unfold tailOs tailOs1 objWrites
  simp only [htr, trApply_nil]
  rw [foldl_saveSection_eq _ _ _ _ _ _ hs ho, foldl_saveSegment_eq _ _ _ _ _ _ hp, seekp0_write_eq os hg,
    ← applyWrites_append, ← applyWrites_append]
  rfl

/-! ### string table additions as `sections.add` performs them -/

/-- editing a section's data changes only the data buffer, its bookkeeping and the size -/
def DataFrame (a b : SecBuf) : Prop :=
  b = { a with data := b.data, dataSize := b.dataSize, size := b.size, streamSize := b.streamSize,
               isLoaded := b.isLoaded, canLoad := b.canLoad }

theorem DataFrame.refl (a : SecBuf) : DataFrame a a := rfl
theorem DataFrame.trans {a b c : SecBuf} (h1 : DataFrame a b) (h2 : DataFrame b c) : DataFrame a c := by
  unfold DataFrame at *
  rw [h1] at h2
  exact h2

theorem setSize_dataFrame (b : SecBuf) (v : BitVec 64) : DataFrame b (b.setSize v) := by
  unfold SecBuf.setSize; split <;> rfl

theorem insertFinish_dataFrame (b : SecBuf) (ns n : BitVec 64) : DataFrame b (b.insertFinish ns n) := by
  unfold SecBuf.insertFinish
  simp only
  split
  · exact DataFrame.trans (setSize_dataFrame b ns) rfl
  · exact setSize_dataFrame b ns

theorem loadData_dataFrame (b : SecBuf) : DataFrame b b.loadData.1 := by
  unfold SecBuf.loadData
  repeat' split
  all_goals rfl

theorem getData_dataFrame (b : SecBuf) : DataFrame b b.getData := by
  unfold SecBuf.getData
  split
  · have := loadData_dataFrame b
    simp only
    split
    · exact this
    · exact DataFrame.trans this rfl
  · rfl

theorem insertBody_dataFrame {b b' : SecBuf} {pos : BitVec 64} {raw : Bytes}
    (h : b.insertBody pos raw = .ok b') : DataFrame b b' := by
  unfold SecBuf.insertBody at h
  simp only [s32_pos_gt, s32_ovf_size, s32_new_size, s32_fits, ite_self] at h
  split at h
  · cases h; rfl
  · split at h
    · cases h; rfl
    · split at h
      · cases hi : b.insertInPlace pos.toNat raw with
        | error e => rw [hi] at h; cases h
        | ok d =>
          rw [hi] at h
          simp only [bind, Except.bind, pure, Except.pure] at h
          cases h
          have e1 : DataFrame b { b with data := d } := rfl
          exact DataFrame.trans e1 (insertFinish_dataFrame _ _ _)
      · split at h
        · cases h; rfl
        · rename_i nds _
          cases hi : b.insertGrow pos.toNat raw nds.toNat with
          | error e => rw [hi] at h; cases h
          | ok d =>
            rw [hi] at h
            simp only [bind, Except.bind, pure, Except.pure] at h
            cases h
            have e1 : DataFrame b { b with data := d, dataSize := nds } := rfl
            exact DataFrame.trans e1 (insertFinish_dataFrame _ _ _)

theorem appendData_dataFrame {b b' : SecBuf} {raw : Bytes} (h : b.appendData raw = .ok b') : DataFrame b b' := by
  unfold SecBuf.appendData SecBuf.insertData at h
  simp only [s32_not_nobits, s32_make_resident, ite_self] at h
  split at h
  · cases h; rfl
  · split at h
    · exact DataFrame.trans (getData_dataFrame b) (insertBody_dataFrame h)
    · exact insertBody_dataFrame h


theorem ofNat32_toNat (n : Nat) (h : n < 4294967296) : (BitVec.ofNat 32 n).toNat = n := by
  simp only [BitVec.toNat_ofNat, Nat.reducePow]; omega

theorem takeWhile_ne_eq_cstr (str : Bytes) : str.takeWhile (fun x => decide (x ≠ 0)) = Spec.cstr str := by
  unfold Spec.cstr
  congr 1
  funext x
  by_cases hx : x = 0 <;> simp [bne, hx]

theorem ok_bind {α β} (a : α) (f : α → M β) : ((Except.ok a : M α) >>= f) = f a := rfl

/-- `add_string` after the seeding step -/
def addStringTail (b : SecBuf) (cur : BitVec 32) (s : Bytes) : M (SecBuf × BitVec 32) :=
  if BitVec.ult (4294967295#32 - cur) (BitVec.ofNat 32 (s.length + 1)) then pure (b, 0) else do
    let b ← b.appendData (s ++ [0])
    pure (b, cur)

theorem addString_eq (b : SecBuf) (str : Bytes) :
    addString b str =
      if (b.size.setWidth 32 : BitVec 32) == 0 then
        (b.appendData [0]) >>= fun b1 => addStringTail b1 (b.size.setWidth 32 + 1) (Spec.cstr str)
      else addStringTail b (b.size.setWidth 32) (Spec.cstr str) := by
  unfold addString addStringTail
  rw [takeWhile_ne_eq_cstr]
  by_cases hc : ((b.size.setWidth 32 : BitVec 32) == 0) = true
  · simp only [hc, if_true, bind_assoc, pure_bind]
  · simp only [hc, if_false, pure_bind]

theorem addStringTail_ok (b : SecBuf) (hI : b.Inv) (cur : BitVec 32) (s : Bytes)
    (hc : cur.toNat + s.length + 1 < 4294967296) (hb : b.content.length + s.length + 1 < 4294967296) :
    ∃ b', addStringTail b cur s = .ok (b', cur) ∧ b'.Resident ∧ DataFrame b b' ∧ b'.content = b.content ++ s ++ [0] := by
  obtain ⟨b2, e2, r2, c2, v2⟩ := C07.append_refines b hI (s ++ [0])
    (C08.bound_of_lt32 _ _ (by simp only [List.length_append, List.length_cons, List.length_nil]; omega))
  have hult : BitVec.ult (4294967295#32 - cur) (BitVec.ofNat 32 (s.length + 1)) = false := by
    apply C08.g_ovf_false
    rw [ofNat32_toNat _ (by omega)]; omega
  unfold addStringTail
  rw [hult, if_neg (by decide), e2]
  exact ⟨b2, rfl, r2, appendData_dataFrame e2, by rw [v2, List.append_assoc]⟩

/-- the writer's `add_string` (as `sections.add` uses it) refines the reference string-table
    addition: same statement as `C08.add_refines`, plus the frame (`DataFrame`) -/
theorem addString_refines (b : SecBuf) (hI : b.Inv) (str : Bytes)
    (hb : (Spec.addStr b.content str).1.length < 4294967296) :
    ∃ b' i, addString b str = .ok (b', i) ∧ b'.Inv ∧ DataFrame b b' ∧
      b'.content = (Spec.addStr b.content str).1 ∧ i.toNat = (Spec.addStr b.content str).2 := by
  have hl := C07.content_length hI
  rw [Spec.addStr_length] at hb
  have hsz : b.size.toNat < 4294967296 := by rw [← hl]; split at hb <;> omega
  have hcur : (b.size.setWidth 32).toNat = b.size.toNat := by
    simp only [BitVec.toNat_setWidth, Nat.reducePow]; omega
  rw [addString_eq]
  by_cases h0 : b.content.length = 0
  · have hs0 : b.size.toNat = 0 := by rw [← hl]; exact h0
    have hnil : b.content = [] := List.eq_nil_of_length_eq_zero h0
    have hc0 : (b.size.setWidth 32 == 0) = true := by
      rw [beq_iff_eq]; apply BitVec.eq_of_toNat_eq; rw [hcur, hs0]; rfl
    rw [if_pos hc0]
    obtain ⟨b1, e1, r1, c1, v1⟩ := C07.append_refines b hI [0] (C08.bound_of_lt32 _ _ (by simp [h0]))
    rw [hnil, List.nil_append] at v1
    rw [if_pos h0] at hb
    have hb' : 1 + (Spec.cstr str).length + 1 < 4294967296 := hb
    have hcur1 : (b.size.setWidth 32 + 1).toNat = 1 := by
      have h1 : (1 : BitVec 32).toNat = 1 := rfl
      rw [BitVec.toNat_add, hcur, hs0, h1]
    obtain ⟨b2, e2, r2, f2, v2⟩ := addStringTail_ok b1 (Or.inl r1) (b.size.setWidth 32 + 1) (Spec.cstr str)
      (by rw [hcur1]; omega)
      (by rw [v1]; simp only [List.length_cons, List.length_nil]; omega)
    rw [e1, ok_bind]
    refine ⟨b2, _, e2, Or.inl r2, DataFrame.trans (appendData_dataFrame e1) f2, ?_, ?_⟩
    · rw [v2, v1, Spec.addStr_fst, if_pos h0]
    · rw [hcur1, Spec.addStr_snd, if_pos h0]; rfl
  · have hs0 : ¬ b.size.toNat = 0 := by rw [← hl]; exact h0
    have hc0 : ¬ ((b.size.setWidth 32 == 0) = true) := by
      rw [beq_iff_eq]; intro e
      have := congrArg BitVec.toNat e
      rw [hcur] at this; exact hs0 this
    rw [if_neg hc0]
    rw [if_neg h0] at hb
    obtain ⟨b2, e2, r2, f2, v2⟩ := addStringTail_ok b hI (b.size.setWidth 32) (Spec.cstr str)
      (by rw [hcur, ← hl]; omega) (by omega)
    refine ⟨b2, _, e2, Or.inl r2, f2, ?_, ?_⟩
    · rw [v2, Spec.addStr_fst, if_neg h0]
    · rw [hcur, Spec.addStr_snd, if_neg h0, hl]


/-! ### idempotence ingredients (C06) -/

/-- in memory, or known to be unloadable: a further `get_data()` does nothing -/
def _root_.ElfioVerif.SecBuf.Settled (b : SecBuf) : Prop := b.isLoaded = true ∨ b.canLoad = false

theorem secGetData_settled (c : Cls) (tr : List Trans) (ls : LoadSt) (b : SecBuf) :
    (secGetData c tr ls b).2.Settled := by
  unfold secGetData SecBuf.Settled
  split
  · simp only
    split
    · rename_i hok; exact Or.inl (secLoadData_frame3 c tr ls b hok)
    · exact Or.inr rfl
  · rename_i hc
    simp only [Bool.and_eq_true, Bool.not_eq_true', not_and, Bool.not_eq_true] at hc
    cases hl : b.isLoaded with
    | true => exact Or.inl rfl
    | false => exact Or.inr (hc hl)

theorem secGetData_id (c : Cls) (tr : List Trans) (ls : LoadSt) (b : SecBuf) (h : b.Settled) :
    secGetData c tr ls b = (ls, b) := by
  unfold secGetData
  rcases h with h | h
  · simp [h]
  · simp [h]

theorem allResident_settled (c : Cls) (tr : List Trans) (l : List SecBuf) (ls : LoadSt) (acc : List SecBuf)
    (hacc : ∀ b ∈ acc, b.Settled) : ∀ b ∈ (allResident c tr l ls acc).1, b.Settled := by
  induction l generalizing ls acc with
  | nil => intro b hb; simp only [allResident, List.mem_reverse] at hb; exact hacc b hb
  | cons a rest ih =>
    unfold allResident
    apply ih
    intro b hb
    rcases List.mem_cons.1 hb with h | h
    · rw [h]; exact secGetData_settled c tr ls a
    · exact hacc b h

theorem allResident_id (c : Cls) (tr : List Trans) (l : List SecBuf) (ls : LoadSt) (acc : List SecBuf)
    (hl : ∀ b ∈ l, b.Settled) : allResident c tr l ls acc = (acc.reverse ++ l, ls) := by
  induction l generalizing ls acc with
  | nil => simp [allResident]
  | cons a rest ih =>
    unfold allResident
    rw [secGetData_id c tr ls a (hl a List.mem_cons_self)]
    simp only
    rw [ih ls (a :: acc) (fun b hb => hl b (List.mem_cons_of_mem _ hb))]
    simp

theorem residentForSave_id (c : Cls) (tr : List Trans) (l : List SecBuf) (ls : LoadSt) (acc : List SecBuf)
    (hl : ∀ b ∈ l, b.Settled) : residentForSave c tr l ls acc = (acc.reverse ++ l, ls) := by
  induction l generalizing ls acc with
  | nil => simp [residentForSave]
  | cons a rest ih =>
    unfold residentForSave
    have hr := ih ls (a :: acc) (fun b hb => hl b (List.mem_cons_of_mem _ hb))
    split
    · rw [secGetData_id c tr ls a (hl a List.mem_cons_self)]
      simp only
      rw [hr]; simp
    · rw [hr]; simp

theorem Placed.settled {c : Cls} {a b : SecBuf} (h : Placed c a b) (ha : a.Settled) : b.Settled := by
  have e := h.frame.rest
  unfold SecBuf.Settled at *
  rw [e]; exact ha

theorem FrameL.forall_right {α} {R : α → α → Prop} {P : α → Prop} {l l' : List α} (h : FrameL R l l')
    (hp : ∀ a b, R a b → P a → P b) (hl : ∀ a ∈ l, P a) : ∀ b ∈ l', P b := by
  intro b hb
  obtain ⟨i, hi⟩ := List.getElem?_of_mem hb
  have hlt : i < l.length := by
    rw [← h.1]
    rcases Nat.lt_or_ge i l'.length with h' | h'
    · exact h'
    · rw [List.getElem?_eq_none h'] at hi; cases hi
  exact hp _ _ (h.2 i l[i] b (List.getElem?_eq_getElem hlt) hi) (hl _ (List.getElem_mem hlt))

/-- `layout_sections_without_segments` without the accumulator -/
def looseSpec (c : Cls) (segs : List Seg) : List SecBuf → Nat → BitVec 64 → List SecBuf × BitVec 64
  | [], _, pos => ([], pos)
  | s :: rest, i, pos =>
    if withoutSegment segs i then
      let pos1 := if lsws_need_align s.addrAlign pos then lsws_aligned pos s.addrAlign else pos
      let s' := setOffset c s pos1
      let pos2 := if lsws_occupies s'.stype then wsd_advance pos1 s'.size else pos1
      ((s' :: (looseSpec c segs rest (i + 1) pos2).1), (looseSpec c segs rest (i + 1) pos2).2)
    else ((s :: (looseSpec c segs rest (i + 1) pos).1), (looseSpec c segs rest (i + 1) pos).2)

theorem layoutLoose_eq (c : Cls) (segs : List Seg) (l : List SecBuf) (i : Nat) (pos : BitVec 64) (acc : List SecBuf) :
    layoutLoose c segs l i pos acc = (acc.reverse ++ (looseSpec c segs l i pos).1, (looseSpec c segs l i pos).2) := by
  induction l generalizing i pos acc with
  | nil => simp [layoutLoose, looseSpec]
  | cons s rest ih =>
    unfold layoutLoose looseSpec
    simp only [lsws_advance_eq, setOffsetLoose_eq]
    split
    · simp only
      rw [ih]; simp <;> exact ⟨rfl, rfl⟩
    · rw [ih]; simp

theorem setOffset_fields (c : Cls) (s : SecBuf) (p : BitVec 64) :
    (setOffset c s p).stype = s.stype ∧ (setOffset c s p).size = s.size ∧ (setOffset c s p).addrAlign = s.addrAlign ∧
    setOffset c (setOffset c s p) p = setOffset c s p := by
  by_cases h : (s.index != 0) = true
  · have e : setOffset c s p = { s with offset := truncA c p } := by rw [setOffset_eq, if_pos h]
    have e' : setOffset c { s with offset := truncA c p } p = { s with offset := truncA c p } := by
      rw [setOffset_eq, if_pos h]
    rw [e, e']
    exact ⟨rfl, rfl, rfl, rfl⟩
  · have e : setOffset c s p = s := by rw [setOffset_eq, if_neg h]
    rw [e, e]
    exact ⟨rfl, rfl, rfl, rfl⟩

theorem looseSpec_cons_true (c : Cls) (segs : List Seg) (s : SecBuf) (rest : List SecBuf) (i : Nat) (pos : BitVec 64)
    (hw : withoutSegment segs i = true) :
    looseSpec c segs (s :: rest) i pos =
      ((setOffset c s (if lsws_need_align s.addrAlign pos then lsws_aligned pos s.addrAlign else pos) ::
        (looseSpec c segs rest (i + 1)
          (if lsws_occupies s.stype then
            wsd_advance (if lsws_need_align s.addrAlign pos then lsws_aligned pos s.addrAlign else pos) s.size
           else (if lsws_need_align s.addrAlign pos then lsws_aligned pos s.addrAlign else pos))).1),
       (looseSpec c segs rest (i + 1)
          (if lsws_occupies s.stype then
            wsd_advance (if lsws_need_align s.addrAlign pos then lsws_aligned pos s.addrAlign else pos) s.size
           else (if lsws_need_align s.addrAlign pos then lsws_aligned pos s.addrAlign else pos))).2) := by
  obtain ⟨e1, e2, _, _⟩ := setOffset_fields c s
    (if lsws_need_align s.addrAlign pos then lsws_aligned pos s.addrAlign else pos)
  rw [looseSpec, if_pos hw]
  simp only [e1, e2]

theorem looseSpec_cons_false (c : Cls) (segs : List Seg) (s : SecBuf) (rest : List SecBuf) (i : Nat) (pos : BitVec 64)
    (hw : ¬ withoutSegment segs i = true) :
    looseSpec c segs (s :: rest) i pos =
      ((s :: (looseSpec c segs rest (i + 1) pos).1), (looseSpec c segs rest (i + 1) pos).2) := by
  rw [looseSpec, if_neg hw]

/-- **the loose-section layout is idempotent**: it reads only type, size, alignment and index, none
    of which it changes, and it re-derives the offsets it has stored -/
theorem looseSpec_idem (c : Cls) (segs : List Seg) (l : List SecBuf) (i : Nat) (pos : BitVec 64) :
    looseSpec c segs (looseSpec c segs l i pos).1 i pos = looseSpec c segs l i pos := by
  induction l generalizing i pos with
  | nil => rfl
  | cons s rest ih =>
    by_cases hw : withoutSegment segs i = true
    · rw [looseSpec_cons_true c segs s rest i pos hw]
      simp only
      rw [looseSpec_cons_true c segs _ _ i pos hw]
      obtain ⟨e1, e2, e3, e4⟩ := setOffset_fields c s
        (if lsws_need_align s.addrAlign pos then lsws_aligned pos s.addrAlign else pos)
      simp only [e1, e2, e3, e4, ih]
    · rw [looseSpec_cons_false c segs s rest i pos hw]
      simp only
      rw [looseSpec_cons_false c segs _ _ i pos hw, ih]

/-! ### `write_segment_data`, one member: the pure core -/

/-- what one iteration of `write_segment_data` decides, as a function of the member section, its
    `generated` flag, the cursor and the two counters -/
inductive StepOut
  | abort
  | null
  | counted (mem file : BitVec 64)
  | placed (sec : SecBuf) (pos mem file : BitVec 64)

/-- the gap in front of the member (`none`: the save is aborted) -/
def stepGap (g : Seg) (segStart : BitVec 64) (sec : SecBuf) (generated : Bool) (pos file : BitVec 64) :
    Option (BitVec 64) :=
  if wsd_addr_branch generated sec.addrSet sec.stype sec.size then
    let req := wsd_req_offset sec.addr g.vaddr
    let cur := wsd_cur_offset pos segStart
    if wsd_req_lt_cur req cur then none else some (wsd_gap_addr req cur)
  else if wsd_align_branch generated sec.addrSet then
    let al := if wsd_align_zero sec.addrAlign then 1 else sec.addrAlign
    some (wsd_gap_align al (wsd_error pos al))
  else if generated then some (wsd_gap_generated sec.offset segStart file)
  else some 0

/-- the section as `write_segment_data` leaves it when it places it at `pos1` -/
def stepPlace (c : Cls) (g : Seg) (segStart : BitVec 64) (sec : SecBuf) (pos1 : BitVec 64) : SecBuf :=
  setOffset c (if !sec.addrSet then
    { sec with addr := truncA c (wsd_new_addr g.vaddr pos1 segStart), addrSet := true } else sec) pos1

def stepCore (c : Cls) (g : Seg) (segStart : BitVec 64) (sec : SecBuf) (generated : Bool)
    (pos mem file : BitVec 64) : StepOut :=
  if wsd_is_null sec.stype then .null else
  match stepGap g segStart sec generated pos file with
  | none => .abort
  | some gap =>
    let mem' := if wsd_counts_mem sec.flags g.stype sec.stype then wsd_mem_add mem sec.size gap else mem
    let file' := if wsd_counts_file sec.stype then wsd_file_add file sec.size gap else file
    if generated then .counted mem' file' else
    let pos1 := wsd_cursor_gap pos gap
    .placed (stepPlace c g segStart sec pos1)
      (if wsd_counts_file sec.stype then wsd_advance pos1 sec.size else pos1) mem' file'

def applyOut (st : WsdSt) (i : Nat) : StepOut → Option WsdSt
  | .abort => none
  | .null => some { st with lay := { st.lay with gen := st.lay.gen.set i true } }
  | .counted m f => some { st with mem := m, file := f }
  | .placed s p m f =>
    some { lay := { secs := st.lay.secs.set i s, pos := p, gen := st.lay.gen.set i true }, mem := m, file := f }

theorem stepPlace_fields (c : Cls) (g : Seg) (ss : BitVec 64) (sec : SecBuf) (p : BitVec 64) :
    (stepPlace c g ss sec p).stype = sec.stype ∧ (stepPlace c g ss sec p).size = sec.size := by
  unfold stepPlace
  obtain ⟨e1, e2, _, _⟩ := setOffset_fields c (if !sec.addrSet then
    { sec with addr := truncA c (wsd_new_addr g.vaddr p ss), addrSet := true } else sec) p
  rw [e1, e2]
  split <;> exact ⟨rfl, rfl⟩

theorem wsdStep_eq (c : Cls) (g : Seg) (ss : BitVec 64) (st : WsdSt) (idx : BitVec 16) :
    wsdStep c g ss st idx =
      match st.lay.secs[idx.toNat]?, st.lay.gen[idx.toNat]? with
      | none, _ => throw (.nullDeref "write_segment_data/sections[index]")
      | _, none => throw (.vecOob "write_segment_data/section_generated[index]")
      | some sec, some generated =>
        pure (applyOut st idx.toNat (stepCore c g ss sec generated st.lay.pos st.mem st.file)) := by
  unfold wsdStep
  cases hs : st.lay.secs[idx.toNat]? with
  | none => rfl
  | some sec =>
  cases hg : st.lay.gen[idx.toNat]? with
  | none => rfl
  | some generated =>
    simp only
    unfold stepCore
    by_cases hn : wsd_is_null sec.stype = true
    · rw [if_pos hn, if_pos hn]; rfl
    · rw [if_neg hn, if_neg hn]
      show (match stepGap g ss sec generated st.lay.pos st.file with
        | none => pure none
        | some gap => _) = _
      cases stepGap g ss sec generated st.lay.pos st.file with
      | none => rfl
      | some gap =>
        simp only
        rw [wsd_generated_skip_eq]
        by_cases hgen : generated = true
        · rw [if_pos hgen, if_pos hgen]; rfl
        · rw [if_neg hgen, if_neg hgen, wsd_addr_missing_eq, wsd_occupies_eq]
          obtain ⟨e1, e2⟩ := stepPlace_fields c g ss sec (wsd_cursor_gap st.lay.pos gap)
          unfold stepPlace at e1 e2 ⊢
          simp only [e1, e2, applyOut]

/-! ### locality: the segment passes read and write member sections only -/

/-- two layouts agree on the index set `S` -/
structure AgreeOn (S : Nat → Prop) (l1 l2 : Layout) : Prop where
  pos : l1.pos = l2.pos
  secs : ∀ i, S i → l1.secs[i]? = l2.secs[i]?
  gen : ∀ i, S i → l1.gen[i]? = l2.gen[i]?

def AgreeSt (S : Nat → Prop) (s1 s2 : WsdSt) : Prop :=
  AgreeOn S s1.lay s2.lay ∧ s1.mem = s2.mem ∧ s1.file = s2.file

/-- two monadic results are of the same kind and related -/
def RelM {α β} (R : α → β → Prop) : M (Option α) → M (Option β) → Prop
  | .ok (some a), .ok (some b) => R a b
  | .ok none, .ok none => True
  | .error e1, .error e2 => e1 = e2
  | _, _ => False

theorem getElem?_set_agree {α} {l1 l2 : List α} {i j : Nat} {x : α} (h1 : i < l1.length) (h2 : i < l2.length)
    (h : l1[j]? = l2[j]?) : (l1.set i x)[j]? = (l2.set i x)[j]? := by
  rw [List.getElem?_set, List.getElem?_set]
  by_cases hij : i = j
  · subst hij; simp [h1, h2]
  · simp [hij, h]

theorem wsdStep_agree {S : Nat → Prop} {c : Cls} {g : Seg} {ss : BitVec 64} {st1 st2 : WsdSt} {idx : BitVec 16}
    (hS : S idx.toNat) (ha : AgreeSt S st1 st2) :
    RelM (AgreeSt S) (wsdStep c g ss st1 idx) (wsdStep c g ss st2 idx) := by
  obtain ⟨⟨hp, hsec, hgen⟩, hm, hf⟩ := ha
  rw [wsdStep_eq, wsdStep_eq, ← hsec _ hS, ← hgen _ hS, ← hp, ← hm, ← hf]
  cases hs : st1.lay.secs[idx.toNat]? with
  | none => exact rfl
  | some sec =>
  cases hg : st1.lay.gen[idx.toNat]? with
  | none => exact rfl
  | some generated =>
    have l1 : idx.toNat < st1.lay.secs.length := by
      rcases Nat.lt_or_ge idx.toNat st1.lay.secs.length with h | h
      · exact h
      · rw [List.getElem?_eq_none h] at hs; cases hs
    have l2 : idx.toNat < st2.lay.secs.length := by
      rcases Nat.lt_or_ge idx.toNat st2.lay.secs.length with h | h
      · exact h
      · have := hsec _ hS; rw [hs, List.getElem?_eq_none h] at this; cases this
    have g1 : idx.toNat < st1.lay.gen.length := by
      rcases Nat.lt_or_ge idx.toNat st1.lay.gen.length with h | h
      · exact h
      · rw [List.getElem?_eq_none h] at hg; cases hg
    have g2 : idx.toNat < st2.lay.gen.length := by
      rcases Nat.lt_or_ge idx.toNat st2.lay.gen.length with h | h
      · exact h
      · have := hgen _ hS; rw [hg, List.getElem?_eq_none h] at this; cases this
    simp only [pure, Except.pure]
    cases stepCore c g ss sec generated st1.lay.pos st1.mem st1.file with
    | abort => exact trivial
    | null =>
      exact ⟨⟨hp, hsec, fun j hj => getElem?_set_agree g1 g2 (hgen j hj)⟩, hm, hf⟩
    | counted m f => exact ⟨⟨hp, hsec, hgen⟩, rfl, rfl⟩
    | placed s p m f =>
      exact ⟨⟨rfl, fun j hj => getElem?_set_agree l1 l2 (hsec j hj),
        fun j hj => getElem?_set_agree g1 g2 (hgen j hj)⟩, rfl, rfl⟩

theorem wsdLoop_agree {S : Nat → Prop} {c : Cls} {g : Seg} {ss : BitVec 64} (l : List (BitVec 16))
    (hl : ∀ idx ∈ l, S idx.toNat) {st1 st2 : WsdSt} (ha : AgreeSt S st1 st2) :
    RelM (AgreeSt S) (wsdLoop c g ss l st1) (wsdLoop c g ss l st2) := by
  induction l generalizing st1 st2 with
  | nil => exact ha
  | cons idx rest ih =>
    have hstep := wsdStep_agree (c := c) (g := g) (ss := ss) (hl idx List.mem_cons_self) ha
    simp only [wsdLoop, bind, Except.bind]
    cases h1 : wsdStep c g ss st1 idx with
    | error e1 =>
      cases h2 : wsdStep c g ss st2 idx with
      | error e2 => rw [h1, h2] at hstep; exact hstep
      | ok r2 => rw [h1, h2] at hstep; cases r2 <;> exact hstep.elim
    | ok r1 =>
      cases h2 : wsdStep c g ss st2 idx with
      | error e2 => rw [h1, h2] at hstep; cases r1 <;> exact hstep.elim
      | ok r2 =>
        rw [h1, h2] at hstep
        cases r1 with
        | none => cases r2 with
          | none => exact trivial
          | some b => exact hstep.elim
        | some a => cases r2 with
          | none => exact hstep.elim
          | some b => exact ih (fun i hi => hl i (List.mem_cons_of_mem _ hi)) hstep

/-- same kind and related, for plain monadic results -/
def RelM1 {α β} (R : α → β → Prop) : M α → M β → Prop
  | .ok a, .ok b => R a b
  | .error e1, .error e2 => e1 = e2
  | _, _ => False

theorem segStartOf_agree {S : Nat → Prop} {phoff : BitVec 64} {pe pn : BitVec 16} {l1 l2 : Layout} {g : Seg}
    (hS : ∀ idx ∈ g.secs, S idx.toNat) (ha : AgreeOn S l1 l2) :
    RelM1 (fun p1 p2 => AgreeOn S p1.1 p2.1 ∧ p1.2 = p2.2)
      (segStartOf phoff pe pn l1 g) (segStartOf phoff pe pn l2 g) := by
  unfold segStartOf
  cases hh : g.secs.head? with
  | none =>
    simp only [pure_bind]
    by_cases h1 : lseg_is_phdr g.stype (BitVec.ofNat 16 g.secs.length) = true
    · simp only [h1, if_true]; exact ⟨ha, rfl⟩
    · simp only [h1, if_false]
      by_cases h2 : lseg_offset0 g.offsetSet g.offset = true
      · simp only [h2, if_true, ha.pos]; exact ⟨ha, rfl⟩
      · simp only [h2, if_false]
        by_cases h3 : (decide (g.secs.length > 0) && !false) = true
        · simp only [h3, if_true, ha.pos]
          exact ⟨⟨rfl, ha.secs, ha.gen⟩, rfl⟩
        · simp only [h3, if_false]
          by_cases h4 : g.secs.length > 0
          · simp only [h4, if_true, ha.pos]; exact ⟨ha, rfl⟩
          · simp only [h4, if_false, ha.pos]; exact ⟨ha, rfl⟩
  | some f =>
    have hf : S f.toNat := hS f (List.mem_of_mem_head? hh)
    simp only
    rw [← ha.gen _ hf]
    cases hg : l1.gen[f.toNat]? with
    | none => exact rfl
    | some b =>
      simp only [pure_bind]
      by_cases h1 : lseg_is_phdr g.stype (BitVec.ofNat 16 g.secs.length) = true
      · simp only [h1, if_true]; exact ⟨ha, rfl⟩
      · simp only [h1, if_false]
        by_cases h2 : lseg_offset0 g.offsetSet g.offset = true
        · simp only [h2, if_true, ha.pos]; exact ⟨ha, rfl⟩
        · simp only [h2, if_false]
          by_cases h3 : (decide (g.secs.length > 0) && !b) = true
          · simp only [h3, if_true, ha.pos]
            exact ⟨⟨rfl, ha.secs, ha.gen⟩, rfl⟩
          · simp only [h3, if_false]
            by_cases h4 : g.secs.length > 0
            · simp only [h4, if_true]
              rw [← ha.secs _ hf]
              cases l1.secs[f.toNat]? with
              | none => exact rfl
              | some s => exact ⟨ha, rfl⟩
            · simp only [h4, if_false, ha.pos]; exact ⟨ha, rfl⟩

theorem layoutSegment_agree {S : Nat → Prop} {c : Cls} {phoff : BitVec 64} {pe pn : BitVec 16} {l1 l2 : Layout}
    {g : Seg} (hS : ∀ idx ∈ g.secs, S idx.toNat) (ha : AgreeOn S l1 l2) :
    RelM (fun p1 p2 => AgreeOn S p1.1 p2.1 ∧ p1.2 = p2.2)
      (layoutSegment c phoff pe pn l1 g) (layoutSegment c phoff pe pn l2 g) := by
  rw [layoutSegment_eq, layoutSegment_eq]
  have h0 := segStartOf_agree (phoff := phoff) (pe := pe) (pn := pn) hS ha
  simp only [bind, Except.bind]
  cases e1 : segStartOf phoff pe pn l1 g with
  | error x1 =>
    cases e2 : segStartOf phoff pe pn l2 g with
    | error x2 => rw [e1, e2] at h0; exact h0
    | ok p2 => rw [e1, e2] at h0; exact h0.elim
  | ok p1 =>
    cases e2 : segStartOf phoff pe pn l2 g with
    | error x2 => rw [e1, e2] at h0; exact h0.elim
    | ok p2 =>
      rw [e1, e2] at h0
      obtain ⟨a1, a2⟩ := h0
      simp only
      have hss : p1.2.1 = p2.2.1 := by rw [a2]
      have hm : p1.2.2.1 = p2.2.2.1 := by rw [a2]
      have hf : p1.2.2.2 = p2.2.2.2 := by rw [a2]
      have hl := wsdLoop_agree (c := c) (g := g) (ss := p1.2.1) g.secs hS
        (st1 := { lay := p1.1, mem := p1.2.2.1, file := p1.2.2.2 })
        (st2 := { lay := p2.1, mem := p2.2.2.1, file := p2.2.2.2 }) ⟨a1, hm, hf⟩
      rw [← hss]
      cases w1 : wsdLoop c g p1.2.1 g.secs { lay := p1.1, mem := p1.2.2.1, file := p1.2.2.2 } with
      | error x1 =>
        cases w2 : wsdLoop c g p1.2.1 g.secs { lay := p2.1, mem := p2.2.2.1, file := p2.2.2.2 } with
        | error x2 => rw [w1, w2] at hl; exact hl
        | ok r2 => rw [w1, w2] at hl; cases r2 <;> exact hl.elim
      | ok r1 =>
        cases w2 : wsdLoop c g p1.2.1 g.secs { lay := p2.1, mem := p2.2.2.1, file := p2.2.2.2 } with
        | error x2 => rw [w1, w2] at hl; cases r1 <;> exact hl.elim
        | ok r2 =>
          rw [w1, w2] at hl
          cases r1 with
          | none => cases r2 with
            | none => exact trivial
            | some b => exact hl.elim
          | some a => cases r2 with
            | none => exact hl.elim
            | some b =>
              obtain ⟨b1, b2, b3⟩ := hl
              refine ⟨b1, ?_⟩
              show segFinish c g p1.2.1 a = segFinish c g p1.2.1 b
              unfold segFinish
              rw [b2, b3]

theorem saveFold_agree {S : Nat → Prop} {c : Cls} {e : Enc} {h0 : Bytes} (ordered : List Seg)
    (hS : ∀ g ∈ ordered, ∀ idx ∈ g.secs, S idx.toNat) {l1 l2 : Layout} (ha : AgreeOn S l1 l2) (done : List Seg) :
    RelM (fun p1 p2 => AgreeOn S p1.1 p2.1 ∧ p1.2 = p2.2)
      (ordered.foldlM (saveStep c e h0) (some (l1, done))) (ordered.foldlM (saveStep c e h0) (some (l2, done))) := by
  induction ordered generalizing l1 l2 done with
  | nil => exact ⟨ha, rfl⟩
  | cons g rest ih =>
    have hl := layoutSegment_agree (c := c) (phoff := Hdr.e_phoff c e h0) (pe := Hdr.e_phentsize c e h0)
      (pn := Hdr.e_phnum c e h0) (hS g List.mem_cons_self) ha
    simp only [List.foldlM_cons, saveStep, bind, Except.bind]
    cases w1 : layoutSegment c (Hdr.e_phoff c e h0) (Hdr.e_phentsize c e h0) (Hdr.e_phnum c e h0) l1 g with
    | error x1 =>
      cases w2 : layoutSegment c (Hdr.e_phoff c e h0) (Hdr.e_phentsize c e h0) (Hdr.e_phnum c e h0) l2 g with
      | error x2 => rw [w1, w2] at hl; exact hl
      | ok r2 => rw [w1, w2] at hl; cases r2 <;> exact hl.elim
    | ok r1 =>
      cases w2 : layoutSegment c (Hdr.e_phoff c e h0) (Hdr.e_phentsize c e h0) (Hdr.e_phnum c e h0) l2 g with
      | error x2 => rw [w1, w2] at hl; cases r1 <;> exact hl.elim
      | ok r2 =>
        rw [w1, w2] at hl
        cases r1 with
        | none => cases r2 with
          | none =>
            simp only [pure, Except.pure]
            rw [saveFold_none]; exact trivial
          | some b => exact hl.elim
        | some a => cases r2 with
          | none => exact hl.elim
          | some b =>
            obtain ⟨b1, b2⟩ := hl
            simp only [pure, Except.pure]
            rw [b2]
            exact ih (fun g' hg' => hS g' (List.mem_cons_of_mem _ hg')) b1 _

/-! #### the passes around the segment loop -/

theorem allResident_getElem? (c : Cls) (tr : List Trans) (l : List SecBuf) (ls : LoadSt) (acc : List SecBuf)
    (i : Nat) (a : SecBuf) (ha : l[i]? = some a) (hs : a.Settled) :
    (allResident c tr l ls acc).1[acc.length + i]? = some a := by
  induction l generalizing ls acc i with
  | nil => cases ha
  | cons b rest ih =>
    unfold allResident
    cases i with
    | zero =>
      simp only [List.getElem?_cons_zero, Option.some.injEq] at ha
      subst ha
      rw [secGetData_id c tr ls b hs]
      simp only
      obtain ⟨l', e, f⟩ := allResident_frame c tr rest ls (b :: acc)
      rw [e]
      simp
    | succ j =>
      simp only [List.getElem?_cons_succ] at ha
      have := ih (secGetData c tr ls b).1 ((secGetData c tr ls b).2 :: acc) j ha
      simp only [List.length_cons] at this
      rw [← this]; congr 1; omega

theorem residentForSave_getElem? (c : Cls) (tr : List Trans) (l : List SecBuf) (ls : LoadSt) (acc : List SecBuf)
    (i : Nat) (a : SecBuf) (ha : l[i]? = some a) (hs : a.Settled) :
    (residentForSave c tr l ls acc).1[acc.length + i]? = some a := by
  induction l generalizing ls acc i with
  | nil => cases ha
  | cons b rest ih =>
    unfold residentForSave
    cases i with
    | zero =>
      simp only [List.getElem?_cons_zero, Option.some.injEq] at ha
      subst ha
      split
      · rw [secGetData_id c tr ls b hs]
        simp only
        obtain ⟨l', e, f⟩ := residentForSave_frame c tr rest ls (b :: acc)
        rw [e]; simp
      · obtain ⟨l', e, f⟩ := residentForSave_frame c tr rest ls (b :: acc)
        rw [e]; simp
    | succ j =>
      simp only [List.getElem?_cons_succ] at ha
      split
      · have := ih (secGetData c tr ls b).1 ((secGetData c tr ls b).2 :: acc) j ha
        simp only [List.length_cons] at this
        rw [← this]; congr 1; omega
      · have := ih ls (b :: acc) j ha
        simp only [List.length_cons] at this
        rw [← this]; congr 1; omega

/-- a section that belongs to a segment is not touched by the loose-section pass -/
theorem looseSpec_getElem?_member (c : Cls) (segs : List Seg) (l : List SecBuf) (i0 : Nat) (pos : BitVec 64)
    (i : Nat) (hw : withoutSegment segs (i0 + i) = false) :
    (looseSpec c segs l i0 pos).1[i]? = l[i]? := by
  induction l generalizing i0 pos i with
  | nil => rfl
  | cons s rest ih =>
    by_cases hw0 : withoutSegment segs i0 = true
    · rw [looseSpec_cons_true c segs s rest i0 pos hw0]
      cases i with
      | zero => rw [Nat.add_zero, hw0] at hw; cases hw
      | succ j =>
        simp only [List.getElem?_cons_succ]
        exact ih (i0 + 1) _ j (by rw [← hw]; congr 1; omega)
    · rw [looseSpec_cons_false c segs s rest i0 pos hw0]
      cases i with
      | zero => rfl
      | succ j =>
        simp only [List.getElem?_cons_succ]
        exact ih (i0 + 1) _ j (by rw [← hw]; congr 1; omega)

theorem calcSegAlign_congr {secs secs' : List SecBuf} {g : Seg}
    (h : ∀ idx ∈ g.secs, secs'[idx.toNat]? = secs[idx.toNat]?) : calcSegAlign secs' g = calcSegAlign secs g := by
  unfold calcSegAlign
  generalize g.secs = l at h
  induction l generalizing g with
  | nil => rfl
  | cons idx rest ih =>
    simp only [List.foldlM_cons]
    rw [h idx List.mem_cons_self]
    apply bind_congr
    intro g'
    exact ih (fun i hi => h i (List.mem_cons_of_mem _ hi))

theorem mapM_congr' {α β} {f f' : α → M β} {l : List α} (h : ∀ a ∈ l, f' a = f a) : l.mapM f' = l.mapM f := by
  induction l with
  | nil => rfl
  | cons a rest ih =>
    simp only [List.mapM_cons]
    rw [h a List.mem_cons_self, ih (fun b hb => h b (List.mem_cons_of_mem _ hb))]


/-- the placed section in closed form -/
theorem stepPlace_eq (c : Cls) (g : Seg) (ss : BitVec 64) (sec : SecBuf) (p : BitVec 64) :
    stepPlace c g ss sec p =
      { sec with addr := if sec.addrSet then sec.addr else truncA c (wsd_new_addr g.vaddr p ss),
                 addrSet := true,
                 offset := if (sec.index != 0) = true then truncA c p else sec.offset } := by
  unfold stepPlace
  rw [setOffset_eq]
  cases ha : sec.addrSet
  · by_cases hi : (sec.index != 0) = true
    · simp only [Bool.not_false, if_true, hi, Bool.false_eq_true, if_false]
    · simp only [Bool.not_false, if_true, hi, Bool.false_eq_true, if_false]
  · by_cases hi : (sec.index != 0) = true
    · simp only [Bool.not_true, Bool.false_eq_true, if_false, hi, if_true]
      rw [← ha]
    · simp only [Bool.not_true, Bool.false_eq_true, if_false, hi, if_true]
      cases sec; simp_all


/-! ### generated sections are never touched again -/

theorem stepCore_true_not_placed (c : Cls) (g : Seg) (ss : BitVec 64) (sec : SecBuf) (pos mem file : BitVec 64)
    (s : SecBuf) (p m f : BitVec 64) : stepCore c g ss sec true pos mem file ≠ .placed s p m f := by
  unfold stepCore
  split
  · intro h; cases h
  · split
    · intro h; cases h
    · simp only [if_true]; intro h; cases h

theorem stepCore_false_not_counted (c : Cls) (g : Seg) (ss : BitVec 64) (sec : SecBuf) (pos mem file : BitVec 64)
    (m f : BitVec 64) : stepCore c g ss sec false pos mem file ≠ .counted m f := by
  unfold stepCore
  split
  · intro h; cases h
  · split
    · intro h; cases h
    · simp only [Bool.false_eq_true, if_false]; intro h; cases h

/-- a successful step in its pieces -/
theorem wsdStep_ok {c : Cls} {g : Seg} {ss : BitVec 64} {st st' : WsdSt} {idx : BitVec 16}
    (h : wsdStep c g ss st idx = .ok (some st')) :
    ∃ sec gen, st.lay.secs[idx.toNat]? = some sec ∧ st.lay.gen[idx.toNat]? = some gen ∧
      applyOut st idx.toNat (stepCore c g ss sec gen st.lay.pos st.mem st.file) = some st' := by
  rw [wsdStep_eq] at h
  cases hs : st.lay.secs[idx.toNat]? with
  | none => rw [hs] at h; cases h
  | some sec =>
    cases hg : st.lay.gen[idx.toNat]? with
    | none => rw [hs, hg] at h; cases h
    | some gen =>
      rw [hs, hg] at h
      simp only [pure, Except.pure, Except.ok.injEq] at h
      exact ⟨sec, gen, rfl, rfl, h⟩

theorem wsdStep_stable {c : Cls} {g : Seg} {ss : BitVec 64} {st st' : WsdSt} {idx : BitVec 16}
    (h : wsdStep c g ss st idx = .ok (some st')) (i : Nat) (hg : st.lay.gen[i]? = some true) :
    st'.lay.secs[i]? = st.lay.secs[i]? ∧ st'.lay.gen[i]? = some true := by
  obtain ⟨sec, gen, hs, hgen, ha⟩ := wsdStep_ok h
  cases ho : stepCore c g ss sec gen st.lay.pos st.mem st.file with
  | abort => rw [ho] at ha; cases ha
  | null =>
    rw [ho] at ha; simp only [applyOut, Option.some.injEq] at ha; subst ha
    refine ⟨rfl, ?_⟩
    simp only [List.getElem?_set]
    split
    · split
      · rfl
      · rename_i h1 h2; subst h1; rw [List.getElem?_eq_none (by omega)] at hg; cases hg
    · exact hg
  | counted m f =>
    rw [ho] at ha; simp only [applyOut, Option.some.injEq] at ha; subst ha
    exact ⟨rfl, hg⟩
  | placed s p m f =>
    rw [ho] at ha; simp only [applyOut, Option.some.injEq] at ha; subst ha
    have hne : idx.toNat ≠ i := by
      intro e; subst e
      rw [hgen] at hg
      simp only [Option.some.injEq] at hg
      subst hg
      exact stepCore_true_not_placed c g ss sec _ _ _ s p m f ho
    simp only
    exact ⟨by rw [List.getElem?_set_ne hne], by rw [List.getElem?_set_ne hne]; exact hg⟩

theorem wsdLoop_stable {c : Cls} {g : Seg} {ss : BitVec 64} (l : List (BitVec 16)) {st st' : WsdSt}
    (h : wsdLoop c g ss l st = .ok (some st')) (i : Nat) (hg : st.lay.gen[i]? = some true) :
    st'.lay.secs[i]? = st.lay.secs[i]? ∧ st'.lay.gen[i]? = some true := by
  induction l generalizing st with
  | nil => simp only [wsdLoop, pure, Except.pure, Except.ok.injEq, Option.some.injEq] at h; subst h; exact ⟨rfl, hg⟩
  | cons idx rest ih =>
    simp only [wsdLoop, bind, Except.bind] at h
    cases h1 : wsdStep c g ss st idx with
    | error e => rw [h1] at h; cases h
    | ok r =>
      rw [h1] at h
      cases r with
      | none => cases h
      | some st1 =>
        obtain ⟨a1, a2⟩ := wsdStep_stable h1 i hg
        obtain ⟨b1, b2⟩ := ih h a2
        exact ⟨b1.trans a1, b2⟩

/-! ### alignment pass and segment ordering on finished segments -/

/-- the alignment pass does nothing to a segment whose alignment already dominates its members' -/
theorem calcSegAlign_fix {secs : List SecBuf} {g : Seg}
    (h : ∀ idx ∈ g.secs, ∃ s, secs[idx.toNat]? = some s ∧ s.addrAlign.toNat ≤ g.align.toNat) :
    calcSegAlign secs g = .ok g := by
  unfold calcSegAlign
  generalize g.secs = l at h
  induction l with
  | nil => rfl
  | cons idx rest ih =>
    obtain ⟨s, hs, hle⟩ := h idx List.mem_cons_self
    simp only [List.foldlM_cons, hs, pure_bind]
    have : BitVec.ult g.align s.addrAlign = false := by
      simp only [BitVec.ult, decide_eq_false_iff_not]; omega
    rw [save_csa_raise_eq, this]
    simp only [Bool.false_eq_true, if_false]
    exact ih (fun i hi => h i (List.mem_cons_of_mem _ hi))

/-- after the alignment pass the segment's alignment dominates every member's -/
theorem calcSegAlign_fold_ge {secs : List SecBuf} (l : List (BitVec 16)) {g g' : Seg}
    (h : l.foldlM (fun g idx =>
      match secs[idx.toNat]? with
      | none => (throw (Fault.vecOob "calc_segment_alignment/sections_[index]") : M Seg)
      | some s => pure (if BitVec.ult g.align s.addrAlign then { g with align := s.addrAlign } else g)) g = .ok g') :
    g.align.toNat ≤ g'.align.toNat ∧
    ∀ idx ∈ l, ∃ s, secs[idx.toNat]? = some s ∧ s.addrAlign.toNat ≤ g'.align.toNat := by
  induction l generalizing g with
  | nil =>
    simp only [List.foldlM_nil, pure, Except.pure, Except.ok.injEq] at h; subst h
    exact ⟨Nat.le_refl _, fun i hi => by cases hi⟩
  | cons idx rest ih =>
    simp only [List.foldlM_cons, bind, Except.bind] at h
    cases hs : secs[idx.toNat]? with
    | none => rw [hs] at h; cases h
    | some s =>
      rw [hs] at h
      simp only [pure, Except.pure] at h
      obtain ⟨le, rest'⟩ := ih h
      have hge : g.align.toNat ≤ g'.align.toNat ∧ s.addrAlign.toNat ≤ g'.align.toNat := by
        by_cases hlt : BitVec.ult g.align s.addrAlign = true
        · rw [if_pos hlt] at le
          simp only [BitVec.ult, decide_eq_true_eq] at hlt
          simp only at le
          exact ⟨by omega, le⟩
        · rw [if_neg hlt] at le
          simp only [BitVec.ult, decide_eq_true_eq] at hlt
          exact ⟨le, by omega⟩
      refine ⟨hge.1, fun i hi => ?_⟩
      rcases List.mem_cons.1 hi with e | e
      · subst e; exact ⟨s, hs, hge.2⟩
      · exact rest' i e

theorem calcSegAlign_ge {secs : List SecBuf} {g g' : Seg} (h : calcSegAlign secs g = .ok g') :
    ∀ idx ∈ g.secs, ∃ s, secs[idx.toNat]? = some s ∧ s.addrAlign.toNat ≤ g'.align.toNat :=
  (calcSegAlign_fold_ge g.secs h).2

/-- no segment is (already) at file offset 0 -/
def NoZeroOffset (segs : List Seg) : Prop := ∀ g ∈ segs, (g.offsetSet && g.offset == 0) = false

theorem orderFront_go_id (n : Nat) (fuel i ns : Nat) (wl : Array Seg) (hn : n = wl.size)
    (h : NoZeroOffset wl.toList) : orderFront.go n i ns wl fuel = .ok wl := by
  induction fuel generalizing i ns with
  | zero => unfold orderFront.go; rfl
  | succ fuel ih =>
    unfold orderFront.go
    split
    · rfl
    · rename_i hlt
      cases hs : wl[i]? with
      | none =>
        have : i < wl.size := by omega
        rw [Array.getElem?_eq_getElem this] at hs; cases hs
      | some si =>
        simp only
        have hm : si ∈ wl.toList := by
          have := Array.mem_of_getElem? hs
          simpa using this
        have := h si hm
        have hc : save_gos_front (BitVec.ofNat 64 i) (BitVec.ofNat 64 ns) si.offsetSet si.offset = false :=
          save_gos_front_false _ _ _ _ this
        rw [hc]
        simp only [Bool.false_eq_true, if_false]
        exact ih _ _

theorem orderFront_id (wl : Array Seg) (h : NoZeroOffset wl.toList) : orderFront wl = .ok wl := by
  unfold orderFront; exact orderFront_go_id _ _ _ _ _ rfl h

theorem any_congr' {α} {l : List α} {p q : α → Bool} (h : ∀ a ∈ l, p a = q a) : l.any p = l.any q := by
  induction l with
  | nil => rfl
  | cons a r ih =>
    simp only [List.any_cons]
    rw [h a List.mem_cons_self, ih (fun b hb => h b (List.mem_cons_of_mem _ hb))]

/-- the second ordering loop only looks at the member lists -/
theorem orderTopo_map (φ : Seg → Seg) (P : Seg → Prop) (hφ : ∀ g, P g → (φ g).secs = g.secs) (fuel : Nat)
    (wl res : List Seg) (hP : ∀ g ∈ wl ++ res, P g) :
    orderTopo (wl.map φ) (res.map φ) fuel = (orderTopo wl res fuel).map (List.map φ) := by
  have hsub : ∀ a b, P a → P b → isSubsequenceOf (φ a) (φ b) = isSubsequenceOf a b := by
    intro a b ha hb; unfold isSubsequenceOf; rw [hφ a ha, hφ b hb]
  induction fuel generalizing wl res with
  | zero =>
    cases wl with
    | nil => simp [orderTopo, Except.map, pure, Except.pure]
    | cons a r => simp only [List.map_cons, orderTopo]; rfl
  | succ fuel ih =>
    cases wl with
    | nil => simp [orderTopo, Except.map, pure, Except.pure]
    | cons a r =>
      simp only [List.map_cons, orderTopo]
      have ha : P a := hP a (by simp)
      have hany : (List.map φ r).any (isSubsequenceOf (φ a)) = r.any (isSubsequenceOf a) := by
        rw [List.any_map]
        apply any_congr'
        intro b hb
        exact hsub a b ha (hP b (by simp [hb]))
      rw [hany]
      split
      · have := ih (r ++ [a]) res (fun g hg => hP g (by
          simp only [List.mem_append, List.mem_cons, List.mem_singleton, List.not_mem_nil, or_false] at hg ⊢
          rcases hg with (h | h) | h
          · exact Or.inl (Or.inr h)
          · exact Or.inl (Or.inl h)
          · exact Or.inr h))
        simp only [List.map_append, List.map_cons, List.map_nil] at this
        exact this
      · have := ih r (a :: res) (fun g hg => hP g (by
          simp only [List.mem_append, List.mem_cons] at hg ⊢
          rcases hg with h | h | h
          · exact Or.inl (Or.inr h)
          · exact Or.inl (Or.inl h)
          · exact Or.inr h))
        simp only [List.map_cons] at this
        exact this

theorem orderTopo_perm (fuel : Nat) (wl res out : List Seg) (h : orderTopo wl res fuel = .ok out) :
    out.Perm (wl ++ res) := by
  induction fuel generalizing wl res with
  | zero =>
    cases wl with
    | nil =>
      simp only [orderTopo, pure, Except.pure, Except.ok.injEq] at h; subst h
      simpa using List.reverse_perm res
    | cons a r => simp only [orderTopo] at h; cases h
  | succ fuel ih =>
    cases wl with
    | nil =>
      simp only [orderTopo, pure, Except.pure, Except.ok.injEq] at h; subst h
      simpa using List.reverse_perm res
    | cons a r =>
      simp only [orderTopo] at h
      split at h
      · have := ih _ _ h
        refine this.trans ?_
        have : ((r ++ [a]) ++ res).Perm ((a :: r) ++ res) := by
          apply List.Perm.append_right
          simpa using (List.perm_append_comm (l₁ := r) (l₂ := [a]))
        exact this
      · have := ih _ _ h
        refine this.trans ?_
        simpa using (List.perm_middle (a := a) (l₁ := r) (l₂ := res))

/-- without offset-0 segments, the layout order is a permutation of the segments … -/
theorem orderedSegments_perm {segs ordered : List Seg} (hz : NoZeroOffset segs)
    (h : orderedSegments segs = .ok ordered) : ordered.Perm segs := by
  unfold orderedSegments at h
  rw [orderFront_id _ (by simpa using hz)] at h
  simp only [bind, Except.bind] at h
  have := orderTopo_perm _ _ _ _ h
  simpa using this

/-- … that depends on the member lists only -/
theorem orderedSegments_map {segs ordered : List Seg} (φ : Seg → Seg) (hφ : ∀ g ∈ segs, (φ g).secs = g.secs)
    (hz : NoZeroOffset segs) (hz' : NoZeroOffset (segs.map φ)) (h : orderedSegments segs = .ok ordered) :
    orderedSegments (segs.map φ) = .ok (ordered.map φ) := by
  unfold orderedSegments at h ⊢
  rw [orderFront_id _ (by simpa using hz)] at h
  rw [orderFront_id _ (by simpa using hz')]
  simp only [bind, Except.bind, List.length_map] at h ⊢
  have := orderTopo_map φ (· ∈ segs) hφ (segs.length * segs.length + segs.length + 1) segs []
    (fun g hg => by simpa using hg)
  simp only [List.map_nil] at this

  rw [this, h]
  rfl

/-! ### putting finished segments back, again -/

/-- the replacement `putBack` performs, as a function -/
def backFn (done : List Seg) (g : Seg) : Seg := (done.find? (fun d => d.index == g.index)).getD g

theorem putBack_eq_map (segs done : List Seg) : putBack segs done = segs.map (backFn done) := rfl

theorem backFn_index (done : List Seg) (g : Seg) : (backFn done g).index = g.index := by
  unfold backFn
  cases h : done.find? (fun d => d.index == g.index) with
  | none => rfl
  | some d => have := List.find?_some h; simpa using this

theorem backFn_idem (done : List Seg) (g : Seg) : backFn done (backFn done g) = backFn done g := by
  have hi := backFn_index done g
  unfold backFn at hi ⊢
  cases h : done.find? (fun d => d.index == g.index) with
  | none => simp only [Option.getD_none, h]
  | some d =>
    rw [h] at hi
    simp only [Option.getD_some] at hi ⊢
    rw [hi, h]; rfl

theorem putBack_idem (segs done : List Seg) : putBack (putBack segs done) done = putBack segs done := by
  rw [putBack_eq_map, putBack_eq_map, List.map_map]
  apply List.map_congr_left
  intro g _
  exact backFn_idem done g

theorem find?_of_unique {α} {l : List α} {p : α → Bool} {k : Nat} {x : α} (hk : l[k]? = some x) (hp : p x = true)
    (hu : ∀ (j : Nat) y, j ≠ k → l[j]? = some y → p y = false) : l.find? p = some x := by
  induction l generalizing k with
  | nil => cases hk
  | cons a rest ih =>
    cases k with
    | zero =>
      simp only [List.getElem?_cons_zero, Option.some.injEq] at hk; subst hk
      simp [List.find?, hp]
    | succ k' =>
      simp only [List.getElem?_cons_succ] at hk
      have ha : p a = false := hu 0 a (by omega) (by simp)
      simp only [List.find?, ha]
      exact ih hk (fun j y hj hy => hu (j + 1) y (by omega) (by simpa using hy))

theorem All2.getElem? {α β} {R : α → β → Prop} {l : List α} {l' : List β} (h : All2 R l l') :
    l'.length = l.length ∧ ∀ (k : Nat) a b, l[k]? = some a → l'[k]? = some b → R a b := by
  induction h with
  | nil => exact ⟨rfl, fun k a b h => by cases h⟩
  | cons hr _ ih =>
    refine ⟨by simp [ih.1], fun k a b ha hb => ?_⟩
    cases k with
    | zero => simp only [List.getElem?_cons_zero, Option.some.injEq] at ha hb; subst ha; subst hb; exact hr
    | succ j => simp only [List.getElem?_cons_succ] at ha hb; exact ih.2 j a b ha hb

/-- with pairwise distinct indices, putting the finished segments back turns each ordered segment
    into its finished version -/
theorem map_backFn_eq {ordered ds : List Seg} (hr : All2 (fun g d => d.index = g.index) ordered ds)
    (hd : ordered.Pairwise (fun a b => a.index ≠ b.index)) : ordered.map (backFn ds) = ds := by
  obtain ⟨hlen, hrel⟩ := All2.getElem? hr
  apply List.ext_getElem?
  intro k
  rw [List.getElem?_map]
  rcases Nat.lt_or_ge k ordered.length with hk | hk
  · have hk' : k < ds.length := by rw [hlen]; exact hk
    rw [List.getElem?_eq_getElem hk, List.getElem?_eq_getElem hk']
    simp only [Option.map_some, Option.some.injEq]
    have hik := hrel k _ _ (List.getElem?_eq_getElem hk) (List.getElem?_eq_getElem hk')
    unfold backFn
    rw [find?_of_unique (List.getElem?_eq_getElem hk') (by simpa using hik) (fun j y hj hy => by
      have hj' : j < ds.length := by
        rcases Nat.lt_or_ge j ds.length with h | h
        · exact h
        · rw [List.getElem?_eq_none h] at hy; cases hy
      have hj'' : j < ordered.length := by rw [← hlen]; exact hj'
      have hij := hrel j _ _ (List.getElem?_eq_getElem hj'') hy
      have hne : ordered[j].index ≠ ordered[k].index := by
        rw [List.pairwise_iff_getElem] at hd
        rcases Nat.lt_or_gt_of_ne hj with h | h
        · exact hd j k hj'' hk h
        · exact fun e => hd k j hk hj'' h e.symm
      simp only [beq_eq_false_iff_ne, ne_eq]
      rw [hij]; exact hne)]
    rfl
  · rw [List.getElem?_eq_none hk, List.getElem?_eq_none (by rw [hlen]; exact hk)]; rfl


end Sv
end ElfioVerif
