/-
Bridging lemmas for the source tie of the modinfo / version accessors (Model/Modinfo.lean, Model/Versym.lean):
the generated expressions the models call are the expressions the proofs in Lemmas/Tables.lean,
Lemmas/Inspect.lean and Props/C14.lean reason about.  One line each; a change of the C++ expression changes
the generated definition and breaks the lemma (and with it every theorem behind it).
-/
import ElfioVerif.Model.Modinfo
import ElfioVerif.Model.Versym
namespace ElfioVerif
open Gen
namespace ModTie
theorem skip_cond_eq (i s : BitVec 64) : mod_skip_cond i s = mod_loop_cond i s := rfl
theorem skip_incr (i : BitVec 64) : mod_skip_incr i = i + 1 := rfl
theorem start_eq : mod_start = 0 := by decide
theorem byte_isnul (x : UInt8) : mod_skip_isnul x.toBitVec = decide (x = 0) := by
  simp only [mod_skip_isnul, bne, Bool.not_not]
  rw [Bool.eq_iff_iff]
  simp only [beq_iff_eq, decide_eq_true_eq]
  constructor
  · intro h; exact UInt8.toBitVec_inj.mp h
  · intro h; rw [h]; rfl
theorem skipByteIsNul_eq (c : Bytes) : Modinfo.skipByteIsNul c = decide (c = [0]) := by
  match c with
  | [] => simp [Modinfo.skipByteIsNul]
  | [x] => simp [Modinfo.skipByteIsNul, byte_isnul]
  | x :: y :: r => simp [Modinfo.skipByteIsNul]
theorem parse_eq (b : SecBuf) : Modinfo.parse b = (match b.getData.data with
    | none => pure []
    | some a => Modinfo.parseLoop (some a) b.size (b.size.toNat + 2) 0 []) := by
  unfold Modinfo.parse
  cases b.getData.data <;> simp [mod_has_data, start_eq]
theorem splitRecord_eq (info : Bytes) : Modinfo.splitRecord info =
    (info.take (Modinfo.findEq info).toNat, info.drop (mod_value_start (Modinfo.findEq info)).toNat) := by
  have h0 : mod_field_start.toNat = 0 := by decide
  simp only [Modinfo.splitRecord, h0, List.drop_zero, mod_field_len]
end ModTie

namespace VerTie
theorem vr_i_init_eq : vr_i_init = 0 := rfl
theorem vd_i_init_eq : vd_i_init = 0 := rfl
theorem vr_i_incr_eq (i : BitVec 32) : vr_i_incr i = i + 1 := rfl
theorem vd_i_incr_eq (i : BitVec 32) : vd_i_incr i = i + 1 := rfl
end VerTie
end ElfioVerif
