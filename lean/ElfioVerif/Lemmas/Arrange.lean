/-
The two-cursor partition of `generic_arrange_local_symbols`, on an abstract table
(`List α`, records opaque, `p : α → Bool` = "is local") with `Nat` cursors, and its theorems for
*all* tables: termination within `length + 1` iterations, permutation, partition, return value,
relocation indices.  `Lemmas/ArrangeBytes.lean` proves that the byte-level model
(`Model/Arrange.lean`) computes exactly this function on the decoded table.
-/
import ElfioVerif.Spec.Partition
namespace ElfioVerif.Arr

variable {α σ : Type}

/-- exchange the elements at `i` and `j` (nothing if an index is outside) -/
def swapAt (l : List α) (i j : Nat) : List α :=
  match l[i]?, l[j]? with
  | some a, some b => (l.set i b).set j a
  | _, _ => l

/-- `while (i < count) { if (q l[i]) break; ++i; }` -/
def scan (q : α → Bool) (l : List α) : Nat → Nat → Nat
  | 0, i => i
  | fuel + 1, i =>
    match l[i]? with
    | none => i
    | some a => if q a then i else scan q l fuel (i + 1)

/-- the `while (true)` loop: `f` = `first_not_local`, `cb` = the swap callback on its state -/
def absLoop (p : α → Bool) (cb : σ → Nat → Nat → σ) :
    Nat → List α → σ → Nat → Option (List α × σ × Nat)
  | 0, _, _, _ => none
  | fuel + 1, l, st, f =>
    let f' := scan (fun a => !p a) l (l.length + 1) f
    let c := scan p l (l.length + 1) (f' + 1)
    if f' < l.length ∧ c < l.length then absLoop p cb fuel (swapAt l f' c) (cb st f' c) f'
    else some (l, st, f')

def absArrange (p : α → Bool) (cb : σ → Nat → Nat → σ) (l : List α) (st : σ) :
    Option (List α × σ × Nat) :=
  absLoop p cb (l.length + 1) l st 1

/-! ### swapAt -/

theorem swapAt_of_lt (l : List α) {i j : Nat} (hi : i < l.length) (hj : j < l.length) :
    swapAt l i j = (l.set i l[j]).set j l[i] := by
  simp [swapAt, List.getElem?_eq_getElem hi, List.getElem?_eq_getElem hj]

@[simp] theorem swapAt_length (l : List α) (i j : Nat) : (swapAt l i j).length = l.length := by
  unfold swapAt; split <;> simp

theorem swapAt_perm (l : List α) (i j : Nat) : (swapAt l i j).Perm l := by
  by_cases hi : i < l.length
  · by_cases hj : j < l.length
    · rw [swapAt_of_lt l hi hj]; exact List.set_set_perm hi hj
    · unfold swapAt; rw [List.getElem?_eq_none (by omega : l.length ≤ j)]
      split <;> first | exact List.Perm.refl _ | simp_all
  · unfold swapAt; rw [List.getElem?_eq_none (by omega : l.length ≤ i)]

theorem swapAt_getElem? (l : List α) {i j : Nat} (hi : i < l.length) (hj : j < l.length) (k : Nat) :
    (swapAt l i j)[k]? = if k = j then l[i]? else if k = i then l[j]? else l[k]? := by
  rw [swapAt_of_lt l hi hj]
  simp only [List.getElem?_set, List.length_set]
  by_cases h1 : k = j
  · subst h1; simp [hj, List.getElem?_eq_getElem hi]
  · by_cases h2 : k = i
    · subst h2
      have : ¬ j = k := fun h => h1 h.symm
      simp [this, h1, hi, List.getElem?_eq_getElem hj]
    · have a : ¬ j = k := fun h => h1 h.symm
      have b : ¬ i = k := fun h => h2 h.symm
      simp [a, b, h1, h2]

/-- the transposition of two indices -/
def transp (i j k : Nat) : Nat := if k = i then j else if k = j then i else k

theorem swapAt_transp (l : List α) {i j : Nat} (hi : i < l.length) (hj : j < l.length) (k : Nat) :
    (swapAt l i j)[transp i j k]? = l[k]? := by
  rw [swapAt_getElem? l hi hj]
  unfold transp
  by_cases h1 : k = i
  · subst h1; simp
  · by_cases h2 : k = j
    · subst h2
      simp only [h1, if_false, if_true]
      by_cases h3 : i = k
      · subst h3; simp
      · simp [h3]
    · simp [h1, h2]

/-! ### scan -/

theorem scan_spec (q : α → Bool) (l : List α) :
    ∀ fuel i, l.length ≤ i + fuel →
      i ≤ scan q l fuel i ∧
      (∀ m, i ≤ m → m < scan q l fuel i → ∃ a, l[m]? = some a ∧ q a = false) ∧
      (∀ a, l[scan q l fuel i]? = some a → q a = true) ∧
      (scan q l fuel i ≤ l.length ∨ scan q l fuel i = i) := by
  intro fuel
  induction fuel with
  | zero =>
    intro i h
    simp only [scan]
    refine ⟨Nat.le_refl _, fun m h1 h2 => by omega, fun a ha => ?_, Or.inr (by first | rfl | trivial)⟩
    rw [List.getElem?_eq_none (by omega)] at ha; cases ha
  | succ fuel ih =>
    intro i h
    simp only [scan]
    cases hi : l[i]? with
    | none =>
      simp only
      refine ⟨Nat.le_refl _, fun m h1 h2 => by omega, fun a ha => ?_, Or.inr (by first | rfl | trivial)⟩
      rw [hi] at ha; cases ha
    | some a =>
      simp only
      by_cases hq : q a = true
      · simp only [hq, if_true]
        refine ⟨Nat.le_refl _, fun m h1 h2 => by omega, fun b hb => ?_, Or.inr (by first | rfl | trivial)⟩
        rw [hi] at hb; cases hb; exact hq
      · have hq' : q a = false := by simpa using hq
        simp only [hq', Bool.false_eq_true, if_false]
        have hlt : i < l.length := by
          by_cases h' : i < l.length
          · exact h'
          · rw [List.getElem?_eq_none (by omega)] at hi; cases hi
        obtain ⟨h1, h2, h3, h4⟩ := ih (i + 1) (by omega)
        refine ⟨by omega, fun m hm1 hm2 => ?_, h3, ?_⟩
        · by_cases hm : m = i
          · subst hm; exact ⟨a, hi, by simpa using hq⟩
          · exact h2 m (by omega) hm2
        · rcases h4 with h4 | h4
          · exact Or.inl h4
          · exact Or.inl (by omega)

/-! ### the loop: partial correctness -/

/-- what one run of the loop guarantees, given that everything below `f` is local -/
theorem absLoop_spec (p : α → Bool) (cb : σ → Nat → Nat → σ) :
    ∀ fuel (l : List α) (st : σ) (f : Nat) (l' : List α) (st' : σ) (r : Nat),
      absLoop p cb fuel l st f = some (l', st', r) →
      1 ≤ f → (∀ m a, m < f → l[m]? = some a → p a = true) →
      l'.Perm l ∧ l'.length = l.length ∧
      (∀ m a, m < r → l'[m]? = some a → p a = true) ∧
      (∀ m a, r ≤ m → l'[m]? = some a → p a = false) ∧
      l'[0]? = l[0]? ∧ f ≤ r ∧ (r ≤ l.length ∨ r = f) := by
  intro fuel
  induction fuel with
  | zero => intro l st f l' st' r h; simp [absLoop] at h
  | succ fuel ih =>
    intro l st f l' st' r h hf hinv
    simp only [absLoop] at h
    obtain ⟨a1, a2, a3, a4⟩ := scan_spec (fun a => !p a) l (l.length + 1) f (by omega)
    generalize hf' : scan (fun a => !p a) l (l.length + 1) f = f' at h a1 a2 a3 a4
    obtain ⟨b1, b2, b3, b4⟩ := scan_spec p l (l.length + 1) (f' + 1) (by omega)
    generalize hc : scan p l (l.length + 1) (f' + 1) = c at h b1 b2 b3 b4
    -- everything below f' is local
    have hinv' : ∀ m a, m < f' → l[m]? = some a → p a = true := by
      intro m a hm ha
      by_cases hmf : m < f
      · exact hinv m a hmf ha
      · obtain ⟨b, hb, hq⟩ := a2 m (by omega) hm
        rw [ha] at hb; cases hb; simpa using hq
    split at h
    · rename_i hcond
      obtain ⟨hf'l, hcl⟩ := hcond
      have hpre : ∀ m a, m < f' → (swapAt l f' c)[m]? = some a → p a = true := by
        intro m a hm ha
        rw [swapAt_getElem? l hf'l hcl] at ha
        rw [if_neg (by omega), if_neg (by omega)] at ha
        exact hinv' m a hm ha
      obtain ⟨c1, c2, c3, c4, c5, c6, c7⟩ := ih _ _ _ _ _ _ h (by omega) hpre
      refine ⟨c1.trans (swapAt_perm l f' c), by simpa using c2, c3, c4, ?_, by omega, ?_⟩
      · rw [c5, swapAt_getElem? l hf'l hcl, if_neg (by omega), if_neg (by omega)]
      · rcases c7 with c7 | c7
        · left; simpa using c7
        · left; omega
    · rename_i hcond
      simp only [Option.some.injEq, Prod.mk.injEq] at h
      obtain ⟨rfl, rfl, rfl⟩ := h
      refine ⟨List.Perm.refl _, rfl, hinv', ?_, rfl, a1, a4⟩
      intro m a hm ha
      have hml : m < l.length := by
        by_cases h' : m < l.length
        · exact h'
        · rw [List.getElem?_eq_none (by omega)] at ha; cases ha
      by_cases hmf : m = f'
      · subst hmf; simpa using a3 a ha
      · have hcl : l.length ≤ c := by
          by_cases h' : c < l.length
          · exact absurd ⟨by omega, h'⟩ hcond
          · omega
        obtain ⟨b, hb, hq⟩ := b2 m (by omega) (by omega)
        rw [ha] at hb; cases hb; exact hq

/-! ### the loop: termination -/

/-- is the element at `f` present and non-local? -/
def nonLocalAt (p : α → Bool) (l : List α) (f : Nat) : Nat :=
  match l[f]? with
  | some a => if p a then 0 else 1
  | none => 0

/-- every iteration that swaps makes `length - f + [l[f] non-local]` strictly smaller -/
theorem absLoop_isSome (p : α → Bool) (cb : σ → Nat → Nat → σ) :
    ∀ fuel (l : List α) (st : σ) (f : Nat),
      (l.length - f) + nonLocalAt p l f < fuel → (absLoop p cb fuel l st f).isSome = true := by
  intro fuel
  induction fuel with
  | zero => intro l st f h; omega
  | succ fuel ih =>
    intro l st f h
    simp only [absLoop]
    obtain ⟨a1, a2, a3, a4⟩ := scan_spec (fun a => !p a) l (l.length + 1) f (by omega)
    generalize hf' : scan (fun a => !p a) l (l.length + 1) f = f' at a1 a2 a3 a4
    obtain ⟨b1, b2, b3, b4⟩ := scan_spec p l (l.length + 1) (f' + 1) (by omega)
    generalize hc : scan p l (l.length + 1) (f' + 1) = c at b1 b2 b3 b4
    split
    · rename_i hcond
      obtain ⟨hf'l, hcl⟩ := hcond
      apply ih
      -- the element now at f' is the local one that was at c
      have hloc : nonLocalAt p (swapAt l f' c) f' = 0 := by
        unfold nonLocalAt
        rw [swapAt_getElem? l hf'l hcl, if_neg (by omega), if_pos rfl,
          List.getElem?_eq_getElem hcl]
        simp [b3 l[c] (List.getElem?_eq_getElem hcl)]
      rw [hloc, swapAt_length]
      by_cases hff : f' = f
      · -- no progress in this scan: the element at f is non-local
        have : nonLocalAt p l f = 1 := by
          unfold nonLocalAt
          subst hff
          rw [List.getElem?_eq_getElem hf'l]
          have := a3 l[f'] (List.getElem?_eq_getElem hf'l)
          simp only [Bool.not_eq_true'] at this
          simp [this]
        omega
      · omega
    · simp

theorem absArrange_isSome (p : α → Bool) (cb : σ → Nat → Nat → σ) (l : List α) (st : σ) :
    (absArrange p cb l st).isSome = true := by
  apply absLoop_isSome
  have : nonLocalAt p l 1 ≤ 1 := by
    unfold nonLocalAt; split
    · split <;> omega
    · omega
  by_cases h : l.length = 0
  · have : nonLocalAt p l 1 = 0 := by
      unfold nonLocalAt; rw [List.getElem?_eq_none (by omega)]
    omega
  · omega

/-- the number of swaps (callback invocations) is bounded by the fuel: at most `fuel - 1` -/
theorem absLoop_count (p : α → Bool) :
    ∀ fuel (l : List α) (c f : Nat) (l' : List α) (c' r : Nat),
      absLoop p (fun c _ _ => c + 1) fuel l c f = some (l', c', r) → c' + 1 ≤ c + fuel := by
  intro fuel
  induction fuel with
  | zero => intro l c f l' c' r h; simp [absLoop] at h
  | succ fuel ih =>
    intro l c f l' c' r h
    simp only [absLoop] at h
    split at h
    · have := ih _ _ _ _ _ _ h; omega
    · simp only [Option.some.injEq, Prod.mk.injEq] at h
      obtain ⟨_, rfl, _⟩ := h
      omega

/-! ### the property, for all tables -/

/-- **C10 on the abstract table**: for every table whose entry 0 is local (the null symbol)
    the result is the arranged table and `r` the index of its first non-local symbol -/
theorem absArrange_arranged (p : α → Bool) (cb : σ → Nat → Nat → σ) (l : List α) (st : σ)
    (h0 : ∀ a, l[0]? = some a → p a = true) (hne : l ≠ [])
    {l' : List α} {st' : σ} {r : Nat} (h : absArrange p cb l st = some (l', st', r)) :
    Spec.Arranged p l l' r := by
  have hinv : ∀ m a, m < 1 → l[m]? = some a → p a = true := by
    intro m a hm ha
    have : m = 0 := by omega
    subst this; exact h0 a ha
  obtain ⟨c1, c2, c3, c4, c5, c6, c7⟩ := absLoop_spec p cb _ l st 1 l' st' r h (Nat.le_refl _) hinv
  have hlen : 1 ≤ l.length := by
    cases l with
    | nil => exact absurd rfl hne
    | cons _ _ => simp
  have hr : r ≤ l'.length := by rcases c7 with c7 | c7 <;> omega
  exact ⟨c1, c3, c4, c5, (Spec.takeWhile_length_of_partition p l' r hr c3 c4).symm⟩

/-- E1: on the empty table the loop returns 1 (and leaves the table alone) -/
theorem absArrange_nil (p : α → Bool) (cb : σ → Nat → Nat → σ) (st : σ) :
    absArrange p cb ([] : List α) st = some ([], st, 1) := by
  simp [absArrange, absLoop, scan]

/-! ### relocation indices follow the swaps -/

/-- Callbacks of the form "apply the transposition to every stored symbol index":
    `act π st` rewrites the indices stored in `st` through `π`. -/
structure IndexAction (σ : Type) where
  act : (Nat → Nat) → σ → σ
  act_id : ∀ st, act id st = st
  act_comp : ∀ g h st, act g (act h st) = act (g ∘ h) st

/-- the loop applies to the callback state the very permutation it applies to the table -/
theorem absLoop_tracks (p : α → Bool) (A : IndexAction σ) :
    ∀ fuel (l : List α) (st : σ) (f : Nat) (l' : List α) (st' : σ) (r : Nat),
      absLoop p (fun st i j => A.act (transp i j) st) fuel l st f = some (l', st', r) →
      ∃ π : Nat → Nat, st' = A.act π st ∧ ∀ k, l'[π k]? = l[k]? := by
  intro fuel
  induction fuel with
  | zero => intro l st f l' st' r h; simp [absLoop] at h
  | succ fuel ih =>
    intro l st f l' st' r h
    simp only [absLoop] at h
    split at h
    · rename_i hcond
      obtain ⟨hf'l, hcl⟩ := hcond
      obtain ⟨π, h1, h2⟩ := ih _ _ _ _ _ _ h
      refine ⟨π ∘ transp (scan (fun a => !p a) l (l.length + 1) f)
        (scan p l (l.length + 1) (scan (fun a => !p a) l (l.length + 1) f + 1)), ?_, ?_⟩
      · rw [h1, A.act_comp]
      · intro k
        simp only [Function.comp]
        rw [h2, swapAt_transp l hf'l hcl]
    · simp only [Option.some.injEq, Prod.mk.injEq] at h
      obtain ⟨rfl, rfl, rfl⟩ := h
      exact ⟨id, (A.act_id _).symm, fun k => rfl⟩

/-- symbol indices of several relocation tables -/
def relAction : IndexAction (List (List Nat)) where
  act π st := st.map (fun t => t.map π)
  act_id st := by simp
  act_comp g h st := by simp [List.map_map, Function.comp_def]

/-- **relocations stay on target**: whatever the tables, each entry's new index points to the
    record its old index pointed to -/
theorem absArrange_relocs (p : α → Bool) (l : List α) (tabs : List (List Nat))
    {l' : List α} {tabs' : List (List Nat)} {r : Nat}
    (h : absArrange p (fun st i j => relAction.act (transp i j) st) l tabs = some (l', tabs', r)) :
    tabs'.length = tabs.length ∧
    ∀ (t : Nat) (syms syms' : List Nat), tabs[t]? = some syms → tabs'[t]? = some syms' →
      Spec.OnTarget l l' syms syms' := by
  obtain ⟨π, h1, h2⟩ := absLoop_tracks p relAction _ l tabs 1 l' tabs' r h
  subst h1
  refine ⟨by simp [relAction], ?_⟩
  intro t syms syms' hs hs'
  simp only [relAction, List.getElem?_map, hs, Option.map_some, Option.some.injEq] at hs'
  subst hs'
  refine ⟨by simp, ?_⟩
  intro e s s' he he'
  simp only [List.getElem?_map, he, Option.map_some, Option.some.injEq] at he'
  subst he'
  exact h2 s

end ElfioVerif.Arr
