/-
Bridging lemmas for the source tie of the symbol accessor (Model/Symbols.lean, Model/TableQuery.lean):
the generated conversions, gates, indices and offsets the models call are the expressions the proofs in
Lemmas/Symbols.lean and Lemmas/TableSafety*.lean reason about.  One line each; a change of the C++
expression changes the generated definition and breaks the lemma (and with it every theorem behind it).
-/
import ElfioVerif.Model.Symbols
namespace ElfioVerif
open Gen

/-! ### bridging lemmas: the generated conversions, gates, indices and offsets the model calls are the
expressions the proofs below reason about (one line each; a change of the C++ expression breaks them) -/
namespace SymTie

theorem get_value32 {n : Nat} (h : n < 4294967296) : sym32_get_value (BitVec.ofNat 32 n) = BitVec.ofNat 64 n := by
  apply BitVec.eq_of_toNat_eq
  simp only [sym32_get_value, BitVec.toNat_setWidth, BitVec.toNat_ofNat, Nat.reducePow]; omega
theorem get_size32 {n : Nat} (h : n < 4294967296) : sym32_get_size (BitVec.ofNat 32 n) = BitVec.ofNat 64 n := by
  apply BitVec.eq_of_toNat_eq
  simp only [sym32_get_size, BitVec.toNat_setWidth, BitVec.toNat_ofNat, Nat.reducePow]; omega
theorem get_value64 (x : BitVec 64) : sym64_get_value x = x := rfl
theorem get_size64 (x : BitVec 64) : sym64_get_size x = x := rfl
theorem get_name_idx32 (x : BitVec 32) : sym32_get_name_idx x = x := rfl
theorem get_name_idx64 (x : BitVec 32) : sym64_get_name_idx x = x := rfl
theorem get_other32 (x : BitVec 8) : sym32_get_other x = x := rfl
theorem get_other64 (x : BitVec 8) : sym64_get_other x = x := rfl
theorem get_shndx32 (x : BitVec 16) : sym32_get_shndx x = x := rfl
theorem get_shndx64 (x : BitVec 16) : sym64_get_shndx x = x := rfl

/-- `if ( nullptr != pStr ) name = pStr;` -/
theorem get_name_sel (c : Bool) (p : Option Bytes) (str : Bytes) :
    (if (if c = true then sym32_get_name_ok p.isNone else sym64_get_name_ok p.isNone) = true then p.getD str else str)
      = p.getD str := by
  cases p <;> cases c <;> simp [sym32_get_name_ok, sym64_get_name_ok]

/-- the class tests of `add_symbol` -/
theorem add_seed_is32 (c : Cls) : sym_add_seed_is32 (SymTab.clsByte c) = (c == .c32) := by cases c <;> decide
theorem add_is32 (c : Cls) : sym_add_is32 (SymTab.clsByte c) = (c == .c32) := by cases c <;> decide

/-- SysV walk -/
theorem sysv_nbucket_off_eq : sysv_nbucket_off.toNat = 0 := rfl
theorem sysv_sym_index_eq (y : BitVec 32) : sysv_sym_index y = y.setWidth 64 := rfl
theorem sysv_sym_index_walk_eq (y : BitVec 32) : sysv_sym_index_walk y = y.setWidth 64 := rfl
theorem sysv_head_missing_eq (b : Bool) : sysv_head_missing b = !b := rfl

/-- GNU walk: header word offsets, element offsets, the bloom test, the bucket test, chain indices -/
theorem gnu_hdr_off0 (c : Bool) : (if c = true then gnu32_nbuckets_off else gnu64_nbuckets_off).toNat = 0 := by
  cases c <;> decide
theorem gnu_hdr_off1 (c : Bool) : (if c = true then gnu32_symoffset_off else gnu64_symoffset_off).toNat = 4 := by
  cases c <;> decide
theorem gnu_hdr_off2 (c : Bool) : (if c = true then gnu32_bloom_size_off else gnu64_bloom_size_off).toNat = 8 := by
  cases c <;> decide
theorem gnu_hdr_off3 (c : Bool) : (if c = true then gnu32_bloom_shift_off else gnu64_bloom_shift_off).toNat = 12 := by
  cases c <;> decide
theorem elem_off4 (x : BitVec 32) : ((BitVec.setWidth 64 x) * 4#64).toNat = x.toNat * 4 := by
  have := x.isLt
  have h4 : (4#64).toNat = 4 := rfl
  simp only [BitVec.toNat_mul, BitVec.toNat_setWidth, h4, Nat.reducePow] at *
  omega
theorem elem_off8 (x : BitVec 32) : ((BitVec.setWidth 64 x) * 8#64).toNat = x.toNat * 8 := by
  have := x.isLt
  have h8 : (8#64).toNat = 8 := rfl
  simp only [BitVec.toNat_mul, BitVec.toNat_setWidth, h8, Nat.reducePow] at *
  omega
theorem gnu32_bloom_elem (x : BitVec 32) : (gnu32_bloom_elem_off x).toNat = x.toNat * 4 := elem_off4 x
theorem gnu64_bloom_elem (x : BitVec 32) : (gnu64_bloom_elem_off x).toNat = x.toNat * 8 := elem_off8 x
theorem gnu_bucket_elem (c : Bool) (x : BitVec 32) :
    (if c = true then gnu32_bucket_elem_off x else gnu64_bucket_elem_off x).toNat = x.toNat * 4 := by
  cases c <;> exact elem_off4 x
theorem gnu_chain_elem (c : Bool) (x : BitVec 32) :
    (if c = true then gnu32_chain_elem_off x else gnu64_chain_elem_off x).toNat = x.toNat * 4 := by
  cases c <;> exact elem_off4 x
theorem gnu_chain_elem_walk (c : Bool) (x : BitVec 32) :
    (if c = true then gnu32_chain_elem_off_walk x else gnu64_chain_elem_off_walk x).toNat = x.toNat * 4 := by
  cases c <;> exact elem_off4 x
theorem gnu32_bloom_pass (w b : BitVec 32) : (!(gnu32_bloom_miss w b)) = ((w &&& b) == b) := by
  simp [gnu32_bloom_miss, bne]
theorem gnu64_bloom_pass (w b : BitVec 64) : (!(gnu64_bloom_miss w b)) = ((w &&& b) == b) := by
  simp [gnu64_bloom_miss, bne]
theorem gnu_bucket_ok (c : Bool) (bv so : BitVec 32) :
    (if c = true then gnu32_bucket_ok bv so else gnu64_bucket_ok bv so) = BitVec.ule so bv := by cases c <;> rfl
theorem gnu_chain_start (c : Bool) (bv so : BitVec 32) :
    (if c = true then gnu32_chain_start bv so else gnu64_chain_start bv so) = bv - so := by cases c <;> rfl
theorem gnu_chain_next (c : Bool) (ci : BitVec 32) :
    (if c = true then gnu32_chain_next ci else gnu64_chain_next ci) = ci + 1 := by cases c <;> rfl
/-- `while ( true )` of the chain walk -/
theorem gnu_forever_ite {α : Type} (c : Bool) (x y : α) :
    (if (!(if c = true then gnu32_loop_forever else gnu64_loop_forever)) = true then x else y) = y := by
  cases c <;> rfl
theorem gnu_name_match (c : Bool) (ch hash : BitVec 32) (got eq : Bool) :
    (if c = true then gnu32_name_match_gate ch hash got eq else gnu64_name_match_gate ch hash got eq)
      = ((if c = true then gnu32_hash_match ch hash else gnu64_hash_match ch hash) && got && eq) := by cases c <;> rfl

/-- `if ( !ret ) { linear search }` of `get_symbol(name, …)` -/
theorem byname_linear_ite {α : Type} (b : Bool) (x y : α) :
    (if sym_byname_linear b = true then x else y) = (if b = true then y else x) := by cases b <;> rfl
theorem byname_is_sysv (ty : BitVec 32) : sym_byname_is_sysv ty = (ty == BitVec.ofNat 32 SHT_HASH) := rfl
theorem byname_is_gnu (ty : BitVec 32) :
    sym_byname_is_gnu ty = (ty == BitVec.ofNat 32 SHT_GNU_HASH || ty == BitVec.ofNat 32 DT_GNU_HASH) := rfl

/-- the class tests that choose the instantiation of `generic_get_symbol<T>`, `gnu_hash_lookup<T>` and
    `generic_search_symbols<T>` -/
theorem get_is32 (c : Cls) : sym_get_is32 (SymTab.clsByte c) = (c == .c32) := by cases c <;> decide
theorem byname_gnu_is32 (c : Cls) : sym_byname_gnu_is32 (SymTab.clsByte c) = (c == .c32) := by cases c <;> decide
theorem byvalue_is32 (c : Cls) : sym_byvalue_is32 (SymTab.clsByte c) = (c == .c32) := by cases c <;> decide
theorem clsOf_c32 (c : Cls) : SymTab.clsOf (c == .c32) = c := by cases c <;> rfl
theorem cfg_clsOf (c : Cfg) : (⟨SymTab.clsOf (c.cls == .c32), c.enc⟩ : Cfg) = c := by
  rw [clsOf_c32]

/-- `get_symbol(index, …)` is `generic_get_symbol<T>` for the `T` of the file's class -/
theorem getSymbol_unfold (t : SymTab) (index : BitVec 64) (str : Bytes) (a : Attrs) :
    t.getSymbol index str a =
      (let data := secData t.sym
       (t.guardNum data) >>= fun n =>
       if (if t.c32 then sym32_get_guard data.isNone index n else sym64_get_guard data.isNone index n) then
         let off := if t.c32 then sym32_get_off index t.sym.entSize else sym64_get_off index t.sym.entSize
         (rdRange "get_symbol/pSym" data off.toNat (SymTab.symSizeOf t.cfg.cls)) >>= fun rec =>
         let r := SymTab.decodeRaw t.cfg rec
         (SymTab.getString t.str r.name) >>= fun pStr =>
         let nameOk := if t.c32 then sym32_get_name_ok pStr.isNone else sym64_get_name_ok pStr.isNone
         pure (true, if nameOk then pStr.getD str else str, t.attrsOf r)
       else pure (false, str, a)) := by
  unfold SymTab.getSymbol SymTab.getSymbolT SymTab.attrsOf SymTab.c32
  simp only [get_is32, clsOf_c32, cfg_clsOf]

/-- the by-value search reads `st_value` through `generic_get_symbol_ptr<T>` for the `T` of the file's class -/
theorem symPtrValue_unfold (t : SymTab) (i : BitVec 64) :
    t.symPtrValue i =
      (let data := secData t.sym
       (t.guardNum data) >>= fun n =>
       if (if t.c32 then sym32_ptr_guard data.isNone i n else sym64_ptr_guard data.isNone i n) then
         if (if t.c32 then sym32_ptr_small t.sym.entSize else sym64_ptr_small t.sym.entSize) then pure none else
         let off := if t.c32 then sym32_ptr_off i t.sym.entSize else sym64_ptr_off i t.sym.entSize
         let (fo, fw) := match t.cfg.cls with
           | .c32 => (Elf32_Sym.st_value_off, Elf32_Sym.st_value_w)
           | .c64 => (Elf64_Sym.st_value_off, Elf64_Sym.st_value_w)
         (rdRange "search_symbols/st_value" data (off.toNat + fo) fw) >>= fun bs =>
         pure (some (BitVec.ofNat 64 (rdField t.cfg.enc bs)))
       else pure none) := by
  unfold SymTab.symPtrValue SymTab.symPtrValueT SymTab.c32
  simp only [byvalue_is32, clsOf_c32]
  rfl

theorem gnuLookupT_dispatch (t : SymTab) :
    SymTab.gnuLookupT (sym_byname_gnu_is32 (SymTab.clsByte t.cfg.cls)) t = t.gnuLookup := by
  unfold SymTab.gnuLookup SymTab.c32
  rw [byname_gnu_is32]

/-- the linear fallback of `get_symbol(name, …)` -/
theorem byname_hit (got eq : Bool) : sym_byname_hit got eq = (got && eq) := rfl
theorem byname_i_incr (i : BitVec 64) : sym_byname_i_incr i = i + 1 := rfl
theorem byname_i_init : sym_byname_i_init = 0 := by decide

theorem genericAddSymbolT_c32 (t : SymTab) :
    SymTab.genericAddSymbolT (t.cfg.cls == Cls.c32) t = t.genericAddSymbol := rfl

end SymTie

/-- rewrite the generated tie expressions of the hash walks into the forms the proofs below were written for -/
macro "sym_tie" loc:(Lean.Parser.Tactic.location)? : tactic =>
  `(tactic| try simp only [SymTie.sysv_nbucket_off_eq, SymTie.sysv_sym_index_eq, SymTie.sysv_sym_index_walk_eq,
      SymTie.gnu_hdr_off0, SymTie.gnu_hdr_off1, SymTie.gnu_hdr_off2, SymTie.gnu_hdr_off3,
      SymTie.gnu32_bloom_elem, SymTie.gnu64_bloom_elem, SymTie.gnu_bucket_elem, SymTie.gnu_chain_elem,
      SymTie.gnu_chain_elem_walk, SymTie.gnu32_bloom_pass, SymTie.gnu64_bloom_pass, SymTie.gnu_bucket_ok,
      SymTie.gnu_chain_start, SymTie.gnu_chain_next, SymTie.gnu_name_match, SymTie.gnu_forever_ite] $[$loc]?)

end ElfioVerif
