/-
Helper lemmas for C11: byte-string facts (slices of slices, field writes composing to a record
write, tables as concatenations of equal-sized chunks), the generated relocation sites as
arithmetic, and `get_data()` on a section satisfying the C07 invariant.
-/
import ElfioVerif.Model.Reloc
import ElfioVerif.Spec.Reloc
import ElfioVerif.Props.C07
namespace ElfioVerif
open Gen

/-! ### integers as bytes -/

theorem decodeInt_lt (e : Enc) (bs : Bytes) : decodeInt e bs < 2 ^ (8 * bs.length) := by
  cases e
  · exact leDecode_lt bs
  · have := leDecode_lt bs.reverse
    simpa [decodeInt, beDecode] using this

theorem leEncode_mod (n x : Nat) : leEncode n (x % 2 ^ (8 * n)) = leEncode n x := by
  induction n generalizing x with
  | zero => rfl
  | succ k ih =>
    simp only [leEncode]
    have e1 : 2 ^ (8 * (k + 1)) = 256 * 2 ^ (8 * k) := by
      rw [Nat.mul_add, Nat.pow_add]; simp [Nat.mul_comm]
    rw [e1, Nat.mod_mul_right_mod, Nat.mod_mul_right_div_self, ih]

theorem encodeInt_mod (e : Enc) (n x : Nat) : encodeInt e n (x % 2 ^ (8 * n)) = encodeInt e n x := by
  cases e <;> simp [encodeInt, beEncode, leEncode_mod]

theorem encodeInt_congr (e : Enc) (n x y : Nat) (h : x % 2 ^ (8 * n) = y % 2 ^ (8 * n)) :
    encodeInt e n x = encodeInt e n y := by
  rw [← encodeInt_mod e n x, ← encodeInt_mod e n y, h]

@[simp] theorem wrField_length (e : Enc) (n x : Nat) : (wrField e n x).length = n := by
  have hl : hostIsLittle = true := rfl
  simp [wrField, hostEncode, hl]

/-! ### slices -/

theorem slice_slice (bs : Bytes) (off len o w : Nat) (h : o + w ≤ len) :
    slice (slice bs off len) o w = slice bs (off + o) w := by
  unfold slice
  apply List.ext_getElem?
  intro i
  simp only [List.getElem?_take, List.getElem?_drop]
  ite_omega

theorem slice_append_left (xs ys : Bytes) (off len : Nat) (h : off + len ≤ xs.length) :
    slice (xs ++ ys) off len = slice xs off len := by
  unfold slice
  apply List.ext_getElem?
  intro i
  simp only [List.getElem?_take, List.getElem?_drop, List.getElem?_append]
  ite_omega

theorem slice_append_right (xs ys : Bytes) (off len : Nat) (h : xs.length ≤ off) :
    slice (xs ++ ys) off len = slice ys (off - xs.length) len := by
  unfold slice
  apply List.ext_getElem?
  intro i
  simp only [List.getElem?_take, List.getElem?_drop, List.getElem?_append]
  ite_omega

theorem slice_all (xs : Bytes) : slice xs 0 xs.length = xs := by simp [slice]

theorem slice_take' (bs : Bytes) (k off len : Nat) (h : off + len ≤ k) :
    slice (bs.take k) off len = slice bs off len := slice_take h

/-- consecutive field writes of a record are one write of the concatenation -/
theorem wr_wr_adjacent (a x y : Bytes) (off : Nat) (h : off + x.length + y.length ≤ a.length) :
    wr (wr a off x) (off + x.length) y = wr a off (x ++ y) := by
  apply List.ext_getElem?
  intro i
  rw [wr_getElem? _ _ _ _ (by rw [wr_length _ _ _ (by omega)]; omega)]
  rw [wr_getElem? _ _ _ _ (by omega)]
  rw [wr_getElem? _ _ _ _ (by simp; omega)]
  simp only [List.getElem?_append, List.length_append]
  ite_omega

/-- the order of two disjoint writes does not matter -/
theorem wr_wr_comm (a x y : Bytes) (ox oy : Nat) (hx : ox + x.length ≤ oy) (hy : oy + y.length ≤ a.length) :
    wr (wr a oy y) ox x = wr (wr a ox x) oy y := by
  apply List.ext_getElem?
  intro i
  rw [wr_getElem? _ _ _ _ (by rw [wr_length _ _ _ (by omega)]; omega)]
  rw [wr_getElem? _ _ _ _ (by omega)]
  rw [wr_getElem? _ _ _ _ (by rw [wr_length _ _ _ (by omega)]; omega)]
  rw [wr_getElem? _ _ _ _ (by omega)]
  ite_omega

theorem wr_take (a src : Bytes) (off n : Nat) (h1 : off + src.length ≤ n) (h2 : n ≤ a.length) :
    (wr a off src).take n = wr (a.take n) off src := by
  apply List.ext_getElem?
  intro i
  simp only [List.getElem?_take]
  rw [wr_getElem? _ _ _ _ (by omega)]
  rw [wr_getElem? _ _ _ _ (by simp; omega)]
  simp only [List.getElem?_take]
  ite_omega

theorem wr_same (a x y : Bytes) (off : Nat) (hl : x.length = y.length) (h : off + x.length ≤ a.length) :
    wr (wr a off x) off y = wr a off y := by
  apply List.ext_getElem?
  intro i
  rw [wr_getElem? _ _ _ _ (by rw [wr_length _ _ _ (by omega)]; omega)]
  rw [wr_getElem? _ _ _ _ (by omega)]
  rw [wr_getElem? _ _ _ _ (by omega)]
  ite_omega

theorem slice_wr_same (a x : Bytes) (off : Nat) (h : off + x.length ≤ a.length) :
    slice (wr a off x) off x.length = x := by
  unfold slice
  apply List.ext_getElem?
  intro i
  simp only [List.getElem?_take, List.getElem?_drop]
  rw [wr_getElem? _ _ _ _ h]
  by_cases hi : i < x.length
  · simp only [hi, if_true]
    rw [if_neg (by omega), if_pos (by omega)]
    congr 1; omega
  · simp only [hi, if_false]
    rw [List.getElem?_eq_none (by omega)]

theorem slice_wr_other (a x : Bytes) (off o w : Nat) (h : off + x.length ≤ a.length)
    (hd : o + w ≤ off ∨ off + x.length ≤ o) :
    slice (wr a off x) o w = slice a o w := by
  unfold slice
  apply List.ext_getElem?
  intro i
  simp only [List.getElem?_take, List.getElem?_drop]
  rw [wr_getElem? _ _ _ _ h]
  ite_omega

/-! ### `get_data()` on a section satisfying the C07 invariant -/

theorem getData_static (b : SecBuf) :
    b.getData.cls = b.cls ∧ b.getData.stype = b.stype ∧ b.getData.entSize = b.entSize ∧
    b.getData.size = b.size := by
  unfold SecBuf.getData SecBuf.loadData
  split
  · cases hf : b.fileData with
    | none => simp
    | some d =>
      simp only []
      split
      · split <;> simp
      · split <;> simp
  · simp

theorem resident_empty {b' : SecBuf} (hnb : b'.stype ≠ BitVec.ofNat 32 SHT_NOBITS) (hs : b'.size = 0)
    (hcase : (b'.data = none ∧ b'.dataSize = 0 ∧ (b'.isLazy && !b'.isLoaded) = false) ∨
             (∃ a, b'.data = some a ∧ b'.dataSize = 0)) :
    b'.Resident ∧ b'.content = [] := by
  have hr : b'.Resident := by
    rcases hcase with ⟨h1, h2, h3⟩ | ⟨a, h1, h2⟩
    · exact ⟨hnb, fun _ => h3, Or.inl ⟨h1, hs, h2⟩, (by rw [h2]; simp)⟩
    · refine ⟨hnb, (fun e => by rw [h1] at e; cases e), Or.inr ⟨a, h1, (by rw [hs, h2]; simp), (by rw [h2]; simp)⟩,
        (by rw [h2]; simp)⟩
  refine ⟨hr, ?_⟩
  rw [C07.content_resident hr]; simp [SecBuf.view, hs]

theorem getData_inv {b : SecBuf} (hI : b.Inv) : b.getData.Resident ∧ b.getData.content = b.content := by
  rcases hI with h | ⟨d, h⟩
  · rcases Option.eq_none_or_eq_some b.data with hd | ⟨a, hd⟩
    · have hs : b.size = 0 ∧ b.dataSize = 0 := by
        rcases h.buf with ⟨_, e1, e2⟩ | ⟨a', e, _, _⟩
        · exact ⟨e1, e2⟩
        · rw [hd] at e; cases e
      have hp := h.pend hd
      have hnb := h.notNobits
      have hc0 : b.content = [] := by
        rw [C07.content_resident h]; simp [SecBuf.view, hd]
      rw [hc0]
      unfold SecBuf.getData SecBuf.loadData
      split
      · rcases Option.eq_none_or_eq_some b.fileData with hf | ⟨d, hf⟩
        · simp only [hf]
          exact resident_empty hnb hs.1 (Or.inl ⟨hd, hs.2, hp⟩)
        · simp only [hf, hd, Option.isNone_none, Bool.true_and]
          by_cases hn : b.isNullOrNobits = true
          · simp only [hn, Bool.not_true, Bool.false_eq_true, if_false, Option.isSome_none, Bool.false_or, if_true]
            exact resident_empty hnb hs.1 (Or.inl ⟨rfl, hs.2, by simp⟩)
          · simp only [hn, Bool.not_false, if_true, hs.1]
            exact resident_empty hnb rfl (Or.inr ⟨alloc 1, rfl, rfl⟩)
      · exact ⟨h, hc0⟩
    · obtain ⟨g1, g2, g3, g4, g5, g6, g7⟩ := C07.getData_some hd
      have hr : b.getData.Resident := by
        refine ⟨(by rw [g5]; exact h.notNobits), (fun e => by rw [g1] at e; cases e), ?_, (by rw [g2, g3]; exact h.cap)⟩
        rcases h.buf with ⟨e, _, _⟩ | ⟨a', e, e1, e2⟩
        · rw [hd] at e; cases e
        · rw [hd] at e; cases e
          exact Or.inr ⟨a, g1, (by rw [g2, g3]; exact e1), (by rw [g3]; exact e2)⟩
      refine ⟨hr, ?_⟩
      rw [C07.content_resident hr, C07.content_resident h]
      simp [SecBuf.view, g1, g2, hd]
  · obtain ⟨r, v, _, _, _⟩ := C07.getData_pending h
    exact ⟨r, by rw [C07.content_resident r, v, C07.content_pending h]⟩

/-- a resident non-empty section has an allocation that covers its size; its content is the prefix -/
theorem resident_data {b : SecBuf} (h : b.Resident) (hs : b.size.toNat ≠ 0) :
    ∃ a, b.data = some a ∧ b.size.toNat ≤ a.length ∧ b.content = a.take b.size.toNat := by
  rcases h.buf with ⟨_, e, _⟩ | ⟨a, e, e1, e2⟩
  · rw [e] at hs; simp at hs
  · refine ⟨a, e, by omega, ?_⟩
    rw [C07.content_resident h]; simp [SecBuf.view, e]

/-! ### the generated relocation sites as arithmetic -/
namespace Reloc
open Spec

/-- the instantiation `T` chosen for a class and a table kind -/
def opsOf : Cls → RelKind → RecOps
  | .c32, .rel => ops32rel
  | .c32, .rela => ops32rela
  | .c64, .rel => ops64rel
  | .c64, .rela => ops64rela

/-- the section type of a table kind -/
def shtOf : RelKind → BitVec 32
  | .rel => BitVec.ofNat 32 SHT_REL
  | .rela => BitVec.ofNat 32 SHT_RELA

/-- the gABI view of the accessor's out-parameters -/
def Entry.toSpec (e : Entry) : RelocEntry :=
  { offset := e.offset.toNat, sym := e.symbol.toNat, type := e.type.toNat, addend := e.addend.toInt }

theorem Entry.toSpec_inj {e1 e2 : Entry} (h : e1.toSpec = e2.toSpec) : e1 = e2 := by
  cases e1; cases e2
  simp only [Entry.toSpec, RelocEntry.mk.injEq] at h
  obtain ⟨h1, h2, h3, h4⟩ := h
  simp only [Entry.mk.injEq]
  exact ⟨BitVec.eq_of_toNat_eq h1, BitVec.eq_of_toNat_eq h2, BitVec.eq_of_toNat_eq h3, BitVec.toInt_inj.mp h4⟩

theorem entriesNum_ok (b : SecBuf) : entriesNum b = .ok (entriesNumV b) := by
  unfold entriesNum entriesNumV
  by_cases h : reloc_num_entsize_nz b.entSize = true
  · simp only [h, if_true]
    have : b.entSize ≠ 0#64 := by
      intro e; rw [e] at h; revert h; decide
    simp [this, pure, Except.pure]
  · simp [h, pure, Except.pure]

theorem entriesNumV_toNat (b : SecBuf) : (entriesNumV b).toNat = b.size.toNat / b.entSize.toNat := by
  unfold entriesNumV
  by_cases h : b.entSize = 0
  · rw [h]
    have : reloc_num_entsize_nz 0#64 = false := by decide
    have h0 : reloc_num_init = 0 := by decide
    simp [this, h0]
  · have hz : reloc_num_entsize_nz b.entSize = true := by
      have : (BitVec.signExtend 64 0#32 : BitVec 64) = 0#64 := by decide
      simp only [reloc_num_entsize_nz, this]
      simpa [bne_iff_ne] using fun e => h e.symm
    simp only [hz, if_true, reloc_num_div, BitVec.toNat_udiv]

theorem get_idx_oob (i n : BitVec 64) : reloc_get_idx_oob i n = decide (n.toNat ≤ i.toNat) := by
  simp [reloc_get_idx_oob, BitVec.ule]
theorem set_idx_oob (i n : BitVec 64) : reloc_set_idx_oob i n = decide (n.toNat ≤ i.toNat) := by
  simp [reloc_set_idx_oob, BitVec.ule]

theorem is32_c32 : reloc_get_is32 (classByte .c32) = true ∧ reloc_set_is32 (classByte .c32) = true ∧
    reloc_addrel_is32 (classByte .c32) = true ∧ reloc_addrela_is32 (classByte .c32) = true ∧
    reloc_addrel_info_is32 (classByte .c32) = true ∧ reloc_addrela_info_is32 (classByte .c32) = true := by decide
theorem is32_c64 : reloc_get_is32 (classByte .c64) = false ∧ reloc_set_is32 (classByte .c64) = false ∧
    reloc_addrel_is32 (classByte .c64) = false ∧ reloc_addrela_is32 (classByte .c64) = false ∧
    reloc_addrel_info_is32 (classByte .c64) = false ∧ reloc_addrela_info_is32 (classByte .c64) = false := by decide

theorem sht_rel_ne_rela : (BitVec.ofNat 32 SHT_REL : BitVec 32) ≠ BitVec.ofNat 32 SHT_RELA := by decide

/-- what the main proofs need to know about one instantiation -/
structure OpsOk (c : Cls) (k : RelKind) (ops : RecOps) : Prop where
  size : ops.size = entSize c k
  size_pos : 0 < ops.size
  offsetOff : ops.offsetOff = 0
  offsetW : ops.offsetW = wordBytes c
  infoOff : ops.infoOff = wordBytes c
  infoW : ops.infoW = wordBytes c
  hasAddend : ops.hasAddend = Spec.hasAddend k
  addendOff : ops.hasAddend = true → ops.addendOff = 2 * wordBytes c
  addendW : ops.hasAddend = true → ops.addendW = wordBytes c
  entsizeSmall : ∀ e, ops.entsizeSmall e = true ↔ e.toNat < ops.size
  getOff : ∀ i e, ops.getOff i e = i * e
  setOff : ∀ i e, ops.setOff i e = i * e
  setSmall : ∀ e, ops.setSmall e = true ↔ e.toNat < ops.size
  setNodata : ∀ x, ops.setNodata x = x
  getOffset : ∀ v, v < 2 ^ (8 * wordBytes c) → (ops.getOffset v).toNat = v
  rSym : ∀ v, v < 2 ^ (8 * wordBytes c) → (ops.rSym (ops.getTmp v)).toNat = Spec.rSym c v
  rType : ∀ v, v < 2 ^ (8 * wordBytes c) → (ops.rType (ops.getTmp v)).toNat = Spec.rType c v
  getAddend : ∀ v, v < 2 ^ (8 * wordBytes c) →
    (ops.getAddend v).toInt = if ops.hasAddend then untwos (wordBytes c) v else 0
  setInfo : ∀ s t : BitVec 32,
    (if ops.setIs32 (classByte c) then ops.setInfo32 s t else ops.setInfo64 s t) % 2 ^ (8 * wordBytes c)
      = rInfo c s.toNat t.toNat % 2 ^ (8 * wordBytes c)
  setOffset : ∀ o : BitVec 64, ops.setOffset o % 2 ^ (8 * wordBytes c) = o.toNat % 2 ^ (8 * wordBytes c)
  setAddend : ∀ a : BitVec 64, ops.hasAddend = true →
    ops.setAddend a % 2 ^ (8 * wordBytes c) = twos (wordBytes c) a.toInt % 2 ^ (8 * wordBytes c)
  addOffset : ∀ o : BitVec 64, ops.addOffset o % 2 ^ (8 * wordBytes c) = o.toNat % 2 ^ (8 * wordBytes c)
  addInfo : ∀ i : BitVec 64, ops.addInfo i % 2 ^ (8 * wordBytes c) = i.toNat % 2 ^ (8 * wordBytes c)
  addAddend : ∀ a : BitVec 64, ops.hasAddend = true →
    ops.addAddend a % 2 ^ (8 * wordBytes c) = twos (wordBytes c) a.toInt % 2 ^ (8 * wordBytes c)
  addSize : ops.addSize.toNat = ops.size

/-- `ELF32_R_INFO((Elf_Xword)s, t)` and `ELF64_R_INFO((Elf_Xword)s, t)` as numbers -/
theorem pack32_toNat (s t : BitVec 32) : (reloc_addrel_pack32 s t).toNat = s.toNat * 256 + t.toNat % 256 := by
  have hs := s.isLt; have ht := t.isLt
  simp only [reloc_addrel_pack32, BitVec.toNat_add, BitVec.toNat_shiftLeft, BitVec.toNat_setWidth,
    Nat.shiftLeft_eq, Nat.reducePow] at *
  omega
theorem pack64_toNat (s t : BitVec 32) :
    (reloc_addrel_pack64 s t).toNat = s.toNat * 4294967296 + t.toNat % 4294967296 := by
  have hs := s.isLt; have ht := t.isLt
  simp only [reloc_addrel_pack64, and_mask32, BitVec.toNat_add, BitVec.toNat_shiftLeft, BitVec.toNat_setWidth,
    Nat.shiftLeft_eq, Nat.reducePow] at *
  omega

theorem toInt_twos4 (a : BitVec 64) : twos 4 a.toInt % 4294967296 = a.toNat % 4294967296 := by
  have ha := a.isLt
  simp only [twos, BitVec.toInt_eq_toNat_cond, Nat.reducePow, Nat.reduceMul] at *
  split <;> omega
theorem toInt_twos8 (a : BitVec 64) : twos 8 a.toInt = a.toNat := by
  have ha := a.isLt
  simp only [twos, BitVec.toInt_eq_toNat_cond, Nat.reducePow, Nat.reduceMul] at *
  split <;> omega

theorem toInt_untwos8 (x : BitVec 64) : x.toInt = untwos 8 x.toNat := by
  have hx := x.isLt
  simp only [untwos, BitVec.toInt_eq_toNat_cond, Nat.reducePow, Nat.reduceMul] at *
  rw [Nat.mod_eq_of_lt hx]
theorem toInt_untwos4 (x : BitVec 32) : x.toInt = untwos 4 x.toNat := by
  have hx := x.isLt
  simp only [untwos, BitVec.toInt_eq_toNat_cond, Nat.reducePow, Nat.reduceMul] at *
  rw [Nat.mod_eq_of_lt hx]

/-- normalise the BitVec expressions of the sites to `Nat` with numeral moduli -/
macro "reloc_nat" : tactic =>
  `(tactic| simp only [BitVec.ult, BitVec.toNat_add, BitVec.toNat_mul, BitVec.toNat_shiftLeft, BitVec.toNat_ushiftRight,
      BitVec.toNat_setWidth, BitVec.toNat_ofNat, Nat.shiftLeft_eq, Nat.shiftRight_eq_div_pow, and_mask32,
      Nat.reducePow, Nat.reduceMul, Nat.reduceMod, Nat.reduceAdd] at *)

theorem opsOk32rel : OpsOk .c32 .rel ops32rel where
  size := rfl
  size_pos := by decide
  offsetOff := rfl
  offsetW := rfl
  infoOff := rfl
  infoW := rfl
  hasAddend := rfl
  addendOff := by intro h; cases h
  addendW := by intro h; cases h
  entsizeSmall := by intro e; simp [ops32rel, reloc_getrel32_entsize_small, BitVec.ult, sizeof_Elf32_Rel]
  setSmall := by intro e; simp [ops32rel, reloc_setrel32_entsize_small, BitVec.ult, sizeof_Elf32_Rel]
  setNodata := by intro x; rfl
  getOff := by intro i e; rfl
  setOff := by intro i e; rfl
  getOffset := by
    intro v hv
    simp only [ops32rel, reloc_getrel32_offset, wordBytes] at *
    reloc_nat; omega
  rSym := by
    intro v hv
    simp only [ops32rel, reloc_getrel32_symbol, reloc_getrel32_tmp, rel32_r_sym, Spec.rSym, wordBytes] at *
    reloc_nat; omega
  rType := by
    intro v hv
    simp only [ops32rel, reloc_getrel32_type, reloc_getrel32_tmp, rel32_r_type, Spec.rType, wordBytes] at *
    reloc_nat; omega
  getAddend := by
    intro v hv
    have : (BitVec.signExtend 64 0#32 : BitVec 64) = 0#64 := by decide
    simp [ops32rel, reloc_getrel32_addend, this]
  setInfo := by
    intro s t
    have hs := s.isLt; have ht := t.isLt
    simp only [ops32rel, reloc_setrel32_is32, reloc_setrel32_info_c32, rInfo, wordBytes]
    have h32 : reloc_set_is32 (classByte .c32) = true := is32_c32.2.1
    simp only [reloc_set_is32] at h32
    simp only [h32, if_true]
    reloc_nat; omega
  setOffset := by
    intro o
    simp only [ops32rel, reloc_setrel32_offset, wordBytes] <;> (reloc_nat; omega)
  setAddend := by intro a h; cases h
  addOffset := by
    intro o
    simp only [ops32rel, reloc_addrel32_offset, wordBytes] <;> (reloc_nat; omega)
  addInfo := by
    intro i
    simp only [ops32rel, reloc_addrel32_info, wordBytes] <;> (reloc_nat; omega)
  addAddend := by intro a h; cases h
  addSize := by simp [ops32rel, reloc_addrel32_size, sizeof_Elf32_Rel]

theorem opsOk32rela : OpsOk .c32 .rela ops32rela where
  size := rfl
  size_pos := by decide
  offsetOff := rfl
  offsetW := rfl
  infoOff := rfl
  infoW := rfl
  hasAddend := rfl
  addendOff := by intro _; rfl
  addendW := by intro _; rfl
  entsizeSmall := by intro e; simp [ops32rela, reloc_getrela32_entsize_small, BitVec.ult, sizeof_Elf32_Rela]
  setSmall := by intro e; simp [ops32rela, reloc_setrela32_entsize_small, BitVec.ult, sizeof_Elf32_Rela]
  setNodata := by intro x; rfl
  getOff := by intro i e; rfl
  setOff := by intro i e; rfl
  getOffset := by
    intro v hv
    simp only [ops32rela, reloc_getrela32_offset, wordBytes] at *
    reloc_nat; omega
  rSym := by
    intro v hv
    simp only [ops32rela, reloc_getrela32_symbol, reloc_getrela32_tmp, rela32_r_sym, Spec.rSym, wordBytes] at *
    reloc_nat; omega
  rType := by
    intro v hv
    simp only [ops32rela, reloc_getrela32_type, reloc_getrela32_tmp, rela32_r_type, Spec.rType, wordBytes] at *
    reloc_nat; omega
  getAddend := by
    intro v hv
    simp only [ops32rela, reloc_getrela32_addend, if_true, wordBytes] at *
    rw [BitVec.toInt_signExtend_of_le (by decide), toInt_untwos4]
    simp only [BitVec.toNat_ofNat, Nat.reducePow, Nat.reduceMul] at *
    rw [Nat.mod_eq_of_lt hv]
  setInfo := by
    intro s t
    have hs := s.isLt; have ht := t.isLt
    simp only [ops32rela, reloc_setrela32_is32, reloc_setrela32_info_c32, rInfo, wordBytes]
    have h32 : reloc_set_is32 (classByte .c32) = true := is32_c32.2.1
    simp only [reloc_set_is32] at h32
    simp only [h32, if_true]
    reloc_nat; omega
  setOffset := by
    intro o
    simp only [ops32rela, reloc_setrela32_offset, wordBytes] <;> (reloc_nat; omega)
  setAddend := by
    intro a _
    simp only [ops32rela, reloc_setrela32_addend, wordBytes, Nat.reduceMul, Nat.reducePow]
    rw [toInt_twos4]; reloc_nat; omega
  addOffset := by
    intro o
    simp only [ops32rela, reloc_addrela32_offset, wordBytes] <;> (reloc_nat; omega)
  addInfo := by
    intro i
    simp only [ops32rela, reloc_addrela32_info, wordBytes] <;> (reloc_nat; omega)
  addAddend := by
    intro a _
    simp only [ops32rela, reloc_addrela32_addend, wordBytes, Nat.reduceMul, Nat.reducePow]
    rw [toInt_twos4]; reloc_nat; omega
  addSize := by simp [ops32rela, reloc_addrela32_size, sizeof_Elf32_Rela]

theorem opsOk64rel : OpsOk .c64 .rel ops64rel where
  size := rfl
  size_pos := by decide
  offsetOff := rfl
  offsetW := rfl
  infoOff := rfl
  infoW := rfl
  hasAddend := rfl
  addendOff := by intro h; cases h
  addendW := by intro h; cases h
  entsizeSmall := by intro e; simp [ops64rel, reloc_getrel64_entsize_small, BitVec.ult, sizeof_Elf64_Rel]
  setSmall := by intro e; simp [ops64rel, reloc_setrel64_entsize_small, BitVec.ult, sizeof_Elf64_Rel]
  setNodata := by intro x; rfl
  getOff := by intro i e; rfl
  setOff := by intro i e; rfl
  getOffset := by
    intro v hv
    simp only [ops64rel, reloc_getrel64_offset, wordBytes] at *
    reloc_nat; omega
  rSym := by
    intro v hv
    simp only [ops64rel, reloc_getrel64_symbol, reloc_getrel64_tmp, rel64_r_sym, Spec.rSym, wordBytes] at *
    reloc_nat; omega
  rType := by
    intro v hv
    simp only [ops64rel, reloc_getrel64_type, reloc_getrel64_tmp, rel64_r_type, Spec.rType, wordBytes] at *
    reloc_nat; omega
  getAddend := by
    intro v hv
    have : (BitVec.signExtend 64 0#32 : BitVec 64) = 0#64 := by decide
    simp [ops64rel, reloc_getrel64_addend, this]
  setInfo := by
    intro s t
    have hs := s.isLt; have ht := t.isLt
    simp only [ops64rel, reloc_setrel64_is32, reloc_setrel64_info_c64, rInfo, wordBytes]
    have h32 : reloc_set_is32 (classByte .c64) = false := is32_c64.2.1
    simp only [reloc_set_is32] at h32
    simp only [h32, Bool.false_eq_true, if_false]
    reloc_nat; omega
  setOffset := by
    intro o
    simp only [ops64rel, reloc_setrel64_offset, wordBytes] <;> (reloc_nat; omega)
  setAddend := by intro a h; cases h
  addOffset := by
    intro o
    simp only [ops64rel, reloc_addrel64_offset, wordBytes] <;> (reloc_nat; omega)
  addInfo := by
    intro i
    simp only [ops64rel, reloc_addrel64_info, wordBytes] <;> (reloc_nat; omega)
  addAddend := by intro a h; cases h
  addSize := by simp [ops64rel, reloc_addrel64_size, sizeof_Elf64_Rel]

theorem opsOk64rela : OpsOk .c64 .rela ops64rela where
  size := rfl
  size_pos := by decide
  offsetOff := rfl
  offsetW := rfl
  infoOff := rfl
  infoW := rfl
  hasAddend := rfl
  addendOff := by intro _; rfl
  addendW := by intro _; rfl
  entsizeSmall := by intro e; simp [ops64rela, reloc_getrela64_entsize_small, BitVec.ult, sizeof_Elf64_Rela]
  setSmall := by intro e; simp [ops64rela, reloc_setrela64_entsize_small, BitVec.ult, sizeof_Elf64_Rela]
  setNodata := by intro x; rfl
  getOff := by intro i e; rfl
  setOff := by intro i e; rfl
  getOffset := by
    intro v hv
    simp only [ops64rela, reloc_getrela64_offset, wordBytes] at *
    reloc_nat; omega
  rSym := by
    intro v hv
    simp only [ops64rela, reloc_getrela64_symbol, reloc_getrela64_tmp, rela64_r_sym, Spec.rSym, wordBytes] at *
    reloc_nat; omega
  rType := by
    intro v hv
    simp only [ops64rela, reloc_getrela64_type, reloc_getrela64_tmp, rela64_r_type, Spec.rType, wordBytes] at *
    reloc_nat; omega
  getAddend := by
    intro v hv
    simp only [ops64rela, reloc_getrela64_addend, if_true, wordBytes] at *
    rw [toInt_untwos8]
    simp only [BitVec.toNat_ofNat, Nat.reducePow, Nat.reduceMul] at *
    rw [Nat.mod_eq_of_lt hv]
  setInfo := by
    intro s t
    have hs := s.isLt; have ht := t.isLt
    simp only [ops64rela, reloc_setrela64_is32, reloc_setrela64_info_c64, rInfo, wordBytes]
    have h32 : reloc_set_is32 (classByte .c64) = false := is32_c64.2.1
    simp only [reloc_set_is32] at h32
    simp only [h32, Bool.false_eq_true, if_false]
    reloc_nat; omega
  setOffset := by
    intro o
    simp only [ops64rela, reloc_setrela64_offset, wordBytes] <;> (reloc_nat; omega)
  setAddend := by
    intro a _
    simp only [ops64rela, reloc_setrela64_addend, wordBytes, Nat.reduceMul, Nat.reducePow]
    rw [toInt_twos8]
  addOffset := by
    intro o
    simp only [ops64rela, reloc_addrela64_offset, wordBytes] <;> (reloc_nat; omega)
  addInfo := by
    intro i
    simp only [ops64rela, reloc_addrela64_info, wordBytes] <;> (reloc_nat; omega)
  addAddend := by
    intro a _
    simp only [ops64rela, reloc_addrela64_addend, wordBytes, Nat.reduceMul, Nat.reducePow]
    rw [toInt_twos8]
  addSize := by simp [ops64rela, reloc_addrela64_size, sizeof_Elf64_Rela]

theorem opsOk : ∀ c k, OpsOk c k (opsOf c k)
  | .c32, .rel => opsOk32rel
  | .c32, .rela => opsOk32rela
  | .c64, .rel => opsOk64rel
  | .c64, .rela => opsOk64rela

/-- `add_entry(offset, symbol, type)` on a REL table, `add_entry(offset, symbol, type, addend)` on a RELA table -/
def addEntry (k : RelKind) (enc : Enc) (b : SecBuf) (e : Entry) : M SecBuf :=
  match k with
  | .rel => addRel enc b e.offset e.symbol e.type
  | .rela => addRela enc b e.offset e.symbol e.type e.addend

/-- any sequence of such calls -/
def addEntries (k : RelKind) (enc : Enc) (b : SecBuf) : List Entry → M SecBuf
  | [] => pure b
  | e :: es => do let b' ← addEntry k enc b e; addEntries k enc b' es

theorem wordBytes_cases (c : Cls) : wordBytes c = 4 ∨ wordBytes c = 8 := by cases c <;> simp [wordBytes]

end Reloc

/-! ### more byte-string facts: full overwrite, tables of equal-sized chunks -/

theorem wr_full (a x : Bytes) (h : x.length = a.length) : wr a 0 x = x := by
  unfold wr; simp [h]

theorem wr_append_right (xs ys x : Bytes) (off : Nat) (h : xs.length ≤ off) (h2 : off + x.length ≤ (xs ++ ys).length) :
    wr (xs ++ ys) off x = xs ++ wr ys (off - xs.length) x := by
  have h3 : off - xs.length + x.length ≤ ys.length := by simp at h2; omega
  apply List.ext_getElem?
  intro i
  rw [wr_getElem? _ _ _ _ h2]
  simp only [List.getElem?_append]
  rw [wr_getElem? _ _ _ _ h3]
  ite_omega

theorem wr_append_left (xs ys x : Bytes) (off : Nat) (h : off + x.length ≤ xs.length) :
    wr (xs ++ ys) off x = wr xs off x ++ ys := by
  apply List.ext_getElem?
  intro i
  rw [wr_getElem? _ _ _ _ (by simp; omega)]
  simp only [List.getElem?_append]
  rw [wr_getElem? _ _ _ _ h, wr_length _ _ _ h]
  ite_omega

section chunks
variable {α : Type} (f : α → Bytes) (S : Nat) (hf : ∀ x, (f x).length = S)
include hf

theorem flatMap_length (es : List α) : (es.flatMap f).length = es.length * S := by
  induction es with
  | nil => simp
  | cons e es ih => simp only [List.flatMap_cons, List.length_append, hf, ih, List.length_cons, Nat.succ_mul]; omega

theorem slice_flatMap (es : List α) (i : Nat) (h : i < es.length) :
    slice (es.flatMap f) (i * S) S = f es[i] := by
  induction es generalizing i with
  | nil => simp at h
  | cons e es ih =>
    simp only [List.flatMap_cons]
    cases i with
    | zero =>
      rw [slice_append_left _ _ _ _ (by simp [hf])]
      simp only [Nat.zero_mul, List.getElem_cons_zero]
      have := slice_all (f e); rw [hf] at this; exact this
    | succ j =>
      rw [slice_append_right _ _ _ _ (by rw [hf, Nat.succ_mul]; omega)]
      have : (j + 1) * S - (f e).length = j * S := by rw [hf, Nat.succ_mul]; omega
      rw [this]
      simp only [List.getElem_cons_succ]
      exact ih j (by simpa using h)

theorem wr_flatMap (es : List α) (i : Nat) (h : i < es.length) (x : α) :
    wr (es.flatMap f) (i * S) (f x) = (es.set i x).flatMap f := by
  induction es generalizing i with
  | nil => simp at h
  | cons e es ih =>
    simp only [List.flatMap_cons]
    cases i with
    | zero =>
      simp only [Nat.zero_mul, List.set_cons_zero, List.flatMap_cons]
      rw [wr_append_left _ _ _ _ (by simp [hf]), wr_full _ _ (by simp [hf])]
    | succ j =>
      simp only [List.set_cons_succ, List.flatMap_cons]
      have hl := flatMap_length f S hf es
      have hj : j < es.length := by simpa using h
      have hjS : j * S + S ≤ es.length * S := by
        have : (j + 1) * S ≤ es.length * S := Nat.mul_le_mul_right S hj
        rw [Nat.succ_mul] at this; exact this
      rw [wr_append_right _ _ _ _ (by rw [hf, Nat.succ_mul]; omega)
        (by simp only [List.length_append, hf, hl, Nat.succ_mul]; omega)]
      have : (j + 1) * S - (f e).length = j * S := by rw [hf, Nat.succ_mul]; omega
      rw [this, ih j hj]

end chunks

end ElfioVerif
