/-
Nested segments, continued: the *file size* of a nested segment is exact.

`Lemmas/LayoutNested.lean` shows that every member of a nested segment lies inside the segment's file
range (`sh_offset + sh_size ≤ p_offset + p_filesz`).  For the composition save ∘ load (the segment's
file range must end inside the file) the converse bound is needed: the running file size of
`write_segment_data` over a nested segment is, after every step, either what it was or exactly the
distance from the segment start to the end of the file-occupying member just counted
(`wsd_gap_generated = (sec_offset − seg_start_pos) − segment_filesize`, so
`seg_start_pos + segment_filesize' = sec_offset + sec_size`).  Hence `p_offset + p_filesz` of a nested
segment is 0-sized or the end of one of its members (`final_nested_file`).
-/
import ElfioVerif.Lemmas.LayoutNested
namespace ElfioVerif
open Gen

/-- one member of a nested segment: the running file size stays, or ends exactly at the member's end -/
theorem wsdStep_nested_file (c : Cls) (g : Seg) (ss : BitVec 64) (st st' : WsdSt) (idx : BitVec 16)
    (hfm : st.file.toNat ≤ st.mem.toNat)
    (hdom : wsdStepDom c g ss st idx = true) (hnest : wsdStepNested ss st idx = true)
    (h : wsdStep c g ss st idx = .ok (some st')) :
    st'.file = st.file ∨
    ∃ sec, st.lay.secs[idx.toNat]? = some sec ∧ wsd_is_null sec.stype = false ∧ wsd_counts_file sec.stype = true ∧
      ss.toNat + st'.file.toNat = sec.offset.toNat + sec.size.toNat := by
  obtain ⟨sec, generated, hsec, hgen, hcases⟩ := wsdStep_cases c g ss st st' idx h
  unfold wsdStepNested at hnest
  unfold wsdStepDom at hdom
  rw [hsec, hgen] at hnest hdom
  cases generated with
  | false => exact absurd hnest (by simp)
  | true =>
    simp only [Bool.or_eq_true, decide_eq_true_eq] at hnest
    rcases hcases with ⟨hnull, rfl⟩ | ⟨hnull, gap, hgap, hrest⟩
    · exact Or.inl rfl
    · rcases hrest with ⟨-, rfl⟩ | ⟨hf, -⟩
      · have hord : ss.toNat + st.file.toNat ≤ sec.offset.toNat := by
          rcases hnest with hn | hn
          · rw [hnull] at hn; cases hn
          · exact hn
        rw [wsdGap_generated] at hgap
        simp only [Option.some.injEq] at hgap
        subst hgap
        simp only [hnull, Bool.false_eq_true, if_false, wsdGap_generated, Bool.and_eq_true, decide_eq_true_eq,
          Bool.true_or] at hdom
        obtain ⟨⟨hcm, hmw⟩, -⟩ := hdom
        have hg := wsd_gap_generated_toNat sec.offset ss st.file hord
        rw [hg] at hmw
        by_cases hcf : wsd_counts_file sec.stype = true
        · right
          refine ⟨sec, hsec, hnull, hcf, ?_⟩
          simp only [hcf, if_true]
          have hfile := wsd_file_add_toNat st.file st.mem sec.size _ hfm (by rw [hg]; exact hmw)
          rw [hfile, hg]; omega
        · left
          have hcf' : wsd_counts_file sec.stype = false := by simpa using hcf
          simp only [hcf', Bool.false_eq_true, if_false]
      · cases hf

/-- `write_segment_data` over a nested segment: the final file size is the initial one, or ends exactly
    at the end of a file-occupying member -/
theorem wsdLoop_nested_file (c : Cls) (g : Seg) (ss : BitVec 64) (l : List (BitVec 16)) (st st' : WsdSt)
    (hfm : st.file.toNat ≤ st.mem.toNat)
    (hdom : wsdLoopAll (wsdStepDom c g ss) c g ss l st = true)
    (hnest : wsdLoopAll (fun st idx => wsdStepNested ss st idx) c g ss l st = true)
    (h : wsdLoop c g ss l st = .ok (some st')) :
    st'.file = st.file ∨
    ∃ idx ∈ l, ∃ sec, st.lay.secs[idx.toNat]? = some sec ∧ wsd_is_null sec.stype = false ∧
      wsd_counts_file sec.stype = true ∧ ss.toNat + st'.file.toNat = sec.offset.toNat + sec.size.toNat := by
  induction l generalizing st with
  | nil =>
    simp only [wsdLoop, pure, Except.pure, Except.ok.injEq, Option.some.injEq] at h
    subst h
    exact Or.inl rfl
  | cons i rest ih =>
    unfold wsdLoop at h
    unfold wsdLoopAll at hdom hnest
    cases hs : wsdStep c g ss st i with
    | error e => rw [hs] at h; simp [bind, Except.bind] at h
    | ok r =>
      rw [hs] at h hdom hnest
      cases r with
      | none => simp [bind, Except.bind, pure, Except.pure] at h
      | some st1 =>
        simp only [bind, Except.bind, Bool.and_eq_true] at h hdom hnest
        obtain ⟨e1, fm1, -, -, -⟩ := wsdStep_nested c g ss st st1 i hfm hdom.1 hnest.1 hs
        have k1 := wsdStep_nested_file c g ss st st1 i hfm hdom.1 hnest.1 hs
        rcases ih st1 fm1 hdom.2 hnest.2 h with k2 | ⟨idx, hm, sec, hsec, a1, a2, a3⟩
        · rcases k1 with k1 | ⟨sec, hsec, a1, a2, a3⟩
          · exact Or.inl (k2.trans k1)
          · exact Or.inr ⟨i, List.mem_cons_self, sec, hsec, a1, a2, by rw [k2]; exact a3⟩
        · rw [e1] at hsec
          exact Or.inr ⟨idx, List.mem_cons_of_mem _ hm, sec, hsec, a1, a2, a3⟩

/-- one nested segment: its file size is 0 or its file range ends exactly at the end of one of its
    members (which is neither SHT_NULL- nor SHT_NOBITS-typed) -/
theorem layoutSegment_nested_file (c : Cls) (hdrPhoff : BitVec 64) (phentsize phnum : BitVec 16)
    (lay lay' : Layout) (g g' : Seg)
    (hnw : segNW c hdrPhoff phentsize phnum lay g = true)
    (hdom : segDom false false c hdrPhoff phentsize phnum lay g = true)
    (hns : segNestedB c hdrPhoff phentsize phnum lay g = true)
    (h : layoutSegment c hdrPhoff phentsize phnum lay g = .ok (some (lay', g'))) :
    g'.filesz.toNat = 0 ∨
    ∃ idx ∈ g.secs, ∃ sec, lay.secs[idx.toNat]? = some sec ∧ sec.stype ≠ BitVec.ofNat 32 SHT_NULL ∧
      sec.stype ≠ BitVec.ofNat 32 SHT_NOBITS ∧ g'.offset.toNat + g'.filesz.toNat = sec.endN := by
  obtain ⟨fg, r, st, hfg, hin, hloop, rfl, rfl⟩ := layoutSegment_parts c hdrPhoff phentsize phnum lay lay' g g' h
  unfold segNestedB at hns
  simp only [Bool.and_eq_true] at hns
  obtain ⟨hstart, hall⟩ := hns
  unfold segNW at hnw
  unfold segDom at hdom
  rw [hfg] at hnw hdom hall
  simp only at hnw hdom hall
  rw [hin] at hnw hdom hall
  simp only [hloop, Bool.and_eq_true, decide_eq_true_eq, Bool.or_eq_true, Bool.not_eq_true'] at hnw hdom hall
  obtain ⟨⟨-, hsfit⟩, -⟩ := hnw
  obtain ⟨⟨⟨hd1, -⟩, -⟩, hmfit⟩ := hdom
  have hsz := segInit_sizes c hdrPhoff phentsize phnum lay g fg r hin
  -- in the nested-start branch the state is untouched and the counters start at 0
  have hr1 : r.1 = lay ∧ r.2.2.2 = 0 := by
    unfold segNestedStartB at hstart
    simp only [Bool.and_eq_true, Bool.not_eq_true'] at hstart
    obtain ⟨⟨h1, h2⟩, h3⟩ := hstart
    cases hh : g.secs.head? with
    | none => rw [hh] at h3; exact nomatch h3
    | some f =>
      rw [hh] at h3
      have hgen : lay.gen[f.toNat]? = some true := by simpa using h3
      have hlen : g.secs.length > 0 := by
        cases hs : g.secs with
        | nil => rw [hs] at hh; exact nomatch hh
        | cons a b => simp
      have hfg' : fg = true := by
        unfold segFirstGen at hfg
        rw [hh] at hfg; simp only at hfg; rw [hgen] at hfg
        simp only [pure, Except.pure, Except.ok.injEq] at hfg
        exact hfg.symm
      subst hfg'
      unfold segInit at hin
      simp only [h1, h2, Bool.false_eq_true, if_false, hlen, decide_true, Bool.not_true, Bool.and_false,
        if_true, hh] at hin
      cases hs : lay.secs[f.toNat]? with
      | none => rw [hs] at hin; simp [throw, throwThe, MonadExceptOf.throw] at hin
      | some s =>
        rw [hs] at hin
        simp only [pure, Except.pure, Except.ok.injEq] at hin
        rw [← hin]
        exact ⟨rfl, rfl⟩
  have hfm0 : (r.2.2.2).toNat ≤ (r.2.2.1).toNat := by rw [hsz]; exact Nat.le_refl _
  obtain ⟨-, fm, -, -, -⟩ := wsdLoop_nested c g r.2.1 g.secs _ st hfm0 hd1 hall hloop
  have key := wsdLoop_nested_file c g r.2.1 g.secs _ st hfm0 hd1 hall hloop
  simp only at key
  obtain ⟨hoff, hfs, -, -, -, -, -, -⟩ := segFinish_fields c g r.2.1 st
  have hffit : fitsB c st.file = true := fitsB_mono c _ _ fm hmfit
  rw [hoff, hfs, truncA_of_fits c _ hsfit, truncA_of_fits c _ hffit]
  rcases key with k | ⟨idx, hm, sec, hsec, a1, a2, a3⟩
  · left; rw [k, hr1.2]; rfl
  · right
    rw [hr1.1] at hsec
    refine ⟨idx, hm, sec, hsec, ?_, ?_, ?_⟩
    · intro e
      simp only [wsd_is_null, beq_eq_false_iff_ne, ne_eq] at a1
      exact a1 e.symm
    · intro e
      simp only [wsd_counts_file, bne_iff_ne, ne_eq] at a2
      exact a2 e.symm
    · unfold SecBuf.endN; exact a3

/-- the nested, selected segments of the final object: the file range is empty or ends exactly at the
    end of a member that is neither SHT_NULL- nor SHT_NOBITS-typed -/
theorem final_nested_file (o : Obj) (h : Bytes) (res : LayoutRes) (hl : layoutOf o h = .ok (some res))
    (hnw : layoutNW o h = true) (hn : o.secs.length < 65536)
    (h0 : ∀ (i : Nat) (s : SecBuf), o.secs[i]? = some s → s.Occ → s.index ≠ 0)
    (hnd : (o.segs.map (·.index)).Nodup) (sel : Nat → Bool)
    (hnest : layoutNestedB sel o h = true)
    (g' : Seg) (hg : g' ∈ res.segs) (hsel : sel g'.index = true) :
    g'.filesz.toNat = 0 ∨
    ∃ idx ∈ g'.secs, ∃ s, res.secs[idx.toNat]? = some s ∧ s.stype ≠ BitVec.ofNat 32 SHT_NULL ∧
      s.stype ≠ BitVec.ofNat 32 SHT_NOBITS ∧ g'.offset.toNat + g'.filesz.toNat = s.endN := by
  obtain ⟨t, ht, rfl⟩ := final_segs_turn o h res hl hnw hn h0 hnd g' hg
  obtain ⟨-, -, e3⟩ := layoutOf_trace o h res hl hnw hn h0
  obtain ⟨f1, f2, f3, f4, f5, f6⟩ := e3 t ht
  obtain ⟨hmarks, hsecs, hidx, -, -, -⟩ := layoutSegment_marks _ _ _ _ _ _ _ _ _ f3 f2 f1
  unfold layoutNestedB at hnest
  rw [hl] at hnest
  simp only at hnest
  have hturn := segsAllB_trace _ _ _ _ _ _ _ hnest t ht
  rw [hidx] at hsel
  simp only [hsel, Bool.not_true, Bool.false_or, Bool.and_eq_true] at hturn
  obtain ⟨elay, key⟩ := layoutSegment_nested _ _ _ _ t.lay t.lay' t.g t.g' f2 hturn.1 hturn.2 f1
  rcases layoutSegment_nested_file _ _ _ _ t.lay t.lay' t.g t.g' f2 hturn.1 hturn.2 f1 with k | ⟨idx, hidm, sec, hsec, a1, a2, a3⟩
  · exact Or.inl k
  · right
    obtain ⟨sec', hsec', hgen, -⟩ := key idx hidm
    rw [hsec] at hsec'; cases hsec'
    have hw := withoutSegment_false_of_mem res.segs t.g' hg idx (by rw [hsecs]; exact hidm)
    -- the final section at this position is the one of the turn
    have hlt : idx.toNat < res.secs.length := by
      have hl2 := layout_length o h res hl hnw hn h0
      have hl3 : t.lay.secs.length = o.secs.length := f4.len
      have : idx.toNat < t.lay.secs.length := by
        rcases Nat.lt_or_ge idx.toNat t.lay.secs.length with h' | h'
        · exact h'
        · rw [List.getElem?_eq_none h'] at hsec; cases hsec
      omega
    have hs := List.getElem?_eq_getElem hlt
    have hs' := final_of_turn o h res hl hnw t f5 idx.toNat _ hs hw (by rw [elay]; exact hgen)
    rw [elay, hsec] at hs'
    simp only [Option.some.injEq] at hs'
    refine ⟨idx, by rw [hsecs]; exact hidm, res.secs[idx.toNat], hs, ?_, ?_, ?_⟩
    · rw [← hs']; exact a1
    · rw [← hs']; exact a2
    · rw [← hs']; exact a3

end ElfioVerif
