/-
Helper lemmas for C13: the generated guards / offsets of elfio_note.hpp (Gen/SitesC13.lean) as Nat
facts, and the list identities for reading a note out of a byte string.
-/
import ElfioVerif.Model.Note
import ElfioVerif.Spec.Note
import ElfioVerif.Lemmas.SecBuf
namespace ElfioVerif
open Gen

/-! ### the generated expressions as arithmetic -/

theorem walk_align_eq : note_walk_align = 4#32 := by decide
theorem get_align_eq : note_get_align = 4#32 := by decide
theorem add_align_eq : note_add_align = 4#32 := by decide

/-! ### bridging lemmas for the remaining generated expressions the model calls -/
namespace NoteTie
theorem walk_start : note_walk_start = 0 := by decide
theorem descsz_len : (note_add_descsz_len note_add_align).toNat = 4 := by decide
theorem type_len : (note_add_type_len note_add_align).toNat = 4 := by decide
theorem nul_bytes : List.replicate note_add_nul_count.toNat (UInt8.ofBitVec note_add_nul_char) = [0] := by decide
theorem desc_len (d : BitVec 32) : (note_add_desc_len d).toNat = d.toNat := by
  have := d.isLt
  simp only [note_add_desc_len, BitVec.toNat_setWidth, Nat.reducePow] at *
  omega
theorem add_start (s : BitVec 64) : note_add_start s = s := rfl
end NoteTie

/-- the alignment rounding as the code computes it: `(x + align - 1) / align * align` with a
    32-bit `x + align - 1` -/
def r4 (x : Nat) : Nat := (x + 3) % 4294967296 / 4 * 4

theorem r4_lt (x : Nat) : r4 x < 4294967296 := by unfold r4; omega

/-- without the 32-bit wrap the rounding is the ABI's -/
theorem r4_eq_up4 {x : Nat} (h : x + 3 < 4294967296) : r4 x = Spec.up4 x := by
  unfold r4; rw [Spec.up4_eq, Nat.mod_eq_of_lt h]

theorem le_up4 (x : Nat) : x ≤ Spec.up4 x := by unfold Spec.up4; omega

/-- `((x + align - 1) / align) * (Elf_Xword)align` with `align = 4` -/
theorem round_toNat (n : BitVec 32) :
    ((BitVec.setWidth 64 (((n + 4#32) - 1#32) / 4#32)) * 4#64).toNat = r4 n.toNat := by
  have hn := n.isLt
  have h1 : ((n + 4#32) - 1#32).toNat = (n.toNat + 3) % 4294967296 := by
    simp only [BitVec.toNat_add, BitVec.toNat_sub, BitVec.toNat_ofNat, Nat.reducePow, Nat.reduceMod] at *
    omega
  have h2 : ((BitVec.setWidth 64 (((n + 4#32) - 1#32) / 4#32))).toNat = (n.toNat + 3) % 4294967296 / 4 := by
    rw [BitVec.toNat_setWidth, BitVec.toNat_udiv, h1]
    simp only [BitVec.toNat_ofNat, Nat.reducePow, Nat.reduceMod]
    omega
  rw [BitVec.toNat_mul, h2]
  simp only [BitVec.toNat_ofNat, Nat.reducePow, Nat.reduceMod]
  unfold r4
  omega

theorem walk_cond_eq (cur size : BitVec 64) (h : cur.toNat + 12 < 18446744073709551616) :
    note_walk_cond cur 4#32 size = decide (cur.toNat + 12 ≤ size.toNat) := by
  unfold note_walk_cond
  have : (BitVec.signExtend 64 3#32) * (BitVec.setWidth 64 4#32) = 12#64 := by decide
  rw [this]
  simp only [BitVec.ule, BitVec.toNat_add, BitVec.toNat_ofNat, Nat.reducePow, Nat.reduceMod]
  congr 1
  rw [Nat.mod_eq_of_lt h]

theorem walk_advance_toNat (n d : BitVec 32) :
    (note_walk_advance n 4#32 d).toNat = 12 + r4 n.toNat + r4 d.toNat := by
  unfold note_walk_advance
  have h3 : (BitVec.signExtend 64 3#32) * 4#64 = 12#64 := by decide
  have h4 : BitVec.setWidth 64 4#32 = 4#64 := by decide
  rw [h3, h4]
  have a := r4_lt n.toNat; have b := r4_lt d.toNat
  rw [BitVec.toNat_add, BitVec.toNat_add, round_toNat, round_toNat]
  simp only [BitVec.toNat_ofNat, Nat.reducePow, Nat.reduceMod]
  omega

theorem walk_accept_eq (n d : BitVec 32) (size cur adv : BitVec 64)
    (h : cur.toNat + adv.toNat < 18446744073709551616) :
    note_walk_accept n size d cur adv =
      decide (n.toNat < size.toNat ∧ d.toNat < size.toNat ∧ cur.toNat + adv.toNat ≤ size.toNat) := by
  unfold note_walk_accept
  have hn := n.isLt; have hd := d.isLt
  simp only [BitVec.ult, BitVec.ule, BitVec.toNat_add, BitVec.toNat_setWidth, Nat.reducePow] at *
  simp only [Nat.mod_eq_of_lt h, Nat.mod_eq_of_lt (by omega : n.toNat < 18446744073709551616),
    Nat.mod_eq_of_lt (by omega : d.toNat < 18446744073709551616), Bool.decide_and, Bool.and_assoc]

theorem walk_next_toNat (cur adv : BitVec 64) (h : cur.toNat + adv.toNat < 18446744073709551616) :
    (note_walk_next cur adv).toNat = cur.toNat + adv.toNat := by
  unfold note_walk_next
  rw [BitVec.toNat_add]
  simp only [Nat.reducePow]
  exact Nat.mod_eq_of_lt h

theorem walk_empty_eq (isNone : Bool) (size : BitVec 64) :
    note_walk_empty isNone size = (isNone || decide (size.toNat = 0)) := by
  unfold note_walk_empty
  have : BitVec.signExtend 64 0#32 = 0#64 := by decide
  rw [this]
  have e : (0#64 == size) = decide (size.toNat = 0) := by
    by_cases h : size = 0#64
    · subst h; rfl
    · have h' : size.toNat ≠ 0 := fun e => h (BitVec.eq_of_toNat_eq (by simpa using e))
      simp [h']; exact fun e => h e.symm
  cases isNone <;> simp [e]

theorem get_gate_eq (index : BitVec 32) (len : Nat) (h : len < 18446744073709551616) :
    note_get_gate index (BitVec.ofNat 64 len) = decide (len ≤ index.toNat) := by
  unfold note_get_gate
  have hi := index.isLt
  simp only [BitVec.ule, BitVec.toNat_setWidth, BitVec.toNat_ofNat, Nat.reducePow] at *
  simp only [Nat.mod_eq_of_lt h, Nat.mod_eq_of_lt (by omega : index.toNat < 18446744073709551616)]

theorem get_type_off_eq : (note_get_type_off 4#32).toNat = 8 := by decide
theorem get_namesz_off_eq : note_get_namesz_off.toNat = 0 := by decide
theorem get_descsz_off_eq : note_get_descsz_off.toNat = 4 := by decide
theorem get_name_off_eq : (note_get_name_off 4#32).toNat = 12 := by decide

theorem get_desc_off_toNat (n : BitVec 32) : (note_get_desc_off 4#32 n).toNat = 12 + r4 n.toNat := by
  unfold note_get_desc_off
  have h3 : (BitVec.signExtend 64 3#32) * (BitVec.signExtend 64 4#32) = 12#64 := by decide
  have h4 : BitVec.signExtend 64 4#32 = 4#64 := by decide
  rw [h3, h4]
  have a := r4_lt n.toNat
  rw [BitVec.toNat_add, round_toNat]
  simp only [BitVec.toNat_ofNat, Nat.reducePow, Nat.reduceMod]
  omega

theorem get_max_toNat (size p : BitVec 64) (h : p.toNat ≤ size.toNat) :
    (note_get_max size p).toNat = size.toNat - p.toNat := by
  unfold note_get_max
  have := size.isLt; have := p.isLt
  rw [BitVec.toNat_sub]
  simp only [Nat.reducePow] at *
  omega

theorem get_reject_eq (n d : BitVec 32) (m : BitVec 64) :
    note_get_reject n m d = decide (n.toNat < 1 ∨ m.toNat < n.toNat ∨ m.toNat < n.toNat + d.toNat) := by
  unfold note_get_reject
  have hn := n.isLt; have hd := d.isLt
  simp only [BitVec.ult, BitVec.toNat_add, BitVec.toNat_setWidth, BitVec.toNat_ofNat, Nat.reducePow,
    Nat.reduceMod] at *
  simp only [Nat.mod_eq_of_lt (by omega : n.toNat < 18446744073709551616),
    Nat.mod_eq_of_lt (by omega : d.toNat < 18446744073709551616),
    Nat.mod_eq_of_lt (by omega : n.toNat + d.toNat < 18446744073709551616), Bool.decide_or, Bool.or_assoc]

theorem get_name_len_toNat (n : BitVec 32) (h : 1 ≤ n.toNat) :
    (note_get_name_len n).toNat = n.toNat - 1 := by
  unfold note_get_name_len
  have hn := n.isLt
  rw [BitVec.toNat_setWidth, BitVec.toNat_sub]
  simp only [BitVec.toNat_ofNat, Nat.reducePow, Nat.reduceMod] at *
  omega

theorem get_desc_null_eq (d : BitVec 32) : note_get_desc_null d = decide (d.toNat = 0) := by
  unfold note_get_desc_null
  have hd := d.isLt
  by_cases h : d = 0#32
  · subst h; rfl
  · have : d.toNat ≠ 0 := fun e => h (BitVec.eq_of_toNat_eq (by simpa using e))
    simp [this]; exact fun e => h e.symm

theorem pdata_off_eq (p : BitVec 64) : note_get_pdata_off p = p := rfl

/-! ### slices -/

theorem slice_append_left_note {A R : Bytes} {off len : Nat} (h : off + len ≤ A.length) :
    slice (A ++ R) off len = slice A off len := by
  unfold slice
  apply List.ext_getElem?
  intro i
  simp only [List.getElem?_take, List.getElem?_drop, List.getElem?_append]
  ite_omega

theorem slice_append_right_note (A R : Bytes) (k len : Nat) :
    slice (A ++ R) (A.length + k) len = slice R k len := by
  unfold slice
  rw [List.drop_append, List.drop_eq_nil_of_le (by omega)]
  simp

theorem slice_self (A : Bytes) : slice A 0 A.length = A := by simp [slice]

theorem slice_slice_note {a X : Bytes} {p L : Nat} (h : slice a p L = X) {off len : Nat}
    (hl : off + len ≤ X.length) : slice a (p + off) len = slice X off len := by
  subst h
  unfold slice at *
  apply List.ext_getElem?
  intro i
  simp only [List.length_take, List.length_drop] at hl
  simp only [List.getElem?_take, List.getElem?_drop]
  split
  · rw [if_pos (by omega)]; congr 1; omega
  · rfl

theorem slice_length_eq {a X : Bytes} {p L : Nat} (h : slice a p L = X) (hL : X.length = L) (h0 : 0 < L) :
    p + L ≤ a.length := by
  have := congrArg List.length h
  simp only [slice_length] at this
  omega


theorem slice_append_right' {A : Bytes} {m : Nat} (hA : A.length = m) (R : Bytes) (k len : Nat) :
    slice (A ++ R) (m + k) len = slice R k len := by
  subst hA; exact slice_append_right_note A R k len

theorem slice_prefix {A : Bytes} {m : Nat} (hA : A.length = m) (R : Bytes) : slice (A ++ R) 0 m = A := by
  subst hA; simp [slice]

/-! ### `add_note` sites -/

theorem add_namelen_toNat (len : Nat) (h : len + 1 < 4294967296) :
    (note_add_namelen (BitVec.ofNat 64 len)).toNat = len + 1 := by
  unfold note_add_namelen
  simp only [BitVec.toNat_add, BitVec.toNat_setWidth, BitVec.toNat_ofNat, Nat.reducePow, Nat.reduceMod]
  omega

theorem add_name_unaligned_eq (x : BitVec 32) :
    note_add_name_unaligned x 4#32 = decide (x.toNat % 4 ≠ 0) := by
  unfold note_add_name_unaligned
  by_cases h : x % 4#32 = 0#32
  · have : x.toNat % 4 = 0 := by
      have := congrArg BitVec.toNat h
      simpa [BitVec.toNat_umod] using this
    simp [h, this]
  · have : x.toNat % 4 ≠ 0 := fun e => h (BitVec.eq_of_toNat_eq (by simpa [BitVec.toNat_umod] using e))
    simp [h, this]

theorem add_name_pad_toNat (x : BitVec 32) : (note_add_name_pad 4#32 x).toNat = 4 - x.toNat % 4 := by
  unfold note_add_name_pad
  have h4 : BitVec.signExtend 64 4#32 = 4#64 := by decide
  rw [h4, BitVec.toNat_sub, BitVec.toNat_setWidth, BitVec.toNat_umod]
  simp only [BitVec.toNat_ofNat, Nat.reducePow, Nat.reduceMod]
  omega

theorem add_desc_unaligned_eq (x : BitVec 32) :
    note_add_desc_unaligned x 4#32 = decide (x.toNat % 4 ≠ 0) := add_name_unaligned_eq x

theorem add_desc_pad_toNat (x : BitVec 32) : (note_add_desc_pad 4#32 x).toNat = 4 - x.toNat % 4 :=
  add_name_pad_toNat x

theorem add_has_desc_eq (isNone : Bool) (d : BitVec 32) :
    note_add_has_desc isNone d = (!isNone && decide (d.toNat ≠ 0)) := by
  unfold note_add_has_desc
  by_cases h : d = 0#32
  · subst h; simp
  · have : d.toNat ≠ 0 := fun e => h (BitVec.eq_of_toNat_eq (by simpa using e))
    simp [h, this]

theorem padBytes_ok (site : String) (n : BitVec 64) (h : n.toNat ≤ 4) :
    Note.padBytes site n = .ok (List.replicate n.toNat 0) := by
  unfold Note.padBytes
  rw [rdRange_some_ok (by simpa using h)]
  generalize n.toNat = k at *
  have : k = 0 ∨ k = 1 ∨ k = 2 ∨ k = 3 ∨ k = 4 := by omega
  rcases this with rfl | rfl | rfl | rfl | rfl <;> rfl

theorem str_len_eq (len : Nat) (h : len < 4294967296) :
    (sec64_append_str_len (BitVec.ofNat 64 len)).toNat = len := by
  unfold sec64_append_str_len
  simp only [BitVec.toNat_setWidth, BitVec.toNat_ofNat, Nat.reducePow]
  omega

theorem str_len32_eq : sec32_append_str_len = sec64_append_str_len := rfl

end ElfioVerif
